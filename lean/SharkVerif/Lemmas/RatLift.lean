/-
Lifting the integer-coordinate specifications of C13 (`leAll`, `dominates`, `rankSpec`,
`hvSpec`) to points with RATIONAL coordinates by "multiply by a common denominator".

For a list of rational points and a natural number `d > 0` that clears all denominators
(`Clears d p`: `(x * d).den = 1` for every coordinate `x`), `toIntPt d` maps the points to the
integer grid.  The theorems below show that
  * `toIntPt d` preserves and reflects the coordinate-wise order, hence dominance and ranks;
  * the rank `rankSpecQ d` and the hypervolume `hvSpecQ d` (= integer hypervolume / `d ^ m`)
    do not depend on the choice of the common denominator `d`
(by `rankSpec_scale` / `hvSpec_scale` of `Lemmas/Scale.lean`, going through `d * d'`).
-/
import SharkVerif.Lemmas.Scale
import Mathlib.Data.Rat.Defs
import Mathlib.Algebra.Order.Field.Rat
import Mathlib.Tactic.Ring
import Mathlib.Tactic.FieldSimp
import Mathlib.Tactic.NormNum
namespace SharkVerif.HV
open SharkVerif.Pareto

/-- points with rational coordinates -/
abbrev QPt := List Rat

/-- scale by `d` and take numerators (meaningful when `d` clears the denominators of `p`) -/
def toIntPt (d : Nat) (p : QPt) : Pt := p.map fun (x : Rat) => (x * (d : Rat)).num

/-- `d` is a common multiple of the denominators of the coordinates of `p` -/
def Clears (d : Nat) (p : QPt) : Prop := ∀ x ∈ p, (x * (d : Rat)).den = 1

/-- the hypervolume of rational points: the integer hypervolume of the points scaled by the common
denominator `d`, divided by `d ^ m` -/
def hvSpecQ (d : Nat) (S : List QPt) (r : QPt) : Rat :=
  (hvSpec (S.map (toIntPt d)) (toIntPt d r) : Rat) / (d : Rat) ^ r.length

/-- the non-domination rank of rational points, via the common denominator `d` -/
def rankSpecQ (d : Nat) (S : List QPt) (p : QPt) : Nat :=
  rankSpec (S.map (toIntPt d)) (toIntPt d p)

/-- coordinate-wise `≤` on rational points (the analogue of `leAll`) -/
def leAllQ : QPt → QPt → Bool
  | [], [] => true
  | a :: as, b :: bs => decide (a ≤ b) && leAllQ as bs
  | _, _ => false

/-- strict Pareto dominance on rational points -/
def dominatesQ (p q : QPt) : Bool := leAllQ p q && !leAllQ q p

@[simp] theorem length_toIntPt (d : Nat) (p : QPt) : (toIntPt d p).length = p.length := by
  simp [toIntPt]

theorem clears_cons {d : Nat} {a : Rat} {p : QPt} :
    Clears d (a :: p) ↔ (a * d).den = 1 ∧ Clears d p := by
  simp [Clears]

/-! ### `toIntPt d` is an order embedding -/

theorem num_le_num_iff {d : Nat} (hd : 0 < d) {a b : Rat} (ha : (a * d).den = 1) (hb : (b * d).den = 1) :
    (a * d).num ≤ (b * d).num ↔ a ≤ b := by
  have hd' : (0 : Rat) < (d : Rat) := by exact_mod_cast hd
  rw [← mul_le_mul_iff_of_pos_right hd', ← Rat.coe_int_num_of_den_eq_one ha,
    ← Rat.coe_int_num_of_den_eq_one hb, Int.cast_le, Rat.coe_int_num_of_den_eq_one ha,
    Rat.coe_int_num_of_den_eq_one hb]

/-- **the scaled integer points are ordered exactly like the rational points** -/
theorem leAll_toIntPt {d : Nat} (hd : 0 < d) : ∀ (p q : QPt), Clears d p → Clears d q →
    leAll (toIntPt d p) (toIntPt d q) = leAllQ p q
  | [], [], _, _ => rfl
  | [], _ :: _, _, _ => rfl
  | _ :: _, [], _, _ => rfl
  | a :: p, b :: q, hp, hq => by
    rw [clears_cons] at hp hq
    simp only [toIntPt, List.map_cons, leAll, leAllQ]
    have ih := leAll_toIntPt hd p q hp.2 hq.2
    simp only [toIntPt] at ih
    rw [ih]
    congr 1
    exact decide_eq_decide.mpr (num_le_num_iff hd hp.1 hq.1)

example : leAll (toIntPt 6 [1/2, -2/3]) (toIntPt 6 [1/2, 1/6]) = true ∧ leAllQ [1/2, -2/3] [1/2, 1/6] = true := by
  constructor
  · have e : toIntPt 6 [1/2, -2/3] = [3, -4] ∧ toIntPt 6 [1/2, 1/6] = [3, 1] := by
      constructor <;> (simp only [toIntPt, List.map]; norm_num)
    rw [e.1, e.2]; decide
  · simp only [leAllQ]; norm_num

theorem dominates_toIntPt {d : Nat} (hd : 0 < d) (p q : QPt) (hp : Clears d p) (hq : Clears d q) :
    dominates (toIntPt d p) (toIntPt d q) = dominatesQ p q := by
  simp [dominates, dominatesQ, leAll_toIntPt hd p q hp hq, leAll_toIntPt hd q p hq hp]

/-! ### changing the common denominator -/

/-- passing from the common denominator `d` to the multiple `d * d'` scales the integer point by `d'` -/
theorem toIntPt_mul (d d' : Nat) (p : QPt) (hp : Clears d p) :
    toIntPt (d * d') p = scalePt (d' : Int) (toIntPt d p) := by
  unfold toIntPt scalePt
  rw [List.map_map]
  apply List.map_congr_left
  intro x hx
  have h := Rat.coe_int_num_of_den_eq_one (hp x hx)
  have e : x * ((d * d' : Nat) : Rat) = (((d' : Int) * (x * d).num : Int) : Rat) := by
    push_cast
    rw [h]
    ring
  simp only [Function.comp, e, Rat.num_intCast]

theorem clears_mul {d : Nat} (d' : Nat) {p : QPt} (hp : Clears d p) : Clears (d * d') p := by
  intro x hx
  have h := Rat.coe_int_num_of_den_eq_one (hp x hx)
  have e : x * ((d * d' : Nat) : Rat) = (((d' : Int) * (x * d).num : Int) : Rat) := by
    push_cast
    rw [h]
    ring
  rw [e, Rat.den_intCast]

theorem map_toIntPt_mul (d d' : Nat) (S : List QPt) (hS : ∀ p ∈ S, Clears d p) :
    S.map (toIntPt (d * d')) = (S.map (toIntPt d)).map (scalePt (d' : Int)) := by
  rw [List.map_map]
  apply List.map_congr_left
  intro p hp
  exact toIntPt_mul d d' p (hS p hp)

theorem hvSpecQ_mul {d d' : Nat} (hd : 0 < d) (hd' : 0 < d') (S : List QPt) (r : QPt)
    (hS : ∀ p ∈ S, Clears d p) (hr : Clears d r) : hvSpecQ (d * d') S r = hvSpecQ d S r := by
  unfold hvSpecQ
  rw [map_toIntPt_mul d d' S hS, toIntPt_mul d d' r hr,
    hvSpec_scale (by exact_mod_cast hd' : (0 : Int) < (d' : Int)), Int.toNat_natCast, length_toIntPt]
  have h1 : (d : Rat) ≠ 0 := by exact_mod_cast Nat.pos_iff_ne_zero.mp hd
  have h2 : (d' : Rat) ≠ 0 := by exact_mod_cast Nat.pos_iff_ne_zero.mp hd'
  push_cast
  rw [mul_pow]
  field_simp

/-- **the rational hypervolume does not depend on the common denominator** -/
theorem hvSpecQ_indep {d d' : Nat} (hd : 0 < d) (hd' : 0 < d') (S : List QPt) (r : QPt)
    (hS : ∀ p ∈ S, Clears d p) (hr : Clears d r) (hS' : ∀ p ∈ S, Clears d' p) (hr' : Clears d' r) :
    hvSpecQ d S r = hvSpecQ d' S r := by
  rw [← hvSpecQ_mul hd hd' S r hS hr, Nat.mul_comm, hvSpecQ_mul hd' hd S r hS' hr']

/-- the box `[1/2, 3/2) × [1, 2)` has area 1, computed with the denominators 2 and 4 -/
example : hvSpecQ 2 [[1/2, 1]] [3/2, 2] = 1 ∧ hvSpecQ 4 [[1/2, 1]] [3/2, 2] = 1 := by
  have e2 : toIntPt 2 [1/2, 1] = [1, 2] ∧ toIntPt 2 [3/2, 2] = [3, 4] := by
    constructor <;> (simp only [toIntPt, List.map]; norm_num)
  have e4 : toIntPt 4 [1/2, 1] = [2, 4] ∧ toIntPt 4 [3/2, 2] = [6, 8] := by
    constructor <;> (simp only [toIntPt, List.map]; norm_num)
  have h2 : hvSpec [[1, 2]] [3, 4] = 4 := by decide
  have h4 : hvSpec [[2, 4]] [6, 8] = 16 := by decide
  constructor
  · simp only [hvSpecQ, List.map, e2.1, e2.2, h2]; norm_num
  · simp only [hvSpecQ, List.map, e4.1, e4.2, h4]; norm_num

theorem rankSpecQ_mul {d d' : Nat} (hd' : 0 < d') (S : List QPt) (p : QPt)
    (hS : ∀ q ∈ S, Clears d q) (hp : Clears d p) : rankSpecQ (d * d') S p = rankSpecQ d S p := by
  unfold rankSpecQ
  rw [map_toIntPt_mul d d' S hS, toIntPt_mul d d' p hp,
    rankSpec_scale (by exact_mod_cast hd' : (0 : Int) < (d' : Int))]

/-- **the rank of a rational point does not depend on the common denominator** -/
theorem rankSpecQ_indep {d d' : Nat} (hd : 0 < d) (hd' : 0 < d') (S : List QPt) (p : QPt)
    (hS : ∀ q ∈ S, Clears d q) (hp : Clears d p) (hS' : ∀ q ∈ S, Clears d' q) (hp' : Clears d' p) :
    rankSpecQ d S p = rankSpecQ d' S p := by
  rw [← rankSpecQ_mul hd' S p hS hp, Nat.mul_comm, rankSpecQ_mul hd S p hS' hp']

/-- `rankSpecQ` satisfies the defining equation of the rank *for the rational dominance relation*:
one plus the largest rank of a dominating point of `S` -/
theorem rankSpecQ_eq {d : Nat} (hd : 0 < d) (S : List QPt) (p : QPt)
    (hS : ∀ q ∈ S, Clears d q) (hp : Clears d p) :
    rankSpecQ d S p = 1 + ((S.filter fun q => dominatesQ q p).map (rankSpecQ d S)).foldl max 0 := by
  unfold rankSpecQ
  rw [rankSpec_eq, List.filter_map, List.map_map]
  have hfilt : S.filter ((fun q => dominates q (toIntPt d p)) ∘ toIntPt d) =
      S.filter fun q => dominatesQ q p := by
    apply List.filter_congr
    intro q hq
    exact dominates_toIntPt hd q p (hS q hq) hp
  rw [hfilt]
  rfl

/-! ### integer points are the special case `d = 1` -/

/-- an integer point as a rational point -/
def castPt (p : Pt) : QPt := p.map Int.cast

theorem clears_castPt (d : Nat) (p : Pt) : Clears d (castPt p) := by
  intro x hx
  obtain ⟨a, _, rfl⟩ := List.mem_map.mp hx
  have e : (a : Rat) * (d : Rat) = ((a * (d : Int) : Int) : Rat) := by push_cast; rfl
  rw [e, Rat.den_intCast]

theorem toIntPt_one_castPt (p : Pt) : toIntPt 1 (castPt p) = p := by
  unfold toIntPt castPt
  rw [List.map_map]
  conv => rhs; rw [← List.map_id p]
  apply List.map_congr_left
  intro a _
  simp

/-- on integer points the rational hypervolume (with any `d > 0`) is the integer hypervolume -/
theorem hvSpecQ_castPt {d : Nat} (hd : 0 < d) (S : List Pt) (r : Pt) :
    hvSpecQ d (S.map castPt) (castPt r) = (hvSpec S r : Rat) := by
  have h1 : hvSpecQ d (S.map castPt) (castPt r) = hvSpecQ 1 (S.map castPt) (castPt r) :=
    hvSpecQ_indep hd Nat.one_pos _ _
      (fun p hp => by obtain ⟨q, _, rfl⟩ := List.mem_map.mp hp; exact clears_castPt d q)
      (clears_castPt d r)
      (fun p hp => by obtain ⟨q, _, rfl⟩ := List.mem_map.mp hp; exact clears_castPt 1 q)
      (clears_castPt 1 r)
  rw [h1]
  unfold hvSpecQ
  rw [List.map_map, toIntPt_one_castPt]
  have : (S.map (toIntPt 1 ∘ castPt)) = S := by
    conv => rhs; rw [← List.map_id S]
    apply List.map_congr_left
    intro p _
    exact toIntPt_one_castPt p
  rw [this]
  simp

end SharkVerif.HV
