/-
C20: soundness of the lock discipline on the machine with explicit, possibly nested locks: if every access to a
protected location happens lexically inside a section of its lock, then at every point of every schedule no two
threads are about to perform conflicting accesses (no data race).
-/
import SharkVerif.Model.ParLock
import SharkVerif.Lemmas.Par
namespace SharkVerif.Par
variable {V : Type}

def LInstr.touches : LInstr V → Loc → Prop
  | .load _ l', l => l' = l
  | .store l' _, l => l' = l
  | _, _ => False

def LInstr.writesTo : LInstr V → Loc → Prop
  | .store l' _, l => l' = l
  | _, _ => False

/-- the static lock discipline of one thread program (`prot l = some k`: location `l` is protected by lock `k`) -/
structure Disciplined (prot : Loc → Option Nat) (p : List (LInstr V)) : Prop where
  acc : ∀ n i, p[n]? = some i → ∀ l, i.touches l → ∀ k, prot l = some k → k ∈ locksAt p n
  acq : ∀ n k, p[n]? = some (.acquire k) → k ∉ locksAt p n
  rel : ∀ n k, p[n]? = some (.release k) → k ∈ locksAt p n

theorem locksAt_succ (p : List (LInstr V)) (n : Nat) (i : LInstr V) (h : p[n]? = some i) :
    locksAt p (n+1) = lockStep (locksAt p n) i := by
  unfold locksAt
  rw [List.take_succ, h]
  simp [List.foldl_append]

theorem locksAt_nodup (prot : Loc → Option Nat) (p : List (LInstr V)) (hd : Disciplined prot p) :
    ∀ n, (locksAt p n).Nodup := by
  intro n
  induction n with
  | zero => simp [locksAt]
  | succ n ih =>
    cases h : p[n]? with
    | none =>
      have : p.take (n+1) = p.take n := by rw [List.take_succ, h]; simp
      unfold locksAt at *; rw [this]; exact ih
    | some i =>
      rw [locksAt_succ p n i h]
      cases i with
      | load r l => exact ih
      | store l f => exact ih
      | acquire k => exact List.nodup_cons.2 ⟨hd.acq n k h, ih⟩
      | release k => exact ih.erase k

/-- invariant: every thread is at some position of its program, and lock `k` is owned by `t` exactly when `k` is
lexically open at `t`'s position -/
def LInv (progs : Nat → List (LInstr V)) (c : LCfg V) : Prop :=
  ∃ pos : Nat → Nat, (∀ t, c.prog t = (progs t).drop (pos t)) ∧
    (∀ k t, c.owner k = some t ↔ k ∈ locksAt (progs t) (pos t))

theorem linv_init (m0 : Store V) (r0 : Nat → Regs V) (progs : Nat → List (LInstr V)) : LInv progs (linit m0 r0 progs) :=
  ⟨fun _ => 0, fun _ => by simp [linit], fun k t => by simp [linit, locksAt]⟩

theorem linv_step (prot : Loc → Option Nat) (progs : Nat → List (LInstr V)) (hd : ∀ t, Disciplined prot (progs t))
    {c : LCfg V} (h : LInv progs c) (t : Nat) : LInv progs (lstep c t) := by
  obtain ⟨pos, hpos, hown⟩ := h
  unfold lstep
  split
  · exact ⟨pos, hpos, hown⟩
  · rename_i r l rest hp
    rw [hpos t] at hp
    obtain ⟨_, hdrop, hget⟩ := take_succ_of_drop hp
    refine ⟨updAt pos t (pos t + 1), ?_, ?_⟩
    · intro u; by_cases e : u = t
      · subst e; simp [updAt, hdrop]
      · simp [updAt, e, hpos u]
    · intro k u; by_cases e : u = t
      · subst e; simp only [updAt, ↓reduceIte]; rw [locksAt_succ _ _ _ hget]; exact hown k u
      · simp only [updAt, e, ↓reduceIte]; exact hown k u
  · rename_i l f rest hp
    rw [hpos t] at hp
    obtain ⟨_, hdrop, hget⟩ := take_succ_of_drop hp
    refine ⟨updAt pos t (pos t + 1), ?_, ?_⟩
    · intro u; by_cases e : u = t
      · subst e; simp [updAt, hdrop]
      · simp [updAt, e, hpos u]
    · intro k u; by_cases e : u = t
      · subst e; simp only [updAt, ↓reduceIte]; rw [locksAt_succ _ _ _ hget]; exact hown k u
      · simp only [updAt, e, ↓reduceIte]; exact hown k u
  · rename_i k rest hp
    rw [hpos t] at hp
    obtain ⟨_, hdrop, hget⟩ := take_succ_of_drop hp
    split
    · rename_i hnone
      refine ⟨updAt pos t (pos t + 1), ?_, ?_⟩
      · intro u; by_cases e : u = t
        · subst e; simp [updAt, hdrop]
        · simp [updAt, e, hpos u]
      · intro k' u
        by_cases e : u = t
        · subst e
          simp only [updAt, ↓reduceIte]
          rw [locksAt_succ _ _ _ hget]
          simp only [lockStep, List.mem_cons]
          by_cases ek : k' = k
          · subst ek; simp
          · simp only [ek, ↓reduceIte, false_or]; exact hown k' u
        · simp only [updAt, e, ↓reduceIte]
          by_cases ek : k' = k
          · subst ek
            simp only [↓reduceIte]
            constructor
            · intro h'; exact absurd (Option.some.inj h').symm e
            · intro h'
              have := (hown k' u).2 h'
              rw [hnone] at this; cases this
          · simp only [ek, ↓reduceIte]; exact hown k' u
    · exact ⟨pos, hpos, hown⟩
  · rename_i k rest hp
    rw [hpos t] at hp
    obtain ⟨_, hdrop, hget⟩ := take_succ_of_drop hp
    have hin : k ∈ locksAt (progs t) (pos t) := (hd t).rel _ _ hget
    have hot : c.owner k = some t := (hown k t).2 hin
    simp only [hot, ↓reduceIte]
    refine ⟨updAt pos t (pos t + 1), ?_, ?_⟩
    · intro u; by_cases e : u = t
      · subst e; simp [updAt, hdrop]
      · simp [updAt, e, hpos u]
    · intro k' u
      have hnd := locksAt_nodup prot (progs t) (hd t) (pos t)
      by_cases e : u = t
      · subst e
        simp only [updAt, ↓reduceIte]
        rw [locksAt_succ _ _ _ hget]
        simp only [lockStep]
        by_cases ek : k' = k
        · subst ek
          simp only [↓reduceIte]
          constructor
          · intro h'; cases h'
          · intro h'; exact absurd h' (fun hm => (List.Nodup.mem_erase_iff hnd).1 hm |>.1 rfl)
        · simp only [ek, ↓reduceIte]
          rw [List.mem_erase_of_ne ek]
          exact hown k' u
      · simp only [updAt, e, ↓reduceIte]
        by_cases ek : k' = k
        · subst ek
          simp only [↓reduceIte]
          constructor
          · intro h'; cases h'
          · intro h'
            have := (hown k' u).2 h'
            rw [hot] at this
            exact absurd (Option.some.inj this).symm e
        · simp only [ek, ↓reduceIte]; exact hown k' u

theorem linv_run (prot : Loc → Option Nat) (progs : Nat → List (LInstr V)) (hd : ∀ t, Disciplined prot (progs t))
    (sched : List Nat) : ∀ {c : LCfg V}, LInv progs c → LInv progs (lrun c sched) := by
  induction sched with
  | nil => intro c h; exact h
  | cons t s ih => intro c h; exact ih (linv_step prot progs hd h t)

/-- thread `t`'s next instruction touches / writes location `l` -/
def nextTouches (c : LCfg V) (t : Nat) (l : Loc) : Prop := ∃ (i : LInstr V) (rest : List (LInstr V)), c.prog t = i :: rest ∧ i.touches l
def nextWrites (c : LCfg V) (t : Nat) (l : Loc) : Prop := ∃ (i : LInstr V) (rest : List (LInstr V)), c.prog t = i :: rest ∧ i.writesTo l

/-- somewhere in its program the thread touches / writes `l` -/
def everTouches (p : List (LInstr V)) (l : Loc) : Prop := ∃ (n : Nat) (i : LInstr V), p[n]? = some i ∧ i.touches l
def everWrites (p : List (LInstr V)) (l : Loc) : Prop := ∃ (n : Nat) (i : LInstr V), p[n]? = some i ∧ i.writesTo l

theorem writesTo_touches (i : LInstr V) (l : Loc) (h : i.writesTo l) : i.touches l := by
  cases i <;> simp_all [LInstr.writesTo, LInstr.touches]

/-- **lock discipline ⇒ no data race, at every point of every schedule**, with nested critical sections and any
number of threads and locks: if thread `t` is about to write `l`, no other thread is about to read or write `l`.
Protected locations: both threads would own the protecting lock.  Unprotected locations: static disjointness. -/
theorem no_race_of_inv (prot : Loc → Option Nat) (progs : Nat → List (LInstr V)) (hd : ∀ t, Disciplined prot (progs t))
    (hord : ∀ t u, t ≠ u → ∀ l, prot l = none → everWrites (progs t) l → ¬ everTouches (progs u) l)
    {c : LCfg V} (hinv : LInv progs c) (t u : Nat) (htu : t ≠ u) (l : Loc)
    (hw : nextWrites c t l) (ht : nextTouches c u l) : False := by
  obtain ⟨pos, hpos, hown⟩ := hinv
  obtain ⟨i, rest, hp, hi⟩ := hw
  obtain ⟨i', rest', hp', hi'⟩ := ht
  rw [hpos t] at hp
  rw [hpos u] at hp'
  obtain ⟨_, _, hget⟩ := take_succ_of_drop hp
  obtain ⟨_, _, hget'⟩ := take_succ_of_drop hp'
  cases hk : prot l with
  | none => exact hord t u htu l hk ⟨pos t, i, hget, hi⟩ ⟨pos u, i', hget', hi'⟩
  | some k =>
    have h1 : c.owner k = some t := (hown k t).2 ((hd t).acc _ _ hget l (writesTo_touches i l hi) k hk)
    have h2 : c.owner k = some u := (hown k u).2 ((hd u).acc _ _ hget' l hi' k hk)
    rw [h1] at h2
    exact htu (Option.some.inj h2)

/-- mutual exclusion: a lock is lexically open in at most one thread at any time -/
theorem mutual_exclusion (progs : Nat → List (LInstr V)) {c : LCfg V} (hinv : LInv progs c) :
    ∃ pos : Nat → Nat, ∀ k t u, k ∈ locksAt (progs t) (pos t) → k ∈ locksAt (progs u) (pos u) → t = u := by
  obtain ⟨pos, _, hown⟩ := hinv
  refine ⟨pos, fun k t u h1 h2 => ?_⟩
  have a := (hown k t).2 h1
  have b := (hown k u).2 h2
  rw [a] at b
  exact Option.some.inj b

/-- executable check of the lock discipline of one thread program -/
def instrOK (prot : Loc → Option Nat) (held : List Nat) : LInstr V → Bool
  | .load _ l => match prot l with | some k => held.contains k | none => true
  | .store l _ => match prot l with | some k => held.contains k | none => true
  | .acquire k => !held.contains k
  | .release k => held.contains k

def disciplinedB (prot : Loc → Option Nat) (p : List (LInstr V)) : Bool :=
  (List.range p.length).all fun n => match p[n]? with
    | some i => instrOK prot (locksAt p n) i
    | none => true

theorem disciplined_of_check (prot : Loc → Option Nat) (p : List (LInstr V)) (h : disciplinedB prot p = true) :
    Disciplined prot p := by
  have key : ∀ n i, p[n]? = some i → instrOK prot (locksAt p n) i = true := by
    intro n i hi
    have hn : n < p.length := by
      rcases Nat.lt_or_ge n p.length with h1 | h1
      · exact h1
      · rw [List.getElem?_eq_none h1] at hi; cases hi
    have := List.all_eq_true.1 h n (List.mem_range.2 hn)
    simpa [hi] using this
  refine ⟨?_, ?_, ?_⟩
  · intro n i hi l ht k hk
    have := key n i hi
    cases i with
    | load r l' => simp [LInstr.touches] at ht; subst ht; simpa [instrOK, hk] using this
    | store l' f => simp [LInstr.touches] at ht; subst ht; simpa [instrOK, hk] using this
    | acquire k' => simp [LInstr.touches] at ht
    | release k' => simp [LInstr.touches] at ht
  · intro n k hi
    have := key n _ hi
    simpa [instrOK] using this
  · intro n k hi
    have := key n _ hi
    simpa [instrOK] using this

end SharkVerif.Par
