/-
Lemmas about the coordinate step of the dedicated linear solver (`Model/McLinear.lean`,
QpBoxLinear.h) at `α := Rat`.
-/
import SharkVerif.Model.McLinear
import Mathlib.Tactic.Ring
import Mathlib.Tactic.Linarith
import Mathlib.Tactic.NormNum
import Mathlib.Tactic.FieldSimp
import Mathlib.Algebra.BigOperators.Ring.Finset
import Mathlib.Algebra.BigOperators.Intervals
import Mathlib.Algebra.Order.Field.Rat
import Mathlib.Tactic.NormNum.OfScientific

namespace SharkVerif.Mc
open Finset

/-- the clipped step always satisfies `new_a = a + mu` -/
theorem linMu_sum (bound a g q : Rat) : (linMu bound a g q).2 = a + (linMu bound a g q).1 := by
  unfold linMu
  simp only
  split_ifs <;> norm_num

/-- and lands in `[0, bound]` -/
theorem linMu_mem (bound a g q : Rat) (hb : 0 ≤ bound) :
    0 ≤ (linMu bound a g q).2 ∧ (linMu bound a g q).2 ≤ bound := by
  unfold linMu
  simp only
  split_ifs with h1 h2
  · norm_num; exact hb
  · exact ⟨hb, le_refl _⟩
  · norm_num at h1 h2; exact ⟨le_of_lt h1, le_of_lt h2⟩

/-- **linear_w_inv** (dual state consistent): `w = Σ_i α_i y_i x_i` -/
def WInv (D : LinData Rat) (s : LinState Rat) : Prop :=
  ∀ k, s.w k = ∑ i ∈ range D.n, s.alpha i * D.ysign i * D.x i k

/-- **linear_box_inv** -/
def LinBoxInv (D : LinData Rat) (s : LinState Rat) : Prop :=
  ∀ i < D.n, 0 ≤ s.alpha i ∧ s.alpha i ≤ D.bound

theorem wInv_init (D : LinData Rat) : WInv D (linInit : LinState Rat) := by
  intro k
  have h0 : (0.0 : Rat) = 0 := by norm_num
  simp [linInit, h0]

theorem linBoxInv_init (D : LinData Rat) (hb : 0 ≤ D.bound) : LinBoxInv D (linInit : LinState Rat) := by
  intro i _
  have h0 : (0.0 : Rat) = 0 := by norm_num
  simp only [linInit, h0]
  exact ⟨le_refl _, hb⟩

/-- the state after a step: unchanged, or `alpha i` and `w` moved by the clipped `mu` -/
def steppedState (D : LinData Rat) (s : LinState Rat) (i : Nat) : LinState Rat :=
  let r := linMu D.bound (s.alpha i) (linGrad D s i) (D.xsq i + D.reg)
  { alpha := fun j => if j = i then r.2 else s.alpha j,
    w := fun k => s.w k + (r.1 * D.ysign i) * D.x i k }

theorem linStep_cases (D : LinData Rat) (s : LinState Rat) (i : Nat) :
    (linStep D s i).1 = s ∨ (linStep D s i).1 = steppedState D s i := by
  unfold linStep steppedState
  simp only
  split_ifs <;> simp

theorem wInv_stepped (D : LinData Rat) (s : LinState Rat) (h : WInv D s) (i : Nat) (hi : i < D.n) :
    WInv D (steppedState D s i) := by
  intro k
  unfold steppedState
  simp only
  rw [h k]
  have hsum : ∑ j ∈ range D.n, (if j = i then (linMu D.bound (s.alpha i) (linGrad D s i) (D.xsq i + D.reg)).2 else s.alpha j)
        * D.ysign j * D.x j k
      = ∑ j ∈ range D.n, (s.alpha j * D.ysign j * D.x j k
          + if j = i then (linMu D.bound (s.alpha i) (linGrad D s i) (D.xsq i + D.reg)).1 * D.ysign j * D.x j k else 0) := by
    apply Finset.sum_congr rfl
    intro j _
    by_cases hj : j = i
    · subst hj; simp only [if_true]; rw [linMu_sum]; ring
    · simp [hj]
  rw [hsum, Finset.sum_add_distrib, Finset.sum_ite_eq' (range D.n) i]
  simp [hi]

theorem wInv_step (D : LinData Rat) (s : LinState Rat) (h : WInv D s) (i : Nat) (hi : i < D.n) :
    WInv D (linStep D s i).1 := by
  rcases linStep_cases D s i with h1 | h1 <;> rw [h1]
  · exact h
  · exact wInv_stepped D s h i hi

theorem linBoxInv_step (D : LinData Rat) (hb : 0 ≤ D.bound) (s : LinState Rat) (h : LinBoxInv D s) (i : Nat) :
    LinBoxInv D (linStep D s i).1 := by
  rcases linStep_cases D s i with h1 | h1 <;> rw [h1]
  · exact h
  · intro j hj
    unfold steppedState
    simp only
    by_cases hji : j = i
    · simp only [hji, if_true]; exact linMu_mem _ _ _ _ hb
    · simp only [hji, if_false]; exact h j hj

/-- gain of the clipped step `mu*(g - q*mu/2)` is non-negative for a positive curvature `q` and a
feasible current value -/
theorem linMu_gain_nonneg (bound a g q : Rat) (hq : 0 < q) (ha : 0 ≤ a) (hab : a ≤ bound) :
    0 ≤ (linMu bound a g q).1 * (g - (0.5 : Rat) * q * (linMu bound a g q).1) := by
  have h05 : (0.5 : Rat) = 1 / 2 := by norm_num
  rw [h05]
  unfold linMu
  simp only
  split_ifs with h1 h2
  · -- clipped at 0: a + g/q ≤ 0, mu = -a
    have h1' : a + g / q ≤ 0 := by norm_num at h1; exact h1
    have hg : g ≤ -a * q := by
      have : g / q ≤ -a := by linarith
      calc g = g / q * q := by field_simp
        _ ≤ -a * q := by exact mul_le_mul_of_nonneg_right this (le_of_lt hq)
    nlinarith [mul_nonneg ha (le_of_lt hq)]
  · -- clipped at bound: a + g/q ≥ bound, mu = bound - a ≥ 0
    have h2' : bound ≤ a + g / q := h2
    have hmu : 0 ≤ bound - a := by linarith
    have hg : (bound - a) * q ≤ g := by
      have : bound - a ≤ g / q := by linarith
      calc (bound - a) * q ≤ g / q * q := mul_le_mul_of_nonneg_right this (le_of_lt hq)
        _ = g := by field_simp
    nlinarith [mul_nonneg hmu (le_of_lt hq)]
  · -- free step: mu = g/q, gain = g^2/(2q)
    have : g / q * (g - 1 / 2 * q * (g / q)) = g * g / (2 * q) := by field_simp; ring
    rw [this]
    exact div_nonneg (mul_self_nonneg g) (by linarith)

theorem linStep_gain_nonneg (D : LinData Rat) (s : LinState Rat) (i : Nat)
    (hq : 0 < D.xsq i + D.reg) (ha : 0 ≤ s.alpha i) (hab : s.alpha i ≤ D.bound) :
    0 ≤ (linStep D s i).2 := by
  unfold linStep
  simp only
  split_ifs
  all_goals first
    | exact linMu_gain_nonneg _ _ _ _ hq ha hab
    | norm_num

/-- both invariants along every schedule (induction over the schedule) -/
theorem lin_inv_sweep (D : LinData Rat) (hb : 0 ≤ D.bound) (sched : List Nat) (hs : ∀ i ∈ sched, i < D.n) :
    ∀ s : LinState Rat, WInv D s → LinBoxInv D s →
      WInv D (linSweep D s sched) ∧ LinBoxInv D (linSweep D s sched) := by
  induction sched with
  | nil => intro s h1 h2; exact ⟨h1, h2⟩
  | cons i rest ih =>
    intro s h1 h2
    simp only [linSweep, List.foldl_cons]
    exact ih (fun j hj => hs j (List.mem_cons_of_mem _ hj)) _
      (wInv_step D s h1 i (hs i (List.mem_cons_self ..))) (linBoxInv_step D hb s h2 i)

end SharkVerif.Mc
