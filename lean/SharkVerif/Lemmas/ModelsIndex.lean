/-
C04 (further models): index-type facts, for all sizes.

* `argmax` / `classifyRow` (model of `Classifier<…>`): the decision is the *first* maximal entry.
* `Diag` (model of `Normalizer`): batch = single evaluation, parameter vector round trip.
* `Gather` (linear gather, model of `ResizeLayer`): batch = single evaluation and, over `ℝ`,
  the weighted input derivative is the partial derivative of the coefficient-weighted output sum.
-/
import Mathlib.Algebra.Order.Field.Rat
import Mathlib.Analysis.Calculus.Deriv.Add
import Mathlib.Analysis.Calculus.Deriv.Mul
import Mathlib.Algebra.BigOperators.Group.List.Basic
import Mathlib.Tactic.Ring
import Mathlib.Tactic.Linarith
import Mathlib.Tactic.NormNum
import SharkVerif.Model.Models2
import SharkVerif.Lemmas.Models
import SharkVerif.Lemmas.ModelsDeriv
import SharkVerif.Lemmas.LossDeriv
namespace SharkVerif.Models
open Scalar SharkVerif.Loss

/-! ## (a) arg-max: index of the first maximal entry -/

/-- invariant of the `foldl` of `argmax` after the first `n` steps -/
theorem argmax_inv (n : Nat) (z : Nat → Rat) :
    argmax n z ≤ n - 1 ∧ (∀ k, k < n → z k ≤ z (argmax n z)) ∧ (∀ k, k < argmax n z → z k < z (argmax n z)) := by
  induction n with
  | zero => simp [argmax]
  | succ n ih =>
    have hstep : argmax (n + 1) z = if z (argmax n z) < z n then n else argmax n z := by
      unfold argmax
      rw [List.range_succ, List.foldl_append]
      rfl
    obtain ⟨h1, h2, h3⟩ := ih
    rw [hstep]
    by_cases hlt : z (argmax n z) < z n
    · simp only [hlt, ↓reduceIte]
      refine ⟨by omega, ?_, ?_⟩
      · intro k hk
        rcases Nat.lt_or_ge k n with h | h
        · exact le_of_lt (lt_of_le_of_lt (h2 k h) hlt)
        · have : k = n := by omega
          rw [this]
      · intro k hk
        exact lt_of_le_of_lt (h2 k hk) hlt
    · simp only [hlt, ↓reduceIte]
      refine ⟨by omega, ?_, h3⟩
      intro k hk
      rcases Nat.lt_or_ge k n with h | h
      · exact h2 k h
      · have : k = n := by omega
        rw [this]; exact not_lt.1 hlt

/-- the decision is a valid class index -/
theorem argmax_lt (n : Nat) (z : Nat → Rat) (hn : 0 < n) : argmax n z < n := by
  have := (argmax_inv n z).1; omega

/-- the decision is a maximal entry … -/
theorem argmax_max (n : Nat) (z : Nat → Rat) (k : Nat) (hk : k < n) : z k ≤ z (argmax n z) :=
  (argmax_inv n z).2.1 k hk

/-- … and the first one: every earlier entry is strictly smaller -/
theorem argmax_first (n : Nat) (z : Nat → Rat) (k : Nat) (hk : k < argmax n z) : z k < z (argmax n z) :=
  (argmax_inv n z).2.2 k hk

/-- these three facts characterise the decision uniquely -/
theorem argmax_unique_char (n : Nat) (z : Nat → Rat) (hn : 0 < n) (a : Nat) (ha : a < n)
    (hmax : ∀ k, k < n → z k ≤ z a) (hfirst : ∀ k, k < a → z k < z a) : argmax n z = a := by
  have hr := argmax_lt n z hn
  rcases Nat.lt_trichotomy (argmax n z) a with h | h | h
  · exact absurd (hfirst _ h) (not_lt.2 (argmax_max n z a ha))
  · exact h
  · exact absurd (argmax_first n z a h) (not_lt.2 (hmax _ hr))

/-- sample row `2, 5, 2` for the non-vacuity examples -/
private def zEx : Nat → Rat := fun k => if k = 1 then 5 else 2

private theorem argmax_zEx : argmax 3 zEx = 1 := by
  apply argmax_unique_char 3 zEx (by decide) 1 (by decide)
  · intro k hk
    by_cases h : k = 1 <;> simp [zEx, h]
    norm_num
  · intro k hk
    have : k ≠ 1 := by omega
    simp [zEx, this]
    norm_num

example : argmax 3 zEx < 3 := argmax_lt 3 zEx (by decide)
example : zEx 2 ≤ zEx (argmax 3 zEx) := argmax_max 3 zEx 2 (by decide)
example : zEx 0 < zEx (argmax 3 zEx) := argmax_first 3 zEx 0 (by rw [argmax_zEx]; decide)
/-- non-vacuity of `argmax_unique_char` -/
example : argmax 3 (fun k => if k = 1 then (5 : Rat) else 2) = 1 := argmax_zEx

/-! ### `classifyRow` -/

/-- more than one output (or none), no bias: plain arg-max of the row -/
theorem classifyRow_eq_argmax (nOut : Nat) (bias z : Nat → Rat) (h1 : nOut ≠ 1) :
    classifyRow nOut false bias z = argmax nOut z := by
  unfold classifyRow
  simp [h1]

/-- with bias: arg-max of the shifted row -/
theorem classifyRow_eq_argmax_bias (nOut : Nat) (bias z : Nat → Rat) (h1 : nOut ≠ 1) :
    classifyRow nOut true bias z = argmax nOut (fun k => z k + bias k) := by
  unfold classifyRow
  simp [h1]

/-- a single output is thresholded at zero -/
theorem classifyRow_one (hb : Bool) (bias z : Nat → Rat) :
    classifyRow 1 hb bias z = if 0 < z 0 + (if hb then bias 0 else 0) then 1 else 0 := by
  unfold classifyRow
  simp

theorem classifyRow_lt (nOut : Nat) (bias z : Nat → Rat) (h1 : nOut ≠ 1) (hn : 0 < nOut) :
    classifyRow nOut false bias z < nOut := by
  rw [classifyRow_eq_argmax nOut bias z h1]; exact argmax_lt _ _ hn

theorem classifyRow_max (nOut : Nat) (bias z : Nat → Rat) (h1 : nOut ≠ 1) (k : Nat) (hk : k < nOut) :
    z k ≤ z (classifyRow nOut false bias z) := by
  rw [classifyRow_eq_argmax nOut bias z h1]; exact argmax_max _ _ k hk

theorem classifyRow_first (nOut : Nat) (bias z : Nat → Rat) (h1 : nOut ≠ 1) (k : Nat)
    (hk : k < classifyRow nOut false bias z) : z k < z (classifyRow nOut false bias z) := by
  rw [classifyRow_eq_argmax nOut bias z h1] at hk ⊢; exact argmax_first _ _ k hk

/-- the biased decision is in range, maximal and first for the shifted row -/
theorem classifyRow_bias_spec (nOut : Nat) (bias z : Nat → Rat) (h1 : nOut ≠ 1) (hn : 0 < nOut) :
    classifyRow nOut true bias z < nOut ∧
    (∀ k, k < nOut → z k + bias k ≤ z (classifyRow nOut true bias z) + bias (classifyRow nOut true bias z)) ∧
    (∀ k, k < classifyRow nOut true bias z →
      z k + bias k < z (classifyRow nOut true bias z) + bias (classifyRow nOut true bias z)) := by
  rw [classifyRow_eq_argmax_bias nOut bias z h1]
  exact ⟨argmax_lt _ _ hn, fun k hk => argmax_max nOut (fun k => z k + bias k) k hk,
    fun k hk => argmax_first nOut (fun k => z k + bias k) k hk⟩

example : classifyRow 3 false (fun _ => (0 : Rat)) zEx < 3 :=
  classifyRow_lt 3 _ zEx (by decide) (by decide)
example : zEx 2 ≤ zEx (classifyRow 3 false (fun _ => (0 : Rat)) zEx) :=
  classifyRow_max 3 _ zEx (by decide) 2 (by decide)
example : zEx 0 < zEx (classifyRow 3 false (fun _ => (0 : Rat)) zEx) :=
  classifyRow_first 3 _ zEx (by decide) 0 (by rw [classifyRow_eq_argmax _ _ _ (by decide), argmax_zEx]; decide)
example : classifyRow 3 true (fun _ => (1 : Rat)) zEx < 3 :=
  (classifyRow_bias_spec 3 _ zEx (by decide) (by decide)).1
example : classifyRow 1 true (fun _ => (-3 : Rat)) (fun _ => (5 : Rat)) = 1 := by
  rw [classifyRow_one]; norm_num

/-! ## (b) `Diag` (`Normalizer`) -/

theorem diag_batch_eq_single (m : Diag Rat) (X : Nat → Nat → Rat) (i k : Nat) :
    m.evalB X i k = m.eval (X i) k := rfl

/-- rows of a batch are independent -/
theorem diag_row_independent (m : Diag Rat) (X Y : Nat → Nat → Rat) (i k : Nat)
    (h : ∀ j, X i j = Y i j) : m.evalB X i k = m.evalB Y i k := by
  rw [diag_batch_eq_single, diag_batch_eq_single]
  have : X i = Y i := funext h
  rw [this]

theorem diag_params_length (m : Diag Rat) : m.params.length = m.numberOfParameters := by
  unfold Diag.params Diag.numberOfParameters
  rw [List.length_append]
  split <;> simp

theorem diag_setParams_params_a (m : Diag Rat) (k : Nat) (hk : k < m.n) :
    (m.setParams m.params).a k = m.a k := by
  unfold Diag.setParams Diag.params
  simp only
  rw [List.getD_eq_getElem?_getD, List.getElem?_append_left (by simpa using hk)]
  simp [hk]

theorem diag_setParams_params_b (m : Diag Rat) (k : Nat) (hk : k < m.n) (hb : m.hasB = true) :
    (m.setParams m.params).b k = m.b k := by
  unfold Diag.setParams Diag.params
  simp only [hb, ↓reduceIte]
  rw [List.getD_eq_getElem?_getD, List.getElem?_append_right (by simp)]
  simp [hk]

theorem diag_params_setParams (m : Diag Rat) (p : List Rat) (hp : p.length = m.numberOfParameters) :
    (m.setParams p).params = p := by
  apply List.ext_getElem?
  intro n
  have hlen : (m.setParams p).params.length = p.length := by
    rw [diag_params_length]; unfold Diag.numberOfParameters Diag.setParams; simp only; exact hp.symm
  by_cases hn : n < p.length
  · rw [List.getElem?_eq_getElem hn]
    unfold Diag.params Diag.setParams
    simp only
    unfold Diag.numberOfParameters at hp
    by_cases hw : n < m.n
    · rw [List.getElem?_append_left (by simpa using hw), List.getElem?_map, List.getElem?_range hw]
      simp only [Option.map_some]
      rw [List.getD_eq_getElem?_getD, List.getElem?_eq_getElem hn]; rfl
    · rw [List.getElem?_append_right (by simpa using Nat.le_of_not_lt hw)]
      simp only [List.length_map, List.length_range]
      by_cases hb : m.hasB = true
      · simp only [hb, ↓reduceIte] at hp ⊢
        have hk : n - m.n < m.n := by omega
        rw [List.getElem?_map, List.getElem?_range hk]
        simp only [Option.map_some]
        rw [List.getD_eq_getElem?_getD, show m.n + (n - m.n) = n by omega,
          List.getElem?_eq_getElem hn]; rfl
      · simp only [hb] at hp
        simp at hp
        omega
  · have hn' : p.length ≤ n := by omega
    rw [List.getElem?_eq_none hn', List.getElem?_eq_none (by rw [hlen]; exact hn')]

example : (⟨2, fun k => (k : Rat) + 1, true, fun k => (k : Rat) * 3⟩ : Diag Rat).evalB
    (fun _ j => (j : Rat)) 0 1 = (⟨2, fun k => (k : Rat) + 1, true, fun k => (k : Rat) * 3⟩ : Diag Rat).evalB
    (fun i j => if i = 0 then (j : Rat) else 7) 0 1 :=
  diag_row_independent _ _ _ 0 1 (by intro j; simp)
example : ((⟨2, fun k => (k : Rat) + 1, true, fun k => (k : Rat) * 3⟩ : Diag Rat).setParams
    (⟨2, fun k => (k : Rat) + 1, true, fun k => (k : Rat) * 3⟩ : Diag Rat).params).a 1 = (1 : Rat) + 1 :=
  diag_setParams_params_a _ 1 (by decide)
example : ((⟨2, fun k => (k : Rat) + 1, true, fun k => (k : Rat) * 3⟩ : Diag Rat).setParams
    (⟨2, fun k => (k : Rat) + 1, true, fun k => (k : Rat) * 3⟩ : Diag Rat).params).b 1 = (1 : Rat) * 3 :=
  diag_setParams_params_b _ 1 (by decide) rfl
example : ((⟨2, fun _ => 0, true, fun _ => 0⟩ : Diag Rat).setParams [1, 2, 3, 4]).params = [1, 2, 3, 4] :=
  diag_params_setParams _ _ rfl

/-! ## (c) `Gather` (linear gather; `ResizeLayer`) -/

theorem gather_batch_eq_single (g : Gather Rat) (X : Nat → Nat → Rat) (i o : Nat) :
    g.evalB X i o = g.evalRow (X i) o := rfl

/-- rows of a batch are independent -/
theorem gather_row_independent (g : Gather Rat) (X Y : Nat → Nat → Rat) (i o : Nat)
    (h : ∀ j, X i j = Y i j) : g.evalB X i o = g.evalB Y i o := by
  rw [gather_batch_eq_single, gather_batch_eq_single]
  have : X i = Y i := funext h
  rw [this]

/-- derivative of a sum over a list, term by term -/
theorem hasDerivAt_list_map_sum {β : Type} (f : β → ℝ → ℝ) (f' : β → ℝ) (t0 : ℝ) :
    ∀ (l : List β), (∀ b ∈ l, HasDerivAt (f b) (f' b) t0) →
      HasDerivAt (fun t => (l.map fun b => f b t).sum) (l.map f').sum t0
  | [], _ => by simpa using hasDerivAt_const t0 (0 : ℝ)
  | b :: l, h => by
    simp only [List.map_cons, List.sum_cons]
    exact (h b (by simp)).add (hasDerivAt_list_map_sum f f' t0 l (fun a ha => h a (by simp [ha])))

theorem list_map_sum_mul_right {β : Type} (f : β → ℝ) (c : ℝ) (l : List β) :
    (l.map f).sum * c = (l.map fun b => f b * c).sum := by
  induction l with
  | nil => simp
  | cons b l ih => simp [add_mul, ih]

theorem flat_div (d p c : ℕ) (hc : c < d) : (p * d + c) / d = p := by
  have hd : 0 < d := by omega
  rw [Nat.add_comm, Nat.add_mul_div_right _ _ hd, Nat.div_eq_of_lt hc, Nat.zero_add]

theorem flat_mod (d p c : ℕ) (hc : c < d) : (p * d + c) % d = c := by
  rw [Nat.add_comm, Nat.add_mul_mod_self_right, Nat.mod_eq_of_lt hc]

theorem flat_eq_iff (d a c q0 : ℕ) (hc : c < d) : a * d + c = q0 ↔ a = q0 / d ∧ c = q0 % d := by
  constructor
  · intro h; subst h; exact ⟨(flat_div d a c hc).symm, (flat_mod d a c hc).symm⟩
  · rintro ⟨h1, h2⟩; rw [h1, h2]; exact Nat.div_add_mod' q0 d

/-- **weighted input derivative of a linear gather**: `gradXRow C q0` is the partial derivative of
the coefficient-weighted sum of all outputs w.r.t. the input entry `q0` (all sizes, all tap lists;
for `q0` outside the image both sides are what the formula gives, no range hypothesis needed) -/
theorem gather_input_derivative_correct (g : Gather ℝ) (x C : ℕ → ℝ) (q0 : ℕ) (hd : 0 < g.d) :
    HasDerivAt (fun t => ∑ p ∈ Finset.range g.nOutPix, ∑ c ∈ Finset.range g.d,
        C (p * g.d + c) * g.evalRow (fun q => if q = q0 then t else x q) (p * g.d + c))
      (g.gradXRow C q0) (x q0) := by
  have hq : q0 % g.d < g.d := Nat.mod_lt _ hd
  have hval : g.gradXRow C q0 = ∑ p ∈ Finset.range g.nOutPix, ∑ c ∈ Finset.range g.d,
      C (p * g.d + c) * ((g.taps p).map fun tp => if tp.1 * g.d + c = q0 then tp.2 else 0).sum := by
    unfold Gather.gradXRow
    rw [sumR_eq_finset]
    apply Finset.sum_congr rfl
    intro p _
    rw [sumL_eq_sum_real]
    have hc : ∀ c ∈ Finset.range g.d,
        C (p * g.d + c) * ((g.taps p).map fun tp => if tp.1 * g.d + c = q0 then tp.2 else 0).sum
        = if c = q0 % g.d then C (p * g.d + q0 % g.d) *
            ((g.taps p).map fun tp => if tp.1 = q0 / g.d then tp.2 else 0).sum else 0 := by
      intro c hc
      have hc' : c < g.d := Finset.mem_range.1 hc
      by_cases h : c = q0 % g.d
      · simp only [h, ↓reduceIte]
        congr 2
        apply List.map_congr_left
        intro tp _
        have := flat_eq_iff g.d tp.1 (q0 % g.d) q0 hq
        simp only [this, and_true]
      · simp only [h, ↓reduceIte]
        have : ((g.taps p).map fun tp : ℕ × ℝ => if tp.1 * g.d + c = q0 then tp.2 else 0)
            = (g.taps p).map fun _ => (0 : ℝ) := by
          apply List.map_congr_left
          intro tp _
          have := flat_eq_iff g.d tp.1 c q0 hc'
          simp only [this, h, and_false, ↓reduceIte]
        rw [this]
        simp
    rw [Finset.sum_congr rfl hc, Finset.sum_ite_eq' (Finset.range g.d) (q0 % g.d)]
    simp only [Finset.mem_range, hq, ↓reduceIte]
    rw [mul_comm (C (p * g.d + q0 % g.d)) _, list_map_sum_mul_right]
    congr 1
    apply List.map_congr_left
    intro tp _
    split <;> simp
  rw [hval]
  apply HasDerivAt.fun_sum
  intro p _
  apply HasDerivAt.fun_sum
  intro c hc
  have hc' : c < g.d := Finset.mem_range.1 hc
  apply HasDerivAt.const_mul
  have hfun : (fun t => g.evalRow (fun q => if q = q0 then t else x q) (p * g.d + c)) = fun t =>
      ((g.taps p).map fun tp => tp.2 * (if tp.1 * g.d + c = q0 then t else x (tp.1 * g.d + c))).sum := by
    funext t
    unfold Gather.evalRow
    rw [sumL_eq_sum_real, flat_div g.d p c hc', flat_mod g.d p c hc']
  rw [hfun]
  apply hasDerivAt_list_map_sum (fun (tp : ℕ × ℝ) t => tp.2 * (if tp.1 * g.d + c = q0 then t else x (tp.1 * g.d + c)))
    (fun tp => if tp.1 * g.d + c = q0 then tp.2 else 0)
  intro tp _
  by_cases h : tp.1 * g.d + c = q0
  · simp only [h, ↓reduceIte]
    simpa using (hasDerivAt_id' (x q0)).const_mul tp.2
  · simp only [h, ↓reduceIte]
    exact hasDerivAt_const _ _

/-- non-vacuity: two channels, one output pixel averaging input pixels 0 and 1 -/
noncomputable example : HasDerivAt (fun t => ∑ p ∈ Finset.range 1, ∑ c ∈ Finset.range 2,
      (fun _ => (1 : ℝ)) (p * 2 + c) *
        (⟨2, 2, 1, fun _ => [(0, 1 / 2), (1, 1 / 2)]⟩ : Gather ℝ).evalRow
          (fun q => if q = 3 then t else (fun _ => (0 : ℝ)) q) (p * 2 + c))
    ((⟨2, 2, 1, fun _ => [(0, 1 / 2), (1, 1 / 2)]⟩ : Gather ℝ).gradXRow (fun _ => 1) 3) 0 :=
  gather_input_derivative_correct ⟨2, 2, 1, fun _ => [(0, 1 / 2), (1, 1 / 2)]⟩ (fun _ => 0) (fun _ => 1) 3
    (by decide)

end SharkVerif.Models
