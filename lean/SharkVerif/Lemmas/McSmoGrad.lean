import SharkVerif.Lemmas.McSmoDefs
namespace SharkVerif.Mc
open Finset

/-!
# `BoxInv` and `GradInv` are preserved by the operations of `QpMcBoxDecomp`

Part A: the analytic sub-solvers return points of the interval / box (`solveEdge_mem`,
`solve2DBox_mem`) and every operation keeps `0 ≤ α ≤ C` (`boxInv_*`).

Part B: the stored gradient of the active variables stays `lin − Q α` (`gradInv_*`), the key
lemma being `gradientUpdate_grad` (exact effect of the sparse `gradientUpdate` loop on an active
component), together with `applySubs_eq`.  `gradInv_unshrink` shows that the recomputation in
`unshrink` re-establishes the invariant for ALL variables.

All statements are for arbitrary sizes and states; `TablesInv` (proved to be preserved in
`Lemmas/McSmoTables.lean`) is assumed of the state the operation is applied to.
Remark: the hypothesis `h0` of `gradInv_deactivateExample` is not needed by the proof (kept for
the interface).  `solve2DBox_mem` needs the feasible start since the upstream fix of F5 (the
current point is kept when no edge improves the objective).

Helper lemmas live in the namespace `SharkVerif.Mc.Grad` (no name clashes with the other lemma
files); the theorems of the interface are in `SharkVerif.Mc`.
-/

/-- the 1-D sub-solver returns a point of the interval -/
theorem solveEdge_mem (alpha g Q L U : Rat) (hLU : L ≤ U) :
    L ≤ solveEdge alpha g Q L U ∧ solveEdge alpha g Q L U ≤ U := by
  unfold solveEdge cmin cmax
  dsimp only
  split_ifs <;> constructor <;> linarith

/-- the 2-D box sub-solver returns a point of the box (for a feasible start) -/
theorem solve2DBox_mem (ai aj gi gj Qii Qij Qjj Li Ui Lj Uj : Rat) (hi : Li ≤ Ui) (hj : Lj ≤ Uj)
    (hai : Li ≤ ai ∧ ai ≤ Ui) (haj : Lj ≤ aj ∧ aj ≤ Uj) :
    let r := solve2DBox ai aj gi gj Qii Qij Qjj Li Ui Lj Uj
    (Li ≤ r.1 ∧ r.1 ≤ Ui) ∧ (Lj ≤ r.2 ∧ r.2 ≤ Uj) := by
  have e0 := solveEdge_mem aj (gj - Qij * (Li - ai)) Qjj Lj Uj hj
  have e1 := solveEdge_mem ai (gi - Qij * (Lj - aj)) Qii Li Ui hi
  have e2 := solveEdge_mem aj (gj - Qij * (Ui - ai)) Qjj Lj Uj hj
  have e3 := solveEdge_mem ai (gi - Qij * (Uj - aj)) Qii Li Ui hi
  intro r
  simp only [r, solve2DBox]
  split_ifs with hc <;>
    simp only [le_refl, and_self, hi, hj, e0, e1, e2, e3, hai, haj]
  obtain ⟨_, h1, h2, h3, h4⟩ := hc
  exact ⟨⟨le_of_lt h1, le_of_lt h3⟩, le_of_lt h2, le_of_lt h4⟩

/-! ### fields untouched by the operations -/

namespace Grad

namespace McBox
open SharkVerif.Mc.McBox

@[simp] theorem gradientUpdate_alpha (s : McBox Rat) (r : Nat) (mu : Rat) (i : Nat) :
    (s.gradientUpdate r mu i).alpha = s.alpha := rfl
@[simp] theorem gradientUpdate_lin (s : McBox Rat) (r : Nat) (mu : Rat) (i : Nat) :
    (s.gradientUpdate r mu i).lin = s.lin := rfl
@[simp] theorem gradientUpdate_vars (s : McBox Rat) (r : Nat) (mu : Rat) (i : Nat) :
    (s.gradientUpdate r mu i).vars = s.vars := rfl
@[simp] theorem gradientUpdate_ex (s : McBox Rat) (r : Nat) (mu : Rat) (i : Nat) :
    (s.gradientUpdate r mu i).ex = s.ex := rfl
@[simp] theorem gradientUpdate_K (s : McBox Rat) (r : Nat) (mu : Rat) (i : Nat) :
    (s.gradientUpdate r mu i).K = s.K := rfl
@[simp] theorem gradientUpdate_M (s : McBox Rat) (r : Nat) (mu : Rat) (i : Nat) :
    (s.gradientUpdate r mu i).M = s.M := rfl
@[simp] theorem gradientUpdate_c (s : McBox Rat) (r : Nat) (mu : Rat) (i : Nat) :
    (s.gradientUpdate r mu i).c = s.c := rfl
@[simp] theorem gradientUpdate_P (s : McBox Rat) (r : Nat) (mu : Rat) (i : Nat) :
    (s.gradientUpdate r mu i).P = s.P := rfl
@[simp] theorem gradientUpdate_n (s : McBox Rat) (r : Nat) (mu : Rat) (i : Nat) :
    (s.gradientUpdate r mu i).n = s.n := rfl
@[simp] theorem gradientUpdate_C (s : McBox Rat) (r : Nat) (mu : Rat) (i : Nat) :
    (s.gradientUpdate r mu i).C = s.C := rfl
@[simp] theorem gradientUpdate_activeVar (s : McBox Rat) (r : Nat) (mu : Rat) (i : Nat) :
    (s.gradientUpdate r mu i).activeVar = s.activeVar := rfl
@[simp] theorem gradientUpdate_activeEx (s : McBox Rat) (r : Nat) (mu : Rat) (i : Nat) :
    (s.gradientUpdate r mu i).activeEx = s.activeEx := rfl
@[simp] theorem gradientUpdate_labels (s : McBox Rat) (r : Nat) (mu : Rat) (i : Nat) :
    (s.gradientUpdate r mu i).labels = s.labels := rfl

@[simp] theorem updateSMO_lin (s : McBox Rat) (v w : Nat) : (s.updateSMO v w).lin = s.lin := by
  unfold updateSMO; split_ifs <;> rfl
@[simp] theorem updateSMO_vars (s : McBox Rat) (v w : Nat) : (s.updateSMO v w).vars = s.vars := by
  unfold updateSMO; split_ifs <;> rfl
@[simp] theorem updateSMO_ex (s : McBox Rat) (v w : Nat) : (s.updateSMO v w).ex = s.ex := by
  unfold updateSMO; split_ifs <;> rfl
@[simp] theorem updateSMO_K (s : McBox Rat) (v w : Nat) : (s.updateSMO v w).K = s.K := by
  unfold updateSMO; split_ifs <;> rfl
@[simp] theorem updateSMO_M (s : McBox Rat) (v w : Nat) : (s.updateSMO v w).M = s.M := by
  unfold updateSMO; split_ifs <;> rfl
@[simp] theorem updateSMO_c (s : McBox Rat) (v w : Nat) : (s.updateSMO v w).c = s.c := by
  unfold updateSMO; split_ifs <;> rfl
@[simp] theorem updateSMO_P (s : McBox Rat) (v w : Nat) : (s.updateSMO v w).P = s.P := by
  unfold updateSMO; split_ifs <;> rfl
@[simp] theorem updateSMO_n (s : McBox Rat) (v w : Nat) : (s.updateSMO v w).n = s.n := by
  unfold updateSMO; split_ifs <;> rfl
@[simp] theorem updateSMO_C (s : McBox Rat) (v w : Nat) : (s.updateSMO v w).C = s.C := by
  unfold updateSMO; split_ifs <;> rfl
@[simp] theorem updateSMO_activeVar (s : McBox Rat) (v w : Nat) :
    (s.updateSMO v w).activeVar = s.activeVar := by
  unfold updateSMO; split_ifs <;> rfl

theorem updateSMO_alpha_eq (s : McBox Rat) (v : Nat) :
    (s.updateSMO v v).alpha =
      upd s.alpha v (solveEdge (s.alpha v) (s.grad v) (s.vars v).diagonal 0 s.C) := by
  unfold updateSMO; rw [if_pos rfl]
  simp only [gradientUpdate_alpha]
  norm_num

theorem updateSMO_alpha_ne (s : McBox Rat) (v w : Nat) (h : v ≠ w) :
    (s.updateSMO v w).alpha =
      let sol := solve2DBox (s.alpha v) (s.alpha w) (s.grad v) (s.grad w) (s.vars v).diagonal
        (s.Mget (s.c * (s.P * (s.ex (s.vars v).i).y + (s.vars v).p) + (s.ex (s.vars w).i).y) (s.vars w).p
          * s.kpos (s.vars v).i (s.vars w).i) (s.vars w).diagonal 0 s.C 0 s.C
      upd (upd s.alpha v sol.1) w sol.2 := by
  unfold updateSMO; rw [if_neg h]
  simp only [gradientUpdate_alpha]
  norm_num

end McBox

end Grad
open Grad

theorem boxInv_init (c P n : Nat) (C : Rat) (hC : 0 ≤ C) (M : Nat → Row Rat) (K : Nat → Nat → Rat)
    (labels : Nat → Nat) (linMat : Nat → Nat → Rat) : BoxInv (McBox.init c P n C M K labels linMat) := by
  intro v _
  simp only [McBox.init]
  norm_num
  exact hC

theorem boxInv_updateSMO (s : McBox Rat) (hC : 0 ≤ s.C) (h : BoxInv s) (v w : Nat)
    (hv : v < s.P * s.n) (hw : w < s.P * s.n) : BoxInv (s.updateSMO v w) := by
  intro x hx
  simp only [McBox.updateSMO_P, McBox.updateSMO_n] at hx
  rw [McBox.updateSMO_C]
  by_cases hvw : v = w
  · subst hvw
    rw [McBox.updateSMO_alpha_eq]
    unfold upd
    split_ifs
    · exact solveEdge_mem _ _ _ _ _ hC
    · exact h x hx
  · rw [McBox.updateSMO_alpha_ne s v w hvw]
    have hb := solve2DBox_mem (s.alpha v) (s.alpha w) (s.grad v) (s.grad w) (s.vars v).diagonal
        (s.Mget (s.c * (s.P * (s.ex (s.vars v).i).y + (s.vars v).p) + (s.ex (s.vars w).i).y) (s.vars w).p
          * s.kpos (s.vars v).i (s.vars w).i) (s.vars w).diagonal 0 s.C 0 s.C hC hC (h v hv) (h w hw)
    dsimp only at hb ⊢
    unfold upd
    split_ifs
    · exact hb.2
    · exact hb.1
    · exact h x hx

theorem boxInv_deactivateVariable (s : McBox Rat) (h : BoxInv s) (ht : TablesInv s) (v : Nat)
    (hv : v < s.activeVar) : BoxInv (s.deactivateVariable v) := by
  intro x hx
  have hle := ht.aV_le
  change x < s.P * s.n at hx
  change 0 ≤ swp s.alpha v (s.activeVar - 1) x ∧ swp s.alpha v (s.activeVar - 1) x ≤ s.C
  unfold swp
  split_ifs
  · exact h _ (by omega)
  · exact h _ (by omega)
  · exact h x hx

theorem boxInv_deactivateExample (s : McBox Rat) (h : BoxInv s) (e : Nat) : BoxInv (s.deactivateExample e) := by
  unfold McBox.deactivateExample
  dsimp only
  split_ifs
  · exact h
  · exact h

theorem boxInv_unshrink (s : McBox Rat) (h : BoxInv s) : BoxInv s.unshrink := by
  unfold McBox.unshrink
  dsimp only
  split_ifs
  · exact h
  · exact h

theorem boxInv_addDeltaLinear (s : McBox Rat) (h : BoxInv s) (d : Nat → Nat → Rat) : BoxInv (s.addDeltaLinear d) := h

/-! ### Part B: the gradient invariant -/

namespace Grad

/-- total amount written to index `j` by a list of writes -/
def amt (ws : List (Nat × Rat)) (j : Nat) : Rat := ((ws.filter fun w => w.1 = j).map Prod.snd).sum

@[simp] theorem amt_nil (j : Nat) : amt [] j = 0 := rfl

theorem amt_cons (w : Nat × Rat) (ws : List (Nat × Rat)) (j : Nat) :
    amt (w :: ws) j = (if w.1 = j then w.2 else 0) + amt ws j := by
  unfold amt
  by_cases h : w.1 = j <;> simp [h]

theorem amt_append (ws ws' : List (Nat × Rat)) (j : Nat) : amt (ws ++ ws') j = amt ws j + amt ws' j := by
  unfold amt; simp

theorem amt_eq_zero (ws : List (Nat × Rat)) (j : Nat) (h : ∀ w ∈ ws, w.1 ≠ j) : amt ws j = 0 := by
  induction ws with
  | nil => rfl
  | cons w ws ih =>
    rw [amt_cons, if_neg (h w (by simp)), ih (fun w' hw' => h w' (by simp [hw'])), add_zero]

theorem amt_flatMap_range (F : Nat → List (Nat × Rat)) (n j : Nat) :
    amt ((List.range n).flatMap F) j = ∑ a ∈ range n, amt (F a) j := by
  induction n with
  | zero => simp
  | succ n ih =>
    rw [List.range_succ, List.flatMap_append, amt_append, ih, Finset.sum_range_succ]
    simp

theorem amt_map_range (F : Nat → Nat × Rat) (n j : Nat) :
    amt ((List.range n).map F) j = ∑ b ∈ range n, if (F b).1 = j then (F b).2 else 0 := by
  induction n with
  | zero => simp
  | succ n ih =>
    rw [List.range_succ, List.map_append, amt_append, ih, Finset.sum_range_succ]
    simp [amt_cons]

theorem foldl_subs (ws : List (Nat × Rat)) (j : Nat) (acc : Rat) :
    ws.foldl (fun acc w => if w.1 = j then acc - w.2 else acc) acc = acc - amt ws j := by
  induction ws generalizing acc with
  | nil => simp
  | cons w ws ih =>
    rw [List.foldl_cons, ih, amt_cons]
    by_cases h : w.1 = j
    · simp only [h, if_true]; ring
    · simp only [h, if_false]; ring

end Grad

/-- pointwise value of `applySubs`: minus the sum of all amounts written to index j -/
theorem applySubs_eq (g : Nat → Rat) (ws : List (Nat × Rat)) (j : Nat) :
    McBox.applySubs g ws j = g j - ((ws.filter fun w => w.1 = j).map Prod.snd).sum :=
  foldl_subs ws j (g j)

namespace Grad

theorem lookup_not_mem (es : List (Nat × Rat)) (p : Nat) (d : Rat) (h : p ∉ es.map Prod.fst) :
    Row.lookup es p d = d := by
  induction es with
  | nil => rfl
  | cons en es ih =>
    simp only [List.map_cons, List.mem_cons, not_or] at h
    rw [Row.lookup, if_neg (fun e => h.1 e.symm), ih h.2]

/-- the explicit-entry writes: total amount at `f`, when exactly the entries with column `p0` hit `f` -/
theorem amt_entries (es : List (Nat × Rat)) (var : Nat → Nat) (f p0 : Nat) (mu d k : Rat)
    (hnd : (es.map Prod.fst).Nodup) (hit : ∀ en ∈ es, var en.1 = f ↔ en.1 = p0) :
    amt (es.map fun en => (var en.1, mu * (en.2 - d) * k)) f = mu * (Row.lookup es p0 d - d) * k := by
  induction es with
  | nil => simp [Row.lookup]
  | cons en es ih =>
    simp only [List.map_cons, List.nodup_cons] at hnd
    rw [List.map_cons, amt_cons, ih hnd.2 (fun en' h' => hit en' (by simp [h'])), Row.lookup]
    by_cases h : en.1 = p0
    · have : var en.1 = f := (hit en (by simp)).2 h
      rw [if_pos this, if_pos h, lookup_not_mem es p0 d (h ▸ hnd.1)]
      ring
    · have : ¬ var en.1 = f := fun e => h ((hit en (by simp)).1 e)
      rw [if_neg this, if_neg h, zero_add]

theorem active_var_ex_lt (s : McBox Rat) (ht : TablesInv s) (f : Nat) (hf : f < s.activeVar) :
    (s.vars f).i < s.activeEx ∧ (s.vars f).index < (s.ex (s.vars f).i).active := by
  have hfn : f < s.P * s.n := lt_of_lt_of_le hf ht.aV_le
  have hi := ht.v_i_lt f hfn
  have hb := ht.v_index_lt f hfn
  have hidx : (s.vars f).index < (s.ex (s.vars f).i).active := by
    rw [ht.active_iff _ hi _ hb, ht.v_avar f hfn]; exact hf
  refine ⟨?_, hidx⟩
  by_contra hge
  have := ht.inactive_ex _ (not_lt.1 hge) hi
  omega

theorem amt_gradWritesEx_ne (s : McBox Rat) (ht : TablesInv s) (hm : MWF s) (r : Nat) (mu : Rat)
    (i a f : Nat) (ha : a < s.n) (hne : a ≠ (s.vars f).i) : amt (s.gradWritesEx r mu i a) f = 0 := by
  apply amt_eq_zero
  intro w hw
  unfold McBox.gradWritesEx at hw
  simp only [List.mem_append, List.mem_map] at hw
  rcases hw with ⟨en, hen, rfl⟩ | hw
  · intro e
    have := ht.var_i a ha en.1 ((hm _).2 en hen)
    simp only at e
    rw [e] at this
    exact hne this.symm
  · split_ifs at hw
    · simp only [List.mem_map, List.mem_range] at hw
      obtain ⟨b, hb, rfl⟩ := hw
      intro e
      have := ht.avar_i a ha b (lt_of_lt_of_le hb (ht.active_le a ha))
      simp only at e
      rw [e] at this
      exact hne this.symm
    · simp at hw

theorem amt_gradWritesEx_eq (s : McBox Rat) (ht : TablesInv s) (hm : MWF s) (r : Nat) (mu : Rat)
    (i f : Nat) (hf : f < s.activeVar) :
    amt (s.gradWritesEx r mu i (s.vars f).i) f =
      mu * s.Mget (s.c * r + (s.ex (s.vars f).i).y) (s.vars f).p * s.kpos i (s.vars f).i := by
  have hfn : f < s.P * s.n := lt_of_lt_of_le hf ht.aV_le
  have hi := ht.v_i_lt f hfn
  have hp := ht.v_p_lt f hfn
  have hb := ht.v_index_lt f hfn
  obtain ⟨_, hidx⟩ := active_var_ex_lt s ht f hf
  have hact := ht.active_le _ hi
  unfold McBox.gradWritesEx
  dsimp only
  rw [amt_append, amt_entries _ _ f (s.vars f).p _ _ _ (hm _).1]
  · have h2 : amt (if ((s.M (s.c * r + (s.ex (s.vars f).i).y)).dflt != (0.0 : Rat)) = true then
          (List.range (s.ex (s.vars f).i).active).map fun b =>
            ((s.ex (s.vars f).i).avar b, mu * (s.M (s.c * r + (s.ex (s.vars f).i).y)).dflt * s.kpos i (s.vars f).i)
          else []) f = mu * (s.M (s.c * r + (s.ex (s.vars f).i).y)).dflt * s.kpos i (s.vars f).i := by
      split_ifs with hd
      · rw [amt_map_range, Finset.sum_eq_single (s.vars f).index]
        · simp only [ht.v_avar f hfn, if_true]
        · intro b hb' hne
          rw [if_neg]
          intro e
          have := ht.avar_index _ hi b (lt_of_lt_of_le (Finset.mem_range.1 hb') hact)
          simp only at e
          rw [e] at this
          exact hne this.symm
        · intro hn
          exact absurd (Finset.mem_range.2 hidx) hn
      · have : (s.M (s.c * r + (s.ex (s.vars f).i).y)).dflt = 0 := by
          simp only [bne_iff_ne, ne_eq, not_not] at hd
          rw [hd]; norm_num
        rw [this]; simp
    rw [h2]
    unfold McBox.Mget Row.get
    ring
  · intro en hen
    have henP := (hm _).2 en hen
    constructor
    · intro e
      have := ht.var_p _ hi en.1 henP
      rw [e] at this
      exact this.symm
    · intro e
      rw [e]; exact ht.v_var f hfn

end Grad

/-- effect of `gradientUpdate r mu i` on the gradient of an ACTIVE variable `f`:
exactly `mu * M(c*r + y_f, p_f) * K(i, example of f)` is subtracted -/
theorem gradientUpdate_grad (s : McBox Rat) (ht : TablesInv s) (hm : MWF s) (r : Nat) (mu : Rat) (i f : Nat)
    (hf : f < s.activeVar) :
    (s.gradientUpdate r mu i).grad f =
      s.grad f - mu * s.Mget (s.c * r + (s.ex (s.vars f).i).y) (s.vars f).p * s.kpos i (s.vars f).i := by
  obtain ⟨ha0, _⟩ := active_var_ex_lt s ht f hf
  change McBox.applySubs s.grad _ f = _
  rw [applySubs_eq]
  change _ - amt _ f = _
  rw [amt_flatMap_range, Finset.sum_eq_single (s.vars f).i, amt_gradWritesEx_eq s ht hm r mu i f hf]
  · intro a ha hne
    exact amt_gradWritesEx_ne s ht hm r mu i a f
      (lt_of_lt_of_le (Finset.mem_range.1 ha) ht.aE_le) hne
  · intro hn
    exact absurd (Finset.mem_range.2 ha0) hn

namespace Grad

/-- `TablesInv` only reads `P`, `n`, `ex`, `vars`, `activeEx`, `activeVar`, `labels` -/
theorem tablesInv_congr {s s' : McBox Rat} (ht : TablesInv s) (hP : s'.P = s.P) (hn : s'.n = s.n)
    (hex : s'.ex = s.ex) (hvars : s'.vars = s.vars) (haE : s'.activeEx = s.activeEx)
    (haV : s'.activeVar = s.activeVar) (hlab : s'.labels = s.labels) : TablesInv s' := by
  obtain ⟨c, P, n, C, M, K, lin, alpha, grad, ex, vars, aE, aV, u, us, labels⟩ := s
  obtain ⟨c', P', n', C', M', K', lin', alpha', grad', ex', vars', aE', aV', u', us', labels'⟩ := s'
  simp only at hP hn hex hvars haE haV hlab
  subst hP hn hex hvars haE haV hlab
  exact { ht with }

theorem tablesInv_setAlpha {s : McBox Rat} (ht : TablesInv s) (a : Nat → Rat) :
    TablesInv { s with alpha := a } := tablesInv_congr ht rfl rfl rfl rfl rfl rfl rfl

theorem tablesInv_gradientUpdate {s : McBox Rat} (ht : TablesInv s) (r : Nat) (mu : Rat) (i : Nat) :
    TablesInv (s.gradientUpdate r mu i) := tablesInv_congr ht rfl rfl rfl rfl rfl rfl rfl

end Grad

theorem gradInv_init (c P n : Nat) (C : Rat) (M : Nat → Row Rat) (K : Nat → Nat → Rat)
    (labels : Nat → Nat) (linMat : Nat → Nat → Rat) : GradInv (McBox.init c P n C M K labels linMat) := by
  intro v _
  have h0 : ∀ w, (McBox.init c P n C M K labels linMat).alpha w = 0 := by
    intro w; simp only [McBox.init]; norm_num
  simp only [h0, mul_zero, Finset.sum_const_zero, sub_zero]
  rfl

namespace Grad

theorem sum_upd (q al : Nat → Rat) (N v : Nat) (a : Rat) (hv : v < N) :
    ∑ w ∈ range N, q w * upd al v a w = ∑ w ∈ range N, q w * al w + q v * (a - al v) := by
  have : ∀ w, q w * upd al v a w = q w * al w + (if w = v then q v * (a - al v) else 0) := by
    intro w; unfold upd; split_ifs with h
    · subst h; ring
    · ring
  simp only [this, Finset.sum_add_distrib, Finset.sum_ite_eq', Finset.mem_range, hv, if_true]

theorem label_lt (s : McBox Rat) (ht : TablesInv s) (hl : LabelsOK s) (e : Nat) (he : e < s.n) :
    (s.ex e).y < s.c := by
  rw [ht.label_eq e he]; exact hl _ (ht.index_lt e he)

/-- the amount subtracted by `gradientUpdate` for the step of variable `v` is the `Q` entry -/
theorem Q_symm_entry (s : McBox Rat) (ht : TablesInv s) (hq : QSym s) (hl : LabelsOK s) (f v : Nat)
    (hf : f < s.P * s.n) (hv : v < s.P * s.n) :
    s.Mget (s.c * (s.P * (s.ex (s.vars v).i).y + (s.vars v).p) + (s.ex (s.vars f).i).y) (s.vars f).p
      * s.kpos (s.vars v).i (s.vars f).i = s.Q f v := by
  unfold McBox.Q McBox.kpos
  rw [hq.1 _ _ _ _ (label_lt s ht hl _ (ht.v_i_lt v hv)) (label_lt s ht hl _ (ht.v_i_lt f hf))
    (ht.v_p_lt v hv) (ht.v_p_lt f hf), hq.2]

theorem McBox.updateSMO_Q (s : McBox Rat) (v w : Nat) : (s.updateSMO v w).Q = s.Q := by
  funext a b
  unfold McBox.Q McBox.Mget
  simp only [updateSMO_M, updateSMO_c, updateSMO_P, updateSMO_ex, updateSMO_vars, updateSMO_K]

theorem updateSMO_grad_eq0 (s : McBox Rat) (v : Nat) :
    (s.updateSMO v v).grad =
      (s.gradientUpdate (s.P * (s.ex (s.vars v).i).y + (s.vars v).p)
        (-(s.alpha v) + solveEdge (s.alpha v) (s.grad v) (s.vars v).diagonal 0 s.C) (s.vars v).i).grad := by
  have e0 : (0.0 : Rat) = 0 := by norm_num
  unfold McBox.updateSMO
  rw [if_pos rfl, e0]
  rfl

theorem updateSMO_grad_ne0 (s : McBox Rat) (v w : Nat) (hvw : v ≠ w) :
    (s.updateSMO v w).grad =
      let sol := solve2DBox (s.alpha v) (s.alpha w) (s.grad v) (s.grad w) (s.vars v).diagonal
        (s.Mget (s.c * (s.P * (s.ex (s.vars v).i).y + (s.vars v).p) + (s.ex (s.vars w).i).y) (s.vars w).p
          * s.kpos (s.vars v).i (s.vars w).i) (s.vars w).diagonal 0 s.C 0 s.C
      ((s.gradientUpdate (s.P * (s.ex (s.vars v).i).y + (s.vars v).p) (-(s.alpha v) + sol.1) (s.vars v).i).gradientUpdate
        (s.P * (s.ex (s.vars w).i).y + (s.vars w).p) (-(s.alpha w) + sol.2) (s.vars w).i).grad := by
  have e0 : (0.0 : Rat) = 0 := by norm_num
  unfold McBox.updateSMO
  rw [if_neg hvw, e0]
  rfl

theorem updateSMO_grad_eq (s : McBox Rat) (ht : TablesInv s) (hm : MWF s) (v f : Nat)
    (hf : f < s.activeVar) :
    (s.updateSMO v v).grad f = s.grad f -
      (-(s.alpha v) + solveEdge (s.alpha v) (s.grad v) (s.vars v).diagonal 0 s.C)
        * s.Mget (s.c * (s.P * (s.ex (s.vars v).i).y + (s.vars v).p) + (s.ex (s.vars f).i).y) (s.vars f).p
        * s.kpos (s.vars v).i (s.vars f).i := by
  rw [updateSMO_grad_eq0, gradientUpdate_grad s ht hm _ _ _ f hf]

theorem updateSMO_grad_ne (s : McBox Rat) (ht : TablesInv s) (hm : MWF s) (v w f : Nat) (hvw : v ≠ w)
    (hf : f < s.activeVar) :
    (s.updateSMO v w).grad f =
      let sol := solve2DBox (s.alpha v) (s.alpha w) (s.grad v) (s.grad w) (s.vars v).diagonal
        (s.Mget (s.c * (s.P * (s.ex (s.vars v).i).y + (s.vars v).p) + (s.ex (s.vars w).i).y) (s.vars w).p
          * s.kpos (s.vars v).i (s.vars w).i) (s.vars w).diagonal 0 s.C 0 s.C
      s.grad f -
      (-(s.alpha v) + sol.1)
        * s.Mget (s.c * (s.P * (s.ex (s.vars v).i).y + (s.vars v).p) + (s.ex (s.vars f).i).y) (s.vars f).p
        * s.kpos (s.vars v).i (s.vars f).i -
      (-(s.alpha w) + sol.2)
        * s.Mget (s.c * (s.P * (s.ex (s.vars w).i).y + (s.vars w).p) + (s.ex (s.vars f).i).y) (s.vars f).p
        * s.kpos (s.vars w).i (s.vars f).i := by
  rw [updateSMO_grad_ne0 s v w hvw]
  dsimp only
  rw [gradientUpdate_grad (s.gradientUpdate _ _ _) (tablesInv_gradientUpdate ht _ _ _) hm _ _ _ f hf,
    gradientUpdate_grad s ht hm _ _ _ f hf]
  rfl

end Grad

theorem gradInv_updateSMO (s : McBox Rat) (ht : TablesInv s) (hm : MWF s) (hq : QSym s) (hl : LabelsOK s)
    (h : GradInv s) (v w : Nat) (hv : v < s.activeVar) (hw : w < s.activeVar) : GradInv (s.updateSMO v w) := by
  intro f hf
  rw [McBox.updateSMO_activeVar] at hf
  have hfn := lt_of_lt_of_le hf ht.aV_le
  have hvn := lt_of_lt_of_le hv ht.aV_le
  have hwn := lt_of_lt_of_le hw ht.aV_le
  rw [McBox.updateSMO_Q, McBox.updateSMO_lin, McBox.updateSMO_P, McBox.updateSMO_n]
  by_cases hvw : v = w
  · subst hvw
    rw [McBox.updateSMO_alpha_eq, updateSMO_grad_eq s ht hm v f hf, sum_upd _ _ _ _ _ hvn]
    have e := Q_symm_entry s ht hq hl f v hfn hvn
    rw [h f hf, ← e]
    ring
  · rw [McBox.updateSMO_alpha_ne s v w hvw, updateSMO_grad_ne s ht hm v w f hvw hf]
    dsimp only
    rw [sum_upd _ _ _ _ _ hwn, sum_upd _ _ _ _ _ hvn]
    have ev := Q_symm_entry s ht hq hl f v hfn hvn
    have ew := Q_symm_entry s ht hq hl f w hfn hwn
    have hne : upd s.alpha v (solve2DBox (s.alpha v) (s.alpha w) (s.grad v) (s.grad w) (s.vars v).diagonal
        (s.Mget (s.c * (s.P * (s.ex (s.vars v).i).y + (s.vars v).p) + (s.ex (s.vars w).i).y) (s.vars w).p
          * s.kpos (s.vars v).i (s.vars w).i) (s.vars w).diagonal 0 s.C 0 s.C).1 w = s.alpha w := by
      unfold upd; rw [if_neg (Ne.symm hvw)]
    rw [hne]
    rw [h f hf, ← ev, ← ew]
    ring

theorem gradInv_addDeltaLinear (s : McBox Rat) (ht : TablesInv s) (h : GradInv s) (d : Nat → Nat → Rat) :
    GradInv (s.addDeltaLinear d) := by
  intro f hf
  change f < s.activeVar at hf
  have hfn : f < s.numVars := lt_of_lt_of_le hf ht.aV_le
  change (if f < s.numVars then s.grad f + _ else s.grad f) =
    (if f < s.numVars then s.lin f + _ else s.lin f) - ∑ w ∈ range (s.P * s.n), s.Q f w * s.alpha w
  rw [if_pos hfn, if_pos hfn, h f hf]
  ring

/-! ### `deactivateVariable`: everything is conjugated by the transposition `(v, activeVar-1)` -/

namespace Grad

/-- records agree in the fields read by `Q` -/
def sameIP (f g : Nat → Var Rat) : Prop := ∀ x, (f x).i = (g x).i ∧ (f x).p = (g x).p

theorem sameIP_refl (f : Nat → Var Rat) : sameIP f f := fun _ => ⟨rfl, rfl⟩

theorem sameIP_upd {f g : Nat → Var Rat} (h : sameIP f g) (k : Nat) (r : Var Rat)
    (hi : r.i = (f k).i) (hp : r.p = (f k).p) : sameIP (upd f k r) g := by
  intro x
  unfold upd
  split_ifs with hx
  · subst hx; rw [hi, hp]; exact h x
  · exact h x

theorem sameIP_swp {f g : Nat → Var Rat} (h : sameIP f g) (v j : Nat) : sameIP (swp f v j) (swp g v j) := by
  intro x
  unfold swp
  split_ifs
  · exact h j
  · exact h v
  · exact h x

def sameYI (e e' : Nat → Ex) : Prop := ∀ k, (e k).y = (e' k).y ∧ (e k).index = (e' k).index

theorem sameYI_refl (e : Nat → Ex) : sameYI e e := fun _ => ⟨rfl, rfl⟩

theorem sameYI_setEx {e e' : Nat → Ex} (h : sameYI e e') (k : Nat) (F : Ex → Ex)
    (hF : ∀ r, (F r).y = r.y ∧ (F r).index = r.index) : sameYI (McBox.setEx e k F) e' := by
  intro x
  unfold McBox.setEx
  split_ifs with hx
  · subst hx; rw [(hF _).1, (hF _).2]; exact h x
  · exact h x

theorem swp_eq_comp {β : Type} (f : Nat → β) (v j x : Nat) : swp f v j x = f (swp id v j x) := by
  unfold swp; split_ifs <;> rfl

theorem swp_id_invol (v j x : Nat) : swp id v j (swp id v j x) = x := by
  unfold swp
  simp only [id]
  split_ifs <;> omega

theorem swp_id_lt (v j x N : Nat) (hv : v < N) (hj : j < N) (hx : x < N) : swp id v j x < N := by
  unfold swp
  simp only [id]
  split_ifs <;> omega

theorem sum_swp (F : Nat → Rat) (N v j : Nat) (hv : v < N) (hj : j < N) :
    ∑ w ∈ range N, F (swp id v j w) = ∑ w ∈ range N, F w := by
  apply Finset.sum_nbij' (swp id v j) (swp id v j)
  · intro a ha; exact Finset.mem_range.2 (swp_id_lt v j a N hv hj (Finset.mem_range.1 ha))
  · intro a ha; exact Finset.mem_range.2 (swp_id_lt v j a N hv hj (Finset.mem_range.1 ha))
  · intro a _; exact swp_id_invol v j a
  · intro a _; exact swp_id_invol v j a
  · intro a _; rfl

theorem deactVar_vars (s : McBox Rat) (v : Nat) :
    sameIP (s.deactivateVariable v).vars (swp s.vars v (s.activeVar - 1)) := by
  unfold McBox.deactivateVariable
  dsimp only
  refine sameIP_upd (sameIP_upd (sameIP_swp (sameIP_upd (sameIP_upd (sameIP_refl _) _ _ ?_ ?_)
    _ _ ?_ ?_) _ _) _ _ ?_ ?_) _ _ ?_ ?_ <;> rfl

theorem deactVar_ex (s : McBox Rat) (v : Nat) : sameYI (s.deactivateVariable v).ex s.ex := by
  unfold McBox.deactivateVariable
  dsimp only
  refine sameYI_setEx (sameYI_setEx (sameYI_setEx (sameYI_setEx (sameYI_setEx (sameYI_refl _) _ _
    ?_) _ _ ?_) _ _ ?_) _ _ ?_) _ _ ?_ <;> exact fun _ => ⟨rfl, rfl⟩

theorem deactVar_Q (s : McBox Rat) (v a b : Nat) :
    (s.deactivateVariable v).Q a b =
      s.Q (swp id v (s.activeVar - 1) a) (swp id v (s.activeVar - 1) b) := by
  have hv := deactVar_vars s v
  have he := deactVar_ex s v
  unfold McBox.Q McBox.Mget
  rw [(hv a).1, (hv a).2, (hv b).1, (hv b).2, (he _).1, (he _).1, (he _).2, (he _).2,
    swp_eq_comp s.vars, swp_eq_comp s.vars]
  rfl

end Grad

theorem gradInv_deactivateVariable (s : McBox Rat) (ht : TablesInv s) (h : GradInv s) (v : Nat)
    (hv : v < s.activeVar) : GradInv (s.deactivateVariable v) := by
  intro f hf
  change f < s.activeVar - 1 at hf
  have hle := ht.aV_le
  have hσ : swp id v (s.activeVar - 1) f < s.activeVar := by
    unfold swp; simp only [id]; split_ifs <;> omega
  change swp s.grad v (s.activeVar - 1) f = swp s.lin v (s.activeVar - 1) f -
    ∑ w ∈ range (s.P * s.n), (s.deactivateVariable v).Q f w * swp s.alpha v (s.activeVar - 1) w
  rw [swp_eq_comp s.grad, swp_eq_comp s.lin, h _ hσ]
  congr 1
  rw [← sum_swp (fun w => s.Q (swp id v (s.activeVar - 1) f) w * s.alpha w) (s.P * s.n) v
    (s.activeVar - 1) (by omega) (by omega)]
  apply Finset.sum_congr rfl
  intro w _
  rw [deactVar_Q, swp_eq_comp s.alpha]

/-! ### `deactivateExample`: `Q` is unchanged -/

namespace Grad

theorem deactEx_facts (s : McBox Rat) (ht : TablesInv s) (e : Nat) (he : e < s.activeEx)
    (hne : e ≠ s.activeEx - 1) (x : Nat) (hx : x < s.P * s.n) :
    ((s.deactivateExample e).vars x).p = (s.vars x).p ∧
      (s.deactivateExample e).ex ((s.deactivateExample e).vars x).i = s.ex (s.vars x).i := by
  have hle := ht.aE_le
  have hen : e < s.n := by omega
  have hjn : s.activeEx - 1 < s.n := by omega
  have se : swp s.ex e (s.activeEx - 1) e = s.ex (s.activeEx - 1) := by simp [swp]
  have sj : swp s.ex e (s.activeEx - 1) (s.activeEx - 1) = s.ex e := by
    unfold swp; split_ifs with h h2
    · rw [h]
    · rfl
    · exact absurd rfl h2
  unfold McBox.deactivateExample
  dsimp only
  rw [if_neg hne]
  dsimp only
  rw [se, sj]
  split
  · rename_i w hw
    refine ⟨rfl, ?_⟩
    have hmem := List.mem_of_find?_eq_some hw
    have hpred := List.find?_some hw
    simp only [beq_iff_eq] at hpred
    simp only [List.mem_reverse, List.mem_flatMap, List.mem_range, List.mem_cons,
      List.not_mem_nil, or_false] at hmem
    obtain ⟨p, hp, rfl | rfl⟩ := hmem
    · simp only at hpred ⊢
      rw [se, ← hpred, ht.var_i _ hjn p hp]
    · simp only at hpred ⊢
      rw [sj, ← hpred, ht.var_i _ hen p hp]
  · rename_i hnone
    refine ⟨rfl, ?_⟩
    rw [List.find?_eq_none] at hnone
    have hp := ht.v_p_lt x hx
    have hvar := ht.v_var x hx
    have h1 : (s.vars x).i ≠ e := by
      intro h
      refine hnone (((s.ex e).var (s.vars x).p), s.activeEx - 1) ?_ ?_
      · simp only [List.mem_reverse, List.mem_flatMap, List.mem_range, List.mem_cons,
          List.not_mem_nil, or_false]
        exact ⟨_, hp, Or.inr rfl⟩
      · rw [← h, hvar]; simp
    have h2 : (s.vars x).i ≠ s.activeEx - 1 := by
      intro h
      refine hnone (((s.ex (s.activeEx - 1)).var (s.vars x).p), e) ?_ ?_
      · simp only [List.mem_reverse, List.mem_flatMap, List.mem_range, List.mem_cons,
          List.not_mem_nil, or_false]
        exact ⟨_, hp, Or.inl rfl⟩
      · rw [← h, hvar]; simp
    unfold swp
    rw [if_neg h1, if_neg h2]

theorem deactEx_Q (s : McBox Rat) (ht : TablesInv s) (e : Nat) (he : e < s.activeEx)
    (hne : e ≠ s.activeEx - 1) (a b : Nat) (ha : a < s.P * s.n) (hb : b < s.P * s.n) :
    (s.deactivateExample e).Q a b = s.Q a b := by
  have fa := deactEx_facts s ht e he hne a ha
  have fb := deactEx_facts s ht e he hne b hb
  have hc : (s.deactivateExample e).c = s.c := by
    unfold McBox.deactivateExample; dsimp only; rw [if_neg hne]
  have hP : (s.deactivateExample e).P = s.P := by
    unfold McBox.deactivateExample; dsimp only; rw [if_neg hne]
  have hM : (s.deactivateExample e).M = s.M := by
    unfold McBox.deactivateExample; dsimp only; rw [if_neg hne]
  have hK : (s.deactivateExample e).K = s.K := by
    unfold McBox.deactivateExample; dsimp only; rw [if_neg hne]
  unfold McBox.Q McBox.Mget
  rw [fa.1, fa.2, fb.1, fb.2, hc, hP, hM, hK]

end Grad

theorem gradInv_deactivateExample (s : McBox Rat) (ht : TablesInv s) (h : GradInv s) (e : Nat)
    (he : e < s.activeEx) (h0 : (s.ex e).active = 0) : GradInv (s.deactivateExample e) := by
  have _ := h0
  by_cases hne : e = s.activeEx - 1
  · unfold McBox.deactivateExample
    dsimp only
    rw [if_pos hne]
    exact h
  · have hP : (s.deactivateExample e).P = s.P := by
      unfold McBox.deactivateExample; dsimp only; rw [if_neg hne]
    have hn : (s.deactivateExample e).n = s.n := by
      unfold McBox.deactivateExample; dsimp only; rw [if_neg hne]
    have hA : (s.deactivateExample e).activeVar = s.activeVar := by
      unfold McBox.deactivateExample; dsimp only; rw [if_neg hne]
    have hg : (s.deactivateExample e).grad = s.grad := by
      unfold McBox.deactivateExample; dsimp only; rw [if_neg hne]
    have hl : (s.deactivateExample e).lin = s.lin := by
      unfold McBox.deactivateExample; dsimp only; rw [if_neg hne]
    have hal : (s.deactivateExample e).alpha = s.alpha := by
      unfold McBox.deactivateExample; dsimp only; rw [if_neg hne]
    intro f hf
    rw [hA] at hf
    rw [hP, hn, hg, hl, hal, h f hf]
    congr 1
    apply Finset.sum_congr rfl
    intro w hw
    rw [deactEx_Q s ht e he hne f w (lt_of_lt_of_le hf ht.aV_le) (Finset.mem_range.1 hw)]

/-! ### `unshrink`: the recomputed components are `lin − Qα` -/

namespace Grad

theorem applySubs_eq' (g : Nat → Rat) (ws : List (Nat × Rat)) (j : Nat) :
    McBox.applySubs g ws j = g j - amt ws j := applySubs_eq g ws j

theorem amt_filter_map (es : List (Nat × Rat)) (q : Nat × Rat → Bool) (F : Nat × Rat → Nat × Rat)
    (j : Nat) (h : ∀ en ∈ es, (F en).1 = j → q en = true) :
    amt ((es.filter q).map F) j = amt (es.map F) j := by
  induction es with
  | nil => rfl
  | cons en es ih =>
    have ih' := ih (fun en' h' => h en' (by simp [h']))
    by_cases hq : q en = true
    · rw [List.filter_cons_of_pos hq, List.map_cons, List.map_cons, amt_cons, amt_cons, ih']
    · rw [List.filter_cons_of_neg hq, List.map_cons, amt_cons, ih', if_neg, zero_add]
      intro e; exact hq (h en (by simp) e)

theorem amt_unshrinkWritesEx (s : McBox Rat) (ht : TablesInv s) (hm : MWF s) (v a f : Nat)
    (ha : a < s.n) (hf : f < s.P * s.n) :
    amt (s.unshrinkWritesEx v a) f =
      if a = (s.vars f).i ∧ s.activeVar ≤ f then
        s.alpha v * s.Mget (s.c * (s.P * (s.ex (s.vars v).i).y + (s.vars v).p) + (s.ex (s.vars f).i).y)
          (s.vars f).p * s.kpos (s.vars v).i (s.vars f).i
      else 0 := by
  have hact := ht.active_le a ha
  split_ifs with hc
  · obtain ⟨rfl, hfa⟩ := hc
    have hp := ht.v_p_lt f hf
    have hb := ht.v_index_lt f hf
    have hidx : (s.ex (s.vars f).i).active ≤ (s.vars f).index := by
      by_contra hlt
      have := (ht.active_iff _ ha _ hb).1 (not_le.1 hlt)
      rw [ht.v_avar f hf] at this
      omega
    unfold McBox.unshrinkWritesEx
    dsimp only
    rw [amt_append, amt_filter_map, amt_entries _ _ f (s.vars f).p _ _ _ (hm _).1]
    · have h2 : amt (if ((s.M (s.c * (s.P * (s.ex (s.vars v).i).y + (s.vars v).p) + (s.ex (s.vars f).i).y)).dflt
              != (0.0 : Rat)) = true then
            (List.range (s.P - (s.ex (s.vars f).i).active)).map fun b =>
              ((s.ex (s.vars f).i).avar ((s.ex (s.vars f).i).active + b),
                s.alpha v * (s.M (s.c * (s.P * (s.ex (s.vars v).i).y + (s.vars v).p) + (s.ex (s.vars f).i).y)).dflt
                  * s.kpos (s.vars v).i (s.vars f).i)
            else []) f =
          s.alpha v * (s.M (s.c * (s.P * (s.ex (s.vars v).i).y + (s.vars v).p) + (s.ex (s.vars f).i).y)).dflt
            * s.kpos (s.vars v).i (s.vars f).i := by
        split_ifs with hd
        · rw [amt_map_range, Finset.sum_eq_single ((s.vars f).index - (s.ex (s.vars f).i).active)]
          · have : (s.ex (s.vars f).i).active + ((s.vars f).index - (s.ex (s.vars f).i).active)
                = (s.vars f).index := by omega
            simp only [this, ht.v_avar f hf, if_true]
          · intro b hb' hne
            rw [if_neg]
            intro e
            have := ht.avar_index _ ha ((s.ex (s.vars f).i).active + b)
              (by have := Finset.mem_range.1 hb'; omega)
            simp only at e
            rw [e] at this
            omega
          · intro hn
            exact absurd (Finset.mem_range.2 (by omega)) hn
        · have : (s.M (s.c * (s.P * (s.ex (s.vars v).i).y + (s.vars v).p) + (s.ex (s.vars f).i).y)).dflt
              = 0 := by
            simp only [bne_iff_ne, ne_eq, not_not] at hd
            rw [hd]; norm_num
          rw [this]; simp
      rw [h2]
      unfold McBox.Mget Row.get
      ring
    · intro en hen
      have henP := (hm _).2 en hen
      constructor
      · intro e
        have := ht.var_p _ ha en.1 henP
        rw [e] at this
        exact this.symm
      · intro e
        rw [e]; exact ht.v_var f hf
    · intro en _ e
      simp only at e
      simp only [ge_iff_le, decide_eq_true_eq, e]
      exact hfa
  · apply amt_eq_zero
    intro w hw e
    apply hc
    unfold McBox.unshrinkWritesEx at hw
    simp only [List.mem_append, List.mem_map, List.mem_filter] at hw
    rcases hw with ⟨en, ⟨hen, hge⟩, rfl⟩ | hw
    · simp only at e
      have hi := ht.var_i a ha en.1 ((hm _).2 en hen)
      rw [e] at hi
      simp only [ge_iff_le, decide_eq_true_eq, e] at hge
      exact ⟨hi.symm, hge⟩
    · split_ifs at hw
      · simp only [List.mem_map, List.mem_range] at hw
        obtain ⟨b, hb, rfl⟩ := hw
        simp only at e
        have hbP : (s.ex a).active + b < s.P := by omega
        have hi := ht.avar_i a ha _ hbP
        have hiff := ht.active_iff a ha _ hbP
        rw [e] at hi hiff
        refine ⟨hi.symm, ?_⟩
        by_contra hlt
        have := hiff.2 (not_le.1 hlt)
        omega
      · simp at hw

namespace McBox
open SharkVerif.Mc.McBox

theorem unshrink_Q (s : McBox Rat) : s.unshrink.Q = s.Q := by
  unfold unshrink
  dsimp only
  split_ifs
  · rfl
  · funext a b
    have hy : ∀ i, (if i < s.n then { s.ex i with active := s.P } else s.ex i).y = (s.ex i).y := by
      intro i; split_ifs <;> rfl
    have hi : ∀ i, (if i < s.n then { s.ex i with active := s.P } else s.ex i).index = (s.ex i).index := by
      intro i; split_ifs <;> rfl
    unfold Q Mget
    dsimp only
    rw [hy, hy, hi, hi]

@[simp] theorem unshrink_lin (s : McBox Rat) : s.unshrink.lin = s.lin := by
  unfold unshrink; dsimp only; split_ifs <;> rfl
@[simp] theorem unshrink_alpha (s : McBox Rat) : s.unshrink.alpha = s.alpha := by
  unfold unshrink; dsimp only; split_ifs <;> rfl
@[simp] theorem unshrink_P (s : McBox Rat) : s.unshrink.P = s.P := by
  unfold unshrink; dsimp only; split_ifs <;> rfl
@[simp] theorem unshrink_n (s : McBox Rat) : s.unshrink.n = s.n := by
  unfold unshrink; dsimp only; split_ifs <;> rfl
theorem unshrink_activeVar (s : McBox Rat) : s.unshrink.activeVar = s.P * s.n := by
  unfold unshrink; dsimp only; split_ifs with h
  · exact h
  · rfl

theorem unshrink_grad (s : McBox Rat) (hA : s.activeVar ≠ s.numVars) :
    s.unshrink.grad = applySubs (fun v => if s.activeVar ≤ v ∧ v < s.numVars then s.lin v else s.grad v)
      ((List.range s.numVars).flatMap fun v =>
        if s.alpha v == (0.0 : Rat) then [] else (List.range s.n).flatMap fun a => unshrinkWritesEx s v a) := by
  unfold unshrink; dsimp only; rw [if_neg hA]

end McBox

end Grad

theorem gradInv_unshrink (s : McBox Rat) (ht : TablesInv s) (hm : MWF s) (hq : QSym s) (hl : LabelsOK s)
    (h : GradInv s) : GradInv s.unshrink := by
  by_cases hA : s.activeVar = s.numVars
  · unfold McBox.unshrink; rw [if_pos hA]; exact h
  · intro f hf
    rw [McBox.unshrink_activeVar] at hf
    have hfi := ht.v_i_lt f hf
    rw [McBox.unshrink_Q, McBox.unshrink_lin, McBox.unshrink_alpha, McBox.unshrink_P, McBox.unshrink_n,
      McBox.unshrink_grad s hA, applySubs_eq', amt_flatMap_range]
    have term : ∀ v ∈ range s.numVars,
        amt (if s.alpha v == (0.0 : Rat) then []
          else (List.range s.n).flatMap fun a => McBox.unshrinkWritesEx s v a) f =
        if s.activeVar ≤ f then s.Q f v * s.alpha v else 0 := by
      intro v hv
      have hvn : v < s.P * s.n := Finset.mem_range.1 hv
      split_ifs with h0 hfa hfa
      · simp only [beq_iff_eq] at h0
        rw [h0]; norm_num
      · rfl
      · rw [amt_flatMap_range, Finset.sum_eq_single (s.vars f).i]
        · rw [amt_unshrinkWritesEx s ht hm v _ f hfi hf, if_pos ⟨rfl, hfa⟩,
            ← Q_symm_entry s ht hq hl f v hf hvn]
          ring
        · intro a ha hne
          rw [amt_unshrinkWritesEx s ht hm v a f (Finset.mem_range.1 ha) hf, if_neg]
          exact fun hc => hne hc.1
        · intro hn
          exact absurd (Finset.mem_range.2 hfi) hn
      · rw [amt_flatMap_range]
        apply Finset.sum_eq_zero
        intro a ha
        rw [amt_unshrinkWritesEx s ht hm v a f (Finset.mem_range.1 ha) hf, if_neg]
        exact fun hc => hfa hc.2
    rw [Finset.sum_congr rfl term]
    by_cases hfa : s.activeVar ≤ f
    · simp only [hfa, if_true]
      rw [if_pos ⟨trivial, hf⟩]
      rfl
    · simp only [hfa, if_false, Finset.sum_const_zero, sub_zero]
      rw [if_neg (fun hc => hc.1)]
      exact h f (not_le.1 hfa)

end SharkVerif.Mc
