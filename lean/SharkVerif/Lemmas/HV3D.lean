/-
Correctness of the executable model of `HypervolumeCalculator3D::operator()`
(`Model/HV3D.lean`): the sweep over the third coordinate with a 2-D staircase
front returns the cell-count specification `hvSpec`.  Core Lean only.
-/
import SharkVerif.Lemmas.Hypervolume
import SharkVerif.Model.HV3D
namespace SharkVerif.HV
open SharkVerif.Pareto

def nk (r0 : Int) : Front → Int
  | [] => r0
  | (k, _) :: _ => k

def stairV (r0 top : Int) : Front → Int
  | [] => 0
  | (k, v) :: rest => (nk r0 rest - k) * (top - v) + stairV r0 top rest

def lastV (top : Int) (F : Front) : Int :=
  match F.getLast? with
  | some e => e.2
  | none => top

@[simp] theorem nk_nil (r0 : Int) : nk r0 [] = r0 := rfl
@[simp] theorem nk_cons (r0 k v : Int) (F : Front) : nk r0 ((k, v) :: F) = k := rfl
@[simp] theorem stairV_nil (r0 top : Int) : stairV r0 top [] = 0 := rfl
@[simp] theorem stairV_cons (r0 top k v : Int) (F : Front) :
    stairV r0 top ((k, v) :: F) = (nk r0 F - k) * (top - v) + stairV r0 top F := rfl
@[simp] theorem lastV_nil (top : Int) : lastV top [] = top := rfl
@[simp] theorem lastV_single (top k v : Int) : lastV top [(k, v)] = v := rfl
@[simp] theorem lastV_cons_cons (top : Int) (e e' : Int × Int) (F : Front) :
    lastV top (e :: e' :: F) = lastV top (e' :: F) := by
  simp [lastV, List.getLast?_cons_cons]

theorem stairV_top (r0 top v : Int) : ∀ F : Front,
    stairV r0 top F = stairV r0 v F + (top - v) * (r0 - nk r0 F)
  | [] => by simp
  | (k, w) :: rest => by
    have ih := stairV_top r0 top v rest
    simp only [stairV_cons, nk_cons]
    rw [ih]
    grind

theorem stairV_r0 (a b top : Int) : ∀ A : Front,
    stairV a top A = stairV b top A + (a - b) * (top - lastV top A)
  | [] => by simp
  | [(k, w)] => by simp; grind
  | (k, w) :: (k', w') :: rest => by
    have ih := stairV_r0 a b top ((k', w') :: rest)
    rw [stairV_cons a, stairV_cons b, lastV_cons_cons, ih]
    simp only [nk_cons]
    grind

theorem nk_append (r0 : Int) : ∀ A B : Front, nk r0 (A ++ B) = nk (nk r0 B) A
  | [], B => by simp
  | (k, v) :: A, B => by simp

theorem stairV_append (r0 top : Int) : ∀ A B : Front,
    stairV r0 top (A ++ B) = stairV (nk r0 B) top A + stairV r0 top B
  | [], B => by simp
  | (k, v) :: A, B => by
    have ih := stairV_append r0 top A B
    simp only [List.cons_append, stairV_cons, nk_append, ih]
    grind

theorem dropDominated_spec (r0 t y : Int) : ∀ (F : Front) (acc : Int),
    ∃ D, F = D ++ (dropDominated r0 t y F acc).1 ∧ (∀ e ∈ D, y ≤ e.2) ∧
      (∀ e, (dropDominated r0 t y F acc).1.head? = some e → e.2 < y) ∧
      (dropDominated r0 t y F acc).2 = acc + stairV (nk r0 (dropDominated r0 t y F acc).1) t D
  | [], acc => ⟨[], by simp [dropDominated]⟩
  | (k, v) :: rest, acc => by
    by_cases hv : v ≥ y
    · have hnk : (match rest with | [] => r0 | (k', _) :: _ => k') = nk r0 rest := by
        cases rest with
        | nil => rfl
        | cons e _ => obtain ⟨a, b⟩ := e; rfl
      have e : dropDominated r0 t y ((k, v) :: rest) acc =
          dropDominated r0 t y rest (acc + (nk r0 rest - k) * (t - v)) := by
        cases rest with
        | nil => simp [dropDominated, hv]
        | cons e' rest' => obtain ⟨a, b⟩ := e'; conv => lhs; unfold dropDominated
                           simp [hv]
      obtain ⟨D, h1, h2, h3, h4⟩ := dropDominated_spec r0 t y rest (acc + (nk r0 rest - k) * (t - v))
      rw [e]
      refine ⟨(k, v) :: D, ?_, ?_, h3, ?_⟩
      · rw [List.cons_append, ← h1]
      · intro e he
        rcases List.mem_cons.mp he with rfl | he
        · exact hv
        · exact h2 e he
      · rw [h4, stairV_cons]
        have : nk r0 rest = nk (nk r0 (dropDominated r0 t y rest (acc + (nk r0 rest - k) * (t - v))).1) D := by
          conv => lhs; rw [h1]
          exact nk_append _ _ _
        rw [← this]
        grind
    · have e : dropDominated r0 t y ((k, v) :: rest) acc = ((k, v) :: rest, acc) := by
        simp only [dropDominated, hv, ↓reduceIte]
      rw [e]
      refine ⟨[], by simp, by simp, ?_, by simp⟩
      intro e' he'
      simp at he'
      subst he'
      simp; omega

/-! ### 2-D: the staircase sum of a strictly monotone front is its dominated area -/

def toPt (e : Int × Int) : Pt := [e.1, e.2]

@[simp] theorem px_toPt (e : Int × Int) : px (toPt e) = e.1 := rfl
@[simp] theorem py_toPt (e : Int × Int) : py (toPt e) = e.2 := rfl
@[simp] theorem length_toPt (e : Int × Int) : (toPt e).length = 2 := rfl

theorem sweep2d_map_eq_stairV (r0 : Int) : ∀ (F : Front) (top : Int),
    F.Pairwise (fun a b => b.2 < a.2) → (∀ e ∈ F, e.2 < top) →
    sweep2d r0 top (F.map toPt) = stairV r0 top F
  | [], _, _, _ => by simp [sweep2d]
  | (k, v) :: rest, top, hp, hb => by
    have hp' := List.pairwise_cons.mp hp
    have ih := sweep2d_map_eq_stairV r0 rest v hp'.2 (fun e he => hp'.1 e he)
    have hv := hb (k, v) List.mem_cons_self
    rw [List.map_cons, sweep2d]
    have hpos : top - py (toPt (k, v)) > 0 := by simp only [py_toPt]; omega
    rw [if_pos hpos]
    simp only [px_toPt, py_toPt]
    rw [ih, stairV_cons, stairV_top r0 top v rest]
    grind

theorem stairV_eq_hvCount {r0 r1 : Int} {lo : Pt} {F : Front}
    (hk : F.Pairwise (fun a b => a.1 < b.1)) (hv : F.Pairwise (fun a b => b.2 < a.2))
    (hb : ∀ e ∈ F, e.1 < r0 ∧ e.2 < r1) (hlo : ∀ e ∈ F, leAll lo (toPt e) = true) :
    stairV r0 r1 F = (hvCount lo (F.map toPt) [r0, r1] : Int) := by
  rw [← sweep2d_map_eq_stairV r0 F r1 hv (fun e he => (hb e he).2)]
  apply sweep2d_eq_hvCount
  · rw [List.pairwise_map]
    exact hk.imp (by intro a b h; simp only [px_toPt]; omega)
  · intro p hp
    obtain ⟨e, _, rfl⟩ := List.mem_map.mp hp
    rfl
  · intro p hp
    obtain ⟨e, he, rfl⟩ := List.mem_map.mp hp
    have := (hb e he).1
    simp only [px_toPt]; omega
  · intro p hp
    obtain ⟨e, he, rfl⟩ := List.mem_map.mp hp
    exact hlo e he

/-! ### 3-D cells, slices and slabs -/

theorem eq_triple : ∀ {p : Pt}, p.length = 3 → p = [px p, py p, pz p]
  | [a, b, c], _ => by simp [px, py, pz]
  | [], h => by simp at h
  | [_], h => by simp at h
  | [_, _], h => by simp at h
  | _ :: _ :: _ :: _ :: _, h => by simp at h

theorem leAll_3d {s z : Pt} (hs : s.length = 3) (hz : z.length = 3) :
    leAll s z = true ↔ px s ≤ px z ∧ py s ≤ py z ∧ pz s ≤ pz z := by
  rw [eq_triple hs, eq_triple hz]
  simp [leAll, px, py, pz]

theorem mem_cells_3d {a b c d e f : Int} {z : Pt} :
    z ∈ cells [a, b, c] [d, e, f] ↔
      z.length = 3 ∧ a ≤ px z ∧ px z < d ∧ b ≤ py z ∧ py z < e ∧ c ≤ pz z ∧ pz z < f := by
  rw [mem_cells]
  match z with
  | [] => simp [inBox]
  | [_] => simp [inBox]
  | [_, _] => simp [inBox]
  | [x, y, w] => simp [inBox, px, py, pz]
  | _ :: _ :: _ :: _ :: _ => simp [inBox]

theorem countP_lt_succ {α} (l : List α) (a : α → Bool) (f : α → Int) (k : Int) :
    l.countP (fun c => a c && decide (f c < k + 1)) =
      l.countP (fun c => a c && decide (f c < k)) + l.countP (fun c => a c && decide (f c = k)) := by
  induction l with
  | nil => simp
  | cons x l ih =>
    simp only [List.countP_cons, ih]
    have hx : f x < k ∨ f x = k ∨ k < f x := by omega
    rcases hx with h | h | h
    · have h2 : ¬ f x = k := by omega
      have h3 : f x < k + 1 := by omega
      cases a x <;> simp [h, h2, h3] <;> omega
    · have hk : k < k + 1 := by omega
      cases a x <;> simp [h, hk] <;> omega
    · have h1 : ¬ f x < k := by omega
      have h2 : ¬ f x = k := by omega
      have h3 : ¬ f x < k + 1 := by omega
      cases a x <;> simp [h1, h2, h3]

/-- the slice of the box at height `k`: a 3-D cell is covered iff its projection is -/
theorem slice_count {l0 l1 l2 r0 r1 r2 k : Int} (P F2 : List Pt) (hk1 : l2 ≤ k) (hk2 : k < r2)
    (h : ∀ c : Pt, c.length = 3 → pz c = k → covered P c = covered F2 [px c, py c]) :
    (cells [l0, l1, l2] [r0, r1, r2]).countP (fun c => covered P c && decide (pz c = k)) =
      hvCount [l0, l1] F2 [r0, r1] := by
  unfold hvCount
  have hmap : (cells [l0, l1] [r0, r1]).countP (covered F2) =
      ((cells [l0, l1] [r0, r1]).map (fun z => [px z, py z, k])).countP
        (fun c => covered F2 [px c, py c]) := by
    rw [List.countP_map]
    apply List.countP_congr
    intro z hz
    have hz2 := (mem_cells_2d.mp hz).1
    simp only [Function.comp]
    show covered F2 z = true ↔ covered F2 [px z, py z] = true
    rw [← eq_pair hz2]
  rw [hmap]
  apply countP_eq_of_nodup (nodup_cells _ _)
  · rw [List.Nodup, List.pairwise_map]
    refine List.Pairwise.imp_of_mem ?_ (nodup_cells [l0, l1] [r0, r1])
    intro a b ha hb hne heq
    apply hne
    rw [eq_pair (mem_cells_2d.mp ha).1, eq_pair (mem_cells_2d.mp hb).1]
    simp only [List.cons.injEq] at heq
    simp [heq.1, heq.2.1]
  · intro c
    simp only [mem_cells_3d, List.mem_map, mem_cells_2d, Bool.and_eq_true, decide_eq_true_eq]
    constructor
    · rintro ⟨⟨hc, h1, h2, h3, h4, h5, h6⟩, hcov, hpz⟩
      refine ⟨⟨[px c, py c], ⟨rfl, h1, h2, h3, h4⟩, ?_⟩, ?_⟩
      · conv => rhs; rw [eq_triple hc]
        rw [hpz]; rfl
      · rw [← h c hc hpz]; exact hcov
    · rintro ⟨⟨z, ⟨hz, h1, h2, h3, h4⟩, rfl⟩, hcov⟩
      have hpz : pz [px z, py z, k] = k := rfl
      refine ⟨⟨rfl, h1, h2, h3, h4, by rw [hpz]; exact hk1, by rw [hpz]; exact hk2⟩, ?_, hpz⟩
      rw [h _ rfl hpz]; exact hcov

/-- the slab `z0 ≤ z < z0 + n` of the box, all of whose slices have the same covered projection -/
theorem slab_count {l0 l1 l2 r0 r1 r2 : Int} (P F2 : List Pt) (z0 : Int) (hz0 : l2 ≤ z0)
    (h : ∀ c : Pt, c.length = 3 → z0 ≤ pz c → covered P c = covered F2 [px c, py c]) :
    ∀ n : Nat, z0 + n ≤ r2 →
      (cells [l0, l1, l2] [r0, r1, r2]).countP (fun c => covered P c && decide (pz c < z0 + n)) =
        (cells [l0, l1, l2] [r0, r1, r2]).countP (fun c => covered P c && decide (pz c < z0)) +
          n * hvCount [l0, l1] F2 [r0, r1]
  | 0, _ => by simp
  | n + 1, hn => by
    have e : z0 + ((n + 1 : Nat) : Int) = (z0 + n) + 1 := by omega
    rw [e, countP_lt_succ, slab_count P F2 z0 hz0 h n (by omega),
      slice_count P F2 (by omega) (by omega) (fun c hc hpz => h c hc (by omega)), Nat.succ_mul]
    omega

/-! ### one iteration of the sweep: shape of `step3` -/

def tval (r1 a : Int) (lefts rights : Front) : Int :=
  match rights with
  | [] => lastV r1 lefts
  | (k, v) :: _ => if k == a then v else lastV r1 lefts

theorem step3_eq (r : Pt) (st : S3) (x : Pt) :
    step3 r st x =
      if py x ≥ tval (py r) (px x) (st.front.takeWhile fun e => e.1 < px x)
          (st.front.dropWhile fun e => e.1 < px x) then st
      else
        { front := (st.front.takeWhile fun e => e.1 < px x) ++ (px x, py x) ::
            (dropDominated (px r) (tval (py r) (px x) (st.front.takeWhile fun e => e.1 < px x)
              (st.front.dropWhile fun e => e.1 < px x)) (py x)
              (st.front.dropWhile fun e => e.1 < px x) 0).1
          area := st.area - (dropDominated (px r) (tval (py r) (px x) (st.front.takeWhile fun e => e.1 < px x)
              (st.front.dropWhile fun e => e.1 < px x)) (py x)
              (st.front.dropWhile fun e => e.1 < px x) 0).2 +
            (nk (px r) (dropDominated (px r) (tval (py r) (px x) (st.front.takeWhile fun e => e.1 < px x)
              (st.front.dropWhile fun e => e.1 < px x)) (py x)
              (st.front.dropWhile fun e => e.1 < px x) 0).1 - px x) *
            (tval (py r) (px x) (st.front.takeWhile fun e => e.1 < px x)
              (st.front.dropWhile fun e => e.1 < px x) - py x)
          volume := st.volume + st.area * (pz x - st.prev)
          prev := pz x } := by
  rfl

theorem mem_takeWhile_imp' {α} {p : α → Bool} : ∀ (l : List α) (x : α), x ∈ l.takeWhile p → p x = true
  | [], x, h => by simp at h
  | b :: l, x, h => by
    rw [List.takeWhile_cons] at h
    by_cases hb : p b = true
    · rw [if_pos hb] at h
      rcases List.mem_cons.mp h with rfl | h
      · exact hb
      · exact mem_takeWhile_imp' l x h
    · rw [if_neg hb] at h; simp at h

theorem dropWhile_head {α} {p : α → Bool} : ∀ (l : List α) (x : α) (xs : List α),
    l.dropWhile p = x :: xs → p x = false
  | [], x, xs, h => by simp at h
  | b :: l, x, xs, h => by
    rw [List.dropWhile_cons] at h
    by_cases hb : p b = true
    · rw [if_pos hb] at h; exact dropWhile_head l x xs h
    · rw [if_neg hb] at h
      simp only [List.cons.injEq] at h
      rw [← h.1]; simpa using hb

theorem lastV_le (top : Int) : ∀ (A : Front), A.Pairwise (fun a b => b.2 < a.2) →
    ∀ e ∈ A, lastV top A ≤ e.2
  | [], _, e, he => by simp at he
  | [(k, v)], _, e, he => by
    simp only [List.mem_singleton] at he
    subst he; simp
  | e1 :: e2 :: rest, hp, e, he => by
    have hp' := List.pairwise_cons.mp hp
    have ih := lastV_le top (e2 :: rest) hp'.2
    rw [lastV_cons_cons]
    rcases List.mem_cons.mp he with rfl | he
    · have h1 := hp'.1 e2 List.mem_cons_self
      have h2 := ih e2 List.mem_cons_self
      omega
    · exact ih e he

theorem lastV_mem (top : Int) : ∀ (A : Front), A ≠ [] → ∃ e ∈ A, e.2 = lastV top A
  | [], h => absurd rfl h
  | [(k, v)], _ => ⟨(k, v), List.mem_cons_self, by simp⟩
  | e1 :: e2 :: rest, _ => by
    obtain ⟨e, he, h⟩ := lastV_mem top (e2 :: rest) (by simp)
    exact ⟨e, List.mem_cons_of_mem _ he, by rw [lastV_cons_cons]; exact h⟩

theorem tval_cases {F : Front} (hk : F.Pairwise (fun a b => a.1 < b.1)) (r1 a : Int) :
    let lefts := F.takeWhile fun e => e.1 < a
    let rights := F.dropWhile fun e => e.1 < a
    let t := tval r1 a lefts rights
    (rights = [] ∧ t = lastV r1 lefts) ∨
    (∃ k v rest, rights = (k, v) :: rest ∧ a < k ∧ (∀ e ∈ rest, k < e.1) ∧ t = lastV r1 lefts) ∨
    (∃ v rest, rights = (a, v) :: rest ∧ (∀ e ∈ rest, a < e.1) ∧ t = v) := by
  intro lefts rights t
  have hsplit : lefts ++ rights = F := List.takeWhile_append_dropWhile
  have hkr : rights.Pairwise (fun a b => a.1 < b.1) := by
    rw [← hsplit] at hk
    exact (List.pairwise_append.mp hk).2.1
  cases hr : rights with
  | nil => left; exact ⟨rfl, by simp only [t, hr, tval]⟩
  | cons e rest =>
    obtain ⟨k, v⟩ := e
    right
    have hhead : ¬ k < a := by
      have := dropWhile_head (p := fun e : Int × Int => decide (e.1 < a)) F (k, v) rest hr
      simpa using this
    have hrest : ∀ e ∈ rest, k < e.1 := by
      rw [hr] at hkr
      exact (List.pairwise_cons.mp hkr).1
    by_cases hka : k = a
    · right
      subst hka
      exact ⟨v, rest, rfl, hrest, by simp only [t, hr, tval]; simp⟩
    · left
      refine ⟨k, v, rest, rfl, by omega, hrest, ?_⟩
      simp only [t, hr, tval]
      simp [hka]


theorem tval_cases' {F lefts rights : Front} (hk : F.Pairwise (fun a b => a.1 < b.1)) (r1 a : Int)
    (hL : F.takeWhile (fun e => e.1 < a) = lefts) (hR : F.dropWhile (fun e => e.1 < a) = rights) {t : Int}
    (ht : tval r1 a lefts rights = t) :
    (rights = [] ∧ t = lastV r1 lefts) ∨
    (∃ k v rest, rights = (k, v) :: rest ∧ a < k ∧ (∀ e ∈ rest, k < e.1) ∧ t = lastV r1 lefts) ∨
    (∃ v rest, rights = (a, v) :: rest ∧ (∀ e ∈ rest, a < e.1) ∧ t = v) := by
  subst hL hR ht
  exact tval_cases hk r1 a

/-! ### the loop invariant -/

/-- invariant of the sweep after the points `P` (in any order) have been processed -/
structure Inv (lo r : Pt) (P : List Pt) (st : S3) : Prop where
  len : ∀ p ∈ P, p.length = 3
  lop : ∀ p ∈ P, leAll lo p = true
  keys : st.front.Pairwise (fun a b => a.1 < b.1)
  vals : st.front.Pairwise (fun a b => b.2 < a.2)
  bnd : ∀ e ∈ st.front, e.1 < px r ∧ e.2 < py r
  dom : ∀ p ∈ P, ∃ e ∈ st.front, e.1 ≤ px p ∧ e.2 ≤ py p
  wit : ∀ e ∈ st.front, ∃ q ∈ P, px q = e.1 ∧ py q = e.2 ∧ pz q ≤ st.prev
  area : st.area = stairV (px r) (py r) st.front
  vol : st.volume = ((cells lo r).countP (fun c => covered P c && decide (pz c < st.prev)) : Nat)
  prevLo : pz lo ≤ st.prev
  prevHi : st.prev ≤ pz r

theorem Inv.cov {lo r : Pt} {P : List Pt} {st : S3} (hI : Inv lo r P st) {c : Pt} (hc : c.length = 3)
    (hz : st.prev ≤ pz c) : covered P c = covered (st.front.map toPt) [px c, py c] := by
  apply Bool.eq_iff_iff.mpr
  simp only [covered_iff]
  constructor
  · rintro ⟨p, hp, hpc⟩
    obtain ⟨h0, h1, _⟩ := (leAll_3d (hI.len p hp) hc).mp hpc
    obtain ⟨e, he, e0, e1⟩ := hI.dom p hp
    refine ⟨toPt e, List.mem_map_of_mem he, (leAll_2d rfl rfl).mpr ⟨?_, ?_⟩⟩
    · show e.1 ≤ px c; omega
    · show e.2 ≤ py c; omega
  · rintro ⟨q2, hq2, hle⟩
    obtain ⟨e, he, rfl⟩ := List.mem_map.mp hq2
    have h := (leAll_2d rfl rfl).mp hle
    have h0 : e.1 ≤ px c := h.1
    have h1 : e.2 ≤ py c := h.2
    obtain ⟨q, hq, q0, q1, q2⟩ := hI.wit e he
    exact ⟨q, hq, (leAll_3d (hI.len q hq) hc).mpr ⟨by omega, by omega, by omega⟩⟩

theorem Inv.front_lo {lo r : Pt} {P : List Pt} {st : S3} (hI : Inv lo r P st) (hlo : lo.length = 3) :
    ∀ e ∈ st.front, leAll [px lo, py lo] (toPt e) = true := by
  intro e he
  obtain ⟨q, hq, q0, q1, _⟩ := hI.wit e he
  obtain ⟨h0, h1, _⟩ := (leAll_3d hlo (hI.len q hq)).mp (hI.lop q hq)
  refine (leAll_2d rfl rfl).mpr ⟨?_, ?_⟩
  · show px lo ≤ e.1; omega
  · show py lo ≤ e.2; omega

theorem Inv.area_eq {lo r : Pt} {P : List Pt} {st : S3} (hI : Inv lo r P st) (hlo : lo.length = 3) :
    st.area = (hvCount [px lo, py lo] (st.front.map toPt) [px r, py r] : Int) := by
  rw [hI.area]
  exact stairV_eq_hvCount hI.keys hI.vals hI.bnd (hI.front_lo hlo)

/-- a point does not cover cells below its own third coordinate -/
theorem countP_cons_below {lo r x : Pt} (P : List Pt) (hx : x.length = 3) (hlo : lo.length = 3) {z : Int}
    (hz : z ≤ pz x) :
    (cells lo r).countP (fun c => covered (x :: P) c && decide (pz c < z)) =
      (cells lo r).countP (fun c => covered P c && decide (pz c < z)) := by
  apply List.countP_congr
  intro c hc
  have hc3 : c.length = 3 := by
    have := inBox_length (mem_cells.mp hc)
    omega
  rw [covered_cons]
  by_cases hlt : pz c < z
  · have : leAll x c = false := by
      cases h : leAll x c with
      | false => rfl
      | true =>
        have := (leAll_3d hx hc3).mp h
        omega
    simp [this]
  · simp [hlt]

/-- volume swept between `prev` and a later height `z1` -/
theorem Inv.vol_advance {lo r : Pt} {P : List Pt} {st : S3} (hI : Inv lo r P st) (hlo : lo.length = 3)
    (hr : r.length = 3) {z1 : Int} (h1 : st.prev ≤ z1) (h2 : z1 ≤ pz r) :
    st.volume + st.area * (z1 - st.prev) =
      ((cells lo r).countP (fun c => covered P c && decide (pz c < z1)) : Nat) := by
  have hC : cells lo r = cells [px lo, py lo, pz lo] [px r, py r, pz r] := by
    rw [← eq_triple hlo, ← eq_triple hr]
  have hn : st.prev + (((z1 - st.prev).toNat : Nat) : Int) = z1 := by omega
  have hs := slab_count (l0 := px lo) (l1 := py lo) (l2 := pz lo) (r0 := px r) (r1 := py r) (r2 := pz r)
    P (st.front.map toPt) st.prev hI.prevLo (fun c hc hz => hI.cov hc hz) (z1 - st.prev).toNat
    (by omega)
  rw [hn, ← hC] at hs
  rw [hs, hI.vol, hI.area_eq hlo, Int.natCast_add, Int.natCast_mul]
  have : (((z1 - st.prev).toNat : Nat) : Int) = z1 - st.prev := by omega
  rw [this, Int.mul_comm]


theorem inside3_iff {r p : Pt} : inside3 r p = true ↔ px p < px r ∧ py p < py r ∧ pz p < pz r := by
  simp [inside3, and_assoc]

/-- `step3` preserves the invariant -/
theorem Inv.step {lo r : Pt} {P : List Pt} {st : S3} (hI : Inv lo r P st) (hlo : lo.length = 3)
    (hr : r.length = 3) {x : Pt} (hx : x.length = 3) (hin : inside3 r x = true)
    (hlox : leAll lo x = true) (hprev : st.prev ≤ pz x) : Inv lo r (x :: P) (step3 r st x) := by
  obtain ⟨hin0, hin1, hin2⟩ := inside3_iff.mp hin
  obtain ⟨hlx0, hlx1, hlx2⟩ := (leAll_3d hlo hx).mp hlox
  have hlen' : ∀ p ∈ x :: P, p.length = 3 := by
    intro p hp
    rcases List.mem_cons.mp hp with rfl | hp
    · exact hx
    · exact hI.len p hp
  have hlop' : ∀ p ∈ x :: P, leAll lo p = true := by
    intro p hp
    rcases List.mem_cons.mp hp with rfl | hp
    · exact hlox
    · exact hI.lop p hp
  rw [step3_eq]
  have hsplit : st.front.takeWhile (fun e => decide (e.1 < px x)) ++
      st.front.dropWhile (fun e => decide (e.1 < px x)) = st.front := List.takeWhile_append_dropWhile
  have hleftlt : ∀ e ∈ st.front.takeWhile (fun e => decide (e.1 < px x)), e.1 < px x := by
    intro e he
    simpa using mem_takeWhile_imp' _ _ he
  generalize hL : st.front.takeWhile (fun e => decide (e.1 < px x)) = lefts at *
  generalize hR : st.front.dropWhile (fun e => decide (e.1 < px x)) = rights at *
  generalize ht : tval (py r) (px x) lefts rights = t at *
  have hcases := tval_cases' hI.keys (py r) (px x) hL hR ht
  generalize hdd : dropDominated (px r) t (py x) rights 0 = dd at *
  -- facts about the split
  have hkF := hI.keys
  have hvF := hI.vals
  rw [← hsplit] at hkF hvF
  obtain ⟨hkL, hkR, hkLR⟩ := List.pairwise_append.mp hkF
  obtain ⟨hvL, hvR, hvLR⟩ := List.pairwise_append.mp hvF
  have hmemL : ∀ e ∈ lefts, e ∈ st.front := fun e he => by rw [← hsplit]; exact List.mem_append_left _ he
  have hmemR : ∀ e ∈ rights, e ∈ st.front := fun e he => by rw [← hsplit]; exact List.mem_append_right _ he
  have hrightge : ∀ e ∈ rights, px x ≤ e.1 := by
    intro e he
    rcases hcases with ⟨h, _⟩ | ⟨k, v, rest, h, hk, hrest, _⟩ | ⟨v, rest, h, hrest, _⟩
    · rw [h] at he; simp at he
    · rw [h] at he
      rcases List.mem_cons.mp he with rfl | he
      · exact Int.le_of_lt hk
      · have := hrest e he; omega
    · rw [h] at he
      rcases List.mem_cons.mp he with rfl | he
      · exact Int.le_refl _
      · have := hrest e he; omega
  have htle : ∀ e ∈ lefts, t ≤ e.2 := by
    intro e he
    rcases hcases with ⟨_, ht⟩ | ⟨k, v, rest, _, _, _, ht⟩ | ⟨v, rest, h, _, ht⟩
    · rw [ht]; exact lastV_le _ lefts hvL e he
    · rw [ht]; exact lastV_le _ lefts hvL e he
    · rw [ht]
      have := hvLR e he (px x, v) (by rw [h]; exact List.mem_cons_self)
      exact Int.le_of_lt this
  by_cases hdom : py x ≥ t
  · -- `continue`
    rw [if_pos hdom]
    refine { len := hlen', lop := hlop', keys := hI.keys, vals := hI.vals, bnd := hI.bnd, dom := ?_,
             wit := ?_, area := hI.area, vol := ?_, prevLo := hI.prevLo, prevHi := hI.prevHi }
    · intro p hp
      rcases List.mem_cons.mp hp with rfl | hp
      · rcases hcases with ⟨_, ht⟩ | ⟨k, v, rest, _, _, _, ht⟩ | ⟨v, rest, h, _, ht⟩
        · by_cases hne : lefts = []
          · have : t = py r := by rw [ht, hne]; rfl
            omega
          · obtain ⟨e, he, hev⟩ := lastV_mem (py r) lefts hne
            refine ⟨e, hmemL e he, Int.le_of_lt (hleftlt e he), ?_⟩
            rw [hev, ← show t = _ from ht]; exact hdom
        · by_cases hne : lefts = []
          · have : t = py r := by rw [ht, hne]; rfl
            omega
          · obtain ⟨e, he, hev⟩ := lastV_mem (py r) lefts hne
            refine ⟨e, hmemL e he, Int.le_of_lt (hleftlt e he), ?_⟩
            rw [hev, ← show t = _ from ht]; exact hdom
        · refine ⟨(px p, v), hmemR _ (by rw [h]; exact List.mem_cons_self), Int.le_refl _, ?_⟩
          rw [← ht]; exact hdom
      · exact hI.dom p hp
    · intro e he
      obtain ⟨q, hq, h⟩ := hI.wit e he
      exact ⟨q, List.mem_cons_of_mem _ hq, h⟩
    · rw [hI.vol, countP_cons_below P hx hlo hprev]
  · rw [if_neg hdom]
    have hyt : py x < t := by omega
    obtain ⟨D, hD1, hD2, hD3, hD4⟩ := dropDominated_spec (px r) t (py x) rights 0
    rw [hdd] at hD1 hD3 hD4
    obtain ⟨R', rem⟩ := dd
    simp only at hD1 hD3 hD4 ⊢
    subst hD4
    rw [hD1] at hkR hvR hkLR hvLR hmemR hrightge
    obtain ⟨hkD, hkR', hkDR⟩ := List.pairwise_append.mp hkR
    obtain ⟨hvD, hvR', hvDR⟩ := List.pairwise_append.mp hvR
    have hmemR' : ∀ e ∈ R', e ∈ st.front := fun e he => hmemR e (List.mem_append_right _ he)
    -- keys of the surviving right part are larger than `x[0]`
    have hR'gt : ∀ e ∈ R', px x < e.1 := by
      intro e he
      rcases hcases with ⟨h, _⟩ | ⟨k, v, rest, h, hk, hrest, _⟩ | ⟨v, rest, h, hrest, ht⟩
      · rw [hD1] at h
        have : R' = [] := (List.append_eq_nil_iff.mp h).2
        rw [this] at he; simp at he
      · have hmem : e ∈ (k, v) :: rest := by rw [← h, hD1]; exact List.mem_append_right _ he
        rcases List.mem_cons.mp hmem with rfl | hmem
        · exact hk
        · have := hrest e hmem; omega
      · cases D with
        | nil =>
          rw [List.nil_append] at hD1
          have := hD3 (px x, v) (by rw [← hD1, h]; rfl)
          have htv : t = v := ht
          simp only at this
          omega
        | cons d D' =>
          rw [h, List.cons_append] at hD1
          simp only [List.cons.injEq] at hD1
          exact hrest e (by rw [hD1.2]; exact List.mem_append_right _ he)
    have hR'lt : ∀ e ∈ R', e.2 < py x := by
      intro e he
      cases hR'' : R' with
      | nil => rw [hR''] at he; simp at he
      | cons hd tl =>
        have h1 := hD3 hd (by rw [hR'']; rfl)
        rw [hR''] at he hvR'
        rcases List.mem_cons.mp he with rfl | he
        · exact h1
        · have := (List.pairwise_cons.mp hvR').1 e he
          omega
    -- the key identity behind the area update
    have hkey : (px x - nk (nk (px r) R') D) * (lastV (py r) lefts - t) = 0 := by
      rcases hcases with ⟨_, ht⟩ | ⟨k, v, rest, _, _, _, ht⟩ | ⟨v, rest, h, hrest, ht⟩
      · rw [← ht]; simp
      · rw [← ht]; simp
      · cases D with
        | nil =>
          rw [List.nil_append] at hD1
          have := hD3 (px x, v) (by rw [← hD1, h]; rfl)
          have htv : t = v := ht
          simp only at this
          omega
        | cons d D' =>
          rw [h, List.cons_append] at hD1
          simp only [List.cons.injEq] at hD1
          rw [← hD1.1]; simp
    refine { len := hlen', lop := hlop', keys := ?_, vals := ?_, bnd := ?_, dom := ?_,
             wit := ?_, area := ?_, vol := ?_, prevLo := hlx2, prevHi := Int.le_of_lt hin2 }
    · show (lefts ++ (px x, py x) :: R').Pairwise (fun a b => a.1 < b.1)
      rw [List.pairwise_append]
      refine ⟨hkL, List.pairwise_cons.mpr ⟨fun e he => hR'gt e he, hkR'⟩, ?_⟩
      intro e he e' he'
      rcases List.mem_cons.mp he' with rfl | he'
      · exact hleftlt e he
      · exact hkLR e he e' (List.mem_append_right _ he')
    · show (lefts ++ (px x, py x) :: R').Pairwise (fun a b => b.2 < a.2)
      rw [List.pairwise_append]
      refine ⟨hvL, List.pairwise_cons.mpr ⟨fun e he => hR'lt e he, hvR'⟩, ?_⟩
      intro e he e' he'
      rcases List.mem_cons.mp he' with rfl | he'
      · have := htle e he
        show py x < e.2
        omega
      · exact hvLR e he e' (List.mem_append_right _ he')
    · intro e he
      change e ∈ lefts ++ (px x, py x) :: R' at he
      rcases List.mem_append.mp he with he | he
      · exact hI.bnd e (hmemL e he)
      · rcases List.mem_cons.mp he with rfl | he
        · exact ⟨hin0, hin1⟩
        · exact hI.bnd e (hmemR' e he)
    · intro p hp
      show ∃ e ∈ lefts ++ (px x, py x) :: R', e.1 ≤ px p ∧ e.2 ≤ py p
      rcases List.mem_cons.mp hp with rfl | hp
      · exact ⟨(px p, py p), by simp, Int.le_refl _, Int.le_refl _⟩
      · obtain ⟨e, he, e0, e1⟩ := hI.dom p hp
        rw [← hsplit, hD1] at he
        rcases List.mem_append.mp he with he | he
        · exact ⟨e, List.mem_append_left _ he, e0, e1⟩
        · rcases List.mem_append.mp he with he | he
          · have h0 := hrightge e (List.mem_append_left _ he)
            have h1 := hD2 e he
            exact ⟨(px x, py x), by simp, by show px x ≤ px p; omega, by show py x ≤ py p; omega⟩
          · exact ⟨e, List.mem_append_right _ (List.mem_cons_of_mem _ he), e0, e1⟩
    · intro e he
      change e ∈ lefts ++ (px x, py x) :: R' at he
      show ∃ q ∈ x :: P, px q = e.1 ∧ py q = e.2 ∧ pz q ≤ pz x
      have hold : e ∈ st.front → ∃ q ∈ x :: P, px q = e.1 ∧ py q = e.2 ∧ pz q ≤ pz x := by
        intro he
        obtain ⟨q, hq, q0, q1, q2⟩ := hI.wit e he
        exact ⟨q, List.mem_cons_of_mem _ hq, q0, q1, by omega⟩
      rcases List.mem_append.mp he with he | he
      · exact hold (hmemL e he)
      · rcases List.mem_cons.mp he with rfl | he
        · exact ⟨x, List.mem_cons_self, rfl, rfl, Int.le_refl _⟩
        · exact hold (hmemR' e he)
    · show st.area - (0 + stairV (nk (px r) R') t D) + (nk (px r) R' - px x) * (t - py x) =
        stairV (px r) (py r) (lefts ++ (px x, py x) :: R')
      rw [hI.area, ← hsplit, hD1, stairV_append, stairV_append, stairV_append, nk_append, stairV_cons,
        nk_cons, stairV_top (nk (px r) R') (py r) t D,
        stairV_r0 (px x) (nk (nk (px r) R') D) (py r) lefts]
      grind
    · show st.volume + st.area * (pz x - st.prev) =
        ((cells lo r).countP (fun c => covered (x :: P) c && decide (pz c < pz x)) : Nat)
      rw [countP_cons_below P hx hlo (Int.le_refl _)]
      exact hI.vol_advance hlo hr hprev (Int.le_of_lt hin2)


theorem Inv.init {lo r x0 : Pt} (hlo : lo.length = 3) (hx : x0.length = 3)
    (hin : inside3 r x0 = true) (hlox : leAll lo x0 = true) : Inv lo r [x0] (init3 r x0) := by
  obtain ⟨hin0, hin1, hin2⟩ := inside3_iff.mp hin
  obtain ⟨_, _, hlx2⟩ := (leAll_3d hlo hx).mp hlox
  refine { len := by simpa using hx, lop := by simpa using hlox, keys := by simp [init3],
           vals := by simp [init3], bnd := ?_, dom := ?_, wit := ?_, area := ?_, vol := ?_,
           prevLo := hlx2, prevHi := Int.le_of_lt hin2 }
  · intro e he
    simp only [init3, List.mem_singleton] at he
    subst he
    exact ⟨hin0, hin1⟩
  · intro p hp
    simp only [List.mem_singleton] at hp
    subst hp
    exact ⟨(px p, py p), by simp [init3], Int.le_refl _, Int.le_refl _⟩
  · intro e he
    simp only [init3, List.mem_singleton] at he
    subst he
    exact ⟨x0, by simp, rfl, rfl, Int.le_refl _⟩
  · simp [init3]
  · show (0 : Int) = ((cells lo r).countP (fun c => covered [x0] c && decide (pz c < pz x0)) : Nat)
    rw [countP_cons_below [] hx hlo (Int.le_refl _)]
    simp [covered]

theorem step3_prev (r : Pt) (st : S3) (x : Pt) :
    (step3 r st x).prev = st.prev ∨ (step3 r st x).prev = pz x := by
  rw [step3_eq]
  split
  · exact Or.inl rfl
  · exact Or.inr rfl

theorem Inv.foldl {lo r : Pt} (hlo : lo.length = 3) (hr : r.length = 3) :
    ∀ (rest P : List Pt) (st : S3), Inv lo r P st →
      (∀ x ∈ rest, x.length = 3 ∧ inside3 r x = true ∧ leAll lo x = true ∧ st.prev ≤ pz x) →
      rest.Pairwise (fun a b => pz a ≤ pz b) →
      ∃ P', Inv lo r P' (rest.foldl (step3 r) st) ∧ ∀ p, p ∈ P' ↔ (p ∈ P ∨ p ∈ rest)
  | [], P, st, hI, _, _ => ⟨P, hI, by simp⟩
  | x :: rest, P, st, hI, hx, hs => by
    obtain ⟨hx3, hxin, hxlo, hxprev⟩ := hx x List.mem_cons_self
    have hs' := List.pairwise_cons.mp hs
    have hI' := hI.step hlo hr hx3 hxin hxlo hxprev
    obtain ⟨P', hP', hmem⟩ := Inv.foldl hlo hr rest (x :: P) (step3 r st x) hI' (by
      intro y hy
      obtain ⟨hy3, hyin, hylo, hyprev⟩ := hx y (List.mem_cons_of_mem _ hy)
      refine ⟨hy3, hyin, hylo, ?_⟩
      rcases step3_prev r st x with h | h
      · rw [h]; exact hyprev
      · rw [h]; exact hs'.1 y hy) hs'.2
    refine ⟨P', hP', ?_⟩
    intro p
    rw [hmem p, List.mem_cons, List.mem_cons]
    constructor
    · rintro ((h | h) | h)
      · exact Or.inr (Or.inl h)
      · exact Or.inl h
      · exact Or.inr (Or.inr h)
    · rintro (h | h | h)
      · exact Or.inl (Or.inr h)
      · exact Or.inl (Or.inl h)
      · exact Or.inr h

/-! ### the three target theorems -/

theorem hv3dSorted_eq_spec {L : List Pt} {r : Pt} (hsort : L.Pairwise (fun a b => pz a ≤ pz b))
    (hL : ∀ p ∈ L, p.length = 3) (hr : r.length = 3) (hin : ∀ p ∈ L, inside3 r p = true) :
    hv3dSorted L r = (hvSpec L r : Int) := by
  match L, hsort, hL, hin with
  | [], _, _, _ => rw [hvSpec_nil]; rfl
  | x0 :: rest, hsort, hL, hin =>
    have hl := lower_le (S := x0 :: rest) hr hL
    have hlo : (lower (x0 :: rest) r).length = 3 := by rw [leAll_length hl.1, hr]
    generalize hlodef : lower (x0 :: rest) r = lo at hl hlo
    have hs' := List.pairwise_cons.mp hsort
    have hI0 := Inv.init (r := r) hlo (hL x0 List.mem_cons_self) (hin x0 List.mem_cons_self)
      (hl.2 x0 List.mem_cons_self)
    obtain ⟨P', hI, hmem⟩ := Inv.foldl hlo hr rest [x0] (init3 r x0) hI0 (by
      intro y hy
      exact ⟨hL y (List.mem_cons_of_mem _ hy), hin y (List.mem_cons_of_mem _ hy),
        hl.2 y (List.mem_cons_of_mem _ hy), hs'.1 y hy⟩) hs'.2
    have hadv := hI.vol_advance hlo hr hI.prevHi (Int.le_refl _)
    show (rest.foldl (step3 r) (init3 r x0)).volume +
      (rest.foldl (step3 r) (init3 r x0)).area * (pz r - (rest.foldl (step3 r) (init3 r x0)).prev) = _
    rw [hadv]
    congr 1
    unfold hvSpec hvCount
    rw [hlodef]
    apply List.countP_congr
    intro c hc
    have hlt : pz c < pz r := by
      rw [eq_triple hlo, eq_triple hr] at hc
      exact (mem_cells_3d.mp hc).2.2.2.2.2.2
    have hcov : covered P' c = covered (x0 :: rest) c := by
      apply Bool.eq_iff_iff.mpr
      simp only [covered_iff]
      constructor
      · rintro ⟨p, hp, h⟩
        refine ⟨p, ?_, h⟩
        rcases (hmem p).mp hp with hp | hp
        · simp only [List.mem_singleton] at hp; subst hp; exact List.mem_cons_self
        · exact List.mem_cons_of_mem _ hp
      · rintro ⟨p, hp, h⟩
        refine ⟨p, (hmem p).mpr ?_, h⟩
        rcases List.mem_cons.mp hp with rfl | hp
        · exact Or.inl (by simp)
        · exact Or.inr hp
    rw [hcov]
    simp [hlt]

/-- points with a coordinate equal to the reference point dominate no cell of the box
(`hle` is not needed: a point outside the box covers no cell of it either) -/
theorem hvSpec_filter_inside3 {S : List Pt} {r : Pt} (hS : ∀ p ∈ S, p.length = 3) (hr : r.length = 3)
    (hle : ∀ p ∈ S, leAll p r = true) : hvSpec (S.filter (inside3 r)) r = hvSpec S r := by
  have _ := hle
  have hl := lower_le (S := S) hr hS
  have hlo : (lower S r).length = 3 := by rw [leAll_length hl.1, hr]
  rw [hvSpec_eq_hvCount (lo := lower S r) hl.1 (fun p hp => hl.2 p (List.mem_filter.mp hp).1)]
  unfold hvSpec hvCount
  apply List.countP_congr
  intro c hc
  have hc' := hc
  rw [eq_triple hlo, eq_triple hr] at hc'
  obtain ⟨hc3, _, h0, _, h1, _, h2⟩ := mem_cells_3d.mp hc'
  simp only [covered_iff]
  constructor
  · rintro ⟨p, hp, h⟩
    exact ⟨p, (List.mem_filter.mp hp).1, h⟩
  · rintro ⟨p, hp, h⟩
    obtain ⟨p0, p1, p2⟩ := (leAll_3d (hS p hp) hc3).mp h
    exact ⟨p, List.mem_filter.mpr ⟨hp, inside3_iff.mpr ⟨by omega, by omega, by omega⟩⟩, h⟩

theorem pairwise_sortByZ (S : List Pt) : (sortByZ S).Pairwise (fun a b => pz a ≤ pz b) := by
  unfold sortByZ
  have := List.pairwise_mergeSort (le := fun a b : Pt => decide (pz a ≤ pz b))
    (by intro a b c; simp only [decide_eq_true_eq]; omega)
    (by intro a b; simp only [Bool.or_eq_true, decide_eq_true_eq]; omega) S
  exact this.imp (by simp)

theorem hv3d_eq_spec {S : List Pt} {r : Pt} (hS : ∀ p ∈ S, p.length = 3) (hr : r.length = 3)
    (hle : ∀ p ∈ S, leAll p r = true) : hv3d S r = (hvSpec S r : Int) := by
  have hperm : (sortByZ (S.filter (inside3 r))).Perm (S.filter (inside3 r)) := List.mergeSort_perm _ _
  unfold hv3d
  rw [hv3dSorted_eq_spec (pairwise_sortByZ _)
    (fun p hp => hS p (List.mem_filter.mp (hperm.mem_iff.mp hp)).1) hr
    (fun p hp => (List.mem_filter.mp (hperm.mem_iff.mp hp)).2), hvSpec_perm hperm,
    hvSpec_filter_inside3 hS hr hle]

end SharkVerif.HV
