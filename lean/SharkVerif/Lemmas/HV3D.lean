/-
Correctness of the executable model of `HypervolumeCalculator3D::operator()`
(`Model/HV3D.lean`): the sweep over the third coordinate with a 2-D staircase
front returns the cell-count specification `hvSpec`.  Core Lean only.
-/
import SharkVerif.Lemmas.Hypervolume
import SharkVerif.Model.HV3D
namespace SharkVerif.HV
open SharkVerif.Pareto

def nk (r0 : Int) : Front → Int
  | [] => r0
  | (k, _) :: _ => k

def stairV (r0 top : Int) : Front → Int
  | [] => 0
  | (k, v) :: rest => (nk r0 rest - k) * (top - v) + stairV r0 top rest

def lastV (top : Int) (F : Front) : Int :=
  match F.getLast? with
  | some e => e.2
  | none => top

@[simp] theorem nk_nil (r0 : Int) : nk r0 [] = r0 := rfl
@[simp] theorem nk_cons (r0 k v : Int) (F : Front) : nk r0 ((k, v) :: F) = k := rfl
@[simp] theorem stairV_nil (r0 top : Int) : stairV r0 top [] = 0 := rfl
@[simp] theorem stairV_cons (r0 top k v : Int) (F : Front) :
    stairV r0 top ((k, v) :: F) = (nk r0 F - k) * (top - v) + stairV r0 top F := rfl
@[simp] theorem lastV_nil (top : Int) : lastV top [] = top := rfl
@[simp] theorem lastV_single (top k v : Int) : lastV top [(k, v)] = v := rfl
@[simp] theorem lastV_cons_cons (top : Int) (e e' : Int × Int) (F : Front) :
    lastV top (e :: e' :: F) = lastV top (e' :: F) := by
  simp [lastV, List.getLast?_cons_cons]

theorem stairV_top (r0 top v : Int) : ∀ F : Front,
    stairV r0 top F = stairV r0 v F + (top - v) * (r0 - nk r0 F)
  | [] => by simp
  | (k, w) :: rest => by
    have ih := stairV_top r0 top v rest
    simp only [stairV_cons, nk_cons]
    rw [ih]
    grind

theorem stairV_r0 (a b top : Int) : ∀ A : Front,
    stairV a top A = stairV b top A + (a - b) * (top - lastV top A)
  | [] => by simp
  | [(k, w)] => by simp; grind
  | (k, w) :: (k', w') :: rest => by
    have ih := stairV_r0 a b top ((k', w') :: rest)
    rw [stairV_cons a, stairV_cons b, lastV_cons_cons, ih]
    simp only [nk_cons]
    grind

theorem nk_append (r0 : Int) : ∀ A B : Front, nk r0 (A ++ B) = nk (nk r0 B) A
  | [], B => by simp
  | (k, v) :: A, B => by simp

theorem stairV_append (r0 top : Int) : ∀ A B : Front,
    stairV r0 top (A ++ B) = stairV (nk r0 B) top A + stairV r0 top B
  | [], B => by simp
  | (k, v) :: A, B => by
    have ih := stairV_append r0 top A B
    simp only [List.cons_append, stairV_cons, nk_append, ih]
    grind

theorem dropDominated_spec (r0 t y : Int) : ∀ (F : Front) (acc : Int),
    ∃ D, F = D ++ (dropDominated r0 t y F acc).1 ∧ (∀ e ∈ D, y ≤ e.2) ∧
      (∀ e, (dropDominated r0 t y F acc).1.head? = some e → e.2 < y) ∧
      (dropDominated r0 t y F acc).2 = acc + stairV (nk r0 (dropDominated r0 t y F acc).1) t D
  | [], acc => ⟨[], by simp [dropDominated]⟩
  | (k, v) :: rest, acc => by
    by_cases hv : v ≥ y
    · have hnk : (match rest with | [] => r0 | (k', _) :: _ => k') = nk r0 rest := by
        cases rest with
        | nil => rfl
        | cons e _ => obtain ⟨a, b⟩ := e; rfl
      have e : dropDominated r0 t y ((k, v) :: rest) acc =
          dropDominated r0 t y rest (acc + (nk r0 rest - k) * (t - v)) := by
        cases rest with
        | nil => simp [dropDominated, hv]
        | cons e' rest' => obtain ⟨a, b⟩ := e'; conv => lhs; unfold dropDominated
                           simp [hv]
      obtain ⟨D, h1, h2, h3, h4⟩ := dropDominated_spec r0 t y rest (acc + (nk r0 rest - k) * (t - v))
      rw [e]
      refine ⟨(k, v) :: D, ?_, ?_, h3, ?_⟩
      · rw [List.cons_append, ← h1]
      · intro e he
        rcases List.mem_cons.mp he with rfl | he
        · exact hv
        · exact h2 e he
      · rw [h4, stairV_cons]
        have : nk r0 rest = nk (nk r0 (dropDominated r0 t y rest (acc + (nk r0 rest - k) * (t - v))).1) D := by
          conv => lhs; rw [h1]
          exact nk_append _ _ _
        rw [← this]
        grind
    · have e : dropDominated r0 t y ((k, v) :: rest) acc = ((k, v) :: rest, acc) := by
        simp only [dropDominated, hv, ↓reduceIte]
      rw [e]
      refine ⟨[], by simp, by simp, ?_, by simp⟩
      intro e' he'
      simp at he'
      subst he'
      simp; omega

/-! ### 2-D: the staircase sum of a strictly monotone front is its dominated area -/

def toPt (e : Int × Int) : Pt := [e.1, e.2]

@[simp] theorem px_toPt (e : Int × Int) : px (toPt e) = e.1 := rfl
@[simp] theorem py_toPt (e : Int × Int) : py (toPt e) = e.2 := rfl
@[simp] theorem length_toPt (e : Int × Int) : (toPt e).length = 2 := rfl

theorem sweep2d_map_eq_stairV (r0 : Int) : ∀ (F : Front) (top : Int),
    F.Pairwise (fun a b => b.2 < a.2) → (∀ e ∈ F, e.2 < top) →
    sweep2d r0 top (F.map toPt) = stairV r0 top F
  | [], _, _, _ => by simp [sweep2d]
  | (k, v) :: rest, top, hp, hb => by
    have hp' := List.pairwise_cons.mp hp
    have ih := sweep2d_map_eq_stairV r0 rest v hp'.2 (fun e he => hp'.1 e he)
    have hv := hb (k, v) List.mem_cons_self
    rw [List.map_cons, sweep2d]
    have hpos : top - py (toPt (k, v)) > 0 := by simp only [py_toPt]; omega
    rw [if_pos hpos]
    simp only [px_toPt, py_toPt]
    rw [ih, stairV_cons, stairV_top r0 top v rest]
    grind

theorem stairV_eq_hvCount {r0 r1 : Int} {lo : Pt} {F : Front}
    (hk : F.Pairwise (fun a b => a.1 < b.1)) (hv : F.Pairwise (fun a b => b.2 < a.2))
    (hb : ∀ e ∈ F, e.1 < r0 ∧ e.2 < r1) (hlo : ∀ e ∈ F, leAll lo (toPt e) = true) :
    stairV r0 r1 F = (hvCount lo (F.map toPt) [r0, r1] : Int) := by
  rw [← sweep2d_map_eq_stairV r0 F r1 hv (fun e he => (hb e he).2)]
  apply sweep2d_eq_hvCount
  · rw [List.pairwise_map]
    exact hk.imp (by intro a b h; simp only [px_toPt]; omega)
  · intro p hp
    obtain ⟨e, _, rfl⟩ := List.mem_map.mp hp
    rfl
  · intro p hp
    obtain ⟨e, he, rfl⟩ := List.mem_map.mp hp
    have := (hb e he).1
    simp only [px_toPt]; omega
  · intro p hp
    obtain ⟨e, he, rfl⟩ := List.mem_map.mp hp
    exact hlo e he

/-! ### 3-D cells, slices and slabs -/

theorem eq_triple : ∀ {p : Pt}, p.length = 3 → p = [px p, py p, pz p]
  | [a, b, c], _ => by simp [px, py, pz]
  | [], h => by simp at h
  | [_], h => by simp at h
  | [_, _], h => by simp at h
  | _ :: _ :: _ :: _ :: _, h => by simp at h

theorem leAll_3d {s z : Pt} (hs : s.length = 3) (hz : z.length = 3) :
    leAll s z = true ↔ px s ≤ px z ∧ py s ≤ py z ∧ pz s ≤ pz z := by
  rw [eq_triple hs, eq_triple hz]
  simp [leAll, px, py, pz]

theorem mem_cells_3d {a b c d e f : Int} {z : Pt} :
    z ∈ cells [a, b, c] [d, e, f] ↔
      z.length = 3 ∧ a ≤ px z ∧ px z < d ∧ b ≤ py z ∧ py z < e ∧ c ≤ pz z ∧ pz z < f := by
  rw [mem_cells]
  match z with
  | [] => simp [inBox]
  | [_] => simp [inBox]
  | [_, _] => simp [inBox]
  | [x, y, w] => simp [inBox, px, py, pz]
  | _ :: _ :: _ :: _ :: _ => simp [inBox]

theorem countP_lt_succ {α} (l : List α) (a : α → Bool) (f : α → Int) (k : Int) :
    l.countP (fun c => a c && decide (f c < k + 1)) =
      l.countP (fun c => a c && decide (f c < k)) + l.countP (fun c => a c && decide (f c = k)) := by
  induction l with
  | nil => simp
  | cons x l ih =>
    simp only [List.countP_cons, ih]
    have hx : f x < k ∨ f x = k ∨ k < f x := by omega
    rcases hx with h | h | h
    · have h2 : ¬ f x = k := by omega
      have h3 : f x < k + 1 := by omega
      cases a x <;> simp [h, h2, h3] <;> omega
    · have hk : k < k + 1 := by omega
      cases a x <;> simp [h, hk] <;> omega
    · have h1 : ¬ f x < k := by omega
      have h2 : ¬ f x = k := by omega
      have h3 : ¬ f x < k + 1 := by omega
      cases a x <;> simp [h1, h2, h3]

/-- the slice of the box at height `k`: a 3-D cell is covered iff its projection is -/
theorem slice_count {l0 l1 l2 r0 r1 r2 k : Int} (P F2 : List Pt) (hk1 : l2 ≤ k) (hk2 : k < r2)
    (h : ∀ c : Pt, c.length = 3 → pz c = k → covered P c = covered F2 [px c, py c]) :
    (cells [l0, l1, l2] [r0, r1, r2]).countP (fun c => covered P c && decide (pz c = k)) =
      hvCount [l0, l1] F2 [r0, r1] := by
  unfold hvCount
  have hmap : (cells [l0, l1] [r0, r1]).countP (covered F2) =
      ((cells [l0, l1] [r0, r1]).map (fun z => [px z, py z, k])).countP
        (fun c => covered F2 [px c, py c]) := by
    rw [List.countP_map]
    apply List.countP_congr
    intro z hz
    have hz2 := (mem_cells_2d.mp hz).1
    simp only [Function.comp]
    show covered F2 z = true ↔ covered F2 [px z, py z] = true
    rw [← eq_pair hz2]
  rw [hmap]
  apply countP_eq_of_nodup (nodup_cells _ _)
  · rw [List.Nodup, List.pairwise_map]
    refine List.Pairwise.imp_of_mem ?_ (nodup_cells [l0, l1] [r0, r1])
    intro a b ha hb hne heq
    apply hne
    rw [eq_pair (mem_cells_2d.mp ha).1, eq_pair (mem_cells_2d.mp hb).1]
    simp only [List.cons.injEq] at heq
    simp [heq.1, heq.2.1]
  · intro c
    simp only [mem_cells_3d, List.mem_map, mem_cells_2d, Bool.and_eq_true, decide_eq_true_eq]
    constructor
    · rintro ⟨⟨hc, h1, h2, h3, h4, h5, h6⟩, hcov, hpz⟩
      refine ⟨⟨[px c, py c], ⟨rfl, h1, h2, h3, h4⟩, ?_⟩, ?_⟩
      · conv => rhs; rw [eq_triple hc]
        rw [hpz]; rfl
      · rw [← h c hc hpz]; exact hcov
    · rintro ⟨⟨z, ⟨hz, h1, h2, h3, h4⟩, rfl⟩, hcov⟩
      have hpz : pz [px z, py z, k] = k := rfl
      refine ⟨⟨rfl, h1, h2, h3, h4, by rw [hpz]; exact hk1, by rw [hpz]; exact hk2⟩, ?_, hpz⟩
      rw [h _ rfl hpz]; exact hcov

/-- the slab `z0 ≤ z < z0 + n` of the box, all of whose slices have the same covered projection -/
theorem slab_count {l0 l1 l2 r0 r1 r2 : Int} (P F2 : List Pt) (z0 : Int) (hz0 : l2 ≤ z0)
    (h : ∀ c : Pt, c.length = 3 → z0 ≤ pz c → covered P c = covered F2 [px c, py c]) :
    ∀ n : Nat, z0 + n ≤ r2 →
      (cells [l0, l1, l2] [r0, r1, r2]).countP (fun c => covered P c && decide (pz c < z0 + n)) =
        (cells [l0, l1, l2] [r0, r1, r2]).countP (fun c => covered P c && decide (pz c < z0)) +
          n * hvCount [l0, l1] F2 [r0, r1]
  | 0, _ => by simp
  | n + 1, hn => by
    have e : z0 + ((n + 1 : Nat) : Int) = (z0 + n) + 1 := by omega
    rw [e, countP_lt_succ, slab_count P F2 z0 hz0 h n (by omega),
      slice_count P F2 (by omega) (by omega) (fun c hc hpz => h c hc (by omega)), Nat.succ_mul]
    omega

end SharkVerif.HV
