/-
Helper lemmas for C02: uniqueness of the solution of a regular triangular system
(used for `inv_prod_is_solve` and for the blocked = unblocked argument).
-/
import SharkVerif.Lemmas.LinSolveLU
namespace SharkVerif.LinSolve

theorem fwd_unique (unit : Bool) (n : Nat) (L : Mat) (b x : Vec)
    (hd : ∀ i, i < n → diagOf unit L i ≠ 0)
    (hx : ∀ i, i < n → sum i (fun j => L i j * x j) + diagOf unit L i * x i = b i) :
    ∀ i, i < n → x i = fwd unit n L b i := by
  intro i
  induction i using Nat.strong_induction_on with
  | _ i ih =>
    intro hi
    rw [fwd_rec unit n L b hi]
    have hs : sum i (fun j => L i j * fwd unit n L b j) = sum i (fun j => L i j * x j) :=
      sum_congr fun j hj => by rw [ih j hj (by omega)]
    rw [hs, ← hx i hi]
    have := hd i hi
    field_simp
    ring

theorem mulVec_upper_rev (unit : Bool) (n : Nat) (U : Mat) (x : Vec) {i : Nat} (hi : i < n) :
    mulVec n (triPart ⟨true, unit⟩ U) x i
      = mulVec n (triPart ⟨false, unit⟩ (fun a c => U (rev n a) (rev n c))) (fun k => x (rev n k)) (rev n i) := by
  unfold mulVec
  rw [← sum_reflect]
  apply sum_congr; intro k hk
  rw [triPart_upper_rev unit n U hi hk]

theorem trsvLeft_unique (t : Tri) (n : Nat) (A : Mat) (b x : Vec) (h : Regular t n A)
    (hx : ∀ i, i < n → mulVec n (triPart t A) x i = b i) :
    ∀ i, i < n → x i = vget (trsvLeftArr t n A b) i := by
  intro i hi
  rw [vget_trsvLeftArr t n A b hi]
  obtain ⟨up, un⟩ := t
  cases up
  · -- lower
    simp only [Bool.false_eq_true, if_false]
    apply fwd_unique un n A b x h.diag _ i hi
    intro k hk
    rw [← hx k hk, triPart_lower_mulVec un n A x hk]
  · -- upper, through the reversal
    simp only [if_true]
    set A' : Mat := fun a c => A (rev n a) (rev n c) with hA'
    set b' : Vec := fun a => b (rev n a) with hb'
    set x' : Vec := fun k => x (rev n k) with hx'
    have hd' : ∀ k, k < n → diagOf un A' k ≠ 0 := by
      intro k hk
      have := h.diag (rev n k) (rev_lt hk)
      simpa [diagOf, hA'] using this
    have key := fwd_unique un n A' b' x' hd' (by
      intro k hk
      rw [← triPart_lower_mulVec un n A' x' hk]
      have := mulVec_upper_rev un n A x (rev_lt hk)
      rw [rev_rev hk] at this
      rw [← this, hx (rev n k) (rev_lt hk)]) (rev n i) (rev_lt hi)
    have hxi : x i = x' (rev n i) := by simp [hx', rev_rev hi]
    rw [hxi, key]
    rfl

end SharkVerif.LinSolve
