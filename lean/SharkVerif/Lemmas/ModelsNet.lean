/-
Structural lemmas for `Model/Models3.lean` (property C04): nested `ConcatenatedModel`s (`Net`) refine the flat
`Chain` obtained by `Net.flatten`; the separate routines of `ConcatenatedModel` (`evalFold`, `inputOnly`,
`gradOnly`) agree with the combined backward pass; the `im2mat`/`gemm` index map of `conv2d` is the defining
sum of `Conv.pre`; arg-max over vote counts.
-/
import SharkVerif.Model.Models3
import SharkVerif.Lemmas.ChainDeriv
import Mathlib.Data.Rat.Floor

namespace SharkVerif.Models
open Scalar

section Generic
set_option linter.unusedSectionVars false
variable {α : Type} [Scalar α] (tanh exp : α → α)

/-! ### packing lemmas for chains -/
theorem Chain.numberOfParameters_append (a b : Chain α) :
    Chain.numberOfParameters (a ++ b) = Chain.numberOfParameters a + Chain.numberOfParameters b := by
  induction a with
  | nil => simp [Chain.numberOfParameters]
  | cons q a ih =>
    obtain ⟨l, o⟩ := q
    simp only [List.cons_append, Chain.numberOfParameters, ih]; omega

theorem Chain.setParams_append (a b : Chain α) (p : List α) :
    Chain.setParams (a ++ b) p =
      Chain.setParams a (p.take (Chain.numberOfParameters a)) ++ Chain.setParams b (p.drop (Chain.numberOfParameters a)) := by
  induction a generalizing p with
  | nil => simp [Chain.setParams, Chain.numberOfParameters]
  | cons q a ih =>
    obtain ⟨l, o⟩ := q
    cases o with
    | false =>
      simp only [List.cons_append, Chain.setParams, Chain.numberOfParameters, Bool.false_eq_true, ↓reduceIte,
        Nat.zero_add, ih]
    | true =>
      simp only [List.cons_append, Chain.setParams, Chain.numberOfParameters, ↓reduceIte, ih, List.cons.injEq,
        Prod.mk.injEq, and_true]
      refine ⟨?_, ?_⟩
      · rw [List.take_take]; congr 2; omega
      · rw [List.drop_take, List.drop_drop]
        congr 2
        congr 1; omega

/-- a chain without optimised layers has no parameters and ignores `setParameterVector` -/
theorem Chain.frozen_numberOfParameters (c : Chain α) (h : ∀ x ∈ c, x.2 = false) : Chain.numberOfParameters c = 0 := by
  induction c with
  | nil => rfl
  | cons q c ih =>
    obtain ⟨l, o⟩ := q
    have ho : o = false := h (l, o) (by simp)
    subst ho
    simp only [Chain.numberOfParameters, Bool.false_eq_true, ↓reduceIte, Nat.zero_add]
    exact ih fun x hx => h x (by simp [hx])

theorem Chain.frozen_params (c : Chain α) (h : ∀ x ∈ c, x.2 = false) : Chain.params c = [] := by
  induction c with
  | nil => rfl
  | cons q c ih =>
    obtain ⟨l, o⟩ := q
    have ho : o = false := h (l, o) (by simp)
    subst ho
    rw [Chain.params_cons]
    simp only [Bool.false_eq_true, ↓reduceIte, List.nil_append]
    exact ih fun x hx => h x (by simp [hx])

theorem Chain.frozen_setParams (c : Chain α) (h : ∀ x ∈ c, x.2 = false) (p : List α) : Chain.setParams c p = c := by
  induction c with
  | nil => rfl
  | cons q c ih =>
    obtain ⟨l, o⟩ := q
    have ho : o = false := h (l, o) (by simp)
    subst ho
    simp only [Chain.setParams, List.cons.injEq, true_and]
    exact ih fun x hx => h x (by simp [hx])

theorem Chain.frozen_backward_fst (B : ℕ) (c : Chain α) (h : ∀ x ∈ c, x.2 = false) (X C : ℕ → ℕ → α) :
    (Chain.backward tanh exp B c X C).1 = [] := by
  induction c generalizing X with
  | nil => rfl
  | cons q c ih =>
    obtain ⟨l, o⟩ := q
    have ho : o = false := h (l, o) (by simp)
    subst ho
    rw [Chain.backward_cons]
    simp only [Bool.false_eq_true, ↓reduceIte, List.nil_append]
    exact ih (fun x hx => h x (by simp [hx])) _

/-! ### nested models -/
theorem Net.flatten_false_flags (n : Net α) : ∀ x ∈ n.flatten false, x.2 = false := by
  induction n with
  | leaf l => intro x hx; simp [Net.flatten] at hx; rw [hx]
  | nil => intro x hx; simp [Net.flatten] at hx
  | cons ch opt rest ih1 ih2 =>
    intro x hx
    simp only [Net.flatten, Bool.false_and, List.mem_append] at hx
    rcases hx with hx | hx
    · exact ih1 x hx
    · exact ih2 x hx

/-- the reported parameter count of a nested model is that of the flat chain -/
theorem Net.numberOfParameters_eq (n : Net α) : n.numberOfParameters = Chain.numberOfParameters (n.flatten true) := by
  induction n with
  | leaf l => simp [Net.numberOfParameters, Net.flatten, Chain.numberOfParameters]
  | nil => rfl
  | cons ch opt rest ih1 ih2 =>
    simp only [Net.numberOfParameters, Net.flatten, Bool.true_and, Chain.numberOfParameters_append, ← ih2]
    cases opt with
    | true => simp [ih1]
    | false => simp [Chain.frozen_numberOfParameters _ (Net.flatten_false_flags ch)]

/-- … and so is its parameter vector -/
theorem Net.params_eq (n : Net α) : n.params = Chain.params (n.flatten true) := by
  induction n with
  | leaf l => simp [Net.params, Net.flatten, Chain.params]
  | nil => rfl
  | cons ch opt rest ih1 ih2 =>
    simp only [Net.params, Net.flatten, Bool.true_and, Chain.params_append, ← ih2]
    cases opt with
    | true => simp [ih1]
    | false => simp [Chain.frozen_params _ (Net.flatten_false_flags ch)]

/-- evaluation does not look at the flags -/
theorem Net.evalB_eq (n : Net α) (en : Bool) (X : ℕ → ℕ → α) :
    n.evalB tanh exp X = Chain.evalB tanh exp (n.flatten en) X := by
  induction n generalizing en X with
  | leaf l => simp [Net.evalB, Net.flatten, Chain.evalB_cons, Chain.evalB_nil]
  | nil => rfl
  | cons ch opt rest ih1 ih2 =>
    simp only [Net.evalB, Net.flatten, Chain.evalB_append]
    rw [← ih1 (en && opt) X, ← ih2 en]

/-- `setParameterVector` of the nested model is `setParameterVector` of the flat chain -/
theorem Net.setParams_flatten (n : Net α) (p : List α) :
    (n.setParams p).flatten true = Chain.setParams (n.flatten true) p := by
  induction n generalizing p with
  | leaf l => simp [Net.setParams, Net.flatten, Chain.setParams]
  | nil => rfl
  | cons ch opt rest ih1 ih2 =>
    cases opt with
    | true =>
      simp only [Net.setParams, Net.flatten, Bool.true_and, Bool.and_self, Chain.setParams_append, ih1, ih2,
        Net.numberOfParameters_eq]
    | false =>
      simp only [Net.setParams, Net.flatten, Bool.true_and, Bool.and_false, Chain.setParams_append, ih2,
        Chain.frozen_numberOfParameters _ (Net.flatten_false_flags ch), List.drop_zero,
        Chain.frozen_setParams _ (Net.flatten_false_flags ch)]

/-- the nested backward pass (C++ recursion) is the backward pass of the flat chain: same input derivative, and
the same gradient vector when the model is optimised (`en`), the empty one otherwise -/
theorem Net.backward_eq (B : ℕ) (n : Net α) (en : Bool) (X C : ℕ → ℕ → α) :
    Chain.backward tanh exp B (n.flatten en) X C =
      (if en then (n.backward tanh exp B X C).1 else [], (n.backward tanh exp B X C).2) := by
  induction n generalizing en X C with
  | leaf l =>
    cases en <;> simp [Net.flatten, Net.backward, Chain.backward_cons, Chain.backward_nil]
  | nil => cases en <;> rfl
  | cons ch opt rest ih1 ih2 =>
    simp only [Net.flatten, Net.backward, Chain.backward_append, ← Net.evalB_eq]
    rw [ih2 en, ih1 (en && opt)]
    cases en <;> cases opt <;> simp
end Generic

/-! ### the separate routines of `ConcatenatedModel` -/
section Separate
set_option linter.unusedSectionVars false
variable {α : Type} [Scalar α] (tanh exp : α → α)

/-- `eval` without a `State` (a fold that keeps no intermediates) = `eval` with a `State` (last recorded intermediate) -/
theorem Chain.evalFold_eq (c : Chain α) (X : ℕ → ℕ → α) :
    Chain.evalFold tanh exp c X = Chain.evalB tanh exp c X := by
  induction c generalizing X with
  | nil => rfl
  | cons q c ih =>
    obtain ⟨l, o⟩ := q
    rw [Chain.evalB_cons, ← ih]
    rfl

/-- `weightedInputDerivative` = second component of `weightedDerivatives` -/
theorem Chain.inputOnly_eq (B : ℕ) (c : Chain α) (X C : ℕ → ℕ → α) :
    Chain.inputOnly tanh exp c X C = (Chain.backward tanh exp B c X C).2 := by
  induction c generalizing X with
  | nil => rfl
  | cons q c ih =>
    obtain ⟨l, o⟩ := q
    rw [Chain.backward_cons]
    simp only [Chain.inputOnly, ih]

/-- `weightedParameterDerivative` = first component of `weightedDerivatives` -/
theorem Chain.gradOnly_eq (B : ℕ) (c : Chain α) (X C : ℕ → ℕ → α) :
    Chain.gradOnly tanh exp B c X C = (Chain.backward tanh exp B c X C).1 := by
  induction c generalizing X with
  | nil => rfl
  | cons q c ih =>
    obtain ⟨l, o⟩ := q
    rw [Chain.backward_cons]
    simp only [Chain.gradOnly, ih, Chain.inputOnly_eq tanh exp B]
end Separate

/-! ### `conv2d`: the `im2mat` index map -/
section Conv
variable {α : Type} [Scalar α]

/-- the entry written by `im2mat_pad` / `im2mat` at (`row`, `col`) is the image entry (or padding zero) that the
defining sum `Conv.pre` reads for output pixel `row` through filter tap `col` -/
theorem Conv.im2matEntry_eq (m : Conv α) (x : ℕ → α) (row col : ℕ) :
    m.im2matEntry x row col = m.inputAt x row col := by
  unfold Conv.im2matEntry Conv.inputAt Conv.tapIndex
  have hd : col / m.c / m.fw = col / (m.fw * m.c) := by rw [Nat.div_div_eq_div_mul, Nat.mul_comm]
  simp only [hd]
  by_cases h1 : col / (m.fw * m.c) + row / m.outW < m.padH / 2 ∨ m.h + m.padH / 2 ≤ col / (m.fw * m.c) + row / m.outW
  · rw [if_pos h1, if_neg]
    · intro hc; omega
  · rw [if_neg h1]
    by_cases h2 : row % m.outW + col / m.c % m.fw < m.padW / 2 ∨ m.w + m.padW / 2 ≤ row % m.outW + col / m.c % m.fw
    · rw [if_pos h2, if_neg]
      · intro hc; omega
    · rw [if_neg h2, if_pos (by omega)]

/-- **`im2mat` + `gemm` + offset + activation = the defining sum over filter taps**: `Conv2DModel::eval` as
implemented (`Conv.evalImpl`) equals the specification `Conv.evalRow` for every shape, padding and input -/
theorem Conv.evalImpl_eq (tanh : α → α) (m : Conv α) (x : ℕ → α) (o : ℕ) :
    m.evalImpl tanh x o = m.evalRow tanh x o := by
  unfold Conv.evalImpl Conv.evalRow Conv.pre Conv.gemmOut
  have : (fun t => m.im2matEntry x (o / m.nf) t * m.filt (o % m.nf * m.fsize + t)) =
      fun t => m.inputAt x (o / m.nf) t * m.filt (o % m.nf * m.fsize + t) := by
    funext t; rw [Conv.im2matEntry_eq]
  rw [this]
end Conv

/-! ### arg-max over vote counts (`OneVersusOneClassifier`) -/
theorem argmaxNat_inv (n : ℕ) (v : ℕ → ℕ) :
    argmaxNat n v ≤ n - 1 ∧ (∀ k, k < n → v k ≤ v (argmaxNat n v)) ∧ (∀ k, k < argmaxNat n v → v k < v (argmaxNat n v)) := by
  induction n with
  | zero => simp [argmaxNat]
  | succ n ih =>
    have hstep : argmaxNat (n + 1) v = if v (argmaxNat n v) < v n then n else argmaxNat n v := by
      unfold argmaxNat
      rw [List.range_succ, List.foldl_append]
      rfl
    obtain ⟨h1, h2, h3⟩ := ih
    rw [hstep]
    by_cases hlt : v (argmaxNat n v) < v n
    · simp only [hlt, ↓reduceIte]
      refine ⟨by omega, ?_, ?_⟩
      · intro k hk
        rcases Nat.lt_or_ge k n with h | h
        · have := h2 k h; omega
        · have : k = n := by omega
          rw [this]
      · intro k hk
        have := h2 k hk; omega
    · simp only [hlt, ↓reduceIte]
      refine ⟨by omega, ?_, h3⟩
      intro k hk
      rcases Nat.lt_or_ge k n with h | h
      · exact h2 k h
      · have : k = n := by omega
        rw [this]; omega

/-! ### `CARTree`: trees built by the construction API are well-formed, the walk ends in a leaf -/
section Trees
variable {α : Type} [Scalar α]

/-- every internal node points to two later nodes inside the array -/
def Tree.WF (t : Tree α) : Prop := ∀ id, id < t.nodes.length → (t.node id).left ≠ 0 →
    id < (t.node id).left ∧ (t.node id).left < t.nodes.length ∧ id < (t.node id).right ∧ (t.node id).right < t.nodes.length

theorem Tree.findLeaf_reaches_leaf (t : Tree α) (hwf : t.WF) (x : ℕ → α) :
    ∀ fuel id, id < t.nodes.length → t.nodes.length - id ≤ fuel →
      (t.node (t.findLeaf x fuel id)).left = 0 ∧ t.findLeaf x fuel id < t.nodes.length := by
  intro fuel
  induction fuel with
  | zero => intro id h1 h2; omega
  | succ f ih =>
    intro id h1 h2
    unfold Tree.findLeaf
    by_cases hl : (t.node id).left = 0
    · rw [if_pos hl]; exact ⟨hl, h1⟩
    · rw [if_neg hl]
      obtain ⟨a, b, c, d⟩ := hwf id h1 hl
      by_cases hc : x (t.node id).attr ≤ (t.node id).thr
      · rw [if_pos hc]; exact ih _ b (by omega)
      · rw [if_neg hc]; exact ih _ d (by omega)

theorem Tree.root_WF : (Tree.root : Tree α).WF := by
  intro id h hl
  simp only [Tree.root, List.length_singleton] at h
  have : id = 0 := by omega
  subst this
  simp [Tree.node, Tree.root] at hl

theorem Tree.node_eq (t : Tree α) (id : ℕ) (h : id < t.nodes.length) : t.node id = t.nodes[id] := by
  simp [Tree.node, List.getD, h]

theorem Tree.internal_WF (t : Tree α) (hwf : t.WF) (id attr : ℕ) (thr : α) (hid : id < t.nodes.length) :
    (t.internal id attr thr).WF := by
  intro k hk hl
  have hlen : (t.internal id attr thr).nodes.length = t.nodes.length + 2 := by simp [Tree.internal]
  rw [hlen] at hk ⊢
  by_cases hki : k = id
  · subst hki
    have : (t.internal k attr thr).node k = { attr := attr, thr := thr, left := t.nodes.length, right := t.nodes.length + 1 } := by
      simp [Tree.node, Tree.internal, List.getD, hid, Nat.lt_add_right]
    rw [this]; simp only; omega
  · have hne : (t.internal id attr thr).node k = (t.nodes ++ [(⟨0, 0, 0, 0⟩ : TNode α), ⟨0, 0, 0, 0⟩]).getD k ⟨0, 0, 0, 0⟩ := by
      simp [Tree.node, Tree.internal, List.getD, Ne.symm hki]
    by_cases hkn : k < t.nodes.length
    · have h2 : (t.internal id attr thr).node k = t.node k := by
        rw [hne]; simp [Tree.node, List.getD, List.getElem?_append_left hkn]
      rw [h2] at hl ⊢
      obtain ⟨a, b, c, d⟩ := hwf k hkn hl
      omega
    · exfalso
      apply hl
      rw [hne]
      have : k = t.nodes.length ∨ k = t.nodes.length + 1 := by omega
      rcases this with h | h <;> subst h <;> simp [List.getD]

theorem Tree.leaf_WF (t : Tree α) (hwf : t.WF) (id label : ℕ) : (t.leaf id label).WF := by
  intro k hk hl
  have hlen : (t.leaf id label).nodes.length = t.nodes.length := by simp [Tree.leaf]
  rw [hlen] at hk ⊢
  by_cases hki : k = id
  · subst hki
    exfalso; apply hl
    simp [Tree.node, Tree.leaf, List.getD, hk]
  · have h2 : (t.leaf id label).node k = t.node k := by
      simp [Tree.node, Tree.leaf, List.getD, Ne.symm hki]
    rw [h2] at hl ⊢
    exact hwf k hk hl

/-- trees produced by `createRoot` / `transformInternalNode` (on an existing node) / `transformLeafNode` -/
inductive Tree.Built : Tree α → Prop
  | root : Tree.Built Tree.root
  | internal (t : Tree α) (id attr : ℕ) (thr : α) : Tree.Built t → id < t.nodes.length → Tree.Built (t.internal id attr thr)
  | leaf (t : Tree α) (id label : ℕ) : Tree.Built t → Tree.Built (t.leaf id label)

theorem Tree.Built.wf {t : Tree α} (h : Tree.Built t) : t.WF ∧ 0 < t.nodes.length := by
  induction h with
  | root => exact ⟨Tree.root_WF, by simp [Tree.root]⟩
  | internal t id attr thr _ hid ih => exact ⟨Tree.internal_WF t ih.1 id attr thr hid, by simp [Tree.internal]⟩
  | leaf t id label _ ih => exact ⟨Tree.leaf_WF t ih.1 id label, by simp [Tree.leaf]; exact ih.2⟩

/-! ### spline taps stay inside the image -/
theorem smin_smax_bounds (b hi : Rat) (hhi : 0 ≤ hi) : 0 ≤ smin (smax b 0) hi ∧ smin (smax b 0) hi ≤ hi := by
  unfold smin smax; split_ifs <;> constructor <;> linarith
theorem smax_smin_bounds (b hi : Rat) (hhi : 0 ≤ hi) : 0 ≤ smax (smin b hi) 0 ∧ smax (smin b hi) 0 ≤ hi := by
  unfold smin smax; split_ifs <;> constructor <;> linarith

theorem Resize.coords_getD_le (toNat : Rat → ℕ) (htn : ∀ (q : Rat) (n : ℕ), 0 ≤ q → q ≤ n → toNat q ≤ n)
    (base : Rat) (len l : ℕ) : (Resize.coords toNat base len).getD l 0 ≤ len - 1 := by
  have hhi : (0 : Rat) ≤ ((len - 1 : ℕ) : Rat) := Nat.cast_nonneg _
  have lo : ∀ b : Rat, Resize.clampLo toNat b ((len - 1 : ℕ) : Rat) ≤ len - 1 := fun b =>
    htn _ _ (smin_smax_bounds b _ hhi).1 (smin_smax_bounds b _ hhi).2
  have hi : ∀ b : Rat, Resize.clampHi toNat b ((len - 1 : ℕ) : Rat) ≤ len - 1 := fun b =>
    htn _ _ (smax_smin_bounds b _ hhi).1 (smax_smin_bounds b _ hhi).2
  unfold Resize.coords
  simp only [Scalar.ofNat]
  match l with
  | 0 => exact lo _
  | 1 => exact hi _
  | 2 => exact lo _
  | 3 => exact hi _
  | (n + 4) => simp

theorem Resize.taps_in_range (floor : Rat → Rat) (toNat : Rat → ℕ)
    (htn : ∀ (q : Rat) (n : ℕ), 0 ≤ q → q ≤ n → toNat q ≤ n) (s : Resize) (hh : 0 < s.h) (hw : 0 < s.w) (p : ℕ) :
    ∀ t ∈ Resize.taps floor toNat s p, t.1 < s.h * s.w := by
  intro t ht
  simp only [Resize.taps, List.mem_flatMap, List.mem_map, List.mem_range] at ht
  obtain ⟨k, _, l, _, rfl⟩ := ht
  have hx := Resize.coords_getD_le toNat htn (floor (Resize.pointX s p * Scalar.ofNat s.w)) s.w l
  have hy := Resize.coords_getD_le toNat htn (floor (Resize.pointY s p * Scalar.ofNat s.h)) s.h k
  obtain ⟨h', hh'⟩ : ∃ h', s.h = h' + 1 := ⟨s.h - 1, by omega⟩
  simp only
  rw [hh'] at hy ⊢
  have h1 : s.w * (Resize.coords toNat (floor (Resize.pointY s p * Scalar.ofNat (h' + 1))) (h' + 1)).getD k 0 ≤ s.w * h' :=
    Nat.mul_le_mul_left _ (by simpa using hy)
  have h2 : (h' + 1) * s.w = s.w * h' + s.w := by ring
  omega
end Trees

/-! ### `DropoutLayer` -/
section Dropout
open Finset
theorem dropout_input_derivative (mask X C : ℕ → ℕ → ℝ) (B n i0 j0 : ℕ) (hi : i0 < B) (hj : j0 < n) :
    HasDerivAt (fun t => ∑ i ∈ range B, ∑ k ∈ range n,
        C i k * dropoutEval mask (fun i j => if i = i0 ∧ j = j0 then t else X i j) i k)
      (dropoutGradX mask C i0 j0) (X i0 j0) := by
  have hterm : ∀ i k, HasDerivAt (fun t : ℝ => C i k * dropoutEval mask (fun i j => if i = i0 ∧ j = j0 then t else X i j) i k)
      (if i = i0 ∧ k = j0 then C i k * mask i k else 0) (X i0 j0) := by
    intro i k
    unfold dropoutEval
    by_cases h : i = i0 ∧ k = j0
    · simp only [h, and_self, ↓reduceIte]
      have := ((hasDerivAt_id (X i0 j0)).mul_const (mask i0 j0)).const_mul (C i0 j0)
      simpa [mul_comm, mul_left_comm] using this
    · simp only [h, ↓reduceIte]
      exact hasDerivAt_const _ _
  have hsum := HasDerivAt.fun_sum (u := range B) (fun i _ => HasDerivAt.fun_sum (u := range n) (fun k _ => hterm i k))
  have hval : (∑ i ∈ range B, ∑ k ∈ range n, if i = i0 ∧ k = j0 then C i k * mask i k else 0) = dropoutGradX mask C i0 j0 := by
    unfold dropoutGradX
    rw [Finset.sum_eq_single i0 (fun i _ hne => by
      apply Finset.sum_eq_zero; intro k _; simp [hne]) (fun h => absurd (mem_range.2 hi) h)]
    rw [Finset.sum_eq_single j0 (fun k _ hne => by simp [hne]) (fun h => absurd (mem_range.2 hj) h)]
    simp
  rw [← hval]
  exact hsum
end Dropout

end SharkVerif.Models
