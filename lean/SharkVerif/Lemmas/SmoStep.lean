/-
Helper lemmas for C08: the SMO step (`updateSMO` of both problem kinds, including the
edge-gradient bookkeeping of `BoxBasedShrinkingStrategy`) preserves the state invariant of
`Lemmas/Smo.lean`.  Everything over `Rat`, all sizes.
-/
import SharkVerif.Lemmas.Smo
namespace SharkVerif.Smo
open SharkVerif.Qp SharkVerif.Gen.Analytic

/-! ### more sums -/

theorem upd_same {β : Type} (f : Nat → β) (i : Nat) (v : β) : upd f i v i = v := by simp [upd]

theorem upd_ne {β : Type} (f : Nat → β) {i k : Nat} (v : β) (h : k ≠ i) : upd f i v k = f k := by simp [upd, h]

/-- a weighted sum reacts to a point update of the weighted vector by the weighted difference -/
theorem rsum_mul_upd (c f : Nat → Rat) (i : Nat) (v : Rat) {n : Nat} (hi : i < n) :
    rsum (fun b => c b * upd f i v b) n = rsum (fun b => c b * f b) n + c i * (v - f i) := by
  have e : (fun b => c b * upd f i v b) = upd (fun b => c b * f b) i (c i * v) := by
    funext b; simp only [upd]; split
    · rename_i h; subst h; rfl
    · rfl
  rw [e, rsum_upd _ _ _ hi]; ring

/-- the same for an arbitrary per-index function of the entry -/
theorem rsum_fun_upd (F : Nat → Rat → Rat) (f : Nat → Rat) (i : Nat) (v : Rat) {n : Nat} (hi : i < n) :
    rsum (fun b => F b (upd f i v b)) n = rsum (fun b => F b (f b)) n + (F i v - F i (f i)) := by
  have e : (fun b => F b (upd f i v b)) = upd (fun b => F b (f b)) i (F i v) := by
    funext b; simp only [upd]; split
    · rename_i h; subst h; rfl
    · rfl
  rw [e, rsum_upd _ _ _ hi]

/-! ### the invariant without the edge-gradient clause -/

/-- all clauses of `Inv` except `edge` (none of them mentions `gEdge`) -/
structure InvCore (s : RS) : Prop where
  sym      : ∀ x y, s.K x y = s.K y x
  act_le   : s.active ≤ s.n
  noshrink : s.shrinkOn = false → s.active = s.n
  perm_lt  : ∀ k, k < s.n → s.perm k < s.n
  perm_inj : ∀ a b, a < s.n → b < s.n → s.perm a = s.perm b → a = b
  diag     : ∀ k, k < s.n → s.diag k = s.K (s.perm k) (s.perm k)
  box      : ∀ k, k < s.n → s.L k ≤ s.alpha k ∧ s.alpha k ≤ s.U k
  flo      : ∀ k, k < s.n → (s.lo k = true ↔ s.alpha k = s.L k)
  fup      : ∀ k, k < s.n → (s.up k = true ↔ s.alpha k = s.U k)
  grad     : ∀ a, a < s.active → s.g a = s.lin a - Kalpha s a
  shrunk   : ∀ k, s.active ≤ k → k < s.n → (s.alpha k = s.L k ∨ s.alpha k = s.U k)

theorem Inv.core {s : RS} (h : Inv s) : InvCore s :=
  ⟨h.sym, h.act_le, h.noshrink, h.perm_lt, h.perm_inj, h.diag, h.box, h.flo, h.fup, h.grad, h.shrunk⟩

theorem InvCore.inv {s : RS} (h : InvCore s)
    (he : s.shrinkOn = true → ∀ a, a < s.n → s.gEdge a = s.lin a - KalphaEdge s a) : Inv s :=
  ⟨h.sym, h.act_le, h.noshrink, h.perm_lt, h.perm_inj, h.diag, h.box, h.flo, h.fup, h.grad, he, h.shrunk⟩

theorem InvCore.boxMin_eq {s : RS} (h : InvCore s) {k : Nat} (hk : k < s.n) : s.boxMin k = s.L k := by
  unfold State.boxMin; split
  · rename_i hb
    simp only [Bool.and_eq_true] at hb
    exact (h.flo k hk).1 hb.1
  · rfl

theorem InvCore.boxMax_eq {s : RS} (h : InvCore s) {k : Nat} (hk : k < s.n) : s.boxMax k = s.U k := by
  unfold State.boxMax; split
  · rename_i hb
    simp only [Bool.and_eq_true] at hb
    exact (h.fup k hk).1 hb.2
  · rfl

/-! ### `updateGradientEdge` -/

/-- contribution of variable `b`, were its value `v`, to the edge sum of row `a` -/
def eterm (s : RS) (a b : Nat) (v : Rat) : Rat :=
  if v = s.L b ∨ v = s.U b then s.K (s.perm a) (s.perm b) * v else 0

theorem KalphaEdge_eq (s : RS) (a : Nat) : KalphaEdge s a = rsum (fun b => eterm s a b (s.alpha b)) s.n := rfl

/-- `updateGradientEdge` touches `gEdge` only -/
theorem uge_fields (t : RS) (i : Nat) (old new : Rat) :
    t.updateGradientEdge i old new = { t with gEdge := (t.updateGradientEdge i old new).gEdge } := by
  unfold State.updateGradientEdge
  dsimp only
  split_ifs <;> rfl

theorem InvCore.set_gEdge {t : RS} (h : InvCore t) (G : Nat → Rat) : InvCore { t with gEdge := G } :=
  ⟨h.sym, h.act_le, h.noshrink, h.perm_lt, h.perm_inj, h.diag, h.box, h.flo, h.fup, h.grad, h.shrunk⟩

theorem InvCore.uge {t : RS} (h : InvCore t) (i : Nat) (old new : Rat) :
    InvCore (t.updateGradientEdge i old new) := by
  rw [uge_fields]; exact h.set_gEdge _

/-- what `updateGradientEdge(i, old, alpha(i))` does to the edge gradient: the contribution of variable `i`
is exchanged (for a symmetric matrix) -/
theorem uge_gEdge {t : RS} (h : InvCore t) (hs : t.shrinkOn = true) {i : Nat} (hi : i < t.n) {old : Rat}
    (hold : t.L i ≤ old ∧ old ≤ t.U i) (a : Nat) (ha : a < t.n) :
    (t.updateGradientEdge i old (t.alpha i)).gEdge a
      = t.gEdge a - (eterm t a i (t.alpha i) - eterm t a i old) := by
  have hb := h.box i hi
  have hsym : t.K (t.perm i) (t.perm a) = t.K (t.perm a) (t.perm i) := h.sym _ _
  unfold State.updateGradientEdge eterm
  simp only [h.boxMin_eq hi, h.boxMax_eq hi, hs, State.q, lit0, beq_iff_eq, Bool.not_true, Bool.false_or,
    gt_iff_lt]
  grind


/-- specification form of `uge_gEdge`: the result is the input with a new `gEdge` that satisfies the exchange law -/
theorem uge_spec {t : RS} (h : InvCore t) (hs : t.shrinkOn = true) {i : Nat} (hi : i < t.n) {old : Rat}
    (hold : t.L i ≤ old ∧ old ≤ t.U i) :
    ∃ G1 : Nat → Rat, t.updateGradientEdge i old (t.alpha i) = { t with gEdge := G1 } ∧
      ∀ a, a < t.n → G1 a = t.gEdge a - (eterm t a i (t.alpha i) - eterm t a i old) :=
  ⟨_, uge_fields t i old (t.alpha i), fun a ha => uge_gEdge h hs hi hold a ha⟩

/-- without shrinking `updateGradientEdge` does nothing -/
theorem uge_noshrink {t : RS} (hs : t.shrinkOn = false) (i : Nat) (old new : Rat) :
    t.updateGradientEdge i old new = t := by
  unfold State.updateGradientEdge; simp [hs]

/-! ### generic step: new coefficients for one or two variables -/

/-- the state right after the base-class step: only `alpha`, `g` and the status bits change -/
def stepped (s : RS) (A G : Nat → Rat) (lo up : Nat → Bool) : RS :=
  { s with alpha := A, g := G, lo := lo, up := up }

theorem Kalpha_upd2 (s : RS) {i j : Nat} (hi : i < s.n) (hj : j < s.n) (hij : i ≠ j) (vi vj : Rat) (a : Nat)
    (G : Nat → Rat) (lo up : Nat → Bool) :
    Kalpha (stepped s (upd (upd s.alpha i vi) j vj) G lo up) a
      = Kalpha s a + s.K (s.perm a) (s.perm i) * (vi - s.alpha i) + s.K (s.perm a) (s.perm j) * (vj - s.alpha j) := by
  simp only [Kalpha, stepped]
  rw [rsum_mul_upd _ _ _ _ hj, rsum_mul_upd _ _ _ _ hi, upd_ne _ _ (Ne.symm hij)]

theorem Kalpha_upd1 (s : RS) {i : Nat} (hi : i < s.n) (v : Rat) (a : Nat)
    (G : Nat → Rat) (lo up : Nat → Bool) :
    Kalpha (stepped s (upd s.alpha i v) G lo up) a
      = Kalpha s a + s.K (s.perm a) (s.perm i) * (v - s.alpha i) := by
  simp only [Kalpha, stepped]
  rw [rsum_mul_upd _ _ _ _ hi]

/-- **two-variable step** followed by the two `updateGradientEdge` calls of `BoxBasedShrinkingStrategy::updateSMO` -/
theorem inv_step_two {s : RS} (h : Inv s) {i j : Nat} (hi : i < s.active) (hj : j < s.active) (hij : i ≠ j)
    {vi vj : Rat} (hvi : s.L i ≤ vi ∧ vi ≤ s.U i) (hvj : s.L j ≤ vj ∧ vj ≤ s.U j)
    {G : Nat → Rat} {lo up : Nat → Bool}
    (hlo : ∀ k, k < s.n → (lo k = true ↔ upd (upd s.alpha i vi) j vj k = s.L k))
    (hup : ∀ k, k < s.n → (up k = true ↔ upd (upd s.alpha i vi) j vj k = s.U k))
    (hG : ∀ a, a < s.active → G a = s.g a
        - (s.K (s.perm a) (s.perm i) * (vi - s.alpha i) + s.K (s.perm a) (s.perm j) * (vj - s.alpha j))) :
    let t := stepped s (upd (upd s.alpha i vi) j vj) G lo up
    let t1 := t.updateGradientEdge i (s.alpha i) (t.alpha i)
    Inv (t1.updateGradientEdge j (s.alpha j) (t1.alpha j)) := by
  intro t t1
  have hin : i < s.n := Nat.lt_of_lt_of_le hi h.act_le
  have hjn : j < s.n := Nat.lt_of_lt_of_le hj h.act_le
  have hAi : t.alpha i = vi := by show upd (upd s.alpha i vi) j vj i = vi; rw [upd_ne _ _ hij, upd_same]
  have hAj : t.alpha j = vj := by show upd (upd s.alpha i vi) j vj j = vj; rw [upd_same]
  have hAk : ∀ k, k ≠ i → k ≠ j → t.alpha k = s.alpha k := by
    intro k h1 h2; show upd (upd s.alpha i vi) j vj k = s.alpha k; rw [upd_ne _ _ h2, upd_ne _ _ h1]
  have hc : InvCore t := by
    refine ⟨h.sym, h.act_le, h.noshrink, h.perm_lt, h.perm_inj, h.diag, ?_, hlo, hup, ?_, ?_⟩
    · intro k hk
      by_cases h1 : k = i
      · subst h1; rw [hAi]; exact hvi
      · by_cases h2 : k = j
        · subst h2; rw [hAj]; exact hvj
        · rw [hAk k h1 h2]; exact h.box k hk
    · intro a ha
      show G a = s.lin a - Kalpha t a
      rw [Kalpha_upd2 s hin hjn hij, hG a ha, h.grad a ha]; ring
    · intro k hk1 hk2
      have hk1' : s.active ≤ k := hk1
      have h1 : k ≠ i := by omega
      have h2 : k ≠ j := by omega
      rw [hAk k h1 h2]; exact h.shrunk k hk1' hk2
  cases hsh : s.shrinkOn
  · -- no shrinking: the edge gradient is neither maintained nor constrained
    have hsh' : t.shrinkOn = false := hsh
    have e1 : t1 = t := uge_noshrink (t := t) hsh' _ _ _
    have e2 : t1.updateGradientEdge j (s.alpha j) (t1.alpha j) = t := by
      rw [e1]; exact uge_noshrink (t := t) hsh' _ _ _
    rw [e2]
    exact hc.inv (fun hs => by rw [hsh'] at hs; exact absurd hs (by simp))
  · have hsh' : t.shrinkOn = true := hsh
    have hin' : i < t.n := hin
    have hbi : t.L i ≤ s.alpha i ∧ s.alpha i ≤ t.U i := h.box i hin
    obtain ⟨G1, e1, hG1⟩ := uge_spec (t := t) hc hsh' hin' hbi
    have e1' : t1 = { t with gEdge := G1 } := e1
    clear_value t1
    subst e1'
    have hc1 : InvCore { t with gEdge := G1 } := hc.set_gEdge _
    obtain ⟨G2, e2, hG2⟩ := uge_spec (t := { t with gEdge := G1 }) hc1 hsh' (i := j) hjn
      (old := s.alpha j) (h.box j hjn)
    rw [e2]
    refine (hc1.set_gEdge G2).inv ?_
    intro _ a ha
    have ha' : a < s.n := ha
    have hG2a := hG2 a ha'
    show G2 a = s.lin a - KalphaEdge { { t with gEdge := G1 } with gEdge := G2 } a
    have hK : KalphaEdge { { t with gEdge := G1 } with gEdge := G2 } a
        = KalphaEdge s a + (eterm s a i vi - eterm s a i (s.alpha i)) + (eterm s a j vj - eterm s a j (s.alpha j)) := by
      show rsum (fun b => eterm s a b (upd (upd s.alpha i vi) j vj b)) s.n = _
      rw [rsum_fun_upd (fun b v => eterm s a b v) _ _ _ hjn, rsum_fun_upd (fun b v => eterm s a b v) _ _ _ hin,
        upd_ne _ _ (Ne.symm hij)]
      rfl
    rw [hK, hG2a]
    show G1 a - (eterm s a j (t.alpha j) - eterm s a j (s.alpha j)) = _
    rw [hG1 a ha', hAj]
    show s.gEdge a - (eterm s a i (t.alpha i) - eterm s a i (s.alpha i)) - _ = _
    rw [hAi, h.edge hsh a ha']; ring

/-- **one-variable step** (`i = j` in `BoxConstrainedProblem::updateSMO`) followed by the single
`updateGradientEdge` call -/
theorem inv_step_one {s : RS} (h : Inv s) {i : Nat} (hi : i < s.active)
    {v : Rat} (hv : s.L i ≤ v ∧ v ≤ s.U i) {G : Nat → Rat} {lo up : Nat → Bool}
    (hlo : ∀ k, k < s.n → (lo k = true ↔ upd s.alpha i v k = s.L k))
    (hup : ∀ k, k < s.n → (up k = true ↔ upd s.alpha i v k = s.U k))
    (hG : ∀ a, a < s.active → G a = s.g a - s.K (s.perm a) (s.perm i) * (v - s.alpha i)) :
    let t := stepped s (upd s.alpha i v) G lo up
    Inv (t.updateGradientEdge i (s.alpha i) (t.alpha i)) := by
  intro t
  have hin : i < s.n := Nat.lt_of_lt_of_le hi h.act_le
  have hAi : t.alpha i = v := by show upd s.alpha i v i = v; rw [upd_same]
  have hAk : ∀ k, k ≠ i → t.alpha k = s.alpha k := by
    intro k h1; show upd s.alpha i v k = s.alpha k; rw [upd_ne _ _ h1]
  have hc : InvCore t := by
    refine ⟨h.sym, h.act_le, h.noshrink, h.perm_lt, h.perm_inj, h.diag, ?_, hlo, hup, ?_, ?_⟩
    · intro k hk
      by_cases h1 : k = i
      · subst h1; rw [hAi]; exact hv
      · rw [hAk k h1]; exact h.box k hk
    · intro a ha
      show G a = s.lin a - Kalpha t a
      rw [Kalpha_upd1 s hin, hG a ha, h.grad a ha]; ring
    · intro k hk1 hk2
      have hk1' : s.active ≤ k := hk1
      have h1 : k ≠ i := by omega
      rw [hAk k h1]; exact h.shrunk k hk1' hk2
  cases hsh : s.shrinkOn
  · have hsh' : t.shrinkOn = false := hsh
    rw [uge_noshrink (t := t) hsh']
    exact hc.inv (fun hs => by rw [hsh'] at hs; exact absurd hs (by simp))
  · have hsh' : t.shrinkOn = true := hsh
    have hin' : i < t.n := hin
    have hbi : t.L i ≤ s.alpha i ∧ s.alpha i ≤ t.U i := h.box i hin
    obtain ⟨G1, e1, hG1⟩ := uge_spec (t := t) hc hsh' hin' hbi
    rw [e1]
    refine (hc.set_gEdge G1).inv ?_
    intro _ a ha
    have ha' : a < s.n := ha
    show G1 a = s.lin a - KalphaEdge { t with gEdge := G1 } a
    have hK : KalphaEdge { t with gEdge := G1 } a
        = KalphaEdge s a + (eterm s a i v - eterm s a i (s.alpha i)) := by
      show rsum (fun b => eterm s a b (upd s.alpha i v b)) s.n = _
      rw [rsum_fun_upd (fun b v => eterm s a b v) _ _ _ hin]
      rfl
    rw [hK, hG1 a ha']
    show s.gEdge a - (eterm s a i (t.alpha i) - eterm s a i (s.alpha i)) = _
    rw [hAi, h.edge hsh a ha']; ring


/-! ### status bits after `updateAlphaStatus` -/

theorem flags_one {s : RS} (h : Inv s) (i : Nat) (v : Rat) :
    (∀ k, k < s.n → (upd s.lo i (upd s.alpha i v i == s.L i) k = true ↔ upd s.alpha i v k = s.L k)) ∧
    (∀ k, k < s.n → (upd s.up i (upd s.alpha i v i == s.U i) k = true ↔ upd s.alpha i v k = s.U k)) := by
  constructor <;> intro k hk <;> by_cases h1 : k = i
  · subst h1; simp [upd]
  · simp only [upd, h1, if_false]; exact h.flo k hk
  · subst h1; simp [upd]
  · simp only [upd, h1, if_false]; exact h.fup k hk

theorem flags_two {s : RS} (h : Inv s) (i j : Nat) (A : Nat → Rat)
    (hA : ∀ k, k ≠ i → k ≠ j → A k = s.alpha k) :
    (∀ k, k < s.n → (upd (upd s.lo i (A i == s.L i)) j (A j == s.L j) k = true ↔ A k = s.L k)) ∧
    (∀ k, k < s.n → (upd (upd s.up i (A i == s.U i)) j (A j == s.U j) k = true ↔ A k = s.U k)) := by
  constructor <;> intro k hk <;> by_cases h2 : k = j
  · subst h2; simp [upd]
  · by_cases h1 : k = i
    · subst h1; simp [upd, h2]
    · simp only [upd, h1, h2, if_false]; rw [hA k h1 h2]; exact h.flo k hk
  · subst h2; simp [upd]
  · by_cases h1 : k = i
    · subst h1; simp [upd, h2]
    · simp only [upd, h1, h2, if_false]; rw [hA k h1 h2]; exact h.fup k hk

/-! ### `BoxConstrainedProblem::updateSMO` -/

/-- the two box sub-solvers return points of their box (proved for the generated definitions in `Props/C08.lean`:
`edge_in_box`, `box2d_in_box`) -/
def EdgeInBox : Prop := ∀ alpha g Q L U : Rat, L ≤ U →
  L ≤ solveQuadraticEdge alpha g Q L U ∧ solveQuadraticEdge alpha g Q L U ≤ U

def Box2dInBox : Prop := ∀ ai aj gi gj Qii Qij Qjj Li Ui Lj Uj : Rat, (Li ≤ ai ∧ ai ≤ Ui) → (Lj ≤ aj ∧ aj ≤ Uj) →
  (Li ≤ (solveQuadratic2DBox ai aj gi gj Qii Qij Qjj Li Ui Lj Uj).1 ∧
   (solveQuadratic2DBox ai aj gi gj Qii Qij Qjj Li Ui Lj Uj).1 ≤ Ui) ∧
  (Lj ≤ (solveQuadratic2DBox ai aj gi gj Qii Qij Qjj Li Ui Lj Uj).2 ∧
   (solveQuadratic2DBox ai aj gi gj Qii Qij Qjj Li Ui Lj Uj).2 ≤ Uj)

/-- new value of the 1-D box step -/
def boxV1 (s : RS) (i : Nat) : Rat :=
  solveQuadraticEdge (s.alpha i) (s.g i) (s.diag i) (s.boxMin i) (s.boxMax i)

/-- new values of the 2-D box step -/
def boxV2 (s : RS) (i j : Nat) : Rat × Rat :=
  solveQuadratic2DBox (s.alpha i) (s.alpha j) (s.g i) (s.g j) (s.diag i) (s.q i j) (s.diag j)
    (s.boxMin i) (s.boxMax i) (s.boxMin j) (s.boxMax j)

theorem smoBoxBase_one (s : RS) (i : Nat) :
    s.smoBoxBase i i = stepped s (upd s.alpha i (boxV1 s i))
      (fun a => if a < s.active then s.g a - ((-(s.alpha i)) + boxV1 s i) * s.q i a else s.g a)
      (upd s.lo i (upd s.alpha i (boxV1 s i) i == s.L i)) (upd s.up i (upd s.alpha i (boxV1 s i) i == s.U i)) := by
  unfold State.smoBoxBase
  rw [if_pos rfl]
  rfl

theorem smoBoxBase_two (s : RS) {i j : Nat} (hij : i ≠ j) :
    s.smoBoxBase i j = stepped s (upd (upd s.alpha i (boxV2 s i j).1) j (boxV2 s i j).2)
      (fun a => if a < s.active then s.g a - (((-(s.alpha i)) + (boxV2 s i j).1) * s.q i a
          + ((-(s.alpha j)) + (boxV2 s i j).2) * s.q j a) else s.g a)
      (upd (upd s.lo i (upd (upd s.alpha i (boxV2 s i j).1) j (boxV2 s i j).2 i == s.L i)) j
        (upd (upd s.alpha i (boxV2 s i j).1) j (boxV2 s i j).2 j == s.L j))
      (upd (upd s.up i (upd (upd s.alpha i (boxV2 s i j).1) j (boxV2 s i j).2 i == s.U i)) j
        (upd (upd s.alpha i (boxV2 s i j).1) j (boxV2 s i j).2 j == s.U j)) := by
  unfold State.smoBoxBase
  rw [if_neg hij]
  rfl

theorem inv_updateSMO_box {s : RS} (h : Inv s) (he : s.eqc = false) (hE : EdgeInBox) (hB : Box2dInBox)
    {i j : Nat} (hi : i < s.active) (hj : j < s.active) : Inv (s.updateSMO i j) := by
  have hin : i < s.n := Nat.lt_of_lt_of_le hi h.act_le
  have hjn : j < s.n := Nat.lt_of_lt_of_le hj h.act_le
  unfold State.updateSMO
  simp only [he, Bool.false_eq_true, if_false]
  by_cases hij : i = j
  · subst hij
    rw [if_pos rfl, smoBoxBase_one]
    have hv : s.L i ≤ boxV1 s i ∧ boxV1 s i ≤ s.U i := by
      have := hE (s.alpha i) (s.g i) (s.diag i) (s.L i) (s.U i) (le_trans (h.box i hin).1 (h.box i hin).2)
      unfold boxV1; rw [boxMin_eq h hin, boxMax_eq h hin]; exact this
    have hf := flags_one h i (boxV1 s i)
    exact inv_step_one h hi hv hf.1 hf.2 (fun a ha => by
      simp only [ha, if_true, State.q]; rw [h.sym (s.perm i) (s.perm a)]; ring)
  · rw [if_neg hij, smoBoxBase_two s hij]
    have hv := hB (s.alpha i) (s.alpha j) (s.g i) (s.g j) (s.diag i) (s.q i j) (s.diag j)
      (s.L i) (s.U i) (s.L j) (s.U j) (h.box i hin) (h.box j hjn)
    have hv' : (s.L i ≤ (boxV2 s i j).1 ∧ (boxV2 s i j).1 ≤ s.U i) ∧ (s.L j ≤ (boxV2 s i j).2 ∧ (boxV2 s i j).2 ≤ s.U j) := by
      unfold boxV2; rw [boxMin_eq h hin, boxMax_eq h hin, boxMin_eq h hjn, boxMax_eq h hjn]; exact hv
    have hf := flags_two h i j (upd (upd s.alpha i (boxV2 s i j).1) j (boxV2 s i j).2)
      (fun k h1 h2 => by rw [upd_ne _ _ h2, upd_ne _ _ h1])
    exact inv_step_two h hi hj hij hv'.1 hv'.2 hf.1 hf.2 (fun a ha => by
      simp only [ha, if_true, State.q]; rw [h.sym (s.perm i) (s.perm a), h.sym (s.perm j) (s.perm a)]; ring)


/-! ### `SvmProblem::updateSMO` (equality-constrained) -/

/-- guarded curvature `max(K_ii + K_jj − 2K_ij, 1e-12)` of the pair -/
def svmDen (s : RS) (i j : Nat) : Rat := smax (s.diag i + s.diag j - (2.0 : Rat) * s.q i j) (1.0e-12 : Rat)

/-- `(step, new alpha_i, new alpha_j)` of the clipped step -/
def svmR (s : RS) (i j : Nat) : Rat × Rat × Rat :=
  let step := (s.g i - s.g j) / svmDen s i j
  let Ui := s.boxMax i
  let Lj := s.boxMin j
  let ai := s.alpha i
  let aj := s.alpha j
  if step ≥ smin (Ui - ai) (aj - Lj) then
    if Ui - ai > aj - Lj then (aj - Lj, ai + (aj - Lj), Lj)
    else if Ui - ai < aj - Lj then (Ui - ai, Ui, aj - (Ui - ai))
    else (Ui - ai, Ui, Lj)
  else (step, ai + step, aj - step)

theorem svmDen_pos (s : RS) (i j : Nat) : 0 < svmDen s i j := by
  unfold svmDen smax; rw [litE]; split
  · norm_num
  · rename_i h; have : (0:Rat) < 1 / 1000000000000 := by norm_num
    linarith [not_lt.mp h]

theorem svmDen_ge (s : RS) (i j : Nat) : s.diag i + s.diag j - 2 * s.q i j ≤ svmDen s i j := by
  unfold svmDen smax; rw [lit2]; split
  · rename_i h; exact le_of_lt h
  · exact le_refl _

/-- the clipped step: a non-negative step length, not longer than the (guarded) Newton step, that keeps both
coefficients in their boxes -/
theorem svmR_spec {s : RS} (h : Inv s) {i j : Nat} (hi : i < s.n) (hj : j < s.n) (hg : s.g j ≤ s.g i) :
    0 ≤ (svmR s i j).1 ∧ (svmR s i j).1 ≤ (s.g i - s.g j) / svmDen s i j ∧
    (svmR s i j).2.1 = s.alpha i + (svmR s i j).1 ∧ (svmR s i j).2.2 = s.alpha j - (svmR s i j).1 ∧
    (svmR s i j).1 ≤ s.U i - s.alpha i ∧ (svmR s i j).1 ≤ s.alpha j - s.L j := by
  have hstep : 0 ≤ (s.g i - s.g j) / svmDen s i j := div_nonneg (by linarith) (le_of_lt (svmDen_pos s i j))
  obtain ⟨hbi1, hbi2⟩ := h.box i hi
  obtain ⟨hbj1, hbj2⟩ := h.box j hj
  unfold svmR smin
  simp only [boxMax_eq h hi, boxMin_eq h hj, ge_iff_le, gt_iff_lt]
  generalize (s.g i - s.g j) / svmDen s i j = st at hstep ⊢
  split_ifs <;> dsimp only <;> refine ⟨?_, ?_, ?_, ?_, ?_, ?_⟩ <;> linarith

/-- a strictly violating pair with room to move is moved by a positive amount -/
theorem svmR_pos {s : RS} (h : Inv s) {i j : Nat} (hi : i < s.n) (hj : j < s.n) (hg : s.g j < s.g i)
    (hui : s.alpha i < s.U i) (hlj : s.L j < s.alpha j) : 0 < (svmR s i j).1 := by
  have hstep : 0 < (s.g i - s.g j) / svmDen s i j := div_pos (by linarith) (svmDen_pos s i j)
  unfold svmR smin
  simp only [boxMax_eq h hi, boxMin_eq h hj, ge_iff_le, gt_iff_lt]
  generalize (s.g i - s.g j) / svmDen s i j = st at hstep ⊢
  split_ifs <;> dsimp only <;> linarith

theorem smoSvmBase_eq (s : RS) (i j : Nat) :
    s.smoSvmBase i j =
      if ((svmR s i j).2.1 == s.alpha i && (svmR s i j).2.2 == s.alpha j) = true then
        stepped s (upd (upd s.alpha i (svmR s i j).2.1) j (svmR s i j).2.2) s.g s.lo s.up
      else
        stepped s (upd (upd s.alpha i (svmR s i j).2.1) j (svmR s i j).2.2)
          (fun a => if a < s.active then s.g a - ((svmR s i j).1 * s.q i a - (svmR s i j).1 * s.q j a) else s.g a)
          (upd (upd s.lo i (upd (upd s.alpha i (svmR s i j).2.1) j (svmR s i j).2.2 i == s.L i)) j
            (upd (upd s.alpha i (svmR s i j).2.1) j (svmR s i j).2.2 j == s.L j))
          (upd (upd s.up i (upd (upd s.alpha i (svmR s i j).2.1) j (svmR s i j).2.2 i == s.U i)) j
            (upd (upd s.alpha i (svmR s i j).2.1) j (svmR s i j).2.2 j == s.U j)) := by
  rfl


theorem upd_upd_self (f : Nat → Rat) (i : Nat) : upd (upd f i (f i)) i (f i) = f := by
  funext k; simp only [upd]; split
  · rename_i h; rw [h]
  · rfl

/-- for `i = j` the equality-constrained step changes nothing -/
theorem updateSMO_svm_self {s : RS} (h : Inv s) (he : s.eqc = true) {i : Nat} (hi : i < s.n) :
    s.updateSMO i i = s := by
  obtain ⟨h0, h1, h2, h3, _, _⟩ := svmR_spec h hi hi (le_refl _)
  have hμ : (svmR s i i).1 = 0 := by
    have : (s.g i - s.g i) / svmDen s i i = 0 := by rw [sub_self, zero_div]
    rw [this] at h1; linarith
  have e1 : (svmR s i i).2.1 = s.alpha i := by rw [h2, hμ, add_zero]
  have e2 : (svmR s i i).2.2 = s.alpha i := by rw [h3, hμ, sub_zero]
  have hb : s.smoSvmBase i i = s := by
    rw [smoSvmBase_eq, e1, e2]
    simp only [beq_self_eq_true, Bool.and_self, if_true]
    unfold stepped; rw [upd_upd_self]
  unfold State.updateSMO
  simp only [he, if_true, hb]
  unfold State.updateGradientEdge
  simp

/-- the clipped step as `(alpha_i + μ, alpha_j − μ)`, in the form needed by `inv_step_two` -/
theorem inv_updateSMO_svm {s : RS} (h : Inv s) (he : s.eqc = true) {i j : Nat} (hi : i < s.active) (hj : j < s.active)
    (hg : s.g j ≤ s.g i) : Inv (s.updateSMO i j) := by
  have hin : i < s.n := Nat.lt_of_lt_of_le hi h.act_le
  have hjn : j < s.n := Nat.lt_of_lt_of_le hj h.act_le
  by_cases hij : i = j
  · subst hij; rw [updateSMO_svm_self h he hin]; exact h
  obtain ⟨h0, _, h2, h3, h4, h5⟩ := svmR_spec h hin hjn hg
  have hbi := h.box i hin
  have hbj := h.box j hjn
  have hvi : s.L i ≤ (svmR s i j).2.1 ∧ (svmR s i j).2.1 ≤ s.U i := by rw [h2]; constructor <;> linarith
  have hvj : s.L j ≤ (svmR s i j).2.2 ∧ (svmR s i j).2.2 ≤ s.U j := by rw [h3]; constructor <;> linarith
  unfold State.updateSMO
  simp only [he, if_true, if_neg hij]
  rw [smoSvmBase_eq]
  split
  · rename_i hsame
    simp only [Bool.and_eq_true, beq_iff_eq] at hsame
    refine inv_step_two h hi hj hij hvi hvj ?_ ?_ ?_
    · intro k hk
      have : upd (upd s.alpha i (svmR s i j).2.1) j (svmR s i j).2.2 k = s.alpha k := by
        rw [hsame.1, hsame.2]; simp only [upd]; split
        · rename_i e; rw [e]
        · split
          · rename_i e; rw [e]
          · rfl
      rw [this]; exact h.flo k hk
    · intro k hk
      have : upd (upd s.alpha i (svmR s i j).2.1) j (svmR s i j).2.2 k = s.alpha k := by
        rw [hsame.1, hsame.2]; simp only [upd]; split
        · rename_i e; rw [e]
        · split
          · rename_i e; rw [e]
          · rfl
      rw [this]; exact h.fup k hk
    · intro a _; rw [hsame.1, hsame.2]; ring
  · have hf := flags_two h i j (upd (upd s.alpha i (svmR s i j).2.1) j (svmR s i j).2.2)
      (fun k h1 h2 => by rw [upd_ne _ _ h2, upd_ne _ _ h1])
    exact inv_step_two h hi hj hij hvi hvj hf.1 hf.2 (fun a ha => by
      simp only [ha, if_true, State.q]
      rw [h.sym (s.perm i) (s.perm a), h.sym (s.perm j) (s.perm a), h2, h3]; ring)

/-! ### coefficients after `updateSMO` (for `sum_inv` and the objective) -/

theorem uge_alpha (t : RS) (i : Nat) (old new : Rat) : (t.updateGradientEdge i old new).alpha = t.alpha := by
  rw [uge_fields]

theorem updateSMO_alpha (s : RS) (i j : Nat) :
    (s.updateSMO i j).alpha = (if s.eqc then s.smoSvmBase i j else s.smoBoxBase i j).alpha := by
  unfold State.updateSMO
  dsimp only
  split <;> simp only [uge_alpha]

theorem smoSvmBase_alpha (s : RS) (i j : Nat) :
    (s.smoSvmBase i j).alpha = upd (upd s.alpha i (svmR s i j).2.1) j (svmR s i j).2.2 := by
  rw [smoSvmBase_eq]; split <;> rfl

theorem smoBoxBase_alpha (s : RS) (i j : Nat) :
    (s.smoBoxBase i j).alpha = if i = j then upd s.alpha i (boxV1 s i)
      else upd (upd s.alpha i (boxV2 s i j).1) j (boxV2 s i j).2 := by
  by_cases hij : i = j
  · subst hij; rw [smoBoxBase_one, if_pos rfl]; rfl
  · rw [smoBoxBase_two s hij, if_neg hij]; rfl

end SharkVerif.Smo
