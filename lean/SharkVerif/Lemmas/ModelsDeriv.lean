/-
C04: derivative lemmas over `Real` for the activations and for dense layers.
-/
import Mathlib.Analysis.SpecialFunctions.Trigonometric.Deriv
import Mathlib.Analysis.SpecialFunctions.Trigonometric.DerivHyp
import Mathlib.Analysis.SpecialFunctions.ExpDeriv
import Mathlib.Analysis.Calculus.Deriv.Add
import Mathlib.Analysis.InnerProductSpace.Adjoint
import Mathlib.Algebra.BigOperators.Group.List.Basic
import Mathlib.Tactic.Ring
import Mathlib.Tactic.Linarith
import Mathlib.Tactic.FieldSimp
import SharkVerif.Model.Models
import SharkVerif.Lemmas.LossDeriv
namespace SharkVerif.Models
open Scalar SharkVerif.Loss

theorem sumR_eq_finset (n : ℕ) (f : ℕ → ℝ) : sumR n f = ∑ j ∈ Finset.range n, f j := by
  unfold sumR
  rw [sumL_eq_sum_real]
  induction n with
  | zero => simp
  | succ n ih => rw [List.range_succ, List.map_append, List.sum_append, ih, Finset.sum_range_succ]; simp

/-! ### activations -/

theorem hasDerivAt_tanh (z : ℝ) : HasDerivAt Real.tanh (1 - Real.tanh z ^ 2) z := by
  have hc : Real.cosh z ≠ 0 := ne_of_gt (Real.cosh_pos z)
  have h : HasDerivAt (fun x => Real.sinh x / Real.cosh x)
      ((Real.cosh z * Real.cosh z - Real.sinh z * Real.sinh z) / Real.cosh z ^ 2) z :=
    (Real.hasDerivAt_sinh z).div (Real.hasDerivAt_cosh z) hc
  have heq : (fun x => Real.sinh x / Real.cosh x) = Real.tanh := by
    funext x; rw [Real.tanh_eq_sinh_div_cosh]
  rw [heq] at h
  have hv : (Real.cosh z * Real.cosh z - Real.sinh z * Real.sinh z) / Real.cosh z ^ 2 = 1 - Real.tanh z ^ 2 := by
    rw [Real.tanh_eq_sinh_div_cosh]
    field_simp
  rw [hv] at h
  exact h

theorem smax_real_zero_right (a : ℝ) : smax a 0 = max a 0 := by
  unfold smax
  split
  · rename_i h; rw [max_eq_right (le_of_lt h)]
  · rename_i h; rw [max_eq_left (not_lt.1 h)]

theorem eval_linear : Act.eval Real.tanh .linear = fun z : ℝ => z := rfl
theorem eval_rectifier : Act.eval Real.tanh .rectifier = fun z : ℝ => max z 0 := by
  funext z; simp [Act.eval, smax_real_zero_right]
theorem eval_tanh : Act.eval Real.tanh .tanh = Real.tanh := rfl
theorem eval_logistic : Act.eval Real.tanh .logistic = fun z : ℝ => (Real.tanh (z / 2) + 1) / 2 := by
  funext z; simp [Act.eval, two_real]
theorem eval_fastSigmoid : Act.eval Real.tanh .fastSigmoid = fun z : ℝ => z / (1 + |z|) := by
  funext z; simp [Act.eval, sabs_real]

/-- every element-wise activation is differentiable with derivative `dfac(output)`;
kinks excluded: rectifier at 0, fast sigmoid at 0 -/
theorem act_hasDerivAt (a : Act) (z : ℝ) (hk : (a = .rectifier ∨ a = .fastSigmoid) → z ≠ 0) :
    HasDerivAt (a.eval Real.tanh) (a.dfac (a.eval Real.tanh z)) z := by
  cases a with
  | linear =>
    rw [eval_linear]; simp only [Act.dfac]; exact hasDerivAt_id' z
  | rectifier =>
    have hz := hk (Or.inl rfl)
    rw [eval_rectifier]
    simp only [Act.dfac]
    rcases lt_or_gt_of_ne hz with h | h
    · have hev : (fun t : ℝ => max t 0) =ᶠ[nhds z] fun _ => (0 : ℝ) := by
        filter_upwards [gt_mem_nhds h] with t ht; exact max_eq_right (le_of_lt ht)
      have : ¬ (0 : ℝ) < max z 0 := by rw [max_eq_right (le_of_lt h)]; exact lt_irrefl _
      simp only [this, ↓reduceIte]
      exact (hasDerivAt_const z (0 : ℝ)).congr_of_eventuallyEq hev
    · have hev : (fun t : ℝ => max t 0) =ᶠ[nhds z] fun t => t := by
        filter_upwards [lt_mem_nhds h] with t ht; exact max_eq_left (le_of_lt ht)
      have : (0 : ℝ) < max z 0 := by rw [max_eq_left (le_of_lt h)]; exact h
      simp only [this, ↓reduceIte]
      exact (hasDerivAt_id' z).congr_of_eventuallyEq hev
  | tanh =>
    rw [eval_tanh]
    simp only [Act.dfac, sqr]
    have := hasDerivAt_tanh z
    rwa [pow_two] at this
  | logistic =>
    rw [eval_logistic]
    simp only [Act.dfac]
    have h1 : HasDerivAt (fun t : ℝ => t / 2) (1 / 2) z := by simpa using (hasDerivAt_id' z).div_const 2
    have h2 : HasDerivAt (fun t : ℝ => Real.tanh (t / 2)) ((1 - Real.tanh (z / 2) ^ 2) * (1 / 2)) z :=
      HasDerivAt.comp (h₂ := Real.tanh) z (hasDerivAt_tanh (z / 2)) h1
    have h3 := (h2.add_const 1).div_const 2
    have e : (Real.tanh (z / 2) + 1) / 2 * (1 - (Real.tanh (z / 2) + 1) / 2)
        = (1 - Real.tanh (z / 2) ^ 2) * (1 / 2) / 2 := by ring
    rw [e]; exact h3
  | fastSigmoid =>
    have hz := hk (Or.inr rfl)
    rw [eval_fastSigmoid]
    simp only [Act.dfac, sqr, sabs_real]
    rcases lt_or_gt_of_ne hz with h | h
    · -- z < 0: z / (1 - z)
      have hev : (fun t : ℝ => t / (1 + |t|)) =ᶠ[nhds z] fun t => t / (1 - t) := by
        filter_upwards [gt_mem_nhds h] with t ht; rw [abs_of_neg ht]; ring_nf
      have hd : HasDerivAt (fun t : ℝ => t / (1 - t)) ((1 * (1 - z) - z * (0 - 1)) / (1 - z) ^ 2) z :=
        (hasDerivAt_id' z).div ((hasDerivAt_const z (1:ℝ)).sub (hasDerivAt_id' z)) (by linarith)
      have hval : (1 - |z / (1 + |z|)|) * (1 - |z / (1 + |z|)|) = (1 * (1 - z) - z * (0 - 1)) / (1 - z) ^ 2 := by
        rw [abs_of_neg h]
        have h1 : z / (1 + -z) < 0 := div_neg_of_neg_of_pos h (by linarith)
        rw [abs_of_neg h1]
        have h2 : (1 + -z) ≠ 0 := by linarith
        have h3 : (1 - z) ≠ 0 := by linarith
        have : 1 - -(z / (1 + -z)) = 1 / (1 - z) := by field_simp; ring
        rw [this]; field_simp; ring
      rw [hval]
      exact hd.congr_of_eventuallyEq hev
    · have hev : (fun t : ℝ => t / (1 + |t|)) =ᶠ[nhds z] fun t => t / (1 + t) := by
        filter_upwards [lt_mem_nhds h] with t ht; rw [abs_of_pos ht]
      have hd : HasDerivAt (fun t : ℝ => t / (1 + t)) ((1 * (1 + z) - z * (0 + 1)) / (1 + z) ^ 2) z :=
        (hasDerivAt_id' z).div ((hasDerivAt_const z (1:ℝ)).add (hasDerivAt_id' z)) (by linarith)
      have hval : (1 - |z / (1 + |z|)|) * (1 - |z / (1 + |z|)|) = (1 * (1 + z) - z * (0 + 1)) / (1 + z) ^ 2 := by
        rw [abs_of_pos h]
        have h1 : 0 < z / (1 + z) := div_pos h (by linarith)
        rw [abs_of_pos h1]
        have h3 : (1 + z) ≠ 0 := by linarith
        have : 1 - z / (1 + z) = 1 / (1 + z) := by field_simp; ring
        rw [this]; field_simp; ring
      rw [hval]
      exact hd.congr_of_eventuallyEq hev

end SharkVerif.Models
