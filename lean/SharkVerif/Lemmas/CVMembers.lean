/-
`detail::createCVSameSizeBalanced` deals `members[0]` shuffled, then `members[1]` shuffled, … (`CV.validMembersSeq`).
For the membership vector of class labels (`CV.classMembers`) every such dealing order lists every position once and is
sorted by class (`CV.validSeq`) — the hypothesis of the class-balance theorem.
-/
import SharkVerif.Lemmas.ByClass
import SharkVerif.Lemmas.Dataset
import SharkVerif.Model.CV
namespace SharkVerif.CVMembers
open SharkVerif.Dataset SharkVerif.CV

/-- chunk-wise permutations concatenate to a permutation -/
theorem perm_flatten_of_all_perm : ∀ (A B : List (List Nat)), A.length = B.length →
    ((List.zip A B).all fun ab => ab.1.isPerm ab.2) = true → A.flatten.Perm B.flatten := by
  intro A
  induction A with
  | nil => intro B hl _; cases B with
    | nil => exact List.Perm.refl _
    | cons b B => simp at hl
  | cons a A ih =>
    intro B hl h
    cases B with
    | nil => simp at hl
    | cons b B =>
      simp only [List.zip_cons_cons, List.all_cons, Bool.and_eq_true] at h
      simp only [List.length_cons, Nat.add_right_cancel_iff] at hl
      simp only [List.flatten_cons]
      exact (List.isPerm_iff.mp h.1).append (ih B hl h.2)

def members (labels : List Nat) (c : Nat) : List Nat :=
  (List.range labels.length).filter fun i => labels[i]? == some c
def lab (labels : List Nat) (i : Nat) : Nat := labels[i]?.getD 0

theorem lab_of_mem_members (labels : List Nat) (c i : Nat) (h : i ∈ members labels c) : lab labels i = c := by
  simp only [members, List.mem_filter, beq_iff_eq] at h
  simp [lab, h.2]

/-- chunks that are permutations of the member lists of ascending classes: the labels along the concatenation ascend -/
theorem chunks_sorted (labels : List Nat) : ∀ (cs : List Nat) (A : List (List Nat)), cs.Pairwise (· ≤ ·) →
    A.length = cs.length → ((List.zip A (cs.map (members labels))).all fun ab => ab.1.isPerm ab.2) = true →
    (∀ y ∈ A.flatten.map (lab labels), y ∈ cs) ∧ (A.flatten.map (lab labels)).Pairwise (· ≤ ·) := by
  intro cs
  induction cs with
  | nil =>
    intro A _ hl _
    cases A with
    | nil => simp
    | cons a A => simp at hl
  | cons c cs ih =>
    intro A hs hl h
    cases A with
    | nil => simp at hl
    | cons a A =>
      simp only [List.map_cons, List.zip_cons_cons, List.all_cons, Bool.and_eq_true] at h
      simp only [List.length_cons, Nat.add_right_cancel_iff] at hl
      have hs' := List.pairwise_cons.mp hs
      obtain ⟨hmem, hpw⟩ := ih A hs'.2 hl h.2
      have hperm := List.isPerm_iff.mp h.1
      have ha : ∀ y ∈ a.map (lab labels), y = c := by
        intro y hy
        simp only [List.mem_map] at hy
        obtain ⟨i, hi, rfl⟩ := hy
        exact lab_of_mem_members labels c i (hperm.mem_iff.mp hi)
      simp only [List.flatten_cons, List.map_append]
      refine ⟨?_, ?_⟩
      · intro y hy
        rcases List.mem_append.mp hy with hy | hy
        · rw [ha y hy]; exact List.mem_cons_self ..
        · exact List.mem_cons_of_mem _ (hmem y hy)
      · rw [List.pairwise_append]
        refine ⟨?_, hpw, ?_⟩
        · rw [List.pairwise_iff_forall_sublist]
          intro x y hxy
          have hx := ha x (hxy.subset (List.mem_cons_self ..))
          have hy := ha y (hxy.subset (List.mem_cons_of_mem _ (List.mem_cons_self ..)))
          omega
        · intro x hx y hy
          rw [ha x hx]
          exact hs'.1 y (hmem y hy)

theorem pairwise_le_range (n : Nat) : (List.range n).Pairwise (· ≤ ·) := by
  rw [List.pairwise_iff_getElem]
  intro i j hi hj hij
  simp; omega

/-- **the dealing order of createCVSameSizeBalanced is class-sorted** — for every outcome of the class-wise shuffles:
if `seq` is `members[0]` permuted, then `members[1]` permuted, … for the membership vector of the class labels, and
every label is below the class count, then `seq` lists every position exactly once and the labels along `seq` ascend -/
theorem members_seq_valid (labels : List Nat) (numClasses : Nat) (hnc : ∀ l ∈ labels, l < numClasses) (seq : List Nat)
    (h : validMembersSeq (classMembers labels numClasses) seq = true) : validSeq labels seq = true := by
  simp only [validMembersSeq, Bool.and_eq_true, decide_eq_true_eq] at h
  obtain ⟨hlen, hall⟩ := h
  have hM : classMembers labels numClasses = (List.range numClasses).map (members labels) := rfl
  let A := splitBySizes seq ((classMembers labels numClasses).map List.length)
  have hA : A.flatten = seq := splitBySizes_flatten _ _ hlen.symm
  have hAl : A.length = (classMembers labels numClasses).length := by
    simp [A, splitBySizes_length]
  have hperm : seq.Perm (List.range labels.length) := by
    rw [← hA]
    refine (perm_flatten_of_all_perm A _ hAl hall).trans ?_
    have : (classMembers labels numClasses).flatten = classOrder labels numClasses := by
      rw [hM, classOrder, List.flatMap_def]; rfl
    rw [this]
    exact classOrder_perm labels numClasses hnc
  have hsorted := (chunks_sorted labels (List.range numClasses) A (pairwise_le_range _)
    (by rw [hAl, hM]; simp) (by rw [← hM]; exact hall)).2
  rw [hA] at hsorted
  simp only [validSeq, Bool.and_eq_true, isPermOf, List.all_eq_true, List.mem_range, decide_eq_true_eq]
  refine ⟨List.isPerm_iff.mpr hperm, ?_⟩
  intro j hj
  have hpw := List.pairwise_iff_getElem.mp hsorted
  have hj1 : j + 1 < (seq.map (lab labels)).length := by
    simp only [List.length_map] at hj ⊢; omega
  have := hpw j (j + 1) (by omega) hj1 (by omega)
  have e : (seq.map fun i => labels[i]?.getD 0) = seq.map (lab labels) := rfl
  rw [e, List.getElem?_eq_getElem (by omega), List.getElem?_eq_getElem hj1]
  simpa using this

/-- the c-th piece of `splitBySizes` starts behind the earlier pieces -/
theorem splitBySizes_getElem? {γ : Type} : ∀ (sizes : List Nat) (l : List γ) (c : Nat) (s : Nat), sizes[c]? = some s →
    (splitBySizes l sizes)[c]? = some ((l.drop (sizes.take c).sum).take s) := by
  intro sizes
  induction sizes with
  | nil => intro l c s h; simp at h
  | cons s0 ss ih =>
    intro l c s h
    cases c with
    | zero => simp at h; subst h; simp [splitBySizes]
    | succ c =>
      simp only [List.getElem?_cons_succ] at h
      simp only [splitBySizes, List.getElem?_cons_succ, List.take_succ_cons, List.sum_cons]
      rw [ih (l.drop s0) c s h, List.drop_drop]

/-- zip-wise property at an index -/
theorem all_zip_at {γ δ : Type} (P : γ × δ → Bool) : ∀ (A : List γ) (B : List δ) (c : Nat) (a : γ) (b : δ),
    ((List.zip A B).all P) = true → A[c]? = some a → B[c]? = some b → P (a, b) = true := by
  intro A B c a b h ha hb
  have hz : (List.zip A B)[c]? = some (a, b) := by
    rw [getElem?_zip_bind, ha, hb]; rfl
  exact List.all_eq_true.mp h (a, b) (List.mem_of_getElem? hz)

/-- **the members of class c are dealt in one window of dealing positions** [a, a+m), a = number of members of the earlier
classes, m = number of members of c: the piece of the dealing order at that window is a permutation of `members[c]` -/
theorem members_window (members : List (List Nat)) (seq : List Nat) (h : validMembersSeq members seq = true)
    (c : Nat) (mc : List Nat) (hc : members[c]? = some mc) :
    ((seq.drop ((members.take c).map List.length).sum).take mc.length).Perm mc := by
  simp only [validMembersSeq, Bool.and_eq_true, decide_eq_true_eq] at h
  have hs : (members.map List.length)[c]? = some mc.length := by simp [List.getElem?_map, hc]
  have hpiece := splitBySizes_getElem? (members.map List.length) seq c mc.length hs
  have := all_zip_at (fun am : List Nat × List Nat => am.1.isPerm am.2) _ _ c _ mc h.2 hpiece hc
  rw [← List.map_take] at this
  exact List.isPerm_iff.mp this

end SharkVerif.CVMembers
