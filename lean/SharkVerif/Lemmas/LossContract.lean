/-
C06: the two derivative contracts the end-to-end `ErrorFunction` theorem composes (definitions only).

* `RowGradAt` / `BatchGradAt`: the vector / matrix a loss returns as gradient is the *total*
  derivative of its value at the prediction: along every differentiable curve of predictions through
  the point, the value has derivative `Σ gradient·velocity` (this is what the chain rule needs; it
  implies the coordinate-wise `HasDerivAt` statements of `Props/C06.lean` §2b).
* `ModelContractAt`: the derivative contract of C04 for one parameter of a model — for every
  coefficient matrix `C`, the entry of `weightedParameterDerivative` is the derivative of
  `Σ C_ik · output_ik` w.r.t. that parameter.
-/
import Mathlib.Analysis.Calculus.Deriv.Basic
import Mathlib.Algebra.BigOperators.Group.Finset.Basic
import SharkVerif.Lemmas.LossDeriv
import SharkVerif.Model.ErrFn
namespace SharkVerif.ErrFn
open Finset SharkVerif.Loss

/-- a row of `m` predictions given by an index function -/
def rowOf (m : ℕ) (q : ℕ → ℝ) : List ℝ := (List.range m).map q

/-- `g` is the total derivative of the row loss `f` at the prediction `p0` (dimension `m`) -/
def RowGradAt (m : ℕ) (f : List ℝ → ℝ) (g : List ℝ) (p0 : ℕ → ℝ) : Prop :=
  ∀ (q : ℝ → ℕ → ℝ) (q' : ℕ → ℝ) (t0 : ℝ),
    (∀ k, k < m → q t0 k = p0 k) →
    (∀ k, k < m → HasDerivAt (fun t => q t k) (q' k) t0) →
    HasDerivAt (fun t => f (rowOf m (q t))) (∑ k ∈ range m, g.getD k 0 * q' k) t0

/-- `G` is the total derivative of the batch loss `F` at the `B × m` prediction matrix `P0` -/
def BatchGradAt (B m : ℕ) (F : List (List ℝ) → ℝ) (G : List (List ℝ)) (P0 : ℕ → ℕ → ℝ) : Prop :=
  ∀ (P : ℝ → ℕ → ℕ → ℝ) (P' : ℕ → ℕ → ℝ) (t0 : ℝ),
    (∀ i, i < B → ∀ k, k < m → P t0 i k = P0 i k) →
    (∀ i, i < B → ∀ k, k < m → HasDerivAt (fun t => P t i k) (P' i k) t0) →
    HasDerivAt (fun t => F (toRows B m (P t))) (∑ i ∈ range B, ∑ k ∈ range m, coefOf G i k * P' i k) t0

/-- the C04 contract for the parameter with index `idx` of a one-parameter family of models
`f t` (all other parameters fixed), at the parameter value `t0`, on the batch `(B, X)` -/
def ModelContractAt (f : ℝ → ModelFn ℝ) (t0 : ℝ) (idx : ℕ) (B : ℕ) (X : ℕ → ℕ → ℝ) : Prop :=
  (∀ t, (f t).m = (f t0).m) ∧
  ∀ C : ℕ → ℕ → ℝ,
    HasDerivAt (fun t => ∑ i ∈ range B, ∑ k ∈ range (f t0).m, C i k * (f t).evalB X i k)
      (((f t0).wpd B X C).getD idx 0) t0

/-- a loss whose batch value is the sum of row values and whose gradient rows are the row gradients:
the row contract lifts to the batch contract -/
theorem batchGradAt_of_rows (B m : ℕ) (F : List (List ℝ) → ℝ) (G : List (List ℝ)) (P0 : ℕ → ℕ → ℝ)
    (f : ℕ → List ℝ → ℝ) (g : ℕ → List ℝ)
    (hF : ∀ P : ℕ → ℕ → ℝ, F (toRows B m P) = ∑ i ∈ range B, f i (rowOf m (P i)))
    (hG : ∀ i, i < B → G.getD i [] = g i)
    (hrow : ∀ i, i < B → RowGradAt m (f i) (g i) (P0 i)) : BatchGradAt B m F G P0 := by
  intro P P' t0 h0 hd
  simp only [hF]
  have hterm : ∀ i ∈ range B, HasDerivAt (fun t => f i (rowOf m (P t i)))
      (∑ k ∈ range m, coefOf G i k * P' i k) t0 := by
    intro i hi
    have hi' := Finset.mem_range.1 hi
    have := hrow i hi' (fun t => P t i) (P' i) t0 (h0 i hi') (hd i hi')
    have hc : ∀ k, coefOf G i k = (g i).getD k 0 := by intro k; unfold coefOf; rw [hG i hi']
    simp only [hc]; exact this
  exact HasDerivAt.fun_sum hterm

end SharkVerif.ErrFn
