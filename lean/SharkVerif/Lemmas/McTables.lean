/-
Lemmas about the generated multi-class SVM coefficient tables
(`Gen/McTables.lean`, regenerated from CSvmTrainer.h on every run) at `α := Rat`.

Indexing conventions of the C++ (QpMcBoxDecomp.h / CSvmTrainer.h), `P = cardP`:
  * `nu` row of dual variable (label y, constraint p):            `P * y + p`
  * `M` row for (label y, constraint p) against label y':         `c * (y * P + p) + y'`, column p'.
-/
import SharkVerif.Gen.McTables
import Mathlib.Tactic.Ring
import Mathlib.Tactic.Linarith
import Mathlib.Tactic.NormNum
import Mathlib.Tactic.FieldSimp
import Mathlib.Algebra.BigOperators.Ring.Finset
import Mathlib.Algebra.BigOperators.Intervals
import Mathlib.Algebra.Order.Field.Rat
import Mathlib.Tactic.NormNum.OfScientific

namespace SharkVerif.McTables
open SharkVerif.Mc SharkVerif.Gen.McTables Finset

/-- `nu(P*y + p, k)`: coefficient of class `k` in the weight-vector combination of dual variable `(y,p)` -/
def nuAt (nu : Sparse Rat) (P y p k : Nat) : Rat := nu.get (P * y + p) k

/-- `M(c*(y*P+p) + y', p')` as read by the decomposition classes -/
def mAt (M : Sparse Rat) (c P y p y' p' : Nat) : Rat := M.get (c * (y * P + p) + y') p'

/-- `⟨nu(y,p), nu(y',p')⟩` over the `c` classes -/
def gram (nu : Sparse Rat) (c P y p y' p' : Nat) : Rat :=
  ∑ k ∈ range c, nuAt nu P y p k * nuAt nu P y' p' k

/-- sum of the coefficients of `nu(y,p)` -/
def nuSum (nu : Sparse Rat) (c P y p : Nat) : Rat := ∑ k ∈ range c, nuAt nu P y p k

/-- Gram matrix after projection onto the sum-to-zero subspace:
`⟨nu − mean(nu)·1, nu' − mean(nu')·1⟩ = ⟨nu,nu'⟩ − (Σnu)(Σnu')/c` -/
def gramCentered (nu : Sparse Rat) (c P y p y' p' : Nat) : Rat :=
  gram nu c P y p y' p' - nuSum nu c P y p * nuSum nu c P y' p' / c

theorem lookup_nil {α : Type} (col : Nat) (d : α) : Row.lookup ([] : List (Nat × α)) col d = d := rfl
theorem lookup_cons {α : Type} (e : Nat × α) (es : List (Nat × α)) (col : Nat) (d : α) :
    Row.lookup (e :: es) col d = if e.1 = col then e.2 else Row.lookup es col d := rfl

/-- closed form of the `pp` counters: skip the label -/
def up (y k : Nat) : Nat := if k < y then k else k + 1

theorem WWCS_nu_pp_eq (c y k : Nat) : WWCS_nu_pp c y k = up y k := by
  induction k with
  | zero => unfold WWCS_nu_pp up; dsimp only; split_ifs <;> omega
  | succ k ih => unfold WWCS_nu_pp; rw [ih]; unfold up; dsimp only; split_ifs <;> omega

theorem WWCS_M_ppv_eq (c y k : Nat) : WWCS_M_ppv c y k = up y k := by
  induction k with
  | zero => unfold WWCS_M_ppv up; dsimp only; split_ifs <;> omega
  | succ k ih => unfold WWCS_M_ppv; rw [ih]; unfold up; dsimp only; split_ifs <;> omega

theorem ADMLLW_nu_pp_eq (c y k : Nat) : ADMLLW_nu_pp c y k = up y k := by
  induction k with
  | zero => unfold ADMLLW_nu_pp up; dsimp only; split_ifs <;> omega
  | succ k ih => unfold ADMLLW_nu_pp; rw [ih]; unfold up; dsimp only; split_ifs <;> omega

theorem ADMLLW_M_ppv_eq (c y k : Nat) : ADMLLW_M_ppv c y k = up y k := by
  induction k with
  | zero => unfold ADMLLW_M_ppv up; dsimp only; split_ifs <;> omega
  | succ k ih => unfold ADMLLW_M_ppv; rw [ih]; unfold up; dsimp only; split_ifs <;> omega

theorem usub64_one (c : Nat) (hc : 1 ≤ c) : usub64 c 1 = c - 1 := by
  unfold usub64; split_ifs; rfl

theorem length_flatMap_range {β : Type} (g : Nat → List β) (m : Nat)
    (hg : ∀ x, (g x).length = m) (a : Nat) : ((List.range a).flatMap g).length = a * m := by
  induction a with
  | zero => simp
  | succ a ih => rw [List.range_succ, List.flatMap_append, List.length_append, ih]; simp [hg, Nat.succ_mul]

theorem getD_flatMap_range {β : Type} (g : Nat → List β) (m : Nat)
    (hg : ∀ x, (g x).length = m) (d : β) (a i k : Nat) (hi : i < a) (hk : k < m) :
    ((List.range a).flatMap g).getD (i * m + k) d = (g i).getD k d := by
  induction a with
  | zero => omega
  | succ a ih =>
    rw [List.range_succ, List.flatMap_append]
    have hlen := length_flatMap_range g m hg a
    by_cases h : i < a
    · have : i * m + k < a * m := by
        have : (i + 1) * m ≤ a * m := Nat.mul_le_mul_right m h
        rw [Nat.succ_mul] at this; omega
      rw [List.getD_eq_getElem?_getD, List.getElem?_append_left (by rw [hlen]; exact this), ← List.getD_eq_getElem?_getD]
      exact ih h
    · have hia : i = a := by omega
      subst hia
      rw [List.getD_eq_getElem?_getD, List.getElem?_append_right (by rw [hlen]; omega), hlen]
      simp [List.getD_eq_getElem?_getD]

theorem getD_map_range {β : Type} (f : Nat → β) (d : β) (b j : Nat) (hj : j < b) :
    ((List.range b).map f).getD j d = f j := by
  simp [List.getD, hj]


theorem getD_nest2 {β : Type} (f : Nat → Nat → β) (d : β) (a b i j : Nat) (hi : i < a) (hj : j < b) :
    ((List.range a).flatMap fun x => (List.range b).map fun y => f x y).getD (i * b + j) d = f i j := by
  rw [getD_flatMap_range _ b (by simp) d a i j hi hj, getD_map_range _ _ _ _ hj]

theorem getD_nest3 {β : Type} (f : Nat → Nat → Nat → β) (d : β) (a b e i j k : Nat)
    (hi : i < a) (hj : j < b) (hk : k < e) :
    ((List.range a).flatMap fun x => (List.range b).flatMap fun y => (List.range e).map fun z => f x y z).getD
      (i * (b * e) + (j * e + k)) d = f i j k := by
  have hjk : j * e + k < b * e := by
    have : (j + 1) * e ≤ b * e := Nat.mul_le_mul_right e hj
    rw [Nat.succ_mul] at this; omega
  rw [getD_flatMap_range _ (b * e) (fun x => length_flatMap_range _ e (by simp) b) d a i _ hi hjk]
  exact getD_nest2 (f i) d b e j k hj hk

theorem sum_ind (c a : Nat) (ha : a < c) (u : Rat) :
    ∑ k ∈ range c, (if k = a then u else 0) = u := by
  rw [Finset.sum_ite_eq']; simp [ha]

theorem sum_ind_mul (c a a' : Nat) (ha : a < c) (u u' : Rat) :
    ∑ k ∈ range c, (if k = a then u else 0) * (if k = a' then u' else 0)
      = if a = a' then u * u' else 0 := by
  rw [Finset.sum_eq_single a (fun b _ hb => by simp [hb]) (fun h => absurd (mem_range.2 ha) h)]
  split_ifs <;> simp_all

theorem sum_two_mul (c a b a' b' : Nat) (ha : a < c) (hb : b < c) (u v u' v' : Rat) :
    ∑ k ∈ range c, ((if k = a then u else 0) - (if k = b then v else 0))
        * ((if k = a' then u' else 0) - (if k = b' then v' else 0))
      = (if a = a' then u * u' else 0) - (if a = b' then u * v' else 0)
        - (if b = a' then v * u' else 0) + (if b = b' then v * v' else 0) := by
  simp only [sub_mul, mul_sub, Finset.sum_sub_distrib, sum_ind_mul c _ _ ha, sum_ind_mul c _ _ hb]
  ring

theorem up_lt (c y p : Nat) (hp : p < c - 1) : up y p < c := by unfold up; split_ifs <;> omega

/-! ### WW / CS -/
theorem WWCS_nu_row_get (c y p k : Nat) :
    (WWCS_nu_row c y p : Row Rat).get k
      = (if k = y then (1/2 : Rat) else 0) - (if k = up y p then (1/2 : Rat) else 0) := by
  have hne : up y p ≠ y := by unfold up; split_ifs <;> omega
  unfold WWCS_nu_row
  rw [WWCS_nu_pp_eq]
  simp only [Row.get, Row.add, Row.empty, List.nil_append, List.cons_append]
  split_ifs <;> simp only [lookup_cons, lookup_nil] <;> split_ifs <;> first | omega | norm_num

theorem up_ne (y p : Nat) : up y p ≠ y := by unfold up; split_ifs <;> omega

theorem usub32_ge_iff (q y' p' : Nat) (h : q ≠ y') :
    usub32 q (if q ≥ y' then 1 else 0) = p' ↔ q = up y' p' := by
  unfold usub32 up; split_ifs <;> omega

theorem WWCS_M_row_get (c y p y' p' : Nat) :
    (WWCS_M_row c y p y' : Row Rat).get p'
      = (1/4 : Rat) * ((if y = y' then 1 else 0) - (if y = up y' p' then 1 else 0)
          - (if up y p = y' then 1 else 0) + (if up y p = up y' p' then 1 else 0)) := by
  have hq : up y p ≠ y := up_ne y p
  have hq' : up y' p' ≠ y' := up_ne y' p'
  unfold WWCS_M_row
  rw [WWCS_M_ppv_eq]
  generalize up y p = q at *
  dsimp only
  by_cases h1 : y = y'
  · subst h1
    simp only [Row.get, Row.add, Row.empty, Row.setDefault, List.nil_append, ↓reduceIte,
      lookup_cons, lookup_nil, usub32_ge_iff q y p' hq]
    generalize up y p' = q' at *
    split_ifs <;> first | omega | norm_num
  · by_cases h2 : q = y'
    · subst h2
      simp only [Row.get, Row.add, Row.empty, Row.setDefault, List.nil_append, ↓reduceIte, h1,
        lookup_cons, lookup_nil, usub32_ge_iff y q p' h1]
      generalize up q p' = q' at *
      split_ifs <;> first | omega | norm_num
    · have ha := usub32_ge_iff q y' p' h2
      have hb := usub32_ge_iff y y' p' h1
      generalize usub32 q (if q ≥ y' then 1 else 0) = a at *
      generalize usub32 y (if y ≥ y' then 1 else 0) = b at *
      generalize up y' p' = q' at *
      simp only [Row.get, Row.add, Row.empty, Row.setDefault, List.nil_append, List.cons_append,
        ↓reduceIte, h1, h2]
      split_ifs <;> simp only [lookup_cons, lookup_nil, ha, hb] <;>
        split_ifs <;> first | omega | norm_num


theorem WWCS_nu_at (c : Nat) (hc : 2 ≤ c) (y p k : Nat) (hy : y < c) (hp : p < c - 1) :
    nuAt (WWCS_nu c) (c - 1) y p k = (WWCS_nu_row c y p : Row Rat).get k := by
  unfold nuAt Sparse.get Sparse.row WWCS_nu
  simp only [usub64_one c (by omega)]
  rw [Nat.mul_comm (c - 1) y, getD_nest2 _ _ c (c - 1) y p hy hp]

theorem WWCS_M_at (c : Nat) (hc : 2 ≤ c) (y p y' p' : Nat) (hy : y < c) (hp : p < c - 1)
    (hy' : y' < c) :
    mAt (WWCS_M c) c (c - 1) y p y' p' = (WWCS_M_row c y p y' : Row Rat).get p' := by
  unfold mAt Sparse.get Sparse.row WWCS_M
  simp only [usub64_one c (by omega)]
  have : c * (y * (c - 1) + p) + y' = y * ((c - 1) * c) + (p * c + y') := by ring
  rw [this, getD_nest3 _ _ c (c - 1) c y p y' hy hp hy']

/-- WW / CS: M is the Gram matrix of nu -/
theorem WWCS_M_is_gram (c : Nat) (hc : 2 ≤ c) (y p y' p' : Nat)
    (hy : y < c) (hp : p < c - 1) (hy' : y' < c) (hp' : p' < c - 1) :
    mAt (WWCS_M c) c (c - 1) y p y' p' = gram (WWCS_nu c) c (c - 1) y p y' p' := by
  rw [WWCS_M_at c hc y p y' p' hy hp hy', WWCS_M_row_get]
  unfold gram
  simp only [WWCS_nu_at c hc _ _ _ hy hp, WWCS_nu_at c hc _ _ _ hy' hp', WWCS_nu_row_get]
  rw [sum_two_mul c _ _ _ _ hy (up_lt c y p hp)]
  have := up_ne y p
  have := up_ne y' p'
  split_ifs <;> first | omega | norm_num

/-- WW / CS: every nu(y,p) sums to zero (so centring changes nothing) -/
theorem WWCS_nu_sum_zero (c : Nat) (hc : 2 ≤ c) (y p : Nat) (hy : y < c) (hp : p < c - 1) :
    nuSum (WWCS_nu c) c (c - 1) y p = 0 := by
  unfold nuSum
  simp only [WWCS_nu_at c hc _ _ _ hy hp, WWCS_nu_row_get, Finset.sum_sub_distrib,
    sum_ind c _ hy, sum_ind c _ (up_lt c y p hp)]
  norm_num


theorem cast_ne_zero' (c : Nat) (hc : 2 ≤ c) : (c : Rat) ≠ 0 := by
  have : c ≠ 0 := by omega
  exact_mod_cast this

/-! ### ATM / ATS -/

theorem ATMATS_nu_row_get (c y p k : Nat) :
    (ATMATS_nu_row c y p : Row Rat).get k
      = if k = p then (if p = y then (1 : Rat) else -1) else 0 := by
  unfold ATMATS_nu_row
  simp only [Row.get, Row.add, Row.empty, List.nil_append, lookup_cons, lookup_nil]
  split_ifs <;> first | omega | norm_num

theorem ATMATS_M_row_get (c : Nat) (hc : 2 ≤ c) (y p y' p' : Nat) :
    (ATMATS_M_row c y p y' : Row Rat).get p'
      = (if p = y then (1 : Rat) else -1) * (if p' = y' then (1 : Rat) else -1)
          * ((if p = p' then 1 else 0) - 1 / (c : Rat)) := by
  have hc0 := cast_ne_zero' c hc
  unfold ATMATS_M_row
  dsimp only
  simp only [Row.get, Row.add, Row.empty, Row.setDefault, List.nil_append, List.cons_append]
  split_ifs <;> simp only [lookup_cons, lookup_nil] <;> split_ifs <;>
    first | omega | (norm_num; done) | (norm_num; field_simp; done) | (norm_num; field_simp; ring)

theorem ATMATS_nu_at (c : Nat) (y p k : Nat) (hy : y < c) (hp : p < c) :
    nuAt (ATMATS_nu c) c y p k = (ATMATS_nu_row c y p : Row Rat).get k := by
  unfold nuAt Sparse.get Sparse.row ATMATS_nu
  dsimp only
  rw [Nat.mul_comm c y, getD_nest2 _ _ c c y p hy hp]

theorem ATMATS_M_at (c : Nat) (y p y' p' : Nat) (hy : y < c) (hp : p < c) (hy' : y' < c) :
    mAt (ATMATS_M c) c c y p y' p' = (ATMATS_M_row c y p y' : Row Rat).get p' := by
  unfold mAt Sparse.get Sparse.row ATMATS_M
  dsimp only
  have : c * (y * c + p) + y' = y * (c * c) + (p * c + y') := by ring
  rw [this, getD_nest3 _ _ c c c y p y' hy hp hy']

/-- ATM / ATS / reinforced: M is the Gram matrix of nu centred (sum-to-zero) -/
theorem ATMATS_M_is_gram (c : Nat) (hc : 2 ≤ c) (y p y' p' : Nat)
    (hy : y < c) (hp : p < c) (hy' : y' < c) (hp' : p' < c) :
    mAt (ATMATS_M c) c c y p y' p' = gramCentered (ATMATS_nu c) c c y p y' p' := by
  have hc0 := cast_ne_zero' c hc
  rw [ATMATS_M_at c y p y' p' hy hp hy', ATMATS_M_row_get c hc]
  unfold gramCentered gram nuSum
  simp only [ATMATS_nu_at c _ _ _ hy hp, ATMATS_nu_at c _ _ _ hy' hp', ATMATS_nu_row_get,
    sum_ind_mul c _ _ hp, sum_ind c _ hp, sum_ind c _ hp']
  split_ifs <;> first | omega | (field_simp; done) | (field_simp; ring)

/-! ### LLW / ADM -/

theorem usub32_gt_iff (q y' p' : Nat) (h : q ≠ y') :
    usub32 q (if q > y' then 1 else 0) = p' ↔ q = up y' p' := by
  unfold usub32 up; split_ifs <;> omega

theorem ADMLLW_nu_row_get (c y p k : Nat) :
    (ADMLLW_nu_row c y p : Row Rat).get k = if k = up y p then (-1 : Rat) else 0 := by
  unfold ADMLLW_nu_row
  rw [ADMLLW_nu_pp_eq]
  simp only [Row.get, Row.add, Row.empty, List.nil_append, lookup_cons, lookup_nil]
  split_ifs <;> first | omega | norm_num

theorem ADMLLW_M_row_get (c y p y' p' : Nat) :
    (ADMLLW_M_row c y p y' : Row Rat).get p'
      = (if up y p = up y' p' then (1 : Rat) else 0) - 1 / (c : Rat) := by
  have hq' : up y' p' ≠ y' := up_ne y' p'
  unfold ADMLLW_M_row
  rw [ADMLLW_M_ppv_eq]
  generalize up y p = q at *
  dsimp only
  by_cases h : q = y'
  · subst h
    simp only [Row.get, Row.empty, Row.setDefault, ne_eq, not_true_eq_false, ↓reduceIte, lookup_nil]
    split_ifs <;> first | omega | (norm_num; ring)
  · simp only [Row.get, Row.add, Row.empty, Row.setDefault, ne_eq, h, not_false_eq_true, ↓reduceIte,
      List.nil_append, lookup_cons, lookup_nil, usub32_gt_iff q y' p' h]
    split_ifs <;> first | omega | (norm_num; ring)

theorem ADMLLW_nu_at (c : Nat) (hc : 2 ≤ c) (y p k : Nat) (hy : y < c) (hp : p < c - 1) :
    nuAt (ADMLLW_nu c) (c - 1) y p k = (ADMLLW_nu_row c y p : Row Rat).get k := by
  unfold nuAt Sparse.get Sparse.row ADMLLW_nu
  simp only [usub64_one c (by omega)]
  rw [Nat.mul_comm (c - 1) y, getD_nest2 _ _ c (c - 1) y p hy hp]

theorem ADMLLW_M_at (c : Nat) (hc : 2 ≤ c) (y p y' p' : Nat) (hy : y < c) (hp : p < c - 1)
    (hy' : y' < c) :
    mAt (ADMLLW_M c) c (c - 1) y p y' p' = (ADMLLW_M_row c y p y' : Row Rat).get p' := by
  unfold mAt Sparse.get Sparse.row ADMLLW_M
  simp only [usub64_one c (by omega)]
  have : c * (y * (c - 1) + p) + y' = y * ((c - 1) * c) + (p * c + y') := by ring
  rw [this, getD_nest3 _ _ c (c - 1) c y p y' hy hp hy']

/-- LLW / ADM -/
theorem ADMLLW_M_is_gram (c : Nat) (hc : 2 ≤ c) (y p y' p' : Nat)
    (hy : y < c) (hp : p < c - 1) (hy' : y' < c) (hp' : p' < c - 1) :
    mAt (ADMLLW_M c) c (c - 1) y p y' p' = gramCentered (ADMLLW_nu c) c (c - 1) y p y' p' := by
  have hc0 := cast_ne_zero' c hc
  rw [ADMLLW_M_at c hc y p y' p' hy hp hy', ADMLLW_M_row_get]
  unfold gramCentered gram nuSum
  simp only [ADMLLW_nu_at c hc _ _ _ hy hp, ADMLLW_nu_at c hc _ _ _ hy' hp', ADMLLW_nu_row_get,
    sum_ind_mul c _ _ (up_lt c y p hp), sum_ind c _ (up_lt c y p hp), sum_ind c _ (up_lt c y' p' hp')]
  split_ifs <;> first | omega | norm_num

/-! ### MMR -/

theorem MMR_nu_row_get (c y k : Nat) :
    (MMR_nu_row c y : Row Rat).get k = if k = y then (1 : Rat) else 0 := by
  unfold MMR_nu_row
  simp only [Row.get, Row.add, Row.empty, List.nil_append, lookup_cons, lookup_nil]
  split_ifs <;> first | omega | norm_num

theorem MMR_M_row_get (c y y' : Nat) :
    (MMR_M_row c y y' : Row Rat).get 0 = (if y = y' then (1 : Rat) else 0) - 1 / (c : Rat) := by
  unfold MMR_M_row
  dsimp only
  simp only [Row.get, Row.add, Row.empty, Row.setDefault, List.nil_append]
  split_ifs <;> simp only [lookup_cons, lookup_nil, ↓reduceIte] <;> norm_num <;> ring

theorem MMR_nu_at (c : Nat) (y k : Nat) (hy : y < c) :
    nuAt (MMR_nu c) 1 y 0 k = (MMR_nu_row c y : Row Rat).get k := by
  unfold nuAt Sparse.get Sparse.row MMR_nu
  dsimp only
  rw [Nat.one_mul, Nat.add_zero, getD_map_range _ _ _ _ hy]

theorem MMR_M_at (c : Nat) (y y' p' : Nat) (hy : y < c) (hy' : y' < c) :
    mAt (MMR_M c) c 1 y 0 y' p' = (MMR_M_row c y y' : Row Rat).get p' := by
  unfold mAt Sparse.get Sparse.row MMR_M
  dsimp only
  have : c * (y * 1 + 0) + y' = y * c + y' := by ring
  rw [this, getD_nest2 _ _ c c y y' hy hy']

/-- MMR (one dual variable per example) -/
theorem MMR_M_is_gram (c : Nat) (hc : 2 ≤ c) (y y' : Nat) (hy : y < c) (hy' : y' < c) :
    mAt (MMR_M c) c 1 y 0 y' 0 = gramCentered (MMR_nu c) c 1 y 0 y' 0 := by
  have hc0 := cast_ne_zero' c hc
  rw [MMR_M_at c y y' 0 hy hy', MMR_M_row_get]
  unfold gramCentered gram nuSum
  simp only [MMR_nu_at c _ _ hy, MMR_nu_at c _ _ hy', MMR_nu_row_get,
    sum_ind_mul c _ _ hy, sum_ind c _ hy, sum_ind c _ hy']
  split_ifs <;> first | omega | norm_num


/-! ### well-formedness of the rows of the generated `M` tables -/

/-- explicit entries of a row have pairwise distinct column indices, all below the width -/
def RowWF (r : Row Rat) (w : Nat) : Prop := (r.entries.map Prod.fst).Nodup ∧ ∀ e ∈ r.entries, e.1 < w

theorem RowWF_empty (w : Nat) : RowWF (Row.empty : Row Rat) w := by
  simp [RowWF, Row.empty]

theorem getD_of_forall {β : Type} (P : β → Prop) (l : List β) (d : β) (r : Nat)
    (hl : ∀ x ∈ l, P x) (hd : P d) : P (l.getD r d) := by
  rw [List.getD_eq_getElem?_getD]
  cases h : l[r]? with
  | none => simpa using hd
  | some x => simpa using hl x (List.mem_of_getElem? h)

/-- the column computed by `pp - (pp >= yw)` (or `pp - (pp > yw)`), no wrap-around when `pp ≠ yw` -/
def dn (y' q : Nat) : Nat := if y' < q then q - 1 else q

theorem usub32_ge_eq (q y' : Nat) (_h : q ≠ y') : usub32 q (if q ≥ y' then 1 else 0) = dn y' q := by
  unfold usub32 dn; split_ifs <;> omega
theorem usub32_gt_eq (q y' : Nat) (_h : q ≠ y') : usub32 q (if q > y' then 1 else 0) = dn y' q := by
  unfold usub32 dn; split_ifs <;> omega
theorem dn_lt (c y' q : Nat) (h : q ≠ y') (hq : q < c) (hy' : y' < c) : dn y' q < c - 1 := by
  unfold dn; split_ifs <;> omega
theorem dn_inj (y' q r : Nat) (hq : q ≠ y') (hr : r ≠ y') (h : dn y' q = dn y' r) : q = r := by
  unfold dn at h; split_ifs at h <;> omega

theorem WWCS_M_row_wf_aux (c y p y' : Nat) (hy : y < c) (hp : p < c - 1) (hy' : y' < c) :
    RowWF (WWCS_M_row c y p y' : Row Rat) (c - 1) := by
  have hq := up_ne y p
  have hql := up_lt c y p hp
  unfold RowWF WWCS_M_row
  rw [WWCS_M_ppv_eq]
  generalize up y p = q at *
  dsimp only
  by_cases h1 : y = y'
  · subst h1
    simp [Row.add, Row.empty, Row.setDefault, usub32_ge_eq q y hq]
    exact dn_lt c y q hq hql hy
  · by_cases h2 : q = y'
    · subst h2
      simp [Row.add, Row.empty, Row.setDefault, usub32_ge_eq y q h1, h1]
      exact dn_lt c q y h1 hy hy'
    · have ha := dn_lt c y' q h2 hql hy'
      have hb := dn_lt c y' y h1 hy hy'
      have hab : dn y' q ≠ dn y' y := fun h => hq (dn_inj y' q y h2 h1 h)
      simp only [usub32_ge_eq q y' h2, usub32_ge_eq y y' h1, h1, h2, ↓reduceIte]
      split_ifs <;> simp [Row.add, Row.empty, Row.setDefault] <;> omega


theorem WWCS_M_row_wf (c : Nat) (hc : 2 ≤ c) (r : Nat) :
    RowWF ((WWCS_M c : Sparse Rat).row r) (c - 1) := by
  unfold Sparse.row WWCS_M
  simp only [usub64_one c (by omega)]
  apply getD_of_forall (fun x => RowWF x (c - 1)) _ _ _ _ (RowWF_empty _)
  intro x hx
  simp only [List.mem_flatMap, List.mem_map, List.mem_range] at hx
  obtain ⟨y, hy, p, hp, y', hy', rfl⟩ := hx
  exact WWCS_M_row_wf_aux c y p y' hy hp hy'

theorem ATMATS_M_row_wf_aux (c y p y' : Nat) (hp : p < c) (hy' : y' < c) :
    RowWF (ATMATS_M_row c y p y' : Row Rat) c := by
  unfold RowWF ATMATS_M_row
  dsimp only
  split_ifs <;> simp [Row.add, Row.empty, Row.setDefault] <;> omega

set_option linter.unusedVariables false in
theorem ATMATS_M_row_wf (c : Nat) (hc : 2 ≤ c) (r : Nat) :
    RowWF ((ATMATS_M c : Sparse Rat).row r) c := by
  unfold Sparse.row ATMATS_M
  apply getD_of_forall (fun x => RowWF x c) _ _ _ _ (RowWF_empty _)
  intro x hx
  simp only [List.mem_flatMap, List.mem_map, List.mem_range] at hx
  obtain ⟨y, hy, p, hp, y', hy', rfl⟩ := hx
  exact ATMATS_M_row_wf_aux c y p y' hp hy'

theorem ADMLLW_M_row_wf_aux (c y p y' : Nat) (hp : p < c - 1) (hy' : y' < c) :
    RowWF (ADMLLW_M_row c y p y' : Row Rat) (c - 1) := by
  have hql := up_lt c y p hp
  unfold RowWF ADMLLW_M_row
  rw [ADMLLW_M_ppv_eq]
  generalize up y p = q at *
  dsimp only
  by_cases h : q = y'
  · simp [Row.empty, Row.setDefault, h]
  · have ha := dn_lt c y' q h hql hy'
    simp [Row.add, Row.empty, Row.setDefault, h, usub32_gt_eq q y' h, ha]

theorem ADMLLW_M_row_wf (c : Nat) (hc : 2 ≤ c) (r : Nat) :
    RowWF ((ADMLLW_M c : Sparse Rat).row r) (c - 1) := by
  unfold Sparse.row ADMLLW_M
  simp only [usub64_one c (by omega)]
  apply getD_of_forall (fun x => RowWF x (c - 1)) _ _ _ _ (RowWF_empty _)
  intro x hx
  simp only [List.mem_flatMap, List.mem_map, List.mem_range] at hx
  obtain ⟨y, hy, p, hp, y', hy', rfl⟩ := hx
  exact ADMLLW_M_row_wf_aux c y p y' hp hy'

theorem MMR_M_row_wf_aux (c y y' : Nat) : RowWF (MMR_M_row c y y' : Row Rat) 1 := by
  unfold RowWF MMR_M_row
  dsimp only
  split_ifs <;> simp [Row.add, Row.empty, Row.setDefault]

set_option linter.unusedVariables false in
theorem MMR_M_row_wf (c : Nat) (hc : 2 ≤ c) (r : Nat) :
    RowWF ((MMR_M c : Sparse Rat).row r) 1 := by
  unfold Sparse.row MMR_M
  apply getD_of_forall (fun x => RowWF x 1) _ _ _ _ (RowWF_empty _)
  intro x hx
  simp only [List.mem_flatMap, List.mem_map, List.mem_range] at hx
  obtain ⟨y, hy, y', hy', rfl⟩ := hx
  exact MMR_M_row_wf_aux c y y'


/-! ### capacity facts (`QpSparseArray::add` does not check its capacity under NDEBUG) -/
theorem length_nest2 {β : Type} (f : Nat → Nat → β) (a b : Nat) :
    ((List.range a).flatMap fun x => (List.range b).map fun y => f x y).length = a * b :=
  length_flatMap_range _ b (by simp) a

theorem length_nest3 {β : Type} (f : Nat → Nat → Nat → β) (a b e : Nat) :
    ((List.range a).flatMap fun x => (List.range b).flatMap fun y =>
      (List.range e).map fun z => f x y z).length = a * (b * e) :=
  length_flatMap_range _ (b * e) (fun x => length_nest2 (f x) b e) a

theorem tables_rows_length (c : Nat) (hc : 2 ≤ c) :
    (WWCS_nu c : Sparse Rat).rows.length = (WWCS_nu c : Sparse Rat).height ∧
    (WWCS_M c : Sparse Rat).rows.length = (WWCS_M c : Sparse Rat).height ∧
    (ATMATS_nu c : Sparse Rat).rows.length = (ATMATS_nu c : Sparse Rat).height ∧
    (ATMATS_M c : Sparse Rat).rows.length = (ATMATS_M c : Sparse Rat).height ∧
    (ADMLLW_nu c : Sparse Rat).rows.length = (ADMLLW_nu c : Sparse Rat).height ∧
    (ADMLLW_M c : Sparse Rat).rows.length = (ADMLLW_M c : Sparse Rat).height ∧
    (MMR_nu c : Sparse Rat).rows.length = (MMR_nu c : Sparse Rat).height ∧
    (MMR_M c : Sparse Rat).rows.length = (MMR_M c : Sparse Rat).height := by
  have h1 := usub64_one c (by omega)
  refine ⟨?_, ?_, ?_, ?_, ?_, ?_, ?_, ?_⟩
  · unfold WWCS_nu; dsimp only; rw [length_nest2]
  · unfold WWCS_M; dsimp only; rw [length_nest3]; ring
  · unfold ATMATS_nu; dsimp only; rw [length_nest2]
  · unfold ATMATS_M; dsimp only; rw [length_nest3]; ring
  · unfold ADMLLW_nu; dsimp only; rw [length_nest2]
  · unfold ADMLLW_M; dsimp only; rw [length_nest3]; ring
  · unfold MMR_nu; simp
  · unfold MMR_M; dsimp only; rw [length_nest2]

theorem list_sum_range_eq (h : Nat → Nat) (n : Nat) :
    ((List.range n).map h).sum = ∑ k ∈ range n, h k := by
  induction n with
  | zero => simp
  | succ n ih => simp [List.range_succ, Finset.sum_range_succ, ih]

theorem sum_map_flatMap_range {β : Type} (g : Nat → List β) (f : β → Nat) (a : Nat) :
    (((List.range a).flatMap g).map f).sum = ∑ x ∈ range a, ((g x).map f).sum := by
  induction a with
  | zero => simp
  | succ a ih => simp [List.range_succ, List.flatMap_append, Finset.sum_range_succ, ih]

theorem used_nest1 {α : Type} (f : Nat → Row α) (a : Nat) :
    (((List.range a).map fun x => f x).map fun r => r.entries.length).sum
      = ∑ x ∈ range a, (f x).entries.length := by
  rw [List.map_map, list_sum_range_eq]; rfl

theorem used_nest2 {α : Type} (f : Nat → Nat → Row α) (a b : Nat) :
    (((List.range a).flatMap fun x => (List.range b).map fun y => f x y).map
        fun r => r.entries.length).sum
      = ∑ x ∈ range a, ∑ y ∈ range b, (f x y).entries.length := by
  rw [sum_map_flatMap_range]
  exact Finset.sum_congr rfl fun x _ => used_nest1 (f x) b

theorem used_nest3 {α : Type} (f : Nat → Nat → Nat → Row α) (a b e : Nat) :
    (((List.range a).flatMap fun x => (List.range b).flatMap fun y =>
        (List.range e).map fun z => f x y z).map fun r => r.entries.length).sum
      = ∑ x ∈ range a, ∑ y ∈ range b, ∑ z ∈ range e, (f x y z).entries.length := by
  rw [sum_map_flatMap_range]
  exact Finset.sum_congr rfl fun x _ => used_nest2 (f x) b e

theorem sum_const_range (a m : Nat) (h : Nat → Nat) (hh : ∀ x < a, h x = m) :
    ∑ x ∈ range a, h x = a * m := by
  rw [Finset.sum_congr rfl (fun x hx => hh x (mem_range.1 hx))]; simp

theorem sum_le_const_range (a m : Nat) (h : Nat → Nat) (hh : ∀ x < a, h x ≤ m) :
    ∑ x ∈ range a, h x ≤ a * m := by
  induction a with
  | zero => simp
  | succ a ih =>
    rw [Finset.sum_range_succ, Nat.succ_mul]
    exact Nat.add_le_add (ih fun x hx => hh x (by omega)) (hh a (by omega))

theorem sum_ind_nat (c a : Nat) (ha : a < c) : ∑ k ∈ range c, (if k = a then 1 else 0) = 1 := by
  rw [Finset.sum_ite_eq']; simp [ha]

theorem WWCS_nu_row_len (c y p : Nat) : (WWCS_nu_row c y p : Row Rat).entries.length = 2 := by
  unfold WWCS_nu_row; dsimp only; split_ifs <;> simp [Row.add, Row.empty]

theorem WWCS_M_row_len (c y p y' : Nat) :
    (WWCS_M_row c y p y' : Row Rat).entries.length
      = if y' = y then 1 else if y' = up y p then 1 else 2 := by
  unfold WWCS_M_row; rw [WWCS_M_ppv_eq]; dsimp only
  split_ifs <;> first | omega | simp [Row.add, Row.empty, Row.setDefault]

theorem WWCS_M_row_len_sum (c y p : Nat) (hy : y < c) (hp : p < c - 1) :
    ∑ y' ∈ range c, (WWCS_M_row c y p y' : Row Rat).entries.length = 2 * (c - 1) := by
  have hq := up_ne y p
  have hql := up_lt c y p hp
  simp only [WWCS_M_row_len]
  generalize up y p = q at *
  have key : ∀ k, (if k = y then 1 else if k = q then 1 else 2)
      + (if k = y then 1 else 0) + (if k = q then 1 else 0) = 2 := by
    intro k; split_ifs <;> omega
  have h := Finset.sum_congr (s₁ := range c) rfl (fun k _ => key k)
  rw [Finset.sum_add_distrib, Finset.sum_add_distrib, sum_ind_nat c y hy, sum_ind_nat c q hql] at h
  simp at h
  omega

theorem ATMATS_nu_row_len (c y p : Nat) : (ATMATS_nu_row c y p : Row Rat).entries.length = 1 := by
  unfold ATMATS_nu_row; simp [Row.add, Row.empty]

theorem ATMATS_M_row_len (c y p y' : Nat) : (ATMATS_M_row c y p y' : Row Rat).entries.length ≤ 2 := by
  unfold ATMATS_M_row; dsimp only; split_ifs <;> simp [Row.add, Row.empty, Row.setDefault]

theorem ADMLLW_nu_row_len (c y p : Nat) : (ADMLLW_nu_row c y p : Row Rat).entries.length = 1 := by
  unfold ADMLLW_nu_row; simp [Row.add, Row.empty]

theorem ADMLLW_M_row_len (c y p y' : Nat) :
    (ADMLLW_M_row c y p y' : Row Rat).entries.length = if y' = up y p then 0 else 1 := by
  unfold ADMLLW_M_row; rw [ADMLLW_M_ppv_eq]; dsimp only
  split_ifs <;> first | omega | simp [Row.add, Row.empty, Row.setDefault]

theorem ADMLLW_M_row_len_sum (c y p : Nat) (hp : p < c - 1) :
    ∑ y' ∈ range c, (ADMLLW_M_row c y p y' : Row Rat).entries.length = c - 1 := by
  have hql := up_lt c y p hp
  simp only [ADMLLW_M_row_len]
  generalize up y p = q at *
  have key : ∀ k, (if k = q then 0 else 1) + (if k = q then 1 else 0) = 1 := by
    intro k; split_ifs <;> omega
  have h := Finset.sum_congr (s₁ := range c) rfl (fun k _ => key k)
  rw [Finset.sum_add_distrib, sum_ind_nat c q hql] at h
  simp at h
  omega

theorem MMR_nu_row_len (c y : Nat) : (MMR_nu_row c y : Row Rat).entries.length = 1 := by
  unfold MMR_nu_row; simp [Row.add, Row.empty]

theorem MMR_M_row_len (c y y' : Nat) :
    (MMR_M_row c y y' : Row Rat).entries.length = if y' = y then 1 else 0 := by
  unfold MMR_M_row; dsimp only
  split_ifs <;> first | omega | simp [Row.add, Row.empty, Row.setDefault]

theorem tables_space_suffices (c : Nat) (hc : 2 ≤ c) :
    (WWCS_nu c : Sparse Rat).used ≤ (WWCS_nu c : Sparse Rat).space ∧
    (WWCS_M c : Sparse Rat).used ≤ (WWCS_M c : Sparse Rat).space ∧
    (ATMATS_nu c : Sparse Rat).used ≤ (ATMATS_nu c : Sparse Rat).space ∧
    (ATMATS_M c : Sparse Rat).used ≤ (ATMATS_M c : Sparse Rat).space ∧
    (ADMLLW_nu c : Sparse Rat).used ≤ (ADMLLW_nu c : Sparse Rat).space ∧
    (ADMLLW_M c : Sparse Rat).used ≤ (ADMLLW_M c : Sparse Rat).space ∧
    (MMR_nu c : Sparse Rat).used ≤ (MMR_nu c : Sparse Rat).space ∧
    (MMR_M c : Sparse Rat).used ≤ (MMR_M c : Sparse Rat).space := by
  have h1 := usub64_one c (by omega)
  refine ⟨?_, ?_, ?_, ?_, ?_, ?_, ?_, ?_⟩
  · unfold Sparse.used WWCS_nu; dsimp only
    rw [used_nest2, h1, sum_const_range c ((c - 1) * 2) _ (fun y _ =>
      sum_const_range (c - 1) 2 _ (fun p _ => WWCS_nu_row_len c y p))]
    exact le_of_eq (by ring)
  · unfold Sparse.used WWCS_M; dsimp only
    rw [used_nest3, h1]
    rw [sum_const_range c ((c - 1) * (2 * (c - 1))) _ (fun y hy =>
      sum_const_range (c - 1) (2 * (c - 1)) _ (fun p hp => WWCS_M_row_len_sum c y p hy hp))]
    exact le_of_eq (by ring)
  · unfold Sparse.used ATMATS_nu; dsimp only
    rw [used_nest2, sum_const_range c (c * 1) _ (fun y _ =>
      sum_const_range c 1 _ (fun p _ => ATMATS_nu_row_len c y p))]
    exact le_of_eq (by ring)
  · unfold Sparse.used ATMATS_M; dsimp only
    rw [used_nest3]
    refine le_trans (sum_le_const_range c (c * (c * 2)) _ (fun y _ =>
      sum_le_const_range c (c * 2) _ (fun p _ =>
        sum_le_const_range c 2 _ (fun y' _ => ATMATS_M_row_len c y p y')))) ?_
    exact le_of_eq (by ring)
  · unfold Sparse.used ADMLLW_nu; dsimp only
    rw [used_nest2, h1, sum_const_range c ((c - 1) * 1) _ (fun y _ =>
      sum_const_range (c - 1) 1 _ (fun p _ => ADMLLW_nu_row_len c y p))]
    exact le_of_eq (by ring)
  · unfold Sparse.used ADMLLW_M; dsimp only
    rw [used_nest3, h1]
    rw [sum_const_range c ((c - 1) * (c - 1)) _ (fun y _ =>
      sum_const_range (c - 1) (c - 1) _ (fun p hp => ADMLLW_M_row_len_sum c y p hp))]
    exact le_of_eq (by ring)
  · unfold Sparse.used MMR_nu; dsimp only
    rw [used_nest1, sum_const_range c 1 _ (fun y _ => MMR_nu_row_len c y)]
    exact le_of_eq (by ring)
  · unfold Sparse.used MMR_M; dsimp only
    rw [used_nest2]
    rw [sum_const_range c 1 _ (fun y hy => by
      simp only [MMR_M_row_len]; exact sum_ind_nat c y hy)]
    exact le_of_eq (by ring)

end SharkVerif.McTables
