import SharkVerif.Lemmas.Blocks
import SharkVerif.Lemmas.BatchPartitioning
import SharkVerif.Lemmas.Regroup
namespace SharkVerif.Dataset
open SharkVerif.BatchArith

variable {α : Type}

/-- number of positions holding `c` = number of occurrences of `c` -/
theorem filter_range_count (c : Nat) (labels : List Nat) :
    ((List.range labels.length).filter (fun i => labels[i]? == some c)).length = labels.count c := by
  have key : ∀ n, n ≤ labels.length →
      ((List.range n).filter (fun i => labels[i]? == some c)).length = (labels.take n).count c := by
    intro n
    induction n with
    | zero => intro _; simp
    | succ n ih =>
      intro hn
      have hlt : n < labels.length := by omega
      rw [List.range_succ, List.filter_append, List.length_append, ih (by omega),
        List.take_succ_eq_append_getElem hlt, List.count_append]
      congr 1
      by_cases hx : labels[n] = c
      · simp [List.getElem?_eq_getElem hlt, hx]
      · have : ¬ (c = labels[n]) := fun h => hx h.symm
        simp [List.getElem?_eq_getElem hlt, hx, List.count_cons, this]
  have := key labels.length (Nat.le_refl _)
  rwa [List.take_length] at this

theorem mem_of_mem_splitBySizes (sizes : List Nat) : ∀ (xs : List α) (b : List α), b ∈ splitBySizes xs sizes →
    ∀ x ∈ b, x ∈ xs := by
  induction sizes with
  | nil => intro xs b hb; simp [splitBySizes] at hb
  | cons s ss ih =>
    intro xs b hb x hx
    simp only [splitBySizes, List.mem_cons] at hb
    rcases hb with rfl | hb
    · exact List.mem_of_mem_take hx
    · exact List.mem_of_mem_drop (ih _ b hb x hx)

/-- reading the labels in class order gives, class by class, as many copies of the class as it has members -/
theorem classOrder_labels (labels : List Nat) (C : Nat) :
    (classOrder labels C).map (fun i => labels[i]?.getD 0) =
      (List.range C).flatMap (fun c => List.replicate (labels.count c) c) := by
  unfold classOrder
  rw [List.map_flatMap]
  apply flatMap_congr'
  intro c _
  rw [List.eq_replicate_iff]
  refine ⟨by rw [List.length_map, filter_range_count], ?_⟩
  intro b hb
  simp only [List.mem_map, List.mem_filter, List.mem_range, beq_iff_eq] at hb
  obtain ⟨i, ⟨_, hi⟩, rfl⟩ := hb
  simp [hi]

/-- a dataset's batches are its flat sequence cut by its partitioning -/
theorem batches_eq_split (batches : List (List α)) :
    splitBySizes batches.flatten (batches.map List.length) = batches := by
  induction batches with
  | nil => simp [splitBySizes]
  | cons b bs ih => simp [splitBySizes, ih]

end SharkVerif.Dataset
