/-
C17: Cauchy–Schwarz in feature space for the kernels the LC/KHC-tree check uses.

`KernelCS k dim` is the only property of the kernel the admissibility proof of the LC/KHC lower bounds
(`Lemmas/PivTree.lean`) needs.  It is proved here for the Euclidean inner product (`dot`, the LC-tree and
the KHC-tree with a linear kernel) and for `PolynomialKernel(2, 1)` (via the explicit feature map
`x ↦ (x ++ [1]) ⊗ (x ++ [1])`).
-/
import SharkVerif.Model.NN
import Mathlib.Tactic.Linarith
import Mathlib.Tactic.Ring
import Mathlib.Algebra.Order.Field.Rat
namespace SharkVerif.NN

/-- Cauchy–Schwarz of the feature-space inner product on points of length `dim`:
`<phi a - phi b, phi c - phi d>^2 ≤ |phi a - phi b|^2 |phi c - phi d|^2` -/
def KernelCS (k : Point → Point → Rat) (dim : Nat) : Prop :=
  ∀ a b c d : Point, a.length = dim → b.length = dim → c.length = dim → d.length = dim →
    (k a c - k a d - k b c + k b d) * (k a c - k a d - k b c + k b d) ≤ featureDist2 k a b * featureDist2 k c d

/-! ## `dot` -/

@[simp] theorem dot_nil_left (v : List Rat) : dot [] v = 0 := by simp [dot]

@[simp] theorem dot_nil_right (u : List Rat) : dot u [] = 0 := by cases u <;> simp [dot]

@[simp] theorem dot_cons (a b : Rat) (u v : List Rat) : dot (a :: u) (b :: v) = a * b + dot u v := by
  simp [dot]

/-- symmetry -/
theorem dot_comm : ∀ (u v : List Rat), dot u v = dot v u
  | [], v => by simp
  | _ :: _, [] => by simp
  | a :: u, b :: v => by simp [dot_comm u v, mul_comm]

/-- the quadratic form `|s u + t v|^2` is a sum of squares -/
theorem dot_quadform : ∀ (u v : List Rat) (s t : Rat), u.length = v.length →
    0 ≤ s * s * dot u u + 2 * s * t * dot u v + t * t * dot v v
  | [], [], s, t, _ => by simp
  | [], _ :: _, _, _, h => by simp at h
  | _ :: _, [], _, _, h => by simp at h
  | a :: u, b :: v, s, t, h => by
    have ih := dot_quadform u v s t (by simpa using h)
    simp only [dot_cons]
    nlinarith [mul_self_nonneg (s * a + t * b)]

theorem dot_self_nonneg : ∀ (u : List Rat), 0 ≤ dot u u
  | [] => by simp
  | a :: u => by
    have := dot_self_nonneg u
    simp only [dot_cons]
    nlinarith [mul_self_nonneg a]

/-- **Cauchy–Schwarz** for `dot` -/
theorem dot_cs (u v : List Rat) (h : u.length = v.length) : dot u v * dot u v ≤ dot u u * dot v v := by
  have hA := dot_self_nonneg u
  have hC := dot_self_nonneg v
  rcases hC.lt_or_eq with hC | hC
  · have q := dot_quadform u v (dot v v) (-(dot u v)) h
    have q' : 0 ≤ dot v v * (dot u u * dot v v - dot u v * dot u v) := by nlinarith
    by_contra hn
    have hn' : dot u u * dot v v - dot u v * dot u v < 0 := by linarith
    have := mul_neg_of_pos_of_neg hC hn'
    linarith
  · have q := dot_quadform u v (dot u v) (-(dot u u + 1)) h
    rw [← hC] at q ⊢
    have := mul_nonneg (mul_self_nonneg (dot u v)) hA
    nlinarith

/-! ## Bilinearity with an explicit difference vector -/

/-- componentwise difference -/
def vsub (a b : List Rat) : List Rat := List.zipWith (· - ·) a b

@[simp] theorem vsub_nil_left (b : List Rat) : vsub [] b = [] := by simp [vsub]
@[simp] theorem vsub_nil_right (a : List Rat) : vsub a [] = [] := by simp [vsub]
@[simp] theorem vsub_cons (x y : Rat) (a b : List Rat) : vsub (x :: a) (y :: b) = (x - y) :: vsub a b := by
  simp [vsub]

theorem vsub_length (a b : List Rat) (h : a.length = b.length) : (vsub a b).length = a.length := by
  simp [vsub, h]

theorem dot_vsub : ∀ (a b c d : List Rat), a.length = b.length → a.length = c.length → a.length = d.length →
    dot (vsub a b) (vsub c d) = dot a c - dot a d - dot b c + dot b d
  | [], b, _, _, h, _, _ => by
    have hb : b = [] := List.length_eq_zero_iff.mp (by simpa using h.symm)
    subst hb
    simp
  | _ :: _, [], _, _, h, _, _ => by simp at h
  | _ :: _, _ :: _, [], _, _, h, _ => by simp at h
  | _ :: _, _ :: _, _ :: _, [], _, _, h => by simp at h
  | x :: a, y :: b, z :: c, w :: d, h1, h2, h3 => by
    have ih := dot_vsub a b c d (by simpa using h1) (by simpa using h2) (by simpa using h3)
    simp only [vsub_cons, dot_cons, ih]
    ring

theorem dot_vsub_self (a b : List Rat) (h : a.length = b.length) :
    dot (vsub a b) (vsub a b) = featureDist2 dot a b := by
  rw [dot_vsub a b a b h rfl h, featureDist2, dot_comm b a]
  ring

/-! ## Kernels given by a feature map -/

/-- A kernel that is the inner product of feature vectors of one fixed length satisfies Cauchy–Schwarz. -/
theorem kernelCS_of_feat {k : Point → Point → Rat} {dim m : Nat} (f : Point → List Rat)
    (hk : ∀ x y : Point, x.length = dim → y.length = dim → k x y = dot (f x) (f y))
    (hl : ∀ x : Point, x.length = dim → (f x).length = m) : KernelCS k dim := by
  intro a b c d ha hb hc hd
  have lab : (f a).length = (f b).length := by rw [hl a ha, hl b hb]
  have lac : (f a).length = (f c).length := by rw [hl a ha, hl c hc]
  have lad : (f a).length = (f d).length := by rw [hl a ha, hl d hd]
  have lcd : (f c).length = (f d).length := by rw [hl c hc, hl d hd]
  have e1 : k a c - k a d - k b c + k b d = dot (vsub (f a) (f b)) (vsub (f c) (f d)) := by
    rw [dot_vsub _ _ _ _ lab lac lad, hk a c ha hc, hk a d ha hd, hk b c hb hc, hk b d hb hd]
  have e2 : featureDist2 k a b = dot (vsub (f a) (f b)) (vsub (f a) (f b)) := by
    rw [dot_vsub_self _ _ lab, featureDist2, featureDist2, hk a a ha ha, hk a b ha hb, hk b b hb hb]
  have e3 : featureDist2 k c d = dot (vsub (f c) (f d)) (vsub (f c) (f d)) := by
    rw [dot_vsub_self _ _ lcd, featureDist2, featureDist2, hk c c hc hc, hk c d hc hd, hk d d hd hd]
  rw [e1, e2, e3]
  apply dot_cs
  rw [vsub_length _ _ lab, vsub_length _ _ lcd, lac]

/-- the feature-space distance of such a kernel is a sum of squares -/
theorem featureDist2_nonneg_of_feat {k : Point → Point → Rat} {dim m : Nat} (f : Point → List Rat)
    (hk : ∀ x y : Point, x.length = dim → y.length = dim → k x y = dot (f x) (f y))
    (hl : ∀ x : Point, x.length = dim → (f x).length = m) (a b : Point) (ha : a.length = dim)
    (hb : b.length = dim) : 0 ≤ featureDist2 k a b := by
  have lab : (f a).length = (f b).length := by rw [hl a ha, hl b hb]
  have e2 : featureDist2 k a b = dot (vsub (f a) (f b)) (vsub (f a) (f b)) := by
    rw [dot_vsub_self _ _ lab, featureDist2, featureDist2, hk a a ha ha, hk a b ha hb, hk b b hb hb]
  rw [e2]
  exact dot_self_nonneg _

/-- **Cauchy–Schwarz for the Euclidean inner product** (LC-tree; KHC-tree with `LinearKernel`) -/
theorem kernelCS_dot (dim : Nat) : KernelCS dot dim :=
  kernelCS_of_feat (m := dim) (fun x => x) (fun _ _ _ _ => rfl) (fun _ h => h)

theorem featureDist2_dot_nonneg (a b : Point) (h : a.length = b.length) : 0 ≤ featureDist2 dot a b :=
  featureDist2_nonneg_of_feat (k := dot) (dim := b.length) (m := b.length) (fun x => x)
    (fun _ _ _ _ => rfl) (fun _ h => h) a b h rfl

/-- for `dot`, `featureDist2` is the squared Euclidean distance -/
theorem featureDist2_dot_eq_dist2 : ∀ (a b : Point), a.length = b.length → featureDist2 dot a b = dist2 a b
  | [], [], _ => by simp [featureDist2, dist2]
  | [], _ :: _, h => by simp at h
  | _ :: _, [], h => by simp at h
  | x :: a, y :: b, h => by
    have ih := featureDist2_dot_eq_dist2 a b (by simpa using h)
    simp only [featureDist2, dot_cons, dist2] at ih ⊢
    rw [← ih]
    ring

/-! ## `PolynomialKernel(2, 1)`: the feature map `x ↦ (x ++ [1]) ⊗ (x ++ [1])` -/

theorem dot_append : ∀ (l1 l2 r1 r2 : List Rat), l1.length = l2.length →
    dot (l1 ++ r1) (l2 ++ r2) = dot l1 l2 + dot r1 r2
  | [], [], _, _, _ => by simp
  | [], _ :: _, _, _, h => by simp at h
  | _ :: _, [], _, _, h => by simp at h
  | a :: l1, b :: l2, r1, r2, h => by
    have ih := dot_append l1 l2 r1 r2 (by simpa using h)
    simp only [List.cons_append, dot_cons, ih]
    ring

theorem dot_map_mul (a b : Rat) : ∀ (w w' : List Rat),
    dot (w.map fun x => a * x) (w'.map fun x => b * x) = a * b * dot w w'
  | [], _ => by simp
  | _ :: _, [] => by simp
  | x :: w, y :: w' => by
    simp only [List.map_cons, dot_cons, dot_map_mul a b w w']
    ring

/-- the inner product of two Kronecker products is the product of the inner products -/
theorem dot_kron (w w' : List Rat) (hw : w.length = w'.length) : ∀ (u v : List Rat), u.length = v.length →
    dot (u.flatMap fun a => w.map fun x => a * x) (v.flatMap fun b => w'.map fun x => b * x) =
      dot u v * dot w w'
  | [], [], _ => by simp
  | [], _ :: _, h => by simp at h
  | _ :: _, [], h => by simp at h
  | a :: u, b :: v, h => by
    have ih := dot_kron w w' hw u v (by simpa using h)
    simp only [List.flatMap_cons, dot_cons]
    rw [dot_append _ _ _ _ (by simp [hw]), dot_map_mul, ih]
    ring

theorem kron_length (w : List Rat) : ∀ (u : List Rat),
    (u.flatMap fun a => w.map fun x => a * x).length = u.length * w.length
  | [] => by simp
  | a :: u => by
    simp only [List.flatMap_cons, List.length_append, List.length_map, kron_length w u, List.length_cons]
    ring

/-- `z ⊗ z` as a list of length `|z|^2` -/
def tensor (z : List Rat) : List Rat := z.flatMap fun a => z.map fun b => a * b

theorem dot_tensor (u v : List Rat) (h : u.length = v.length) :
    dot (tensor u) (tensor v) = dot u v * dot u v :=
  dot_kron u v h u v h

theorem tensor_length (z : List Rat) : (tensor z).length = z.length * z.length := kron_length z z

/-- the feature map of `PolynomialKernel(2, 1)` -/
def feat21 (x : Point) : List Rat := tensor (x ++ [1])

theorem dot_snoc_one (x y : List Rat) (h : x.length = y.length) : dot (x ++ [1]) (y ++ [1]) = dot x y + 1 := by
  rw [dot_append _ _ _ _ h]
  simp

theorem polyKernel21_eq_feat (x y : Point) (h : x.length = y.length) :
    polyKernel 2 1 x y = dot (feat21 x) (feat21 y) := by
  rw [feat21, feat21, dot_tensor _ _ (by simp [h]), dot_snoc_one _ _ h, polyKernel]
  ring

theorem feat21_length (x : Point) : (feat21 x).length = (x.length + 1) * (x.length + 1) := by
  simp [feat21, tensor_length]

/-- **Cauchy–Schwarz for `PolynomialKernel(2, 1)`** (the kernel of the KHC-tree check) -/
theorem kernelCS_poly21 (dim : Nat) : KernelCS (polyKernel 2 1) dim :=
  kernelCS_of_feat (m := (dim + 1) * (dim + 1)) feat21
    (fun x y hx hy => polyKernel21_eq_feat x y (by rw [hx, hy]))
    (fun x hx => by rw [feat21_length, hx])

theorem featureDist2_poly21_nonneg (a b : Point) (h : a.length = b.length) :
    0 ≤ featureDist2 (polyKernel 2 1) a b :=
  featureDist2_nonneg_of_feat (dim := b.length) (m := (b.length + 1) * (b.length + 1)) feat21
    (fun x y hx hy => polyKernel21_eq_feat x y (by rw [hx, hy]))
    (fun x hx => by rw [feat21_length, hx]) a b h rfl

end SharkVerif.NN
