/-
Helper lemmas for property C17 (model: `SharkVerif/Model/NN.lean`).
Core Lean only.
-/
import SharkVerif.Model.NN
namespace SharkVerif.NN

/-! ## Hypotheses and invariants -/

/-- all point indices held by the leaves of a queue -/
def qpts (q : List Leaf) : List Nat := q.flatMap (·.pts)

/-- admissibility of the lower bounds: the bound stored at a node does not exceed
the (squared) distance of any point below the node -/
def LbAdm (dist : Nat → Rat) : TTree → Prop
  | .leaf _ lb lf => ∀ p ∈ lf.pts, lb ≤ dist p
  | .node _ lb _ l r => (∀ p ∈ l.pts ++ r.pts, lb ≤ dist p) ∧ LbAdm dist l ∧ LbAdm dist r

/-- `LeafUniform`: every point of a leaf has the distance stored at the leaf
(which the C++ computes from the leaf's FIRST point, see `leafD`): all points of
a leaf are copies of one point. -/
def LeafUniform (dist : Nat → Rat) : TTree → Prop
  | .leaf _ _ lf => ∀ p ∈ lf.pts, dist p = lf.d
  | .node _ _ _ l r => LeafUniform dist l ∧ LeafUniform dist r

/-- no leaf is empty -/
def LeavesNonempty : TTree → Prop
  | .leaf _ _ lf => lf.pts ≠ []
  | .node _ _ _ l r => LeavesNonempty l ∧ LeavesNonempty r

/-- status invariant: a COMPLETE inner node has two COMPLETE children -/
def Inv : TTree → Prop
  | .leaf _ _ _ => True
  | .node st _ _ l r => (st = .done → l.status = .done ∧ r.status = .done) ∧ Inv l ∧ Inv r

/-- the trace tree before the query starts -/
def Fresh : TTree → Prop
  | .leaf q _ _ => q = false
  | .node st _ _ l r => st = .unq ∧ Fresh l ∧ Fresh r

/-- every queued leaf carries the true distance of all its points and is non-empty -/
def QTrue (dist : Nat → Rat) (q : List Leaf) : Prop :=
  ∀ lf ∈ q, lf.pts ≠ [] ∧ ∀ p ∈ lf.pts, dist p = lf.d

theorem inv_done_unq : ∀ (t : TTree), Inv t → t.status = .done → t.unq = []
  | .leaf q lb lf, _, h => by
    cases q <;> simp_all [TTree.status, TTree.unq]
  | .node st lb gl l r, hi, h => by
    simp only [TTree.status] at h
    obtain ⟨h1, hl, hr⟩ := hi
    obtain ⟨a, b⟩ := h1 h
    simp [TTree.unq, inv_done_unq l hl a, inv_done_unq r hr b]

theorem fresh_inv : ∀ (t : TTree), Fresh t → Inv t
  | .leaf _ _ _, _ => trivial
  | .node st lb gl l r, h => by
    obtain ⟨h1, hl, hr⟩ := h
    exact ⟨by simp [h1], fresh_inv l hl, fresh_inv r hr⟩

theorem fresh_unq : ∀ (t : TTree), Fresh t → t.unq = t.pts
  | .leaf q _ _, h => by simp_all [Fresh, TTree.unq, TTree.pts]
  | .node st lb gl l r, h => by
    obtain ⟨_, hl, hr⟩ := h
    simp [TTree.unq, TTree.pts, fresh_unq l hl, fresh_unq r hr]

/-! ## The queue -/

theorem extractMin_none {q : List Leaf} : extractMin q = none ↔ q = [] := by
  cases q with
  | nil => simp [extractMin]
  | cons x xs =>
    simp only [extractMin]
    cases h : extractMin xs with
    | none => simp
    | some p => obtain ⟨m, rest⟩ := p; by_cases c : Leaf.lt m x <;> simp [c]

theorem extractMin_perm : ∀ {q : List Leaf} {m : Leaf} {rest : List Leaf},
    extractMin q = some (m, rest) → (m :: rest).Perm q
  | [], _, _, h => by simp [extractMin] at h
  | x :: xs, m, rest, h => by
    simp only [extractMin] at h
    cases hx : extractMin xs with
    | none =>
      rw [hx] at h
      simp at h
      obtain ⟨rfl, rfl⟩ := h
      have : xs = [] := extractMin_none.mp hx
      subst this; exact List.Perm.refl _
    | some p =>
      obtain ⟨m', rest'⟩ := p
      rw [hx] at h
      have ih := extractMin_perm hx
      by_cases c : Leaf.lt m' x
      · simp [c] at h
        obtain ⟨rfl, rfl⟩ := h
        exact (List.Perm.swap x m' rest').trans (List.Perm.cons x ih)
      · simp [c] at h
        obtain ⟨rfl, rfl⟩ := h
        exact List.Perm.refl _

theorem lt_false_le {a b : Leaf} (h : Leaf.lt a b = false) : b.d ≤ a.d := by
  unfold Leaf.lt at h
  by_cases c : a.d = b.d
  · grind
  · simp [c] at h; grind

theorem lt_true_le {a b : Leaf} (h : Leaf.lt a b = true) : a.d ≤ b.d := by
  unfold Leaf.lt at h
  by_cases c : a.d = b.d
  · grind
  · simp [c] at h; grind

/-- the extracted element is a minimum of the queue -/
theorem extractMin_min : ∀ {q : List Leaf} {m : Leaf} {rest : List Leaf},
    extractMin q = some (m, rest) → ∀ e ∈ q, m.d ≤ e.d
  | [], _, _, h => by simp [extractMin] at h
  | x :: xs, m, rest, h => by
    simp only [extractMin] at h
    cases hx : extractMin xs with
    | none =>
      rw [hx] at h
      simp at h
      obtain ⟨rfl, rfl⟩ := h
      have : xs = [] := extractMin_none.mp hx
      subst this
      intro e he; simp at he; subst he; exact Rat.le_refl
    | some p =>
      obtain ⟨m', rest'⟩ := p
      rw [hx] at h
      have ih := extractMin_min hx
      by_cases c : Leaf.lt m' x
      · simp [c] at h
        obtain ⟨rfl, rfl⟩ := h
        intro e he
        rcases List.mem_cons.mp he with rfl | he
        · exact lt_true_le c
        · exact ih e he
      · simp [c] at h
        obtain ⟨rfl, rfl⟩ := h
        have c' : Leaf.lt m' x = false := by simpa using c
        intro e he
        rcases List.mem_cons.mp he with rfl | he
        · exact Rat.le_refl
        · exact Rat.le_trans (lt_false_le c') (ih e he)

theorem front_some {q : List Leaf} {f : Leaf} (h : front q = some f) :
    ∃ rest, extractMin q = some (f, rest) := by
  unfold front at h
  cases hx : extractMin q with
  | none => simp [hx] at h
  | some p => obtain ⟨m, rest⟩ := p; simp [hx] at h; subst h; exact ⟨rest, rfl⟩

theorem front_mem {q : List Leaf} {f : Leaf} (h : front q = some f) : f ∈ q := by
  obtain ⟨rest, hx⟩ := front_some h
  exact (extractMin_perm hx).subset (List.mem_cons_self ..)

theorem front_min {q : List Leaf} {f : Leaf} (h : front q = some f) : ∀ e ∈ q, f.d ≤ e.d := by
  obtain ⟨rest, hx⟩ := front_some h
  exact extractMin_min hx

theorem front_none {q : List Leaf} : front q = none ↔ q = [] := by
  unfold front
  cases hx : extractMin q with
  | none => simpa using extractMin_none.mp hx
  | some p =>
    simp
    intro hq; rw [hq] at hx; simp [extractMin] at hx

/-- the front of a grown queue is not farther than the old front -/
theorem front_mono {q ins : List Leaf} {f f' : Leaf} (h : front q = some f)
    (h' : front (ins ++ q) = some f') : f'.d ≤ f.d :=
  front_min h' f (List.mem_append_right _ (front_mem h))

theorem qpts_append (a b : List Leaf) : qpts (a ++ b) = qpts a ++ qpts b := by
  simp [qpts]

theorem qpts_cons (a : Leaf) (b : List Leaf) : qpts (a :: b) = a.pts ++ qpts b := by
  simp [qpts]

theorem qpts_perm {a b : List Leaf} (h : a.Perm b) : (qpts a).Perm (qpts b) := by
  unfold qpts
  exact h.flatMap_right _

theorem mem_qpts {q : List Leaf} {p : Nat} : p ∈ qpts q ↔ ∃ lf ∈ q, p ∈ lf.pts := by
  simp [qpts]

/-! ## `rule` -/

theorem rule_done {st sib st' : Status} {x : Bool} (h : rule st sib = (st', x)) :
    (st' = .done → (st = .done ∨ sib = .done)) ∧ (x = true → st' = .done) := by
  unfold rule at h
  cases st <;> simp at h
  · obtain ⟨rfl, rfl⟩ := h; simp
  · by_cases c : sib = .done
    · simp [c] at h; obtain ⟨rfl, rfl⟩ := h; simp [c]
    · simp [c] at h; obtain ⟨rfl, rfl⟩ := h; simp
  · obtain ⟨rfl, rfl⟩ := h; simp

/-! ## Unfolding `enqueue` -/

theorem enqueue_done (lb : Rat) (gl : Bool) (l r : TTree) (q : List Leaf) :
    enqueue (.node .done lb gl l r) q = (.node .done lb gl l r, q, false) := by
  simp [enqueue]

theorem enqueue_pruned {st : Status} (lb : Rat) (gl : Bool) (l r : TTree) {q : List Leaf}
    (hp : prune q lb = true) :
    enqueue (.node st lb gl l r) q = (.node st lb gl l r, q, false) := by
  by_cases h : st = .done <;> simp [enqueue, h, hp]

theorem enqueue_left {st : Status} (lb : Rat) (l r : TTree) {q : List Leaf}
    (hst : st ≠ .done) (hp : prune q lb = false) :
    enqueue (.node st lb true l r) q =
      let r1 := enqueue l q
      let s1 := if r1.2.2 then rule st r.status else (st, false)
      let r2 := enqueue r r1.2.1
      let s2 := if r2.2.2 then rule s1.1 r1.1.status else (s1.1, false)
      (.node s2.1 lb true r1.1 r2.1, r2.2.1, s1.2 || s2.2) := by
  simp [enqueue, hst, hp]

theorem enqueue_right {st : Status} (lb : Rat) (l r : TTree) {q : List Leaf}
    (hst : st ≠ .done) (hp : prune q lb = false) :
    enqueue (.node st lb false l r) q =
      let r1 := enqueue r q
      let s1 := if r1.2.2 then rule st l.status else (st, false)
      let r2 := enqueue l r1.2.1
      let s2 := if r2.2.2 then rule s1.1 r1.1.status else (s1.1, false)
      (.node s2.1 lb false r2.1 r1.1, r2.2.1, s1.2 || s2.2) := by
  simp [enqueue, hst, hp]

end SharkVerif.NN
