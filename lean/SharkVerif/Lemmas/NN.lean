/-
Helper lemmas for property C17 (model: `SharkVerif/Model/NN.lean`).
Core Lean only.
-/
import SharkVerif.Model.NN
namespace SharkVerif.NN

/-! ## Hypotheses and invariants -/

/-- admissibility of the lower bounds: the bound stored at a node does not exceed
the (squared) distance of any point below the node -/
def LbAdm (dist : Nat → Rat) : TTree → Prop
  | .leaf _ lb es => ∀ p ∈ qpts es, lb ≤ dist p
  | .node _ lb _ l r => (∀ p ∈ l.pts ++ r.pts, lb ≤ dist p) ∧ LbAdm dist l ∧ LbAdm dist r

/-- `LeafUniform`: every point of a queue entry has the distance stored in the entry.
For the leaf queue of the C++ as it is (one entry per leaf, distance of the leaf's FIRST point, see
`leafEntries false`) this says that all points of a leaf are copies of one point; for the point
queue (`leafEntries true`) it holds by construction. -/
def LeafUniform (dist : Nat → Rat) : TTree → Prop
  | .leaf _ _ es => ∀ e ∈ es, ∀ p ∈ e.pts, dist p = e.d
  | .node _ _ _ l r => LeafUniform dist l ∧ LeafUniform dist r

/-- no leaf is empty -/
def LeavesNonempty : TTree → Prop
  | .leaf _ _ es => es ≠ [] ∧ ∀ e ∈ es, e.pts ≠ []
  | .node _ _ _ l r => LeavesNonempty l ∧ LeavesNonempty r

/-- status invariant: a COMPLETE inner node has two COMPLETE children -/
def Inv : TTree → Prop
  | .leaf _ _ _ => True
  | .node st _ _ l r => (st = .done → l.status = .done ∧ r.status = .done) ∧ Inv l ∧ Inv r

/-- the trace tree before the query starts -/
def Fresh : TTree → Prop
  | .leaf q _ _ => q = false
  | .node st _ _ l r => st = .unq ∧ Fresh l ∧ Fresh r

/-- every queued leaf carries the true distance of all its points and is non-empty -/
def QTrue (dist : Nat → Rat) (q : List Leaf) : Prop :=
  ∀ lf ∈ q, lf.pts ≠ [] ∧ ∀ p ∈ lf.pts, dist p = lf.d

theorem inv_done_unq : ∀ (t : TTree), Inv t → t.status = .done → t.unq = []
  | .leaf q lb lf, _, h => by
    cases q <;> simp_all [TTree.status, TTree.unq]
  | .node st lb gl l r, hi, h => by
    simp only [TTree.status] at h
    obtain ⟨h1, hl, hr⟩ := hi
    obtain ⟨a, b⟩ := h1 h
    simp [TTree.unq, inv_done_unq l hl a, inv_done_unq r hr b]

theorem fresh_inv : ∀ (t : TTree), Fresh t → Inv t
  | .leaf _ _ _, _ => trivial
  | .node st lb gl l r, h => by
    obtain ⟨h1, hl, hr⟩ := h
    exact ⟨by simp [h1], fresh_inv l hl, fresh_inv r hr⟩

theorem fresh_unq : ∀ (t : TTree), Fresh t → t.unq = t.pts
  | .leaf q _ _, h => by simp_all [Fresh, TTree.unq, TTree.pts]
  | .node st lb gl l r, h => by
    obtain ⟨_, hl, hr⟩ := h
    simp [TTree.unq, TTree.pts, fresh_unq l hl, fresh_unq r hr]

/-! ## The queue -/

theorem extractMin_none {q : List Leaf} : extractMin q = none ↔ q = [] := by
  cases q with
  | nil => simp [extractMin]
  | cons x xs =>
    simp only [extractMin]
    cases h : extractMin xs with
    | none => simp
    | some p => obtain ⟨m, rest⟩ := p; by_cases c : Leaf.lt m x <;> simp [c]

theorem extractMin_perm : ∀ {q : List Leaf} {m : Leaf} {rest : List Leaf},
    extractMin q = some (m, rest) → (m :: rest).Perm q
  | [], _, _, h => by simp [extractMin] at h
  | x :: xs, m, rest, h => by
    simp only [extractMin] at h
    cases hx : extractMin xs with
    | none =>
      rw [hx] at h
      simp at h
      obtain ⟨rfl, rfl⟩ := h
      have : xs = [] := extractMin_none.mp hx
      subst this; exact List.Perm.refl _
    | some p =>
      obtain ⟨m', rest'⟩ := p
      rw [hx] at h
      have ih := extractMin_perm hx
      by_cases c : Leaf.lt m' x
      · simp [c] at h
        obtain ⟨rfl, rfl⟩ := h
        exact (List.Perm.swap x m' rest').trans (List.Perm.cons x ih)
      · simp [c] at h
        obtain ⟨rfl, rfl⟩ := h
        exact List.Perm.refl _

theorem lt_false_le {a b : Leaf} (h : Leaf.lt a b = false) : b.d ≤ a.d := by
  unfold Leaf.lt at h
  by_cases c : a.d = b.d
  · grind
  · simp [c] at h; grind

theorem lt_true_le {a b : Leaf} (h : Leaf.lt a b = true) : a.d ≤ b.d := by
  unfold Leaf.lt at h
  by_cases c : a.d = b.d
  · grind
  · simp [c] at h; grind

/-- the extracted element is a minimum of the queue -/
theorem extractMin_min : ∀ {q : List Leaf} {m : Leaf} {rest : List Leaf},
    extractMin q = some (m, rest) → ∀ e ∈ q, m.d ≤ e.d
  | [], _, _, h => by simp [extractMin] at h
  | x :: xs, m, rest, h => by
    simp only [extractMin] at h
    cases hx : extractMin xs with
    | none =>
      rw [hx] at h
      simp at h
      obtain ⟨rfl, rfl⟩ := h
      have : xs = [] := extractMin_none.mp hx
      subst this
      intro e he; simp at he; subst he; exact Rat.le_refl
    | some p =>
      obtain ⟨m', rest'⟩ := p
      rw [hx] at h
      have ih := extractMin_min hx
      by_cases c : Leaf.lt m' x
      · simp [c] at h
        obtain ⟨rfl, rfl⟩ := h
        intro e he
        rcases List.mem_cons.mp he with rfl | he
        · exact lt_true_le c
        · exact ih e he
      · simp [c] at h
        obtain ⟨rfl, rfl⟩ := h
        have c' : Leaf.lt m' x = false := by simpa using c
        intro e he
        rcases List.mem_cons.mp he with rfl | he
        · exact Rat.le_refl
        · exact Rat.le_trans (lt_false_le c') (ih e he)

theorem front_some {q : List Leaf} {f : Leaf} (h : front q = some f) :
    ∃ rest, extractMin q = some (f, rest) := by
  unfold front at h
  cases hx : extractMin q with
  | none => simp [hx] at h
  | some p => obtain ⟨m, rest⟩ := p; simp [hx] at h; subst h; exact ⟨rest, rfl⟩

theorem front_mem {q : List Leaf} {f : Leaf} (h : front q = some f) : f ∈ q := by
  obtain ⟨rest, hx⟩ := front_some h
  exact (extractMin_perm hx).subset (List.mem_cons_self ..)

theorem front_min {q : List Leaf} {f : Leaf} (h : front q = some f) : ∀ e ∈ q, f.d ≤ e.d := by
  obtain ⟨rest, hx⟩ := front_some h
  exact extractMin_min hx

theorem front_none {q : List Leaf} : front q = none ↔ q = [] := by
  unfold front
  cases hx : extractMin q with
  | none => simpa using extractMin_none.mp hx
  | some p =>
    simp
    intro hq; rw [hq] at hx; simp [extractMin] at hx

/-- the front of a grown queue is not farther than the old front -/
theorem front_mono {q ins : List Leaf} {f f' : Leaf} (h : front q = some f)
    (h' : front (ins ++ q) = some f') : f'.d ≤ f.d :=
  front_min h' f (List.mem_append_right _ (front_mem h))

theorem qpts_append (a b : List Leaf) : qpts (a ++ b) = qpts a ++ qpts b := by
  simp [qpts]

theorem qpts_cons (a : Leaf) (b : List Leaf) : qpts (a :: b) = a.pts ++ qpts b := by
  simp [qpts]

theorem qpts_perm {a b : List Leaf} (h : a.Perm b) : (qpts a).Perm (qpts b) := by
  unfold qpts
  exact h.flatMap_right _

theorem mem_qpts {q : List Leaf} {p : Nat} : p ∈ qpts q ↔ ∃ lf ∈ q, p ∈ lf.pts := by
  simp [qpts]

/-! ## `rule` -/

theorem rule_done {st sib st' : Status} {x : Bool} (h : rule st sib = (st', x)) :
    (st' = .done → (st = .done ∨ sib = .done)) ∧ (x = true → st' = .done) := by
  unfold rule at h
  cases st <;> simp at h
  · obtain ⟨rfl, rfl⟩ := h; simp
  · by_cases c : sib = .done
    · simp [c] at h; obtain ⟨rfl, rfl⟩ := h; simp [c]
    · simp [c] at h; obtain ⟨rfl, rfl⟩ := h; simp
  · obtain ⟨rfl, rfl⟩ := h; simp

/-! ## Unfolding `enqueue` -/

theorem enqueue_done (lb : Rat) (gl : Bool) (l r : TTree) (q : List Leaf) :
    enqueue (.node .done lb gl l r) q = (.node .done lb gl l r, q, false) := by
  simp [enqueue]

theorem enqueue_pruned {st : Status} (lb : Rat) (gl : Bool) (l r : TTree) {q : List Leaf}
    (hp : prune q lb = true) :
    enqueue (.node st lb gl l r) q = (.node st lb gl l r, q, false) := by
  by_cases h : st = .done <;> simp [enqueue, h, hp]

theorem enqueue_left {st : Status} (lb : Rat) (l r : TTree) {q : List Leaf}
    (hst : st ≠ .done) (hp : prune q lb = false) :
    enqueue (.node st lb true l r) q =
      let r1 := enqueue l q
      let s1 := if r1.2.2 then rule st r.status else (st, false)
      let r2 := enqueue r r1.2.1
      let s2 := if r2.2.2 then rule s1.1 r1.1.status else (s1.1, false)
      (.node s2.1 lb true r1.1 r2.1, r2.2.1, s1.2 || s2.2) := by
  simp [enqueue, hst, hp]

theorem enqueue_right {st : Status} (lb : Rat) (l r : TTree) {q : List Leaf}
    (hst : st ≠ .done) (hp : prune q lb = false) :
    enqueue (.node st lb false l r) q =
      let r1 := enqueue r q
      let s1 := if r1.2.2 then rule st l.status else (st, false)
      let r2 := enqueue l r1.2.1
      let s2 := if r2.2.2 then rule s1.1 r1.1.status else (s1.1, false)
      (.node s2.1 lb false r2.1 r1.1, r2.2.1, s1.2 || s2.2) := by
  simp [enqueue, hst, hp]

/-! ## What `enqueue` does -/

/-- the facts about one `enqueue` call that need no hypothesis on the bounds -/
structure EnqSpec (dist : Nat → Rat) (t : TTree) (q : List Leaf) (t' : TTree) (q' : List Leaf)
    (e : Bool) : Prop where
  pts : t'.pts = t.pts
  lb : t'.lb = t.lb
  lbadm : LbAdm dist t → LbAdm dist t'
  unif : LeafUniform dist t → LeafUniform dist t'
  nonempty : LeavesNonempty t → LeavesNonempty t'
  grow : ∃ ins, q' = ins ++ q
  perm : (qpts q' ++ t'.unq).Perm (qpts q ++ t.unq)
  inv : Inv t → Inv t' ∧ (e = true → t'.status = .done)
  qtrue : LeafUniform dist t → LeavesNonempty t → QTrue dist q → QTrue dist q'

theorem EnqSpec.refl (dist : Nat → Rat) (t : TTree) (q : List Leaf) : EnqSpec dist t q t q false :=
  { pts := rfl, lb := rfl, lbadm := id, unif := id, nonempty := id, grow := ⟨[], rfl⟩,
    perm := List.Perm.refl _, inv := fun h => ⟨h, by simp⟩, qtrue := fun _ _ h => h }

/-- reassembling a node from two processed children -/
theorem node_spec {dist : Nat → Rat} {st st2 : Status} {lb : Rat} {gl : Bool} {l r l' r' : TTree}
    {q q1 q2 : List Leaf} {e1 e2 x : Bool} {a b a' b' : TTree}
    (hab : (a = l ∧ b = r ∧ a' = l' ∧ b' = r') ∨ (a = r ∧ b = l ∧ a' = r' ∧ b' = l'))
    (h1 : EnqSpec dist a q a' q1 e1) (h2 : EnqSpec dist b q1 b' q2 e2)
    (hsx : Inv (.node st lb gl l r) →
      (st2 = .done → a'.status = .done ∧ b'.status = .done) ∧ (x = true → st2 = .done)) :
    EnqSpec dist (.node st lb gl l r) q (.node st2 lb gl l' r') q2 x := by
  have hpts : (TTree.node st2 lb gl l' r').pts = (TTree.node st lb gl l r).pts := by
    rcases hab with ⟨rfl, rfl, rfl, rfl⟩ | ⟨rfl, rfl, rfl, rfl⟩ <;> simp [TTree.pts, h1.pts, h2.pts]
  refine { pts := hpts, lb := rfl, lbadm := ?_, unif := ?_, nonempty := ?_, grow := ?_, perm := ?_,
           inv := ?_, qtrue := ?_ }
  · intro h
    obtain ⟨ha, hl, hr⟩ := h
    refine ⟨?_, ?_, ?_⟩
    · have : (l'.pts ++ r'.pts) = (l.pts ++ r.pts) := by simpa [TTree.pts] using hpts
      rw [this]; exact ha
    · rcases hab with ⟨rfl, rfl, rfl, rfl⟩ | ⟨rfl, rfl, rfl, rfl⟩
      · exact h1.lbadm hl
      · exact h2.lbadm hl
    · rcases hab with ⟨rfl, rfl, rfl, rfl⟩ | ⟨rfl, rfl, rfl, rfl⟩
      · exact h2.lbadm hr
      · exact h1.lbadm hr
  · intro h
    obtain ⟨hl, hr⟩ := h
    rcases hab with ⟨rfl, rfl, rfl, rfl⟩ | ⟨rfl, rfl, rfl, rfl⟩
    · exact ⟨h1.unif hl, h2.unif hr⟩
    · exact ⟨h2.unif hl, h1.unif hr⟩
  · intro h
    obtain ⟨hl, hr⟩ := h
    rcases hab with ⟨rfl, rfl, rfl, rfl⟩ | ⟨rfl, rfl, rfl, rfl⟩
    · exact ⟨h1.nonempty hl, h2.nonempty hr⟩
    · exact ⟨h2.nonempty hl, h1.nonempty hr⟩
  · obtain ⟨i1, rfl⟩ := h1.grow
    obtain ⟨i2, rfl⟩ := h2.grow
    exact ⟨i2 ++ i1, by simp⟩
  · -- points are conserved
    have p1 := h1.perm
    have p2 := h2.perm
    have key : (qpts q2 ++ (a'.unq ++ b'.unq)).Perm (qpts q ++ (a.unq ++ b.unq)) := by
      have s1 : (qpts q2 ++ (a'.unq ++ b'.unq)).Perm ((qpts q2 ++ b'.unq) ++ a'.unq) := by
        rw [List.append_assoc]
        exact List.Perm.append_left _ List.perm_append_comm
      have s2 : ((qpts q2 ++ b'.unq) ++ a'.unq).Perm ((qpts q1 ++ b.unq) ++ a'.unq) :=
        List.Perm.append_right _ p2
      have s3 : ((qpts q1 ++ b.unq) ++ a'.unq).Perm ((qpts q1 ++ a'.unq) ++ b.unq) := by
        rw [List.append_assoc, List.append_assoc]
        exact List.Perm.append_left _ List.perm_append_comm
      have s4 : ((qpts q1 ++ a'.unq) ++ b.unq).Perm ((qpts q ++ a.unq) ++ b.unq) :=
        List.Perm.append_right _ p1
      have s5 : ((qpts q ++ a.unq) ++ b.unq) = (qpts q ++ (a.unq ++ b.unq)) := by
        rw [List.append_assoc]
      exact (s1.trans (s2.trans (s3.trans s4))).trans (by rw [s5])
    rcases hab with ⟨rfl, rfl, rfl, rfl⟩ | ⟨rfl, rfl, rfl, rfl⟩
    · simpa [TTree.unq] using key
    · have c1 : (qpts q2 ++ (b'.unq ++ a'.unq)).Perm (qpts q2 ++ (a'.unq ++ b'.unq)) :=
        List.Perm.append_left _ List.perm_append_comm
      have c2 : (qpts q ++ (a.unq ++ b.unq)).Perm (qpts q ++ (b.unq ++ a.unq)) :=
        List.Perm.append_left _ List.perm_append_comm
      simpa [TTree.unq] using (c1.trans key).trans c2
  · intro h
    obtain ⟨hst, hx⟩ := hsx h
    obtain ⟨_, hl, hr⟩ := h
    refine ⟨⟨?_, ?_, ?_⟩, ?_⟩
    · intro hd
      rcases hab with ⟨rfl, rfl, rfl, rfl⟩ | ⟨rfl, rfl, rfl, rfl⟩
      · exact hst hd
      · exact ⟨(hst hd).2, (hst hd).1⟩
    · rcases hab with ⟨rfl, rfl, rfl, rfl⟩ | ⟨rfl, rfl, rfl, rfl⟩
      · exact (h1.inv hl).1
      · exact (h2.inv hl).1
    · rcases hab with ⟨rfl, rfl, rfl, rfl⟩ | ⟨rfl, rfl, rfl, rfl⟩
      · exact (h2.inv hr).1
      · exact (h1.inv hr).1
    · intro hxt; simpa [TTree.status] using hx hxt
  · intro hu hn hq
    obtain ⟨hul, hur⟩ := hu
    obtain ⟨hnl, hnr⟩ := hn
    rcases hab with ⟨rfl, rfl, rfl, rfl⟩ | ⟨rfl, rfl, rfl, rfl⟩
    · exact h2.qtrue hur hnr (h1.qtrue hul hnl hq)
    · exact h2.qtrue hul hnl (h1.qtrue hur hnr hq)

theorem enqueue_of_done : ∀ (t : TTree) (q : List Leaf), t.status = .done → enqueue t q = (t, q, false)
  | .leaf qd lb lf, q, h => by
    cases qd <;> simp_all [TTree.status, enqueue]
  | .node st lb gl l r, q, h => by
    simp only [TTree.status] at h
    subst h; exact enqueue_done ..

/-- the status bookkeeping of one inner node of `enqueue` -/
theorem status_calc (st sa' sb sb' : Status) (e1 e2 : Bool) (hst : st ≠ .done)
    (h1 : e1 = true → sa' = .done) (h2 : e2 = true → sb' = .done)
    (hmono : sb = .done → sb' = .done ∧ e2 = false) :
    let s1 := if e1 then rule st sb else (st, false)
    let s2 := if e2 then rule s1.1 sa' else (s1.1, false)
    (s2.1 = .done → sa' = .done ∧ sb' = .done) ∧ ((s1.2 || s2.2) = true → s2.1 = .done) := by
  cases st <;> cases e1 <;> cases e2 <;> by_cases hb : sb = .done <;> by_cases ha : sa' = .done <;>
    simp_all [rule]

theorem enqueue_spec (dist : Nat → Rat) : ∀ (t : TTree) (q : List Leaf),
    EnqSpec dist t q (enqueue t q).1 (enqueue t q).2.1 (enqueue t q).2.2
  | .leaf qd lb lf, q => by
    by_cases hq : qd = true
    · subst hq; simpa [enqueue] using EnqSpec.refl dist (.leaf true lb lf) q
    · have hq' : qd = false := by simpa using hq
      subst hq'
      by_cases hp : prune q lb = true
      · simpa [enqueue, hp] using EnqSpec.refl dist (.leaf false lb lf) q
      · simp only [enqueue, hp]
        simp only [Bool.false_eq_true, if_false]
        refine { pts := rfl, lb := rfl, lbadm := id, unif := id, nonempty := id, grow := ⟨lf, rfl⟩,
                 perm := ?_, inv := ?_, qtrue := ?_ }
        · simp only [qpts_append, TTree.unq, Bool.false_eq_true, if_false, if_true, List.append_nil]
          exact List.perm_append_comm
        · intro _; exact ⟨trivial, fun _ => by simp [TTree.status]⟩
        · intro hu hn hqt e he
          rcases List.mem_append.mp he with he | he
          · exact ⟨hn.2 e he, hu e he⟩
          · exact hqt e he
  | .node st lb gl l r, q => by
    by_cases hst : st = .done
    · subst hst; rw [enqueue_done]; exact EnqSpec.refl ..
    by_cases hp : prune q lb = true
    · rw [enqueue_pruned _ _ _ _ hp]; exact EnqSpec.refl ..
    have hp' : prune q lb = false := by simpa using hp
    cases gl with
    | true =>
      rw [enqueue_left lb l r hst hp']
      have h1 := enqueue_spec dist l q
      have h2 := enqueue_spec dist r (enqueue l q).2.1
      refine node_spec (Or.inl ⟨rfl, rfl, rfl, rfl⟩) h1 h2 ?_
      intro hinv
      obtain ⟨_, hl, hr⟩ := hinv
      exact status_calc st _ r.status _ _ _ hst (h1.inv hl).2 (h2.inv hr).2
        (fun hd => by rw [enqueue_of_done r _ hd]; exact ⟨hd, rfl⟩)
    | false =>
      rw [enqueue_right lb l r hst hp']
      have h1 := enqueue_spec dist r q
      have h2 := enqueue_spec dist l (enqueue r q).2.1
      refine node_spec (Or.inr ⟨rfl, rfl, rfl, rfl⟩) h1 h2 ?_
      intro hinv
      obtain ⟨_, hl, hr⟩ := hinv
      exact status_calc st _ l.status _ _ _ hst (h1.inv hr).2 (h2.inv hl).2
        (fun hd => by rw [enqueue_of_done l _ hd]; exact ⟨hd, rfl⟩)

theorem unq_subset_pts : ∀ (t : TTree), ∀ p ∈ t.unq, p ∈ t.pts
  | .leaf q lb lf => by
    intro p hp; cases q <;> simp_all [TTree.unq, TTree.pts]
  | .node st lb gl l r => by
    intro p hp
    simp only [TTree.unq, List.mem_append] at hp
    simp only [TTree.pts, List.mem_append]
    rcases hp with h | h
    · exact Or.inl (unq_subset_pts l p h)
    · exact Or.inr (unq_subset_pts r p h)

theorem prune_true {q : List Leaf} {lb : Rat} (h : prune q lb = true) :
    ∃ f, front q = some f ∧ f.d ≤ lb := by
  unfold prune at h
  cases hf : front q with
  | none => simp [hf] at h
  | some f => simp [hf] at h; exact ⟨f, rfl, h⟩

theorem lbadm_root {dist : Nat → Rat} : ∀ {t : TTree}, LbAdm dist t → ∀ p ∈ t.pts, t.lb ≤ dist p
  | .leaf _ _ _, h => by simpa [LbAdm, TTree.pts, TTree.lb] using h
  | .node _ _ _ _ _, h => by simpa [TTree.pts, TTree.lb] using h.1

/-- after `enqueue(tn)`, every point below `tn` that is still not queued is at
least as far as the front of the queue; if the queue is empty nothing is left -/
theorem enqueue_post (dist : Nat → Rat) : ∀ (t : TTree) (q : List Leaf), LbAdm dist t → Inv t →
    (∀ p ∈ (enqueue t q).1.unq, ∀ f, front (enqueue t q).2.1 = some f → f.d ≤ dist p) ∧
    ((enqueue t q).2.1 = [] → (enqueue t q).1.unq = [])
  | .leaf qd lb lf, q, hadm, _ => by
    cases qd with
    | true => simp [enqueue, TTree.unq]
    | false =>
      by_cases hp : prune q lb = true
      · obtain ⟨f0, hf0, hle⟩ := prune_true hp
        simp only [enqueue, hp, Bool.false_eq_true, if_false, if_true, TTree.unq]
        refine ⟨?_, ?_⟩
        · intro p hp' f hf
          rw [hf0] at hf; cases hf
          exact Rat.le_trans hle (hadm p hp')
        · intro hq; rw [hq] at hf0; simp [front, extractMin] at hf0
      · simp [enqueue, hp, TTree.unq]
  | .node st lb gl l r, q, hadm, hinv => by
    by_cases hst : st = .done
    · subst hst
      rw [enqueue_done]
      have : (TTree.node .done lb gl l r).unq = [] := inv_done_unq _ hinv rfl
      simp [this]
    by_cases hp : prune q lb = true
    · obtain ⟨f0, hf0, hle⟩ := prune_true hp
      rw [enqueue_pruned _ _ _ _ hp]
      refine ⟨?_, ?_⟩
      · intro p hp' f hf
        rw [hf0] at hf; cases hf
        exact Rat.le_trans hle (lbadm_root hadm p (unq_subset_pts _ p hp'))
      · intro hq
        have hq' : q = [] := hq
        rw [hq'] at hf0; simp [front, extractMin] at hf0
    have hp' : prune q lb = false := by simpa using hp
    obtain ⟨_, hal, har⟩ := hadm
    obtain ⟨_, hil, hir⟩ := hinv
    -- the common argument for both visiting orders
    have key : ∀ (a b : TTree), LbAdm dist a → Inv a → LbAdm dist b → Inv b →
        ((∀ p ∈ (enqueue a q).1.unq, ∀ f, front (enqueue a q).2.1 = some f → f.d ≤ dist p) ∧
          ((enqueue a q).2.1 = [] → (enqueue a q).1.unq = [])) →
        ((∀ p ∈ (enqueue b (enqueue a q).2.1).1.unq, ∀ f,
            front (enqueue b (enqueue a q).2.1).2.1 = some f → f.d ≤ dist p) ∧
          ((enqueue b (enqueue a q).2.1).2.1 = [] → (enqueue b (enqueue a q).2.1).1.unq = [])) →
        (∀ p ∈ (enqueue a q).1.unq ++ (enqueue b (enqueue a q).2.1).1.unq, ∀ f,
            front (enqueue b (enqueue a q).2.1).2.1 = some f → f.d ≤ dist p) ∧
        ((enqueue b (enqueue a q).2.1).2.1 = [] →
            (enqueue a q).1.unq = [] ∧ (enqueue b (enqueue a q).2.1).1.unq = []) := by
      intro a b _ _ _ _ iha ihb
      obtain ⟨ins, hins⟩ := (enqueue_spec dist b (enqueue a q).2.1).grow
      refine ⟨?_, ?_⟩
      · intro p hp f hf
        rcases List.mem_append.mp hp with h | h
        · cases hf1 : front (enqueue a q).2.1 with
          | none =>
            have := iha.2 (front_none.mp hf1)
            rw [this] at h; simp at h
          | some f1 =>
            have hm : f.d ≤ f1.d := by
              rw [hins] at hf
              exact front_mono hf1 hf
            exact Rat.le_trans hm (iha.1 p h f1 hf1)
        · exact ihb.1 p h f hf
      · intro hq
        have hq1 : (enqueue a q).2.1 = [] := by
          rw [hins] at hq
          exact (List.append_eq_nil_iff.mp hq).2
        exact ⟨iha.2 hq1, ihb.2 hq⟩
    cases gl with
    | true =>
      rw [enqueue_left lb l r hst hp']
      have k := key l r hal hil har hir (enqueue_post dist l q hal hil)
        (enqueue_post dist r _ har hir)
      refine ⟨?_, ?_⟩
      · intro p hp f hf
        exact k.1 p (by simpa [TTree.unq] using hp) f hf
      · intro hq
        have := k.2 hq
        simp [TTree.unq, this.1, this.2]
    | false =>
      rw [enqueue_right lb l r hst hp']
      have k := key r l har hir hal hil (enqueue_post dist r q har hir)
        (enqueue_post dist l _ hal hil)
      refine ⟨?_, ?_⟩
      · intro p hp f hf
        refine k.1 p ?_ f hf
        have : p ∈ (enqueue l (enqueue r q).2.1).1.unq ++ (enqueue r q).1.unq := by
          simpa [TTree.unq] using hp
        rcases List.mem_append.mp this with h | h
        · exact List.mem_append_right _ h
        · exact List.mem_append_left _ h
      · intro hq
        have := k.2 hq
        simp [TTree.unq, this.1, this.2]

/-! ## `squaredRadius` -/

/-- `radius_is_lower_bound` for one tree: every point that is not queued yet is at
least `squaredRadius` away -/
theorem radius_le (dist : Nat → Rat) : ∀ (t : TTree), LbAdm dist t → Inv t →
    ∀ p ∈ t.unq, t.radius ≤ dist p
  | .leaf qd lb lf, hadm, _ => by
    cases qd with
    | true => simp [TTree.unq]
    | false => intro p hp; simpa [TTree.radius] using hadm p (by simpa [TTree.unq] using hp)
  | .node st lb gl l r, hadm, hinv => by
    intro p hp
    cases st with
    | unq =>
      simp only [TTree.radius]
      exact hadm.1 p (by simpa [TTree.pts] using unq_subset_pts _ p hp)
    | done =>
      have : (TTree.node .done lb gl l r).unq = [] := inv_done_unq _ hinv rfl
      rw [this] at hp; simp at hp
    | part =>
      simp only [TTree.radius]
      have hl := radius_le dist l hadm.2.1 hinv.2.1
      have hr := radius_le dist r hadm.2.2 hinv.2.2
      simp only [TTree.unq, List.mem_append] at hp
      by_cases c : r.radius < l.radius
      · simp only [c, if_true]
        rcases hp with h | h
        · have := hl p h; grind
        · exact hr p h
      · simp only [c, if_false]
        rcases hp with h | h
        · exact hl p h
        · have := hr p h; grind

/-! ## `enqAt`, `enqLoop`, `initDescend` -/

theorem rule_calc (st sa' sb : Status) (e : Bool) (hinv : st = .done → sb = .done)
    (ha : e = true → sa' = .done) (hmono : st = .done → sa' = .done) :
    let s := if e then rule st sb else (st, false)
    (s.1 = .done → sa' = .done ∧ sb = .done) ∧ (s.2 = true → s.1 = .done) := by
  cases st <;> cases e <;> by_cases hb : sb = .done <;> simp_all [rule]

theorem enqAt_status_done : ∀ (t : TTree) (p : List Bool) (q : List Leaf),
    t.status = .done → (enqAt t p q).1.status = .done
  | t, [], q, h => by simp [enqAt, enqueue_of_done t q h, h]
  | .leaf qd lb lf, _ :: _, q, h => by simpa [enqAt] using h
  | .node st lb gl l r, b :: p, q, h => by
    simp only [TTree.status] at h
    subst h
    cases b
    · simp only [enqAt, Bool.false_eq_true, if_false]
      cases (enqAt r p q).2.2 <;> simp [TTree.status, rule]
    · simp only [enqAt, if_true]
      cases (enqAt l p q).2.2 <;> simp [TTree.status, rule]

theorem enqAt_spec (dist : Nat → Rat) : ∀ (t : TTree) (p : List Bool) (q : List Leaf),
    EnqSpec dist t q (enqAt t p q).1 (enqAt t p q).2.1 (enqAt t p q).2.2
  | t, [], q => by simpa [enqAt] using enqueue_spec dist t q
  | .leaf qd lb lf, _ :: _, q => by simpa [enqAt] using EnqSpec.refl dist (.leaf qd lb lf) q
  | .node st lb gl l r, true :: p, q => by
    have h1 := enqAt_spec dist l p q
    have e : enqAt (.node st lb gl l r) (true :: p) q =
        (.node (if (enqAt l p q).2.2 then rule st r.status else (st, false)).1 lb gl (enqAt l p q).1 r,
          (enqAt l p q).2.1, (if (enqAt l p q).2.2 then rule st r.status else (st, false)).2) := by
      simp [enqAt]
    rw [e]
    refine node_spec (Or.inl ⟨rfl, rfl, rfl, rfl⟩) h1 (EnqSpec.refl dist r _) ?_
    intro hinv
    obtain ⟨hd, hl, hr⟩ := hinv
    exact rule_calc st _ r.status _ (fun h => (hd h).2) (h1.inv hl).2
      (fun h => enqAt_status_done l p q (hd h).1)
  | .node st lb gl l r, false :: p, q => by
    have h1 := enqAt_spec dist r p q
    have e : enqAt (.node st lb gl l r) (false :: p) q =
        (.node (if (enqAt r p q).2.2 then rule st l.status else (st, false)).1 lb gl l (enqAt r p q).1,
          (enqAt r p q).2.1, (if (enqAt r p q).2.2 then rule st l.status else (st, false)).2) := by
      simp [enqAt]
    rw [e]
    refine node_spec (Or.inr ⟨rfl, rfl, rfl, rfl⟩) h1 (EnqSpec.refl dist l _) ?_
    intro hinv
    obtain ⟨hd, hl, hr⟩ := hinv
    exact rule_calc st _ l.status _ (fun h => (hd h).1) (h1.inv hr).2
      (fun h => enqAt_status_done r p q (hd h).2)

theorem EnqSpec.weaken {dist : Nat → Rat} {t t' : TTree} {q q' : List Leaf} {e : Bool}
    (h : EnqSpec dist t q t' q' e) : EnqSpec dist t q t' q' false :=
  { h with inv := fun hi => ⟨(h.inv hi).1, by simp⟩ }

theorem EnqSpec.trans {dist : Nat → Rat} {t t1 t2 : TTree} {q q1 q2 : List Leaf} {e1 e2 : Bool}
    (h1 : EnqSpec dist t q t1 q1 e1) (h2 : EnqSpec dist t1 q1 t2 q2 e2) :
    EnqSpec dist t q t2 q2 e2 :=
  { pts := h2.pts.trans h1.pts
    lb := h2.lb.trans h1.lb
    lbadm := fun h => h2.lbadm (h1.lbadm h)
    unif := fun h => h2.unif (h1.unif h)
    nonempty := fun h => h2.nonempty (h1.nonempty h)
    grow := by
      obtain ⟨i1, rfl⟩ := h1.grow
      obtain ⟨i2, rfl⟩ := h2.grow
      exact ⟨i2 ++ i1, by simp⟩
    perm := h2.perm.trans h1.perm
    inv := fun h => h2.inv (h1.inv h).1
    qtrue := fun hu hn hq => h2.qtrue (h1.unif hu) (h1.nonempty hn) (h1.qtrue hu hn hq) }

/-- what the queue looks like after an enqueue pass that ended at the root -/
def Post (dist : Nat → Rat) (t : TTree) (q : List Leaf) : Prop :=
  (∀ p ∈ t.unq, ∀ f, front q = some f → f.d ≤ dist p) ∧ (q = [] → t.unq = [])

theorem enqLoop_spec (dist : Nat → Rat) : ∀ (path : List Bool) (t : TTree) (q : List Leaf)
    (head : Option (List Bool)),
    EnqSpec dist t q (enqLoop t q head path).1 (enqLoop t q head path).2.1 false ∧
    (LbAdm dist t → Inv t → Post dist (enqLoop t q head path).1 (enqLoop t q head path).2.1) ∧
    ((enqLoop t q head path).2.2 = none → (enqLoop t q head path).1.status = .done ∨ head = none)
  | [], t, q, head => by
    have e : enqLoop t q head [] = ((enqueue t q).1, (enqueue t q).2.1,
        if (enqueue t q).1.status = .done then none else head) := by simp [enqLoop]
    rw [e]
    refine ⟨(enqueue_spec dist t q).weaken, fun ha hi => enqueue_post dist t q ha hi, ?_⟩
    intro h
    by_cases c : (enqueue t q).1.status = .done
    · exact Or.inl c
    · right; simpa [c] using h
  | b :: up, t, q, head => by
    have e : enqLoop t q head (b :: up) =
        enqLoop (enqAt t (b :: up).reverse q).1 (enqAt t (b :: up).reverse q).2.1
          (if (enqAt t (b :: up).reverse q).1.statusAt (b :: up).reverse = .done then some up else head) up := by
      simp [enqLoop]
    rw [e]
    have h1 := enqAt_spec dist t (b :: up).reverse q
    obtain ⟨h2, hpost, hhead⟩ := enqLoop_spec dist up (enqAt t (b :: up).reverse q).1
      (enqAt t (b :: up).reverse q).2.1
      (if (enqAt t (b :: up).reverse q).1.statusAt (b :: up).reverse = .done then some up else head)
    refine ⟨h1.trans h2, fun ha hi => hpost (h1.lbadm ha) (h1.inv hi).1, ?_⟩
    intro h
    rcases hhead h with h' | h'
    · exact Or.inl h'
    · right
      by_cases c : (enqAt t (b :: up).reverse q).1.statusAt (b :: up).reverse = .done
      · rw [if_pos c] at h'; cases h'
      · rw [if_neg c] at h'; exact h'

/-- the constructor's descent, on a fresh trace tree -/
theorem initDescend_spec (dist : Nat → Rat) : ∀ (t : TTree), Fresh t →
    EnqSpec dist t [] (initDescend t).1 (initDescend t).2.1 (initDescend t).2.2.1 ∧
    ((initDescend t).2.2.2 = [] → (initDescend t).1.unq = [])
  | .leaf qd lb lf, hf => by
    have hq : qd = false := hf
    subst hq
    simp only [initDescend]
    refine ⟨{ pts := rfl, lb := rfl, lbadm := id, unif := id, nonempty := id, grow := ⟨lf, by simp⟩,
              perm := ?_, inv := ?_, qtrue := ?_ }, ?_⟩
    · simp [qpts, TTree.unq]
    · intro _; exact ⟨trivial, fun _ => by simp [TTree.status]⟩
    · intro hu hn _ e he
      exact ⟨hn.2 e he, hu e he⟩
    · intro _; simp [TTree.unq]
  | .node st lb true l r, hf => by
    obtain ⟨_, hl, hr⟩ := hf
    obtain ⟨h1, _⟩ := initDescend_spec dist l hl
    have e : initDescend (.node st lb true l r) =
        (.node (if (initDescend l).2.2.1 then rule st r.status else (st, false)).1 lb true (initDescend l).1 r,
          (initDescend l).2.1, (if (initDescend l).2.2.1 then rule st r.status else (st, false)).2,
          true :: (initDescend l).2.2.2) := by
      simp [initDescend]
    rw [e]
    refine ⟨node_spec (Or.inl ⟨rfl, rfl, rfl, rfl⟩) h1 (EnqSpec.refl dist r _) ?_, by simp⟩
    intro hinv
    obtain ⟨hd, hil, hir⟩ := hinv
    have hsub : st = .unq := by assumption
    exact rule_calc st _ r.status _ (fun h => (hd h).2) (h1.inv hil).2 (fun h => by simp [hsub] at h)
  | .node st lb false l r, hf => by
    obtain ⟨_, hl, hr⟩ := hf
    obtain ⟨h1, _⟩ := initDescend_spec dist r hr
    have e : initDescend (.node st lb false l r) =
        (.node (if (initDescend r).2.2.1 then rule st l.status else (st, false)).1 lb false l (initDescend r).1,
          (initDescend r).2.1, (if (initDescend r).2.2.1 then rule st l.status else (st, false)).2,
          false :: (initDescend r).2.2.2) := by
      simp [initDescend]
    rw [e]
    refine ⟨node_spec (Or.inr ⟨rfl, rfl, rfl, rfl⟩) h1 (EnqSpec.refl dist l _) ?_, by simp⟩
    intro hinv
    obtain ⟨hd, hil, hir⟩ := hinv
    have hsub : st = .unq := by assumption
    exact rule_calc st _ l.status _ (fun h => (hd h).1) (h1.inv hir).2 (fun h => by simp [hsub] at h)

end SharkVerif.NN
