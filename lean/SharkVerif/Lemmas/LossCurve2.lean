/-
C06: the *total-derivative* (curve) contract `BatchGradAt` of `Lemmas/LossContract.lean` for the
gradient matrices returned by the derivative calls of

* `crossEntropyLoss` (class labels), several outputs and one output,
* `crossEntropySoftLoss` (probability-vector labels),
* `sqEpsHingeLoss`,
* `huberLoss`,

at the `Scalar ℝ` instance with `Real.exp`, `Real.log`, `Real.sqrt`.  Each proof has the same shape:
the batch value of `toRows B m P` is the `Finset` sum over the rows of a row value, row `i` of the
returned matrix is the row gradient, a row-level `RowGradAt` is proved along an arbitrary
differentiable curve, and `batchGradAt_of_rows` lifts it.
-/
import Mathlib.Analysis.Calculus.Deriv.Basic
import Mathlib.Analysis.Calculus.Deriv.Add
import Mathlib.Analysis.Calculus.Deriv.Mul
import Mathlib.Analysis.Calculus.Deriv.Pow
import Mathlib.Analysis.Calculus.Deriv.Comp
import Mathlib.Analysis.SpecialFunctions.Log.Deriv
import Mathlib.Analysis.SpecialFunctions.ExpDeriv
import Mathlib.Analysis.SpecialFunctions.Sqrt
import Mathlib.Algebra.BigOperators.Group.Finset.Basic
import Mathlib.Algebra.Order.BigOperators.Group.Finset
import Mathlib.Tactic.Ring
import Mathlib.Tactic.Linarith
import Mathlib.Tactic.FieldSimp
import Mathlib.Tactic.NormNum
import SharkVerif.Lemmas.LossContract
namespace SharkVerif.ErrFn
open Finset SharkVerif.Loss Scalar

/-! ## 0. lists of the form `(List.range n).map r` -/

theorem rowOf_length₂ (m : ℕ) (q : ℕ → ℝ) : (rowOf m q).length = m := by simp [rowOf]

theorem rowOf_getElem? (m : ℕ) (q : ℕ → ℝ) (k : ℕ) (hk : k < m) : (rowOf m q)[k]? = some (q k) := by
  unfold rowOf
  rw [List.getElem?_map, List.getElem?_range hk]; rfl

theorem rowOf_getD₂ (m : ℕ) (q : ℕ → ℝ) (k : ℕ) :
    (rowOf m q).getD k 0 = if k < m then q k else 0 := by
  rw [List.getD_eq_getElem?_getD]
  by_cases h : k < m
  · rw [rowOf_getElem? m q k h]; simp [h]
  · rw [List.getElem?_eq_none (by rw [rowOf_length₂]; omega)]; simp [h]

theorem rowOf_congr (m : ℕ) (q r : ℕ → ℝ) (h : ∀ k, k < m → q k = r k) : rowOf m q = rowOf m r := by
  unfold rowOf
  apply List.map_congr_left
  intro k hk
  exact h k (List.mem_range.1 hk)

theorem rowOf_ne_nil (m : ℕ) (q : ℕ → ℝ) (hm : 1 ≤ m) : rowOf m q ≠ [] := by
  intro e
  have := congrArg List.length e
  rw [rowOf_length₂] at this
  simp at this
  omega

theorem list_sum_range_map (m : ℕ) (g : ℕ → ℝ) : ((List.range m).map g).sum = ∑ k ∈ range m, g k := by
  induction m with
  | zero => simp
  | succ n ih =>
    rw [List.range_succ, List.map_append, List.sum_append, ih, Finset.sum_range_succ]
    simp

theorem sum_map_rowOf (m : ℕ) (q : ℕ → ℝ) (f : ℝ → ℝ) :
    ((rowOf m q).map f).sum = ∑ k ∈ range m, f (q k) := by
  unfold rowOf
  rw [List.map_map]
  exact list_sum_range_map m _

theorem zipWith_range_map_right {L β γ : Type} (f : L → β → γ) (d : L) (n : ℕ) (labels : List L)
    (r : ℕ → β) (h : labels.length = n) :
    List.zipWith f labels ((List.range n).map r)
      = (List.range n).map (fun i => f (labels.getD i d) (r i)) := by
  apply List.ext_getElem
  · simp [h]
  · intro i h1 h2
    have hi : i < labels.length := by simp at h1; omega
    simp [List.getD_eq_getElem?_getD, List.getElem?_eq_getElem hi]

theorem zipWith_range_map_left {L β γ : Type} (f : β → L → γ) (d : L) (n : ℕ) (labels : List L)
    (r : ℕ → β) (h : labels.length = n) :
    List.zipWith f ((List.range n).map r) labels
      = (List.range n).map (fun i => f (r i) (labels.getD i d)) := by
  rw [List.zipWith_comm]
  exact zipWith_range_map_right (fun a b => f b a) d n labels r h

/-- batch value written as `sumL (zipWith rowfn labels rows)` = `Finset` sum over the rows -/
theorem sumL_zipWith_toRows {L : Type} (f : L → List ℝ → ℝ) (d : L) (B m : ℕ) (labels : List L)
    (P : ℕ → ℕ → ℝ) (h : labels.length = B) :
    sumL (List.zipWith f labels (toRows B m P))
      = ∑ i ∈ range B, f (labels.getD i d) (rowOf m (P i)) := by
  unfold toRows
  rw [zipWith_range_map_right f d B labels _ h, sumL_eq_sum_real, list_sum_range_map]
  rfl

/-- row `i` of a gradient matrix written as `zipWith gradrow labels rows` -/
theorem getD_zipWith_toRows {L : Type} (g : L → List ℝ → List ℝ) (d : L) (B m : ℕ) (labels : List L)
    (P : ℕ → ℕ → ℝ) (h : labels.length = B) (i : ℕ) (hi : i < B) :
    (List.zipWith g labels (toRows B m P)).getD i [] = g (labels.getD i d) (rowOf m (P i)) := by
  unfold toRows
  rw [zipWith_range_map_right g d B labels _ h, List.getD_eq_getElem?_getD, List.getElem?_map,
    List.getElem?_range hi]
  rfl

/-! ## 1. CrossEntropy, class labels, several outputs (no kink) -/

theorem ceRow_multi_value (c m : ℕ) (hm : 2 ≤ m) (q : ℕ → ℝ) :
    ceRowEval Real.exp Real.log c (rowOf m q)
      = Real.log (∑ k ∈ range m, Real.exp (q k)) - (if c < m then q c else 0) := by
  have hlen : ¬ (rowOf m q).length = 1 := by rw [rowOf_length₂]; omega
  unfold ceRowEval
  simp only [hlen, ↓reduceIte]
  rw [sumL_eq_sum_real, log_sum_exp_shift _ _ (rowOf_ne_nil m q (by omega)), sum_map_rowOf, rowOf_getD₂]

theorem ceRow_multi_grad (c m : ℕ) (hm : 2 ≤ m) (q : ℕ → ℝ) (k : ℕ) (hk : k < m) :
    (ceRowEvalDerivative Real.exp Real.log c (rowOf m q)).2.getD k 0
      = Real.exp (q k) / (∑ j ∈ range m, Real.exp (q j)) - (if k = c then 1 else 0) := by
  have hlen : ¬ (rowOf m q).length = 1 := by rw [rowOf_length₂]; omega
  unfold ceRowEvalDerivative
  simp only [hlen, ↓reduceIte]
  rw [List.getD_eq_getElem?_getD, List.getElem?_map,
    List.getElem?_range (by simpa [rowOf_length₂] using hk)]
  simp only [Option.map_some, Option.getD_some]
  have hg : (((rowOf m q).map fun x => Real.exp (x - maxL (rowOf m q))).map fun x =>
        x / sumL ((rowOf m q).map fun x => Real.exp (x - maxL (rowOf m q)))).getD k 0
      = Real.exp (q k) / (∑ j ∈ range m, Real.exp (q j)) := by
    rw [List.getD_eq_getElem?_getD, List.getElem?_map, List.getElem?_map, rowOf_getElem? m q k hk]
    simp only [Option.map_some, Option.getD_some]
    rw [sumL_eq_sum_real, sum_exp_shift, sum_map_rowOf, sub_eq_add_neg, Real.exp_add]
    have h1 := Real.exp_pos (-maxL (rowOf m q))
    have h2 : 0 < ∑ j ∈ range m, Real.exp (q j) :=
      Finset.sum_pos (fun j _ => Real.exp_pos _) ⟨0, mem_range.2 (by omega)⟩
    field_simp
  split
  · rw [hg]
  · rw [hg]; simp

theorem hasDerivAt_sum_exp_curve (m : ℕ) (q : ℝ → ℕ → ℝ) (q' : ℕ → ℝ) (t0 : ℝ)
    (hq : ∀ k, k < m → HasDerivAt (fun t => q t k) (q' k) t0) :
    HasDerivAt (fun t => ∑ k ∈ range m, Real.exp (q t k))
      (∑ k ∈ range m, Real.exp (q t0 k) * q' k) t0 :=
  HasDerivAt.fun_sum fun k hk => (hq k (mem_range.1 hk)).exp

theorem sum_exp_range_pos (m : ℕ) (hm : 1 ≤ m) (q : ℕ → ℝ) : 0 < ∑ k ∈ range m, Real.exp (q k) :=
  Finset.sum_pos (fun j _ => Real.exp_pos _) ⟨0, mem_range.2 (by omega)⟩

theorem ceRow_multi_rowGradAt (c m : ℕ) (hm : 2 ≤ m) (p0 : ℕ → ℝ) :
    RowGradAt m (ceRowEval Real.exp Real.log c)
      (ceRowEvalDerivative Real.exp Real.log c (rowOf m p0)).2 p0 := by
  intro q q' t0 h0 hq
  rw [← rowOf_congr m (q t0) p0 h0]
  simp only [ceRow_multi_value c m hm]
  have hS := hasDerivAt_sum_exp_curve m q q' t0 hq
  have hpos := sum_exp_range_pos m (by omega) (q t0)
  have hc : HasDerivAt (fun t => if c < m then q t c else 0) (if c < m then q' c else 0) t0 := by
    by_cases h : c < m
    · simp only [h, if_true]; exact hq c h
    · simp only [h, if_false]; exact hasDerivAt_const _ _
  have hd := (hS.log (ne_of_gt hpos)).fun_sub hc
  refine hd.congr_deriv (Eq.symm ?_)
  rw [Finset.sum_congr rfl (fun k hk => by rw [ceRow_multi_grad c m hm (q t0) k (mem_range.1 hk)])]
  simp only [sub_mul, Finset.sum_sub_distrib, ite_mul, one_mul, zero_mul, Finset.sum_ite_eq',
    mem_range]
  congr 1
  rw [div_eq_mul_inv, Finset.sum_mul]
  apply Finset.sum_congr rfl
  intro k _
  ring

/-- **CrossEntropy, class labels, `m ≥ 2` outputs**: the matrix returned by the derivative call
(softmax minus indicator, row by row) is the total derivative of the batch value.  No kink; the
labels need not even be `< m` (an out-of-range label contributes `p.getD c 0 = 0` to the value and no
indicator to the gradient). -/
theorem crossEntropy_multi_batchGradAt (labels : List ℕ) (B m : ℕ) (P0 : ℕ → ℕ → ℝ)
    (hB : labels.length = B) (hm : 2 ≤ m) :
    BatchGradAt B m ((crossEntropyLoss Real.exp Real.log : LossFn ℝ ℕ).eval labels)
      ((crossEntropyLoss Real.exp Real.log : LossFn ℝ ℕ).evalDerivative labels (toRows B m P0)).2 P0 := by
  apply batchGradAt_of_rows B m _ _ P0
    (fun i => ceRowEval Real.exp Real.log (labels.getD i 0))
    (fun i => (ceRowEvalDerivative Real.exp Real.log (labels.getD i 0) (rowOf m (P0 i))).2)
  · intro P
    exact sumL_zipWith_toRows _ 0 B m labels P hB
  · intro i hi
    show ((List.zipWith (ceRowEvalDerivative Real.exp Real.log) labels (toRows B m P0)).map Prod.snd).getD i [] = _
    rw [List.map_zipWith]
    exact getD_zipWith_toRows (fun c p => (ceRowEvalDerivative Real.exp Real.log c p).2) 0 B m labels P0 hB i hi
  · intro i _
    exact ceRow_multi_rowGradAt _ m hm (P0 i)

example : BatchGradAt 2 2 ((crossEntropyLoss Real.exp Real.log : LossFn ℝ ℕ).eval [0, 1])
    ((crossEntropyLoss Real.exp Real.log : LossFn ℝ ℕ).evalDerivative [0, 1]
      (toRows 2 2 fun i k => (i : ℝ) - k)).2 (fun i k => (i : ℝ) - k) :=
  crossEntropy_multi_batchGradAt [0, 1] 2 2 _ rfl (by norm_num)

/-! ## 2. CrossEntropy, class labels, one output (outside the `value*label < -200` shortcut) -/

theorem rowOf_one (r : ℕ → ℝ) : rowOf 1 r = [r 0] := by simp [rowOf]

theorem ceRow_binary_rowGradAt (c : ℕ) (p0 : ℕ → ℝ) (hns : -200 < p0 0 * (2 * (c : ℝ) - 1)) :
    RowGradAt 1 (ceRowEval Real.exp Real.log c)
      (ceRowEvalDerivative Real.exp Real.log c (rowOf 1 p0)).2 p0 := by
  intro q q' t0 h0 hq
  have h00 := h0 0 (by omega)
  have hq0 := hq 0 (by omega)
  simp only [rowOf_one, Finset.sum_range_one]
  have hev : ∀ᶠ t in nhds t0, ceRowEval Real.exp Real.log c [q t 0]
      = Real.log (1 + Real.exp (-(2 * (c : ℝ) - 1) * q t 0)) := by
    have hc : ContinuousAt (fun t => q t 0 * (2 * (c : ℝ) - 1)) t0 :=
      hq0.continuousAt.mul continuousAt_const
    have h1 : -200 < (fun t => q t 0 * (2 * (c : ℝ) - 1)) t0 := by
      show -200 < q t0 0 * (2 * (c : ℝ) - 1)
      rw [h00]; exact hns
    filter_upwards [hc.eventually (lt_mem_nhds h1)] with t ht
    unfold ceRowEval ceEvalError
    simp only [List.length_cons, List.length_nil, Nat.zero_add, ↓reduceIte, List.getD_cons_zero, two_real]
    have : ¬ q t 0 * (2 * (c : ℝ) - 1) < -((200 : ℕ) : ℝ) := by
      push_cast; exact not_lt.2 (le_of_lt ht)
    simp only [ofNat_real] at this ⊢
    rw [if_neg this]
  have hgrad : (ceRowEvalDerivative Real.exp Real.log c [p0 0]).2.getD 0 0
      = -(2 * (c : ℝ) - 1) * (1 - 1 / (1 + Real.exp (-(2 * (c : ℝ) - 1) * p0 0))) := by
    unfold ceRowEvalDerivative
    simp only [List.length_cons, List.length_nil, Nat.zero_add, ↓reduceIte, List.getD_cons_zero, two_real]
    rfl
  rw [hgrad, ← h00]
  have hd : HasDerivAt (fun t => Real.log (1 + Real.exp (-(2 * (c : ℝ) - 1) * q t 0)))
      (-(2 * (c : ℝ) - 1) * (1 - 1 / (1 + Real.exp (-(2 * (c : ℝ) - 1) * q t0 0))) * q' 0) t0 :=
    HasDerivAt.comp (h₂ := fun s => Real.log (1 + Real.exp (-(2 * (c : ℝ) - 1) * s))) t0
      (hasDerivAt_log_one_add_exp_neg (2 * (c : ℝ) - 1) (q t0 0)) hq0
  exact hd.congr_of_eventuallyEq hev

/-- **CrossEntropy, class labels, one output column** (logistic loss with label `2c − 1`): outside
the `value*label < -200` shortcut of `ceEvalError` the returned column `−y(1 − σ)` is the total
derivative of the batch value.  (No bound on the labels is needed.) -/
theorem crossEntropy_binary_batchGradAt (labels : List ℕ) (B : ℕ) (P0 : ℕ → ℕ → ℝ)
    (hB : labels.length = B)
    (hns : ∀ i, i < B → -200 < P0 i 0 * (2 * ((labels.getD i 0 : ℕ) : ℝ) - 1)) :
    BatchGradAt B 1 ((crossEntropyLoss Real.exp Real.log : LossFn ℝ ℕ).eval labels)
      ((crossEntropyLoss Real.exp Real.log : LossFn ℝ ℕ).evalDerivative labels (toRows B 1 P0)).2 P0 := by
  apply batchGradAt_of_rows B 1 _ _ P0
    (fun i => ceRowEval Real.exp Real.log (labels.getD i 0))
    (fun i => (ceRowEvalDerivative Real.exp Real.log (labels.getD i 0) (rowOf 1 (P0 i))).2)
  · intro P
    exact sumL_zipWith_toRows _ 0 B 1 labels P hB
  · intro i hi
    show ((List.zipWith (ceRowEvalDerivative Real.exp Real.log) labels (toRows B 1 P0)).map Prod.snd).getD i [] = _
    rw [List.map_zipWith]
    exact getD_zipWith_toRows (fun c p => (ceRowEvalDerivative Real.exp Real.log c p).2) 0 B 1 labels P0 hB i hi
  · intro i hi
    exact ceRow_binary_rowGradAt _ (P0 i) (hns i hi)

example : BatchGradAt 2 1 ((crossEntropyLoss Real.exp Real.log : LossFn ℝ ℕ).eval [0, 1])
    ((crossEntropyLoss Real.exp Real.log : LossFn ℝ ℕ).evalDerivative [0, 1]
      (toRows 2 1 fun i _ => (i : ℝ) + 1)).2 (fun i _ => (i : ℝ) + 1) := by
  apply crossEntropy_binary_batchGradAt [0, 1] 2 _ rfl
  intro i hi
  have : i = 0 ∨ i = 1 := by omega
  rcases this with rfl | rfl <;> norm_num

/-! ## 3. CrossEntropy with probability-vector labels (no kink, labels arbitrary reals) -/

theorem rowOf_map (m : ℕ) (q : ℕ → ℝ) (f : ℝ → ℝ) :
    (rowOf m q).map f = (List.range m).map (fun k => f (q k)) := by
  simp [rowOf]

theorem sum_exp_shift_range (m : ℕ) (q : ℕ → ℝ) (M : ℝ) :
    ∑ k ∈ range m, Real.exp (q k - M) = Real.exp (-M) * ∑ k ∈ range m, Real.exp (q k) := by
  rw [Finset.mul_sum]
  apply Finset.sum_congr rfl
  intro k _
  rw [← Real.exp_add]
  congr 1
  ring

theorem getD_mem_of_lt {L : Type} (labels : List L) (d : L) (i : ℕ) (hi : i < labels.length) :
    labels.getD i d ∈ labels := by
  rw [List.getD_eq_getElem?_getD, List.getElem?_eq_getElem hi]
  exact List.getElem_mem hi

/-- the batch value of the soft-label cross entropy — written in the C++ (and in the model) as
`sum(log(norm)) − sum(target*prediction) + sum(maximum)` — is the sum over the rows of
`log Σ_k exp p_k − Σ_k t_k p_k` -/
theorem ceSoftEval_toRows (labels : List (List ℝ)) (B m : ℕ) (hB : labels.length = B) (hm : 1 ≤ m)
    (P : ℕ → ℕ → ℝ) :
    ceSoftEval Real.exp Real.log labels (toRows B m P)
      = ∑ i ∈ range B, (Real.log (((rowOf m (P i)).map Real.exp).sum)
          - (List.zipWith (· * ·) (labels.getD i []) (rowOf m (P i))).sum) := by
  have ht : toRows B m P = (List.range B).map (fun i => rowOf m (P i)) := rfl
  unfold ceSoftEval
  simp only [sumL_eq_sum_real]
  rw [List.zipWith_map_right, List.zipWith_self, List.sum_flatten, List.map_zipWith, ht,
    zipWith_range_map_right _ [] B labels _ hB]
  simp only [List.map_map, list_sum_range_map, Function.comp_def]
  rw [← Finset.sum_sub_distrib, ← Finset.sum_add_distrib]
  apply Finset.sum_congr rfl
  intro i _
  rw [← log_sum_exp_shift (rowOf m (P i)) (maxL (rowOf m (P i))) (rowOf_ne_nil m _ hm)]
  ring

theorem ceSoftGradRow_getD (m : ℕ) (hm : 1 ≤ m) (l : List ℝ) (hl : l.length = m) (q : ℕ → ℝ)
    (k : ℕ) (hk : k < m) :
    (ceSoftGradRow Real.exp l (rowOf m q)).getD k 0
      = Real.exp (q k) / (∑ j ∈ range m, Real.exp (q j)) - l.getD k 0 := by
  unfold ceSoftGradRow
  simp only [sumL_eq_sum_real]
  rw [rowOf_map, zipWith_range_map_left _ 0 m l _ hl, List.getD_eq_getElem?_getD, List.getElem?_map,
    List.getElem?_range hk]
  simp only [Option.map_some, Option.getD_some]
  rw [list_sum_range_map, sum_exp_shift_range, sub_eq_add_neg (q k), Real.exp_add]
  have h1 := Real.exp_pos (-maxL (rowOf m q))
  have h2 := sum_exp_range_pos m hm q
  field_simp

theorem ceSoftRow_rowGradAt (m : ℕ) (hm : 1 ≤ m) (l : List ℝ) (hl : l.length = m) (p0 : ℕ → ℝ) :
    RowGradAt m (fun p => Real.log ((p.map Real.exp).sum) - (List.zipWith (· * ·) l p).sum)
      (ceSoftGradRow Real.exp l (rowOf m p0)) p0 := by
  intro q q' t0 h0 hq
  rw [← rowOf_congr m (q t0) p0 h0]
  have hval : ∀ t, Real.log (((rowOf m (q t)).map Real.exp).sum)
        - (List.zipWith (· * ·) l (rowOf m (q t))).sum
      = Real.log (∑ k ∈ range m, Real.exp (q t k)) - ∑ k ∈ range m, l.getD k 0 * q t k := by
    intro t
    rw [sum_map_rowOf]
    unfold rowOf
    rw [zipWith_range_map_right _ 0 m l _ hl, list_sum_range_map]
  simp only [hval]
  have hS := hasDerivAt_sum_exp_curve m q q' t0 hq
  have hpos := sum_exp_range_pos m hm (q t0)
  have hdot : HasDerivAt (fun t => ∑ k ∈ range m, l.getD k 0 * q t k)
      (∑ k ∈ range m, l.getD k 0 * q' k) t0 :=
    HasDerivAt.fun_sum fun k hk => (hq k (mem_range.1 hk)).const_mul _
  have hd := (hS.log (ne_of_gt hpos)).fun_sub hdot
  refine hd.congr_deriv (Eq.symm ?_)
  rw [Finset.sum_congr rfl (fun k hk => by rw [ceSoftGradRow_getD m hm l hl (q t0) k (mem_range.1 hk)])]
  simp only [sub_mul, Finset.sum_sub_distrib]
  congr 1
  rw [div_eq_mul_inv, Finset.sum_mul]
  apply Finset.sum_congr rfl
  intro k _
  ring

/-- **CrossEntropy with probability-vector labels**: the returned matrix (softmax minus target, row
by row) is the total derivative of the batch value.  No kink; the label rows are arbitrary reals
(they need not be probability vectors), only their length must be the number of outputs. -/
theorem crossEntropySoft_batchGradAt (labels : List (List ℝ)) (B m : ℕ) (P0 : ℕ → ℕ → ℝ)
    (hB : labels.length = B) (hm : 1 ≤ m) (hl : ∀ l ∈ labels, l.length = m) :
    BatchGradAt B m ((crossEntropySoftLoss Real.exp Real.log : LossFn ℝ (List ℝ)).eval labels)
      ((crossEntropySoftLoss Real.exp Real.log : LossFn ℝ (List ℝ)).evalDerivative labels
        (toRows B m P0)).2 P0 := by
  apply batchGradAt_of_rows B m _ _ P0
    (fun i p => Real.log ((p.map Real.exp).sum) - (List.zipWith (· * ·) (labels.getD i []) p).sum)
    (fun i => ceSoftGradRow Real.exp (labels.getD i []) (rowOf m (P0 i)))
  · intro P
    exact ceSoftEval_toRows labels B m hB hm P
  · intro i hi
    exact getD_zipWith_toRows (ceSoftGradRow Real.exp) [] B m labels P0 hB i hi
  · intro i hi
    exact ceSoftRow_rowGradAt m hm _ (hl _ (getD_mem_of_lt labels [] i (by omega))) (P0 i)

example : BatchGradAt 2 2
    ((crossEntropySoftLoss Real.exp Real.log : LossFn ℝ (List ℝ)).eval [[1 / 2, 1 / 2], [0, 1]])
    ((crossEntropySoftLoss Real.exp Real.log : LossFn ℝ (List ℝ)).evalDerivative [[1 / 2, 1 / 2], [0, 1]]
      (toRows 2 2 fun i k => (i : ℝ) - k)).2 (fun i k => (i : ℝ) - k) :=
  crossEntropySoft_batchGradAt _ 2 2 _ rfl (by norm_num) (by simp)

/-! ## 4. SquaredEpsilonHingeLoss (kink: squared distance = `sqrEps`) -/

theorem normSqr_zipSub_left (m : ℕ) (q : ℕ → ℝ) (l : List ℝ) (hl : l.length = m) :
    normSqr (zipSub (rowOf m q) l) = ∑ k ∈ range m, (q k - l.getD k 0) ^ 2 := by
  unfold normSqr zipSub rowOf
  rw [zipWith_range_map_left _ 0 m l _ hl, List.map_map, sumL_eq_sum_real, list_sum_range_map]
  apply Finset.sum_congr rfl
  intro k _
  simp [sqr, pow_two]

theorem normSqr_zipSub_right (m : ℕ) (q : ℕ → ℝ) (l : List ℝ) (hl : l.length = m) :
    normSqr (zipSub l (rowOf m q)) = ∑ k ∈ range m, (q k - l.getD k 0) ^ 2 := by
  unfold normSqr zipSub rowOf
  rw [zipWith_range_map_right _ 0 m l _ hl, List.map_map, sumL_eq_sum_real, list_sum_range_map]
  apply Finset.sum_congr rfl
  intro k _
  simp only [Function.comp, sqr]
  ring

theorem zipSub_rowOf_getD (m : ℕ) (q : ℕ → ℝ) (l : List ℝ) (hl : l.length = m) (k : ℕ) (hk : k < m) :
    (zipSub (rowOf m q) l).getD k 0 = q k - l.getD k 0 := by
  unfold zipSub rowOf
  rw [zipWith_range_map_left _ 0 m l _ hl, List.getD_eq_getElem?_getD, List.getElem?_map,
    List.getElem?_range hk]
  rfl

theorem getD_map_zero (p : List ℝ) (k : ℕ) : (p.map fun _ => (0 : ℝ)).getD k 0 = 0 := by
  rw [List.getD_eq_getElem?_getD, List.getElem?_map]
  cases p[k]? <;> simp

/-- the squared distance to a fixed point along a differentiable curve -/
theorem hasDerivAt_sqdist (m : ℕ) (l : ℕ → ℝ) (q : ℝ → ℕ → ℝ) (q' : ℕ → ℝ) (t0 : ℝ)
    (hq : ∀ k, k < m → HasDerivAt (fun t => q t k) (q' k) t0) :
    HasDerivAt (fun t => ∑ k ∈ range m, (q t k - l k) ^ 2)
      (∑ k ∈ range m, 2 * (q t0 k - l k) * q' k) t0 := by
  apply HasDerivAt.fun_sum
  intro k hk
  have h := ((hq k (mem_range.1 hk)).sub_const (l k)).pow 2
  refine h.congr_deriv ?_
  norm_num

theorem sqEpsHingeRow_rowGradAt (e2 : ℝ) (m : ℕ) (l : List ℝ) (hl : l.length = m) (p0 : ℕ → ℝ)
    (hk : ∑ k ∈ range m, (p0 k - l.getD k 0) ^ 2 ≠ e2) :
    RowGradAt m (fun p => half * smax 0 (normSqr (zipSub l p) - e2))
      (if 0 < half * smax 0 (normSqr (zipSub (rowOf m p0) l) - e2) then zipSub (rowOf m p0) l
       else (rowOf m p0).map fun _ => (0 : ℝ)) p0 := by
  intro q q' t0 h0 hq
  have hN := hasDerivAt_sqdist m (fun k => l.getD k 0) q q' t0 hq
  have hN0 : ∑ k ∈ range m, (q t0 k - l.getD k 0) ^ 2 = ∑ k ∈ range m, (p0 k - l.getD k 0) ^ 2 :=
    Finset.sum_congr rfl (fun k hk => by rw [h0 k (mem_range.1 hk)])
  have e1 : ∀ r, normSqr (zipSub l (rowOf m r)) = ∑ k ∈ range m, (r k - l.getD k 0) ^ 2 :=
    fun r => normSqr_zipSub_right m r l hl
  have e2' : ∀ r, normSqr (zipSub (rowOf m r) l) = ∑ k ∈ range m, (r k - l.getD k 0) ^ 2 :=
    fun r => normSqr_zipSub_left m r l hl
  simp only [e1, e2', smax_zero_real, half_real]
  rcases lt_or_gt_of_ne hk with hin | hout
  · -- inside the ε-ball: the value is constantly 0 near t0, the returned row is 0
    have hnot : ¬ 0 < 1 / 2 * max 0 (∑ k ∈ range m, (p0 k - l.getD k 0) ^ 2 - e2) := by
      rw [max_eq_left (by linarith)]; norm_num
    simp only [hnot, ↓reduceIte, getD_map_zero, zero_mul, Finset.sum_const_zero]
    have h1 : (fun t => ∑ k ∈ range m, (q t k - l.getD k 0) ^ 2) t0 < e2 := by
      show ∑ k ∈ range m, (q t0 k - l.getD k 0) ^ 2 < e2
      rw [hN0]; exact hin
    have hev : (fun t => 1 / 2 * max 0 (∑ k ∈ range m, (q t k - l.getD k 0) ^ 2 - e2))
        =ᶠ[nhds t0] fun _ => (0 : ℝ) := by
      filter_upwards [hN.continuousAt.eventually (gt_mem_nhds h1)] with t ht
      have ht' : ∑ k ∈ range m, (q t k - l.getD k 0) ^ 2 < e2 := ht
      rw [max_eq_left (by linarith)]; ring
    exact (hasDerivAt_const t0 (0 : ℝ)).congr_of_eventuallyEq hev
  · -- outside: ½(‖p − l‖² − e2) near t0
    have hyes : 0 < 1 / 2 * max 0 (∑ k ∈ range m, (p0 k - l.getD k 0) ^ 2 - e2) := by
      rw [max_eq_right (by linarith)]; linarith
    simp only [hyes, ↓reduceIte]
    have h1 : e2 < (fun t => ∑ k ∈ range m, (q t k - l.getD k 0) ^ 2) t0 := by
      show e2 < ∑ k ∈ range m, (q t0 k - l.getD k 0) ^ 2
      rw [hN0]; exact hout
    have hev : (fun t => 1 / 2 * max 0 (∑ k ∈ range m, (q t k - l.getD k 0) ^ 2 - e2))
        =ᶠ[nhds t0] fun t => 1 / 2 * (∑ k ∈ range m, (q t k - l.getD k 0) ^ 2 - e2) := by
      filter_upwards [hN.continuousAt.eventually (lt_mem_nhds h1)] with t ht
      have ht' : e2 < ∑ k ∈ range m, (q t k - l.getD k 0) ^ 2 := ht
      rw [max_eq_right (by linarith)]
    have hd := (hN.sub_const e2).const_mul (1 / 2 : ℝ)
    refine (hd.congr_deriv ?_).congr_of_eventuallyEq hev
    rw [Finset.mul_sum]
    apply Finset.sum_congr rfl
    intro k hk
    rw [zipSub_rowOf_getD m p0 l hl k (mem_range.1 hk), h0 k (mem_range.1 hk)]
    ring

/-- **SquaredEpsilonHingeLoss** (`sqEpsHingeLoss e2`, `e2` = the squared ε): away from the kink
`‖P0_i − l_i‖² = e2` (stated as a `Finset` sum over the `m` outputs) the returned matrix — `p − l` on
the rows outside the ε-ball, `0` on the rows inside — is the total derivative of the batch value. -/
theorem sqEpsHinge_batchGradAt (e2 : ℝ) (labels : List (List ℝ)) (B m : ℕ) (P0 : ℕ → ℕ → ℝ)
    (hB : labels.length = B) (hl : ∀ l ∈ labels, l.length = m)
    (hk : ∀ i, i < B → ∑ k ∈ range m, (P0 i k - (labels.getD i []).getD k 0) ^ 2 ≠ e2) :
    BatchGradAt B m ((sqEpsHingeLoss e2 : LossFn ℝ (List ℝ)).eval labels)
      ((sqEpsHingeLoss e2 : LossFn ℝ (List ℝ)).evalDerivative labels (toRows B m P0)).2 P0 := by
  apply batchGradAt_of_rows B m _ _ P0
    (fun i p => half * smax 0 (normSqr (zipSub (labels.getD i []) p) - e2))
    (fun i => if 0 < half * smax 0 (normSqr (zipSub (rowOf m (P0 i)) (labels.getD i [])) - e2)
      then zipSub (rowOf m (P0 i)) (labels.getD i []) else (rowOf m (P0 i)).map fun _ => (0 : ℝ))
  · intro P
    show sqEpsHingeEval e2 labels (toRows B m P) = _
    unfold sqEpsHingeEval
    rw [sumL_zipWith_toRows _ [] B m labels P hB, Finset.mul_sum]
  · intro i hi
    show (sqEpsHingeEvalDerivative e2 labels (toRows B m P0)).2.getD i [] = _
    unfold sqEpsHingeEvalDerivative
    simp only []
    rw [List.map_zipWith]
    exact getD_zipWith_toRows _ [] B m labels P0 hB i hi
  · intro i hi
    exact sqEpsHingeRow_rowGradAt e2 m _ (hl _ (getD_mem_of_lt labels [] i (by omega))) (P0 i) (hk i hi)

example : BatchGradAt 2 2 ((sqEpsHingeLoss (1 / 4) : LossFn ℝ (List ℝ)).eval [[0, 0], [1, 1]])
    ((sqEpsHingeLoss (1 / 4) : LossFn ℝ (List ℝ)).evalDerivative [[0, 0], [1, 1]]
      (toRows 2 2 fun i k => (i : ℝ) - k)).2 (fun i k => (i : ℝ) - k) := by
  apply sqEpsHinge_batchGradAt (1 / 4) _ 2 2 _ rfl (by simp)
  intro i hi
  have : i = 0 ∨ i = 1 := by omega
  rcases this with rfl | rfl <;> norm_num [Finset.sum_range_succ]

/-! ## 5. HuberLoss — continuously differentiable: no exclusion of the zone boundary for `0 ≤ delta` -/

theorem sqr_real (a : ℝ) : sqr a = a ^ 2 := by simp [sqr, pow_two]

/-- the scalar profile `x ↦ if x ≤ δ² then ½x else δ√x − ½δ²` of Huber's loss (as a function of the
squared distance) is differentiable also *at* `x0 = δ²` when `δ > 0`: both one-sided derivatives are `½` -/
theorem huberProfile_hasDerivAt (delta x0 : ℝ) (h : 0 < delta ∨ x0 ≠ delta ^ 2) :
    HasDerivAt (fun x => if x ≤ delta ^ 2 then 1 / 2 * x else delta * Real.sqrt x - 1 / 2 * delta ^ 2)
      (if x0 ≤ delta ^ 2 then 1 / 2 else delta / (2 * Real.sqrt x0)) x0 := by
  have hlin : HasDerivAt (fun x : ℝ => 1 / 2 * x) (1 / 2) x0 := by
    simpa using (hasDerivAt_id x0).const_mul (1 / 2 : ℝ)
  rcases lt_trichotomy x0 (delta ^ 2) with hlt | heq | hgt
  · rw [if_pos (le_of_lt hlt)]
    refine hlin.congr_of_eventuallyEq ?_
    filter_upwards [gt_mem_nhds hlt] with x hx
    rw [if_pos (le_of_lt hx)]
  · have hd : 0 < delta := by
      rcases h with h | h
      · exact h
      · exact absurd heq h
    have hx0 : 0 < x0 := by rw [heq]; positivity
    have hsq : Real.sqrt x0 = delta := by rw [heq]; exact Real.sqrt_sq (le_of_lt hd)
    rw [if_pos (le_of_eq heq)]
    have hL : HasDerivWithinAt
        (fun x => if x ≤ delta ^ 2 then 1 / 2 * x else delta * Real.sqrt x - 1 / 2 * delta ^ 2)
        (1 / 2) (Set.Iic x0) x0 := by
      refine hlin.hasDerivWithinAt.congr (fun x hx => ?_) ?_
      · rw [if_pos (le_trans hx (le_of_eq heq))]
      · rw [if_pos (le_of_eq heq)]
    have hR0 : HasDerivAt (fun x => delta * Real.sqrt x - 1 / 2 * delta ^ 2) (1 / 2) x0 := by
      have := ((Real.hasDerivAt_sqrt (ne_of_gt hx0)).const_mul delta).sub_const (1 / 2 * delta ^ 2)
      refine this.congr_deriv ?_
      rw [hsq]
      field_simp
    have hval : (1 : ℝ) / 2 * delta ^ 2 = delta * Real.sqrt (delta ^ 2) - 1 / 2 * delta ^ 2 := by
      rw [Real.sqrt_sq (le_of_lt hd)]; ring
    have hR : HasDerivWithinAt
        (fun x => if x ≤ delta ^ 2 then 1 / 2 * x else delta * Real.sqrt x - 1 / 2 * delta ^ 2)
        (1 / 2) (Set.Ici x0) x0 := by
      refine hR0.hasDerivWithinAt.congr (fun x hx => ?_) ?_
      · by_cases hc : x ≤ delta ^ 2
        · have hxe : x = delta ^ 2 := le_antisymm hc (by rw [← heq]; exact hx)
          rw [if_pos hc, hxe]; exact hval
        · rw [if_neg hc]
      · rw [if_pos (le_of_eq heq), heq]; exact hval
    have hU := hL.union hR
    rw [Set.Iic_union_Ici, hasDerivWithinAt_univ] at hU
    exact hU
  · have hx0 : 0 < x0 := lt_of_le_of_lt (sq_nonneg delta) hgt
    rw [if_neg (not_le.2 hgt)]
    have := ((Real.hasDerivAt_sqrt (ne_of_gt hx0)).const_mul delta).sub_const (1 / 2 * delta ^ 2)
    have hd : HasDerivAt (fun x => delta * Real.sqrt x - 1 / 2 * delta ^ 2)
        (delta / (2 * Real.sqrt x0)) x0 := by
      refine this.congr_deriv ?_
      ring
    refine hd.congr_of_eventuallyEq ?_
    filter_upwards [lt_mem_nhds hgt] with x hx
    rw [if_neg (not_le.2 hx)]

theorem huberRow_value (delta : ℝ) (m : ℕ) (l : List ℝ) (hl : l.length = m) (r : ℕ → ℝ) :
    huberRow Real.sqrt delta l (rowOf m r)
      = if ∑ k ∈ range m, (r k - l.getD k 0) ^ 2 ≤ delta ^ 2
        then 1 / 2 * ∑ k ∈ range m, (r k - l.getD k 0) ^ 2
        else delta * Real.sqrt (∑ k ∈ range m, (r k - l.getD k 0) ^ 2) - 1 / 2 * delta ^ 2 := by
  unfold huberRow
  simp only [normSqr_zipSub_left m r l hl, sqr_real, half_real]

theorem huberGradRow_getD (delta : ℝ) (m : ℕ) (l : List ℝ) (hl : l.length = m) (r : ℕ → ℝ)
    (k : ℕ) (hk : k < m) :
    (huberGradRow Real.sqrt delta l (rowOf m r)).getD k 0
      = if ∑ j ∈ range m, (r j - l.getD j 0) ^ 2 ≤ delta ^ 2 then r k - l.getD k 0
        else delta / Real.sqrt (∑ j ∈ range m, (r j - l.getD j 0) ^ 2) * (r k - l.getD k 0) := by
  unfold huberGradRow
  simp only [normSqr_zipSub_left m r l hl, sqr_real]
  split
  · exact zipSub_rowOf_getD m r l hl k hk
  · unfold rowOf
    rw [zipWith_range_map_left _ 0 m l _ hl, List.getD_eq_getElem?_getD, List.getElem?_map,
      List.getElem?_range hk]
    simp only [Option.map_some, Option.getD_some]
    ring

theorem huberRow_rowGradAt (delta : ℝ) (m : ℕ) (l : List ℝ) (hl : l.length = m) (p0 : ℕ → ℝ)
    (h : 0 ≤ delta ∨ ∑ k ∈ range m, (p0 k - l.getD k 0) ^ 2 ≠ delta ^ 2) :
    RowGradAt m (huberRow Real.sqrt delta l) (huberGradRow Real.sqrt delta l (rowOf m p0)) p0 := by
  intro q q' t0 h0 hq
  rw [← rowOf_congr m (q t0) p0 h0]
  have hN0 : ∑ k ∈ range m, (q t0 k - l.getD k 0) ^ 2 = ∑ k ∈ range m, (p0 k - l.getD k 0) ^ 2 :=
    Finset.sum_congr rfl (fun k hk => by rw [h0 k (mem_range.1 hk)])
  rw [← hN0] at h
  have hN := hasDerivAt_sqdist m (fun k => l.getD k 0) q q' t0 hq
  simp only [huberRow_value delta m l hl]
  rw [Finset.sum_congr rfl (fun k hk => by rw [huberGradRow_getD delta m l hl (q t0) k (mem_range.1 hk)])]
  by_cases hdeg : delta = 0 ∧ ∑ k ∈ range m, (q t0 k - l.getD k 0) ^ 2 = delta ^ 2
  · -- δ = 0 and p0 = l: the value is identically 0, the returned row is p0 − l = 0
    obtain ⟨hd0, hz⟩ := hdeg
    subst hd0
    have hz' : ∑ k ∈ range m, (q t0 k - l.getD k 0) ^ 2 = 0 := by rw [hz]; norm_num
    have hzero : ∀ k ∈ range m, q t0 k - l.getD k 0 = 0 := by
      intro k hk
      have := (Finset.sum_eq_zero_iff_of_nonneg (fun k _ => sq_nonneg (q t0 k - l.getD k 0))).1 hz' k hk
      exact pow_eq_zero_iff (n := 2) (by norm_num) |>.1 this
    have hfun : (fun t => if ∑ k ∈ range m, (q t k - l.getD k 0) ^ 2 ≤ (0 : ℝ) ^ 2
          then 1 / 2 * ∑ k ∈ range m, (q t k - l.getD k 0) ^ 2
          else 0 * Real.sqrt (∑ k ∈ range m, (q t k - l.getD k 0) ^ 2) - 1 / 2 * (0 : ℝ) ^ 2)
        = fun _ => (0 : ℝ) := by
      funext t
      have hnn : 0 ≤ ∑ k ∈ range m, (q t k - l.getD k 0) ^ 2 :=
        Finset.sum_nonneg (fun k _ => sq_nonneg _)
      split
      · rename_i hle
        have : ∑ k ∈ range m, (q t k - l.getD k 0) ^ 2 = 0 := le_antisymm (by simpa using hle) hnn
        rw [this]; ring
      · ring
    rw [hfun]
    have hsum : ∑ x ∈ range m, (if ∑ j ∈ range m, (q t0 j - l.getD j 0) ^ 2 ≤ (0 : ℝ) ^ 2
          then q t0 x - l.getD x 0
          else 0 / Real.sqrt (∑ j ∈ range m, (q t0 j - l.getD j 0) ^ 2) * (q t0 x - l.getD x 0)) * q' x = 0 := by
      apply Finset.sum_eq_zero
      intro k hk
      rw [hzero k hk]
      simp
    rw [hsum]
    exact hasDerivAt_const t0 (0 : ℝ)
  · have hcond : 0 < delta ∨ ∑ k ∈ range m, (q t0 k - l.getD k 0) ^ 2 ≠ delta ^ 2 := by
      by_cases he : ∑ k ∈ range m, (q t0 k - l.getD k 0) ^ 2 = delta ^ 2
      · left
        rcases h with h | h
        · rcases lt_or_eq_of_le h with h' | h'
          · exact h'
          · exact absurd ⟨h'.symm, he⟩ hdeg
        · exact absurd he h
      · right; exact he
    have hP := huberProfile_hasDerivAt delta (∑ k ∈ range m, (q t0 k - l.getD k 0) ^ 2) hcond
    have hd := HasDerivAt.comp
      (h₂ := fun x => if x ≤ delta ^ 2 then 1 / 2 * x else delta * Real.sqrt x - 1 / 2 * delta ^ 2)
      t0 hP hN
    refine HasDerivAt.congr_deriv hd ?_
    rw [Finset.mul_sum]
    apply Finset.sum_congr rfl
    intro k _
    split
    · ring
    · ring

/-- **HuberLoss**, `0 ≤ delta`: the returned matrix (`p − l` in the quadratic zone,
`δ/‖p−l‖·p − δ/‖p−l‖·l` outside) is the total derivative of the batch value at *every* prediction —
the zone boundary `‖p−l‖² = δ²` is **not** excluded (Huber's loss is `C¹`). -/
theorem huber_batchGradAt (delta : ℝ) (hd : 0 ≤ delta) (labels : List (List ℝ)) (B m : ℕ)
    (P0 : ℕ → ℕ → ℝ) (hB : labels.length = B) (hl : ∀ l ∈ labels, l.length = m) :
    BatchGradAt B m ((huberLoss Real.sqrt delta : LossFn ℝ (List ℝ)).eval labels)
      ((huberLoss Real.sqrt delta : LossFn ℝ (List ℝ)).evalDerivative labels (toRows B m P0)).2 P0 := by
  apply batchGradAt_of_rows B m _ _ P0
    (fun i => huberRow Real.sqrt delta (labels.getD i []))
    (fun i => huberGradRow Real.sqrt delta (labels.getD i []) (rowOf m (P0 i)))
  · intro P
    exact sumL_zipWith_toRows _ [] B m labels P hB
  · intro i hi
    exact getD_zipWith_toRows (huberGradRow Real.sqrt delta) [] B m labels P0 hB i hi
  · intro i hi
    exact huberRow_rowGradAt delta m _ (hl _ (getD_mem_of_lt labels [] i (by omega))) (P0 i) (Or.inl hd)

/-- variant for an arbitrary (possibly negative) `delta`, with the zone boundary excluded -/
theorem huber_batchGradAt_of_ne (delta : ℝ) (labels : List (List ℝ)) (B m : ℕ)
    (P0 : ℕ → ℕ → ℝ) (hB : labels.length = B) (hl : ∀ l ∈ labels, l.length = m)
    (hk : ∀ i, i < B → ∑ k ∈ range m, (P0 i k - (labels.getD i []).getD k 0) ^ 2 ≠ delta ^ 2) :
    BatchGradAt B m ((huberLoss Real.sqrt delta : LossFn ℝ (List ℝ)).eval labels)
      ((huberLoss Real.sqrt delta : LossFn ℝ (List ℝ)).evalDerivative labels (toRows B m P0)).2 P0 := by
  apply batchGradAt_of_rows B m _ _ P0
    (fun i => huberRow Real.sqrt delta (labels.getD i []))
    (fun i => huberGradRow Real.sqrt delta (labels.getD i []) (rowOf m (P0 i)))
  · intro P
    exact sumL_zipWith_toRows _ [] B m labels P hB
  · intro i hi
    exact getD_zipWith_toRows (huberGradRow Real.sqrt delta) [] B m labels P0 hB i hi
  · intro i hi
    exact huberRow_rowGradAt delta m _ (hl _ (getD_mem_of_lt labels [] i (by omega))) (P0 i)
      (Or.inr (hk i hi))

/-- non-vacuity: `delta = 1`; row 0 lies exactly *on* the zone boundary (`‖(0,−1) − (0,0)‖² = 1 = δ²`),
row 1 (`‖(1,0) − (3,0)‖² = 4`) outside -/
example : BatchGradAt 2 2 ((huberLoss Real.sqrt 1 : LossFn ℝ (List ℝ)).eval [[0, 0], [3, 0]])
    ((huberLoss Real.sqrt 1 : LossFn ℝ (List ℝ)).evalDerivative [[0, 0], [3, 0]]
      (toRows 2 2 fun i k => (i : ℝ) - k)).2 (fun i k => (i : ℝ) - k) :=
  huber_batchGradAt 1 (by norm_num) _ 2 2 _ rfl (by simp)

example : BatchGradAt 2 2 ((huberLoss Real.sqrt (-1) : LossFn ℝ (List ℝ)).eval [[0, 0], [5, 0]])
    ((huberLoss Real.sqrt (-1) : LossFn ℝ (List ℝ)).evalDerivative [[0, 0], [5, 0]]
      (toRows 2 2 fun i k => 2 * (i : ℝ) - 2 * k)).2 (fun i k => 2 * (i : ℝ) - 2 * k) := by
  apply huber_batchGradAt_of_ne (-1) _ 2 2 _ rfl (by simp)
  intro i hi
  have : i = 0 ∨ i = 1 := by omega
  rcases this with rfl | rfl <;> norm_num [Finset.sum_range_succ]

end SharkVerif.ErrFn
