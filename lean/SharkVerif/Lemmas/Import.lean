/-
Helper lemmas for `Props/C19.lean` (importer model `Model/Import.lean`).
-/
import SharkVerif.Model.Import
namespace SharkVerif.Import

/-! ### strictly increasing lists -/

theorem si_cons {a : Nat} : ∀ {l : List Nat}, strictlyIncreasing (a :: l) = true →
    strictlyIncreasing l = true ∧ ∀ x ∈ l, a < x := by
  intro l
  induction l generalizing a with
  | nil => intro _; exact ⟨rfl, by simp⟩
  | cons b t ih =>
    intro h
    simp only [strictlyIncreasing, Bool.and_eq_true, decide_eq_true_eq] at h
    refine ⟨h.2, ?_⟩
    intro x hx
    rcases List.mem_cons.mp hx with rfl | hx
    · exact h.1
    · exact Nat.lt_trans h.1 ((ih h.2).2 x hx)

theorem si_le_last : ∀ {l : List Nat}, strictlyIncreasing l = true → ∀ y, l.getLast? = some y →
    ∀ x ∈ l, x ≤ y := by
  intro l
  induction l with
  | nil => intro _ y hy; simp at hy
  | cons a t ih =>
    intro h y hy x hx
    have ht := si_cons h
    cases t with
    | nil =>
      simp at hy hx; omega
    | cons b t' =>
      have hy' : (b :: t').getLast? = some y := by simpa [List.getLast?_cons_cons] using hy
      have ymem : y ∈ (b :: t') := List.mem_of_getLast? hy'
      rcases List.mem_cons.mp hx with rfl | hx
      · exact Nat.le_of_lt (ht.2 y ymem)
      · exact ih ht.1 y hy' x hx

theorem si_head_le {l : List Nat} (h : strictlyIncreasing l = true) (a : Nat) (ha : l.head? = some a) :
    ∀ x ∈ l, a ≤ x := by
  cases l with
  | nil => simp at ha
  | cons b t =>
    simp at ha; subst ha
    intro x hx
    rcases List.mem_cons.mp hx with rfl | hx
    · exact Nat.le_refl _
    · exact Nat.le_of_lt ((si_cons h).2 x hx)

/-- a strictly monotone map keeps a list strictly increasing -/
theorem si_map {f : Nat → Nat} : ∀ {l : List Nat}, strictlyIncreasing l = true →
    (∀ x ∈ l, ∀ y ∈ l, x < y → f x < f y) → strictlyIncreasing (l.map f) = true := by
  intro l
  induction l with
  | nil => intro _ _; rfl
  | cons a t ih =>
    intro h hf
    cases t with
    | nil => rfl
    | cons b t' =>
      have h' := h
      simp only [strictlyIncreasing, Bool.and_eq_true, decide_eq_true_eq] at h'
      simp only [List.map_cons, strictlyIncreasing, Bool.and_eq_true, decide_eq_true_eq]
      refine ⟨hf a (by simp) b (by simp) h'.1, ?_⟩
      have := ih h'.2 (fun x hx y hy => hf x (List.mem_cons_of_mem _ hx) y (List.mem_cons_of_mem _ hy))
      simpa using this

/-! ### folds -/

theorem foldl_max_ge_init {α} (g : α → Nat → Nat) (hg : ∀ a m, m ≤ g a m) :
    ∀ (l : List α) (m : Nat), m ≤ l.foldl (fun m a => g a m) m := by
  intro l
  induction l with
  | nil => intro m; exact Nat.le_refl _
  | cons a t ih => intro m; exact Nat.le_trans (hg a m) (ih _)

theorem foldl_max_ge_mem {α} (g : α → Nat → Nat) (hg : ∀ a m, m ≤ g a m) :
    ∀ (l : List α) (m : Nat) (a : α), a ∈ l → ∀ k, (∀ m, k ≤ g a m) → k ≤ l.foldl (fun m a => g a m) m := by
  intro l
  induction l with
  | nil => intro m a ha; simp at ha
  | cons b t ih =>
    intro m a ha k hk
    rcases List.mem_cons.mp ha with rfl | ha
    · exact Nat.le_trans (hk m) (foldl_max_ge_init g hg t _)
    · exact ih _ a ha k hk

theorem foldl_max_nat_ge (l : List Nat) (m : Nat) : ∀ x ∈ l, x ≤ l.foldl max m := by
  intro x hx
  have := foldl_max_ge_mem (fun (a m : Nat) => max m a) (fun a m => Nat.le_max_left _ _) l m x hx x
    (fun m => Nat.le_max_right _ _)
  simpa using this

theorem foldl_max_nat_ge_init (l : List Nat) (m : Nat) : m ≤ l.foldl max m := by
  have := foldl_max_ge_init (fun (a m : Nat) => max m a) (fun a m => Nat.le_max_left _ _) l m
  simpa using this

theorem sum_replicate (k b acc : Nat) : (List.replicate k b).foldl (· + ·) acc = acc + k * b := by
  induction k generalizing acc with
  | zero => simp
  | succ k ih => simp [List.replicate_succ, ih, Nat.succ_mul]; omega

theorem foldl_add_append (l₁ l₂ : List Nat) (acc : Nat) :
    (l₁ ++ l₂).foldl (· + ·) acc = l₂.foldl (· + ·) (l₁.foldl (· + ·) acc) := by
  simp [List.foldl_append]

/-! ### `initBatches` -/

theorem initBatches_sum (n bs : Nat) : (initBatches n bs).foldl (· + ·) 0 = n := by
  unfold initBatches
  split
  · simp
  · rename_i h
    have hbs : 0 < bs := by omega
    have hle : bs ≤ n := by omega
    simp only [foldl_add_append, sum_replicate, List.foldl_cons, List.foldl_nil, Nat.zero_add]
    have hdm := Nat.div_add_mod n bs
    have hdpos : 0 < n / bs := Nat.div_pos hle hbs
    have hmod := Nat.mod_lt n hbs
    split
    · -- remainder: batches - 1 = n / bs
      have : n / bs + 1 - 1 = n / bs := by omega
      rw [this]
      have : n / bs * bs ≤ n := by rw [Nat.mul_comm]; omega
      omega
    · have hz : n % bs = 0 := by omega
      have h1 : n / bs + 0 - 1 = n / bs - 1 := by omega
      rw [h1]
      have : (n / bs - 1) * bs ≤ n := by
        have : (n / bs - 1) * bs ≤ n / bs * bs := Nat.mul_le_mul_right _ (by omega)
        have : n / bs * bs ≤ n := by rw [Nat.mul_comm]; omega
        omega
      omega

theorem initBatches_le (n bs : Nat) (hbs : 0 < bs) : ∀ b ∈ initBatches n bs, b ≤ bs := by
  unfold initBatches
  split
  · rename_i h; intro b hb; simp at hb; omega
  · rename_i h
    have hle : bs ≤ n := by omega
    intro b hb
    simp only [List.mem_append, List.mem_replicate, List.mem_cons, List.not_mem_nil, or_false] at hb
    rcases hb with ⟨_, rfl⟩ | rfl
    · exact Nat.le_refl _
    · have hdm := Nat.div_add_mod n bs
      have hdpos : 0 < n / bs := Nat.div_pos hle hbs
      have hmod := Nat.mod_lt n hbs
      split
      · have : n / bs + 1 - 1 = n / bs := by omega
        rw [this]
        have : n / bs * bs = bs * (n / bs) := Nat.mul_comm _ _
        omega
      · have hz : n % bs = 0 := by omega
        have h1 : n / bs + 0 - 1 = n / bs - 1 := by omega
        rw [h1]
        have h2 : (n / bs - 1) * bs = n / bs * bs - bs := by
          rw [Nat.sub_mul, Nat.one_mul]
        have : n / bs * bs = bs * (n / bs) := Nat.mul_comm _ _
        have : bs ≤ bs * (n / bs) := Nat.le_mul_of_pos_right _ hdpos
        omega

/-! ### LibSVM importer -/
namespace Svm
variable {V : Type}

theorem maxIndexLast_ge (recs : List (Rec V)) (r : Rec V) (hr : r ∈ recs) (p : Nat × V)
    (hp : r.feats.getLast? = some p) : p.1 ≤ maxIndexLast recs := by
  unfold maxIndexLast
  refine foldl_max_ge_mem (fun (r : Rec V) m => match r.feats.getLast? with
    | some p => max m p.1
    | none => m) ?_ recs 0 r hr p.1 ?_
  · intro a m; cases a.feats.getLast? <;> simp; exact Nat.le_max_left _ _
  · intro m; simp only [hp]; exact Nat.le_max_right _ _

theorem hasZeroFirst_false {recs : List (Rec V)} (h : hasZeroFirst recs = false) (r : Rec V) (hr : r ∈ recs)
    (p : Nat × V) (hp : r.feats.head? = some p) : p.1 ≠ 0 := by
  unfold hasZeroFirst at h
  rw [List.any_eq_false] at h
  have := h r hr
  simp only [hp] at this
  simpa using this

/-- every index of a sorted record is at most its last index and at least its first -/
theorem sorted_bounds {r : Rec V} (hs : recSorted r = true) (q : Nat × V) (hq : q ∈ r.feats) :
    (∀ p, r.feats.getLast? = some p → q.1 ≤ p.1) ∧ (∀ p, r.feats.head? = some p → p.1 ≤ q.1) := by
  unfold recSorted at hs
  have hmem : q.1 ∈ r.feats.map (·.1) := List.mem_map.mpr ⟨q, hq, rfl⟩
  constructor
  · intro p hp
    exact si_le_last hs p.1 (by simp [List.getLast?_map, hp]) q.1 hmem
  · intro p hp
    exact si_head_le hs p.1 (by simp [List.head?_map, hp]) q.1 hmem

/-- **key lemma**: for sorted records every write index of `copySparsePoints`
is below the allocated size `maxIndex + (hasZero ? 1 : 0)` -/
theorem writes_lt_size (recs : List (Rec V)) (dims : Nat) (hs : recs.all recSorted = true)
    (r : Rec V) (hr : r ∈ recs) (w : Nat × V)
    (hw : w ∈ writes (deltaOf (hasZeroFirst recs)) r) :
    w.1 < vecSize (max (maxIndexLast recs) dims) (hasZeroFirst recs) := by
  have hsr : recSorted r = true := List.all_eq_true.mp hs r hr
  unfold writes deltaOf at hw
  unfold vecSize
  obtain ⟨q, hq, rfl⟩ := List.mem_map.mp hw
  have hb := sorted_bounds hsr q hq
  -- the record is non-empty, so it has a first and a last entry
  have hne : r.feats ≠ [] := List.ne_nil_of_mem hq
  obtain ⟨pl, hpl⟩ : ∃ p, r.feats.getLast? = some p := by
    cases h : r.feats.getLast? with
    | none => exact absurd (List.getLast?_eq_none_iff.mp h) hne
    | some p => exact ⟨p, rfl⟩
  obtain ⟨ph, hph⟩ : ∃ p, r.feats.head? = some p := by
    cases h : r.feats with
    | nil => exact absurd h hne
    | cons a t => exact ⟨a, rfl⟩
  have h1 : q.1 ≤ maxIndexLast recs := Nat.le_trans (hb.1 pl hpl) (maxIndexLast_ge recs r hr pl hpl)
  have hmax : maxIndexLast recs ≤ max (maxIndexLast recs) dims := Nat.le_max_left _ _
  cases hz : hasZeroFirst recs with
  | true => simp [writeIndex]; omega
  | false =>
    have h0 : ph.1 ≠ 0 := hasZeroFirst_false hz r hr ph hph
    have h2 : ph.1 ≤ q.1 := hb.2 ph hph
    simp [writeIndex]
    split <;> omega

theorem oobOf_none (sparse : Bool) (size : Nat) (wss : List (List (Nat × V)))
    (h : ∀ ws ∈ wss, ∀ w ∈ ws, w.1 < size) : oobOf sparse size wss = none := by
  unfold oobOf
  split
  · rfl
  · rw [List.findSome?_eq_none_iff]
    intro ws hws
    unfold firstOob
    rw [Option.map_eq_none_iff, List.find?_eq_none]
    intro w hw
    have := h ws hws w hw
    simp; omega

theorem finish_ne_oob (zero : V) (cfg : Cfg) (size shape : Nat) (wss : List (List (Nat × V)))
    (batches : List Nat) (labels : Labels V) (i n : Nat) :
    finish zero cfg size shape wss batches labels ≠ .oobWrite i n := by
  unfold finish
  cases labels with
  | cls ls => simp only; split <;> simp
  | reg ls => simp
  | none => simp

theorem finish_ub (zero : V) (cfg : Cfg) (size shape : Nat) (wss : List (List (Nat × V)))
    (batches : List Nat) (labels : Labels V)
    (h : finish zero cfg size shape wss batches labels = .ubEmptyMax) : labels = .cls [] := by
  unfold finish at h
  cases labels with
  | cls ls =>
    simp only at h
    split at h
    · rename_i he; simp at he; rw [he]
    · simp at h
  | reg ls => simp at h
  | none => simp at h

/-- what `build` can return, stage by stage -/
theorem build_eq (zero : V) (cfg : Cfg) (recs : List (Rec V)) (maxIndex : Nat) (hasZero : Bool)
    (labels : Labels V) (sh : Bool) :
    build zero cfg recs maxIndex hasZero labels sh = .allocFail ∨
    (∃ i, oobOf cfg.sparse (vecSize maxIndex hasZero) (recs.map (writes (deltaOf hasZero))) = some i ∧
      build zero cfg recs maxIndex hasZero labels sh = .oobWrite i (vecSize maxIndex hasZero)) ∨
    (oobOf cfg.sparse (vecSize maxIndex hasZero) (recs.map (writes (deltaOf hasZero))) = none ∧
      build zero cfg recs maxIndex hasZero labels sh =
        finish zero cfg (vecSize maxIndex hasZero) (if sh then vecSize maxIndex hasZero else maxIndex)
          (recs.map (writes (deltaOf hasZero))) (initBatches recs.length cfg.bs) labels) := by
  unfold build
  simp only
  split
  · exact Or.inl rfl
  · cases h : oobOf cfg.sparse (vecSize maxIndex hasZero) (recs.map (writes (deltaOf hasZero))) with
    | none => exact Or.inr (Or.inr ⟨rfl, rfl⟩)
    | some i => exact Or.inr (Or.inl ⟨i, rfl, rfl⟩)

end Svm

theorem allSome_length {α : Type} : ∀ {l : List (Option α)} {ls : List α}, allSome l = some ls → ls.length = l.length := by
  intro l
  induction l with
  | nil => intro ls h; simp [allSome] at h; subst h; rfl
  | cons a t ih =>
    intro ls h
    cases a with
    | none => simp [allSome] at h
    | some x =>
      simp only [allSome] at h
      cases ht : allSome t with
      | none => simp [ht] at h
      | some l' =>
        simp [ht] at h; subst h
        simp [ih ht]

theorem classLabels_length {raw : List (Option Int)} {ls : List Nat} (h : classLabels raw = some ls) :
    ls.length = raw.length := by
  unfold classLabels at h
  split at h
  · simp at h
  · rename_i ls' hm
    split at h
    · simp at h
    · dsimp only at h
      split at h
      · simp at h
        rw [← h]; simp [allSome_length hm]
      · simp at h

end SharkVerif.Import

namespace SharkVerif.Import
namespace Svm
variable {V : Type}

theorem denseRow_length (zero : V) (size : Nat) (ws : List (Nat × V)) : (denseRow zero size ws).length = size := by
  simp [denseRow]

/-- for sorted records the stored indices of a row stay strictly increasing after the `- delta` shift -/
theorem writes_increasing (recs : List (Rec V)) (hs : recs.all recSorted = true) (r : Rec V) (hr : r ∈ recs) :
    strictlyIncreasing ((writes (deltaOf (hasZeroFirst recs)) r).map (·.1)) = true := by
  have hsr : recSorted r = true := List.all_eq_true.mp hs r hr
  have hmap : (writes (deltaOf (hasZeroFirst recs)) r).map (·.1)
      = (r.feats.map (·.1)).map (writeIndex (deltaOf (hasZeroFirst recs))) := by
    simp [writes, List.map_map, Function.comp_def]
  rw [hmap]
  apply si_map hsr
  intro x hx y hy hxy
  obtain ⟨q, hq, rfl⟩ := List.mem_map.mp hx
  obtain ⟨q', hq', rfl⟩ := List.mem_map.mp hy
  cases hz : hasZeroFirst recs with
  | true => simp [deltaOf, writeIndex]; exact hxy
  | false =>
    -- all indices are at least 1
    have hne : r.feats ≠ [] := List.ne_nil_of_mem hq
    obtain ⟨ph, hph⟩ : ∃ p, r.feats.head? = some p := by
      cases h : r.feats with
      | nil => exact absurd h hne
      | cons a t => exact ⟨a, rfl⟩
    have h0 : ph.1 ≠ 0 := hasZeroFirst_false hz r hr ph hph
    have h1 := (sorted_bounds hsr q hq).2 ph hph
    have h2 := (sorted_bounds hsr q' hq').2 ph hph
    simp [deltaOf, writeIndex]
    split <;> split <;> omega

theorem numberOfClasses_gt (ls : List Nat) : ∀ l ∈ ls, l < numberOfClasses ls := by
  intro l hl
  have := foldl_max_nat_ge ls 0 l hl
  unfold numberOfClasses; omega

end Svm
end SharkVerif.Import

namespace SharkVerif.Import

/-! ### `optimalBatchSizes` -/

theorem foldl_add_init (l : List Nat) (a : Nat) : l.foldl (· + ·) a = a + l.foldl (· + ·) 0 := by
  induction l generalizing a with
  | nil => simp
  | cons x t ih => simp only [List.foldl_cons, Nat.zero_add]; rw [ih (a + x), ih x]; omega

theorem sum_range_steps (opt rem : Nat) : ∀ b, ((List.range b).map fun j => if j < rem then opt + 1 else opt).foldl (· + ·) 0
    = b * opt + min rem b := by
  intro b
  induction b with
  | zero => simp
  | succ b ih =>
    rw [List.range_succ, List.map_append, List.foldl_append, ih]
    simp only [List.map_cons, List.map_nil, List.foldl_cons, List.foldl_nil]
    rw [Nat.succ_mul]
    split <;> omega

/-- number of batches chosen by `optimalBatchSizes` -/
def numBatches (n maxB : Nat) : Nat := if n - n / maxB * maxB > 0 then n / maxB + 1 else n / maxB

theorem numBatches_pos {n maxB : Nat} (hn : 0 < n) (hm : 0 < maxB) : 0 < numBatches n maxB := by
  unfold numBatches
  split
  · exact Nat.succ_pos _
  · rename_i h
    have hdm := Nat.div_add_mod n maxB
    have : n / maxB * maxB = maxB * (n / maxB) := Nat.mul_comm _ _
    have hz : n % maxB = 0 := by omega
    have : 0 < n / maxB := by
      rcases Nat.eq_zero_or_pos (n / maxB) with h0 | h0
      · rw [h0] at hdm; omega
      · exact h0
    exact this

theorem le_numBatches_mul {n maxB : Nat} (hm : 0 < maxB) : n ≤ numBatches n maxB * maxB := by
  unfold numBatches
  have hdm := Nat.div_add_mod n maxB
  have hmod := Nat.mod_lt n hm
  have hc : n / maxB * maxB = maxB * (n / maxB) := Nat.mul_comm _ _
  split
  · rw [Nat.succ_mul]; omega
  · omega

theorem optimalBatchSizes_eq (n maxB : Nat) : optimalBatchSizes n maxB =
    (List.range (numBatches n maxB)).map fun j =>
      if j < n - numBatches n maxB * (n / numBatches n maxB) then n / numBatches n maxB + 1 else n / numBatches n maxB := by
  unfold optimalBatchSizes numBatches
  rfl

/-- the batch sizes add up to the number of rows -/
theorem optimalBatchSizes_sum {n maxB : Nat} (hn : 0 < n) (hm : 0 < maxB) :
    (optimalBatchSizes n maxB).foldl (· + ·) 0 = n := by
  rw [optimalBatchSizes_eq, sum_range_steps]
  have hb := numBatches_pos hn hm
  generalize numBatches n maxB = b at *
  have hdm := Nat.div_add_mod n b
  have hmod := Nat.mod_lt n hb
  have : n - b * (n / b) = n % b := by omega
  rw [this, Nat.min_eq_left (Nat.le_of_lt hmod)]
  omega

/-- no batch is larger than requested -/
theorem optimalBatchSizes_le {n maxB : Nat} (hn : 0 < n) (hm : 0 < maxB) :
    ∀ x ∈ optimalBatchSizes n maxB, x ≤ maxB := by
  rw [optimalBatchSizes_eq]
  have hb := numBatches_pos hn hm
  have hle := le_numBatches_mul (n := n) hm
  generalize numBatches n maxB = b at *
  have hopt : n / b ≤ maxB := Nat.div_le_of_le_mul hle
  intro x hx
  obtain ⟨j, _, rfl⟩ := List.mem_map.mp hx
  split
  · rename_i hj
    -- remainder positive ⇒ opt < maxB
    have hrem : 0 < n - b * (n / b) := by omega
    rcases Nat.lt_or_ge (n / b) maxB with h | h
    · omega
    · exfalso
      have h1 : b * maxB ≤ b * (n / b) := Nat.mul_le_mul_left _ h
      have h2 : b * maxB = maxB * b := Nat.mul_comm _ _
      have h3 : n ≤ b * maxB := hle
      omega
  · exact hopt

theorem optimalBatchSizes_length (n maxB : Nat) : (optimalBatchSizes n maxB).length = numBatches n maxB := by
  rw [optimalBatchSizes_eq]; simp

end SharkVerif.Import

namespace SharkVerif.Import

/-! ### label scan on non-negative labels -/

theorem allSome_map_some {α : Type} (l : List α) : allSome (l.map some) = some l := by
  induction l with
  | nil => rfl
  | cons a t ih => simp [allSome, ih]

theorem scan_nonneg (ls : List Int) (hnn : ∀ l ∈ ls, 0 ≤ l) : ∀ (s : LabelScan), s.binary = false → 0 ≤ s.minPos →
    (ls.foldl LabelScan.step s).binary = false ∧ 0 ≤ (ls.foldl LabelScan.step s).minPos ∧
    (ls.foldl LabelScan.step s).minPos ≤ s.minPos ∧ ∀ l ∈ ls, (ls.foldl LabelScan.step s).minPos ≤ l := by
  induction ls with
  | nil => intro s hb hm; exact ⟨hb, hm, Int.le_refl _, by simp⟩
  | cons a t ih =>
    intro s hb hm
    have ha : 0 ≤ a := hnn a (by simp)
    have hne : a ≠ -1 := by omega
    simp only [List.foldl_cons]
    have hstep : (s.step a).binary = false ∧ 0 ≤ (s.step a).minPos ∧ (s.step a).minPos ≤ s.minPos ∧ (s.step a).minPos ≤ a := by
      unfold LabelScan.step
      rw [if_neg hne]
      split
      · exact ⟨hb, ha, by simp; omega, by simp⟩
      · split
        · exact ⟨hb, hm, Int.le_refl _, by simp; omega⟩
        · exact ⟨hb, hm, Int.le_refl _, by omega⟩
    have := ih (fun l hl => hnn l (by simp [hl])) (s.step a) hstep.1 hstep.2.1
    refine ⟨this.1, this.2.1, Int.le_trans this.2.2.1 hstep.2.2.1, ?_⟩
    intro l hl
    rcases List.mem_cons.mp hl with rfl | hl
    · exact Int.le_trans this.2.2.1 hstep.2.2.2
    · exact this.2.2.2 l hl

/-- class indices that contain class 0 pass the label logic unchanged -/
theorem classLabels_nat (ls : List Nat) (h0 : 0 ∈ ls) :
    classLabels (ls.map fun (l : Nat) => some (Int.ofNat l)) = some ls := by
  have hmap : (ls.map fun (l : Nat) => some (Int.ofNat l)) = (ls.map Int.ofNat).map some := by simp
  unfold classLabels
  rw [hmap, allSome_map_some]
  simp only
  have hnn : ∀ l ∈ ls.map Int.ofNat, 0 ≤ l := by
    intro l hl; obtain ⟨n, _, rfl⟩ := List.mem_map.mp hl; exact Int.natCast_nonneg n
  have hany : (ls.map Int.ofNat).any (fun l => decide (l < -1)) = false := by
    rw [List.any_eq_false]; intro l hl; have := hnn l hl; simp; omega
  rw [hany]
  simp only [Bool.false_eq_true, if_false]
  have hs := scan_nonneg _ hnn {} rfl (by decide)
  have hmin : (scanLabels (ls.map Int.ofNat)).minPos = 0 := by
    have h1 := hs.2.2.2 0 (List.mem_map.mpr ⟨0, h0, rfl⟩)
    have h2 := hs.2.1
    unfold scanLabels; omega
  have hok : (scanLabels (ls.map Int.ofNat)).ok = true := by
    unfold LabelScan.ok; simp [hmin]
  rw [hok]
  simp only [if_true, Option.some.injEq]
  have hb : (scanLabels (ls.map Int.ofNat)).binary = false := hs.1
  rw [List.map_map]
  conv => rhs; rw [← List.map_id ls]
  apply List.map_congr_left
  intro l _
  simp [normLabel, hb, hmin]

end SharkVerif.Import

/-! ### token image of the LibSVM exporter and its read-back -/
namespace SharkVerif.Import.Svm
variable {V : Type}

/-- index/value pairs `(o, v₀), (o+1, v₁), …` -/
def enumFrom' (o : Nat) : List V → List (Nat × V)
  | [] => []
  | v :: t => (o, v) :: enumFrom' (o + 1) t

theorem find_enumFrom' (vs : List V) : ∀ (o k : Nat),
    (enumFrom' o vs).reverse.find? (fun p => p.1 == k) =
      if h : o ≤ k ∧ k - o < vs.length then some (k, vs[k - o]'h.2) else none := by
  induction vs with
  | nil => intro o k; simp [enumFrom']
  | cons v t ih =>
    intro o k
    simp only [enumFrom', List.reverse_cons, List.find?_append, ih (o + 1) k]
    by_cases h1 : o + 1 ≤ k ∧ k - (o + 1) < t.length
    · have h2 : o ≤ k ∧ k - o < (v :: t).length := by simp only [List.length_cons]; omega
      rw [dif_pos h1, dif_pos h2]
      simp only [Option.some_or]
      have : k - o = (k - (o + 1)) + 1 := by omega
      simp [this]
    · rw [dif_neg h1]
      simp only [Option.none_or, List.find?_cons, List.find?_nil]
      by_cases hk : o = k
      · subst hk
        have h2 : o ≤ o ∧ o - o < (v :: t).length := by simp
        rw [dif_pos h2]; simp
      · have : ((o, v).1 == k) = false := by simp [hk]
        rw [this]
        have h2 : ¬ (o ≤ k ∧ k - o < (v :: t).length) := by
          simp only [List.length_cons]; omega
        rw [dif_neg h2]

theorem denseRow_enum (zero : V) (vs : List V) : denseRow zero vs.length (enumFrom' 0 vs) = vs := by
  apply List.ext_getElem
  · simp [denseRow]
  · intro k h1 h2
    simp only [denseRow, List.getElem_map, List.getElem_range, find_enumFrom' vs 0 k]
    have : 0 ≤ k ∧ k - 0 < vs.length := by omega
    rw [dif_pos this]
    simp

end SharkVerif.Import.Svm

namespace SharkVerif.Import.Svm
variable {V : Type}

theorem writes_enum (lab : V) (vs : List V) : ∀ o, writes 1 ⟨lab, enumFrom' (o + 1) vs⟩ = enumFrom' o vs := by
  induction vs with
  | nil => intro o; rfl
  | cons v t ih =>
    intro o
    have := ih (o + 1)
    simp only [writes, enumFrom', List.map_cons] at this ⊢
    rw [this]
    simp [writeIndex]

theorem enum_sorted (vs : List V) : ∀ o, strictlyIncreasing ((enumFrom' o vs).map (·.1)) = true := by
  induction vs with
  | nil => intro o; rfl
  | cons v t ih =>
    intro o
    cases t with
    | nil => rfl
    | cons w t' =>
      have := ih (o + 1)
      simp only [enumFrom', List.map_cons, strictlyIncreasing, Bool.and_eq_true, decide_eq_true_eq] at this ⊢
      exact ⟨by omega, this⟩

theorem enum_head (vs : List V) (o : Nat) (h : vs ≠ []) : ∃ v, (enumFrom' o vs).head? = some (o, v) := by
  cases vs with
  | nil => exact absurd rfl h
  | cons v t => exact ⟨v, rfl⟩

theorem enum_last (vs : List V) : ∀ o, vs ≠ [] → ∃ v, (enumFrom' o vs).getLast? = some (o + vs.length - 1, v) := by
  induction vs with
  | nil => intro o h; exact absurd rfl h
  | cons v t ih =>
    intro o _
    cases t with
    | nil => exact ⟨v, by simp [enumFrom']⟩
    | cons w t' =>
      obtain ⟨x, hx⟩ := ih (o + 1) (by simp)
      refine ⟨x, ?_⟩
      simp only [enumFrom', List.getLast?_cons_cons] at hx ⊢
      rw [hx]; simp only [List.length_cons]; congr 2; omega

theorem maxIndexLast_le (recs : List (Rec V)) (d : Nat)
    (h : ∀ r ∈ recs, ∀ p, r.feats.getLast? = some p → p.1 ≤ d) : maxIndexLast recs ≤ d := by
  unfold maxIndexLast
  suffices H : ∀ (m : Nat), m ≤ d → recs.foldl (fun m r => match r.feats.getLast? with
      | some p => max m p.1
      | none => m) m ≤ d from H 0 (Nat.zero_le _)
  induction recs with
  | nil => intro m hm; exact hm
  | cons r t ih =>
    intro m hm
    simp only [List.foldl_cons]
    apply ih (fun r' hr' => h r' (by simp [hr']))
    cases hl : r.feats.getLast? with
    | none => exact hm
    | some p => exact Nat.max_le.mpr ⟨hm, h r (by simp) p hl⟩

end SharkVerif.Import.Svm
