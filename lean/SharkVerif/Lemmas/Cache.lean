/-
Helper lemmas for the C09 property theorems (LRU cache invariant).
-/
import SharkVerif.Model.Cache
namespace SharkVerif.Cache
open LRU

variable {V : Type}

@[simp] theorem upd_same {α} (f : Nat → α) (i : Nat) (v : α) : upd f i v i = v := by simp [upd]
theorem upd_ne {α} (f : Nat → α) {i k : Nat} (v : α) (h : k ≠ i) : upd f i v k = f k := by simp [upd, h]

@[simp] theorem swapIdx_left (i j : Nat) : swapIdx i j i = j := by simp [swapIdx]
@[simp] theorem swapIdx_right (i j : Nat) : swapIdx i j j = i := by
  unfold swapIdx; split <;> simp_all
theorem swapIdx_other {i j k : Nat} (h1 : k ≠ i) (h2 : k ≠ j) : swapIdx i j k = k := by
  simp [swapIdx, h1, h2]
@[simp] theorem swapIdx_invol (i j k : Nat) : swapIdx i j (swapIdx i j k) = k := by
  unfold swapIdx; split <;> split <;> (try split) <;> simp_all
theorem swapIdx_inj (i j : Nat) {a b : Nat} (h : swapIdx i j a = swapIdx i j b) : a = b := by
  have := congrArg (swapIdx i j) h; simpa using this

/-- sum of line lengths over the LRU list -/
def total (lines : Nat → List V) (l : List Nat) : Nat := (l.map fun i => (lines i).length).sum

theorem total_erase (lines : Nat → List V) {l : List Nat} {i : Nat} (h : i ∈ l) :
    total lines l = (lines i).length + total lines (l.erase i) := by
  unfold total
  have hp := (List.perm_cons_erase h).map (fun i => (lines i).length)
  simpa using hp.sum_nat

theorem total_congr {f g : Nat → List V} {l : List Nat} (h : ∀ i ∈ l, f i = g i) :
    total f l = total g l := by
  unfold total
  congr 1
  apply List.map_congr_left
  intro i hi; rw [h i hi]

/-- The representation invariant of `LRUCache`. -/
structure Inv (s : LRU V) : Prop where
  nodup : s.lru.Nodup
  mem   : ∀ i, i ∈ s.lru ↔ s.lines i ≠ []
  acc   : s.size = total s.lines s.lru
  cap   : s.size ≤ s.maxSize

theorem inv_init (m : Nat) : Inv (LRU.init m : LRU V) := by
  constructor <;> simp [LRU.init, total]

theorem removeRow_maxSize (s : LRU V) (i : Nat) : (s.removeRow i).maxSize = s.maxSize := rfl

theorem inv_removeRow {s : LRU V} (h : Inv s) (i : Nat) : Inv (s.removeRow i) := by
  by_cases hi : i ∈ s.lru
  · have hacc := total_erase s.lines hi
    have hnd := h.nodup
    constructor
    · exact hnd.erase i
    · intro k
      show k ∈ s.lru.erase i ↔ upd s.lines i [] k ≠ []
      rw [hnd.mem_erase_iff]
      by_cases hk : k = i
      · subst hk; simp
      · rw [upd_ne _ _ hk]; simp [hk, h.mem k]
    · show s.size - (s.lines i).length = total (upd s.lines i []) (s.lru.erase i)
      have : total (upd s.lines i []) (s.lru.erase i) = total s.lines (s.lru.erase i) := by
        apply total_congr
        intro k hk
        have : k ≠ i := ((hnd.mem_erase_iff).1 hk).1
        exact upd_ne _ _ this
      rw [this, h.acc, hacc]; omega
    · show s.size - (s.lines i).length ≤ s.maxSize
      have := h.cap; omega
  · -- not cached: the line is empty, nothing changes observably
    have hl : s.lines i = [] := by
      have := (not_congr (h.mem i)).1 hi; simpa using this
    have he : s.lru.erase i = s.lru := List.erase_of_not_mem hi
    constructor
    · show (s.lru.erase i).Nodup; rw [he]; exact h.nodup
    · intro k
      show k ∈ s.lru.erase i ↔ upd s.lines i [] k ≠ []
      rw [he]
      by_cases hk : k = i
      · subst hk; simp [hi]
      · rw [upd_ne _ _ hk]; exact h.mem k
    · show s.size - (s.lines i).length = total (upd s.lines i []) (s.lru.erase i)
      rw [he, hl]
      have : total (upd s.lines i []) s.lru = total s.lines s.lru := by
        apply total_congr; intro k hk
        have : k ≠ i := fun e => hi (e ▸ hk)
        exact upd_ne _ _ this
      rw [this]; simpa using h.acc
    · show s.size - (s.lines i).length ≤ s.maxSize
      have := h.cap; omega

theorem ensureFreeGo_maxSize (need : Nat) : ∀ (f : Nat) (s : LRU V),
    (ensureFreeGo need f s).maxSize = s.maxSize
  | 0, s => rfl
  | f+1, s => by
    unfold ensureFreeGo
    split
    · split
      · rfl
      · rw [ensureFreeGo_maxSize need f]; rfl
    · rfl

theorem inv_ensureFreeGo (need : Nat) : ∀ (f : Nat) (s : LRU V), Inv s → Inv (ensureFreeGo need f s)
  | 0, s, h => h
  | f+1, s, h => by
    unfold ensureFreeGo
    split
    · split
      · exact h
      · exact inv_ensureFreeGo need f _ (inv_removeRow h _)
    · exact h

/-- after `ensureFreeMemory(need)` with `need ≤ maxSize` there is room for `need` values -/
theorem ensureFreeGo_room (need : Nat) : ∀ (f : Nat) (s : LRU V), Inv s → s.lru.length ≤ f →
    need ≤ s.maxSize → need ≤ (ensureFreeGo need f s).maxSize - (ensureFreeGo need f s).size
  | 0, s, h, hf, hn => by
    have : s.lru = [] := List.eq_nil_of_length_eq_zero (by omega)
    have hz : s.size = 0 := by rw [h.acc, this]; rfl
    show need ≤ s.maxSize - s.size
    omega
  | f+1, s, h, hf, hn => by
    unfold ensureFreeGo
    split
    · split
      · rename_i hnone
        have : s.lru = [] := List.getLast?_eq_none_iff.1 hnone
        have hz : s.size = 0 := by rw [h.acc, this]; rfl
        omega
      · rename_i o hsome
        have ho : o ∈ s.lru := List.mem_of_getLast? hsome
        apply ensureFreeGo_room need f _ (inv_removeRow h o)
        · show (s.lru.erase o).length ≤ f
          rw [List.length_erase_of_mem ho]; omega
        · exact hn
    · omega

theorem inv_ensureFree {s : LRU V} (h : Inv s) (need : Nat) : Inv (s.ensureFree need) :=
  inv_ensureFreeGo need _ s h

theorem ensureFree_maxSize (s : LRU V) (need : Nat) : (s.ensureFree need).maxSize = s.maxSize :=
  ensureFreeGo_maxSize need _ s

theorem ensureFree_room {s : LRU V} (h : Inv s) {need : Nat} (hn : need ≤ s.maxSize) :
    (s.ensureFree need).size + need ≤ s.maxSize := by
  have h1 := ensureFreeGo_room need s.lru.length s h (Nat.le_refl _) hn
  have h2 := (inv_ensureFree h need).cap
  have h3 := ensureFree_maxSize s need
  unfold ensureFree at *
  omega

/-- eviction only ever empties lines: a line is either untouched or gone -/
theorem ensureFreeGo_lines (need : Nat) : ∀ (f : Nat) (s : LRU V) (k : Nat),
    (ensureFreeGo need f s).lines k = s.lines k ∨ (ensureFreeGo need f s).lines k = []
  | 0, s, k => Or.inl rfl
  | f+1, s, k => by
    unfold ensureFreeGo
    split
    · split
      · exact Or.inl rfl
      · rename_i o _
        rcases ensureFreeGo_lines need f (s.removeRow o) k with h | h
        · by_cases hk : k = o
          · subst hk; right; rw [h]; simp [removeRow]
          · left; rw [h]; exact upd_ne _ _ hk
        · exact Or.inr h
    · exact Or.inl rfl

theorem ensureFree_lines (s : LRU V) (need k : Nat) :
    (s.ensureFree need).lines k = s.lines k ∨ (s.ensureFree need).lines k = [] :=
  ensureFreeGo_lines need _ s k

/-- pushing a new non-empty line for an index that is not cached -/
theorem inv_push {s : LRU V} (h : Inv s) {i : Nat} {line : List V}
    (hne : line ≠ []) (hi : s.lines i = []) (hroom : s.size + line.length ≤ s.maxSize) :
    Inv { s with lines := upd s.lines i line, lru := i :: s.lru, size := s.size + line.length } := by
  have hnot : i ∉ s.lru := by rw [h.mem i]; simp [hi]
  constructor
  · exact List.nodup_cons.2 ⟨hnot, h.nodup⟩
  · intro k
    show k ∈ i :: s.lru ↔ upd s.lines i line k ≠ []
    by_cases hk : k = i
    · subst hk; simp [hne]
    · rw [upd_ne _ _ hk]; simp [hk, h.mem k]
  · show s.size + line.length = total (upd s.lines i line) (i :: s.lru)
    have : total (upd s.lines i line) s.lru = total s.lines s.lru := by
      apply total_congr; intro k hk
      exact upd_ne _ _ (fun e => hnot (e ▸ hk))
    have hacc := h.acc
    simp only [total, List.map_cons, List.sum_cons, upd_same] at *
    rw [this, hacc]; omega
  · exact hroom

theorem inv_createRow {s : LRU V} (h : Inv s) {i : Nat} {line : List V}
    (hne : line ≠ []) (hi : s.lines i = []) (hsz : line.length ≤ s.maxSize) :
    Inv (s.createRow i line) := by
  unfold createRow
  have h1 := inv_ensureFree h line.length
  have hroom := ensureFree_room h hsz
  have hi' : (s.ensureFree line.length).lines i = [] := by
    rcases ensureFree_lines s line.length i with e | e
    · rw [e, hi]
    · exact e
  have := inv_push h1 hne hi' (by rw [ensureFree_maxSize]; exact hroom)
  exact this

theorem inv_redeclareNewest {s : LRU V} (h : Inv s) {i : Nat} (hi : i ∈ s.lru) :
    Inv (s.redeclareNewest i) := by
  have hnd := h.nodup
  constructor
  · show (i :: s.lru.erase i).Nodup
    exact List.nodup_cons.2 ⟨by rw [hnd.mem_erase_iff]; simp, hnd.erase i⟩
  · intro k
    show k ∈ i :: s.lru.erase i ↔ s.lines k ≠ []
    rw [← h.mem k, List.mem_cons, hnd.mem_erase_iff]
    by_cases hk : k = i
    · subst hk; simp [hi]
    · simp [hk]
  · show s.size = total s.lines (i :: s.lru.erase i)
    rw [h.acc, total_erase s.lines hi]; simp [total]
  · exact h.cap

theorem inv_resizeLine {s : LRU V} (h : Inv s) (i : Nat) {size : Nat} (fresh : Nat → V)
    (hpos : 0 < size) (hsz : size ≤ s.maxSize) : Inv (s.resizeLine i size fresh) := by
  unfold resizeLine
  have h0 := inv_removeRow h i
  have h1 := inv_ensureFree h0 size
  have hroom := ensureFree_room h0 (need := size) hsz
  have hlen : (resized (s.lines i) size fresh).length = size := by simp [resized]
  have hne : resized (s.lines i) size fresh ≠ [] := by
    intro e; rw [e] at hlen; simp at hlen; omega
  have hi' : ((s.removeRow i).ensureFree size).lines i = [] := by
    rcases ensureFree_lines (s.removeRow i) size i with e | e
    · rw [e]; simp [removeRow]
    · exact e
  have := inv_push h1 hne hi' (by rw [hlen, ensureFree_maxSize]; exact hroom)
  rw [hlen] at this
  exact this

theorem isCached_iff (s : LRU V) (i : Nat) : s.isCached i = true ↔ s.lines i ≠ [] := by
  unfold isCached
  cases s.lines i <;> simp

theorem inv_getCacheLine {s : LRU V} (h : Inv s) (i : Nat) {size : Nat} (fresh : Nat → V)
    (hpos : 0 < size ∨ s.isCached i = true) (hsz : size ≤ s.maxSize) : Inv (s.getCacheLine i size fresh) := by
  unfold getCacheLine
  by_cases hc : s.isCached i = true
  · have hne := (isCached_iff s i).1 hc
    simp only [hc, Bool.not_true, Bool.false_eq_true, ↓reduceIte]
    split
    · exact inv_redeclareNewest h ((h.mem i).2 hne)
    · exact inv_resizeLine h i fresh (by omega) hsz
  · have hni : s.lines i = [] := by
      have := (not_congr (isCached_iff s i)).1 hc; simpa using this
    have hpos' : 0 < size := by
      rcases hpos with h0 | h0
      · exact h0
      · exact absurd h0 hc
    simp only [hc, Bool.not_false, ↓reduceIte]
    apply inv_createRow h
    · intro e
      have := congrArg List.length e
      simp at this; omega
    · exact hni
    · simpa using hsz

theorem inv_markForDeletion {s : LRU V} (h : Inv s) (i : Nat) : Inv (s.markForDeletion i) := by
  unfold markForDeletion
  by_cases hc : s.isCached i = true
  · have hne := (isCached_iff s i).1 hc
    have hi := (h.mem i).2 hne
    have hnd := h.nodup
    simp only [hc, Bool.not_true, Bool.false_eq_true, ↓reduceIte]
    constructor
    · show (s.lru.erase i ++ [i]).Nodup
      rw [List.nodup_append]
      refine ⟨hnd.erase i, by simp, ?_⟩
      intro a ha b hb
      simp at hb; subst hb
      exact ((hnd.mem_erase_iff).1 ha).1
    · intro k
      show k ∈ s.lru.erase i ++ [i] ↔ s.lines k ≠ []
      rw [← h.mem k, List.mem_append, hnd.mem_erase_iff]
      by_cases hk : k = i
      · subst hk; simp [hi]
      · simp [hk]
    · show s.size = total s.lines (s.lru.erase i ++ [i])
      rw [h.acc, total_erase s.lines hi]; simp [total]; omega
    · exact h.cap
  · simp only [hc, Bool.not_false, ↓reduceIte]; exact h

theorem total_map_swap (lines : Nat → List V) (i j : Nat) (l : List Nat) :
    total (fun k => lines (swapIdx i j k)) (l.map (swapIdx i j)) = total lines l := by
  unfold total
  rw [List.map_map]
  congr 1
  apply List.map_congr_left
  intro k _; simp

theorem inv_swapLineIndices {s : LRU V} (h : Inv s) (i j : Nat) : Inv (s.swapLineIndices i j) := by
  unfold swapLineIndices
  split
  · exact h
  · constructor
    · show (s.lru.map (swapIdx i j)).Nodup
      exact List.Pairwise.map _ (fun a b hab e => hab (swapIdx_inj i j e)) h.nodup
    · intro k
      show k ∈ s.lru.map (swapIdx i j) ↔ s.lines (swapIdx i j k) ≠ []
      rw [← h.mem (swapIdx i j k), List.mem_map]
      constructor
      · rintro ⟨a, ha, rfl⟩; simpa using ha
      · intro hk; exact ⟨swapIdx i j k, hk, by simp⟩
    · show s.size = total (fun k => s.lines (swapIdx i j k)) (s.lru.map (swapIdx i j))
      rw [total_map_swap]; exact h.acc
    · exact h.cap

theorem inv_clear {s : LRU V} (h : Inv s) : Inv s.clear := inv_ensureFree h _

/-- `clear` really empties the cache -/
theorem clear_size {s : LRU V} (h : Inv s) : s.clear.size = 0 := by
  have := ensureFree_room h (need := s.maxSize) (Nat.le_refl _)
  unfold clear; omega

end SharkVerif.Cache
