/-
Lemmas about the selection of the least / greatest hypervolume contributors
(`Model/Contrib.lean`): the `std::sort`-and-truncate tail (`smallestOf`/`largestOf`),
`HypervolumeContribution2D` with reference point (`contribs2d`) and
`HypervolumeContributionMD` (`restrictSet`, `contribsMD`).  Core Lean only.
-/
import SharkVerif.Lemmas.Hypervolume
import SharkVerif.Lemmas.FastSort
import SharkVerif.Model.Contrib
namespace SharkVerif.HV
open SharkVerif.Pareto

/-! ### C. HypervolumeContributionMD: the compaction loop of `restrictSet` -/

theorem get_mid {α} (A R : List α) (x : α) (h : A.length < (A ++ x :: R).length) :
    (A ++ x :: R)[A.length] = x := by
  rw [List.getElem_append_right (Nat.le_refl _)]; simp

theorem get_mid2 {α} (A M B : List α) (x y : α) (k : Nat) (hk : k = A.length + M.length + 1)
   (h : k < (A ++ x :: (M ++ y :: B)).length) :
    (A ++ x :: (M ++ y :: B))[k] = y := by
  subst hk
  have : A ++ x :: (M ++ y :: B) = (A ++ x :: M) ++ y :: B := by simp
  rw [List.getElem_of_eq this]
  have h2 : A.length + M.length + 1 = (A ++ x :: M).length := by simp; omega
  simp only [h2]
  exact get_mid _ _ _ _

theorem swap_decomp {α} (A M B : List α) (x y : α) (i j : Nat) (hi : i = A.length)
    (hj : j = A.length + M.length + 1) :
    (A ++ x :: (M ++ y :: B)).toArray.swapIfInBounds i j = (A ++ y :: (M ++ x :: B)).toArray := by
  subst hi hj
  apply Array.ext
  · simp [Array.swapIfInBounds]; split <;> (try split) <;> simp
  · intro k h1 h2
    rw [Array.getElem_swapIfInBounds]
    simp only [List.size_toArray, List.length_append, List.length_cons] at h1 h2 ⊢
    simp only [List.getElem_toArray]
    by_cases hk1 : k = A.length
    · subst hk1
      rw [dif_pos ⟨rfl, by omega⟩, get_mid, get_mid2 _ _ _ _ _ _ rfl]
    · by_cases hk2 : k = A.length + M.length + 1
      · subst hk2
        rw [dif_neg (by omega), dif_pos ⟨rfl, by omega⟩, get_mid, get_mid2 _ _ _ _ _ _ rfl]
      · simp only [hk1, hk2, false_and, dite_false]
        by_cases hlt : k < A.length
        · simp [List.getElem_append_left, hlt]
        · rw [List.getElem_append_right (by omega), List.getElem_append_right (by omega)]
          obtain ⟨d, rfl⟩ : ∃ d, k = A.length + d + 1 := ⟨k - A.length - 1, by omega⟩
          have : A.length + d + 1 - A.length = d + 1 := by omega
          simp only [this, List.getElem_cons_succ]
          by_cases hd : d < M.length
          · simp [List.getElem_append_left, hd]
          · rw [List.getElem_append_right (by omega), List.getElem_append_right (by omega)]
            obtain ⟨e, rfl⟩ : ∃ e, d = M.length + e + 1 := ⟨d - M.length - 1, by omega⟩
            have : M.length + e + 1 - M.length = e + 1 := by omega
            simp [this]

/-- invariant of the compaction loop on a decomposition `A ++ M ++ B` of the zipped arrays -/
theorem compactGo_decomp : ∀ (fuel : Nat) (A M B : List (Pt × Nat)), M.length ≤ fuel →
    ∀ (ps : Array Pt) (rk : Array Nat), ps = ((A ++ M ++ B).map (·.1)).toArray →
      rk = ((A ++ M ++ B).map (·.2)).toArray →
    let res := compactGo fuel ps rk A.length (A.length + M.length)
    (res.1.toList.take res.2).Perm ((A ++ M.filter (·.2 == 1)).map (·.1))
  | 0, A, M, B, hf, ps, rk, hps, hrk => by
    have : M = [] := List.length_eq_zero_iff.mp (by omega)
    subst this
    subst hps
    simp [compactGo]
  | fuel + 1, A, [], B, hf, ps, rk, hps, hrk => by
    subst hps
    simp [compactGo]
  | fuel + 1, A, x :: M, B, hf, ps, rk, hps, hrk => by
    have hne : (A.length == A.length + (x :: M).length) = false := by simp
    have hget : rk.getD A.length 0 = x.2 := by
      subst hrk
      simp
    intro res
    have hres : res = compactGo (fuel + 1) ps rk A.length (A.length + (x :: M).length) := rfl
    rw [compactGo, hne, hget] at hres
    simp only [Bool.false_eq_true, if_false] at hres
    by_cases hx : x.2 = 1
    · simp only [hx, beq_self_eq_true, if_true] at hres
      have ih := compactGo_decomp fuel (A ++ [x]) M B (by simpa using hf) ps rk
        (by subst hps; simp) (by subst hrk; simp)
      have e1 : (A ++ [x]).length = A.length + 1 := by simp
      have e2 : (A ++ [x]).length + M.length = A.length + (x :: M).length := by simp; omega
      rw [e2, e1] at ih
      rw [hres]
      refine ih.trans ?_
      simp [hx]
    · have hx' : (x.2 == 1) = false := by simpa using hx
      simp only [hx', Bool.false_eq_true, if_false] at hres
      rcases List.eq_nil_or_concat M with rfl | ⟨M', y, hM⟩
      · have ih := compactGo_decomp fuel A [] (x :: B) (by simp) ps rk
          (by subst hps; simp) (by subst hrk; simp)
        simp only [List.length_cons, List.length_nil, Nat.zero_add, Nat.add_sub_cancel, bne_self_eq_false,
          Bool.false_eq_true, if_false] at hres
        simp only [List.length_nil, Nat.add_zero] at ih
        rw [hres]
        refine ih.trans ?_
        simp [hx']
      · rw [List.concat_eq_append] at hM
        subst hM
        have hne2 : (A.length != A.length + (x :: (M' ++ [y])).length - 1) = true := by simp
        rw [hne2] at hres
        simp only [if_true] at hres
        have e3 : A.length + (x :: (M' ++ [y])).length - 1 = A.length + M'.length + 1 := by simp; omega
        rw [e3] at hres
        have ih := compactGo_decomp fuel A (y :: M') (x :: B) (by simp at hf ⊢; omega)
          (ps.swapIfInBounds A.length (A.length + M'.length + 1))
          (rk.swapIfInBounds A.length (A.length + M'.length + 1))
          (by
            subst hps
            have := swap_decomp (A.map (·.1)) (M'.map (·.1)) (B.map (·.1)) x.1 y.1 A.length
              (A.length + M'.length + 1) (by simp) (by simp)
            simpa using this)
          (by
            subst hrk
            have := swap_decomp (A.map (·.2)) (M'.map (·.2)) (B.map (·.2)) x.2 y.2 A.length
              (A.length + M'.length + 1) (by simp) (by simp)
            simpa using this)
        have e4 : A.length + (y :: M').length = A.length + M'.length + 1 := by simp; omega
        rw [e4] at ih
        rw [hres]
        refine ih.trans ?_
        apply List.Perm.map
        apply List.Perm.append_left
        rw [List.filter_cons_of_neg (a := x) (by simpa using hx)]
        exact (List.perm_append_singleton y M').symm.filter _


/-- **the compaction loop keeps exactly the entries of rank 1** (as a multiset) -/
theorem compactGo_perm (Q : List Pt) (rks : List Nat) (h : rks.length = Q.length) :
    ((compactGo Q.length Q.toArray rks.toArray 0 Q.length).1.toList.take
      (compactGo Q.length Q.toArray rks.toArray 0 Q.length).2).Perm
      (((Q.zip rks).filter (·.2 == 1)).map (·.1)) := by
  have := compactGo_decomp Q.length [] (Q.zip rks) [] (by simp [h]) Q.toArray rks.toArray
    (by simp [List.map_fst_zip (Nat.le_of_eq h.symm)]) (by simp [List.map_snd_zip (Nat.le_of_eq h)])
  simpa [h] using this

theorem length_pmax : ∀ (a b : Pt), (pmax a b).length = min a.length b.length
  | [], _ => by simp [pmax]
  | _ :: _, [] => by simp [pmax]
  | x :: a, y :: b => by simp [pmax, length_pmax a b] <;> omega

theorem filter_zip_map {α} (f : α → Nat) : ∀ (Q : List α),
    ((Q.zip (Q.map f)).filter (·.2 == 1)).map (·.1) = Q.filter fun q => f q == 1
  | [] => rfl
  | q :: Q => by
    simp only [List.map_cons, List.zip_cons_cons, List.filter_cons]
    split <;> simp [filter_zip_map f Q]

/-- `restrictSet` returns (in some order) the non-dominated points of the restricted set -/
theorem restrictSet_perm (rk : List Pt → List Nat) (S : List Pt) (p : Pt)
    (hrk : rk (S.map (pmax p)) = (S.map (pmax p)).map (rankSpec (S.map (pmax p)))) :
    (restrictSet rk S p).Perm (nonDominated (S.map (pmax p))) := by
  unfold restrictSet
  simp only
  rw [hrk]
  generalize S.map (pmax p) = Q
  refine (compactGo_perm Q (Q.map (rankSpec Q)) (by simp)).trans ?_
  rw [filter_zip_map]
  apply List.Perm.of_eq
  unfold nonDominated
  apply List.filter_congr
  intro q _
  by_cases h : rankSpec Q q = 1
  · have := (rankSpec_eq_one_iff Q q).mp h
    simp [h]
    exact this
  · have h2 : ¬ ∀ s ∈ Q, dominates s q = false := fun hh => h ((rankSpec_eq_one_iff Q q).mpr hh)
    have : (rankSpec Q q == 1) = false := by simpa using h
    rw [this]
    cases hc : (!Q.any fun s => dominates s q) with
    | false => rfl
    | true =>
      exfalso; apply h2
      intro s hs
      simp only [Bool.not_eq_true', List.any_eq_false] at hc
      simpa using hc s hs

example : restrictSet fastSort [[0, 5], [1, 1], [5, 0], [2, 2]] [1, 0] = [[5, 0], [1, 1]] := by decide

theorem mem_restrictSet {rk : List Pt → List Nat} {S : List Pt} {p q : Pt}
    (hrk : rk (S.map (pmax p)) = (S.map (pmax p)).map (rankSpec (S.map (pmax p))))
    (h : q ∈ restrictSet rk S p) : ∃ s ∈ S, q = pmax p s := by
  have h' := (restrictSet_perm rk S p hrk).mem_iff.mp h
  obtain ⟨s, hs, rfl⟩ := List.mem_map.mp (mem_nonDominated.mp h').1
  exact ⟨s, hs, rfl⟩

theorem hvSpec_restrictSet {rk : List Pt → List Nat} {S : List Pt} {p r : Pt}
    (hrk : rk (S.map (pmax p)) = (S.map (pmax p)).map (rankSpec (S.map (pmax p)))) :
    hvSpec (restrictSet rk S p) r = hvSpec (S.map (pmax p)) r := by
  rw [hvSpec_perm (restrictSet_perm rk S p hrk)]
  exact hvSpec_nonDominated

theorem perm_cons_eraseIdx {α} : ∀ (S : List α) (i : Nat) (h : i < S.length),
    S.Perm (S[i] :: S.eraseIdx i)
  | _ :: _, 0, _ => by simp
  | x :: S, i + 1, h => by
    simp only [List.getElem_cons_succ, List.eraseIdx_cons_succ]
    exact ((perm_cons_eraseIdx S i (by simpa using h)).cons x).trans (List.Perm.swap _ _ _)

theorem mem_of_mem_eraseIdx' {α} {S : List α} {i : Nat} {a : α} (h : a ∈ S.eraseIdx i) : a ∈ S :=
  List.mem_of_mem_eraseIdx h

/-- removing point `i` loses the volume of its box minus the hypervolume of the other
points restricted to that box (no non-domination hypothesis) -/
theorem contribSpec_eq_box {m : Nat} {S : List Pt} {r : Pt} (hS : ∀ p ∈ S, p.length = m)
    (hr : r.length = m) (hle : ∀ p ∈ S, leAll p r = true) (i : Nat) (hi : i < S.length) :
    contribSpec S r i = boxVol S[i] r - (hvSpec ((S.eraseIdx i).map (pmax S[i])) r : Int) := by
  unfold contribSpec
  rw [hvSpec_perm (perm_cons_eraseIdx S i hi)]
  have := hvSpec_cons (S := S.eraseIdx i) (hle S[i] (List.getElem_mem hi)) hr
    (fun s hs => hS s (List.mem_of_mem_eraseIdx hs))
  omega

theorem contribsMD_eq_spec (rk : List Pt → List Nat) (hv : List Pt → Pt → Int) (m : Nat)
    (S : List Pt) (r : Pt) (hS : ∀ p ∈ S, p.length = m) (hr : r.length = m)
    (hle : ∀ p ∈ S, leAll p r = true)
    (hrk : ∀ Q, (∀ q ∈ Q, q.length = m) → rk Q = Q.map (rankSpec Q))
    (hhv : ∀ Q, (∀ q ∈ Q, q.length = m) → (∀ q ∈ Q, leAll q r = true) → hv Q r = (hvSpec Q r : Int)) :
    contribsMD rk hv S r = (List.range S.length).map fun i => (contribSpec S r i, i) := by
  unfold contribsMD
  apply List.map_congr_left
  intro i hi
  have hi : i < S.length := List.mem_range.mp hi
  have hget : S.getD i [] = S[i] := by simp [List.getD_eq_getElem?_getD, hi]
  rw [hget]
  have hp := List.getElem_mem hi
  have hQ : ∀ q ∈ (S.eraseIdx i).map (pmax S[i]), q.length = m := by
    intro q hq
    obtain ⟨s, hs, rfl⟩ := List.mem_map.mp hq
    rw [length_pmax, hS _ hp, hS s (List.mem_of_mem_eraseIdx hs)]; simp
  have hrk' := hrk _ hQ
  have hmem : ∀ q ∈ restrictSet rk (S.eraseIdx i) S[i], q.length = m ∧ leAll q r = true := by
    intro q hq
    obtain ⟨s, hs, rfl⟩ := mem_restrictSet hrk' hq
    exact ⟨hQ _ (List.mem_map.mpr ⟨s, hs, rfl⟩),
      leAll_pmax_le (hle _ hp) (hle s (List.mem_of_mem_eraseIdx hs))⟩
  rw [hhv _ (fun q hq => (hmem q hq).1) (fun q hq => (hmem q hq).2), hvSpec_restrictSet hrk',
    contribSpec_eq_box hS hr hle i hi]

/-! ### A. selection of the `k` smallest / largest keys -/

/-- **every** outcome `L` of an (unstable) ascending sort of `cs`, truncated to `k` entries -/
theorem take_sorted_spec {cs L : List KV} (hp : L.Perm cs) (hs : L.Pairwise fun a b => a.1 ≤ b.1) (k : Nat) :
    (L.take k).length = min k cs.length ∧ (L.take k).Pairwise (fun a b => a.1 ≤ b.1) ∧
    ∃ rest, (L.take k ++ rest).Perm cs ∧ ∀ a ∈ L.take k, ∀ b ∈ rest, a.1 ≤ b.1 := by
  refine ⟨by rw [List.length_take, hp.length_eq], hs.sublist (List.take_sublist k L), L.drop k, ?_, ?_⟩
  · rw [List.take_append_drop]; exact hp
  · rw [← List.take_append_drop k L] at hs
    exact (List.pairwise_append.mp hs).2.2

/-- every outcome of the sort, last `k` entries, reversed -/
theorem drop_sorted_spec {cs L : List KV} (hp : L.Perm cs) (hs : L.Pairwise fun a b => a.1 ≤ b.1) (k : Nat) :
    ((L.drop (cs.length - k)).reverse).length = min k cs.length ∧
    ((L.drop (cs.length - k)).reverse).Pairwise (fun a b => b.1 ≤ a.1) ∧
    ∃ rest, ((L.drop (cs.length - k)).reverse ++ rest).Perm cs ∧
      ∀ a ∈ (L.drop (cs.length - k)).reverse, ∀ b ∈ rest, b.1 ≤ a.1 := by
  refine ⟨by rw [List.length_reverse, List.length_drop, hp.length_eq]; omega,
    List.pairwise_reverse.mpr (hs.sublist (List.drop_sublist _ L)), L.take (cs.length - k), ?_, ?_⟩
  · refine (List.perm_append_comm.trans ?_).trans hp
    rw [← List.take_append_drop (cs.length - k) L]
    simp only [List.take_append_drop]
    exact (List.reverse_perm _).append_left _ |>.trans (by rw [List.take_append_drop])
  · rw [← List.take_append_drop (cs.length - k) L] at hs
    intro a ha b hb
    exact (List.pairwise_append.mp hs).2.2 b hb a (List.mem_reverse.mp ha)

theorem sortKV_perm (cs : List KV) : (sortKV cs).Perm cs := List.mergeSort_perm cs _

theorem sortKV_sorted (cs : List KV) : (sortKV cs).Pairwise fun a b => a.1 ≤ b.1 := by
  unfold sortKV
  have := List.pairwise_mergeSort (le := fun a b : KV => decide (a.1 ≤ b.1))
    (by intro a b c; simp only [decide_eq_true_eq]; omega)
    (by intro a b; simp only [Bool.or_eq_true, decide_eq_true_eq]; omega) cs
  exact this.imp (by simp)

theorem smallestOf_spec (cs : List KV) (k : Nat) :
    (smallestOf cs k).length = min k cs.length ∧ (smallestOf cs k).Pairwise (fun a b => a.1 ≤ b.1) ∧
    ∃ rest, (smallestOf cs k ++ rest).Perm cs ∧ ∀ a ∈ smallestOf cs k, ∀ b ∈ rest, a.1 ≤ b.1 :=
  take_sorted_spec (sortKV_perm cs) (sortKV_sorted cs) k

theorem largestOf_spec (cs : List KV) (k : Nat) :
    (largestOf cs k).length = min k cs.length ∧ (largestOf cs k).Pairwise (fun a b => b.1 ≤ a.1) ∧
    ∃ rest, (largestOf cs k ++ rest).Perm cs ∧ ∀ a ∈ largestOf cs k, ∀ b ∈ rest, b.1 ≤ a.1 :=
  drop_sorted_spec (sortKV_perm cs) (sortKV_sorted cs) k

example : smallestOf [(3, 0), (1, 1), (2, 2), (1, 3)] 2 = [(1, 1), (1, 3)] := by
  simp [smallestOf, sortKV, List.mergeSort, List.MergeSort.Internal.splitInTwo]
example : largestOf [(3, 0), (1, 1), (3, 2), (1, 3)] 3 = [(3, 2), (3, 0), (1, 3)] := by
  simp [largestOf, sortKV, List.mergeSort, List.MergeSort.Internal.splitInTwo]

/-- first entry of any ascending sort: a minimiser -/
theorem take_one_sorted_argmin {cs L : List KV} (hp : L.Perm cs) (hs : L.Pairwise fun a b => a.1 ≤ b.1)
    (hne : cs ≠ []) : ∃ c, L.take 1 = [c] ∧ c ∈ cs ∧ ∀ d ∈ cs, c.1 ≤ d.1 := by
  match L, hp, hs with
  | [], hp, _ => exact absurd hp.symm.eq_nil hne
  | c :: L, hp, hs =>
    refine ⟨c, rfl, hp.mem_iff.mp List.mem_cons_self, ?_⟩
    intro d hd
    rcases List.mem_cons.mp (hp.mem_iff.mpr hd) with rfl | h
    · exact Int.le_refl _
    · exact (List.pairwise_cons.mp hs).1 d h

/-- last entry of any ascending sort: a maximiser -/
theorem drop_one_sorted_argmax {cs L : List KV} (hp : L.Perm cs) (hs : L.Pairwise fun a b => a.1 ≤ b.1)
    (hne : cs ≠ []) : ∃ c, (L.drop (cs.length - 1)).reverse = [c] ∧ c ∈ cs ∧ ∀ d ∈ cs, d.1 ≤ c.1 := by
  obtain ⟨hl, _, rest, hperm, hle⟩ := drop_sorted_spec hp hs 1
  have hpos : 0 < cs.length := List.length_pos_iff.mpr hne
  have hl1 : ((L.drop (cs.length - 1)).reverse).length = 1 := by rw [hl]; omega
  obtain ⟨c, hc⟩ := List.length_eq_one_iff.mp hl1
  rw [hc] at hperm hle
  refine ⟨c, hc, hperm.mem_iff.mp (by simp), ?_⟩
  intro d hd
  rcases List.mem_append.mp (hperm.mem_iff.mpr hd) with h | h
  · rw [List.mem_singleton.mp h]; exact Int.le_refl _
  · exact hle c (by simp) d h

theorem least_contributor_is_argmin (cs : List KV) (hne : cs ≠ []) :
    ∃ c, smallestOf cs 1 = [c] ∧ c ∈ cs ∧ ∀ d ∈ cs, c.1 ≤ d.1 :=
  take_one_sorted_argmin (sortKV_perm cs) (sortKV_sorted cs) hne

theorem greatest_contributor_is_argmax (cs : List KV) (hne : cs ≠ []) :
    ∃ c, largestOf cs 1 = [c] ∧ c ∈ cs ∧ ∀ d ∈ cs, d.1 ≤ c.1 :=
  drop_one_sorted_argmax (sortKV_perm cs) (sortKV_sorted cs) hne

example : smallestOf [(3, 0), (1, 1), (2, 2), (1, 3)] 1 = [(1, 1)] := by
  simp [smallestOf, sortKV, List.mergeSort, List.MergeSort.Internal.splitInTwo]
example : largestOf [(3, 0), (1, 1), (3, 2), (1, 3)] 1 = [(3, 2)] := by
  simp [largestOf, sortKV, List.mergeSort, List.MergeSort.Internal.splitInTwo]


/-! #### contribution lists indexed by the point number -/

/-- the first entry of **every** ascending sort of an indexed contribution list is
`(f i, i)` for a minimiser `i` of `f` -/
theorem indexed_argmin_sorted {cs L : List KV} {n : Nat} {f : Nat → Int}
    (hidx : (cs.map (·.2)).Perm (List.range n)) (hval : ∀ c ∈ cs, c.1 = f c.2) (hn : 0 < n)
    (hp : L.Perm cs) (hs : L.Pairwise fun a b => a.1 ≤ b.1) :
    ∃ i, i < n ∧ L.take 1 = [(f i, i)] ∧ ∀ j, j < n → f i ≤ f j := by
  have hne : cs ≠ [] := by
    intro h; subst h
    have := hidx.length_eq
    simp at this; omega
  obtain ⟨c, hc, hmem, hmin⟩ := take_one_sorted_argmin hp hs hne
  refine ⟨c.2, ?_, ?_, ?_⟩
  · exact List.mem_range.mp (hidx.mem_iff.mp (List.mem_map.mpr ⟨c, hmem, rfl⟩))
  · rw [hc, ← hval c hmem]
  · intro j hj
    obtain ⟨d, hd, rfl⟩ := List.mem_map.mp (hidx.mem_iff.mpr (List.mem_range.mpr hj))
    rw [← hval c hmem, ← hval d hd]
    exact hmin d hd

theorem indexed_argmax_sorted {cs L : List KV} {n : Nat} {f : Nat → Int}
    (hidx : (cs.map (·.2)).Perm (List.range n)) (hval : ∀ c ∈ cs, c.1 = f c.2) (hn : 0 < n)
    (hp : L.Perm cs) (hs : L.Pairwise fun a b => a.1 ≤ b.1) :
    ∃ i, i < n ∧ (L.drop (cs.length - 1)).reverse = [(f i, i)] ∧ ∀ j, j < n → f j ≤ f i := by
  have hne : cs ≠ [] := by
    intro h; subst h
    have := hidx.length_eq
    simp at this; omega
  obtain ⟨c, hc, hmem, hmax⟩ := drop_one_sorted_argmax hp hs hne
  refine ⟨c.2, ?_, ?_, ?_⟩
  · exact List.mem_range.mp (hidx.mem_iff.mp (List.mem_map.mpr ⟨c, hmem, rfl⟩))
  · rw [hc, ← hval c hmem]
  · intro j hj
    obtain ⟨d, hd, rfl⟩ := List.mem_map.mp (hidx.mem_iff.mpr (List.mem_range.mpr hj))
    rw [← hval c hmem, ← hval d hd]
    exact hmax d hd

theorem indexed_smallestOf {cs : List KV} {n : Nat} {f : Nat → Int}
    (hidx : (cs.map (·.2)).Perm (List.range n)) (hval : ∀ c ∈ cs, c.1 = f c.2) (hn : 0 < n) :
    ∃ i, i < n ∧ smallestOf cs 1 = [(f i, i)] ∧ ∀ j, j < n → f i ≤ f j :=
  indexed_argmin_sorted hidx hval hn (sortKV_perm cs) (sortKV_sorted cs)

theorem indexed_largestOf {cs : List KV} {n : Nat} {f : Nat → Int}
    (hidx : (cs.map (·.2)).Perm (List.range n)) (hval : ∀ c ∈ cs, c.1 = f c.2) (hn : 0 < n) :
    ∃ i, i < n ∧ largestOf cs 1 = [(f i, i)] ∧ ∀ j, j < n → f j ≤ f i :=
  indexed_argmax_sorted hidx hval hn (sortKV_perm cs) (sortKV_sorted cs)

/-! #### HypervolumeContributionMD: least / greatest contributor -/

theorem smallestMD_least_contributor (rk : List Pt → List Nat) (hv : List Pt → Pt → Int) (m : Nat)
    (S : List Pt) (r : Pt) (hne : S ≠ []) (hS : ∀ p ∈ S, p.length = m) (hr : r.length = m)
    (hle : ∀ p ∈ S, leAll p r = true)
    (hrk : ∀ Q, (∀ q ∈ Q, q.length = m) → rk Q = Q.map (rankSpec Q))
    (hhv : ∀ Q, (∀ q ∈ Q, q.length = m) → (∀ q ∈ Q, leAll q r = true) → hv Q r = (hvSpec Q r : Int)) :
    ∃ i, i < S.length ∧ smallestMD rk hv S 1 r = [(contribSpec S r i, i)] ∧
      ∀ j, j < S.length → contribSpec S r i ≤ contribSpec S r j := by
  unfold smallestMD
  rw [contribsMD_eq_spec rk hv m S r hS hr hle hrk hhv]
  exact indexed_smallestOf (f := contribSpec S r) (by simp [Function.comp_def]) (by simp)
    (List.length_pos_iff.mpr hne)

theorem largestMD_greatest_contributor (rk : List Pt → List Nat) (hv : List Pt → Pt → Int) (m : Nat)
    (S : List Pt) (r : Pt) (hne : S ≠ []) (hS : ∀ p ∈ S, p.length = m) (hr : r.length = m)
    (hle : ∀ p ∈ S, leAll p r = true)
    (hrk : ∀ Q, (∀ q ∈ Q, q.length = m) → rk Q = Q.map (rankSpec Q))
    (hhv : ∀ Q, (∀ q ∈ Q, q.length = m) → (∀ q ∈ Q, leAll q r = true) → hv Q r = (hvSpec Q r : Int)) :
    ∃ i, i < S.length ∧ largestMD rk hv S 1 r = [(contribSpec S r i, i)] ∧
      ∀ j, j < S.length → contribSpec S r j ≤ contribSpec S r i := by
  unfold largestMD
  rw [contribsMD_eq_spec rk hv m S r hS hr hle hrk hhv]
  exact indexed_largestOf (f := contribSpec S r) (by simp [Function.comp_def]) (by simp)
    (List.length_pos_iff.mpr hne)

/-- the hypotheses on `rk` and `hv` are satisfied by the models of `fastNonDominatedSort` and of
`HypervolumeCalculatorMDWFG` -/
theorem contribsMD_fastSort_wfg (m : Nat) (S : List Pt) (r : Pt) (hS : ∀ p ∈ S, p.length = m)
    (hr : r.length = m) (hle : ∀ p ∈ S, leAll p r = true) :
    contribsMD fastSort hvWfg S r = (List.range S.length).map fun i => (contribSpec S r i, i) :=
  contribsMD_eq_spec fastSort hvWfg m S r hS hr hle (fun _ hQ => fastSort_eq hQ)
    (fun Q _ hQ => hvWfg_eq_spec Q r hQ)

/-- non-vacuity: a 3-D set with a dominated point (index 3) and a duplicate (indices 0, 4) -/
example :
    let S : List Pt := [[0, 1, 2], [1, 0, 2], [2, 2, 0], [2, 2, 2], [0, 1, 2]]
    let r : Pt := [3, 3, 3]
    (∀ p ∈ S, p.length = 3) ∧ r.length = 3 ∧ (∀ p ∈ S, leAll p r = true) ∧
    ((List.range S.length).map fun i => (contribSpec S r i, i)) = [(0, 0), (2, 1), (2, 2), (0, 3), (0, 4)] := by
  decide

/-! ### B. HypervolumeContribution2D -/

/-- closed form of the sweep on a front with non-increasing second coordinate -/
def stairSum (r0 : Int) : Int → List Pt → Int
  | _, [] => 0
  | last, p :: rest => (r0 - px p) * (last - py p) + stairSum r0 (py p) rest

theorem sweep2d_eq_stairSum (r0 : Int) : ∀ (L : List Pt) (last : Int),
    L.Pairwise (fun a b => py b ≤ py a) → (∀ p ∈ L, py p ≤ last) → sweep2d r0 last L = stairSum r0 last L
  | [], _, _, _ => rfl
  | p :: rest, last, hs, hl => by
    have hs' := List.pairwise_cons.mp hs
    have ih := sweep2d_eq_stairSum r0 rest (py p) hs'.2 hs'.1
    have hp := hl p List.mem_cons_self
    rw [sweep2d, stairSum]
    split
    · rw [ih]
    · have e : last = py p := by omega
      rw [← e] at ih ⊢
      rw [ih]; simp

/-- `front[i+1].f1` -/
def nextX (r0 : Int) : List Pt → Int
  | [] => r0
  | q :: _ => px q

/-- `front[i-1].f2` -/
def prevY : Int → List Pt → Int
  | last, [] => last
  | _, a :: L => prevY (py a) L

/-- removing one entry of the front changes the closed form by the rectangle of the C++ -/
theorem stairSum_remove (r0 : Int) (p : Pt) (L2 : List Pt) : ∀ (L1 : List Pt) (last : Int),
    stairSum r0 last (L1 ++ p :: L2) - stairSum r0 last (L1 ++ L2) =
      (nextX r0 L2 - px p) * (prevY last L1 - py p)
  | [], last => by
    cases L2 with
    | nil => simp [stairSum, nextX, prevY]
    | cons q L2 =>
      simp only [List.nil_append, stairSum, nextX, prevY]
      grind
  | a :: L1, last => by
    have ih := stairSum_remove r0 p L2 L1 (py a)
    simp only [List.cons_append, stairSum, prevY]
    omega

theorem contribs2dGo_map_snd (r0 : Int) : ∀ (Z : List (Pt × Nat)) (last : Int),
    (contribs2dGo r0 last Z).map (·.2) = Z.map (·.2)
  | [], _ => rfl
  | (p, i) :: rest, last => by simp [contribs2dGo, contribs2dGo_map_snd r0 rest]

/-- every reported pair is the rectangle of some position of the front -/
theorem mem_contribs2dGo (r0 : Int) : ∀ (Z : List (Pt × Nat)) (last : Int) (c : Int × Nat),
    c ∈ contribs2dGo r0 last Z → ∃ Z1 p i Z2, Z = Z1 ++ (p, i) :: Z2 ∧
      c = ((nextX r0 (Z2.map (·.1)) - px p) * (prevY last (Z1.map (·.1)) - py p), i)
  | [], _, c, h => by simp [contribs2dGo] at h
  | (p, i) :: rest, last, c, h => by
    simp only [contribs2dGo] at h
    rcases List.mem_cons.mp h with h | h
    · refine ⟨[], p, i, rest, rfl, ?_⟩
      rw [h]
      cases rest with
      | nil => rfl
      | cons q rest => rfl
    · obtain ⟨Z1, p', i', Z2, hZ, hc⟩ := mem_contribs2dGo r0 rest (py p) c h
      exact ⟨(p, i) :: Z1, p', i', Z2, by rw [hZ]; rfl, by rw [hc]; rfl⟩

theorem lexLe_trans (a b c : Pt × Nat) : lexLe a b = true → lexLe b c = true → lexLe a c = true := by
  simp only [lexLe, Bool.or_eq_true, Bool.and_eq_true, decide_eq_true_eq, beq_iff_eq]
  omega

theorem lexLe_total (a b : Pt × Nat) : (lexLe a b || lexLe b a) = true := by
  simp only [lexLe, Bool.or_eq_true, Bool.and_eq_true, decide_eq_true_eq, beq_iff_eq]
  omega

/-- two mutually non-dominated 2-D points in lexicographic order form a descending stair -/
theorem stair_of_lexLe {a b : Pt × Nat} (ha : a.1.length = 2) (hb : b.1.length = 2)
    (hnd : dominates a.1 b.1 = false) (hlex : lexLe a b = true) :
    px a.1 ≤ px b.1 ∧ py b.1 ≤ py a.1 := by
  simp only [lexLe, Bool.or_eq_true, Bool.and_eq_true, decide_eq_true_eq, beq_iff_eq] at hlex
  refine ⟨by omega, ?_⟩
  apply Decidable.byContradiction
  intro hlt
  have h1 : leAll a.1 b.1 = true := (leAll_2d ha hb).mpr ⟨by omega, by omega⟩
  have h2 : leAll b.1 a.1 = false := by
    cases h : leAll b.1 a.1 with
    | false => rfl
    | true => have := (leAll_2d hb ha).mp h; omega
  simp [dominates, h1, h2] at hnd

theorem map_eraseIdx' {α β} (f : α → β) : ∀ (l : List α) (i : Nat), (l.eraseIdx i).map f = (l.map f).eraseIdx i
  | [], _ => rfl
  | _ :: _, 0 => rfl
  | a :: l, i + 1 => by simp [map_eraseIdx' f l i]

/-- an entry `(p, i)` of a permutation of the indexed points splits the point set -/
theorem eraseIdx_perm_of_zipIdx {S : List Pt} {Z1 Z2 : List (Pt × Nat)} {p : Pt} {i : Nat}
    (hperm : (Z1 ++ (p, i) :: Z2).Perm S.zipIdx) :
    i < S.length ∧ (S.eraseIdx i).Perm ((Z1 ++ Z2).map (·.1)) := by
  have hm : (p, i) ∈ S.zipIdx := hperm.mem_iff.mp (by simp)
  obtain ⟨hi, hp⟩ := List.mem_zipIdx' hm
  refine ⟨hi, ?_⟩
  have hi' : i < S.zipIdx.length := by simpa using hi
  have hget : S.zipIdx[i] = (p, i) := by rw [List.getElem_zipIdx]; simp [hp]
  have h1 := perm_cons_eraseIdx S.zipIdx i hi'
  rw [hget] at h1
  have h2 : (S.zipIdx.eraseIdx i).Perm (Z1 ++ Z2) :=
    ((h1.symm.trans hperm.symm).trans List.perm_middle).cons_inv
  have h3 := h2.map (·.1)
  rw [map_eraseIdx'] at h3
  have : S.zipIdx.map (·.1) = S := List.zipIdx_map_fst 0 S
  rw [this] at h3
  exact h3

/-- **`HypervolumeContribution2D` on a mutually non-dominated set, for every outcome of the
lexicographic `std::sort`**: the reported pairs are `(contribSpec S r i, i)`, each index once -/
theorem contribs2dGo_eq_spec {S : List Pt} {r : Pt} (hS : ∀ p ∈ S, p.length = 2) (hr : r.length = 2)
    (hle : ∀ p ∈ S, leAll p r = true) (hnd : ∀ p ∈ S, ∀ q ∈ S, dominates p q = false)
    (Z : List (Pt × Nat)) (hperm : Z.Perm S.zipIdx) (hsort : Z.Pairwise fun a b => lexLe a b = true) :
    ((contribs2dGo (px r) (py r) Z).map (·.2)).Perm (List.range S.length) ∧
    ∀ c ∈ contribs2dGo (px r) (py r) Z, c.1 = contribSpec S r c.2 := by
  constructor
  · rw [contribs2dGo_map_snd, List.range_eq_range', ← List.zipIdx_map_snd 0 S]
    exact hperm.map _
  · intro c hc
    obtain ⟨Z1, p, i, Z2, hZ, rfl⟩ := mem_contribs2dGo _ _ _ _ hc
    subst hZ
    have hmemS : ∀ z ∈ Z1 ++ (p, i) :: Z2, z.1 ∈ S := by
      intro z hz
      have := (List.mem_zipIdx' (hperm.mem_iff.mp hz : (z.1, z.2) ∈ S.zipIdx)).2
      rw [this]; exact List.getElem_mem _
    -- the front is a descending stair
    have hstair : (Z1 ++ (p, i) :: Z2).Pairwise fun a b => px a.1 ≤ px b.1 ∧ py b.1 ≤ py a.1 :=
      hsort.imp_of_mem fun {a b} ha hb hab =>
        stair_of_lexLe (hS _ (hmemS a ha)) (hS _ (hmemS b hb)) (hnd _ (hmemS a ha) _ (hmemS b hb)) hab
    have hstairL : ((Z1 ++ (p, i) :: Z2).map (·.1)).Pairwise fun a b => px a ≤ px b ∧ py b ≤ py a :=
      List.pairwise_map.mpr hstair
    have hpermL : ((Z1 ++ (p, i) :: Z2).map (·.1)).Perm S := by
      have := hperm.map (·.1)
      rwa [show S.zipIdx.map (·.1) = S from List.zipIdx_map_fst 0 S] at this
    obtain ⟨hi, hperm'⟩ := eraseIdx_perm_of_zipIdx hperm
    have hsub : ((Z1 ++ Z2).map (·.1)).Sublist ((Z1 ++ (p, i) :: Z2).map (·.1)) :=
      ((List.sublist_cons_self _ _).append_left _).map _
    have hstairL' := hstairL.sublist hsub
    -- both hypervolumes by the sweep
    have key : ∀ L : List Pt, (∀ q ∈ L, q ∈ S) → (L.Pairwise fun a b => px a ≤ px b ∧ py b ≤ py a) →
        (hvSpec L r : Int) = stairSum (px r) (py r) L := by
      intro L hL hst
      have hy : ∀ q ∈ L, py q ≤ py r := fun q hq => ((leAll_2d (hS q (hL q hq)) hr).mp (hle q (hL q hq))).2
      rw [← hv2dSorted_eq_spec (hst.imp fun h => h.1) (fun q hq => hS q (hL q hq)) hr
        (fun q hq => hle q (hL q hq)), hv2dSorted_eq_sweep hy,
        sweep2d_eq_stairSum _ _ _ (hst.imp fun h => h.2) hy]
    have e1 := key _ (fun q hq => hpermL.mem_iff.mp hq) hstairL
    have e2 := key _ (fun q hq => hpermL.mem_iff.mp (hsub.subset hq)) hstairL'
    unfold contribSpec
    rw [hvSpec_perm hperm', ← hvSpec_perm hpermL, e1, e2]
    simp only [List.map_append, List.map_cons]
    rw [stairSum_remove]

theorem lexSorted_mergeSort (T : List (Pt × Nat)) : (T.mergeSort lexLe).Pairwise fun a b => lexLe a b = true :=
  List.pairwise_mergeSort lexLe_trans lexLe_total T

theorem contribs2d_eq_spec {S : List Pt} {r : Pt} (hS : ∀ p ∈ S, p.length = 2) (hr : r.length = 2)
    (hle : ∀ p ∈ S, leAll p r = true) (hnd : ∀ p ∈ S, ∀ q ∈ S, dominates p q = false) :
    ((contribs2d S r).map (·.2)).Perm (List.range S.length) ∧
    ∀ c ∈ contribs2d S r, c.1 = contribSpec S r c.2 :=
  contribs2dGo_eq_spec hS hr hle hnd _ (List.mergeSort_perm _ _) (lexSorted_mergeSort _)

/-- non-vacuity: a front with a duplicate (indices 2, 3) -/
example :
    let S : List Pt := [[2, 0], [0, 2], [1, 1], [1, 1]]
    let r : Pt := [3, 3]
    (∀ p ∈ S, p.length = 2) ∧ r.length = 2 ∧ (∀ p ∈ S, leAll p r = true) ∧
    (∀ p ∈ S, ∀ q ∈ S, dominates p q = false) ∧
    contribs2d S r = [(1, 1), (0, 2), (0, 3), (1, 0)] ∧
    ((List.range S.length).map fun i => contribSpec S r i) = [1, 1, 0, 0] := by
  refine ⟨by decide, by decide, by decide, by decide, ?_, by decide⟩
  simp [contribs2d, contribs2dGo, lexLe, px, py, List.zipIdx, List.mergeSort,
    List.MergeSort.Internal.splitInTwo]

/-- the non-domination hypothesis cannot be dropped: with the dominated point `[1, 1]` the
routine reports `2` and `-1` where the true contributions are `3` and `0` -/
theorem contribs2d_needs_nondominated :
    ∃ (S : List Pt) (r : Pt), (∀ p ∈ S, p.length = 2) ∧ r.length = 2 ∧ (∀ p ∈ S, leAll p r = true) ∧
      ¬ ∀ c ∈ contribs2d S r, c.1 = contribSpec S r c.2 := by
  refine ⟨[[0, 0], [1, 1]], [2, 2], by decide, by decide, by decide, ?_⟩
  have h1 : contribs2d [[0, 0], [1, 1]] [2, 2] = [(2, 0), (-1, 1)] := by
    simp [contribs2d, contribs2dGo, lexLe, px, py, List.zipIdx, List.mergeSort,
      List.MergeSort.Internal.splitInTwo]
  have h2 : contribSpec [[0, 0], [1, 1]] [2, 2] 0 = 3 := by decide
  intro h
  have := h (2, 0) (by rw [h1]; simp)
  rw [h2] at this
  exact absurd this (by decide)

/-- without the hypothesis even the *selection* is wrong: here the routine reports the only
non-dominated point (index 0, true contribution 4) as the least contributor, with key 0 -/
theorem smallest2d_wrong_without_nondominated :
    smallest2d [[0, 0], [0, 1], [0, 1]] 1 [4, 4] = [(0, 0)] ∧
    contribSpec [[0, 0], [0, 1], [0, 1]] [4, 4] 0 = 4 ∧ contribSpec [[0, 0], [0, 1], [0, 1]] [4, 4] 1 = 0 := by
  refine ⟨?_, by decide, by decide⟩
  simp [smallest2d, smallestOf, sortKV, contribs2d, contribs2dGo, lexLe, px, py,
    List.zipIdx, List.mergeSort, List.MergeSort.Internal.splitInTwo]

theorem smallest2d_least_contributor {S : List Pt} {r : Pt} (hne : S ≠ []) (hS : ∀ p ∈ S, p.length = 2)
    (hr : r.length = 2) (hle : ∀ p ∈ S, leAll p r = true)
    (hnd : ∀ p ∈ S, ∀ q ∈ S, dominates p q = false) :
    ∃ i, i < S.length ∧ smallest2d S 1 r = [(contribSpec S r i, i)] ∧
      ∀ j, j < S.length → contribSpec S r i ≤ contribSpec S r j := by
  obtain ⟨h1, h2⟩ := contribs2d_eq_spec hS hr hle hnd
  exact indexed_smallestOf h1 h2 (List.length_pos_iff.mpr hne)

theorem largest2d_greatest_contributor {S : List Pt} {r : Pt} (hne : S ≠ []) (hS : ∀ p ∈ S, p.length = 2)
    (hr : r.length = 2) (hle : ∀ p ∈ S, leAll p r = true)
    (hnd : ∀ p ∈ S, ∀ q ∈ S, dominates p q = false) :
    ∃ i, i < S.length ∧ largest2d S 1 r = [(contribSpec S r i, i)] ∧
      ∀ j, j < S.length → contribSpec S r j ≤ contribSpec S r i := by
  obtain ⟨h1, h2⟩ := contribs2d_eq_spec hS hr hle hnd
  exact indexed_largestOf h1 h2 (List.length_pos_iff.mpr hne)

/-- the same for **every** outcome of the two unstable `std::sort` calls of the C++
(`Z`: the lexicographically sorted front, `L`: the key-sorted contributions) -/
theorem least_contributor_2d_any_sort {S : List Pt} {r : Pt} (hne : S ≠ []) (hS : ∀ p ∈ S, p.length = 2)
    (hr : r.length = 2) (hle : ∀ p ∈ S, leAll p r = true)
    (hnd : ∀ p ∈ S, ∀ q ∈ S, dominates p q = false)
    (Z : List (Pt × Nat)) (hZp : Z.Perm S.zipIdx) (hZs : Z.Pairwise fun a b => lexLe a b = true)
    (L : List KV) (hLp : L.Perm (contribs2dGo (px r) (py r) Z)) (hLs : L.Pairwise fun a b => a.1 ≤ b.1) :
    (∃ i, i < S.length ∧ L.take 1 = [(contribSpec S r i, i)] ∧
      ∀ j, j < S.length → contribSpec S r i ≤ contribSpec S r j) ∧
    (∃ i, i < S.length ∧ (L.drop (S.length - 1)).reverse = [(contribSpec S r i, i)] ∧
      ∀ j, j < S.length → contribSpec S r j ≤ contribSpec S r i) := by
  obtain ⟨h1, h2⟩ := contribs2dGo_eq_spec hS hr hle hnd Z hZp hZs
  have hn := List.length_pos_iff.mpr hne
  have hlen : (contribs2dGo (px r) (py r) Z).length = S.length := by
    have := h1.length_eq
    simpa using this
  refine ⟨indexed_argmin_sorted h1 h2 hn hLp hLs, ?_⟩
  have := indexed_argmax_sorted h1 h2 hn hLp hLs
  rwa [hlen] at this

example : smallest2d [[2, 0], [0, 2], [1, 1], [1, 1]] 1 [3, 3] = [(0, 2)] ∧
    largest2d [[3, 0], [0, 3], [1, 1]] 1 [4, 4] = [(4, 2)] := by
  constructor <;>
  simp [smallest2d, largest2d, smallestOf, largestOf, sortKV, contribs2d, contribs2dGo, lexLe, px, py,
    List.zipIdx, List.mergeSort, List.MergeSort.Internal.splitInTwo]

end SharkVerif.HV
