/-
Lemmas about the selection of the least / greatest hypervolume contributors
(`Model/Contrib.lean`): the `std::sort`-and-truncate tail (`smallestOf`/`largestOf`),
`HypervolumeContribution2D` with reference point (`contribs2d`) and
`HypervolumeContributionMD` (`restrictSet`, `contribsMD`).  Core Lean only.
-/
import SharkVerif.Lemmas.Hypervolume
import SharkVerif.Lemmas.FastSort
import SharkVerif.Model.Contrib
namespace SharkVerif.HV
open SharkVerif.Pareto

theorem get_mid {α} (A R : List α) (x : α) (h : A.length < (A ++ x :: R).length) :
    (A ++ x :: R)[A.length] = x := by
  rw [List.getElem_append_right (Nat.le_refl _)]; simp

theorem get_mid2 {α} (A M B : List α) (x y : α) (k : Nat) (hk : k = A.length + M.length + 1)
   (h : k < (A ++ x :: (M ++ y :: B)).length) :
    (A ++ x :: (M ++ y :: B))[k] = y := by
  subst hk
  have : A ++ x :: (M ++ y :: B) = (A ++ x :: M) ++ y :: B := by simp
  rw [List.getElem_of_eq this]
  have h2 : A.length + M.length + 1 = (A ++ x :: M).length := by simp; omega
  simp only [h2]
  exact get_mid _ _ _ _

theorem swap_decomp {α} (A M B : List α) (x y : α) (i j : Nat) (hi : i = A.length)
    (hj : j = A.length + M.length + 1) :
    (A ++ x :: (M ++ y :: B)).toArray.swapIfInBounds i j = (A ++ y :: (M ++ x :: B)).toArray := by
  subst hi hj
  apply Array.ext
  · simp [Array.swapIfInBounds]; split <;> (try split) <;> simp
  · intro k h1 h2
    rw [Array.getElem_swapIfInBounds]
    simp only [List.size_toArray, List.length_append, List.length_cons] at h1 h2 ⊢
    simp only [List.getElem_toArray]
    by_cases hk1 : k = A.length
    · subst hk1
      rw [dif_pos ⟨rfl, by omega⟩, get_mid, get_mid2 _ _ _ _ _ _ rfl]
    · by_cases hk2 : k = A.length + M.length + 1
      · subst hk2
        rw [dif_neg (by omega), dif_pos ⟨rfl, by omega⟩, get_mid, get_mid2 _ _ _ _ _ _ rfl]
      · simp only [hk1, hk2, false_and, dite_false]
        by_cases hlt : k < A.length
        · simp [List.getElem_append_left, hlt]
        · rw [List.getElem_append_right (by omega), List.getElem_append_right (by omega)]
          obtain ⟨d, rfl⟩ : ∃ d, k = A.length + d + 1 := ⟨k - A.length - 1, by omega⟩
          have : A.length + d + 1 - A.length = d + 1 := by omega
          simp only [this, List.getElem_cons_succ]
          by_cases hd : d < M.length
          · simp [List.getElem_append_left, hd]
          · rw [List.getElem_append_right (by omega), List.getElem_append_right (by omega)]
            obtain ⟨e, rfl⟩ : ∃ e, d = M.length + e + 1 := ⟨d - M.length - 1, by omega⟩
            have : M.length + e + 1 - M.length = e + 1 := by omega
            simp [this]

/-- invariant of the compaction loop on a decomposition `A ++ M ++ B` of the zipped arrays -/
theorem compactGo_decomp : ∀ (fuel : Nat) (A M B : List (Pt × Nat)), M.length ≤ fuel →
    ∀ (ps : Array Pt) (rk : Array Nat), ps = ((A ++ M ++ B).map (·.1)).toArray →
      rk = ((A ++ M ++ B).map (·.2)).toArray →
    let res := compactGo fuel ps rk A.length (A.length + M.length)
    (res.1.toList.take res.2).Perm ((A ++ M.filter (·.2 == 1)).map (·.1))
  | 0, A, M, B, hf, ps, rk, hps, hrk => by
    have : M = [] := List.length_eq_zero_iff.mp (by omega)
    subst this
    subst hps
    simp [compactGo]
  | fuel + 1, A, [], B, hf, ps, rk, hps, hrk => by
    subst hps
    simp [compactGo]
  | fuel + 1, A, x :: M, B, hf, ps, rk, hps, hrk => by
    have hne : (A.length == A.length + (x :: M).length) = false := by simp
    have hget : rk.getD A.length 0 = x.2 := by
      subst hrk
      simp
    intro res
    have hres : res = compactGo (fuel + 1) ps rk A.length (A.length + (x :: M).length) := rfl
    rw [compactGo, hne, hget] at hres
    simp only [Bool.false_eq_true, if_false] at hres
    by_cases hx : x.2 = 1
    · simp only [hx, beq_self_eq_true, if_true] at hres
      have ih := compactGo_decomp fuel (A ++ [x]) M B (by simpa using hf) ps rk
        (by subst hps; simp) (by subst hrk; simp)
      have e1 : (A ++ [x]).length = A.length + 1 := by simp
      have e2 : (A ++ [x]).length + M.length = A.length + (x :: M).length := by simp; omega
      rw [e2, e1] at ih
      rw [hres]
      refine ih.trans ?_
      simp [hx]
    · have hx' : (x.2 == 1) = false := by simpa using hx
      simp only [hx', Bool.false_eq_true, if_false] at hres
      rcases List.eq_nil_or_concat M with rfl | ⟨M', y, hM⟩
      · have ih := compactGo_decomp fuel A [] (x :: B) (by simp) ps rk
          (by subst hps; simp) (by subst hrk; simp)
        simp only [List.length_cons, List.length_nil, Nat.zero_add, Nat.add_sub_cancel, bne_self_eq_false,
          Bool.false_eq_true, if_false] at hres
        simp only [List.length_nil, Nat.add_zero] at ih
        rw [hres]
        refine ih.trans ?_
        simp [hx']
      · rw [List.concat_eq_append] at hM
        subst hM
        have hne2 : (A.length != A.length + (x :: (M' ++ [y])).length - 1) = true := by simp
        rw [hne2] at hres
        simp only [if_true] at hres
        have e3 : A.length + (x :: (M' ++ [y])).length - 1 = A.length + M'.length + 1 := by simp; omega
        rw [e3] at hres
        have ih := compactGo_decomp fuel A (y :: M') (x :: B) (by simp at hf ⊢; omega)
          (ps.swapIfInBounds A.length (A.length + M'.length + 1))
          (rk.swapIfInBounds A.length (A.length + M'.length + 1))
          (by
            subst hps
            have := swap_decomp (A.map (·.1)) (M'.map (·.1)) (B.map (·.1)) x.1 y.1 A.length
              (A.length + M'.length + 1) (by simp) (by simp)
            simpa using this)
          (by
            subst hrk
            have := swap_decomp (A.map (·.2)) (M'.map (·.2)) (B.map (·.2)) x.2 y.2 A.length
              (A.length + M'.length + 1) (by simp) (by simp)
            simpa using this)
        have e4 : A.length + (y :: M').length = A.length + M'.length + 1 := by simp; omega
        rw [e4] at ih
        rw [hres]
        refine ih.trans ?_
        apply List.Perm.map
        apply List.Perm.append_left
        rw [List.filter_cons_of_neg (a := x) (by simpa using hx)]
        exact (List.perm_append_singleton y M').symm.filter _


/-- **the compaction loop keeps exactly the entries of rank 1** (as a multiset) -/
theorem compactGo_perm (Q : List Pt) (rks : List Nat) (h : rks.length = Q.length) :
    ((compactGo Q.length Q.toArray rks.toArray 0 Q.length).1.toList.take
      (compactGo Q.length Q.toArray rks.toArray 0 Q.length).2).Perm
      (((Q.zip rks).filter (·.2 == 1)).map (·.1)) := by
  have := compactGo_decomp Q.length [] (Q.zip rks) [] (by simp [h]) Q.toArray rks.toArray
    (by simp [List.map_fst_zip (Nat.le_of_eq h.symm)]) (by simp [List.map_snd_zip (Nat.le_of_eq h)])
  simpa [h] using this

theorem length_pmax : ∀ (a b : Pt), (pmax a b).length = min a.length b.length
  | [], _ => by simp [pmax]
  | _ :: _, [] => by simp [pmax]
  | x :: a, y :: b => by simp [pmax, length_pmax a b] <;> omega

theorem filter_zip_map {α} (f : α → Nat) : ∀ (Q : List α),
    ((Q.zip (Q.map f)).filter (·.2 == 1)).map (·.1) = Q.filter fun q => f q == 1
  | [] => rfl
  | q :: Q => by
    simp only [List.map_cons, List.zip_cons_cons, List.filter_cons]
    split <;> simp [filter_zip_map f Q]

/-- `restrictSet` returns (in some order) the non-dominated points of the restricted set -/
theorem restrictSet_perm (rk : List Pt → List Nat) (S : List Pt) (p : Pt)
    (hrk : rk (S.map (pmax p)) = (S.map (pmax p)).map (rankSpec (S.map (pmax p)))) :
    (restrictSet rk S p).Perm (nonDominated (S.map (pmax p))) := by
  unfold restrictSet
  simp only
  rw [hrk]
  generalize S.map (pmax p) = Q
  refine (compactGo_perm Q (Q.map (rankSpec Q)) (by simp)).trans ?_
  rw [filter_zip_map]
  apply List.Perm.of_eq
  unfold nonDominated
  apply List.filter_congr
  intro q _
  by_cases h : rankSpec Q q = 1
  · have := (rankSpec_eq_one_iff Q q).mp h
    simp [h]
    exact this
  · have h2 : ¬ ∀ s ∈ Q, dominates s q = false := fun hh => h ((rankSpec_eq_one_iff Q q).mpr hh)
    have : (rankSpec Q q == 1) = false := by simpa using h
    rw [this]
    cases hc : (!Q.any fun s => dominates s q) with
    | false => rfl
    | true =>
      exfalso; apply h2
      intro s hs
      simp only [Bool.not_eq_true', List.any_eq_false] at hc
      simpa using hc s hs

example : restrictSet fastSort [[0, 5], [1, 1], [5, 0], [2, 2]] [1, 0] = [[5, 0], [1, 1]] := by decide

theorem mem_restrictSet {rk : List Pt → List Nat} {S : List Pt} {p q : Pt}
    (hrk : rk (S.map (pmax p)) = (S.map (pmax p)).map (rankSpec (S.map (pmax p))))
    (h : q ∈ restrictSet rk S p) : ∃ s ∈ S, q = pmax p s := by
  have h' := (restrictSet_perm rk S p hrk).mem_iff.mp h
  obtain ⟨s, hs, rfl⟩ := List.mem_map.mp (mem_nonDominated.mp h').1
  exact ⟨s, hs, rfl⟩

theorem hvSpec_restrictSet {rk : List Pt → List Nat} {S : List Pt} {p r : Pt}
    (hrk : rk (S.map (pmax p)) = (S.map (pmax p)).map (rankSpec (S.map (pmax p)))) :
    hvSpec (restrictSet rk S p) r = hvSpec (S.map (pmax p)) r := by
  rw [hvSpec_perm (restrictSet_perm rk S p hrk)]
  exact hvSpec_nonDominated

theorem perm_cons_eraseIdx {α} : ∀ (S : List α) (i : Nat) (h : i < S.length),
    S.Perm (S[i] :: S.eraseIdx i)
  | _ :: _, 0, _ => by simp
  | x :: S, i + 1, h => by
    simp only [List.getElem_cons_succ, List.eraseIdx_cons_succ]
    exact ((perm_cons_eraseIdx S i (by simpa using h)).cons x).trans (List.Perm.swap _ _ _)

theorem mem_of_mem_eraseIdx' {α} {S : List α} {i : Nat} {a : α} (h : a ∈ S.eraseIdx i) : a ∈ S :=
  List.mem_of_mem_eraseIdx h

/-- removing point `i` loses the volume of its box minus the hypervolume of the other
points restricted to that box (no non-domination hypothesis) -/
theorem contribSpec_eq_box {m : Nat} {S : List Pt} {r : Pt} (hS : ∀ p ∈ S, p.length = m)
    (hr : r.length = m) (hle : ∀ p ∈ S, leAll p r = true) (i : Nat) (hi : i < S.length) :
    contribSpec S r i = boxVol S[i] r - (hvSpec ((S.eraseIdx i).map (pmax S[i])) r : Int) := by
  unfold contribSpec
  rw [hvSpec_perm (perm_cons_eraseIdx S i hi)]
  have := hvSpec_cons (S := S.eraseIdx i) (hle S[i] (List.getElem_mem hi)) hr
    (fun s hs => hS s (List.mem_of_mem_eraseIdx hs))
  omega

theorem contribsMD_eq_spec (rk : List Pt → List Nat) (hv : List Pt → Pt → Int) (m : Nat)
    (S : List Pt) (r : Pt) (hS : ∀ p ∈ S, p.length = m) (hr : r.length = m)
    (hle : ∀ p ∈ S, leAll p r = true)
    (hrk : ∀ Q, (∀ q ∈ Q, q.length = m) → rk Q = Q.map (rankSpec Q))
    (hhv : ∀ Q, (∀ q ∈ Q, q.length = m) → (∀ q ∈ Q, leAll q r = true) → hv Q r = (hvSpec Q r : Int)) :
    contribsMD rk hv S r = (List.range S.length).map fun i => (contribSpec S r i, i) := by
  unfold contribsMD
  apply List.map_congr_left
  intro i hi
  have hi : i < S.length := List.mem_range.mp hi
  have hget : S.getD i [] = S[i] := by simp [List.getD_eq_getElem?_getD, hi]
  rw [hget]
  have hp := List.getElem_mem hi
  have hQ : ∀ q ∈ (S.eraseIdx i).map (pmax S[i]), q.length = m := by
    intro q hq
    obtain ⟨s, hs, rfl⟩ := List.mem_map.mp hq
    rw [length_pmax, hS _ hp, hS s (List.mem_of_mem_eraseIdx hs)]; simp
  have hrk' := hrk _ hQ
  have hmem : ∀ q ∈ restrictSet rk (S.eraseIdx i) S[i], q.length = m ∧ leAll q r = true := by
    intro q hq
    obtain ⟨s, hs, rfl⟩ := mem_restrictSet hrk' hq
    exact ⟨hQ _ (List.mem_map.mpr ⟨s, hs, rfl⟩),
      leAll_pmax_le (hle _ hp) (hle s (List.mem_of_mem_eraseIdx hs))⟩
  rw [hhv _ (fun q hq => (hmem q hq).1) (fun q hq => (hmem q hq).2), hvSpec_restrictSet hrk',
    contribSpec_eq_box hS hr hle i hi]

end SharkVerif.HV
