/-
C02 — `symm_pos_semi_definite_solver` (`decompositions.hpp`): for rank-deficient symmetric positive
semi-definite systems the solver returns a LEAST-SQUARES solution, i.e. a solution of the normal
equations `Aᵀ (A x − b) = 0` (`A` symmetric: `A (A x − b) = 0`).

* `lsq_of_rank_factor` — the algebraic core: `M = L Lᵀ` (`L` is `n × r`), `x = L (LᵀL)⁻¹ (LᵀL)⁻¹ Lᵀ b`
  ⇒ `M (M x − b) = 0`; every `n`, every `r` (incl. `r = 0`, `r = n`, even `r > n`), no definiteness used:
  only that the two inner systems with `G = LᵀL` were solved.
* `lsq_of_perm` / `solve_of_perm` — undoing the symmetric pivoting.
* `semiApply_lsq`, `semi_solve_lsq`, `semi_solve_exact` — end to end about the modelled routine
  `semiApplyArr n (semiFactor r n A) b` (`Model/LinSolve.lean`), all three branches, under the
  factorisation hypothesis `PstrfSpec` (what `pstrf` has to deliver, = the run-time oracle `pstrf-PAPt`)
  and, in the rank-deficient branch, `InnerCholOk` (the inner `potrf` of `LᵀL` succeeded; the C++
  `cholesky_decomposition::decompose` ignores the return value of `potrf`, so this is a genuine hypothesis).

Exact arithmetic (`Rat`); nothing is bounded.
-/
import SharkVerif.Lemmas.LinSolveProps
namespace SharkVerif.C02
open SharkVerif.LinSolve

/-! ## re-association of rectangular products -/

/-- `Σ_k (Σ_c P c · Q k c) · (Σ_d R k d · w d) = Σ_c P c · Σ_d (Σ_k Q k c · R k d) · w d`
(`pᵀ Qᵀ (R w) = pᵀ ((QᵀR) w)`, `Q : n × r`, `R : n × r'`) -/
theorem sum_rect_assoc (n r r' : Nat) (P : Nat → Rat) (Q R : Nat → Nat → Rat) (w : Nat → Rat) :
    sum n (fun k => sum r (fun c => P c * Q k c) * sum r' (fun d => R k d * w d))
      = sum r (fun c => P c * sum r' (fun d => sum n (fun k => Q k c * R k d) * w d)) := by
  simp only [sum_eq_finset, Finset.sum_mul, Finset.mul_sum]
  -- lhs `Σ_k Σ_d Σ_c`, rhs `Σ_c Σ_d Σ_k`
  rw [Finset.sum_comm]
  conv_rhs => rw [Finset.sum_comm]
  apply Finset.sum_congr rfl; intro d _
  rw [Finset.sum_comm]
  apply Finset.sum_congr rfl; intro c _
  apply Finset.sum_congr rfl; intro k _
  ring

/-- `Σ_k (Σ_c P c · Q k c) · v k = Σ_c P c · Σ_k Q k c · v k` -/
theorem sum_rect_assoc1 (n r : Nat) (P : Nat → Rat) (Q : Nat → Nat → Rat) (v : Nat → Rat) :
    sum n (fun k => sum r (fun c => P c * Q k c) * v k)
      = sum r (fun c => P c * sum n (fun k => Q k c * v k)) := by
  simp only [sum_eq_finset, Finset.sum_mul, Finset.mul_sum]
  rw [Finset.sum_comm]
  apply Finset.sum_congr rfl; intro c _
  apply Finset.sum_congr rfl; intro k _
  ring

/-! ## 1. the algebraic core -/

/-- `M = L Lᵀ`, `x = L z2`, `G z2 = z1`, `G z1 = z`, `z = Lᵀ b`, `G = LᵀL`  ⇒  `M x = L z1` -/
theorem rank_factor_mulVec (n r : Nat) (L M G : Mat) (x z1 z2 : Vec)
    (hM : ∀ i k, i < n → k < n → M i k = sum r (fun c => L i c * L k c))
    (hG : ∀ a c, a < r → c < r → G a c = sum n (fun i => L i a * L i c))
    (hz2 : ∀ a, a < r → mulVec r G z2 a = z1 a)
    (hx : ∀ i, i < n → x i = sum r (fun c => L i c * z2 c)) :
    ∀ i, i < n → mulVec n M x i = sum r (fun c => L i c * z1 c) := by
  intro i hi
  unfold mulVec
  rw [show sum n (fun k => M i k * x k)
        = sum n (fun k => sum r (fun c => L i c * L k c) * sum r (fun d => L k d * z2 d)) from
      sum_congr (fun k hk => by rw [hM i k hi hk, hx k hk])]
  rw [sum_rect_assoc]
  apply sum_congr; intro c hc
  rw [← hz2 c hc]; unfold mulVec
  congr 1; apply sum_congr; intro d hd; rw [hG c d hc hd]

/-- **Least squares from a rank factorisation.**  For every `n`, every `r`, every `L` (`n × r`, read on
`i < n`, `c < r` only), `M = L Lᵀ`, `G = LᵀL`, `z = Lᵀ b`, `G z1 = z`, `G z2 = z1`, `x = L z2`:
`M (M x − b) = 0`, the normal equations of `min ‖M x − b‖`.  (`x = L G⁻¹ G⁻¹ Lᵀ b = M⁺ b` when `G` is
regular, but regularity is not used: any solutions `z1`, `z2` of the two inner systems do.) -/
theorem lsq_of_rank_factor (n r : Nat) (L M G : Mat) (b x z z1 z2 : Vec)
    (hM : ∀ i k, i < n → k < n → M i k = sum r (fun c => L i c * L k c))
    (hG : ∀ a c, a < r → c < r → G a c = sum n (fun i => L i a * L i c))
    (hz : ∀ c, c < r → z c = sum n (fun i => L i c * b i))
    (hz1 : ∀ a, a < r → mulVec r G z1 a = z a)
    (hz2 : ∀ a, a < r → mulVec r G z2 a = z1 a)
    (hx : ∀ i, i < n → x i = sum r (fun c => L i c * z2 c)) :
    ∀ i, i < n → mulVec n M (fun k => mulVec n M x k - b k) i = 0 := by
  have hMx := rank_factor_mulVec n r L M G x z1 z2 hM hG hz2 hx
  intro i hi
  have e : mulVec n M (fun k => mulVec n M x k - b k) i
      = sum n (fun k => sum r (fun a => L i a * L k a) * sum r (fun c => L k c * z1 c))
        - sum n (fun k => sum r (fun a => L i a * L k a) * b k) := by
    show sum n (fun k => M i k * (mulVec n M x k - b k)) = _
    rw [← sum_sub]; apply sum_congr; intro k hk; rw [hMx k hk, hM i k hi hk]; ring
  rw [e, sum_rect_assoc, sum_rect_assoc1, ← sum_sub]
  apply sum_zero'; intro a ha
  have h1 : sum r (fun d => sum n (fun k => L k a * L k d) * z1 d) = z a := by
    rw [← hz1 a ha]; unfold mulVec
    apply sum_congr; intro d hd; rw [hG a d ha hd]
  rw [h1, ← hz a ha]; ring

/-! ## 2. undoing the symmetric permutation -/

/-- `A' = A∘(σ×σ)`, `v' = v∘σ`  ⇒  `(A v)∘σ = A' v'` -/
theorem mulVec_perm (n : Nat) (A A' : Mat) (v v' : Vec) (σ : Nat → Nat)
    (hsum : ∀ f : Nat → Rat, sum n (fun i => f (σ i)) = sum n f)
    (hA : ∀ i k, i < n → k < n → A' i k = A (σ i) (σ k))
    (hv : ∀ k, k < n → v (σ k) = v' k) :
    ∀ i, i < n → mulVec n A v (σ i) = mulVec n A' v' i := by
  intro i hi
  unfold mulVec
  rw [← hsum (fun k => A (σ i) k * v k)]
  apply sum_congr; intro k hk
  rw [hA i k hi hk, hv k hk]

/-- **Normal equations are transported back through the pivoting.**  `σ` a permutation of `[0,n)` with
inverse `τ`, `A' i k = A (σ i) (σ k)`, `pb i = b (σ i)`; if `x'` solves the normal equations of `(A', pb)`
then `x i = x' (τ i)` solves those of `(A, b)`. -/
theorem lsq_of_perm (n : Nat) (A A' : Mat) (b pb x x' : Vec) (σ τ : Nat → Nat)
    (hσ : ∀ i, i < n → σ i < n) (hτ : ∀ i, i < n → τ i < n)
    (hστ : ∀ i, σ (τ i) = i) (hτσ : ∀ i, τ (σ i) = i)
    (hsum : ∀ f : Nat → Rat, sum n (fun i => f (σ i)) = sum n f)
    (hA : ∀ i k, i < n → k < n → A' i k = A (σ i) (σ k))
    (hb : ∀ i, i < n → pb i = b (σ i))
    (hx : ∀ i, i < n → x i = x' (τ i))
    (h : ∀ i, i < n → mulVec n A' (fun k => mulVec n A' x' k - pb k) i = 0) :
    ∀ i, i < n → mulVec n A (fun k => mulVec n A x k - b k) i = 0 := by
  intro i hi
  have hx' : ∀ k, k < n → x (σ k) = x' k := fun k hk => by rw [hx _ (hσ k hk), hτσ]
  have hAx := mulVec_perm n A A' x x' σ hsum hA hx'
  have key := mulVec_perm n A A' (fun k => mulVec n A x k - b k) (fun k => mulVec n A' x' k - pb k) σ hsum hA
    (fun k hk => by show mulVec n A x (σ k) - b (σ k) = _; rw [hAx k hk, hb k hk]) (τ i) (hτ i hi)
  rw [hστ] at key
  rw [key]; exact h (τ i) (hτ i hi)

/-- the same for an exact solution: `A' x' = pb` ⇒ `A x = b` -/
theorem solve_of_perm (n : Nat) (A A' : Mat) (b pb x x' : Vec) (σ τ : Nat → Nat)
    (hσ : ∀ i, i < n → σ i < n) (hτ : ∀ i, i < n → τ i < n)
    (hστ : ∀ i, σ (τ i) = i) (hτσ : ∀ i, τ (σ i) = i)
    (hsum : ∀ f : Nat → Rat, sum n (fun i => f (σ i)) = sum n f)
    (hA : ∀ i k, i < n → k < n → A' i k = A (σ i) (σ k))
    (hb : ∀ i, i < n → pb i = b (σ i))
    (hx : ∀ i, i < n → x i = x' (τ i))
    (h : ∀ i, i < n → mulVec n A' x' i = pb i) :
    ∀ i, i < n → mulVec n A x i = b i := by
  intro i hi
  have hx' : ∀ k, k < n → x (σ k) = x' k := fun k hk => by rw [hx _ (hσ k hk), hτσ]
  have key := mulVec_perm n A A' x x' σ hsum hA hx' (τ i) (hτ i hi)
  rw [hστ] at key
  rw [key, h _ (hτ i hi), hb _ (hτ i hi), hστ]

/-- instance for the transposition sequence recorded by `pstrf` / `getrf`
(`swap_rows(P, ·)` = re-indexing by `permOf P n`, `swap_rows_inverted(P, ·)` = by `permInvOf P n`) -/
theorem lsq_of_permOf (n : Nat) (P : Nat → Nat) (hP : ∀ c, c < n → P c < n) (A : Mat) (b x x' : Vec)
    (hx : ∀ i, i < n → x i = x' (permInvOf P n i))
    (h : ∀ i, i < n →
      mulVec n (fun i k => A (permOf P n i) (permOf P n k))
        (fun k => mulVec n (fun i k => A (permOf P n i) (permOf P n k)) x' k - b (permOf P n k)) i = 0) :
    ∀ i, i < n → mulVec n A (fun k => mulVec n A x k - b k) i = 0 :=
  lsq_of_perm n A (fun i k => A (permOf P n i) (permOf P n k)) b (fun k => b (permOf P n k)) x x'
    (permOf P n) (permInvOf P n)
    (permOf_lt P n n (Nat.le_refl n) hP) (permInvOf_lt P n n (Nat.le_refl n) hP)
    (permOf_permInvOf P n) (permInvOf_permOf P n) (sum_permOf P n n (Nat.le_refl n) hP)
    (fun _ _ _ _ => rfl) (fun _ _ => rfl) hx h

theorem solve_of_permOf (n : Nat) (P : Nat → Nat) (hP : ∀ c, c < n → P c < n) (A : Mat) (b x x' : Vec)
    (hx : ∀ i, i < n → x i = x' (permInvOf P n i))
    (h : ∀ i, i < n →
      mulVec n (fun i k => A (permOf P n i) (permOf P n k)) x' i = b (permOf P n i)) :
    ∀ i, i < n → mulVec n A x i = b i :=
  solve_of_perm n A (fun i k => A (permOf P n i) (permOf P n k)) b (fun k => b (permOf P n k)) x x'
    (permOf P n) (permInvOf P n)
    (permOf_lt P n n (Nat.le_refl n) hP) (permInvOf_lt P n n (Nat.le_refl n) hP)
    (permOf_permInvOf P n) (permInvOf_permOf P n) (sum_permOf P n n (Nat.le_refl n) hP)
    (fun _ _ _ _ => rfl) (fun _ _ => rfl) hx h

/-! ## 3. the modelled routine -/

/-- `LᵀL` for the factor stored in `s.M` (all columns; the solver reads the first `rank`) -/
def semiGram (n : Nat) (s : PState) : Mat := fun a c => sum n fun i => mget s.M i a * mget s.M i c

theorem semiGram_symm (n : Nat) (s : PState) (a c : Nat) : semiGram n s a c = semiGram n s c a := by
  unfold semiGram; apply sum_congr; intro i _; rw [Rat.mul_comm]

/-- **What `pstrf` has to deliver** (H1; exactly what the run-time oracle `pstrf-PAPt` checks on the real
code, and what a `pstrf_correct` discharges): with `rank = s.rank.getD n`, `F = s.M`, `σ = permOf s.P n`,
* `rank ≤ n`, the recorded transpositions stay inside `[0,n)`,
* `A (σ i) (σ k) = Σ_{c<rank} F i c · F k c` on `[0,n)²` (`Pᵀ A P = L Lᵀ`, `L` = first `rank` columns),
* in the full-rank case (the branch that runs two triangular solves on the storage): nothing above the
  diagonal, no zero on the diagonal. -/
structure PstrfSpec (n : Nat) (A : Mat) (s : PState) : Prop where
  rank_le : s.rank.getD n ≤ n
  perm : ∀ c, c < n → s.P c < n
  fac : ∀ i k, i < n → k < n →
    A (permOf s.P n i) (permOf s.P n k) = sum (s.rank.getD n) (fun c => mget s.M i c * mget s.M k c)
  upper : s.rank.getD n = n → ∀ i c, i < n → c < n → i < c → mget s.M i c = 0
  diag : s.rank.getD n = n → ∀ j, j < n → mget s.M j j ≠ 0

/-- H2, needed in the branch `0 < rank < n` only: the inner Cholesky factorisation of `G = LᵀL`
(`m_cholesky.decompose(prod(trans(L),L))`) succeeded and the root function is exact on its pivots. -/
def InnerCholOk (r : Rat → Rat) (n : Nat) (s : PState) : Prop :=
  0 < s.rank.getD n → s.rank.getD n < n →
    potrfInfo false r (s.rank.getD n) (semiGram n s) = 0 ∧ SqrtSpec r (s.rank.getD n) (semiGram n s)

/-- the vector before the final `swap_rows_inverted` (the `x` of `semiApplyArr`) -/
def semiInner (n : Nat) (f : PState × Arr2) (b : Vec) : Array Rat :=
  let s := f.1
  let rank := s.rank.getD n
  let F : Mat := fun i j => mget s.M i j
  let pb : Vec := fun i => b (permOf s.P n i)
  if rank = 0 then vecOf n fun _ => 0
  else if rank = n then
    let y := trsvArr ⟨false, false⟩ true n F pb
    trsvArr ⟨true, false⟩ true n (transpose F) (fun i => vget y i)
  else
    let z : Vec := fun c => sum n fun i => F i c * pb i
    let z1 := cholSolveArr rank f.2 z
    let z2 := cholSolveArr rank f.2 (fun c => vget z1 c)
    vecOf n fun i => sum rank fun c => F i c * vget z2 c

theorem semiApplyArr_eq (n : Nat) (f : PState × Arr2) (b : Vec) :
    semiApplyArr n f b = vecOf n fun i => vget (semiInner n f b) (permInvOf f.1.P n i) := rfl

theorem semiInner_rank0 (n : Nat) (s : PState) (ch : Arr2) (b : Vec) (h : s.rank.getD n = 0) :
    semiInner n (s, ch) b = vecOf n fun _ => 0 := by
  show (if s.rank.getD n = 0 then _ else _) = _
  rw [if_pos h]

theorem semiInner_full (n : Nat) (s : PState) (ch : Arr2) (b : Vec) (h0 : s.rank.getD n ≠ 0)
    (h : s.rank.getD n = n) :
    (fun k => vget (semiInner n (s, ch) b) k)
      = trsv ⟨true, false⟩ true n (transpose fun i j => mget s.M i j)
          (trsv ⟨false, false⟩ true n (fun i j => mget s.M i j) (fun i => b (permOf s.P n i))) := by
  have : semiInner n (s, ch) b
      = trsvArr ⟨true, false⟩ true n (transpose fun i j => mget s.M i j)
          (fun i => vget (trsvArr ⟨false, false⟩ true n (fun i j => mget s.M i j)
            (fun i => b (permOf s.P n i))) i) := by
    show (if s.rank.getD n = 0 then _ else if s.rank.getD n = n then _ else _) = _
    rw [if_neg h0, if_pos h]
  rw [this]; rfl

theorem semiInner_deficient (n : Nat) (s : PState) (ch : Arr2) (b : Vec) (h0 : s.rank.getD n ≠ 0)
    (h : s.rank.getD n ≠ n) :
    semiInner n (s, ch) b
      = vecOf n fun i => sum (s.rank.getD n) fun c => mget s.M i c *
          vget (cholSolveArr (s.rank.getD n) ch (fun c => vget (cholSolveArr (s.rank.getD n) ch
            (fun c => sum n fun i => mget s.M i c * b (permOf s.P n i))) c)) c := by
  show (if s.rank.getD n = 0 then _ else if s.rank.getD n = n then _ else _) = _
  rw [if_neg h0, if_neg h]

/-- the three branches, in the pivoted coordinates: `x'` (before `swap_rows_inverted`) solves the normal
equations of `(Pᵀ A P, Pᵀ b)` -/
theorem semiInner_lsq (r : Rat → Rat) (n : Nat) (A : Mat) (b : Vec) (s : PState) (ch : Arr2)
    (hch : s.rank.getD n ≠ n → ch = cholCols r (s.rank.getD n) (semiGram n s))
    (h1 : PstrfSpec n A s) (h2 : InnerCholOk r n s) :
    ∀ i, i < n →
      mulVec n (fun i k => A (permOf s.P n i) (permOf s.P n k))
        (fun k => mulVec n (fun i k => A (permOf s.P n i) (permOf s.P n k))
          (fun l => vget (semiInner n (s, ch) b) l) k - b (permOf s.P n k)) i = 0 := by
  intro i hi
  by_cases hr0 : s.rank.getD n = 0
  · -- rank 0: `Pᵀ A P = 0`
    unfold mulVec
    apply sum_zero'; intro k hk
    have := h1.fac i k hi hk
    rw [hr0] at this
    show A (permOf s.P n i) (permOf s.P n k) * _ = 0
    rw [this]; simp [sum]
  · by_cases hrn : s.rank.getD n = n
    · -- full rank: two triangular solves, `Pᵀ A P x' = Pᵀ b`
      set F : Mat := fun i j => mget s.M i j with hF
      set pb : Vec := fun i => b (permOf s.P n i) with hpb
      have hreg1 : triSingular ⟨false, false⟩ n F = false :=
        (regular_iff_not_singular _ n F).mp (fun _ j hj => h1.diag hrn j hj)
      have hreg2 : triSingular ⟨true, false⟩ n (transpose F) = false :=
        (regular_iff_not_singular _ n (transpose F)).mp (fun _ j hj => h1.diag hrn j hj)
      have hx := semiInner_full n s ch b hr0 hrn
      have hsol := solve_eq_of_factorisation n (fun i k => A (permOf s.P n i) (permOf s.P n k))
        (triPart ⟨false, false⟩ F) (triPart ⟨true, false⟩ (transpose F)) pb
        (trsv ⟨true, false⟩ true n (transpose F) (trsv ⟨false, false⟩ true n F pb))
        (trsv ⟨false, false⟩ true n F pb)
        (by
          intro a c ha hc
          show _ = A (permOf s.P n a) (permOf s.P n c)
          rw [h1.fac a c ha hc, hrn]
          unfold mul
          apply sum_congr; intro k hk
          have e1 : triPart ⟨false, false⟩ F a k = F a k := by
            unfold triPart
            by_cases hak : a = k
            · subst hak; simp
            · by_cases hlt : k < a
              · simp [hak, hlt]
              · simp [hak, hlt]; exact (h1.upper hrn a k ha hk (by omega)).symm
          have e2 : triPart ⟨true, false⟩ (transpose F) k c = F c k := by
            unfold triPart transpose
            by_cases hkc : k = c
            · subst hkc; simp
            · by_cases hlt : k < c
              · simp [hkc, hlt]
              · simp [hkc, hlt]; exact (h1.upper hrn c k hc hk (by omega)).symm
          rw [e1, e2])
        (trsv_correct_left ⟨false, false⟩ n F pb hreg1)
        (trsv_correct_left ⟨true, false⟩ n (transpose F) _ hreg2)
      rw [hx]
      show sum n (fun k => A (permOf s.P n i) (permOf s.P n k) *
        (mulVec n (fun i k => A (permOf s.P n i) (permOf s.P n k))
          (trsv ⟨true, false⟩ true n (transpose F) (trsv ⟨false, false⟩ true n F pb)) k - pb k)) = 0
      apply sum_zero'; intro k hk
      rw [hsol k hk]; ring
    · -- 0 < rank < n: least squares through `G = LᵀL`
      have hpos : 0 < s.rank.getD n := Nat.pos_of_ne_zero hr0
      have hlt : s.rank.getD n < n := lt_of_le_of_ne h1.rank_le hrn
      obtain ⟨hinfo, hsqrt⟩ := h2 hpos hlt
      have hchol := hch hrn
      set rank := s.rank.getD n with hrank
      set F : Mat := fun i j => mget s.M i j with hF
      set pb : Vec := fun i => b (permOf s.P n i) with hpb
      set G := semiGram n s with hG
      set z : Vec := fun c => sum n fun i => F i c * pb i with hz
      have hsym : ∀ a c, a < rank → c < rank → G a c = G c a := fun a c _ _ => semiGram_symm n s a c
      set z1 : Vec := fun c => vget (solveSpdArr r rank G z) c with hz1
      set z2 : Vec := fun c => vget (solveSpdArr r rank G z1) c with hz2
      have hx : ∀ k, k < n → vget (semiInner n (s, ch) b) k = sum rank (fun c => F k c * z2 c) := by
        intro k hk
        rw [semiInner_deficient n s ch b hr0 hrn, vget_vecOf, if_pos hk]
        show sum rank (fun c => F k c * vget (cholSolveArr rank ch _) c) = _
        rw [hchol]
        rfl
      exact lsq_of_rank_factor n rank F (fun i k => A (permOf s.P n i) (permOf s.P n k)) G pb
        (fun l => vget (semiInner n (s, ch) b) l) z z1 z2
        (fun a c ha hc => h1.fac a c ha hc)
        (fun _ _ _ _ => rfl)
        (fun _ _ => rfl)
        (solve_spd_correct r rank G z hsqrt hinfo hsym)
        (solve_spd_correct r rank G z1 hsqrt hinfo hsym)
        hx i hi

/-- **`symm_pos_semi_definite_solver::solve` returns a least-squares solution** — for an arbitrary
factorisation record `s` satisfying `PstrfSpec` (every `n`, every rank `0 ≤ rank ≤ n`, every `b`). -/
theorem semiApply_lsq (r : Rat → Rat) (n : Nat) (A : Mat) (b : Vec) (s : PState) (ch : Arr2)
    (hch : s.rank.getD n ≠ n → ch = cholCols r (s.rank.getD n) (semiGram n s))
    (h1 : PstrfSpec n A s) (h2 : InnerCholOk r n s) :
    ∀ i, i < n →
      mulVec n A (fun k => mulVec n A (fun l => vget (semiApplyArr n (s, ch) b) l) k - b k) i = 0 := by
  apply lsq_of_permOf n s.P h1.perm A b _ (fun l => vget (semiInner n (s, ch) b) l)
  · intro i hi
    rw [semiApplyArr_eq, vget_vecOf, if_pos hi]
  · exact semiInner_lsq r n A b s ch hch h1 h2

/-- full rank: the returned vector solves the system exactly -/
theorem semiApply_exact (n : Nat) (A : Mat) (b : Vec) (s : PState) (ch : Arr2)
    (h1 : PstrfSpec n A s) (hn : 0 < n) (hrn : s.rank.getD n = n) :
    ∀ i, i < n → mulVec n A (fun l => vget (semiApplyArr n (s, ch) b) l) i = b i := by
  have hr0 : s.rank.getD n ≠ 0 := by omega
  set F : Mat := fun i j => mget s.M i j with hF
  set pb : Vec := fun i => b (permOf s.P n i) with hpb
  have hreg1 : triSingular ⟨false, false⟩ n F = false :=
    (regular_iff_not_singular _ n F).mp (fun _ j hj => h1.diag hrn j hj)
  have hreg2 : triSingular ⟨true, false⟩ n (transpose F) = false :=
    (regular_iff_not_singular _ n (transpose F)).mp (fun _ j hj => h1.diag hrn j hj)
  have hx := semiInner_full n s ch b hr0 hrn
  apply solve_of_permOf n s.P h1.perm A b _ (fun l => vget (semiInner n (s, ch) b) l)
  · intro i hi
    rw [semiApplyArr_eq, vget_vecOf, if_pos hi]
  · rw [hx]
    exact solve_eq_of_factorisation n (fun i k => A (permOf s.P n i) (permOf s.P n k))
      (triPart ⟨false, false⟩ F) (triPart ⟨true, false⟩ (transpose F)) pb
      (trsv ⟨true, false⟩ true n (transpose F) (trsv ⟨false, false⟩ true n F pb))
      (trsv ⟨false, false⟩ true n F pb)
      (by
        intro a c ha hc
        show _ = A (permOf s.P n a) (permOf s.P n c)
        rw [h1.fac a c ha hc, hrn]
        unfold mul
        apply sum_congr; intro k hk
        have e1 : triPart ⟨false, false⟩ F a k = F a k := by
          unfold triPart
          by_cases hak : a = k
          · subst hak; simp
          · by_cases hlt : k < a
            · simp [hak, hlt]
            · simp [hak, hlt]; exact (h1.upper hrn a k ha hk (by omega)).symm
        have e2 : triPart ⟨true, false⟩ (transpose F) k c = F c k := by
          unfold triPart transpose
          by_cases hkc : k = c
          · subst hkc; simp
          · by_cases hlt : k < c
            · simp [hkc, hlt]
            · simp [hkc, hlt]; exact (h1.upper hrn c k hc hk (by omega)).symm
        rw [e1, e2])
      (trsv_correct_left ⟨false, false⟩ n F pb hreg1)
      (trsv_correct_left ⟨true, false⟩ n (transpose F) _ hreg2)

theorem semiFactor_snd (r : Rat → Rat) (n : Nat) (A : Mat)
    (h : (semiFactor r n A).1.rank.getD n ≠ n) :
    (semiFactor r n A).2
      = cholCols r ((semiFactor r n A).1.rank.getD n) (semiGram n (semiFactor r n A).1) := by
  show (if (semiFactor r n A).1.rank.getD n = n then _ else _) = _
  rw [if_neg h]; rfl

/-- **END TO END.**  `solve(A, b, symm_semi_pos_def(), side)` on the model
(`semiSolveArr r n A b = semiApplyArr n (semiFactor r n A) b`: `pstrf`, for `0 < rank < n` Cholesky of `LᵀL`,
`swap_rows`, one of three branches, `swap_rows_inverted`): whenever the pivoted factorisation reproduces
`A` (`PstrfSpec`) and — rank-deficient branch — the inner Cholesky succeeded (`InnerCholOk`), the returned
`x` satisfies the normal equations `A (A x − b) = 0`, i.e. is a least-squares solution; every size, every
rank in `[0, n]`, every right-hand side (in the range of `A` or not). -/
theorem semi_solve_lsq (r : Rat → Rat) (n : Nat) (A : Mat) (b : Vec)
    (h1 : PstrfSpec n A (semiFactor r n A).1) (h2 : InnerCholOk r n (semiFactor r n A).1) :
    ∀ i, i < n →
      mulVec n A (fun k => mulVec n A (fun l => vget (semiSolveArr r n A b) l) k - b k) i = 0 :=
  semiApply_lsq r n A b (semiFactor r n A).1 (semiFactor r n A).2 (semiFactor_snd r n A) h1 h2

/-- … and for full rank it solves `A x = b` exactly. -/
theorem semi_solve_exact (r : Rat → Rat) (n : Nat) (A : Mat) (b : Vec)
    (h1 : PstrfSpec n A (semiFactor r n A).1) (hn : 0 < n)
    (hrn : (semiFactor r n A).1.rank.getD n = n) :
    ∀ i, i < n → mulVec n A (fun l => vget (semiSolveArr r n A b) l) i = b i :=
  semiApply_exact n A b (semiFactor r n A).1 (semiFactor r n A).2 h1 hn hrn

/-- consequence of `PstrfSpec`: `A` is symmetric on `[0,n)²` (so `A (A x − b) = Aᵀ (A x − b)`) -/
theorem PstrfSpec.symm {n : Nat} {A : Mat} {s : PState} (h : PstrfSpec n A s) :
    ∀ i k, i < n → k < n → A i k = A k i := by
  intro i k hi hk
  have hi' := permInvOf_lt s.P n n (Nat.le_refl n) h.perm i hi
  have hk' := permInvOf_lt s.P n n (Nat.le_refl n) h.perm k hk
  have e1 := h.fac _ _ hi' hk'
  have e2 := h.fac _ _ hk' hi'
  rw [permOf_permInvOf, permOf_permInvOf] at e1 e2
  rw [e1, e2]; apply sum_congr; intro c _; rw [Rat.mul_comm]


/-! ## 4. non-vacuity: a rank-deficient instance that needs the pivoting

`A = [[9,12],[12,16]] = v vᵀ`, `v = (3,4)`: rank 1, the larger diagonal entry is second, so `pstrf` swaps;
`L = (4,3)ᵀ`, `LᵀL = (25)`; the root function is exact on the two values it is applied to. -/

def rEx2 : Rat → Rat := fun x => if x = 16 then 4 else if x = 25 then 5 else 0
def AEx : Mat := fun i j => if i = 0 ∧ j = 0 then 9 else if i = 1 ∧ j = 1 then 16 else 12

theorem ex_rank : (semiFactor rEx2 2 AEx).1.rank = some 1 := by
  norm_num [semiFactor, pstrf, iter, pstrfStep, argmaxDiag, swapSym, mget_matOf, sw, upd, pstrfEps, absR,
    List.range, List.range.loop, AEx, rEx2]

theorem ex_P : (semiFactor rEx2 2 AEx).1.P 0 = 1 ∧ (semiFactor rEx2 2 AEx).1.P 1 = 1 := by
  norm_num [semiFactor, pstrf, iter, pstrfStep, argmaxDiag, swapSym, mget_matOf, sw, upd, pstrfEps, absR,
    List.range, List.range.loop, AEx, rEx2]

theorem ex_M : mget (semiFactor rEx2 2 AEx).1.M 0 0 = 4 ∧ mget (semiFactor rEx2 2 AEx).1.M 1 0 = 3 ∧
    mget (semiFactor rEx2 2 AEx).1.M 0 1 = 0 ∧ mget (semiFactor rEx2 2 AEx).1.M 1 1 = 0 := by
  norm_num [semiFactor, pstrf, iter, pstrfStep, argmaxDiag, swapSym, mget_matOf, sw, upd, pstrfEps, absR,
    List.range, List.range.loop, AEx, rEx2]

theorem ex_spec : PstrfSpec 2 AEx (semiFactor rEx2 2 AEx).1 := by
  have hr : (semiFactor rEx2 2 AEx).1.rank.getD 2 = 1 := by rw [ex_rank]; rfl
  obtain ⟨hP0, hP1⟩ := ex_P
  obtain ⟨h00, h10, h01, h11⟩ := ex_M
  refine ⟨by omega, ?_, ?_, fun h => by omega, fun h => by omega⟩
  · intro c hc
    have : c = 0 ∨ c = 1 := by omega
    rcases this with rfl | rfl <;> omega
  · intro i k hi hk
    rw [hr]
    have hi' : i = 0 ∨ i = 1 := by omega
    have hk' : k = 0 ∨ k = 1 := by omega
    rcases hi' with rfl | rfl <;> rcases hk' with rfl | rfl <;>
      norm_num [permOf, sw, hP0, hP1, sum, h00, h10, AEx]

theorem ex_inner : InnerCholOk rEx2 2 (semiFactor rEx2 2 AEx).1 := by
  have hr : (semiFactor rEx2 2 AEx).1.rank.getD 2 = 1 := by rw [ex_rank]; rfl
  obtain ⟨h00, h10, h01, h11⟩ := ex_M
  intro _ _
  rw [hr]
  have hG : semiGram 2 (semiFactor rEx2 2 AEx).1 0 0 = 25 := by
    norm_num [semiGram, sum, h00, h10]
  constructor
  · norm_num [potrfInfo, infoOf, firstIdx, pivotOf, sum, List.range, List.range.loop, hG]
  · intro j hj _
    have : j = 0 := by omega
    subst this
    norm_num [cholPivot, pivotOf, sum, hG, rEx2]

/-- the hypotheses of `semi_solve_lsq` are satisfiable on a rank-deficient system whose right-hand side is
NOT in the range of `A`: the solver's answer satisfies the normal equations (by the theorem) although
`A x ≠ b`. -/
example :
    (∀ i, i < 2 → mulVec 2 AEx (fun k => mulVec 2 AEx
        (fun l => vget (semiSolveArr rEx2 2 AEx (fun i => if i = 0 then 1 else 0)) l) k
          - (fun i => if i = 0 then (1 : Rat) else 0) k) i = 0) ∧
    (semiFactor rEx2 2 AEx).1.rank = some 1 :=
  ⟨semi_solve_lsq rEx2 2 AEx _ ex_spec ex_inner, ex_rank⟩

/-- … and that right-hand side is indeed outside the range of `A`: no exact solution exists -/
example : ¬ ∃ x : Vec, ∀ i, i < 2 → mulVec 2 AEx x i = if i = 0 then 1 else 0 := by
  rintro ⟨x, h⟩
  have h0 := h 0 (by omega)
  have h1 := h 1 (by omega)
  norm_num [mulVec, sum, AEx] at h0 h1
  linarith

/-- an instance of the hypotheses of `lsq_of_rank_factor` with `r = 0` (`M = 0`, `x = 0`) -/
example : ∀ i, i < 3 → mulVec 3 (fun _ _ => 0) (fun k => mulVec 3 (fun _ _ => 0) (fun _ => 0) k - (k : Rat)) i = 0 :=
  lsq_of_rank_factor 3 0 (fun _ _ => 0) (fun _ _ => 0) (fun _ _ => 0) (fun k => (k : Rat)) (fun _ => 0)
    (fun _ => 0) (fun _ => 0) (fun _ => 0)
    (fun _ _ _ _ => rfl) (fun _ _ h _ => absurd h (Nat.not_lt_zero _)) (fun _ h => absurd h (Nat.not_lt_zero _))
    (fun _ h => absurd h (Nat.not_lt_zero _)) (fun _ h => absurd h (Nat.not_lt_zero _)) (fun _ _ => rfl)

end SharkVerif.C02
