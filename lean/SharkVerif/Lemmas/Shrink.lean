/-
Helper lemmas for C08 `shrink_sound`: the bounds `largestUp` / `smallestDown` that `shrink` passes to
`testShrinkVariable` stay valid for the remaining active variables during the whole back-to-front loop, and a
variable that passes the test cannot take part in an improving feasible move at that moment.
-/
import SharkVerif.Lemmas.SmoKkt
namespace SharkVerif.Smo
open SharkVerif.Qp

/-- `lu` bounds the gradient of every active variable not at its upper bound from above, `sd` bounds the gradient of
every active variable not at its lower bound from below -/
def Bounds (s : RS) (lu sd : Rat) : Prop :=
  ∀ b, b < s.active → (s.up b = false → s.g b ≤ lu) ∧ (s.lo b = false → sd ≤ s.g b)

theorem bounds_maxKKT (s : RS) : Bounds s (s.maxKKT s.active).1 (s.maxKKT s.active).2 := by
  obtain ⟨h1, h2⟩ := maxKKT_spec s s.active
  exact fun b hb => ⟨h1 b hb, h2 b hb⟩

/-- removing the variable at position `a` (flip to the end of the active block, decrement `active`) keeps the bounds -/
theorem bounds_remove {s : RS} {lu sd : Rat} (hB : Bounds s lu sd) {a : Nat} (ha : a < s.active) :
    Bounds ({ s.flip a (s.active - 1) with active := s.active - 1 } : RS) lu sd := by
  intro b hb
  have hb' : b < s.active - 1 := hb
  have hσ : swapIdx a (s.active - 1) b < s.active := by
    simp only [swapIdx]; split
    · omega
    · split <;> omega
  exact hB _ hσ

/-- the `(state, variable)` pairs at which the loop of `shrink` removes a variable -/
def removals (lu sd : Rat) : Nat → RS → List (RS × Nat)
  | 0, _ => []
  | a+1, s =>
    if s.testShrink a lu sd then
      (s, a) :: removals lu sd a { s.flip a (s.active - 1) with active := s.active - 1 }
    else removals lu sd a s

theorem removals_spec (lu sd : Rat) : ∀ (a : Nat) (s : RS), Inv s → s.shrinkOn = true → a ≤ s.active →
    Bounds s lu sd → ∀ p, p ∈ removals lu sd a s →
      Inv p.1 ∧ p.2 < p.1.active ∧ Bounds p.1 lu sd ∧ p.1.testShrink p.2 lu sd = true ∧ p.1.eqc = s.eqc := by
  intro a
  induction a with
  | zero => intro s _ _ _ _ p hp; simp [removals] at hp
  | succ a ih =>
    intro s h hs ha hB p hp
    unfold removals at hp
    by_cases ht : s.testShrink a lu sd = true
    · rw [if_pos ht] at hp
      rcases List.mem_cons.mp hp with e | hp'
      · subst e; exact ⟨h, by show a < s.active; omega, hB, ht, rfl⟩
      · have han : a < s.n := by have := h.act_le; omega
        have hln : s.active - 1 < s.n := by have := h.act_le; omega
        have hf : Inv (s.flip a (s.active - 1)) := inv_flip h han hln (by constructor <;> intro <;> omega)
        have hb : (s.flip a (s.active - 1)).alpha (s.active - 1) = (s.flip a (s.active - 1)).L (s.active - 1) ∨
            (s.flip a (s.active - 1)).alpha (s.active - 1) = (s.flip a (s.active - 1)).U (s.active - 1) := by
          have hσ : swapIdx a (s.active - 1) (s.active - 1) = a := by
            simp only [swapIdx]; split
            · rename_i e; exact e
            · simp
          simp only [State.flip, hσ]
          rcases testShrink_bound ht with hl | hu
          · exact Or.inl ((h.flo a han).1 hl)
          · exact Or.inr ((h.fup a han).1 hu)
        have hd := inv_dec_active (t := s.flip a (s.active - 1)) hf (by show 0 < s.active; omega) hs hb
        exact ih _ hd hs (by show a ≤ s.active - 1; omega) (bounds_remove hB (by omega)) p hp'
    · rw [if_neg ht] at hp
      exact ih s h hs (by omega) hB p hp

/-- `removals` lists exactly the removal events of the loop: each one decrements `active` by one -/
theorem shrinkGo_active (lu sd : Rat) : ∀ (a : Nat) (s : RS), a ≤ s.active →
    (State.shrinkGo lu sd a s).active + (removals lu sd a s).length = s.active := by
  intro a
  induction a with
  | zero => intro s _; rfl
  | succ a ih =>
    intro s ha
    rw [shrinkGo_succ]; unfold removals
    by_cases ht : s.testShrink a lu sd = true
    · rw [if_pos ht, if_pos ht, List.length_cons]
      have := ih ({ s.flip a (s.active - 1) with active := s.active - 1 } : RS) (by show a ≤ s.active - 1; omega)
      have e : ({ s.flip a (s.active - 1) with active := s.active - 1 } : RS).active = s.active - 1 := rfl
      rw [e] at this; omega
    · rw [if_neg ht, if_neg ht]; exact ih s (by omega)

/-- `shrink(eps)` is the loop started from `shrinkStart` (the state after the optional unshrink, with the bounds
recomputed over all of its active variables) -/
def shrinkStart (s : RS) (eps : Rat) : RS × Rat × Rat :=
  let v := s.maxKKT s.active
  let doUn : Bool := !s.unshrinked && decide (v.1 - v.2 < (10.0 : Rat) * eps)
  let s1 := if doUn then s.unshrink else s
  let v1 := if doUn then s1.maxKKT s1.n else v
  (s1, v1.1, v1.2)

theorem shrink_eq (s : RS) (eps : Rat) (hs : s.shrinkOn = true) :
    (s.shrink eps).1 = State.shrinkGo (shrinkStart s eps).2.1 (shrinkStart s eps).2.2 (shrinkStart s eps).1.active
      (shrinkStart s eps).1 := by
  unfold State.shrink shrinkStart
  simp only [hs, Bool.not_true, Bool.false_eq_true, if_false]

theorem unshrink_active (s : RS) : s.unshrink.active = s.unshrink.n := by
  unfold State.unshrink; split
  · assumption
  · rfl

theorem shrinkStart_spec {s : RS} (h : Inv s) (eps : Rat) (hs : s.shrinkOn = true) :
    Inv (shrinkStart s eps).1 ∧ (shrinkStart s eps).1.shrinkOn = true ∧ (shrinkStart s eps).1.eqc = s.eqc ∧
    Bounds (shrinkStart s eps).1 (shrinkStart s eps).2.1 (shrinkStart s eps).2.2 := by
  unfold shrinkStart
  dsimp only
  split
  · refine ⟨inv_unshrink h, ?_, ?_, ?_⟩
    · unfold State.unshrink; split <;> exact hs
    · unfold State.unshrink; split <;> rfl
    · rw [← unshrink_active]; exact bounds_maxKKT _
  · exact ⟨h, hs, rfl, bounds_maxKKT s⟩

/-! ### what a removed variable cannot do -/

/-- equality-constrained problem: every feasible sum-preserving two-variable move of non-zero length that involves
variable `a` (partner `b` active, non-negative curvature along the move) strictly DEcreases the dual objective -/
def NoGainSvm (s : RS) (a : Nat) : Prop :=
  ∀ (b : Nat) (δ : Rat), b < s.active → b ≠ a → δ ≠ 0 →
    s.L a ≤ s.alpha a + δ → s.alpha a + δ ≤ s.U a → s.L b ≤ s.alpha b - δ → s.alpha b - δ ≤ s.U b →
    0 ≤ s.diag a + s.diag b - 2 * s.q a b →
    dual s.n (Qmat s) s.lin (upd (upd s.alpha a (s.alpha a + δ)) b (s.alpha b - δ)) < dualObjective s

/-- box problem: every feasible move of variable `a` has a strictly negative first-order effect (also as part of a
joint move), and the one-variable move strictly decreases the dual objective when `K_aa ≥ 0` -/
def NoGainBox (s : RS) (a : Nat) : Prop :=
  ∀ δ : Rat, δ ≠ 0 → s.L a ≤ s.alpha a + δ → s.alpha a + δ ≤ s.U a →
    δ * s.g a < 0 ∧ (0 ≤ s.diag a → dual s.n (Qmat s) s.lin (upd s.alpha a (s.alpha a + δ)) < dualObjective s)

theorem noGain_svm {s : RS} (h : Inv s) (he : s.eqc = true) {lu sd : Rat} (hB : Bounds s lu sd) {a : Nat}
    (ha : a < s.active) (ht : s.testShrink a lu sd = true) : NoGainSvm s a := by
  intro b δ hb hba hδ h1 h2 h3 h4 hκ
  have han : a < s.n := Nat.lt_of_lt_of_le ha h.act_le
  have hbn : b < s.n := Nat.lt_of_lt_of_le hb h.act_le
  have hd := dual_move2 (Qmat_symm h.sym) s.lin s.alpha han hbn (Ne.symm hba) (s.alpha a + δ) (s.alpha b - δ)
  have ga : s.g a = s.lin a - rsum (fun c => Qmat s a c * s.alpha c) s.n := h.grad a ha
  have gb : s.g b = s.lin b - rsum (fun c => Qmat s b c * s.alpha c) s.n := h.grad b hb
  rw [← ga, ← gb, ← dualObjective_eq] at hd
  have hκ' : 0 ≤ Qmat s a a + Qmat s b b - 2 * Qmat s a b := by
    have := h.diag a han; have := h.diag b hbn
    simp only [Qmat, State.q] at *; linarith
  have hfirst : δ * (s.g a - s.g b) < 0 := by
    unfold State.testShrink at ht
    simp only [he, if_true, Bool.or_eq_true, Bool.and_eq_true, decide_eq_true_eq] at ht
    rcases ht with ⟨hlo, hg⟩ | ⟨hup, hg⟩
    · have e := (h.flo a han).1 hlo
      have hpos : 0 < δ := lt_of_le_of_ne (by linarith) (Ne.symm hδ)
      have hlb : s.lo b = false := by
        cases hx : s.lo b
        · rfl
        · have := (h.flo b hbn).1 hx; linarith
      have := (hB b hb).2 hlb
      exact mul_neg_of_pos_of_neg hpos (by linarith)
    · have e := (h.fup a han).1 hup
      have hneg : δ < 0 := lt_of_le_of_ne (by linarith) hδ
      have hub : s.up b = false := by
        cases hx : s.up b
        · rfl
        · have := (h.fup b hbn).1 hx; linarith
      have := (hB b hb).1 hub
      exact mul_neg_of_neg_of_pos hneg (by linarith)
  have hq : 0 ≤ (δ * δ) * (Qmat s a a + Qmat s b b - 2 * Qmat s a b) := mul_nonneg (mul_self_nonneg δ) hκ'
  have : dual s.n (Qmat s) s.lin (upd (upd s.alpha a (s.alpha a + δ)) b (s.alpha b - δ)) - dualObjective s
      = δ * (s.g a - s.g b) - (1 / 2) * ((δ * δ) * (Qmat s a a + Qmat s b b - 2 * Qmat s a b)) := by
    rw [hd]; ring
  linarith

theorem noGain_box {s : RS} (h : Inv s) (he : s.eqc = false) {lu sd : Rat} {a : Nat}
    (ha : a < s.active) (ht : s.testShrink a lu sd = true) : NoGainBox s a := by
  intro δ hδ h1 h2
  have han : a < s.n := Nat.lt_of_lt_of_le ha h.act_le
  have hfirst : δ * s.g a < 0 := by
    unfold State.testShrink at ht
    simp only [he, Bool.false_eq_true, if_false, Bool.or_eq_true, Bool.and_eq_true, decide_eq_true_eq, lit0] at ht
    rcases ht with ⟨hlo, hg⟩ | ⟨hup, hg⟩
    · have e := (h.flo a han).1 hlo
      have hpos : 0 < δ := lt_of_le_of_ne (by linarith) (Ne.symm hδ)
      have : s.g a < 0 := lt_of_lt_of_le hg (by unfold smin; split <;> linarith)
      exact mul_neg_of_pos_of_neg hpos this
    · have e := (h.fup a han).1 hup
      have hneg : δ < 0 := lt_of_le_of_ne (by linarith) hδ
      have : 0 < s.g a := lt_of_le_of_lt (by unfold smax; split <;> linarith) hg
      exact mul_neg_of_neg_of_pos hneg this
  refine ⟨hfirst, fun hQ => ?_⟩
  have hd := dual_move1 (Qmat_symm h.sym) s.lin s.alpha han (s.alpha a + δ)
  have ga : s.g a = s.lin a - rsum (fun c => Qmat s a c * s.alpha c) s.n := h.grad a ha
  rw [← ga, ← dualObjective_eq] at hd
  have hQ' : 0 ≤ Qmat s a a := by have := h.diag a han; simp only [Qmat] at *; linarith
  have hq : 0 ≤ (δ * δ) * Qmat s a a := mul_nonneg (mul_self_nonneg δ) hQ'
  have : dual s.n (Qmat s) s.lin (upd s.alpha a (s.alpha a + δ)) - dualObjective s
      = δ * s.g a - (1 / 2) * ((δ * δ) * Qmat s a a) := by rw [hd]; ring
  linarith

end SharkVerif.Smo
