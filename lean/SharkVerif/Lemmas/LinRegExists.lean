/-
Existence of a solution of the normal equations of `LinearRegression::train`, for every
dataset (rank-deficient, d > n, empty) and every `λ ≥ 0`: the accumulated matrix is
`Mᵀ·W·M` for the stacked matrix `M = [(X|1); (I_d|0)]` with weights `W = diag(1,…,1,λ,…,λ)`,
the right-hand side is `Mᵀ·W·[L;0]`, and `range(MᵀWM) = range(MᵀW)` by a rank argument
(Mathlib `Matrix.rank`).
-/
import SharkVerif.Lemmas.LinReg
import Mathlib.LinearAlgebra.Matrix.Rank
open Matrix Module
namespace SharkVerif.Trainers

theorem weighted_ker {m n : Type} [Fintype m] [Fintype n] [DecidableEq m] [DecidableEq n]
    (M : Matrix m n ℚ) (w : m → ℚ) (hw : ∀ r, 0 ≤ w r) :
    LinearMap.ker (Mᵀ * (diagonal w * M)).mulVecLin = LinearMap.ker (diagonal w * M).mulVecLin := by
  ext v
  simp only [LinearMap.mem_ker, mulVecLin_apply]
  constructor
  · intro h
    have h1 : v ⬝ᵥ (Mᵀ * (diagonal w * M)).mulVec v = 0 := by rw [h, dotProduct_zero]
    rw [← mulVec_mulVec, dotProduct_mulVec, vecMul_transpose, ← mulVec_mulVec] at h1
    -- h1 : M v ⬝ᵥ (diagonal w *ᵥ (M v)) = 0
    have h2 : ∀ r, w r * (M.mulVec v r * M.mulVec v r) = 0 := by
      have hs : ∑ r, w r * (M.mulVec v r * M.mulVec v r) = 0 := by
        rw [← h1]
        simp only [dotProduct, mulVec_diagonal]
        exact Finset.sum_congr rfl (fun r _ => by ring)
      intro r
      exact (Finset.sum_eq_zero_iff_of_nonneg (fun r _ => mul_nonneg (hw r) (mul_self_nonneg _))).mp hs r (Finset.mem_univ r)
    funext r
    rw [← mulVec_mulVec, mulVec_diagonal]
    simp only [Pi.zero_apply]
    rcases mul_eq_zero.mp (h2 r) with h3 | h3
    · rw [h3, zero_mul]
    · rw [mul_self_eq_zero.mp h3, mul_zero]
  · intro h
    rw [← mulVec_mulVec, h, mulVec_zero]

theorem exists_solution_weighted {m n : Type} [Fintype m] [Fintype n] [DecidableEq m] [DecidableEq n]
    (M : Matrix m n ℚ) (w : m → ℚ) (hw : ∀ r, 0 ≤ w r) (l : m → ℚ) :
    ∃ v : n → ℚ, (Mᵀ * (diagonal w * M)).mulVec v = (diagonal w * M)ᵀ.mulVec l := by
  set P := diagonal w * M with hP
  have hA : Mᵀ * P = Pᵀ * M := by
    rw [hP, transpose_mul, diagonal_transpose, Matrix.mul_assoc]
  have hrank : (Mᵀ * P).rank = P.rank := by
    have h1 := LinearMap.finrank_range_add_finrank_ker (Mᵀ * P).mulVecLin
    have h2 := LinearMap.finrank_range_add_finrank_ker P.mulVecLin
    rw [weighted_ker M w hw, ← hP] at h1
    unfold Matrix.rank
    omega
  have hle : LinearMap.range (Mᵀ * P).mulVecLin ≤ LinearMap.range Pᵀ.mulVecLin := by
    rintro x ⟨v, rfl⟩
    exact ⟨M.mulVec v, by simp only [mulVecLin_apply, hA, mulVec_mulVec]⟩
  have heq : LinearMap.range (Mᵀ * P).mulVecLin = LinearMap.range Pᵀ.mulVecLin := by
    apply Submodule.eq_of_le_of_finrank_eq hle
    have h1 : finrank ℚ (LinearMap.range (Mᵀ * P).mulVecLin) = (Mᵀ * P).rank := rfl
    have h2 : finrank ℚ (LinearMap.range Pᵀ.mulVecLin) = Pᵀ.rank := rfl
    rw [h1, h2, hrank, Matrix.rank_transpose]
  have : Pᵀ.mulVec l ∈ LinearMap.range (Mᵀ * P).mulVecLin := by
    rw [heq]; exact ⟨l, rfl⟩
  obtain ⟨v, hv⟩ := this
  exact ⟨v, hv⟩

theorem lsum_eq_sum_fin {α : Type} (l : List α) (f : α → Rat) : lsum l f = ∑ p : Fin l.length, f (l.get p) := by
  induction l with
  | nil => simp
  | cons a t ih =>
    rw [lsum_cons, ih]
    show f a + _ = ∑ p : Fin (t.length + 1), f ((a :: t).get p)
    rw [Fin.sum_univ_succ]
    rfl

theorem rsum_eq_sum_fin (n : Nat) (f : Nat → Rat) : rsum n f = ∑ i : Fin n, f i := by
  induction n with
  | zero => rfl
  | succ n ih => rw [rsum_succ, ih, Fin.sum_univ_castSucc]; rfl

/-- the stacked design matrix `[(X|1); (I_d|0)]` -/
def stackM (l : List (Vec × Vec)) (d : Nat) : Matrix (Fin l.length ⊕ Fin d) (Fin (d + 1)) ℚ :=
  fun r j => match r with
    | .inl p => ext1 d (l.get p).1 j
    | .inr q => if (j : Nat) = (q : Nat) then 1 else 0

def stackW (l : List (Vec × Vec)) (d : Nat) (lam : Rat) : (Fin l.length ⊕ Fin d) → ℚ :=
  fun r => match r with | .inl _ => 1 | .inr _ => lam

def stackL (l : List (Vec × Vec)) (d c : Nat) : (Fin l.length ⊕ Fin d) → ℚ :=
  fun r => match r with | .inl p => (l.get p).2.at c | .inr _ => 0

theorem reg_sum (d : Nat) (lam : Rat) (i j : Fin (d + 1)) :
    (∑ q : Fin d, (if (i : Nat) = (q : Nat) then (1 : ℚ) else 0) * (lam * (if (j : Nat) = (q : Nat) then 1 else 0)))
      = if (i : Nat) = (j : Nat) ∧ (i : Nat) < d then lam else 0 := by
  by_cases hi : (i : Nat) < d
  · rw [Finset.sum_eq_single (⟨i, hi⟩ : Fin d)]
    · have h1 : ((⟨i, hi⟩ : Fin d) : Nat) = (i : Nat) := rfl
      rw [h1]
      by_cases hij : (i : Nat) = (j : Nat)
      · rw [if_pos rfl, if_pos hij.symm, if_pos ⟨hij, hi⟩]; ring
      · rw [if_pos rfl, if_neg (fun h => hij h.symm), if_neg (fun h => hij h.1)]; ring
    · intro q _ hq
      have : (i : Nat) ≠ (q : Nat) := fun h => hq (Fin.ext h.symm)
      simp [this]
    · intro h; exact absurd (Finset.mem_univ _) h
  · have : ∀ q : Fin d, (i : Nat) ≠ (q : Nat) := fun q h => hi (h ▸ q.isLt)
    simp [this, hi]

theorem stack_A (bs : LData) (d : Nat) (lam : Rat) (i j : Fin (d + 1)) :
    ((stackM bs.flatten d)ᵀ * (diagonal (stackW bs.flatten d lam) * stackM bs.flatten d)) i j
      = linregA bs d lam i j := by
  rw [Matrix.mul_apply]
  simp only [Matrix.transpose_apply, Matrix.diagonal_mul, Fintype.sum_sum_type]
  unfold linregA
  rw [bsum_eq_flatten, lsum_eq_sum_fin]
  congr 1
  · exact Finset.sum_congr rfl (fun p _ => by simp [stackM, stackW])
  · simp only [stackM, stackW]
    exact reg_sum d lam i j

theorem stack_R (bs : LData) (d c : Nat) (lam : Rat) (i : Fin (d + 1)) :
    ((diagonal (stackW bs.flatten d lam) * stackM bs.flatten d)ᵀ.mulVec (stackL bs.flatten d c)) i
      = linregRhs bs d i c := by
  simp only [Matrix.mulVec, dotProduct, Matrix.transpose_apply, Matrix.diagonal_mul, Fintype.sum_sum_type]
  unfold linregRhs
  rw [bsum_eq_flatten, lsum_eq_sum_fin]
  have : (∑ q : Fin d, stackW bs.flatten d lam (Sum.inr q) * stackM bs.flatten d (Sum.inr q) i
      * stackL bs.flatten d c (Sum.inr q)) = 0 := by
    apply Finset.sum_eq_zero; intro q _; simp [stackL]
  rw [this, add_zero]
  exact Finset.sum_congr rfl (fun p _ => by simp [stackM, stackW, stackL])

/-- **the normal equations always have a solution** -/
theorem normalEq_solvable (bs : LData) (d k : Nat) (lam : Rat) (hlam : 0 ≤ lam) :
    ∃ X : Nat → Nat → Rat, ∀ i, i < d + 1 → ∀ c, c < k →
      matMul (d + 1) (linregA bs d lam) X i c = linregRhs bs d i c := by
  have hw : ∀ r, 0 ≤ stackW bs.flatten d lam r := by
    intro r; cases r <;> simp [stackW, hlam]
  have hex : ∀ c, ∃ v : Fin (d + 1) → ℚ,
      ((stackM bs.flatten d)ᵀ * (diagonal (stackW bs.flatten d lam) * stackM bs.flatten d)).mulVec v
        = (diagonal (stackW bs.flatten d lam) * stackM bs.flatten d)ᵀ.mulVec (stackL bs.flatten d c) :=
    fun c => exists_solution_weighted _ _ hw _
  refine ⟨fun j c => if h : j < d + 1 then Classical.choose (hex c) ⟨j, h⟩ else 0, ?_⟩
  intro i hi c _
  have hv := congrFun (Classical.choose_spec (hex c)) ⟨i, hi⟩
  rw [stack_R bs d c lam ⟨i, hi⟩] at hv
  rw [← hv]
  unfold matMul
  rw [rsum_eq_sum_fin]
  simp only [Matrix.mulVec, dotProduct]
  apply Finset.sum_congr rfl
  intro j _
  rw [stack_A bs d lam ⟨i, hi⟩ j]
  simp [j.isLt]

end SharkVerif.Trainers
