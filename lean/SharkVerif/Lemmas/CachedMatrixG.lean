/-
C09: the statement-level model `CMG` of `CachedMatrix<Matrix>` over a concrete
base-matrix class (`Model/Cache.lean`: junk-filled fresh buffers, explicit
bounds checks, intrusive-list `swapLineIndices`, buffer identities) simulates
the abstract model `CM` (base function under a permutation).
-/
import SharkVerif.Lemmas.CacheIL
namespace SharkVerif.Cache
open LRU

variable {W V : Type}

/-- what `CachedMatrix` needs from its base matrix: `row` writes the entries,
a flip exchanges the two variables -/
structure Lawful (ops : BaseOps W V) : Prop where
  row_eq : ∀ w k s e, ops.row w k s e = (List.range (e - s)).map fun d => ops.entry w k (s + d)
  flip_entry : ∀ w i j a b,
    ops.entry (ops.flip w i j) a b = ops.entry w (swapIdx i j a) (swapIdx i j b)

/-- simulation relation between the statement-level and the abstract model -/
structure Sim (ops : BaseOps W V) (g : CMG W V) (m : CM V) : Prop where
  n : g.n = m.n
  cache : g.cache.core = m.cache
  entry : ∀ a b, ops.entry g.w a b = m.entry a b

theorem LRU.ext' {s t : LRU V} (h1 : s.lines = t.lines) (h2 : s.lru = t.lru) (h3 : s.size = t.size)
    (h4 : s.maxSize = t.maxSize) : s = t := by
  cases s; cases t; simp_all

/-! #### projections of the buffer-identity layer -/

theorem LRUP.getCacheLine_core (s : LRUP V) (i size : Nat) (f : Nat → V) :
    (s.getCacheLine i size f).core = s.core.getCacheLine i size f := by
  unfold LRUP.getCacheLine; split <;> rfl

theorem LRUP.swapLineIndices_core (s : LRUP V) (i j : Nat) :
    (s.swapLineIndices i j).core = s.core.swapLineIndicesIL i j := by
  unfold LRUP.swapLineIndices LRU.swapLineIndicesIL; split <;> rfl

theorem LRUP.markFold_core (ds : List Nat) (n' : Nat) : ∀ (c : LRUP V),
    (ds.foldl (fun c d => c.markForDeletion (n' + d)) c).core =
      ds.foldl (fun c d => c.markForDeletion (n' + d)) c.core := by
  induction ds with
  | nil => intro c; rfl
  | cons d ds ih => intro c; simp only [List.foldl_cons]; rw [ih]; rfl

/-! #### the fresh contents of a line do not influence anything else -/

theorem getCacheLine_fresh (s : LRU V) (i size : Nat) (f f' : Nat → V) :
    (s.getCacheLine i size f).lru = (s.getCacheLine i size f').lru ∧
    (s.getCacheLine i size f).size = (s.getCacheLine i size f').size ∧
    (s.getCacheLine i size f).maxSize = (s.getCacheLine i size f').maxSize ∧
    ∀ k, k ≠ i → (s.getCacheLine i size f).lines k = (s.getCacheLine i size f').lines k := by
  unfold getCacheLine
  split
  · refine ⟨by simp [createRow], by simp [createRow], by simp [createRow], ?_⟩
    intro k hk; simp [createRow, upd_ne _ _ hk]
  · split
    · exact ⟨rfl, rfl, rfl, fun _ _ => rfl⟩
    · refine ⟨by simp [resizeLine], by simp [resizeLine], by simp [resizeLine], ?_⟩
      intro k hk; simp [resizeLine, upd_ne _ _ hk]

/-- replacing line `i` of `getCacheLine i size f` by the line that another fill
would have produced gives exactly the state of that other fill -/
theorem getCacheLine_setLine (s : LRU V) (i size : Nat) (f f' : Nat → V) (L : List V)
    (hL : L = (s.getCacheLine i size f').lines i) :
    ({ s.getCacheLine i size f with lines := upd (s.getCacheLine i size f).lines i L } : LRU V) =
      s.getCacheLine i size f' := by
  obtain ⟨h1, h2, h3, h4⟩ := getCacheLine_fresh s i size f f'
  apply LRU.ext'
  · funext k
    show upd (s.getCacheLine i size f).lines i L k = _
    by_cases hk : k = i
    · subst hk; rw [upd_same, hL]
    · rw [upd_ne _ _ hk]; exact h4 k hk
  · exact h1
  · exact h2
  · exact h3

theorem resized_eq_append (old : List V) (size : Nat) (f : Nat → V) (h : old.length ≤ size) :
    resized old size f = old ++ (List.range (size - old.length)).map fun d => f (old.length + d) := by
  apply List.ext_getElem?
  intro c
  by_cases hc : c < size
  · by_cases ho : c < old.length
    · rw [resized_prefix old size f c hc ho, List.getElem?_append_left ho]
    · have ho' : old.length ≤ c := Nat.le_of_not_lt ho
      rw [List.getElem?_append_right ho']
      unfold resized
      rw [List.getElem?_map, List.getElem?_range hc, List.getElem?_map,
        List.getElem?_range (by omega)]
      have : old[c]? = none := List.getElem?_eq_none ho'
      simp only [Option.map_some, this]
      congr 2; omega
  · have h1 : (resized old size f)[c]? = none :=
      List.getElem?_eq_none (by rw [resized_length]; omega)
    have h2 : (old ++ (List.range (size - old.length)).map fun d => f (old.length + d))[c]? = none :=
      List.getElem?_eq_none (by simp; omega)
    rw [h1, h2]

theorem writeAt_ok (line : List V) (off : Nat) (vals : List V) (h : off + vals.length ≤ line.length) :
    CMG.writeAt line off vals = some (line.take off ++ vals ++ line.drop (off + vals.length)) := by
  unfold CMG.writeAt; simp [h]

/-! #### `row(k,start,end)` -/

theorem row_sim {ops : BaseOps W V} (hl : Lawful ops) (junk : Nat → V) {g : CMG W V} {m : CM V}
    (hs : Sim ops g m) (k start stop : Nat) :
    ∃ g', CMG.row ops junk g k start stop = some g' ∧ Sim ops g' (m.row k start stop) ∧ g'.w = g.w ∧
      g'.cache.ids = (g.cache.getCacheLine k stop junk).ids ∧
      g'.cache.next = (g.cache.getCacheLine k stop junk).next := by
  unfold CMG.row
  simp only [lineLength, hs.cache]
  by_cases hgt : stop > (m.cache.lines k).length
  · simp only [hgt, ↓reduceIte]
    have hcore := LRUP.getCacheLine_core g.cache k stop junk
    rw [hs.cache] at hcore
    have hline : ((g.cache.getCacheLine k stop junk).core.lines k) =
        resized (m.cache.lines k) stop junk := by
      rw [hcore, getCacheLine_lines_self]
      have : ¬ stop ≤ (m.cache.lines k).length := by omega
      simp [this]
    have hle : (m.cache.lines k).length ≤ stop := by omega
    have hrow : (ops.row g.w k (m.cache.lines k).length stop).length = stop - (m.cache.lines k).length := by
      rw [hl.row_eq]; simp
    rw [hline, writeAt_ok _ _ _ (by rw [resized_length, hrow]; omega)]
    refine ⟨_, rfl, ⟨hs.n, ?_, hs.entry⟩, rfl, rfl, rfl⟩
    show ({ (g.cache.getCacheLine k stop junk).core with
            lines := upd (g.cache.getCacheLine k stop junk).core.lines k _ } : LRU V) = _
    rw [hcore]
    apply getCacheLine_setLine
    rw [getCacheLine_lines_self]
    have : ¬ stop ≤ (m.cache.lines k).length := by omega
    simp only [this, and_false, ↓reduceIte]
    rw [resized_eq_append _ _ junk hle, resized_eq_append _ _ _ hle, hrow]
    have h1 : (m.cache.lines k).length + (stop - (m.cache.lines k).length) = stop := by omega
    rw [List.take_left' rfl, h1]
    have h2 : (m.cache.lines k ++ (List.range (stop - (m.cache.lines k).length)).map
        fun d => junk ((m.cache.lines k).length + d)).drop stop = [] := by
      apply List.drop_eq_nil_of_le; simp; omega
    rw [h2, List.append_nil, hl.row_eq]
    congr 1
    apply List.map_congr_left
    intro d _; exact hs.entry _ _
  · simp only [hgt, ↓reduceIte]
    refine ⟨_, rfl, ⟨hs.n, ?_, hs.entry⟩, rfl, rfl, rfl⟩
    show (g.cache.getCacheLine k stop junk).core = _
    rw [LRUP.getCacheLine_core, hs.cache]
    have := getCacheLine_setLine m.cache k stop junk (fun c => m.entry k c)
      ((m.cache.getCacheLine k stop junk).lines k) (by
        rw [getCacheLine_lines_self, getCacheLine_lines_self]
        have hle : stop ≤ (m.cache.lines k).length := by omega
        by_cases hne : m.cache.lines k = []
        · have : stop = 0 := by rw [hne] at hle; simpa using hle
          subst this
          simp [hne, resized]
        · simp [hne, hle])
    show _ = m.cache.getCacheLine k stop (fun c => m.entry k c)
    rw [← this]
    refine LRU.ext' ?_ rfl rfl rfl
    funext k'
    show _ = upd _ k _ k'
    by_cases hk : k' = k
    · subst hk; rw [upd_same]
    · rw [upd_ne _ _ hk]

/-! #### `row(k,start,end,storage)` -/

theorem trueLine_segment {m : CM V} {k : Nat} {line : List V} (h : TrueLine m k line) (a b : Nat)
    (hb : b ≤ line.length) :
    (line.drop a).take (b - a) = (List.range (b - a)).map fun t => m.entry k (a + t) := by
  apply List.ext_getElem?
  intro t
  by_cases ht : t < b - a
  · rw [List.getElem?_take_of_lt ht, List.getElem?_drop, List.getElem?_map, List.getElem?_range ht]
    have hlt : a + t < line.length := by omega
    have hg := List.getElem?_eq_getElem hlt
    rw [hg, h _ _ hg]; rfl
  · rw [List.getElem?_eq_none (by simp; omega), List.getElem?_eq_none (by simp; omega)]

theorem range_map_split {α} (f : Nat → α) (p q : Nat) :
    (List.range (p + q)).map f = (List.range p).map f ++ (List.range q).map fun t => f (p + t) := by
  rw [List.range_add, List.map_append, List.map_map]; rfl

theorem rowStorage_sim {ops : BaseOps W V} (hl : Lawful ops) (junk : Nat → V) {g : CMG W V} {m : CM V}
    (hs : Sim ops g m) (hinv : CMInv m) (k start stop : Nat) (hse : start ≤ stop) :
    CMG.rowStorage ops junk g k start stop =
      some ((List.range (stop - start)).map fun t => m.entry k (start + t)) := by
  unfold CMG.rowStorage
  simp only [hs.cache]
  have htrue := hinv.truth k
  generalize hline : m.cache.lines k = line at htrue
  have hrow : ∀ a, ops.row g.w k a stop = (List.range (stop - a)).map fun t => m.entry k (a + t) := by
    intro a; rw [hl.row_eq]; apply List.map_congr_left; intro d _; exact hs.entry _ _
  by_cases hA : start < min line.length stop
  · simp only [hA, ↓reduceIte]
    have hseg := trueLine_segment htrue start (min line.length stop) (Nat.min_le_left _ _)
    simp only [CMG.readRange, Nat.min_le_left, ↓reduceIte, hseg]
    rw [writeAt_ok _ _ _ (by simp; omega)]
    simp only [List.take_zero, List.nil_append, Nat.zero_add, List.length_map, List.length_range]
    have hmax : max (min line.length stop) start = min line.length stop := by omega
    rw [hmax]
    by_cases hB : min line.length stop < stop
    · simp only [hB, ↓reduceIte]
      rw [writeAt_ok _ _ _ (by simp [hrow]; omega), hrow]
      simp only [List.length_map, List.length_range]
      have e1 : stop - start = (min line.length stop - start) + (stop - min line.length stop) := by omega
      rw [List.take_left' (by simp), List.drop_eq_nil_of_le (by simp; omega), List.append_nil]
      conv => rhs; rw [e1, range_map_split]
      congr 2
      apply List.map_congr_left
      intro t _; congr 1; omega
    · simp only [hB, ↓reduceIte]
      have e1 : min line.length stop = stop := by omega
      rw [e1, List.drop_eq_nil_of_le (by simp), List.append_nil]
  · simp only [hA, ↓reduceIte]
    have hmax : max (min line.length stop) start = start := by omega
    rw [hmax]
    by_cases hB : start < stop
    · simp only [hB, ↓reduceIte, Nat.sub_self]
      rw [writeAt_ok _ _ _ (by simp [hrow])]
      simp [hrow]
    · simp only [hB, ↓reduceIte]
      have : stop - start = 0 := by omega
      simp [this]

/-! #### `flipColumnsAndRows` -/

theorem flipLineG_eq {ops : BaseOps W V} {g : CMG W V} {m : CM V} (hs : Sim ops g m) {i j : Nat}
    (hij : i < j) (k : Nat) :
    CMG.flipLineG ops g.w i j k (m.cache.lines k) = some (flipLine m i j k) := by
  unfold CMG.flipLineG flipLine
  generalize m.cache.lines k = line
  by_cases h1 : line.length ≤ i
  · simp [h1]
  · simp only [h1, ↓reduceIte]
    have hi : i < line.length := by omega
    by_cases h2 : j < line.length
    · simp only [h2, ↓reduceIte, List.getElem?_eq_getElem hi, List.getElem?_eq_getElem h2]
      congr 1
      apply List.ext_getElem?
      intro c
      by_cases hc : c < line.length
      · rw [List.getElem?_map, List.getElem?_range hc]
        simp only [Option.map_some]
        by_cases cj : c = j
        · subst cj
          rw [List.getElem?_set_self (by simp; omega)]
          simp [swapIdx_right, List.getElem?_eq_getElem hi]
        · rw [List.getElem?_set_ne (Ne.symm cj)]
          by_cases ci : c = i
          · subst ci
            rw [List.getElem?_set_self hi]
            simp [swapIdx_left, List.getElem?_eq_getElem h2]
          · rw [List.getElem?_set_ne (Ne.symm ci), swapIdx_other ci cj, List.getElem?_eq_getElem hc]
      · rw [List.getElem?_eq_none (by simp; omega), List.getElem?_eq_none (by simp; omega)]
    · simp only [h2, ↓reduceIte, hi, hs.entry]

theorem flipLines_eq {ops : BaseOps W V} {g : CMG W V} {m : CM V} (hs : Sim ops g m) {i j : Nat}
    (hij : i < j) : ∀ (ks : List Nat), ks.Nodup → ∀ (lines : Nat → List V),
    (∀ k ∈ ks, lines k = m.cache.lines k) →
    CMG.flipLines ops g.w i j ks lines = some (fun k => if k ∈ ks then flipLine m i j k else lines k) := by
  intro ks
  induction ks with
  | nil => intro _ lines _; simp [CMG.flipLines]
  | cons k ks ih =>
    intro hnd lines hl
    have hk := hl k (by simp)
    obtain ⟨hkn, hnd'⟩ := List.nodup_cons.1 hnd
    simp only [CMG.flipLines, hk, flipLineG_eq hs hij k]
    rw [ih hnd' _ (by
      intro k' hk'
      have : k' ≠ k := fun e => hkn (e ▸ hk')
      rw [upd_ne _ _ this]; exact hl k' (by simp [hk']))]
    congr 1
    funext k'
    by_cases e : k' = k
    · subst e; simp [hkn]
    · simp [e, upd_ne _ _ e]

theorem flip_sim_ordered {ops : BaseOps W V} (hl : Lawful ops) {g : CMG W V} {m : CM V}
    (hs : Sim ops g m) (hinv : CMInv m) {i j : Nat} (hij : i < j) :
    ∃ lines', CMG.flipLines ops g.w i j (List.range g.n) g.cache.core.lines = some lines' ∧
      Sim ops { g with cache := ({ g.cache with core := { g.cache.core with lines := lines' } } : LRUP V).swapLineIndices i j
                       w := ops.flip g.w i j } (m.flip i j) := by
  have hfl := flipLines_eq hs hij (List.range g.n) List.nodup_range g.cache.core.lines
    (by intro k _; rw [hs.cache])
  refine ⟨_, hfl, ?_⟩
  have hlines : (fun k => if k ∈ List.range g.n then flipLine m i j k else g.cache.core.lines k) =
      fun k => flipLine m i j k := by
    funext k
    by_cases hk : k < g.n
    · simp [hk]
    · have hk' : m.n ≤ k := by rw [← hs.n]; omega
      have h0 := hinv.inside k hk'
      simp only [List.mem_range, hk, ↓reduceIte, hs.cache, h0, flipLine]
      simp
  rw [hlines, flip_ordered m hij]
  refine ⟨hs.n, ?_, ?_⟩
  · show (LRUP.swapLineIndices _ i j).core = _
    rw [LRUP.swapLineIndices_core]
    show ({ g.cache.core with lines := fun k => flipLine m i j k } : LRU V).swapLineIndicesIL i j = _
    rw [hs.cache]
    exact swapLineIndicesIL_eq (inv_with_lines hinv.lru _ (flipLine_length m i j)) i j
  · intro a b
    show ops.entry (ops.flip g.w i j) a b = m.base (m.perm (swapIdx i j a)) (m.perm (swapIdx i j b))
    rw [hl.flip_entry, hs.entry]; rfl

theorem flip_sim {ops : BaseOps W V} (hl : Lawful ops) {g : CMG W V} {m : CM V}
    (hs : Sim ops g m) (hinv : CMInv m) (i j : Nat) :
    ∃ g', CMG.flip ops g i j = some g' ∧ Sim ops g' (m.flip i j) ∧ g'.n = g.n := by
  unfold CMG.flip
  rcases Nat.lt_trichotomy i j with h | h | h
  · have h1 : i ≠ j := by omega
    have h2 : ¬ i > j := by omega
    simp only [h1, ↓reduceIte, h2]
    obtain ⟨lines', e, hsim⟩ := flip_sim_ordered hl hs hinv h
    rw [e]; exact ⟨_, rfl, hsim, rfl⟩
  · subst h
    simp only [↓reduceIte]
    refine ⟨g, rfl, ?_, rfl⟩
    have : m.flip i i = m := by unfold CM.flip; simp
    rw [this]; exact hs
  · have h1 : i ≠ j := by omega
    have h2 : i > j := h
    simp only [h1, ↓reduceIte, h2]
    obtain ⟨lines', e, hsim⟩ := flip_sim_ordered hl hs hinv h
    rw [e, flip_swap m h]; exact ⟨_, rfl, hsim, rfl⟩

/-! #### `setMaxCachedIndex`, `clear` -/

theorem setMaxCachedIndex_sim {ops : BaseOps W V} {g : CMG W V} {m : CM V} (hs : Sim ops g m) (n' : Nat) :
    Sim ops (g.setMaxCachedIndex n') (m.setMaxCachedIndex n') := by
  refine ⟨hs.n, ?_, hs.entry⟩
  show (List.foldl _ g.cache _).core = _
  rw [LRUP.markFold_core, hs.cache, hs.n]; rfl

theorem clear_sim {ops : BaseOps W V} {g : CMG W V} {m : CM V} (hs : Sim ops g m) :
    Sim ops g.clear m.clear := by
  refine ⟨hs.n, ?_, hs.entry⟩
  show g.cache.core.clear = _
  rw [hs.cache]; rfl

theorem init_sim (ops : BaseOps W V) (n : Nat) (w : W) (cap : Nat) :
    Sim ops (CMG.init n w cap) (CM.init n (ops.entry w) cap) :=
  ⟨rfl, rfl, fun _ _ => rfl⟩

end SharkVerif.Cache
