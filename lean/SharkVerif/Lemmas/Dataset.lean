/-
Lemmas about the dataset model (`Model/Dataset.lean`): cutting a list by sizes,
canonical (batch, offset) positions and the element-iterator state machine.
-/
import SharkVerif.Model.Dataset
namespace SharkVerif.Dataset
open SharkVerif.CheckedNat

variable {ε : Type}

/-! ### splitBySizes -/
theorem splitBySizes_flatten (sizes : List Nat) : ∀ (xs : List ε), sizes.sum = xs.length →
    (splitBySizes xs sizes).flatten = xs := by
  induction sizes with
  | nil => intro xs h; simp at h; simp [splitBySizes, List.length_eq_zero_iff.mp h.symm]
  | cons s ss ih =>
    intro xs h
    simp only [List.sum_cons] at h
    have : ss.sum = (xs.drop s).length := by simp [List.length_drop]; omega
    simp [splitBySizes, ih _ this]

theorem splitBySizes_lengths (sizes : List Nat) : ∀ (xs : List ε), sizes.sum ≤ xs.length →
    (splitBySizes xs sizes).map List.length = sizes := by
  induction sizes with
  | nil => intro xs _; simp [splitBySizes]
  | cons s ss ih =>
    intro xs h
    simp only [List.sum_cons] at h
    have h2 : ss.sum ≤ (xs.drop s).length := by simp [List.length_drop]; omega
    simp [splitBySizes, ih _ h2, List.length_take]; omega

theorem splitBySizes_length (sizes : List Nat) (xs : List ε) : (splitBySizes xs sizes).length = sizes.length := by
  induction sizes generalizing xs with
  | nil => simp [splitBySizes]
  | cons s ss ih => simp [splitBySizes, ih]

theorem length_flatten_eq_sum (l : List (List ε)) : l.flatten.length = (l.map List.length).sum := by
  induction l with
  | nil => simp
  | cons a l ih => simp [ih]

/-- batch sizes always sum to the element count -/
theorem Data.numberOfElements_eq (d : Data ε) : d.numberOfElements = d.flat.length := by
  simp [Data.numberOfElements, Data.partitioning, Data.flat, length_flatten_eq_sum]

/-! ### canonical positions -/
/-- the canonical (batch, offset) of flat position `p` (for `p = total`: the end position) -/
def locate : List Nat → Nat → Nat × Nat
  | [], _ => (0, 0)
  | s :: rest, p => if p < s then (0, p) else ((locate rest (p - s)).1 + 1, (locate rest (p - s)).2)

def canon (sizes : List Nat) (p : Nat) : Iter := ⟨(locate sizes p).1, (locate sizes p).2, p⟩

def allPos (sizes : List Nat) : Prop := ∀ s ∈ sizes, 0 < s

theorem canon_zero (sizes : List Nat) (h : allPos sizes) : canon sizes 0 = Iter.begin := by
  cases sizes with
  | nil => rfl
  | cons s rest =>
    have : 0 < s := h s (by simp)
    simp [canon, locate, this, Iter.begin]

theorem canon_end (sizes : List Nat) : canon sizes sizes.sum = Iter.end sizes := by
  induction sizes with
  | nil => rfl
  | cons s rest ih =>
    simp only [canon, Iter.end, Iter.mk.injEq] at ih ⊢
    have : ¬ (s + rest.sum < s) := by omega
    simp [locate, ih.1, ih.2.1, this]

/-- reading at the canonical position of `p` yields the `p`-th element of the flat sequence -/
theorem get_locate (batches : List (List ε)) : ∀ p, p < batches.flatten.length →
    (batches[(locate (batches.map List.length) p).1]?).bind (·[(locate (batches.map List.length) p).2]?)
      = batches.flatten[p]? := by
  induction batches with
  | nil => intro p h; simp at h
  | cons b bs ih =>
    intro p h
    simp only [List.map_cons, locate]
    split
    · rename_i hp
      simp [List.getElem?_append_left hp]
    · rename_i hp
      have hp : b.length ≤ p := Nat.le_of_not_lt hp
      simp only [List.flatten_cons, List.length_append] at h
      have := ih (p - b.length) (by omega)
      simp only [List.getElem?_cons_succ, List.flatten_cons]
      rw [this, List.getElem?_append_right hp]

/-! ### forward jump of `advance` -/
theorem fwd_locate (rest : List Nat) (h : allPos rest) : ∀ (b npos : Nat), npos ≤ rest.sum →
    Iter.fwd rest b npos = some (b + (locate rest npos).1, (locate rest npos).2) := by
  induction rest with
  | nil => intro b npos hn; simp at hn; simp [Iter.fwd, locate, hn]
  | cons s rest ih =>
    intro b npos hn
    have hs : 0 < s := h s (by simp)
    have hrest : allPos rest := fun x hx => h x (by simp [hx])
    simp only [List.sum_cons] at hn
    unfold Iter.fwd
    by_cases hc : npos ≠ 0 ∧ npos ≥ s
    · rw [if_pos hc, ih hrest (b + 1) (npos - s) (by omega)]
      have : ¬ npos < s := by omega
      simp [locate, this]; omega
    · rw [if_neg hc]
      have : npos < s := by omega
      simp [locate, this]

/-- `element(i)` = `*(begin + i)` reads the i-th element of the flat sequence -/
theorem elementAt_eq_flat (d : Data ε) (hne : allPos d.partitioning) (i : Nat) (hi : i < d.flat.length) :
    d.container.elementAt i = d.flat[i]? := by
  have hsum : d.partitioning.sum = d.flat.length := by
    simpa [Data.numberOfElements] using d.numberOfElements_eq
  have hloc := get_locate d.batches i hi
  unfold Container.elementAt Iter.advance
  simp only [Iter.begin, Data.container]
  have hi0 : ¬ ((i:Int) < 0) := by omega
  by_cases h0 : i = 0
  · subst h0
    have hb := canon_zero d.partitioning hne
    simp only [canon, Iter.begin, Iter.mk.injEq, Data.partitioning] at hb
    rw [hb.1, hb.2.1] at hloc
    simpa [Container.deref, Data.get, Data.flat] using hloc
  · have hne0 : ¬ ((i:Int) = 0) := by omega
    have hf := fwd_locate d.partitioning hne 0 i (by omega)
    simp only [Nat.zero_add, Data.partitioning] at hf
    simp [hi0, hne0, h0, hf, Container.deref, Data.get, Data.partitioning]
    simpa [Data.flat] using hloc

/-! ### increment / decrement -/
theorem locate_zero (sizes : List Nat) (h : allPos sizes) : locate sizes 0 = (0, 0) := by
  have := canon_zero sizes h
  simp only [canon, Iter.begin, Iter.mk.injEq] at this
  exact Prod.ext this.1 this.2.1

theorem increment_canon (sizes : List Nat) (h : allPos sizes) : ∀ p, p < sizes.sum →
    Iter.increment sizes (canon sizes p) = some (canon sizes (p + 1)) := by
  induction sizes with
  | nil => intro p hp; simp at hp
  | cons s rest ih =>
    intro p hp
    have hs : 0 < s := h s (by simp)
    have hrest : allPos rest := fun x hx => h x (by simp [hx])
    simp only [List.sum_cons] at hp
    by_cases hps : p < s
    · by_cases he : p + 1 = s
      · have : ¬ (p + 1 < s) := by omega
        have hz := locate_zero rest hrest
        simp [Iter.increment, canon, locate, hps, he, this]
        have : s - s = 0 := by omega
        subst he
        simp [hz]
      · have : p + 1 < s := by omega
        simp [Iter.increment, canon, locate, hps, he, this]
    · have h1 : ¬ (p + 1 < s) := by omega
      have := ih hrest (p - s) (by omega)
      have e : p + 1 - s = p - s + 1 := by omega
      simp only [Iter.increment, canon, locate, hps, h1, if_false, List.getElem?_cons_succ, e] at this ⊢
      cases hg : rest[(locate rest (p - s)).1]? with
      | none => simp [hg] at this
      | some t =>
        simp only [hg, Option.bind_eq_bind, Option.bind_some] at this ⊢
        by_cases hc : (locate rest (p - s)).2 + 1 = t
        · simp only [hc, if_true, pure, Option.some.injEq, Iter.mk.injEq] at this ⊢
          and_intros <;> first | trivial | omega
        · simp only [hc, if_false, pure, Option.some.injEq, Iter.mk.injEq] at this ⊢
          and_intros <;> first | trivial | omega

theorem decrement_canon (sizes : List Nat) (h : allPos sizes) : ∀ p, p < sizes.sum →
    Iter.decrement sizes (canon sizes (p + 1)) = some (canon sizes p) := by
  induction sizes with
  | nil => intro p hp; simp at hp
  | cons s rest ih =>
    intro p hp
    have hs : 0 < s := h s (by simp)
    have hrest : allPos rest := fun x hx => h x (by simp [hx])
    simp only [List.sum_cons] at hp
    by_cases hps : p + 1 < s
    · have : p < s := by omega
      simp [Iter.decrement, canon, locate, hps, this, csub]
    · by_cases he : p + 1 = s
      · have : p < s := by omega
        have hz := locate_zero rest hrest
        have e0 : p + 1 - s = 0 := by omega
        simp [Iter.decrement, canon, locate, hps, this, csub, e0, hz]
        have h1s : 1 ≤ s := hs
        simp [h1s]
        omega
      · have h1 : ¬ (p < s) := by omega
        have := ih hrest (p - s) (by omega)
        have e : p + 1 - s = p - s + 1 := by omega
        simp only [Iter.decrement, canon, locate, hps, h1, if_false, e, csub] at this ⊢
        simp only [Nat.add_sub_cancel, Nat.le_add_left, if_true, Option.bind_eq_bind, Option.bind_some] at this ⊢
        by_cases hc : (locate rest (p - s + 1)).2 = 0
        · simp only [hc, if_true] at this ⊢
          by_cases hb : 1 ≤ (locate rest (p - s + 1)).1
          · simp only [hb, if_true, Option.bind_some] at this
            have eidx : (locate rest (p - s + 1)).1 = (locate rest (p - s + 1)).1 - 1 + 1 := by omega
            rw [eidx, List.getElem?_cons_succ]
            cases hg : rest[(locate rest (p - s + 1)).1 - 1]? with
            | none => simp [hg] at this
            | some t =>
              simp only [hg, Option.bind_some] at this ⊢
              by_cases ht : 1 ≤ t
              · simp only [ht, if_true, Option.bind_some, pure, Option.some.injEq, Iter.mk.injEq] at this ⊢
                and_intros <;> first | trivial | omega
              · simp [ht] at this
          · simp [hb] at this
        · simp only [hc, if_false, pure, Option.some.injEq, Iter.mk.injEq] at this ⊢
          and_intros <;> first | trivial | omega

/-! ### the three iterator access paths -/
theorem Data.sum_partitioning (d : Data ε) : d.partitioning.sum = d.flat.length := by
  simpa [Data.numberOfElements] using d.numberOfElements_eq

theorem deref_canon (d : Data ε) (p : Nat) (hp : p < d.flat.length) :
    d.container.deref (canon d.partitioning p) = d.flat[p]? := by
  have := get_locate d.batches p hp
  simpa [Container.deref, Data.container, canon, Data.get, Data.partitioning, Data.flat] using this

theorem walkFwd_eq (d : Data ε) (hne : allPos d.partitioning) : ∀ k p, p + k = d.flat.length →
    d.container.walkFwd k (canon d.partitioning p) = (d.flat.drop p).map some := by
  intro k
  induction k with
  | zero =>
    intro p hp
    have : d.flat.length ≤ p := by omega
    simp [Container.walkFwd, List.drop_eq_nil_of_le this]
  | succ k ih =>
    intro p hp
    have hlt : p < d.flat.length := by omega
    have hinc := increment_canon d.partitioning hne p (by rw [d.sum_partitioning]; exact hlt)
    have hinc' : (canon d.partitioning p).increment d.container.sizes = some (canon d.partitioning (p + 1)) := hinc
    rw [Container.walkFwd, hinc', deref_canon d p hlt]
    simp only []
    rw [ih (p + 1) (by omega), List.drop_eq_getElem_cons hlt]
    simp [List.getElem?_eq_getElem hlt]
    have hl : p < (List.map some d.flat).length := by simpa using hlt
    rw [List.drop_eq_getElem_cons hl]
    simp

theorem walkRev_eq (d : Data ε) (hne : allPos d.partitioning) : ∀ k, k ≤ d.flat.length →
    d.container.walkRev k (canon d.partitioning k) = ((d.flat.take k).reverse).map some := by
  intro k
  induction k with
  | zero => intro _; simp [Container.walkRev]
  | succ k ih =>
    intro hk
    have hlt : k < d.flat.length := by omega
    have hdec := decrement_canon d.partitioning hne k (by rw [d.sum_partitioning]; exact hlt)
    have hdec' : (canon d.partitioning (k + 1)).decrement d.container.sizes = some (canon d.partitioning k) := hdec
    rw [Container.walkRev, hdec']
    simp only []
    rw [deref_canon d k hlt, ih (by omega)]
    simp [List.getElem?_eq_getElem hlt]
    have hl : k < (List.map some d.flat).length := by simpa using hlt
    rw [List.take_succ_eq_append_getElem hl]
    simp

/-! ### unfolding the `Except` monad of the model -/
theorem bind_ok {α β : Type} (x : R α) (f : α → R β) (b : β) :
    (x >>= f) = .ok b ↔ ∃ a, x = .ok a ∧ f a = .ok b := by
  cases x <;> simp [bind, Except.bind]

theorem require_ok (b : Bool) (u : Unit) : require b = .ok u ↔ b = true := by
  unfold require; split <;> simp_all

theorem ofOpt_ok {α : Type} (o : Option α) (a : α) : ofOpt o = .ok a ↔ o = some a := by
  cases o <;> simp [ofOpt]

theorem pure_ok {α : Type} (a b : α) : (pure a : R α) = .ok b ↔ a = b := by
  simp [pure, Except.pure]

theorem nonEmpty_allPos (d : Data ε) (h : d.nonEmptyBatches = true) : allPos d.partitioning := by
  intro s hs
  simp only [Data.partitioning, List.mem_map] at hs
  obtain ⟨b, hb, rfl⟩ := hs
  simp only [Data.nonEmptyBatches, List.all_eq_true] at h
  have := h b hb
  cases b with
  | nil => simp at this
  | cons x xs => simp

theorem allPos_of_all (sizes : List Nat) (h : sizes.all (· > 0) = true) : allPos sizes := by
  intro s hs
  simp only [List.all_eq_true, decide_eq_true_eq] at h
  exact h s hs

theorem batch_split (l : List (List ε)) (b : Nat) (src : List ε) (h : l[b]? = some src) :
    l = l.take b ++ src :: l.drop (b + 1) := by
  induction l generalizing b with
  | nil => simp at h
  | cons a l ih =>
    cases b with
    | zero => simp at h; simp [h]
    | succ b => simp at h; simp; exact ih b h

theorem zip_flatten (as : List (List ε)) {κ : Type} (bs : List (List κ))
    (h : as.map List.length = bs.map List.length) :
    (List.zip as bs).flatMap (fun (p : List ε × List κ) => List.zip p.1 p.2) = List.zip as.flatten bs.flatten := by
  induction as generalizing bs with
  | nil => cases bs <;> simp_all
  | cons a as ih =>
    cases bs with
    | nil => simp at h
    | cons b bs =>
      simp only [List.map_cons, List.cons.injEq] at h
      simp only [List.zip_cons_cons, List.flatMap_cons, List.flatten_cons]
      rw [ih bs h.2, List.zip_append h.1]

theorem getElem?_zip_bind {α β : Type} (a : List α) (b : List β) (j : Nat) :
    (List.zip a b)[j]? = (a[j]?).bind (fun x => (b[j]?).map (fun y => (x, y))) := by
  induction a generalizing b j with
  | nil => simp
  | cons x a ih =>
    cases b with
    | nil => cases h : (x :: a)[j]? <;> simp
    | cons y b =>
      cases j with
      | zero => simp
      | succ j => simp [ih]

end SharkVerif.Dataset
