/-
Helper lemmas for C02: the LU-based solve (permutation + two triangular solves).
-/
import SharkVerif.Lemmas.LinSolveUnique
namespace SharkVerif.LinSolve

theorem sw_sw (a b i : Nat) : sw a b (sw a b i) = i := by
  unfold sw
  by_cases h1 : i = a
  · subst h1
    by_cases h2 : b = i
    · subst h2; simp
    · simp [h2]
  · by_cases h2 : i = b
    · subst h2; simp [h1]
    · simp [h1, h2]

theorem permOf_permInvOf (P : Nat → Nat) : ∀ t i, permOf P t (permInvOf P t i) = i := by
  intro t
  induction t with
  | zero => intro i; rfl
  | succ m ih => intro i; simp only [permOf, permInvOf, sw_sw]; exact ih i

theorem permInvOf_lt (P : Nat → Nat) (n : Nat) : ∀ t, t ≤ n → (∀ c, c < t → P c < n) →
    ∀ i, i < n → permInvOf P t i < n := by
  intro t
  induction t with
  | zero => intro _ _ i hi; exact hi
  | succ m ih =>
    intro hm hP i hi
    simp only [permInvOf]
    exact sw_lt (by omega) (hP m (by omega)) (ih (by omega) (fun c hc => hP c (by omega)) i hi)

/-- explicit form of a successful elimination step -/
theorem getrfStep_eq {n t : Nat} {s : LUState} (hok : (getrfStep n t s).fail = false) :
    getrfStep n t s =
      { M := matOf n n fun i k =>
          if i ≤ t ∨ k < t then mget (swapRows n s.M t (pivotRow n s.M t)) i k
          else if k = t then mget (swapRows n s.M t (pivotRow n s.M t)) i t / mget s.M (pivotRow n s.M t) t
          else mget (swapRows n s.M t (pivotRow n s.M t)) i k
            - mget (swapRows n s.M t (pivotRow n s.M t)) i t / mget s.M (pivotRow n s.M t) t
              * mget (swapRows n s.M t (pivotRow n s.M t)) t k,
        P := upd s.P t (pivotRow n s.M t), fail := false } := by
  obtain ⟨hf, hpiv⟩ := getrfStep_ok hok
  unfold getrfStep
  simp only [hf, Bool.false_eq_true, if_false]
  rw [if_neg hpiv]

/-- side invariant: recorded pivots are row indices, finished diagonal entries are nonzero -/
def LUSide (n t : Nat) (s : LUState) : Prop :=
  (∀ c, c < t → s.P c < n) ∧ (∀ c, c < t → mget s.M c c ≠ 0)

theorem LUSide_step (n t : Nat) (ht : t < n) (s : LUState) (hs : LUSide n t s)
    (hok : (getrfStep n t s).fail = false) : LUSide n (t + 1) (getrfStep n t s) := by
  obtain ⟨hf, hpiv⟩ := getrfStep_ok hok
  obtain ⟨hpt, hpn⟩ := pivotRow_bounds n s.M ht
  rw [getrfStep_eq hok]
  constructor
  · intro c hc
    show upd s.P t (pivotRow n s.M t) c < n
    unfold upd
    by_cases hct : c = t
    · simp [hct, hpn]
    · simp [hct]; exact hs.1 c (by omega)
  · intro c hc
    have hcn : c < n := by omega
    show mget (matOf n n _) c c ≠ 0
    rw [mget_matOf]
    simp only [hcn, and_self, if_true]
    rw [if_pos (Or.inl (by omega))]
    unfold swapRows
    rw [mget_matOf]
    simp only [hcn, and_self, if_true]
    by_cases hct : c = t
    · subst hct
      have : sw c (pivotRow n s.M c) c = pivotRow n s.M c := by unfold sw; simp
      rw [this]; exact hpiv
    · have : sw t (pivotRow n s.M t) c = c := by unfold sw; rw [if_neg hct, if_neg (by omega)]
      rw [this]; exact hs.2 c (by omega)

theorem getrf_side (n : Nat) (A : Mat) : ∀ t, t ≤ n →
    (iter t (getrfStep n) ⟨matOf n n A, fun t => t, false⟩).fail = false →
    LUSide n t (iter t (getrfStep n) ⟨matOf n n A, fun t => t, false⟩) := by
  intro t
  induction t with
  | zero => intro _ _; exact ⟨fun c hc => absurd hc (by omega), fun c hc => absurd hc (by omega)⟩
  | succ m ih =>
    intro hm hok
    have hok' : (getrfStep n m (iter m (getrfStep n) ⟨matOf n n A, fun t => t, false⟩)).fail = false := hok
    have hprev := (getrfStep_ok hok').1
    exact LUSide_step n m (by omega) _ (ih (by omega) hprev) hok'

/-! ### re-indexing by the recorded permutation (right-sided solve) -/

theorem permInvOf_permOf (P : Nat → Nat) : ∀ t i, permInvOf P t (permOf P t i) = i := by
  intro t
  induction t with
  | zero => intro i; rfl
  | succ m ih => intro i; simp only [permOf, permInvOf]; rw [ih, sw_sw]

theorem permOf_lt (P : Nat → Nat) (n : Nat) : ∀ t, t ≤ n → (∀ c, c < t → P c < n) →
    ∀ i, i < n → permOf P t i < n := by
  intro t
  induction t with
  | zero => intro _ _ i hi; exact hi
  | succ m ih =>
    intro hm hP i hi
    simp only [permOf]
    exact ih (by omega) (fun c hc => hP c (by omega)) _ (sw_lt (by omega) (hP m (by omega)) hi)

/-- a sum is invariant under a transposition of its index range -/
theorem sum_sw {n a b : Nat} (ha : a < n) (hb : b < n) (f : Nat → Rat) :
    sum n (fun i => f (sw a b i)) = sum n f := by
  rw [sum_eq_finset, sum_eq_finset]
  apply Finset.sum_nbij' (sw a b) (sw a b)
  · intro i hi; exact Finset.mem_range.mpr (sw_lt ha hb (Finset.mem_range.mp hi))
  · intro i hi; exact Finset.mem_range.mpr (sw_lt ha hb (Finset.mem_range.mp hi))
  · intro i _; exact sw_sw a b i
  · intro i _; exact sw_sw a b i
  · intro i _; rfl

/-- … and under the row permutation recorded by `getrf` -/
theorem sum_permOf (P : Nat → Nat) (n : Nat) : ∀ t, t ≤ n → (∀ c, c < t → P c < n) →
    ∀ f : Nat → Rat, sum n (fun i => f (permOf P t i)) = sum n f := by
  intro t
  induction t with
  | zero => intro _ _ f; rfl
  | succ m ih =>
    intro hm hP f
    simp only [permOf]
    rw [sum_sw (by omega) (hP m (by omega)) (fun i => f (permOf P m i))]
    exact ih (by omega) (fun c hc => hP c (by omega)) f

end SharkVerif.LinSolve
