/-
Lemmas about the *generated* batch arithmetic (`Gen/BatchArith.lean`, regenerated from
include/shark/Data/Impl/Dataset.inl on every run).  The closed forms `numBatches` /
`obsSpec` are what the C++ computes for n > 0, m > 0; `optimalBatchSizes_eq_spec`
is re-proved against the generated text on every run.
-/
import SharkVerif.Gen.BatchArith
namespace SharkVerif.BatchArith
open SharkVerif.CheckedNat SharkVerif.Gen.BatchArith

theorem foldlM_push (f : Nat → Nat) (l : List Nat) (acc : List Nat) :
    l.foldlM (fun acc j => (some (acc ++ [f j]) : Option (List Nat))) acc = some (acc ++ l.map f) := by
  induction l generalizing acc with
  | nil => simp
  | cons x xs ih => simp [List.foldlM_cons, ih]

/-- number of batches: ⌈n / m⌉ -/
def numBatches (n m : Nat) : Nat := if n % m > 0 then n / m + 1 else n / m

/-- closed form of `optimalBatchSizes n m` -/
def obsSpec (n m : Nat) : List Nat :=
  let b := numBatches n m
  (List.range b).map fun j => if j < n % b then n / b + 1 else n / b

theorem numBatches_pos {n m : Nat} (hn : 0 < n) (hm : 0 < m) : 0 < numBatches n m := by
  unfold numBatches
  split
  · exact Nat.succ_pos _
  · have : n % m = 0 := by omega
    have := Nat.div_add_mod n m
    rcases Nat.eq_zero_or_pos (n / m) with h | h
    · rw [h] at this; omega
    · exact h

theorem optimalBatchSizes_eq_spec {n m : Nat} (hn : 0 < n) (hm : 0 < m) :
    optimalBatchSizes n m = some (obsSpec n m) := by
  have hb := numBatches_pos hn hm
  have hmul : n / m * m ≤ n := Nat.div_mul_le_self n m
  have hsub : n - n / m * m = n % m := by
    have := Nat.div_add_mod n m; rw [Nat.mul_comm] at this; omega
  unfold optimalBatchSizes
  simp [cdiv, csub, Nat.ne_of_gt hm, Nat.ne_of_gt hn, hmul, hsub]
  have e1 : (if 0 < n % m then some (n / m + 1) else some (n / m)) = some (numBatches n m) := by
    unfold numBatches; split <;> rfl
  have hq : numBatches n m * (n / numBatches n m) ≤ n := Nat.mul_div_le n _
  have hr : n - numBatches n m * (n / numBatches n m) = n % numBatches n m := by
    have := Nat.div_add_mod n (numBatches n m); omega
  rw [e1]
  simp [Nat.ne_of_gt hb, hq, hr, foldlM_push, obsSpec]

end SharkVerif.BatchArith
