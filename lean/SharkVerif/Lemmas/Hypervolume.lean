/-
Lemmas about the hypervolume specification `hvSpec` (cell counting) and the
models of `HypervolumeCalculator2D` / `HypervolumeCalculatorMDWFG`.
Core Lean only.
-/
import SharkVerif.Lemmas.Pareto
import SharkVerif.Model.Hypervolume
namespace SharkVerif.HV
open SharkVerif.Pareto

/-! ### generic counting tools on duplicate-free lists -/

theorem nodup_filter {α} {l : List α} (p : α → Bool) (h : l.Nodup) : (l.filter p).Nodup :=
  List.Pairwise.filter p h

/-- two filtered duplicate-free lists with the same members have the same size -/
theorem countP_eq_of_nodup {α} {l1 l2 : List α} (h1 : l1.Nodup) (h2 : l2.Nodup) (p q : α → Bool)
    (h : ∀ z, (z ∈ l1 ∧ p z = true) ↔ (z ∈ l2 ∧ q z = true)) : l1.countP p = l2.countP q := by
  rw [List.countP_eq_length_filter, List.countP_eq_length_filter]
  apply List.Perm.length_eq
  rw [List.perm_ext_iff_of_nodup (nodup_filter p h1) (nodup_filter q h2)]
  intro z
  simpa [List.mem_filter] using h z

/-- a filtered duplicate-free list that is the disjoint union of two others -/
theorem countP_eq_add_of_nodup {α} {l l1 l2 : List α} (h : l.Nodup) (h1 : l1.Nodup) (h2 : l2.Nodup)
    (p p1 p2 : α → Bool)
    (hu : ∀ z, (z ∈ l ∧ p z = true) ↔ ((z ∈ l1 ∧ p1 z = true) ∨ (z ∈ l2 ∧ p2 z = true)))
    (hd : ∀ z, (z ∈ l1 ∧ p1 z = true) → (z ∈ l2 ∧ p2 z = true) → False) :
    l.countP p = l1.countP p1 + l2.countP p2 := by
  rw [List.countP_eq_length_filter, List.countP_eq_length_filter, List.countP_eq_length_filter,
    ← List.length_append]
  apply List.Perm.length_eq
  have hn : (l1.filter p1 ++ l2.filter p2).Nodup := by
    rw [List.nodup_append]
    refine ⟨nodup_filter p1 h1, nodup_filter p2 h2, ?_⟩
    intro a ha b hb hab
    subst hab
    exact hd a (by simpa [List.mem_filter] using ha) (by simpa [List.mem_filter] using hb)
  rw [List.perm_ext_iff_of_nodup (nodup_filter p h) hn]
  intro z
  simpa [List.mem_filter, List.mem_append] using hu z

theorem countP_or_add_and {α} (l : List α) (a b : α → Bool) :
    l.countP (fun z => a z || b z) + l.countP (fun z => a z && b z) = l.countP a + l.countP b := by
  induction l with
  | nil => simp
  | cons x l ih =>
    simp only [List.countP_cons]
    cases a x <;> cases b x <;> simp <;> omega

/-! ### A.1 cells -/

/-- `lo ≤ z < hi` component-wise (all three of the same dimension) -/
def inBox : Pt → Pt → Pt → Prop
  | [], [], [] => True
  | l :: lo, z :: zs, h :: hi => l ≤ z ∧ z < h ∧ inBox lo zs hi
  | _, _, _ => False

theorem mem_cells : ∀ {lo hi z : Pt}, z ∈ cells lo hi ↔ inBox lo z hi
  | [], [], z => by cases z <;> simp [cells, inBox]
  | [], _ :: _, z => by simp [cells, inBox]
  | _ :: _, [], z => by simp [cells, inBox]
  | l :: lo, h :: hi, z => by
    simp only [cells, List.mem_flatMap, List.mem_range, List.mem_map]
    constructor
    · rintro ⟨d, hd, z', hz', rfl⟩
      refine ⟨by omega, by omega, mem_cells.mp hz'⟩
    · cases z with
      | nil => simp [inBox]
      | cons x zs =>
        rintro ⟨h1, h2, h3⟩
        refine ⟨(x - l).toNat, by omega, zs, mem_cells.mpr h3, ?_⟩
        congr 1
        omega

theorem nodup_cells : ∀ (lo hi : Pt), (cells lo hi).Nodup
  | [], [] => by simp [cells]
  | [], _ :: _ => by simp [cells]
  | _ :: _, [] => by simp [cells]
  | l :: lo, h :: hi => by
    simp only [cells, List.Nodup, List.pairwise_flatMap]
    constructor
    · intro d _
      rw [List.pairwise_map]
      exact List.Pairwise.imp (fun hne => by simpa using hne) (nodup_cells lo hi)
    · refine List.Pairwise.imp ?_ (List.nodup_range (n := (h - l).toNat))
      intro a b hab x hx y hy hxy
      simp only [List.mem_map] at hx hy
      obtain ⟨x', _, rfl⟩ := hx
      obtain ⟨y', _, rfl⟩ := hy
      simp only [List.cons.injEq] at hxy
      omega

theorem inBox_length : ∀ {lo z hi : Pt}, inBox lo z hi → lo.length = z.length ∧ z.length = hi.length
  | [], [], [], _ => ⟨rfl, rfl⟩
  | l :: lo, z :: zs, h :: hi, hb => by
    have := inBox_length hb.2.2
    simp [this.1, this.2]
  | [], [], _ :: _, hb => by simp [inBox] at hb
  | [], _ :: _, _, hb => by simp [inBox] at hb
  | _ :: _, [], _, hb => by simp [inBox] at hb
  | _ :: _, _ :: _, [], hb => by simp [inBox] at hb

theorem inBox_leAll : ∀ {lo z hi : Pt}, inBox lo z hi → leAll lo z = true
  | [], [], [], _ => rfl
  | l :: lo, z :: zs, h :: hi, hb => by
    simp only [leAll, Bool.and_eq_true, decide_eq_true_eq]
    exact ⟨hb.1, inBox_leAll hb.2.2⟩
  | [], [], _ :: _, hb => by simp [inBox] at hb
  | [], _ :: _, _, hb => by simp [inBox] at hb
  | _ :: _, [], _, hb => by simp [inBox] at hb
  | _ :: _, _ :: _, [], hb => by simp [inBox] at hb

/-- the lower corner of a box can be replaced by any other corner below the cell -/
theorem inBox_of_leAll : ∀ {lo lo' z hi : Pt}, inBox lo z hi → leAll lo' z = true → inBox lo' z hi
  | [], [], [], [], _, _ => trivial
  | l :: lo, l' :: lo', z :: zs, h :: hi, hb, hl => by
    simp only [leAll, Bool.and_eq_true, decide_eq_true_eq] at hl
    exact ⟨hl.1, hb.2.1, inBox_of_leAll hb.2.2 hl.2⟩
  | [], _ :: _, [], _, _, hl => by simp [leAll] at hl
  | _, [], _ :: _, _, _, hl => by simp [leAll] at hl
  | _ :: _, _, [], _, hb, _ => by simp [inBox] at hb
  | [], _, _ :: _, _, hb, _ => by simp [inBox] at hb
  | [], _, [], _ :: _, hb, _ => by simp [inBox] at hb
  | _ :: _, _, _ :: _, [], hb, _ => by simp [inBox] at hb

theorem inBox_weaken {lo lo' z hi : Pt} (hb : inBox lo' z hi) (hl : leAll lo lo' = true) :
    inBox lo z hi :=
  inBox_of_leAll hb (leAll_trans hl (inBox_leAll hb))

/-! ### A.2 size of a box -/

theorem length_flatMap_range_const {α} (f : Nat → List α) (n : Nat) (hf : ∀ d, (f d).length = n) :
    ∀ k : Nat, ((List.range k).flatMap f).length = k * n
  | 0 => by simp
  | k + 1 => by
    rw [List.range_succ, List.flatMap_append, List.length_append,
      length_flatMap_range_const f n hf k]
    simp [hf, Nat.succ_mul]

theorem length_cells_self : ∀ {p r : Pt}, leAll p r = true → ((cells p r).length : Int) = boxVol p r
  | [], [], _ => by simp [cells, boxVol]
  | a :: as, b :: bs, h => by
    simp only [leAll, Bool.and_eq_true, decide_eq_true_eq] at h
    have ih := length_cells_self h.2
    simp only [cells, boxVol]
    rw [length_flatMap_range_const _ (cells as bs).length (by simp)]
    rw [Int.natCast_mul, ih]
    congr 1
    omega
  | [], _ :: _, h => by simp [leAll] at h
  | _ :: _, [], h => by simp [leAll] at h

theorem leAll_of_mem_cells {p r z : Pt} (h : z ∈ cells p r) : leAll p z = true :=
  inBox_leAll (mem_cells.mp h)

/-! ### A.3 the corner `lower S r` -/

theorem leAll_pmin_left : ∀ {a b : Pt}, a.length = b.length → leAll (pmin a b) a = true
  | [], [], _ => rfl
  | x :: a, y :: b, h => by
    simp only [pmin, leAll, Bool.and_eq_true, decide_eq_true_eq]
    exact ⟨by omega, leAll_pmin_left (by simpa using h)⟩
  | [], _ :: _, h => by simp at h
  | _ :: _, [], h => by simp at h

theorem leAll_pmin_right : ∀ {a b : Pt}, a.length = b.length → leAll (pmin a b) b = true
  | [], [], _ => rfl
  | x :: a, y :: b, h => by
    simp only [pmin, leAll, Bool.and_eq_true, decide_eq_true_eq]
    exact ⟨by omega, leAll_pmin_right (by simpa using h)⟩
  | [], _ :: _, h => by simp at h
  | _ :: _, [], h => by simp at h

theorem leAll_pmin : ∀ {lo a b : Pt}, leAll lo a = true → leAll lo b = true → leAll lo (pmin a b) = true
  | [], [], [], _, _ => rfl
  | l :: lo, x :: a, y :: b, h1, h2 => by
    simp only [pmin, leAll, Bool.and_eq_true, decide_eq_true_eq] at h1 h2 ⊢
    exact ⟨by omega, leAll_pmin h1.2 h2.2⟩
  | [], _ :: _, _, h1, _ => by simp [leAll] at h1
  | _ :: _, [], _, h1, _ => by simp [leAll] at h1
  | [], [], _ :: _, _, h2 => by simp [leAll] at h2
  | _ :: _, _ :: _, [], _, h2 => by simp [leAll] at h2

theorem lower_cons (s : Pt) (S : List Pt) (r : Pt) : lower (s :: S) r = pmin s (lower S r) := rfl

theorem lower_le {m : Nat} {S : List Pt} {r : Pt} (hr : r.length = m) (hS : ∀ p ∈ S, p.length = m) :
    leAll (lower S r) r = true ∧ ∀ p ∈ S, leAll (lower S r) p = true := by
  induction S with
  | nil => exact ⟨leAll_refl r, by simp⟩
  | cons s S ih =>
    have ih' := ih (fun p hp => hS p (List.mem_cons_of_mem _ hp))
    have hlen : s.length = (lower S r).length := by
      rw [leAll_length ih'.1, hr]; exact hS s List.mem_cons_self
    rw [lower_cons]
    refine ⟨leAll_trans (leAll_pmin_right hlen) ih'.1, ?_⟩
    intro p hp
    rcases List.mem_cons.mp hp with rfl | hp
    · exact leAll_pmin_left hlen
    · exact leAll_trans (leAll_pmin_right hlen) (ih'.2 p hp)

/-- `lower S r` is the greatest common lower bound -/
theorem le_lower {lo : Pt} {S : List Pt} {r : Pt} (hr : leAll lo r = true)
    (hS : ∀ p ∈ S, leAll lo p = true) : leAll lo (lower S r) = true := by
  induction S with
  | nil => exact hr
  | cons s S ih =>
    rw [lower_cons]
    exact leAll_pmin (hS s List.mem_cons_self) (ih (fun p hp => hS p (List.mem_cons_of_mem _ hp)))

/-! ### A.4 independence of the enclosing box -/

theorem covered_iff {S : List Pt} {z : Pt} : covered S z = true ↔ ∃ p ∈ S, leAll p z = true := by
  simp [covered, List.any_eq_true]

theorem hvCount_indep {lo lo' : Pt} {S : List Pt} {r : Pt} (hlo : leAll lo lo' = true)
    (hS : ∀ p ∈ S, leAll lo' p = true) : hvCount lo S r = hvCount lo' S r := by
  unfold hvCount
  apply countP_eq_of_nodup (nodup_cells _ _) (nodup_cells _ _)
  intro z
  simp only [mem_cells]
  constructor
  · rintro ⟨hb, hc⟩
    obtain ⟨p, hp, hpz⟩ := covered_iff.mp hc
    exact ⟨inBox_of_leAll hb (leAll_trans (hS p hp) hpz), hc⟩
  · rintro ⟨hb, hc⟩
    exact ⟨inBox_weaken hb hlo, hc⟩

theorem hvSpec_eq_hvCount {lo : Pt} {S : List Pt} {r : Pt} (hr : leAll lo r = true)
    (hS : ∀ p ∈ S, leAll lo p = true) : hvSpec S r = hvCount lo S r := by
  have hl := lower_le (m := lo.length) (S := S) (r := r) (leAll_length hr).symm
    (fun p hp => (leAll_length (hS p hp)).symm)
  exact (hvCount_indep (le_lower hr hS) hl.2).symm

/-! ### hvCount-level facts (fixed box) -/

theorem hvCount_congr {lo : Pt} {S T : List Pt} {r : Pt}
    (h : ∀ z, leAll lo z = true → (covered S z = true ↔ covered T z = true)) :
    hvCount lo S r = hvCount lo T r :=
  List.countP_congr fun z hz => h z (leAll_of_mem_cells hz)

theorem hvCount_mono {lo : Pt} {S T : List Pt} {r : Pt}
    (h : ∀ p ∈ S, ∃ q ∈ T, leAll q p = true) : hvCount lo S r ≤ hvCount lo T r := by
  apply List.countP_mono_left
  intro z _ hc
  obtain ⟨p, hp, hpz⟩ := covered_iff.mp hc
  obtain ⟨q, hq, hqp⟩ := h p hp
  exact covered_iff.mpr ⟨q, hq, leAll_trans hqp hpz⟩

theorem covered_append (S T : List Pt) (z : Pt) : covered (S ++ T) z = (covered S z || covered T z) := by
  simp [covered]

theorem covered_cons (p : Pt) (S : List Pt) (z : Pt) : covered (p :: S) z = (leAll p z || covered S z) := by
  simp [covered]

theorem hvCount_append_le (lo : Pt) (S T : List Pt) (r : Pt) :
    hvCount lo (S ++ T) r ≤ hvCount lo S r + hvCount lo T r := by
  unfold hvCount
  have := countP_or_add_and (cells lo r) (covered S) (covered T)
  have h2 : (cells lo r).countP (covered (S ++ T)) =
      (cells lo r).countP (fun z => covered S z || covered T z) :=
    List.countP_congr fun z _ => by rw [covered_append]
  omega

/-! ### B. invariance theorems -/

theorem pmin_left_comm : ∀ (a b c : Pt), pmin a (pmin b c) = pmin b (pmin a c)
  | [], b, c => by cases b <;> cases c <;> simp [pmin]
  | _ :: _, [], _ => by simp [pmin]
  | _ :: _, _ :: _, [] => by simp [pmin]
  | x :: a, y :: b, z :: c => by
    simp only [pmin, List.cons.injEq]
    exact ⟨by omega, pmin_left_comm a b c⟩

theorem lower_perm {S T : List Pt} (h : S.Perm T) (r : Pt) : lower S r = lower T r := by
  induction h with
  | nil => rfl
  | cons x _ ih => simp only [lower_cons, ih]
  | swap x y l => simp only [lower_cons]; exact pmin_left_comm y x _
  | trans _ _ ih1 ih2 => rw [ih1, ih2]

theorem covered_perm {S T : List Pt} (h : S.Perm T) (z : Pt) : covered S z = covered T z :=
  h.any_eq

theorem hvSpec_perm {S T : List Pt} {r : Pt} (h : S.Perm T) : hvSpec S r = hvSpec T r := by
  unfold hvSpec
  rw [lower_perm h]
  exact hvCount_congr fun z _ => by rw [covered_perm h]

/-- `q` is absorbed by a smaller point already in the fold -/
theorem pmin_absorb : ∀ {p q : Pt} (x : Pt), leAll p q = true → pmin q (pmin p x) = pmin p x
  | [], [], x, _ => by simp [pmin]
  | a :: p, b :: q, [], _ => by simp [pmin]
  | a :: p, b :: q, c :: x, h => by
    simp only [leAll, Bool.and_eq_true, decide_eq_true_eq] at h
    simp only [pmin, List.cons.injEq]
    exact ⟨by omega, pmin_absorb x h.2⟩
  | [], _ :: _, _, h => by simp [leAll] at h
  | _ :: _, [], _, h => by simp [leAll] at h

theorem hvSpec_add_dominated {S : List Pt} {p q r : Pt} (hp : p ∈ S) (hpq : leAll p q = true) :
    hvSpec (q :: S) r = hvSpec S r := by
  unfold hvSpec
  have hl : lower (q :: S) r = lower S r := by
    rw [lower_cons, lower_perm (List.perm_cons_erase hp) r, lower_cons]
    exact pmin_absorb _ hpq
  rw [hl]
  apply hvCount_congr
  intro z _
  rw [covered_cons]
  constructor
  · intro h
    rcases Bool.or_eq_true _ _ ▸ h with h | h
    · exact covered_iff.mpr ⟨p, hp, leAll_trans hpq h⟩
    · exact h
  · intro h; simp [h]

theorem hvSpec_add_duplicate {S : List Pt} {p r : Pt} (hp : p ∈ S) :
    hvSpec (p :: S) r = hvSpec S r :=
  hvSpec_add_dominated hp (leAll_refl p)

/-- insertion of a weakly dominated point at an arbitrary position -/
theorem hvSpec_insert_dominated {S₁ S₂ : List Pt} {p q r : Pt} (hp : p ∈ S₁ ++ S₂)
    (hpq : leAll p q = true) : hvSpec (S₁ ++ q :: S₂) r = hvSpec (S₁ ++ S₂) r := by
  rw [hvSpec_perm (List.perm_middle (a := q) (l₁ := S₁) (l₂ := S₂))]
  exact hvSpec_add_dominated hp hpq

/-- a common lower corner for two point sets of the same dimension -/
theorem common_lower {m : Nat} {S T : List Pt} {r : Pt} (hr : r.length = m)
    (hS : ∀ p ∈ S, p.length = m) (hT : ∀ p ∈ T, p.length = m) :
    hvSpec S r = hvCount (lower (S ++ T) r) S r ∧ hvSpec T r = hvCount (lower (S ++ T) r) T r ∧
    hvSpec (S ++ T) r = hvCount (lower (S ++ T) r) (S ++ T) r := by
  have h := lower_le (S := S ++ T) hr (by
    intro p hp
    rcases List.mem_append.mp hp with hp | hp
    · exact hS p hp
    · exact hT p hp)
  exact ⟨hvSpec_eq_hvCount h.1 fun p hp => h.2 p (List.mem_append_left _ hp),
    hvSpec_eq_hvCount h.1 fun p hp => h.2 p (List.mem_append_right _ hp), rfl⟩

theorem hvSpec_mono {m : Nat} {S T : List Pt} {r : Pt} (hr : r.length = m)
    (hT : ∀ q ∈ T, q.length = m) (h : ∀ p ∈ S, ∃ q ∈ T, leAll q p = true) :
    hvSpec S r ≤ hvSpec T r := by
  have hS : ∀ p ∈ S, p.length = m := by
    intro p hp
    obtain ⟨q, hq, hqp⟩ := h p hp
    rw [← leAll_length hqp]; exact hT q hq
  obtain ⟨h1, h2, _⟩ := common_lower hr hS hT
  rw [h1, h2]
  exact hvCount_mono h

theorem hvSpec_mono_subset {m : Nat} {S T : List Pt} {r : Pt} (hr : r.length = m)
    (hT : ∀ q ∈ T, q.length = m) (h : ∀ p ∈ S, p ∈ T) : hvSpec S r ≤ hvSpec T r :=
  hvSpec_mono hr hT fun p hp => ⟨p, h p hp, leAll_refl p⟩

theorem hvSpec_union_le_of_dim {m : Nat} {S T : List Pt} {r : Pt} (hr : r.length = m)
    (hS : ∀ p ∈ S, p.length = m) (hT : ∀ q ∈ T, q.length = m) :
    hvSpec (S ++ T) r ≤ hvSpec S r + hvSpec T r := by
  obtain ⟨h1, h2, h3⟩ := common_lower hr hS hT
  rw [h1, h2, h3]
  exact hvCount_append_le _ _ _ _

/-! #### point sets of mixed dimension

`hvSpec S r` is `0` as soon as `S` contains a point shorter than `r`; otherwise
only the points of dimension `r.length` matter. -/

/-- `≤` on the common prefix (`a` not longer than `b`) -/
def leP : Pt → Pt → Prop
  | [], _ => True
  | a :: as, b :: bs => a ≤ b ∧ leP as bs
  | _ :: _, [] => False

theorem leP_length : ∀ {a b : Pt}, leP a b → a.length ≤ b.length
  | [], _, _ => by simp
  | x :: a, y :: b, h => by have := leP_length h.2; simp; omega
  | _ :: _, [], h => by simp [leP] at h

theorem leP_trans : ∀ {a b c : Pt}, leP a b → leP b c → leP a c
  | [], _, _, _, _ => trivial
  | x :: a, y :: b, z :: c, h1, h2 => ⟨Int.le_trans h1.1 h2.1, leP_trans h1.2 h2.2⟩
  | _ :: _, [], _, h1, _ => by simp [leP] at h1
  | _ :: _, _ :: _, [], _, h2 => by simp [leP] at h2

theorem leP_refl : ∀ a : Pt, leP a a
  | [] => trivial
  | x :: a => ⟨Int.le_refl x, leP_refl a⟩

theorem leP_pmin_left : ∀ (a b : Pt), leP (pmin a b) a
  | [], _ => trivial
  | _ :: _, [] => trivial
  | x :: a, y :: b => ⟨by omega, leP_pmin_left a b⟩

theorem leP_pmin_right : ∀ (a b : Pt), leP (pmin a b) b
  | [], _ => trivial
  | _ :: _, [] => trivial
  | x :: a, y :: b => ⟨by omega, leP_pmin_right a b⟩

theorem leAll_of_leP : ∀ {a b : Pt}, leP a b → a.length = b.length → leAll a b = true
  | [], [], _, _ => rfl
  | x :: a, y :: b, h, hl => by
    simp only [leAll, Bool.and_eq_true, decide_eq_true_eq]
    exact ⟨h.1, leAll_of_leP h.2 (by simpa using hl)⟩
  | [], _ :: _, _, hl => by simp at hl
  | _ :: _, [], _, hl => by simp at hl

theorem lower_leP (S : List Pt) (r : Pt) : leP (lower S r) r ∧ ∀ p ∈ S, leP (lower S r) p := by
  induction S with
  | nil => exact ⟨leP_refl r, by simp⟩
  | cons s S ih =>
    rw [lower_cons]
    refine ⟨leP_trans (leP_pmin_right _ _) ih.1, ?_⟩
    intro p hp
    rcases List.mem_cons.mp hp with rfl | hp
    · exact leP_pmin_left _ _
    · exact leP_trans (leP_pmin_right _ _) (ih.2 p hp)

theorem length_pmin : ∀ (a b : Pt), (pmin a b).length = min a.length b.length
  | [], _ => by simp [pmin]
  | _ :: _, [] => by simp [pmin]
  | x :: a, y :: b => by simp [pmin, length_pmin a b] <;> omega

theorem length_lower {S : List Pt} {r : Pt} (h : ∀ p ∈ S, r.length ≤ p.length) :
    (lower S r).length = r.length := by
  induction S with
  | nil => rfl
  | cons s S ih =>
    rw [lower_cons, length_pmin, ih fun p hp => h p (List.mem_cons_of_mem _ hp)]
    have := h s List.mem_cons_self
    omega

theorem cells_of_length_ne {lo hi : Pt} (h : lo.length ≠ hi.length) : cells lo hi = [] := by
  rw [List.eq_nil_iff_forall_not_mem]
  intro z hz
  have := inBox_length (mem_cells.mp hz)
  omega

/-- a point of too small dimension destroys the enclosing box -/
theorem hvSpec_of_short {S : List Pt} {r : Pt} (h : ∃ p ∈ S, p.length < r.length) : hvSpec S r = 0 := by
  obtain ⟨p, hp, hlt⟩ := h
  have := leP_length ((lower_leP S r).2 p hp)
  unfold hvSpec hvCount
  rw [cells_of_length_ne (by omega)]
  rfl

/-- the points of dimension `r.length` -/
def ofDim (S : List Pt) (r : Pt) : List Pt := S.filter fun p => p.length == r.length

theorem mem_ofDim {S : List Pt} {r p : Pt} : p ∈ ofDim S r ↔ p ∈ S ∧ p.length = r.length := by
  simp [ofDim, List.mem_filter]

theorem hvSpec_ofDim {S : List Pt} {r : Pt} (h : ∀ p ∈ S, r.length ≤ p.length) :
    hvSpec S r = hvSpec (ofDim S r) r := by
  have hlen := length_lower h
  have hP := lower_leP S r
  have e : hvSpec (ofDim S r) r = hvCount (lower S r) (ofDim S r) r := by
    apply hvSpec_eq_hvCount (leAll_of_leP hP.1 hlen)
    intro p hp
    obtain ⟨hpS, hpl⟩ := mem_ofDim.mp hp
    exact leAll_of_leP (hP.2 p hpS) (by rw [hlen, hpl])
  rw [e]
  unfold hvSpec
  apply hvCount_congr
  intro z hz
  simp only [covered_iff]
  constructor
  · rintro ⟨p, hp, hpz⟩
    exact ⟨p, mem_ofDim.mpr ⟨hp, by rw [leAll_length hpz, ← leAll_length hz, hlen]⟩, hpz⟩
  · rintro ⟨p, hp, hpz⟩
    exact ⟨p, (mem_ofDim.mp hp).1, hpz⟩

/-- monotonicity for point sets of mixed dimension -/
theorem hvSpec_mono' {S T : List Pt} {r : Pt}
    (hshort : (∃ q ∈ T, q.length < r.length) → ∃ p ∈ S, p.length < r.length)
    (h : ∀ p ∈ S, p.length = r.length → ∃ q ∈ T, leAll q p = true) :
    hvSpec S r ≤ hvSpec T r := by
  by_cases hs : ∃ p ∈ S, p.length < r.length
  · rw [hvSpec_of_short hs]; exact Nat.zero_le _
  · have hS : ∀ p ∈ S, r.length ≤ p.length := fun p hp => by
      have : ¬ p.length < r.length := fun hlt => hs ⟨p, hp, hlt⟩
      omega
    have hT : ∀ q ∈ T, r.length ≤ q.length := fun q hq => by
      have : ¬ q.length < r.length := fun hlt => hs (hshort ⟨q, hq, hlt⟩)
      omega
    rw [hvSpec_ofDim hS, hvSpec_ofDim hT]
    apply hvSpec_mono rfl (fun q hq => (mem_ofDim.mp hq).2)
    intro p hp
    obtain ⟨hpS, hpl⟩ := mem_ofDim.mp hp
    obtain ⟨q, hq, hqp⟩ := h p hpS hpl
    exact ⟨q, mem_ofDim.mpr ⟨hq, by rw [leAll_length hqp, hpl]⟩, hqp⟩

/-- monotonicity; `T` must not contain a point of smaller dimension than `r` -/
theorem hvSpec_mono_of_le_length {S T : List Pt} {r : Pt} (hT : ∀ q ∈ T, r.length ≤ q.length)
    (h : ∀ p ∈ S, ∃ q ∈ T, leAll q p = true) : hvSpec S r ≤ hvSpec T r :=
  hvSpec_mono' (fun ⟨q, hq, hlt⟩ => absurd (hT q hq) (by omega)) fun p hp _ => h p hp

theorem hvSpec_union_le {S T : List Pt} {r : Pt} :
    hvSpec (S ++ T) r ≤ hvSpec S r + hvSpec T r := by
  by_cases hs : ∃ p ∈ S ++ T, p.length < r.length
  · rw [hvSpec_of_short hs]; exact Nat.zero_le _
  · have hST : ∀ p ∈ S ++ T, r.length ≤ p.length := fun p hp => by
      have : ¬ p.length < r.length := fun hlt => hs ⟨p, hp, hlt⟩
      omega
    rw [hvSpec_ofDim hST, hvSpec_ofDim fun p hp => hST p (List.mem_append_left _ hp),
      hvSpec_ofDim fun p hp => hST p (List.mem_append_right _ hp)]
    have : ofDim (S ++ T) r = ofDim S r ++ ofDim T r := by simp [ofDim, List.filter_append]
    rw [this]
    exact hvSpec_union_le_of_dim rfl (fun p hp => (mem_ofDim.mp hp).2) (fun p hp => (mem_ofDim.mp hp).2)

theorem mem_nonDominated {S : List Pt} {q : Pt} :
    q ∈ nonDominated S ↔ q ∈ S ∧ ∀ s ∈ S, dominates s q = false := by
  simp [nonDominated, List.mem_filter]

/-- every point is weakly dominated by a non-dominated point of the same set -/
theorem exists_nonDominated_le (S : List Pt) :
    ∀ (n : Nat) (p : Pt), p ∈ S → S.countP (fun s => dominates s p) ≤ n →
      ∃ q ∈ nonDominated S, leAll q p = true
  | n, p, hp, hn => by
    by_cases hd : ∃ s ∈ S, dominates s p = true
    · obtain ⟨s, hs, hsp⟩ := hd
      have hlt : S.countP (fun x => dominates x s) < S.countP (fun x => dominates x p) :=
        countP_lt_of_imp S (fun x => dominates x s) (fun x => dominates x p)
          (fun x hx => dominates_trans hx hsp) s hs hsp (by simp [dominates_irrefl])
      match n with
      | 0 => omega
      | n + 1 =>
        obtain ⟨q, hq, hqs⟩ := exists_nonDominated_le S n s hs (by omega)
        have hsp' : leAll s p = true := by
          simp only [dominates, Bool.and_eq_true] at hsp
          exact hsp.1
        exact ⟨q, hq, leAll_trans hqs hsp'⟩
    · refine ⟨p, mem_nonDominated.mpr ⟨hp, ?_⟩, leAll_refl p⟩
      intro s hs
      cases h : dominates s p with
      | false => rfl
      | true => exact absurd ⟨s, hs, h⟩ hd

theorem hvSpec_nonDominated {S : List Pt} {r : Pt} : hvSpec (nonDominated S) r = hvSpec S r := by
  have hsub : ∀ p ∈ nonDominated S, p ∈ S := fun p hp => (mem_nonDominated.mp hp).1
  have hex : ∀ p ∈ S, ∃ q ∈ nonDominated S, leAll q p = true :=
    fun p hp => exists_nonDominated_le S _ p hp (Nat.le_refl _)
  apply Nat.le_antisymm
  · apply hvSpec_mono'
    · rintro ⟨p, hp, hlt⟩
      obtain ⟨q, hq, hqp⟩ := hex p hp
      exact ⟨q, hq, by rw [leAll_length hqp]; exact hlt⟩
    · exact fun p hp _ => ⟨p, hsub p hp, leAll_refl p⟩
  · apply hvSpec_mono'
    · rintro ⟨p, hp, hlt⟩
      exact ⟨p, hsub p hp, hlt⟩
    · exact fun p hp _ => hex p hp

/-! ### C. inclusion–exclusion and WFG -/

theorem leAll_pmax : ∀ {p s z : Pt}, p.length = s.length →
    (leAll (pmax p s) z = true ↔ leAll p z = true ∧ leAll s z = true)
  | [], [], z, _ => by cases z <;> simp [pmax, leAll]
  | a :: p, b :: s, [], _ => by simp [pmax, leAll]
  | a :: p, b :: s, c :: z, h => by
    have ih := leAll_pmax (p := p) (s := s) (z := z) (by simpa using h)
    simp only [pmax, leAll, Bool.and_eq_true, decide_eq_true_eq, ih]
    constructor
    · rintro ⟨h1, h2, h3⟩; exact ⟨⟨by omega, h2⟩, by omega, h3⟩
    · rintro ⟨⟨h1, h2⟩, h3, h4⟩; exact ⟨by omega, h2, h4⟩
  | [], _ :: _, _, h => by simp at h
  | _ :: _, [], _, h => by simp at h

theorem leAll_pmax_left {p s : Pt} (h : p.length = s.length) : leAll p (pmax p s) = true :=
  ((leAll_pmax h).mp (leAll_refl _)).1

theorem leAll_pmax_le {p s r : Pt} (hp : leAll p r = true) (hs : leAll s r = true) :
    leAll (pmax p s) r = true :=
  (leAll_pmax (by rw [leAll_length hp, leAll_length hs])).mpr ⟨hp, hs⟩

theorem covered_map_pmax {p : Pt} {S : List Pt} (hS : ∀ s ∈ S, s.length = p.length) (z : Pt) :
    covered (S.map (pmax p)) z = true ↔ (leAll p z = true ∧ covered S z = true) := by
  simp only [covered_iff, List.mem_map]
  constructor
  · rintro ⟨q, ⟨s, hs, rfl⟩, hq⟩
    have := (leAll_pmax (hS s hs).symm).mp hq
    exact ⟨this.1, s, hs, this.2⟩
  · rintro ⟨hp, s, hs, hsz⟩
    exact ⟨pmax p s, ⟨s, hs, rfl⟩, (leAll_pmax (hS s hs).symm).mpr ⟨hp, hsz⟩⟩

/-- the number of cells of any enclosing box that lie above `p` is the box volume of `p` -/
theorem countP_leAll_cells {lo p r : Pt} (hlo : leAll lo p = true) (hpr : leAll p r = true) :
    (((cells lo r).countP fun z => leAll p z : Nat) : Int) = boxVol p r := by
  rw [← length_cells_self hpr]
  congr 1
  have : (cells p r).length = (cells p r).countP fun _ => true := by simp
  rw [this]
  apply countP_eq_of_nodup (nodup_cells _ _) (nodup_cells _ _)
  intro z
  simp only [mem_cells, and_true]
  constructor
  · rintro ⟨hb, hz⟩; exact inBox_of_leAll hb hz
  · intro hb; exact ⟨inBox_weaken hb hlo, inBox_leAll hb⟩

theorem hvCount_cons {lo p r : Pt} {S : List Pt} (hlo : leAll lo p = true) (hpr : leAll p r = true)
    (hS : ∀ s ∈ S, s.length = p.length) :
    ((hvCount lo (p :: S) r : Nat) : Int) =
      hvCount lo S r + boxVol p r - hvCount lo (S.map (pmax p)) r := by
  unfold hvCount
  have h1 : (cells lo r).countP (covered (p :: S)) =
      (cells lo r).countP (fun z => leAll p z || covered S z) :=
    List.countP_congr fun z _ => by rw [covered_cons]
  have h2 : (cells lo r).countP (covered (S.map (pmax p))) =
      (cells lo r).countP (fun z => leAll p z && covered S z) :=
    List.countP_congr fun z _ => by rw [covered_map_pmax hS z]; simp
  have h3 := countP_leAll_cells hlo hpr
  have h4 := countP_or_add_and (cells lo r) (fun z => leAll p z) (covered S)
  rw [h1, h2]
  omega

theorem hvSpec_cons {m : Nat} {p r : Pt} {S : List Pt} (hpr : leAll p r = true) (hr : r.length = m)
    (hS : ∀ s ∈ S, s.length = m) :
    ((hvSpec (p :: S) r : Nat) : Int) =
      hvSpec S r + boxVol p r - hvSpec (S.map (pmax p)) r := by
  have hpm : p.length = m := by rw [leAll_length hpr, hr]
  have hl := lower_le (S := p :: S) hr (by
    intro q hq
    rcases List.mem_cons.mp hq with rfl | hq
    · exact hpm
    · exact hS q hq)
  have hlp := hl.2 p List.mem_cons_self
  have e1 : hvSpec S r = hvCount (lower (p :: S) r) S r :=
    hvSpec_eq_hvCount hl.1 fun s hs => hl.2 s (List.mem_cons_of_mem _ hs)
  have e2 : hvSpec (S.map (pmax p)) r = hvCount (lower (p :: S) r) (S.map (pmax p)) r := by
    apply hvSpec_eq_hvCount hl.1
    intro q hq
    obtain ⟨s, hs, rfl⟩ := List.mem_map.mp hq
    exact leAll_trans hlp (leAll_pmax_left (by rw [hpm, hS s hs]))
  rw [e1, e2]
  exact hvCount_cons hlp hpr fun s hs => by rw [hS s hs, hpm]

theorem hvCount_nil (lo r : Pt) : hvCount lo [] r = 0 := by
  simp [hvCount, covered]

theorem hvSpec_nil (r : Pt) : hvSpec [] r = 0 := hvCount_nil _ _

theorem hvSpec_singleton {p r : Pt} (hpr : leAll p r = true) : ((hvSpec [p] r : Nat) : Int) = boxVol p r := by
  have := hvSpec_cons (S := []) hpr rfl (by simp)
  simp only [List.map_nil, hvSpec_nil] at this
  omega

theorem hvSpec_pair {p q r : Pt} (hpr : leAll p r = true) (hqr : leAll q r = true) :
    ((hvSpec [p, q] r : Nat) : Int) = boxVol p r + boxVol q r - boxVol (pmax p q) r := by
  have h1 := hvSpec_cons (S := [q]) hpr rfl (by
    intro s hs; simp only [List.mem_singleton] at hs; subst hs; exact leAll_length hqr)
  have h2 := hvSpec_singleton hqr
  have h3 := hvSpec_singleton (leAll_pmax_le hpr hqr)
  simp only [List.map_cons, List.map_nil] at h1
  omega

theorem mem_limitSet {ord : Reorder} {S : List Pt} {p q : Pt} (h : q ∈ limitSet ord S p) :
    ∃ s ∈ S, q = pmax p s := by
  unfold limitSet at h
  have h' := ((ord.perm _).mem_iff).mp h
  obtain ⟨s, hs, rfl⟩ := List.mem_map.mp (mem_nonDominated.mp h').1
  exact ⟨s, hs, rfl⟩

theorem hvSpec_limitSet {ord : Reorder} {S : List Pt} {p r : Pt} :
    hvSpec (limitSet ord S p) r = hvSpec (S.map (pmax p)) r := by
  unfold limitSet
  rw [hvSpec_perm (ord.perm _)]
  exact hvSpec_nonDominated

theorem wfg_wfgSum_eq_spec (ord : Reorder) (r : Pt) :
    ∀ (n : Nat) (S : List Pt), S.length ≤ n → (∀ p ∈ S, leAll p r = true) →
      wfg ord r S = (hvSpec S r : Int) ∧ wfgSum ord r S = (hvSpec S r : Int)
  | 0, S, hn, _ => by
    have : S = [] := List.length_eq_zero_iff.mp (by omega)
    subst this
    rw [wfg, wfgSum, hvSpec_nil]; simp
  | n + 1, S, hn, hS => by
    have hsum : wfgSum ord r S = (hvSpec S r : Int) := by
      match S, hn, hS with
      | [], _, _ => rw [wfgSum, hvSpec_nil]; rfl
      | p :: rest, hn, hS =>
        have hpr := hS p List.mem_cons_self
        have hrest : ∀ s ∈ rest, leAll s r = true := fun s hs => hS s (List.mem_cons_of_mem _ hs)
        have hlen : rest.length ≤ n := by simpa using hn
        have ih1 := (wfg_wfgSum_eq_spec ord r n (limitSet ord rest p)
          (Nat.le_trans (limitSet_length_le ord rest p) hlen) (by
            intro q hq
            obtain ⟨s, hs, rfl⟩ := mem_limitSet hq
            exact leAll_pmax_le hpr (hrest s hs))).1
        have ih2 := (wfg_wfgSum_eq_spec ord r n rest hlen hrest).2
        have hc := hvSpec_cons (S := rest) hpr rfl fun s hs => leAll_length (hrest s hs)
        rw [wfgSum, ih1, ih2, hvSpec_limitSet]
        omega
    refine ⟨?_, hsum⟩
    match S, hS, hsum with
    | [], _, _ => rw [wfg, hvSpec_nil]; rfl
    | [p], hS, _ => rw [wfg, hvSpec_singleton (hS p (by simp))]
    | [p, q], hS, _ => rw [wfg, hvSpec_pair (hS p (by simp)) (hS q (by simp))]
    | p :: q :: s :: rest, _, hsum => rw [wfg, hsum]

theorem wfg_eq_spec (ord : Reorder) (r : Pt) (S : List Pt) (hS : ∀ p ∈ S, leAll p r = true) :
    wfg ord r S = (hvSpec S r : Int) :=
  (wfg_wfgSum_eq_spec ord r S.length S (Nat.le_refl _) hS).1

theorem wfgSum_eq_spec (ord : Reorder) (r : Pt) (S : List Pt) (hS : ∀ p ∈ S, leAll p r = true) :
    wfgSum ord r S = (hvSpec S r : Int) :=
  (wfg_wfgSum_eq_spec ord r S.length S (Nat.le_refl _) hS).2

theorem hvWfg_eq_spec (S : List Pt) (r : Pt) (hS : ∀ p ∈ S, leAll p r = true) :
    hvWfg S r = (hvSpec S r : Int) := by
  unfold hvWfg
  rw [wfg_eq_spec sortDesc r _ fun p hp => hS p (((sortDesc.perm S).mem_iff).mp hp),
    hvSpec_perm (sortDesc.perm S)]

/-! ### D. the 2-D sweep -/

theorem eq_pair : ∀ {p : Pt}, p.length = 2 → p = [px p, py p]
  | [a, b], _ => by simp [px, py]
  | [], h => by simp at h
  | [_], h => by simp at h
  | _ :: _ :: _ :: _, h => by simp at h

theorem leAll_2d {s z : Pt} (hs : s.length = 2) (hz : z.length = 2) :
    leAll s z = true ↔ px s ≤ px z ∧ py s ≤ py z := by
  rw [eq_pair hs, eq_pair hz]
  simp [leAll, px, py]

theorem mem_cells_2d {a b c d : Int} {z : Pt} :
    z ∈ cells [a, b] [c, d] ↔ z.length = 2 ∧ a ≤ px z ∧ px z < c ∧ b ≤ py z ∧ py z < d := by
  rw [mem_cells]
  match z with
  | [] => simp [inBox]
  | [_] => simp [inBox]
  | [x, y] => simp [inBox, px, py]
  | _ :: _ :: _ :: _ => simp [inBox]

/-- invariant of the integration loop: with reference point `(r0, last)` the
remaining (key-sorted) points dominate exactly `sweep2d r0 last L` cells -/
theorem sweep2d_eq_hvCount (r0 : Int) (lo : Pt) :
    ∀ (L : List Pt) (last : Int), L.Pairwise (fun a b => px a ≤ px b) →
      (∀ p ∈ L, p.length = 2) → (∀ p ∈ L, px p ≤ r0) → (∀ p ∈ L, leAll lo p = true) →
      sweep2d r0 last L = (hvCount lo L [r0, last] : Int)
  | [], last, _, _, _, _ => by
    simp [sweep2d, hvCount_nil]
  | p :: rest, last, hsort, hlen, hx, hlo => by
    have hsort' := List.pairwise_cons.mp hsort
    have hlen' : ∀ s ∈ rest, s.length = 2 := fun s hs => hlen s (List.mem_cons_of_mem _ hs)
    have hp2 := hlen p List.mem_cons_self
    have hlop := hlo p List.mem_cons_self
    have hlo2 : lo.length = 2 := by rw [leAll_length hlop, hp2]
    have hpx := hx p List.mem_cons_self
    have hab := (leAll_2d hlo2 hp2).mp hlop
    have ih := fun last' => sweep2d_eq_hvCount r0 lo rest last' hsort'.2 hlen'
      (fun s hs => hx s (List.mem_cons_of_mem _ hs)) (fun s hs => hlo s (List.mem_cons_of_mem _ hs))
    -- coverage by a point of `rest` forces `px p ≤ px z`
    have hcov : ∀ z : Pt, z.length = 2 → covered rest z = true → px p ≤ px z := by
      intro z hz hc
      obtain ⟨s, hs, hsz⟩ := covered_iff.mp hc
      have := (leAll_2d (hlen' s hs) hz).mp hsz
      have := hsort'.1 s hs
      omega
    rw [sweep2d]
    split
    · rename_i hgt
      rw [ih (py p)]
      have hbox : ((cells p [r0, last]).length : Int) = (r0 - px p) * (last - py p) := by
        have hpl : leAll p [r0, last] = true :=
          (leAll_2d (z := [r0, last]) hp2 rfl).mpr ⟨hpx, by show py p ≤ last; omega⟩
        rw [length_cells_self hpl]
        conv => lhs; rw [eq_pair hp2]
        simp [boxVol]
      rw [← hbox]
      have hcnt : (cells p [r0, last]).length = (cells p [r0, last]).countP fun _ => true := by simp
      rw [hcnt]
      unfold hvCount
      rw [← Int.natCast_add]
      congr 1
      symm
      apply countP_eq_add_of_nodup (nodup_cells _ _) (nodup_cells _ _) (nodup_cells _ _)
      · intro z
        rw [eq_pair hlo2]
        conv => rhs; lhs; rw [eq_pair hp2]
        simp only [mem_cells_2d, covered_cons, Bool.or_eq_true, and_true]
        constructor
        · rintro ⟨⟨hz, h1, h2, h3, h4⟩, hc⟩
          by_cases hy : py p ≤ py z
          · left
            refine ⟨hz, ?_, h2, hy, h4⟩
            rcases hc with hc | hc
            · exact ((leAll_2d hp2 hz).mp hc).1
            · exact hcov z hz hc
          · right
            refine ⟨⟨hz, h1, h2, h3, by omega⟩, ?_⟩
            rcases hc with hc | hc
            · exact absurd ((leAll_2d hp2 hz).mp hc).2 hy
            · exact hc
        · rintro (⟨hz, h1, h2, h3, h4⟩ | ⟨⟨hz, h1, h2, h3, h4⟩, hc⟩)
          · exact ⟨⟨hz, by omega, h2, by omega, h4⟩, Or.inl ((leAll_2d hp2 hz).mpr ⟨h1, h3⟩)⟩
          · exact ⟨⟨hz, h1, h2, h3, by omega⟩, Or.inr hc⟩
      · intro z
        rw [eq_pair hlo2]
        conv => lhs; rw [eq_pair hp2]
        simp only [mem_cells_2d]
        rintro ⟨⟨_, _, _, h3, _⟩, _⟩ ⟨⟨_, _, _, _, h4⟩, _⟩
        omega
    · rename_i hgt
      rw [ih last]
      congr 1
      unfold hvCount
      apply List.countP_congr
      intro z hz
      rw [eq_pair hlo2, mem_cells_2d] at hz
      rw [covered_cons, Bool.or_eq_true]
      constructor
      · intro h; exact Or.inr h
      · rintro (h | h)
        · have := ((leAll_2d hp2 hz.1).mp h).2
          omega
        · exact h

theorem hv2dSorted_eq_sweep {L : List Pt} {r : Pt} (h : ∀ p ∈ L, py p ≤ py r) :
    hv2dSorted L r = sweep2d (px r) (py r) L := by
  match L, h with
  | [], _ => simp [hv2dSorted, sweep2d]
  | p :: rest, h =>
    have hp := h p List.mem_cons_self
    rw [hv2dSorted, sweep2d]
    split
    · rfl
    · have e : py p = py r := by omega
      rw [e]; simp

theorem hv2dSorted_eq_spec {L : List Pt} {r : Pt} (hsort : L.Pairwise (fun a b => px a ≤ px b))
    (hL : ∀ p ∈ L, p.length = 2) (hr : r.length = 2) (hle : ∀ p ∈ L, leAll p r = true) :
    hv2dSorted L r = (hvSpec L r : Int) := by
  have hl := lower_le hr hL
  rw [hv2dSorted_eq_sweep fun p hp => ((leAll_2d (hL p hp) hr).mp (hle p hp)).2]
  rw [sweep2d_eq_hvCount (px r) (lower L r) L (py r) hsort hL
    (fun p hp => ((leAll_2d (hL p hp) hr).mp (hle p hp)).1) hl.2]
  rw [← eq_pair hr]
  rfl

theorem pairwise_sortByKey (S : List Pt) : (sortByKey S).Pairwise (fun a b => px a ≤ px b) := by
  unfold sortByKey
  have := List.pairwise_mergeSort (le := fun a b : Pt => decide (px a ≤ px b))
    (by intro a b c; simp only [decide_eq_true_eq]; omega)
    (by intro a b; simp only [Bool.or_eq_true, decide_eq_true_eq]; omega) S
  exact this.imp (by simp)

theorem hv2d_eq_spec {S : List Pt} {r : Pt} (hS : ∀ p ∈ S, p.length = 2) (hr : r.length = 2)
    (hle : ∀ p ∈ S, leAll p r = true) : hv2d S r = (hvSpec S r : Int) := by
  have hperm : (sortByKey S).Perm S := List.mergeSort_perm S _
  unfold hv2d
  rw [hv2dSorted_eq_spec (pairwise_sortByKey S) (fun p hp => hS p (hperm.mem_iff.mp hp)) hr
    (fun p hp => hle p (hperm.mem_iff.mp hp)), hvSpec_perm hperm]

end SharkVerif.HV
