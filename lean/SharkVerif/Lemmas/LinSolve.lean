/-
Helper lemmas for C02 (Model/LinSolve.lean): tabulation, finite sums,
forward/back substitution.
-/
import SharkVerif.Model.LinSolve
import Mathlib.Algebra.BigOperators.Intervals
import Mathlib.Algebra.BigOperators.Ring.Finset
import Mathlib.Algebra.Order.Field.Rat
import Mathlib.Tactic.Ring
import Mathlib.Tactic.FieldSimp
import Mathlib.Tactic.Linarith

namespace SharkVerif.LinSolve
open Finset

/-! ### sums -/

theorem sum_eq_finset (n : Nat) (f : Nat → Rat) : sum n f = ∑ k ∈ range n, f k := by
  induction n with
  | zero => simp [sum]
  | succ k ih => rw [sum, ih, Finset.sum_range_succ]

theorem sum_congr {n : Nat} {f g : Nat → Rat} (h : ∀ k, k < n → f k = g k) : sum n f = sum n g := by
  rw [sum_eq_finset, sum_eq_finset]
  exact Finset.sum_congr rfl fun k hk => h k (Finset.mem_range.mp hk)

theorem sum_zero' {n : Nat} {f : Nat → Rat} (h : ∀ k, k < n → f k = 0) : sum n f = 0 := by
  rw [sum_eq_finset]; exact Finset.sum_eq_zero fun k hk => h k (Finset.mem_range.mp hk)

/-- a sum whose terms vanish beyond `i` -/
theorem sum_lower {n i : Nat} {f : Nat → Rat} (hi : i < n) (h : ∀ k, i < k → k < n → f k = 0) :
    sum n f = sum i f + f i := by
  induction n with
  | zero => omega
  | succ m ih =>
    rw [sum]
    by_cases hm : i = m
    · subst hm; rfl
    · have him : i < m := by omega
      rw [ih him (fun k h1 h2 => h k h1 (by omega)), h m him (by omega)]; ring

theorem sum_reflect (n : Nat) (f : Nat → Rat) : sum n (fun k => f (rev n k)) = sum n f := by
  rw [sum_eq_finset, sum_eq_finset]; exact Finset.sum_range_reflect f n

theorem sum_mul_right (n : Nat) (f : Nat → Rat) (c : Rat) : sum n (fun k => f k * c) = sum n f * c := by
  rw [sum_eq_finset, sum_eq_finset, Finset.sum_mul]

theorem sum_mul_left (n : Nat) (f : Nat → Rat) (c : Rat) : sum n (fun k => c * f k) = c * sum n f := by
  rw [sum_eq_finset, sum_eq_finset, Finset.mul_sum]

theorem sum_add (n : Nat) (f g : Nat → Rat) : sum n (fun k => f k + g k) = sum n f + sum n g := by
  rw [sum_eq_finset, sum_eq_finset, sum_eq_finset, Finset.sum_add_distrib]

theorem sum_sub (n : Nat) (f g : Nat → Rat) : sum n (fun k => f k - g k) = sum n f - sum n g := by
  rw [sum_eq_finset, sum_eq_finset, sum_eq_finset, Finset.sum_sub_distrib]

theorem sum_comm (n m : Nat) (f : Nat → Nat → Rat) :
    sum n (fun i => sum m (fun j => f i j)) = sum m (fun j => sum n (fun i => f i j)) := by
  simp only [sum_eq_finset]; exact Finset.sum_comm

/-- `Σ_k [k = i] * c k` -/
theorem sum_single {n i : Nat} (hi : i < n) (f : Nat → Rat) (h : ∀ k, k < n → k ≠ i → f k = 0) :
    sum n f = f i := by
  rw [sum_eq_finset]
  exact Finset.sum_eq_single i (fun k hk hne => h k (Finset.mem_range.mp hk) hne)
    (fun hni => absurd (Finset.mem_range.mpr hi) hni)

/-! ### arrays -/

@[simp] theorem vget_vecOf (n : Nat) (f : Vec) (i : Nat) : vget (vecOf n f) i = if i < n then f i else 0 := by
  unfold vget vecOf
  simp only [Array.getD_eq_getD_getElem?, Array.getElem?_ofFn]
  split <;> rfl

@[simp] theorem mget_matOf (n m : Nat) (f : Mat) (i j : Nat) :
    mget (matOf n m f) i j = if i < n ∧ j < m then f i j else 0 := by
  unfold mget matOf
  simp only [Array.getD_eq_getD_getElem?, Array.getElem?_ofFn]
  by_cases hi : i < n
  · by_cases hj : j < m
    · simp [hi, hj]
    · simp [hi, hj]
  · simp [hi]

theorem size_tab {α : Type} [Inhabited α] (g : Nat → (Nat → α) → α) (n : Nat) : (tab n g).size = n := by
  induction n with
  | zero => rfl
  | succ k ih => simp [tab, ih]

theorem getD_push {α : Type} (a : Array α) (x d : α) (i : Nat) :
    (a.push x).getD i d = if i = a.size then x else a.getD i d := by
  simp only [Array.getD_eq_getD_getElem?, Array.getElem?_push]
  split <;> simp

/-- entry `i` of a tabulation is `g i` applied to the tabulation of the first `i` entries -/
theorem getD_tab {α : Type} [Inhabited α] (g : Nat → (Nat → α) → α) :
    ∀ n i, i < n → (tab n g).getD i default = g i (fun j => (tab i g).getD j default) := by
  intro n
  induction n with
  | zero => intro i hi; omega
  | succ k ih =>
    intro i hi
    have ht : tab (k + 1) g = (tab k g).push (g k (fun j => (tab k g).getD j default)) := rfl
    rw [ht, getD_push, size_tab]
    by_cases hik : i = k
    · subst hik; simp
    · rw [if_neg hik]; exact ih i (by omega)

/-- prefix stability -/
theorem getD_tab_prefix {α : Type} [Inhabited α] (g : Nat → (Nat → α) → α) {n m i : Nat}
    (hn : i < n) (hm : i < m) : (tab n g).getD i default = (tab m g).getD i default := by
  rw [getD_tab g n i hn, getD_tab g m i hm]

/-- if `g i` only looks at entries before `i`, the tabulation satisfies the recurrence -/
theorem getD_tab_rec {α : Type} [Inhabited α] (g : Nat → (Nat → α) → α)
    (hg : ∀ i (x y : Nat → α), (∀ j, j < i → x j = y j) → g i x = g i y)
    {n i : Nat} (hi : i < n) :
    (tab n g).getD i default = g i (fun j => (tab n g).getD j default) := by
  rw [getD_tab g n i hi]
  apply hg
  intro j hj
  exact getD_tab_prefix g hj (by omega)

/-! ### forward / back substitution -/

/-- the divisor of row `i` -/
def diagOf (unit : Bool) (L : Mat) (i : Nat) : Rat := if unit then 1 else L i i

theorem fwd_rec (unit : Bool) (n : Nat) (L : Mat) (b : Vec) {i : Nat} (hi : i < n) :
    fwd unit n L b i = (b i - sum i (fun j => L i j * fwd unit n L b j)) / diagOf unit L i := by
  unfold fwd vget fwdArr
  have h := getD_tab_rec (α := Rat)
    (fun i x => let s := b i - sum i (fun j => L i j * x j); if unit then s else s / L i i)
    (by
      intro i x y hxy
      have : sum i (fun j => L i j * x j) = sum i (fun j => L i j * y j) :=
        sum_congr fun j hj => by rw [hxy j hj]
      simp only [this]) hi
  have hd : (default : Rat) = 0 := rfl
  rw [hd] at h
  rw [h]
  cases unit <;> simp [diagOf]

/-- forward substitution solves the lower-triangular system -/
theorem fwd_correct (unit : Bool) (n : Nat) (L : Mat) (b : Vec)
    (hd : ∀ i, i < n → diagOf unit L i ≠ 0) {i : Nat} (hi : i < n) :
    sum i (fun j => L i j * fwd unit n L b j) + diagOf unit L i * fwd unit n L b i = b i := by
  rw [fwd_rec unit n L b hi]
  have := hd i hi
  field_simp
  ring

theorem rev_rev {n i : Nat} (hi : i < n) : rev n (rev n i) = i := by unfold rev; omega
theorem rev_lt {n i : Nat} (hi : i < n) : rev n i < n := by unfold rev; omega

theorem triPart_lower_mulVec (unit : Bool) (n : Nat) (L : Mat) (x : Vec) {i : Nat} (hi : i < n) :
    mulVec n (triPart ⟨false, unit⟩ L) x i = sum i (fun j => L i j * x j) + diagOf unit L i * x i := by
  unfold mulVec
  rw [sum_lower hi]
  · congr 1
    · apply sum_congr; intro k hk
      have : i ≠ k := by omega
      simp [triPart, this, hk]
    · simp [triPart, diagOf]
  · intro k h1 _
    have : i ≠ k := by omega
    have h2 : ¬ k < i := by omega
    simp [triPart, this, h2]

theorem trsvLeft_lower_correct (unit : Bool) (n : Nat) (A : Mat) (b : Vec)
    (hd : ∀ i, i < n → diagOf unit A i ≠ 0) {i : Nat} (hi : i < n) :
    mulVec n (triPart ⟨false, unit⟩ A) (fwd unit n A b) i = b i := by
  rw [triPart_lower_mulVec unit n A _ hi]; exact fwd_correct unit n A b hd hi

theorem triPart_upper_rev (unit : Bool) (n : Nat) (U : Mat) {i j : Nat} (hi : i < n) (hj : j < n) :
    triPart ⟨true, unit⟩ U i (rev n j) = triPart ⟨false, unit⟩ (fun a c => U (rev n a) (rev n c)) (rev n i) j := by
  have e1 : (i = rev n j) ↔ (rev n i = j) := by unfold rev; omega
  have e2 : (i < rev n j) ↔ (j < rev n i) := by unfold rev; omega
  have e3 := rev_rev hi
  unfold triPart
  simp only [e3, Bool.false_eq_true, if_false, if_true]
  by_cases h1 : i = rev n j
  · rw [if_pos h1, if_pos (e1.mp h1)]
  · rw [if_neg h1, if_neg (fun h => h1 (e1.mpr h))]
    by_cases h3 : i < rev n j
    · rw [if_pos h3, if_pos (e2.mp h3)]
    · rw [if_neg h3, if_neg (fun h => h3 (e2.mpr h))]

theorem trsvLeft_upper_correct (unit : Bool) (n : Nat) (A : Mat) (b : Vec)
    (hd : ∀ i, i < n → diagOf unit A i ≠ 0) {i : Nat} (hi : i < n) :
    mulVec n (triPart ⟨true, unit⟩ A) (bwd unit n A b) i = b i := by
  unfold mulVec
  rw [← sum_reflect]
  set A' : Mat := fun a c => A (rev n a) (rev n c) with hA'
  set b' : Vec := fun a => b (rev n a) with hb'
  have key := trsvLeft_lower_correct unit n A' b'
    (by
      intro k hk
      have := hd (rev n k) (rev_lt hk)
      simpa [diagOf, hA'] using this) (rev_lt hi)
  unfold mulVec at key
  rw [show b i = b' (rev n i) by simp [hb', rev_rev hi], ← key]
  apply sum_congr
  intro k hk
  rw [triPart_upper_rev unit n A hi hk]
  congr 1
  unfold bwd bwdArr fwd
  rw [rev_rev hk]

/-! ### `trsv` / `trsm` with tags and sides -/

/-- no diagonal entry that is divided by is zero -/
def Regular (t : Tri) (n : Nat) (A : Mat) : Prop := t.unit = false → ∀ i, i < n → A i i ≠ 0

theorem regular_iff_not_singular (t : Tri) (n : Nat) (A : Mat) :
    Regular t n A ↔ triSingular t n A = false := by
  unfold Regular triSingular
  cases t.unit <;> simp

theorem Regular.diag {t : Tri} {n : Nat} {A : Mat} (h : Regular t n A) :
    ∀ i, i < n → diagOf t.unit A i ≠ 0 := by
  intro i hi
  unfold diagOf
  cases hu : t.unit
  · simpa using h hu i hi
  · simp

theorem vget_trsvLeftArr (t : Tri) (n : Nat) (A : Mat) (b : Vec) {i : Nat} (hi : i < n) :
    vget (trsvLeftArr t n A b) i = if t.upper then bwd t.unit n A b i else fwd t.unit n A b i := by
  unfold trsvLeftArr
  cases t.upper
  · simp [fwd]
  · simp [hi, bwd]

theorem trsvLeft_correct (t : Tri) (n : Nat) (A : Mat) (b : Vec) (h : Regular t n A) {i : Nat} (hi : i < n) :
    mulVec n (triPart t A) (fun k => vget (trsvLeftArr t n A b) k) i = b i := by
  have hx : mulVec n (triPart t A) (fun k => vget (trsvLeftArr t n A b) k) i
      = mulVec n (triPart t A) (if t.upper then bwd t.unit n A b else fwd t.unit n A b) i := by
    unfold mulVec
    apply sum_congr; intro k hk
    show triPart t A i k * vget (trsvLeftArr t n A b) k = _
    rw [vget_trsvLeftArr t n A b hk]
    cases t.upper <;> rfl
  rw [hx]
  obtain ⟨up, un⟩ := t
  cases up
  · exact trsvLeft_lower_correct un n A b h.diag hi
  · exact trsvLeft_upper_correct un n A b h.diag hi

theorem triPart_transposed (t : Tri) (A : Mat) (j k : Nat) :
    triPart t.transposed (transpose A) j k = triPart t A k j := by
  unfold triPart Tri.transposed transpose
  by_cases h : j = k
  · subst h; simp
  · have h' : ¬ k = j := fun e => h e.symm
    simp only [h, h', if_false]
    cases t.upper <;> simp

theorem Regular.transposed {t : Tri} {n : Nat} {A : Mat} (h : Regular t n A) :
    Regular t.transposed n (transpose A) := by
  intro hu i hi
  exact h hu i hi

end SharkVerif.LinSolve
