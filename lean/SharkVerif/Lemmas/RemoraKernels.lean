/-
Lemmas about the blocked kernel models of `Model/RemoraKernels.lean`: every blocked loop nest
computes the element-wise definition, for all sizes and all (positive) block constants.
-/
import SharkVerif.Lemmas.Remora
import SharkVerif.Model.RemoraKernels
import Mathlib.Tactic.Ring
import Mathlib.Tactic.SplitIfs
namespace SharkVerif.Remora

/-! ## one-dimensional blocking: every index below `n` lies in exactly one block -/

/-- membership of index `a` in block `b` of a range of `n` elements cut into blocks of `bs`
(the last block has `min bs (n - b*bs)` elements) -/
def inBlock (n bs b a : Nat) : Prop := b * bs ≤ a ∧ a < b * bs + min bs (n - b * bs)

instance (n bs b a : Nat) : Decidable (inBlock n bs b a) := by unfold inBlock; exact inferInstance

theorem inBlock_iff {n bs b a : Nat} (hbs : 0 < bs) : inBlock n bs b a ↔ (a < n ∧ b = a / bs) := by
  unfold inBlock
  constructor
  · rintro ⟨h1, h2⟩
    have hlt : a < b * bs + bs := lt_of_lt_of_le h2 (Nat.add_le_add_left (Nat.min_le_left _ _) _)
    have hn : a < n := by
      have := Nat.min_le_right bs (n - b * bs)
      omega
    refine ⟨hn, ?_⟩
    have : a / bs = b := Nat.div_eq_of_lt_le h1 (by rw [Nat.succ_mul]; exact hlt)
    exact this.symm
  · rintro ⟨hn, rfl⟩
    have h1 : a / bs * bs ≤ a := Nat.div_mul_le_self a bs
    have h2 : a < a / bs * bs + bs := by
      have hdm := Nat.div_add_mod a bs
      have := Nat.mod_lt a hbs
      rw [Nat.mul_comm bs (a / bs)] at hdm
      omega
    refine ⟨h1, ?_⟩
    rcases Nat.le_total bs (n - a / bs * bs) with h | h
    · rw [Nat.min_eq_left h]; exact h2
    · rw [Nat.min_eq_right h]; omega

theorem div_lt_nBlocks {n bs a : Nat} (hbs : 0 < bs) (h : a < n) : a / bs < nBlocks n bs := by
  unfold nBlocks
  rw [Nat.div_lt_iff_lt_mul hbs]
  have h1 : n + bs - 1 < ((n + bs - 1) / bs + 1) * bs := by
    have hdm := Nat.div_add_mod (n + bs - 1) bs
    have := Nat.mod_lt (n + bs - 1) hbs
    rw [Nat.mul_comm bs ((n + bs - 1) / bs)] at hdm
    rw [Nat.succ_mul]
    omega
  have h2 : ((n + bs - 1) / bs + 1) * bs = (n + bs - 1) / bs * bs + bs := Nat.succ_mul _ _
  omega

/-- the offset of `a` inside its block -/
theorem sub_block_start (a bs : Nat) : a - a / bs * bs = a % bs := by
  have := Nat.div_add_mod a bs
  rw [Nat.mul_comm] at this
  omega

section Sums
variable {R : Type} [CommRing R]

/-- a sum over blocks of terms that are non-zero only for the block containing `a` -/
theorem sumTo_select_block (n bs : Nat) (hbs : 0 < bs) (x : Nat → R) (a : Nat) :
    sumTo (nBlocks n bs) (fun b => if inBlock n bs b a then x b else 0) = if a < n then x (a / bs) else 0 := by
  by_cases ha : a < n
  · rw [if_pos ha]
    have : ∀ b, b < nBlocks n bs → (if inBlock n bs b a then x b else 0) = (if b = a / bs then x b else 0) := by
      intro b _
      have := @inBlock_iff n bs b a hbs
      by_cases hb : b = a / bs
      · rw [if_pos (this.mpr ⟨ha, hb⟩), if_pos hb]
      · rw [if_neg (fun h => hb (this.mp h).2), if_neg hb]
    rw [sumTo_congr rfl this]
    exact sumTo_single' _ _ (div_lt_nBlocks hbs ha) x
  · rw [if_neg ha]
    have : ∀ b, b < nBlocks n bs → (if inBlock n bs b a then x b else 0) = (0 : R) := by
      intro b _
      rw [if_neg (fun h => ha ((inBlock_iff hbs).mp h).1)]
    rw [sumTo_congr rfl this, sumTo_zero]

/-- a loop over `range n` whose every step adds a delta accumulates the sum of the deltas -/
theorem foldl_range_delta (n : Nat) (step : Nat → (Nat → Nat → R) → (Nat → Nat → R))
    (d : Nat → Nat → Nat → R)
    (h : ∀ b, b < n → ∀ C i j, step b C i j = C i j + d b i j) (C : Nat → Nat → R) (i j : Nat) :
    ((List.range n).foldl (fun C b => step b C) C) i j = C i j + sumTo n (fun b => d b i j) := by
  induction n with
  | zero => simp [sumTo]
  | succ n ih =>
    rw [List.range_succ, List.foldl_append]
    simp only [List.foldl_cons, List.foldl_nil]
    rw [h n (Nat.lt_succ_self n), ih (fun b hb => h b (Nat.lt_succ_of_lt hb))]
    simp only [sumTo]; ring

theorem sumTo_ite_const (n : Nat) (c : Prop) [Decidable c] (f : Nat → R) :
    sumTo n (fun b => if c then f b else 0) = if c then sumTo n f else 0 := by
  by_cases h : c
  · simp [h]
  · simp [h, sumTo_zero]

end Sums

/-! ## loops that update every element at most once -/

/-- a loop over blocks `b < n` whose step `b` rewrites exactly the elements of block `b`
(`inb b`, pairwise disjoint) by `u`: afterwards an element is rewritten iff its block was visited -/
theorem foldl_range_once {α : Type} (n : Nat) (step : Nat → (Nat → Nat → α) → (Nat → Nat → α))
    (inb : Nat → Nat → Nat → Prop) [∀ b i j, Decidable (inb b i j)] (u : α → Nat → Nat → α)
    (hdisj : ∀ b b' i j, inb b i j → inb b' i j → b = b')
    (h : ∀ b, b < n → ∀ m i j, step b m i j = if inb b i j then u (m i j) i j else m i j)
    (m : Nat → Nat → α) (i j : Nat) :
    ((List.range n).foldl (fun m b => step b m) m) i j =
      if ∃ b, b < n ∧ inb b i j then u (m i j) i j else m i j := by
  induction n with
  | zero => simp
  | succ n ih =>
    rw [List.range_succ, List.foldl_append]
    simp only [List.foldl_cons, List.foldl_nil]
    rw [h n (Nat.lt_succ_self n), ih (fun b hb => h b (Nat.lt_succ_of_lt hb))]
    by_cases hn : inb n i j
    · have hno : ¬ ∃ b, b < n ∧ inb b i j := by
        rintro ⟨b, hb, hbi⟩
        have := hdisj b n i j hbi hn
        omega
      rw [if_pos hn, if_neg hno, if_pos ⟨n, Nat.lt_succ_self n, hn⟩]
    · rw [if_neg hn]
      by_cases hex : ∃ b, b < n ∧ inb b i j
      · obtain ⟨b, hb, hbi⟩ := hex
        rw [if_pos ⟨b, hb, hbi⟩, if_pos ⟨b, Nat.lt_succ_of_lt hb, hbi⟩]
      · have : ¬ ∃ b, b < n + 1 ∧ inb b i j := by
          rintro ⟨b, hb, hbi⟩
          rcases Nat.lt_succ_iff_lt_or_eq.mp hb with h' | h'
          · exact hex ⟨b, h', hbi⟩
          · subst h'; exact hn hbi
        rw [if_neg hex, if_neg this]

/-! ## block gemm: packing, micro and macro kernel, the three blocked loops -/
section Gemm
variable {R : Type} [CommRing R]

theorem sumTo_select_block2 (n1 bs1 n2 bs2 : Nat) (h1 : 0 < bs1) (h2 : 0 < bs2) (x : Nat → Nat → R)
    (a b : Nat) :
    sumTo (nBlocks n2 bs2) (fun q => sumTo (nBlocks n1 bs1) (fun p =>
        if inBlock n1 bs1 p a ∧ inBlock n2 bs2 q b then x p q else 0))
      = if a < n1 ∧ b < n2 then x (a / bs1) (b / bs2) else 0 := by
  have e1 : ∀ q, sumTo (nBlocks n1 bs1) (fun p =>
        if inBlock n1 bs1 p a ∧ inBlock n2 bs2 q b then x p q else 0)
      = if inBlock n2 bs2 q b then (if a < n1 then x (a / bs1) q else 0) else 0 := by
    intro q
    rw [← sumTo_select_block n1 bs1 h1 (fun p => x p q) a, ← sumTo_ite_const]
    apply sumTo_congr rfl
    intro p _
    by_cases hA : inBlock n1 bs1 p a <;> by_cases hB : inBlock n2 bs2 q b <;> simp [hA, hB]
  rw [sumTo_congr rfl (fun q _ => e1 q)]
  rw [sumTo_select_block n2 bs2 h2 (fun q => if a < n1 then x (a / bs1) q else 0) b]
  by_cases hA : a < n1 <;> by_cases hB : b < n2 <;> simp [hA, hB]

/-- the cell of the packed `A` buffer that holds row `s*MR + r`, column `l` -/
theorem packA_at (A : Nat → Nat → R) (mc kc MR : Nat) (s l r : Nat) (hl : l < kc) (hr : r < MR) :
    packA A mc kc MR (s * kc * MR + (l * MR + r)) = if s * MR + r < mc then A (s * MR + r) l else 0 := by
  have hMR : 0 < MR := by omega
  have hlt : l * MR + r < kc * MR := by
    have : (l + 1) * MR ≤ kc * MR := Nat.mul_le_mul_right MR hl
    rw [Nat.succ_mul] at this; omega
  have hpos : 0 < kc * MR := by omega
  have hnu : s * kc * MR + (l * MR + r) = (l * MR + r) + (kc * MR) * s := by
    rw [Nat.mul_assoc, Nat.mul_comm s (kc * MR)]; omega
  have hd : (s * kc * MR + (l * MR + r)) / (kc * MR) = s := by
    rw [hnu, Nat.add_mul_div_left _ _ hpos, Nat.div_eq_of_lt hlt]; omega
  have hm : (s * kc * MR + (l * MR + r)) % (kc * MR) = l * MR + r := by
    rw [hnu, Nat.add_mul_mod_self_left, Nat.mod_eq_of_lt hlt]
  have hd2 : (l * MR + r) / MR = l := by
    rw [Nat.add_comm, Nat.mul_comm, Nat.add_mul_div_left _ _ hMR, Nat.div_eq_of_lt hr]; omega
  have hm2 : (l * MR + r) % MR = r := by
    rw [Nat.add_comm, Nat.mul_comm, Nat.add_mul_mod_self_left, Nat.mod_eq_of_lt hr]
  simp only [packA, hd, hm, hd2, hm2]

theorem packB_at (B : Nat → Nat → R) (kc nc NR : Nat) (s l r : Nat) (hl : l < kc) (hr : r < NR) :
    packB B kc nc NR (s * kc * NR + (l * NR + r)) = if s * NR + r < nc then B l (s * NR + r) else 0 := by
  have hNR : 0 < NR := by omega
  have hlt : l * NR + r < kc * NR := by
    have : (l + 1) * NR ≤ kc * NR := Nat.mul_le_mul_right NR hl
    rw [Nat.succ_mul] at this; omega
  have hpos : 0 < kc * NR := by omega
  have hnu : s * kc * NR + (l * NR + r) = (l * NR + r) + (kc * NR) * s := by
    rw [Nat.mul_assoc, Nat.mul_comm s (kc * NR)]; omega
  have hd : (s * kc * NR + (l * NR + r)) / (kc * NR) = s := by
    rw [hnu, Nat.add_mul_div_left _ _ hpos, Nat.div_eq_of_lt hlt]; omega
  have hm : (s * kc * NR + (l * NR + r)) % (kc * NR) = l * NR + r := by
    rw [hnu, Nat.add_mul_mod_self_left, Nat.mod_eq_of_lt hlt]
  have hd2 : (l * NR + r) / NR = l := by
    rw [Nat.add_comm, Nat.mul_comm, Nat.add_mul_div_left _ _ hNR, Nat.div_eq_of_lt hr]; omega
  have hm2 : (l * NR + r) % NR = r := by
    rw [Nat.add_comm, Nat.mul_comm, Nat.add_mul_mod_self_left, Nat.mod_eq_of_lt hr]
  simp only [packB, hd, hm, hd2, hm2]

variable [DecidableEq R]

theorem ugemm_eq (kc MR NR : Nat) (alpha : R) (A B : Nat → R) (i j : Nat) :
    ugemm kc MR NR alpha A B i j = alpha * sumTo kc (fun l => A (l * MR + i) * B (l * NR + j)) := by
  unfold ugemm
  by_cases h : alpha = 1
  · simp [h]
  · simp only [if_neg h]; ring

omit [DecidableEq R] in
theorem blockAdd_delta (C : Nat → Nat → R) (r0 c0 mr nr : Nat) (P : Nat → Nat → R) (i j : Nat) :
    blockAdd C r0 c0 mr nr P i j =
      C i j + (if (r0 ≤ i ∧ i < r0 + mr) ∧ (c0 ≤ j ∧ j < c0 + nr) then P (i - r0) (j - c0) else 0) := by
  unfold blockAdd
  split_ifs <;> simp

/-- **the macro kernel**: `mgemm` adds to the `mc × nc` tile of `C` at `(r0,c0)` the product of the
packed operands (stripe `a/MR`, offset `a%MR` of `A`; stripe `b/NR`, offset `b%NR` of `B`), and
touches nothing else — for every `MR, NR > 0` and all `mc, nc, kc` -/
theorem mgemm_spec (mc nc kc MR NR : Nat) (hMR : 0 < MR) (hNR : 0 < NR) (alpha : R) (A B : Nat → R)
    (r0 c0 : Nat) (C : Nat → Nat → R) (i j : Nat) :
    mgemm mc nc kc MR NR alpha A B r0 c0 C i j = C i j +
      (if r0 ≤ i ∧ c0 ≤ j then
        (if i - r0 < mc ∧ j - c0 < nc then
          alpha * sumTo kc (fun l => A ((i - r0) / MR * kc * MR + (l * MR + (i - r0) % MR)) *
                                    B ((j - c0) / NR * kc * NR + (l * NR + (j - c0) % NR)))
         else 0) else 0) := by
  unfold mgemm
  -- the delta of micro tile (ip, jp)
  let U : Nat → Nat → Nat → Nat → R := fun ip jp =>
    ugemm kc MR NR alpha (fun t => A (ip * kc * MR + t)) (fun t => B (jp * kc * NR + t))
  let dd : Nat → Nat → Nat → Nat → R := fun jp ip i j =>
    if r0 ≤ i ∧ c0 ≤ j then
      (if inBlock mc MR ip (i - r0) ∧ inBlock nc NR jp (j - c0) then
        U ip jp (i - (r0 + ip * MR)) (j - (c0 + jp * NR)) else 0) else 0
  rw [foldl_range_delta (nBlocks nc NR) _ (fun jp i j => sumTo (nBlocks mc MR) (fun ip => dd jp ip i j))]
  · congr 1
    show sumTo (nBlocks nc NR) (fun jp => sumTo (nBlocks mc MR) (fun ip => dd jp ip i j)) = _
    simp only [dd]
    simp only [sumTo_ite_const]
    by_cases h0 : r0 ≤ i ∧ c0 ≤ j
    · simp only [if_pos h0]
      rw [sumTo_select_block2 mc MR nc NR hMR hNR
        (fun ip jp => U ip jp (i - (r0 + ip * MR)) (j - (c0 + jp * NR))) (i - r0) (j - c0)]
      by_cases h1 : i - r0 < mc ∧ j - c0 < nc
      · simp only [if_pos h1, U, ugemm_eq]
        have ha : i - (r0 + (i - r0) / MR * MR) = (i - r0) % MR := by
          rw [← sub_block_start (i - r0) MR]; omega
        have hb : j - (c0 + (j - c0) / NR * NR) = (j - c0) % NR := by
          rw [← sub_block_start (j - c0) NR]; omega
        rw [ha, hb]
      · simp only [if_neg h1]
    · simp only [if_neg h0]
  · intro jp _ C i j
    rw [foldl_range_delta (nBlocks mc MR) _ (fun ip i j => dd jp ip i j)]
    intro ip _ C i j
    have hsame : (if min MR (mc - ip * MR) = MR ∧ min NR (nc - jp * NR) = NR
        then blockAdd C (r0 + ip * MR) (c0 + jp * NR) MR NR (U ip jp)
        else blockAdd C (r0 + ip * MR) (c0 + jp * NR) (min MR (mc - ip * MR)) (min NR (nc - jp * NR)) (U ip jp))
        = blockAdd C (r0 + ip * MR) (c0 + jp * NR) (min MR (mc - ip * MR)) (min NR (nc - jp * NR)) (U ip jp) := by
      by_cases h : min MR (mc - ip * MR) = MR ∧ min NR (nc - jp * NR) = NR
      · rw [if_pos h, h.1, h.2]
      · rw [if_neg h]
    show (if min MR (mc - ip * MR) = MR ∧ min NR (nc - jp * NR) = NR
        then blockAdd C (r0 + ip * MR) (c0 + jp * NR) MR NR (U ip jp)
        else blockAdd C (r0 + ip * MR) (c0 + jp * NR) (min MR (mc - ip * MR)) (min NR (nc - jp * NR)) (U ip jp)) i j = _
    rw [hsame, blockAdd_delta]
    congr 1
    simp only [dd]
    by_cases hc : (r0 + ip * MR ≤ i ∧ i < r0 + ip * MR + min MR (mc - ip * MR)) ∧
        (c0 + jp * NR ≤ j ∧ j < c0 + jp * NR + min NR (nc - jp * NR))
    · have h0 : r0 ≤ i ∧ c0 ≤ j := by omega
      have h1 : inBlock mc MR ip (i - r0) ∧ inBlock nc NR jp (j - c0) := by
        unfold inBlock; omega
      rw [if_pos hc, if_pos h0, if_pos h1]
    · rw [if_neg hc]
      by_cases h0 : r0 ≤ i ∧ c0 ≤ j
      · have h1 : ¬ (inBlock mc MR ip (i - r0) ∧ inBlock nc NR jp (j - c0)) := by
          unfold inBlock; omega
        rw [if_pos h0, if_neg h1]
      · rw [if_neg h0]

end Gemm

/-! ## tiling of the inner dimension -/
/-- partial sums over full tiles -/
theorem sumTo_tiles {R : Type} [CommRing R] (T : Nat) (f : Nat → R) : ∀ q : Nat,
    sumTo q (fun b => sumTo T (fun k => f (b * T + k))) = sumTo (q * T) f := by
  intro q
  induction q with
  | zero => simp [sumTo]
  | succ q ih =>
    simp only [sumTo, ih]
    rw [Nat.succ_mul, sumTo_append]

/-- tiling the inner dimension of a product into `⌈K/T⌉` tiles that start at
`b*T` and have `min T (K - b*T)` columns gives the defining sum `Σ_{k<K}`, for every tile size
`T > 0` and every `K` (in particular `K` not a multiple of `T`, `K < T`, `K = 0`). -/
theorem sumTiled_eq_sumTo {R : Type} [CommRing R] (T K : Nat) (hT : 0 < T) (f : Nat → R) :
    sumTiled T K f = sumTo K f := by
  unfold sumTiled
  -- K = q*T + r with r < T
  obtain ⟨q, r, hr, rfl⟩ : ∃ q r, r < T ∧ K = q * T + r :=
    ⟨K / T, K % T, Nat.mod_lt _ hT, by rw [Nat.mul_comm]; exact (Nat.div_add_mod K T).symm⟩
  rcases Nat.eq_zero_or_pos r with h0 | hpos
  · subst h0
    have hq : (q * T + 0 + T - 1) / T = q := by
      have : q * T + 0 + T - 1 = T - 1 + T * q := by rw [Nat.mul_comm]; omega
      rw [this, Nat.add_mul_div_left _ _ hT, Nat.div_eq_of_lt (by omega)]; omega
    rw [hq, Nat.add_zero, ← sumTo_tiles T f q]
    apply sumTo_congr rfl
    intro b hb
    have : T ≤ q * T - b * T := by
      rw [← Nat.sub_mul]; exact Nat.le_mul_of_pos_left T (by omega)
    rw [Nat.min_eq_left this]
  · have hq : (q * T + r + T - 1) / T = q + 1 := by
      have : q * T + r + T - 1 = (r - 1) + T * (q + 1) := by rw [Nat.mul_comm q T, Nat.mul_add]; omega
      rw [this, Nat.add_mul_div_left _ _ hT, Nat.div_eq_of_lt (by omega)]; omega
    rw [hq]
    simp only [sumTo]
    rw [sumTo_append, ← sumTo_tiles T f q]
    congr 1
    · apply sumTo_congr rfl
      intro b hb
      have : T ≤ q * T + r - b * T := by
        have : T ≤ q * T - b * T := by
          rw [← Nat.sub_mul]; exact Nat.le_mul_of_pos_left T (by omega)
        omega
      rw [Nat.min_eq_left this]
    · have : q * T + r - q * T = r := by omega
      rw [this, Nat.min_eq_right (by omega)]


/-! ## the three blocked loops of `dense_gemm` -/
section DenseGemm
variable {R : Type} [CommRing R] [DecidableEq R]

/-- **the block gemm computes the product**: for all shapes `M × K`, `K × N` and all positive
`MC, NC, KC, MR, NR` the packed, three-level blocked `dense_gemm` adds `alpha * Σ_k e1(i,k) e2(k,j)`
to every element `(i,j)` of the `M × N` target and leaves every other cell untouched -/
theorem denseGemm_spec (M N K MC NC KC MR NR : Nat) (hMC : 0 < MC) (hNC : 0 < NC) (hKC : 0 < KC)
    (hMR : 0 < MR) (hNR : 0 < NR) (alpha : R) (e1 e2 C : Nat → Nat → R) (i j : Nat) :
    denseGemm M N K MC NC KC MR NR alpha e1 e2 C i j =
      if i < M ∧ j < N then C i j + alpha * sumTo K (fun k => e1 i k * e2 k j) else C i j := by
  unfold denseGemm
  let x : Nat → Nat → Nat → R := fun lb i j =>
    alpha * sumTo (min KC (K - lb * KC)) (fun t => e1 i (lb * KC + t) * e2 (lb * KC + t) j)
  let d3 : Nat → Nat → Nat → Nat → Nat → R := fun jb lb ib i j =>
    if inBlock N NC jb j then (if inBlock M MC ib i then x lb i j else 0) else 0
  rw [foldl_range_delta (nBlocks N NC) _
    (fun jb i j => sumTo (nBlocks K KC) (fun lb => sumTo (nBlocks M MC) (fun ib => d3 jb lb ib i j)))]
  · -- evaluate the triple sum
    have hsum : sumTo (nBlocks N NC) (fun jb => sumTo (nBlocks K KC) (fun lb =>
          sumTo (nBlocks M MC) (fun ib => d3 jb lb ib i j)))
        = if j < N then (if i < M then alpha * sumTo K (fun k => e1 i k * e2 k j) else 0) else 0 := by
      simp only [d3]
      simp only [sumTo_ite_const, sumTo_select_block M MC hMC _ i]
      rw [sumTo_select_block N NC hNC _ j]
      have hS : sumTo (nBlocks K KC) (fun lb => x lb i j) = alpha * sumTo K (fun k => e1 i k * e2 k j) := by
        simp only [x]
        rw [sumTo_mul_left, ← sumTiled_eq_sumTo KC K hKC (fun k => e1 i k * e2 k j)]
        rfl
      rw [hS]
    rw [hsum]
    by_cases hi : i < M <;> by_cases hj : j < N <;> simp [hi, hj]
  · intro jb _ C i j
    rw [foldl_range_delta (nBlocks K KC) _ (fun lb i j => sumTo (nBlocks M MC) (fun ib => d3 jb lb ib i j))]
    intro lb _ C i j
    rw [foldl_range_delta (nBlocks M MC) _ (fun ib i j => d3 jb lb ib i j)]
    intro ib _ C i j
    rw [mgemm_spec _ _ _ MR NR hMR hNR]
    congr 1
    simp only [d3]
    by_cases h0 : ib * MC ≤ i ∧ jb * NC ≤ j
    · rw [if_pos h0]
      by_cases h1 : i - ib * MC < min MC (M - ib * MC) ∧ j - jb * NC < min NC (N - jb * NC)
      · have hB1 : inBlock M MC ib i := by unfold inBlock; omega
        have hB2 : inBlock N NC jb j := by unfold inBlock; omega
        rw [if_pos h1, if_pos hB2, if_pos hB1]
        simp only [x]
        congr 1
        apply sumTo_congr rfl
        intro l hl
        rw [packA_at _ _ _ _ _ _ _ hl (Nat.mod_lt _ hMR), packB_at _ _ _ _ _ _ _ hl (Nat.mod_lt _ hNR)]
        have ea : (i - ib * MC) / MR * MR + (i - ib * MC) % MR = i - ib * MC := Nat.div_add_mod' _ _
        have eb : (j - jb * NC) / NR * NR + (j - jb * NC) % NR = j - jb * NC := Nat.div_add_mod' _ _
        rw [ea, eb, if_pos h1.1, if_pos h1.2]
        have e1' : ib * MC + (i - ib * MC) = i := by omega
        have e2' : jb * NC + (j - jb * NC) = j := by omega
        rw [e1', e2']
      · rw [if_neg h1]
        by_cases hB2 : inBlock N NC jb j
        · have hB1 : ¬ inBlock M MC ib i := by
            unfold inBlock at hB2 ⊢; omega
          rw [if_pos hB2, if_neg hB1]
        · rw [if_neg hB2]
    · rw [if_neg h0]
      by_cases hB2 : inBlock N NC jb j
      · have hB1 : ¬ inBlock M MC ib i := by
          unfold inBlock at hB2 ⊢; omega
        rw [if_pos hB2, if_neg hB1]
      · rw [if_neg hB2]

end DenseGemm

/-! ## the transposing blocked assignment -/
section AssignTrans
variable {R : Type}

theorem inBlock_unique {n bs b b' a : Nat} (hbs : 0 < bs) (h : inBlock n bs b a) (h' : inBlock n bs b' a) :
    b = b' := by
  rw [((inBlock_iff hbs).mp h).2, ((inBlock_iff hbs).mp h').2]

theorem exists_inBlock {n bs a : Nat} (hbs : 0 < bs) : (∃ b, b < nBlocks n bs ∧ inBlock n bs b a) ↔ a < n := by
  constructor
  · rintro ⟨b, _, hb⟩; exact ((inBlock_iff hbs).mp hb).1
  · intro ha; exact ⟨a / bs, div_lt_nBlocks hbs ha, (inBlock_iff hbs).mpr ⟨ha, rfl⟩⟩

/-- **the blocked transposing assignment is the element-wise assignment**: for every block size
`BS > 0` and every shape, each element of the `n1 × n2` target becomes `f(m(i,j), e(i,j))` exactly
once, and nothing else is written -/
theorem assignTransBlocked_spec (f : R → R → R) (BS n1 n2 : Nat) (hBS : 0 < BS) (e m : Nat → Nat → R)
    (i j : Nat) :
    assignTransBlocked f BS n1 n2 e m i j = if i < n1 ∧ j < n2 then f (m i j) (e i j) else m i j := by
  unfold assignTransBlocked
  rw [foldl_range_once (nBlocks n1 BS) _ (fun ib i j => inBlock n1 BS ib i ∧ j < n2) (fun v i j => f v (e i j))]
  · by_cases h : i < n1 ∧ j < n2
    · have : ∃ b, b < nBlocks n1 BS ∧ inBlock n1 BS b i ∧ j < n2 := by
        obtain ⟨b, hb, hbi⟩ := (exists_inBlock hBS).mpr h.1
        exact ⟨b, hb, hbi, h.2⟩
      rw [if_pos this, if_pos h]
    · have : ¬ ∃ b, b < nBlocks n1 BS ∧ inBlock n1 BS b i ∧ j < n2 := by
        rintro ⟨b, hb, hbi, hj⟩
        exact h ⟨(exists_inBlock hBS).mp ⟨b, hb, hbi⟩, hj⟩
      rw [if_neg this, if_neg h]
  · intro b b' i j h h'
    exact inBlock_unique hBS h.1 h'.1
  · intro ib _ m i j
    rw [foldl_range_once (nBlocks n2 BS) _ (fun jb i j => inBlock n1 BS ib i ∧ inBlock n2 BS jb j)
      (fun v i j => f v (e i j))]
    · by_cases h : inBlock n1 BS ib i ∧ j < n2
      · have : ∃ b, b < nBlocks n2 BS ∧ inBlock n1 BS ib i ∧ inBlock n2 BS b j := by
          obtain ⟨b, hb, hbj⟩ := (exists_inBlock hBS).mpr h.2
          exact ⟨b, hb, h.1, hbj⟩
        rw [if_pos this, if_pos h]
      · have : ¬ ∃ b, b < nBlocks n2 BS ∧ inBlock n1 BS ib i ∧ inBlock n2 BS b j := by
          rintro ⟨b, hb, hi, hbj⟩
          exact h ⟨hi, (exists_inBlock hBS).mp ⟨b, hb, hbj⟩⟩
        rw [if_neg this, if_neg h]
    · intro b b' i j h h'
      exact inBlock_unique hBS h.2 h'.2
    · intro jb _ m i j
      show (if (ib * BS ≤ i ∧ i < ib * BS + min BS (n1 - ib * BS)) ∧
              (jb * BS ≤ j ∧ j < jb * BS + min BS (n2 - jb * BS))
            then f (m i j) (e (ib * BS + (i - ib * BS)) (jb * BS + (j - jb * BS))) else m i j) = _
      by_cases h : inBlock n1 BS ib i ∧ inBlock n2 BS jb j
      · have h' : (ib * BS ≤ i ∧ i < ib * BS + min BS (n1 - ib * BS)) ∧
              (jb * BS ≤ j ∧ j < jb * BS + min BS (n2 - jb * BS)) := h
        have e1 : ib * BS + (i - ib * BS) = i := by have := h'.1.1; omega
        have e2 : jb * BS + (j - jb * BS) = j := by have := h'.2.1; omega
        rw [if_pos h', if_pos h, e1, e2]
      · have h' : ¬ ((ib * BS ≤ i ∧ i < ib * BS + min BS (n1 - ib * BS)) ∧
              (jb * BS ≤ j ∧ j < jb * BS + min BS (n2 - jb * BS))) := h
        rw [if_neg h', if_neg h]

end AssignTrans

end SharkVerif.Remora
