/-
Helper lemmas for C08 `shrink_final_sound`: the statement of `shrink_sound` read off the FINAL state of
`shrink(eps)` -- the form in which the independent oracle of `harness/c08.cpp` checks the real code after every
call of `shrink()`.  Start set = the variables the back-to-front loop ran over (`shrinkStart`: all variables when the
call un-shrank first, the formerly active ones otherwise); removed = start set minus the variables active afterwards.
* every variable of the start set still carries its true gradient `lin − K·α` (`Inv` of the final state with `active`
  reset to the size of the start set), so the statement below is about true gradients;
* equality-constrained kind: a removed variable has no feasible first-order ascending two-variable move with ANY other
  variable of the start set (`PairNoAscent`; the partner may have been removed by the same call);
* box kind: a removed variable has no feasible first-order ascending move on its own (`SingleNoAscent`).
-/
import SharkVerif.Lemmas.Shrink
namespace SharkVerif.Smo
open SharkVerif.Qp

/-- no feasible strictly ascending (not even level) first-order move on the pair: `a` up / `b` down has slope
`g a − g b`, `a` down / `b` up has slope `g b − g a` -/
def PairNoAscent (s : RS) (a b : Nat) : Prop :=
  (s.alpha a < s.U a → s.L b < s.alpha b → s.g a < s.g b) ∧
  (s.L a < s.alpha a → s.alpha b < s.U b → s.g b < s.g a)

theorem PairNoAscent.symm {s : RS} {a b : Nat} (h : PairNoAscent s a b) : PairNoAscent s b a :=
  ⟨fun h1 h2 => h.2 h2 h1, fun h1 h2 => h.1 h2 h1⟩

/-- box kind: the variable cannot move in a direction of non-negative slope -/
def SingleNoAscent (s : RS) (a : Nat) : Prop :=
  (s.alpha a < s.U a → s.g a < 0) ∧ (s.L a < s.alpha a → 0 < s.g a)

theorem pair_of_test {s : RS} (h : Inv s) (he : s.eqc = true) {lu sd : Rat} (hB : Bounds s lu sd) {a : Nat}
    (ha : a < s.active) (ht : s.testShrink a lu sd = true) {b : Nat} (hb : b < s.active) : PairNoAscent s a b := by
  have han : a < s.n := Nat.lt_of_lt_of_le ha h.act_le
  have hbn : b < s.n := Nat.lt_of_lt_of_le hb h.act_le
  unfold State.testShrink at ht
  simp only [he, if_true, Bool.or_eq_true, Bool.and_eq_true, decide_eq_true_eq] at ht
  rcases ht with ⟨hlo, hg⟩ | ⟨hup, hg⟩
  · have e := (h.flo a han).1 hlo
    refine ⟨fun _ h2 => ?_, fun h1 _ => absurd h1 (by rw [e]; exact lt_irrefl _)⟩
    have hlb : s.lo b = false := by
      cases hx : s.lo b
      · rfl
      · have := (h.flo b hbn).1 hx; linarith
    have := (hB b hb).2 hlb
    linarith
  · have e := (h.fup a han).1 hup
    refine ⟨fun h1 _ => absurd h1 (by rw [e]; exact lt_irrefl _), fun _ h2 => ?_⟩
    have hub : s.up b = false := by
      cases hx : s.up b
      · rfl
      · have := (h.fup b hbn).1 hx; linarith
    have := (hB b hb).1 hub
    linarith

theorem single_of_test {s : RS} (h : Inv s) (he : s.eqc = false) {lu sd : Rat} {a : Nat}
    (ha : a < s.active) (ht : s.testShrink a lu sd = true) : SingleNoAscent s a := by
  have han : a < s.n := Nat.lt_of_lt_of_le ha h.act_le
  unfold State.testShrink at ht
  simp only [he, Bool.false_eq_true, if_false, Bool.or_eq_true, Bool.and_eq_true, decide_eq_true_eq, lit0] at ht
  rcases ht with ⟨hlo, hg⟩ | ⟨hup, hg⟩
  · have e := (h.flo a han).1 hlo
    refine ⟨fun _ => lt_of_lt_of_le hg (by unfold smin; split <;> linarith),
            fun h1 => absurd h1 (by rw [e]; exact lt_irrefl _)⟩
  · have e := (h.fup a han).1 hup
    refine ⟨fun h1 => absurd h1 (by rw [e]; exact lt_irrefl _),
            fun _ => lt_of_le_of_lt (by unfold smax; split <;> linarith) hg⟩

theorem swapIdx_last (i j : Nat) : swapIdx i j j = i := by
  simp only [swapIdx]; split
  · rename_i e; exact e
  · simp

theorem swapIdx_fix {i j k : Nat} (h1 : k ≠ i) (h2 : k ≠ j) : swapIdx i j k = k := by
  simp [swapIdx, h1, h2]

theorem swapIdx_injective (i j : Nat) {a b : Nat} (h : swapIdx i j a = swapIdx i j b) : a = b := by
  have := congrArg (swapIdx i j) h
  rwa [swapIdx_invol, swapIdx_invol] at this

/-- the loop of `shrink` seen from its final state; `m` = size of the start set -/
theorem shrinkGo_final (lu sd : Rat) (m : Nat) : ∀ (a : Nat) (s : RS), Inv s → s.shrinkOn = true → a ≤ s.active →
    s.active ≤ m → Inv ({ s with active := m } : RS) → Bounds s lu sd →
    (s.eqc = true → ∀ x y, s.active ≤ x → x < m → y < m → y ≠ x → PairNoAscent s x y) →
    (s.eqc = false → ∀ x, s.active ≤ x → x < m → SingleNoAscent s x) →
    (State.shrinkGo lu sd a s).active ≤ m ∧ Inv ({ State.shrinkGo lu sd a s with active := m } : RS) ∧
    (State.shrinkGo lu sd a s).eqc = s.eqc ∧
    (s.eqc = true → ∀ x y, (State.shrinkGo lu sd a s).active ≤ x → x < m → y < m → y ≠ x →
      PairNoAscent (State.shrinkGo lu sd a s) x y) ∧
    (s.eqc = false → ∀ x, (State.shrinkGo lu sd a s).active ≤ x → x < m → SingleNoAscent (State.shrinkGo lu sd a s) x) := by
  intro a
  induction a with
  | zero => intro s _ _ _ hm hM _ hP hS; exact ⟨hm, hM, rfl, hP, hS⟩
  | succ a ih =>
    intro s h hs ha hm hM hB hP hS
    rw [shrinkGo_succ]
    by_cases ht : s.testShrink a lu sd = true
    · rw [if_pos ht]
      have haa : a < s.active := by omega
      have han : a < s.n := by have := h.act_le; omega
      have hln : s.active - 1 < s.n := by have := h.act_le; omega
      have hf : Inv (s.flip a (s.active - 1)) := inv_flip h han hln (by constructor <;> intro <;> omega)
      have hb : (s.flip a (s.active - 1)).alpha (s.active - 1) = (s.flip a (s.active - 1)).L (s.active - 1) ∨
          (s.flip a (s.active - 1)).alpha (s.active - 1) = (s.flip a (s.active - 1)).U (s.active - 1) := by
        simp only [State.flip, swapIdx_last]
        rcases testShrink_bound ht with hl | hu
        · exact Or.inl ((h.flo a han).1 hl)
        · exact Or.inr ((h.fup a han).1 hu)
      have hd := inv_dec_active (t := s.flip a (s.active - 1)) hf (by show 0 < s.active; omega) hs hb
      have hM' : Inv ({ ({ s.flip a (s.active - 1) with active := s.active - 1 } : RS) with active := m } : RS) := by
        show Inv (({ s with active := m } : RS).flip a (s.active - 1))
        exact inv_flip hM han hln ⟨fun _ => (by show s.active - 1 < m; omega), fun _ => (by show a < m; omega)⟩
      have hσm : ∀ k, k < m → swapIdx a (s.active - 1) k < m := fun k hk => swapIdx_lt (by omega) (by omega) hk
      have r := ih ({ s.flip a (s.active - 1) with active := s.active - 1 } : RS) hd hs
        (by show a ≤ s.active - 1; omega) (by show s.active - 1 ≤ m; omega) hM' (bounds_remove hB haa)
        (by
          intro he x y hx hxm hym hyx
          have hx' : s.active - 1 ≤ x := hx
          show PairNoAscent s (swapIdx a (s.active - 1) x) (swapIdx a (s.active - 1) y)
          have hy' : swapIdx a (s.active - 1) y < m := hσm y hym
          by_cases hxl : x = s.active - 1
          · subst hxl
            rw [swapIdx_last]
            have hne : swapIdx a (s.active - 1) y ≠ a := by
              intro e
              apply hyx
              have : swapIdx a (s.active - 1) y = swapIdx a (s.active - 1) (s.active - 1) := by rw [swapIdx_last]; exact e
              exact swapIdx_injective _ _ this
            by_cases hya : swapIdx a (s.active - 1) y < s.active
            · exact pair_of_test h he hB haa ht hya
            · exact (hP he _ a (by omega) hy' (by omega) (Ne.symm hne)).symm
          · have hxa : s.active ≤ x := by omega
            rw [swapIdx_fix (k := x) (by omega) hxl]
            have hne : swapIdx a (s.active - 1) y ≠ x := by
              intro e
              apply hyx
              have : swapIdx a (s.active - 1) y = swapIdx a (s.active - 1) x := by
                rw [swapIdx_fix (k := x) (by omega) hxl]; exact e
              exact swapIdx_injective _ _ this
            exact hP he x _ hxa hxm hy' hne)
        (by
          intro he x hx hxm
          have hx' : s.active - 1 ≤ x := hx
          show SingleNoAscent s (swapIdx a (s.active - 1) x)
          by_cases hxl : x = s.active - 1
          · subst hxl
            rw [swapIdx_last]
            exact single_of_test h he haa ht
          · have hxa : s.active ≤ x := by omega
            rw [swapIdx_fix (k := x) (by omega) hxl]
            exact hS he x hxa hxm)
      exact r
    · rw [if_neg ht]
      exact ih s h hs (by omega) hm hM hB hP hS

/-- size of the start set: all variables when the call un-shrinks first, the active ones otherwise -/
theorem shrinkStart_active (s : RS) (eps : Rat) :
    (shrinkStart s eps).1.active =
      if (!s.unshrinked && decide ((s.maxKKT s.active).1 - (s.maxKKT s.active).2 < (10.0 : Rat) * eps)) = true
      then s.n else s.active := by
  unfold shrinkStart
  dsimp only
  split
  · rw [unshrink_active]; unfold State.unshrink; split <;> rfl
  · rfl

end SharkVerif.Smo
