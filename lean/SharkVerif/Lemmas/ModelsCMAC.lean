/-
C04 (further models): `CMACMap` (src/Models/CMAC.cpp) index arithmetic, for all sizes,
an arbitrary scalar type and an arbitrary `double → size_t` cast `toNat`.

The per-dimension tile numbers are the base-`tiles` digits of the offset inside the block
of tiling `t`.  As long as every tile number is `< tiles`

* `cmac_index_bounds`      : the index lies in the block `[t·tiles^nIn, (t+1)·tiles^nIn)`,
* `cmac_access_in_bounds`  : every accessed position `index + o·perTiling` is inside the
                             parameter vector,
* `cmac_tilings_disjoint`  : different tilings use disjoint blocks,
* `cmac_outputs_disjoint`  : different outputs use disjoint positions,
* `cmac_access_injective`  : the accessed position determines `(o, t)` and all tile numbers,
* `cmac_index_injective`   : different tile numbers in some dimension give different indices.
-/
import Mathlib.Tactic.Ring
import Mathlib.Tactic.Linarith
import SharkVerif.Model.Models2
namespace SharkVerif.Models
open Scalar
variable {α : Type} [Scalar α]

/-! ## base-`T` digit sums -/

/-- `Σ_{i<n} d i · T^i` -/
def digitSum (d : Nat → Nat) (T : Nat) : Nat → Nat
  | 0 => 0
  | n + 1 => digitSum d T n + d n * T ^ n

/-- the `foldl` of `getArrayIndexForTiling` is the start value plus the digit sum -/
theorem foldl_digits (d : Nat → Nat) (T n a : Nat) :
    (List.range n).foldl (fun idx dim => idx + d dim * T ^ dim) a = a + digitSum d T n := by
  induction n with
  | zero => simp [digitSum]
  | succ n ih =>
    rw [List.range_succ, List.foldl_append, ih]
    simp only [List.foldl_cons, List.foldl_nil, digitSum]
    omega

/-- a number with `n` digits `< T` is `< T^n` -/
theorem digitSum_lt (d : Nat → Nat) (T : Nat) :
    ∀ n, (∀ i, i < n → d i < T) → digitSum d T n < T ^ n := by
  intro n
  induction n with
  | zero => intro _; simp [digitSum]
  | succ n ih =>
    intro h
    have hs : digitSum d T n < T ^ n := ih fun i hi => h i (Nat.lt_succ_of_lt hi)
    have hd : d n + 1 ≤ T := h n (Nat.lt_succ_self n)
    have hm : (d n + 1) * T ^ n ≤ T * T ^ n := Nat.mul_le_mul_right _ hd
    have he : (d n + 1) * T ^ n = d n * T ^ n + T ^ n := by ring
    have hp : T ^ (n + 1) = T * T ^ n := by ring
    simp only [digitSum]
    omega

/-- `q·P + r` with `r < P` determines `q` and `r` -/
theorem block_decomp_unique {P q1 q2 r1 r2 : Nat} (h1 : r1 < P) (h2 : r2 < P)
    (h : q1 * P + r1 = q2 * P + r2) : q1 = q2 ∧ r1 = r2 := by
  have hq : q1 = q2 := by
    rcases Nat.lt_trichotomy q1 q2 with hlt | heq | hgt
    · exfalso
      have : (q1 + 1) * P ≤ q2 * P := Nat.mul_le_mul_right _ hlt
      have he : (q1 + 1) * P = q1 * P + P := by ring
      omega
    · exact heq
    · exfalso
      have : (q2 + 1) * P ≤ q1 * P := Nat.mul_le_mul_right _ hgt
      have he : (q2 + 1) * P = q2 * P + P := by ring
      omega
  subst hq
  exact ⟨rfl, by omega⟩

/-- base-`T` digits are unique -/
theorem digitSum_inj (d1 d2 : Nat → Nat) (T : Nat) :
    ∀ n, (∀ i, i < n → d1 i < T) → (∀ i, i < n → d2 i < T) →
      digitSum d1 T n = digitSum d2 T n → ∀ i, i < n → d1 i = d2 i := by
  intro n
  induction n with
  | zero => intro _ _ _ i hi; omega
  | succ n ih =>
    intro h1 h2 he i hi
    have h1' : ∀ i, i < n → d1 i < T := fun i hi => h1 i (Nat.lt_succ_of_lt hi)
    have h2' : ∀ i, i < n → d2 i < T := fun i hi => h2 i (Nat.lt_succ_of_lt hi)
    have hs1 := digitSum_lt d1 T n h1'
    have hs2 := digitSum_lt d2 T n h2'
    simp only [digitSum] at he
    have hu := block_decomp_unique (P := T ^ n) (q1 := d1 n) (q2 := d2 n) hs1 hs2 (by omega)
    rcases Nat.lt_succ_iff_lt_or_eq.mp hi with hlt | heq
    · exact ih h1' h2' hu.2 i hlt
    · rw [heq]; exact hu.1

/-! ## `CMACMap` -/

namespace CMAC

/-- tile number of input `x` in dimension `dim` of tiling `t` (after the `double → size_t` cast) -/
def tileNo (toNat : α → Nat) (m : CMAC α) (t : Nat) (x : Nat → α) (dim : Nat) : Nat :=
  toNat (((x dim - m.lower) - m.offset t) / m.tileWidth)

/-- `getArrayIndexForTiling` = start of block `t` + the number whose base-`tiles` digits are the tile numbers -/
theorem index_eq (toNat : α → Nat) (m : CMAC α) (t : Nat) (x : Nat → α) :
    m.index toNat t x = t * m.tiles ^ m.nIn + digitSum (m.tileNo toNat t x) m.tiles m.nIn :=
  foldl_digits (m.tileNo toNat t x) m.tiles m.nIn (t * m.tiles ^ m.nIn)

end CMAC

/-- 1. the index of tiling `t` lies in block `t` of size `tiles^nIn` -/
theorem cmac_index_bounds (toNat : α → Nat) (m : CMAC α) (t : Nat) (x : Nat → α)
    (hdig : ∀ dim, dim < m.nIn → toNat (((x dim - m.lower) - m.offset t) / m.tileWidth) < m.tiles) :
    t * m.tiles ^ m.nIn ≤ m.index toNat t x ∧ m.index toNat t x < (t + 1) * m.tiles ^ m.nIn := by
  have hs := digitSum_lt (m.tileNo toNat t x) m.tiles m.nIn hdig
  have he : (t + 1) * m.tiles ^ m.nIn = t * m.tiles ^ m.nIn + m.tiles ^ m.nIn := by ring
  rw [CMAC.index_eq]
  omega

/-- the index of a valid tiling is inside the first `perTiling` entries -/
theorem cmac_index_lt_perTiling (toNat : α → Nat) (m : CMAC α) (t : Nat) (x : Nat → α)
    (hdig : ∀ dim, dim < m.nIn → toNat (((x dim - m.lower) - m.offset t) / m.tileWidth) < m.tiles)
    (ht : t < m.tilings) : m.index toNat t x < m.perTiling := by
  have hb := (cmac_index_bounds toNat m t x hdig).2
  have hm : (t + 1) * m.tiles ^ m.nIn ≤ m.tilings * m.tiles ^ m.nIn := Nat.mul_le_mul_right _ ht
  have hp : m.perTiling = m.tilings * m.tiles ^ m.nIn := by unfold CMAC.perTiling; ring
  omega

/-- 2. every parameter access of `eval` / `weightedParameterDerivative` is inside the parameter vector -/
theorem cmac_access_in_bounds (toNat : α → Nat) (m : CMAC α) (t : Nat) (x : Nat → α)
    (hdig : ∀ dim, dim < m.nIn → toNat (((x dim - m.lower) - m.offset t) / m.tileWidth) < m.tiles)
    (ht : t < m.tilings) (o : Nat) (ho : o < m.nOut) :
    m.index toNat t x + o * m.perTiling < m.numberOfParameters := by
  have hi := cmac_index_lt_perTiling toNat m t x hdig ht
  have hm : (o + 1) * m.perTiling ≤ m.nOut * m.perTiling := Nat.mul_le_mul_right _ ho
  have he : (o + 1) * m.perTiling = o * m.perTiling + m.perTiling := by ring
  have hp : m.numberOfParameters = m.nOut * m.perTiling := by unfold CMAC.numberOfParameters; ring
  omega

/-- 3a. different tilings use disjoint blocks of the parameter vector -/
theorem cmac_tilings_disjoint (toNat : α → Nat) (m : CMAC α) (t1 t2 : Nat) (x1 x2 : Nat → α)
    (hdig1 : ∀ dim, dim < m.nIn → toNat (((x1 dim - m.lower) - m.offset t1) / m.tileWidth) < m.tiles)
    (hdig2 : ∀ dim, dim < m.nIn → toNat (((x2 dim - m.lower) - m.offset t2) / m.tileWidth) < m.tiles)
    (hne : t1 ≠ t2) : m.index toNat t1 x1 ≠ m.index toNat t2 x2 := by
  intro h
  rw [CMAC.index_eq, CMAC.index_eq] at h
  exact hne (block_decomp_unique (digitSum_lt _ _ _ hdig1) (digitSum_lt _ _ _ hdig2) h).1

/-- 3b. different outputs access different positions of the parameter vector -/
theorem cmac_outputs_disjoint (toNat : α → Nat) (m : CMAC α) (t1 t2 : Nat) (x1 x2 : Nat → α)
    (hdig1 : ∀ dim, dim < m.nIn → toNat (((x1 dim - m.lower) - m.offset t1) / m.tileWidth) < m.tiles)
    (hdig2 : ∀ dim, dim < m.nIn → toNat (((x2 dim - m.lower) - m.offset t2) / m.tileWidth) < m.tiles)
    (ht1 : t1 < m.tilings) (ht2 : t2 < m.tilings) (o1 o2 : Nat) (hne : o1 ≠ o2) :
    m.index toNat t1 x1 + o1 * m.perTiling ≠ m.index toNat t2 x2 + o2 * m.perTiling := by
  intro h
  have h1 := cmac_index_lt_perTiling toNat m t1 x1 hdig1 ht1
  have h2 := cmac_index_lt_perTiling toNat m t2 x2 hdig2 ht2
  exact hne (block_decomp_unique h1 h2 (by omega)).1

/-- 4a. in the same tiling, equal indices force equal tile numbers in every dimension -/
theorem cmac_index_digits (toNat : α → Nat) (m : CMAC α) (t : Nat) (x1 x2 : Nat → α)
    (hdig1 : ∀ dim, dim < m.nIn → toNat (((x1 dim - m.lower) - m.offset t) / m.tileWidth) < m.tiles)
    (hdig2 : ∀ dim, dim < m.nIn → toNat (((x2 dim - m.lower) - m.offset t) / m.tileWidth) < m.tiles)
    (h : m.index toNat t x1 = m.index toNat t x2) :
    ∀ dim, dim < m.nIn →
      toNat (((x1 dim - m.lower) - m.offset t) / m.tileWidth)
        = toNat (((x2 dim - m.lower) - m.offset t) / m.tileWidth) := by
  rw [CMAC.index_eq, CMAC.index_eq] at h
  exact digitSum_inj (m.tileNo toNat t x1) (m.tileNo toNat t x2) m.tiles m.nIn hdig1 hdig2 (by omega)

/-- 4b. the digit map is injective: inputs whose tile numbers differ in some dimension get
different indices in the same tiling -/
theorem cmac_index_injective (toNat : α → Nat) (m : CMAC α) (t : Nat) (x1 x2 : Nat → α)
    (hdig1 : ∀ dim, dim < m.nIn → toNat (((x1 dim - m.lower) - m.offset t) / m.tileWidth) < m.tiles)
    (hdig2 : ∀ dim, dim < m.nIn → toNat (((x2 dim - m.lower) - m.offset t) / m.tileWidth) < m.tiles)
    (dim : Nat) (hdim : dim < m.nIn)
    (hne : toNat (((x1 dim - m.lower) - m.offset t) / m.tileWidth)
        ≠ toNat (((x2 dim - m.lower) - m.offset t) / m.tileWidth)) :
    m.index toNat t x1 ≠ m.index toNat t x2 :=
  fun h => hne (cmac_index_digits toNat m t x1 x2 hdig1 hdig2 h dim hdim)

/-- 5. the accessed position determines output, tiling and all tile numbers -/
theorem cmac_access_injective (toNat : α → Nat) (m : CMAC α) (t1 t2 : Nat) (x1 x2 : Nat → α)
    (hdig1 : ∀ dim, dim < m.nIn → toNat (((x1 dim - m.lower) - m.offset t1) / m.tileWidth) < m.tiles)
    (hdig2 : ∀ dim, dim < m.nIn → toNat (((x2 dim - m.lower) - m.offset t2) / m.tileWidth) < m.tiles)
    (ht1 : t1 < m.tilings) (ht2 : t2 < m.tilings) (o1 o2 : Nat)
    (h : m.index toNat t1 x1 + o1 * m.perTiling = m.index toNat t2 x2 + o2 * m.perTiling) :
    o1 = o2 ∧ t1 = t2 ∧ ∀ dim, dim < m.nIn →
      toNat (((x1 dim - m.lower) - m.offset t1) / m.tileWidth)
        = toNat (((x2 dim - m.lower) - m.offset t2) / m.tileWidth) := by
  have h1 := cmac_index_lt_perTiling toNat m t1 x1 hdig1 ht1
  have h2 := cmac_index_lt_perTiling toNat m t2 x2 hdig2 ht2
  have hu := block_decomp_unique h1 h2 (show o1 * m.perTiling + _ = o2 * m.perTiling + _ by omega)
  have htt : t1 = t2 := by
    by_contra hne
    exact cmac_tilings_disjoint toNat m t1 t2 x1 x2 hdig1 hdig2 hne hu.2
  subst htt
  exact ⟨hu.1, rfl, cmac_index_digits toNat m t1 x1 x2 hdig1 hdig2 hu.2⟩

/-! ## non-vacuity -/

/-- a concrete map over `Rat`: 2 inputs on `[0,1]`, 3 outputs, 2 tilings, 3 tiles per dimension
(tile width `1/2`), cast `q ↦ ⌊q⌋` -/
def cmacExample : CMAC Rat :=
  { nIn := 2, nOut := 3, tilings := 2, tiles := 3, lower := 0, upper := 1, params := [] }

/-- the input `(1/4, 9/10)` -/
def cmacExampleX : Nat → Rat := fun dim => if dim = 0 then 1 / 4 else 9 / 10

/-- the hypothesis `hdig` holds for both tilings of the concrete map -/
example : ∀ t, t < cmacExample.tilings → ∀ dim, dim < cmacExample.nIn →
    (fun q : Rat => q.floor.toNat)
      (((cmacExampleX dim - cmacExample.lower) - cmacExample.offset t) / cmacExample.tileWidth)
      < cmacExample.tiles := by
  decide +kernel

/-- the indices of the two tilings, and all bounds, evaluated -/
example : cmacExample.index (fun q => q.floor.toNat) 0 cmacExampleX = 6
    ∧ cmacExample.index (fun q => q.floor.toNat) 1 cmacExampleX = 9 + 7
    ∧ cmacExample.perTiling = 18 ∧ cmacExample.numberOfParameters = 54 := by
  decide +kernel

/-- the theorems apply to the concrete map -/
example : cmacExample.index (fun q => q.floor.toNat) 1 cmacExampleX + 2 * cmacExample.perTiling
    < cmacExample.numberOfParameters :=
  cmac_access_in_bounds _ cmacExample 1 cmacExampleX (by decide +kernel) (by decide +kernel) 2 (by decide +kernel)

end SharkVerif.Models
