/-
Helper lemmas for C08 about the T0-generated `solveQuadratic2DBox` (`Gen/Analytic.lean`): the generated
definition is definitionally the "interior Newton point, else best of four edge solutions, else stay"
function written out below (`box2d_unfold`, by `rfl` -- it fails if the C++ changes shape), and neither
branch loses objective.
-/
import SharkVerif.Lemmas.Smo
import Mathlib.Tactic.FieldSimp
namespace SharkVerif.Smo
open SharkVerif.Qp SharkVerif.Gen.Analytic

/-- objective change `μᵀg − ½ μᵀQμ` of a move `(μi, μj)` in a 2-D sub-problem -/
def gain2 (gi gj Qii Qij Qjj mi mj : Rat) : Rat :=
  mi * gi + mj * gj - (1 / 2) * (Qii * mi * mi + 2 * Qij * mi * mj + Qjj * mj * mj)

/-- the gain expression as the C++ writes it -/
def gainK (gi gj Qii Qij Qjj mi mj : Rat) : Rat :=
  ((mi * (gi - ((0.5 : Rat) * ((Qii * mi) + (Qij * mj))))) + (mj * (gj - ((0.5 : Rat) * ((Qij * mi) + (Qjj * mj))))))

theorem gainK_eq (gi gj Qii Qij Qjj mi mj : Rat) : gainK gi gj Qii Qij Qjj mi mj = gain2 gi gj Qii Qij Qjj mi mj := by
  unfold gainK gain2; rw [lit05]; ring

/-- the arg-max loop over the four edge solutions followed by "keep the current point if no edge improves" -/
def choose4 {β : Type} (G0 G1 G2 G3 : Rat) (x0 x1 x2 x3 cur : β) : β :=
  let maxGain : Rat := (0.0 : Rat)
  let maxIndex : Nat := 0
  let maxIndex_1 := if (G0 > maxGain) then 0 else maxIndex
  let maxGain_1 := if (G0 > maxGain) then G0 else maxGain
  let maxIndex_2 := if (G1 > maxGain_1) then 1 else maxIndex_1
  let maxGain_2 := if (G1 > maxGain_1) then G1 else maxGain_1
  let maxIndex_3 := if (G2 > maxGain_2) then 2 else maxIndex_2
  let maxGain_3 := if (G2 > maxGain_2) then G2 else maxGain_2
  let maxIndex_4 := if (G3 > maxGain_3) then 3 else maxIndex_3
  let maxGain_4 := if (G3 > maxGain_3) then G3 else maxGain_3
  if (maxGain_4 > (0.0 : Rat)) then
    (if maxIndex_4 = 0 then x0 else (if maxIndex_4 = 1 then x1 else (if maxIndex_4 = 2 then x2 else x3)))
  else cur

/-- the edge branch of `solveQuadratic2DBox` -/
def edgeRes (ai aj gi gj Qii Qij Qjj Li Ui Lj Uj : Rat) : Rat × Rat :=
  let e0 := solveQuadraticEdge aj (gj - (Qij * (Li - ai))) Qjj Lj Uj
  let e1 := solveQuadraticEdge ai (gi - (Qij * (Lj - aj))) Qii Li Ui
  let e2 := solveQuadraticEdge aj (gj - (Qij * (Ui - ai))) Qjj Lj Uj
  let e3 := solveQuadraticEdge ai (gi - (Qij * (Uj - aj))) Qii Li Ui
  let G0 := gainK gi gj Qii Qij Qjj (Li - ai) (e0 - aj)
  let G1 := gainK gi gj Qii Qij Qjj (e1 - ai) (Lj - aj)
  let G2 := gainK gi gj Qii Qij Qjj (Ui - ai) (e2 - aj)
  let G3 := gainK gi gj Qii Qij Qjj (e3 - ai) (Uj - aj)
  (choose4 G0 G1 G2 G3 Li e1 Ui e3 ai, choose4 G0 G1 G2 G3 e0 Lj e2 Uj aj)

theorem box2d_unfold (ai aj gi gj Qii Qij Qjj Li Ui Lj Uj : Rat) :
    solveQuadratic2DBox ai aj gi gj Qii Qij Qjj Li Ui Lj Uj =
      if Qii * Qjj - Qij * Qij > (1.0e-12 : Rat) then
        if ((((ai + (Qjj * gi - Qij * gj) / (Qii * Qjj - Qij * Qij) > Li)
            ∧ (aj + (Qii * gj - Qij * gi) / (Qii * Qjj - Qij * Qij) > Lj))
            ∧ (ai + (Qjj * gi - Qij * gj) / (Qii * Qjj - Qij * Qij) < Ui))
            ∧ (aj + (Qii * gj - Qij * gi) / (Qii * Qjj - Qij * Qij) < Uj)) then
          (ai + (Qjj * gi - Qij * gj) / (Qii * Qjj - Qij * Qij), aj + (Qii * gj - Qij * gi) / (Qii * Qjj - Qij * Qij))
        else edgeRes ai aj gi gj Qii Qij Qjj Li Ui Lj Uj
      else edgeRes ai aj gi gj Qii Qij Qjj Li Ui Lj Uj := by
  rfl


theorem choose4_cases (G0 G1 G2 G3 : Rat) :
    (∀ (x0 x1 x2 x3 cur : Rat), choose4 G0 G1 G2 G3 x0 x1 x2 x3 cur = cur) ∨
    (0 < G0 ∧ ∀ (x0 x1 x2 x3 cur : Rat), choose4 G0 G1 G2 G3 x0 x1 x2 x3 cur = x0) ∨
    (0 < G1 ∧ ∀ (x0 x1 x2 x3 cur : Rat), choose4 G0 G1 G2 G3 x0 x1 x2 x3 cur = x1) ∨
    (0 < G2 ∧ ∀ (x0 x1 x2 x3 cur : Rat), choose4 G0 G1 G2 G3 x0 x1 x2 x3 cur = x2) ∨
    (0 < G3 ∧ ∀ (x0 x1 x2 x3 cur : Rat), choose4 G0 G1 G2 G3 x0 x1 x2 x3 cur = x3) := by
  unfold choose4
  simp only [lit0, gt_iff_lt]
  by_cases h0 : 0 < G0
  · simp only [h0, if_true]
    by_cases h1 : G0 < G1
    · simp only [h1, if_true]
      by_cases h2 : G1 < G2
      · simp only [h2, if_true]
        by_cases h3 : G2 < G3
        · right; right; right; right; refine ⟨by first | trivial | linarith, ?_⟩; intros; simp [h3, show 0 < G3 by linarith]
        · right; right; right; left; refine ⟨by first | trivial | linarith, ?_⟩; intros; simp [h3, show 0 < G2 by linarith]
      · simp only [h2, if_false]
        by_cases h3 : G1 < G3
        · right; right; right; right; refine ⟨by first | trivial | linarith, ?_⟩; intros; simp [h3, show 0 < G3 by linarith]
        · right; right; left; refine ⟨by first | trivial | linarith, ?_⟩; intros; simp [h3, show 0 < G1 by linarith]
    · simp only [h1, if_false]
      by_cases h2 : G0 < G2
      · simp only [h2, if_true]
        by_cases h3 : G2 < G3
        · right; right; right; right; refine ⟨by first | trivial | linarith, ?_⟩; intros; simp [h3, show 0 < G3 by linarith]
        · right; right; right; left; refine ⟨by first | trivial | linarith, ?_⟩; intros; simp [h3, show 0 < G2 by linarith]
      · simp only [h2, if_false]
        by_cases h3 : G0 < G3
        · right; right; right; right; refine ⟨by first | trivial | linarith, ?_⟩; intros; simp [h3, show 0 < G3 by linarith]
        · right; left; refine ⟨trivial, ?_⟩; intros; simp [h3, h0]
  · simp only [h0, if_false]
    by_cases h1 : 0 < G1
    · simp only [h1, if_true]
      by_cases h2 : G1 < G2
      · simp only [h2, if_true]
        by_cases h3 : G2 < G3
        · right; right; right; right; refine ⟨by first | trivial | linarith, ?_⟩; intros; simp [h3, show 0 < G3 by linarith]
        · right; right; right; left; refine ⟨by first | trivial | linarith, ?_⟩; intros; simp [h3, show 0 < G2 by linarith]
      · simp only [h2, if_false]
        by_cases h3 : G1 < G3
        · right; right; right; right; refine ⟨by first | trivial | linarith, ?_⟩; intros; simp [h3, show 0 < G3 by linarith]
        · right; right; left; refine ⟨trivial, ?_⟩; intros; simp [h3, h1]
    · simp only [h1, if_false]
      by_cases h2 : 0 < G2
      · simp only [h2, if_true]
        by_cases h3 : G2 < G3
        · right; right; right; right; refine ⟨by first | trivial | linarith, ?_⟩; intros; simp [h3, show 0 < G3 by linarith]
        · right; right; right; left; refine ⟨trivial, ?_⟩; intros; simp [h3, h2]
      · simp only [h2, if_false]
        by_cases h3 : 0 < G3
        · right; right; right; right; refine ⟨h3, ?_⟩; intros; simp [h3]
        · left; intros; simp [h3]

theorem gain2_zero (gi gj Qii Qij Qjj : Rat) : gain2 gi gj Qii Qij Qjj 0 0 = 0 := by unfold gain2; ring

/-- the edge branch never loses objective (any matrix, any box) -/
theorem edgeRes_gain_nonneg (ai aj gi gj Qii Qij Qjj Li Ui Lj Uj : Rat) :
    0 ≤ gain2 gi gj Qii Qij Qjj ((edgeRes ai aj gi gj Qii Qij Qjj Li Ui Lj Uj).1 - ai)
        ((edgeRes ai aj gi gj Qii Qij Qjj Li Ui Lj Uj).2 - aj) := by
  unfold edgeRes
  dsimp only
  rcases choose4_cases
      (gainK gi gj Qii Qij Qjj (Li - ai) (solveQuadraticEdge aj (gj - (Qij * (Li - ai))) Qjj Lj Uj - aj))
      (gainK gi gj Qii Qij Qjj (solveQuadraticEdge ai (gi - (Qij * (Lj - aj))) Qii Li Ui - ai) (Lj - aj))
      (gainK gi gj Qii Qij Qjj (Ui - ai) (solveQuadraticEdge aj (gj - (Qij * (Ui - ai))) Qjj Lj Uj - aj))
      (gainK gi gj Qii Qij Qjj (solveQuadraticEdge ai (gi - (Qij * (Uj - aj))) Qii Li Ui - ai) (Uj - aj))
    with h | ⟨hp, h⟩ | ⟨hp, h⟩ | ⟨hp, h⟩ | ⟨hp, h⟩
  · rw [h, h, sub_self, sub_self, gain2_zero]
  · rw [h, h, ← gainK_eq]; exact le_of_lt hp
  · rw [h, h, ← gainK_eq]; exact le_of_lt hp
  · rw [h, h, ← gainK_eq]; exact le_of_lt hp
  · rw [h, h, ← gainK_eq]; exact le_of_lt hp

/-- the interior (Newton) point of a positive definite 2×2 problem has gain `½ gᵀQ⁻¹g ≥ 0` -/
theorem interior_gain_nonneg (gi gj Qii Qij Qjj : Rat) (hQ : 0 ≤ Qii) (hdet : 0 < Qii * Qjj - Qij * Qij) :
    0 ≤ gain2 gi gj Qii Qij Qjj ((Qjj * gi - Qij * gj) / (Qii * Qjj - Qij * Qij))
        ((Qii * gj - Qij * gi) / (Qii * Qjj - Qij * Qij)) := by
  have hne : Qii * Qjj - Qij * Qij ≠ 0 := ne_of_gt hdet
  have hQii : 0 < Qii := by
    rcases eq_or_lt_of_le hQ with h | h
    · rw [← h] at hdet; nlinarith [mul_self_nonneg Qij]
    · exact h
  have hquad : Qii * (Qjj * gi - Qij * gj) * (Qjj * gi - Qij * gj)
      + 2 * Qij * (Qjj * gi - Qij * gj) * (Qii * gj - Qij * gi) + Qjj * (Qii * gj - Qij * gi) * (Qii * gj - Qij * gi)
      = (Qii * Qjj - Qij * Qij) * ((Qjj * gi - Qij * gj) * gi + (Qii * gj - Qij * gi) * gj) := by ring
  have hN : Qii * ((Qjj * gi - Qij * gj) * gi + (Qii * gj - Qij * gi) * gj)
      = (Qii * gj - Qij * gi) * (Qii * gj - Qij * gi) + (Qii * Qjj - Qij * Qij) * (gi * gi) := by ring
  generalize Qii * Qjj - Qij * Qij = D at *
  generalize Qjj * gi - Qij * gj = A at *
  generalize Qii * gj - Qij * gi = B at *
  have hNn : 0 ≤ A * gi + B * gj := by
    have h1 := mul_self_nonneg B
    have h2 := mul_nonneg (le_of_lt hdet) (mul_self_nonneg gi)
    have h3 : 0 ≤ Qii * (A * gi + B * gj) := by rw [hN]; linarith
    by_contra hc
    have := mul_neg_of_pos_of_neg hQii (not_le.mp hc)
    linarith
  have key : gain2 gi gj Qii Qij Qjj (A / D) (B / D)
      = (A * gi + B * gj) / D - (1 / 2) * ((Qii * A * A + 2 * Qij * A * B + Qjj * B * B) / (D * D)) := by
    unfold gain2; field_simp
  rw [key, hquad, mul_div_mul_left _ _ hne]
  have : (A * gi + B * gj) / D - 1 / 2 * ((A * gi + B * gj) / D) = (1 / 2) * ((A * gi + B * gj) / D) := by ring
  rw [this]
  exact mul_nonneg (by norm_num) (div_nonneg hNn (le_of_lt hdet))

end SharkVerif.Smo
