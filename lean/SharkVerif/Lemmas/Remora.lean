/-
Helper lemmas for C01: denotational equivalence of remora expressions, algebra of `sumTo`,
and the one fixed tactic `remora_rule` that closes every generated rewrite-rule lemma
(Gen/RemoraRules.lean).
-/
import SharkVerif.Model.Remora
import Mathlib.Tactic.Ring
import Mathlib.Tactic.SplitIfs
namespace SharkVerif.Remora

section
variable {R : Type} [CommRing R]

/-- two vector expressions denote the same (size, index ↦ R): equal sizes, equal elements at
every index inside the size -/
def VExp.Equiv (a b : VExp R) : Prop := a.size = b.size ∧ ∀ i, i < b.size → a.get i = b.get i
/-- two matrix expressions denote the same (size1, size2, (i,j) ↦ R) -/
def MExp.Equiv (a b : MExp R) : Prop :=
  a.size1 = b.size1 ∧ a.size2 = b.size2 ∧ ∀ i j, i < b.size1 → j < b.size2 → a.get i j = b.get i j

scoped infix:50 " ≈ᵥ " => VExp.Equiv
scoped infix:50 " ≈ₘ " => MExp.Equiv

/-- congruence for sums: the summands only matter below the bound (registered as a `congr`
lemma so that `simp` rewrites summands with `k < n` at hand) -/
@[congr] theorem sumTo_congr {n m : Nat} {f g : Nat → R} (hn : n = m)
    (h : ∀ k, k < m → f k = g k) : sumTo n f = sumTo m g := by
  subst hn
  induction n with
  | zero => rfl
  | succ n ih =>
    simp only [sumTo]
    rw [ih (fun k hk => h k (by omega)), h n (by omega)]

theorem sumTo_zero (n : Nat) : sumTo n (fun _ => (0 : R)) = 0 := by
  induction n with
  | zero => rfl
  | succ n ih => simp [sumTo, ih]

theorem sumTo_add (n : Nat) (f g : Nat → R) :
    sumTo n (fun k => f k + g k) = sumTo n f + sumTo n g := by
  induction n with
  | zero => simp [sumTo]
  | succ n ih => simp only [sumTo, ih]; ring

theorem sumTo_mul_left (n : Nat) (a : R) (f : Nat → R) :
    sumTo n (fun k => a * f k) = a * sumTo n f := by
  induction n with
  | zero => simp [sumTo]
  | succ n ih => simp only [sumTo, ih]; ring

theorem sumTo_mul_right (n : Nat) (a : R) (f : Nat → R) :
    sumTo n (fun k => f k * a) = sumTo n f * a := by
  induction n with
  | zero => simp [sumTo]
  | succ n ih => simp only [sumTo, ih]; ring

/-- Fubini for finite sums -/
theorem sumTo_comm (n m : Nat) (f : Nat → Nat → R) :
    sumTo n (fun i => sumTo m (fun j => f i j)) = sumTo m (fun j => sumTo n (fun i => f i j)) := by
  induction n with
  | zero => simp [sumTo, sumTo_zero]
  | succ n ih => simp only [sumTo, ih, ← sumTo_add]

/-- a sum whose only non-zero term is at `k < n` -/
theorem sumTo_single (n k : Nat) (hk : k < n) (f : Nat → R) :
    sumTo n (fun i => if k = i then f i else 0) = f k := by
  induction n with
  | zero => omega
  | succ n ih =>
    simp only [sumTo]
    by_cases h : k < n
    · rw [ih h]
      have : k ≠ n := by omega
      simp [this]
    · have hkn : k = n := by omega
      subst hkn
      have hz : sumTo k (fun i => if k = i then f i else 0) = sumTo k (fun _ => (0 : R)) :=
        sumTo_congr rfl (fun i hi => by
          have : k ≠ i := by omega
          simp [this])
      rw [hz, sumTo_zero]; simp

theorem sumTo_single' (n k : Nat) (hk : k < n) (f : Nat → R) :
    sumTo n (fun i => if i = k then f i else 0) = f k := by
  have : (fun i => if i = k then f i else 0) = (fun i => if k = i then f i else 0) := by
    funext i; by_cases h : i = k
    · subst h; simp
    · have : ¬ k = i := fun h' => h h'.symm
      simp [h, this]
  rw [this]; exact sumTo_single n k hk f

/-- splitting a sum at `n` -/
theorem sumTo_append (n m : Nat) (f : Nat → R) :
    sumTo (n + m) f = sumTo n f + sumTo m (fun k => f (n + k)) := by
  induction m with
  | zero => simp [sumTo]
  | succ m ih => rw [← Nat.add_assoc]; simp only [sumTo, ih]; ring

end

theorem foldFrom_congr {f : R → R → R} {x y : Nat → R} (n : Nat) (h : ∀ k, k ≤ n → x k = y k) :
    foldFrom f x n = foldFrom f y n := by
  induction n with
  | zero => simp [foldFrom, h 0 (Nat.le_refl 0)]
  | succ n ih =>
    simp only [foldFrom]
    rw [ih (fun k hk => h k (by omega)), h (n+1) (Nat.le_refl _)]

/-- normal form for scalar goals: pull constants out of sums, distribute, swap double sums -/
macro "remora_ring" : tactic => `(tactic| (
  first
  | rfl
  | ring1
  | (simp only [sumTo_add, mul_add, add_mul] <;> ring1)
  | (simp only [ite_mul, zero_mul, mul_ite, mul_zero] <;> rw [sumTo_single _ _ (by omega)] <;> try ring1)
  | (simp only [← sumTo_mul_left, ← sumTo_mul_right] <;> apply sumTo_congr rfl <;> intro k1 _ <;> ring1)
  | (simp only [← sumTo_mul_left, ← sumTo_mul_right, sumTo_add, mul_add, add_mul] <;>
     first
     | ring1
     | (apply sumTo_congr rfl; intro k1 _; apply sumTo_congr rfl; intro k2 _; ring1)
     | (rw [sumTo_comm]; apply sumTo_congr rfl; intro k1 _; apply sumTo_congr rfl; intro k2 _; ring1))))

/-- the one tactic that closes every generated rule lemma:
unfold `≈`, the well-formedness hypothesis and the denotation; use the induction hypotheses
(sizes by rewriting, elements as conditional rewrite rules, side conditions by `omega`);
split the remaining case distinctions (orientation flags, concatenation halves, unit
indices); finish index goals by `omega` and scalar goals by `ring1` after normalising sums. -/
macro "remora_rule" : tactic => `(tactic| (
  simp only [VExp.Equiv, MExp.Equiv, VExp.WF, MExp.WF, VExp.size, MExp.size1, MExp.size2] at *
  refine ⟨?_, ?_⟩ <;> (try refine ⟨?_, ?_⟩) <;> intros <;>
  (try simp only [VExp.size, MExp.size1, MExp.size2] at * ) <;>
  (try simp (disch := omega) only [VExp.get, MExp.get, VExp.size, MExp.size1, MExp.size2, VExp.inner,
     Nat.sub_zero, Nat.add_zero, Nat.zero_add, max_self, min_self, if_true, if_false, Bool.false_eq_true,
     Bool.not_eq_true', Bool.not_true, Bool.not_false, reduceIte, *]) <;>
  (try split_ifs at * ) <;>
  (try subst_vars) <;>
  (try simp only [VExp.size, MExp.size1, MExp.size2] at * ) <;>
  (try simp (disch := omega) only [VExp.get, MExp.get, Nat.sub_zero, Bool.false_eq_true, Bool.not_eq_true',
     Bool.not_true, Bool.not_false, reduceIte, Nat.cast_add, *]) <;>
  first
  | omega
  | remora_ring
  | (exfalso; omega)
  | (apply congrArg; apply foldFrom_congr; intro k hk; simp (disch := omega) only [MExp.get, *]; done)
  | (simp_all; done)))

end SharkVerif.Remora
