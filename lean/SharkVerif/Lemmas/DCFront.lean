/-
Lemmas for the divide-and-conquer non-dominated sort (`Model/DCSort.lean`), part 3:
the front end (`sortLex`, `uniq`, `lowerBound`) and the main theorems
`dcSort_eq_rankSpec`, `nds_eq_rankSpec`.
-/
import SharkVerif.Lemmas.DCSort
namespace SharkVerif.DC
open SharkVerif.Pareto

/-! ### the front end: `sortLex`, `uniq`, `lowerBound` -/

theorem lexLt_irrefl : ∀ p : Pt, lexLt p p = false
  | [] => rfl
  | a :: as => by
    rw [lexLt, if_neg (by omega), if_neg (by omega)]; exact lexLt_irrefl as

theorem lexLt_asymm : ∀ p q : Pt, lexLt p q = true → lexLt q p = false
  | [], _, h => by simp [lexLt] at h
  | _ :: _, [], h => by simp [lexLt] at h
  | a :: as, b :: bs, h => by
    rw [lexLt] at h ⊢
    by_cases h1 : a < b
    · rw [if_neg (by omega), if_pos h1]
    · rw [if_neg h1] at h
      by_cases h2 : b < a
      · rw [if_pos h2] at h; cases h
      · rw [if_neg h2] at h
        rw [if_neg h2, if_neg h1]; exact lexLt_asymm as bs h

/-- negative transitivity (vectors of one dimension) -/
theorem lexLt_negtrans : ∀ a b c : Pt, a.length = b.length → b.length = c.length →
    lexLt c a = true → lexLt c b = true ∨ lexLt b a = true
  | [], _, c, _, _, h => by cases c <;> simp [lexLt] at h
  | _ :: _, [], _, h1, _, _ => by simp at h1
  | _ :: _, _ :: _, [], _, h2, _ => by simp at h2
  | x :: xs, y :: ys, z :: zs, h1, h2, h => by
    rw [lexLt] at h
    rw [lexLt, lexLt]
    by_cases c1 : z < y
    · left; rw [if_pos c1]
    · by_cases c2 : y < x
      · right; rw [if_pos c2]
      · -- y ≤ z and x ≤ y
        by_cases c3 : z < x
        · omega
        · rw [if_neg c3] at h
          by_cases c4 : x < z
          · rw [if_pos c4] at h; cases h
          · rw [if_neg c4] at h
            have e1 : x = z := by omega
            have e2 : y = z := by omega
            rw [if_neg c1, if_neg (by omega), if_neg c2, if_neg (by omega)]
            exact lexLt_negtrans xs ys zs (by simpa using h1) (by simpa using h2) h

theorem lexLt_tricho : ∀ p q : Pt, p.length = q.length → lexLt p q = false → lexLt q p = false → p = q
  | [], [], _, _, _ => rfl
  | [], _ :: _, h, _, _ => by simp at h
  | _ :: _, [], h, _, _ => by simp at h
  | a :: as, b :: bs, h, h1, h2 => by
    rw [lexLt] at h1 h2
    by_cases c1 : a < b
    · rw [if_pos c1] at h1; cases h1
    · by_cases c2 : b < a
      · rw [if_pos c2] at h2; cases h2
      · rw [if_neg c1, if_neg c2] at h1
        rw [if_neg c2, if_neg c1] at h2
        have e : a = b := by omega
        rw [e, lexLt_tricho as bs (by simpa using h) h1 h2]

/-- `std::sort`: the result is ordered and a permutation -/
theorem sortLex_spec (pts : List Pt) (m : Nat) (hd : ∀ p ∈ pts, p.length = m) :
    (sortLex pts).Pairwise (fun a b => lexLt b a = false) ∧ ∀ x, x ∈ sortLex pts ↔ x ∈ pts := by
  refine ⟨?_, fun x => (List.mergeSort_perm pts _).mem_iff⟩
  let r : {p : Pt // p.length = m} → {p : Pt // p.length = m} → Bool := fun a b => !lexLt b.1 a.1
  have hmap : (pts.attachWith _ hd).map Subtype.val = pts := List.attachWith_map_subtype_val hd
  have e : ((pts.attachWith _ hd).mergeSort r).map Subtype.val = sortLex pts := by
    rw [List.map_mergeSort (s := fun a b => !lexLt b a) (fun a _ b _ => rfl), hmap]; rfl
  have hpw := List.pairwise_mergeSort (le := r)
    (fun a b c hab hbc => by
      simp only [r, Bool.not_eq_true', ] at hab hbc ⊢
      cases hca : lexLt c.1 a.1 with
      | false => rfl
      | true =>
        rcases lexLt_negtrans a.1 b.1 c.1 (by rw [a.2, b.2]) (by rw [b.2, c.2]) hca with h | h
        · rw [h] at hbc; cases hbc
        · rw [h] at hab; cases hab)
    (fun a b => by
      simp only [r, Bool.or_eq_true, Bool.not_eq_true']
      cases hba : lexLt b.1 a.1 with
      | false => exact Or.inl rfl
      | true => exact Or.inr (lexLt_asymm _ _ hba))
    (pts.attachWith _ hd)
  rw [← e, List.pairwise_map]
  exact hpw.imp (fun {a b} h => by simpa [r] using h)

/-- `std::unique` on the sorted vector: strictly ordered, same members -/
theorem uniq_spec (m : Nat) : ∀ (l : List Pt), (∀ p ∈ l, p.length = m) →
    l.Pairwise (fun a b => lexLt b a = false) →
    (uniq l).Pairwise (fun a b => lexLt a b = true) ∧ ∀ x, x ∈ uniq l ↔ x ∈ l
  | [], _, _ => ⟨List.Pairwise.nil, fun _ => Iff.rfl⟩
  | [p], _, _ => ⟨List.pairwise_singleton _ _, fun _ => Iff.rfl⟩
  | p :: q :: rest, hd, hs => by
    have hs' := List.pairwise_cons.mp hs
    obtain ⟨i1, i2⟩ := uniq_spec m (q :: rest) (fun x hx => hd x (by simp [hx])) hs'.2
    rw [uniq]
    by_cases hpq : p = q
    · rw [if_pos (by simpa using hpq)]
      refine ⟨i1, fun x => ?_⟩
      rw [i2 x, hpq]; simp
    · rw [if_neg (by simpa using hpq)]
      refine ⟨List.pairwise_cons.mpr ⟨?_, i1⟩, fun x => by simp only [List.mem_cons, i2 x]⟩
      intro x hx
      have hx' := (i2 x).mp hx
      have hqp : lexLt q p = false := hs'.1 q (by simp)
      have hlp : p.length = q.length := by rw [hd p (by simp), hd q (by simp)]
      have hpq' : lexLt p q = true := by
        cases h : lexLt p q with
        | true => rfl
        | false => exact absurd (lexLt_tricho p q hlp h hqp) hpq
      rcases List.mem_cons.mp hx' with e | hxr
      · rw [e]; exact hpq'
      · have hxq : lexLt x q = false := (List.pairwise_cons.mp hs'.2).1 x hxr
        rcases lexLt_negtrans q x p (by rw [hd q (by simp), hd x (by simp [hxr])])
          (by rw [hd x (by simp [hxr]), hd p (by simp)]) hpq' with h | h
        · exact h
        · rw [h] at hxq; cases hxq

/-- `std::lower_bound` finds a member of the strictly ordered vector -/
theorem lowerBound_getElem (U : List Pt) (hs : U.Pairwise (fun a b => lexLt a b = true)) (i : Nat)
    (hi : i < U.length) : lowerBound U U[i] = i := by
  unfold lowerBound
  rw [List.findIdx_eq hi]
  refine ⟨by simp [lexLt_irrefl], fun j hji => ?_⟩
  have := List.pairwise_iff_getElem.mp hs j i (by omega) hi hji
  simp [this]

/-- the rank depends only on the set of points -/
theorem rankSpec_congr {S S' : List Pt} (h : ∀ x, x ∈ S ↔ x ∈ S') : ∀ p, rankSpec S p = rankSpec S' p := by
  suffices H : ∀ c p, (S.countP fun q => dominates q p) = c → rankSpec S p = rankSpec S' p by
    intro p; exact H _ p rfl
  intro c
  induction c using Nat.strongRecOn with
  | _ c ih =>
    intro p hc
    have IH : ∀ q ∈ S, dominates q p = true → rankSpec S q = rankSpec S' q := by
      intro q hq hdom
      have hlt : (S.countP fun x => dominates x q) < S.countP fun x => dominates x p :=
        countP_lt_of_imp S (fun x => dominates x q) (fun x => dominates x p)
          (fun x hx => dominates_trans hx hdom) q hq hdom (by simp [dominates_irrefl])
      exact ih _ (by omega) q rfl
    rw [rankSpec_eq S p, rankSpec_eq S' p]
    congr 1
    apply foldl_max_eq
    · intro x hx
      obtain ⟨q, hq, e⟩ := List.mem_map.mp hx
      obtain ⟨hqS, hdom⟩ := List.mem_filter.mp hq
      rw [← e, IH q hqS hdom]
      exact (foldl_max_ge _ 0).2 _ (List.mem_map.mpr ⟨q, List.mem_filter.mpr ⟨(h q).mp hqS, hdom⟩, rfl⟩)
    · rcases foldl_max_mem ((S'.filter fun q => dominates q p).map (rankSpec S')) 0 with h0 | hm
      · exact Or.inl h0
      · right
        obtain ⟨q, hq, e⟩ := List.mem_map.mp hm
        obtain ⟨hqS, hdom⟩ := List.mem_filter.mp hq
        rw [← e, ← IH q ((h q).mpr hqS) hdom]
        exact List.mem_map.mpr ⟨q, List.mem_filter.mpr ⟨(h q).mpr hqS, hdom⟩, rfl⟩

/-! ### the main theorems -/

/-- **C13 (divide-and-conquer sort)**: for every non-degenerate dimension `m ≥ 2` and every list of
points of that dimension — any size, duplicates, ties — the model of `BaseDCNonDominatedSort::operator()`
assigns to the `i`-th point exactly `rankSpec`, the non-domination rank of the definition. -/
theorem dcSort_eq_rankSpec (pts : List Pt) (m : Nat) (hm : 2 ≤ m) (hd : ∀ p ∈ pts, p.length = m) :
    dcSort pts = pts.map (rankSpec pts) := by
  cases pts with
  | nil => rfl
  | cons p0 rest =>
    generalize hP : p0 :: rest = pts at *
    have hp0 : p0 ∈ pts := by rw [← hP]; simp
    obtain ⟨s1, s2⟩ := sortLex_spec pts m hd
    obtain ⟨u1, u2⟩ := uniq_spec m (sortLex pts) (fun p hp => hd p ((s2 p).mp hp)) s1
    have hmem : ∀ x, x ∈ uniq (sortLex pts) ↔ x ∈ pts := fun x => (u2 x).trans (s2 x)
    have hdU : ∀ p ∈ uniq (sortLex pts), p.length = m := fun p hp => hd p ((hmem p).mp hp)
    have key := dcFronts_eq_rankSpec (uniq (sortLex pts)) m hm hdU u1
    have hdc : dcSort pts = pts.map fun p =>
        fr (dcFronts (uniq (sortLex pts)) p0.length) (lowerBound (uniq (sortLex pts)) p) := by
      rw [← hP]; rfl
    rw [hdc, hd p0 hp0]
    apply List.map_congr_left
    intro p hp
    obtain ⟨i, hi, e⟩ := List.getElem_of_mem ((hmem p).mpr hp)
    rw [← e, lowerBound_getElem _ u1 i hi, key i hi]
    have : (uniq (sortLex pts)).getD i [] = (uniq (sortLex pts))[i] := by
      simp [List.getD_eq_getElem?_getD, hi]
    rw [this]
    exact rankSpec_congr hmem _

/-- **C13 (nonDominatedSort)**: whichever algorithm the front end selects, the ranks are those of
the definition. -/
theorem nds_eq_rankSpec (pts : List Pt) (m : Nat) (hm : 2 ≤ m) (hd : ∀ p ∈ pts, p.length = m) :
    nds pts = pts.map (rankSpec pts) := by
  cases pts with
  | nil => rfl
  | cons p0 rest =>
    show (if useDC (p0 :: rest).length p0.length then dcSort (p0 :: rest) else fastSort (p0 :: rest)) = _
    split
    · exact dcSort_eq_rankSpec _ m hm hd
    · exact fastSort_eq hd

/-- the two-objective case (`ndHelperA` goes straight to `sweepA`) -/
theorem dcSort_eq_rankSpec_two_objectives (pts : List Pt) (hd : ∀ p ∈ pts, p.length = 2) :
    dcSort pts = pts.map (rankSpec pts) :=
  dcSort_eq_rankSpec pts 2 (Nat.le_refl 2) hd

end SharkVerif.DC
