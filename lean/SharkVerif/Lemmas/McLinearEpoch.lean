/-
Theorems about the epoch loop of `QpMcLinear::solve` (`Model/McLinearEpoch.lean`) at `α := Rat`, for all
sizes, every `expF`, every admissible sequence of `uni` draws (`0 ≤ u`; `random::uni` returns values in [0,1))
and every shuffle.

Schedule (ACF arithmetic):
* `acf_pos_le`                 : `pos ≤ ell` after every iteration of the construction loop, for ARBITRARY
                                 preferences and `psum` (no hypothesis on them at all): `schedule[pos] = i` never
                                 writes out of bounds; all written entries are `< ell` (`acf_written_lt`).
* `acf_length_eq`              : if all preferences are positive and `psum` = their sum, then `pos = ell` exactly
                                 (the debug-only `SHARK_ASSERT(pos == ell)` holds in exact arithmetic).
* `acf_short_of_psum_drift`    : WITNESS that the hypothesis `psum = Σ pref` is needed: with `psum` larger than the sum
                                 (what floating-point drift of `prefsum` can produce) there are admissible draws
                                 with `pos < ell`; the tail of `schedule` then keeps values of the previous epoch.
* `uniform_sweep_visits_all`   : all preferences 1 and `psum = ell` (first epoch; epoch after the `canstop` reset):
                                 the constructed schedule is `[0, 1, …, ell-1]` whatever the draws are, hence
                                 (`uniform_sweep_count`) after any shuffle every example is visited exactly once.
Inner loop / stopping rule:
* `pref_bounds`                : preferences stay in [0.05, 20] (any run of `epSolve`).
* `epEpoch_prefsum`            : after every epoch `prefsum` = sum of the preferences (`epStopRule_prefsum`: also
                                 after the reset) — so the hypothesis of `acf_length_eq` holds at every epoch start.
* `maxViol_bounds_visits`      : `max_violation` of an epoch bounds the KKT violation AT VISIT TIME of every visit.
* `linear_stop_weak`           : if `epSolve` ends with QpAccuracyReached then the last epoch started with
                                 `canstop = true`, all preferences 1, `prefsum = ell` — so its schedule is a full
                                 sweep `[0..ell-1]` — and every visit of it saw a KKT violation `< eps` at visit time.
                                 (Nothing is claimed about the violations at the END of the epoch.)
-/
import SharkVerif.Model.McLinearEpoch
import Mathlib.Data.Rat.Floor
import Mathlib.Data.List.Nodup
import Mathlib.Tactic.Linarith
import Mathlib.Tactic.NormNum.OfScientific
import Mathlib.Algebra.Order.BigOperators.Group.Finset

namespace SharkVerif.Mc
open Finset

private theorem q00 : (0.0 : Rat) = 0 := by norm_num
private theorem q10 : (1.0 : Rat) = 1 := by norm_num

/-- the `Rat` instance of the non-field operations; `exp` is arbitrary -/
def ratOps (expF : Rat → Rat) : EpOps Rat := { floorNat := ratFloorNat, expF := expF }

/-! ### floor -/

theorem ratFloorNat_eq (q : Rat) : ratFloorNat q = ⌊q⌋₊ := by
  unfold ratFloorNat
  rw [← Rat.floor_def', Int.floor_toNat]

/-! ### the number of copies -/

theorem acfNum_le (ell pos : Nat) (p psum : Rat) :
    acfNum ell pos p psum ≤ ((ell - pos : Nat) : Rat) := by
  unfold acfNum
  simp only
  split_ifs with h1 h2
  · exact le_refl _
  · exact le_of_lt h2
  · exact le_refl _

/-- `n ≤ ell - pos`: for arbitrary `p`, `psum`, and every draw `u ≥ 0` -/
theorem acfCount_le (expF : Rat → Rat) (ell pos : Nat) (p psum u : Rat) (hu : 0 ≤ u) :
    acfCount (ratOps expF) ell pos p psum u ≤ ell - pos := by
  unfold acfCount
  simp only [ratOps, ratFloorNat_eq]
  generalize hnum : acfNum ell pos p psum = num
  have hle : num ≤ ((ell - pos : Nat) : Rat) := hnum ▸ acfNum_le ell pos p psum
  by_cases h0 : 0 ≤ num
  · have h1 : ((⌊num⌋₊ : Nat) : Rat) ≤ num := Nat.floor_le h0
    have hn : ⌊num⌋₊ ≤ ell - pos := by exact_mod_cast h1.trans hle
    split_ifs with hlt
    · have h2 : ((⌊num⌋₊ : Nat) : Rat) < ((ell - pos : Nat) : Rat) := by linarith
      have h3 : ⌊num⌋₊ < ell - pos := by exact_mod_cast h2
      omega
    · exact hn
  · have hz : ⌊num⌋₊ = 0 := Nat.floor_of_nonpos (le_of_lt (not_le.mp h0))
    rw [hz]
    simp only [Nat.cast_zero, sub_zero]
    split_ifs with hlt
    · exfalso; have h0' := not_le.mp h0; linarith
    · omega

theorem acfNum_last (ell pos : Nat) (p : Rat) (hp : 0 < p) :
    acfNum ell pos p p = ((ell - pos : Nat) : Rat) := by
  unfold acfNum
  simp only
  split_ifs with h1 h2
  · rfl
  · exfalso
    rw [mul_div_cancel_right₀ _ (ne_of_gt hp)] at h2
    exact lt_irrefl _ h2
  · rfl

theorem acfCount_natNum (expF : Rat → Rat) (ell pos : Nat) (p psum u : Rat) (hu : 0 ≤ u) (m : Nat)
    (h : acfNum ell pos p psum = (m : Rat)) : acfCount (ratOps expF) ell pos p psum u = m := by
  unfold acfCount
  simp only [ratOps, ratFloorNat_eq, h, Nat.floor_natCast, sub_self]
  rw [if_neg (not_lt.mpr hu)]

/-! ### the construction loop -/

/-- state of the loop after `k` iterations -/
def acfPrefix (E : EpOps Rat) (ell : Nat) (pref u : Nat → Rat) (psum0 : Rat) (k : Nat) : AcfAcc Rat :=
  (List.range k).foldl (acfStep E ell pref u) { pos := 0, psum := psum0, prefsum := (0.0 : Rat), written := [] }

theorem acfPrefix_succ (E : EpOps Rat) (ell : Nat) (pref u : Nat → Rat) (psum0 : Rat) (k : Nat) :
    acfPrefix E ell pref u psum0 (k + 1) = acfStep E ell pref u (acfPrefix E ell pref u psum0 k) k := by
  unfold acfPrefix
  rw [List.range_succ, List.foldl_append]
  rfl

theorem acfBuild_eq_prefix (E : EpOps Rat) (ell : Nat) (pref u : Nat → Rat) (psum0 : Rat) :
    acfBuild E ell pref u psum0 = acfPrefix E ell pref u psum0 ell := rfl

theorem acfPrefix_inv (expF : Rat → Rat) (ell : Nat) (pref u : Nat → Rat) (hu : ∀ i, 0 ≤ u i) (psum0 : Rat) (k : Nat) :
    let a := acfPrefix (ratOps expF) ell pref u psum0 k
    a.pos ≤ ell ∧ a.written.length = a.pos ∧ (∀ x ∈ a.written, x < k) ∧
      a.psum = psum0 - ∑ j ∈ range k, pref j ∧ a.prefsum = ∑ j ∈ range k, pref j := by
  induction k with
  | zero => simp [acfPrefix, q00]
  | succ k ih =>
    simp only at ih ⊢
    rw [acfPrefix_succ]
    obtain ⟨h1, h2, h3, h4, h5⟩ := ih
    generalize acfPrefix (ratOps expF) ell pref u psum0 k = a at h1 h2 h3 h4 h5
    have hc := acfCount_le expF ell a.pos (pref k) a.psum (u k) (hu k)
    simp only [acfStep]
    refine ⟨by omega, ?_, ?_, ?_, ?_⟩
    · rw [List.length_append, List.length_replicate, h2]
    · intro x hx
      rw [List.mem_append] at hx
      rcases hx with hx | hx
      · exact Nat.lt_succ_of_lt (h3 x hx)
      · rw [(List.mem_replicate.mp hx).2]; exact Nat.lt_succ_self k
    · rw [h4, Finset.sum_range_succ]; ring
    · rw [h5, Finset.sum_range_succ]

/-- (2a) NO OVERFLOW: `pos ≤ ell` after every iteration of the construction loop — arbitrary preferences,
arbitrary `psum0`, arbitrary draws `u ≥ 0`.  (`written.length = pos`: the writes go to positions `< ell`.) -/
theorem acf_pos_le (expF : Rat → Rat) (ell : Nat) (pref u : Nat → Rat) (hu : ∀ i, 0 ≤ u i) (psum0 : Rat) (k : Nat) :
    (acfPrefix (ratOps expF) ell pref u psum0 k).pos ≤ ell ∧
    (acfPrefix (ratOps expF) ell pref u psum0 k).written.length = (acfPrefix (ratOps expF) ell pref u psum0 k).pos :=
  ⟨(acfPrefix_inv expF ell pref u hu psum0 k).1, (acfPrefix_inv expF ell pref u hu psum0 k).2.1⟩

example : (acfPrefix (ratOps id) 3 (fun _ => 5) (fun _ => 1/2) 1 2).pos ≤ 3 :=
  (acf_pos_le id 3 (fun _ => 5) (fun _ => 1/2) (fun _ => by norm_num) 1 2).1

/-- (2b) all entries written by the construction are `< ell` -/
theorem acf_written_lt (expF : Rat → Rat) (ell : Nat) (pref u : Nat → Rat) (hu : ∀ i, 0 ≤ u i) (psum0 : Rat) :
    ∀ x ∈ (acfBuild (ratOps expF) ell pref u psum0).written, x < ell :=
  (acfPrefix_inv expF ell pref u hu psum0 ell).2.2.1

/-- the new `prefsum` is the sum of the preferences -/
theorem acf_prefsum (expF : Rat → Rat) (ell : Nat) (pref u : Nat → Rat) (hu : ∀ i, 0 ≤ u i) (psum0 : Rat) :
    (acfBuild (ratOps expF) ell pref u psum0).prefsum = ∑ j ∈ range ell, pref j :=
  (acfPrefix_inv expF ell pref u hu psum0 ell).2.2.2.2

/-- (2c) EXACT LENGTH: positive preferences and `psum0 = Σ pref` give `pos = ell` (and `written.length = ell`),
whatever the draws are: the last example takes all remaining slots. -/
theorem acf_length_eq (expF : Rat → Rat) (ell : Nat) (pref u : Nat → Rat) (hu : ∀ i, 0 ≤ u i)
    (hp : ∀ i, i < ell → 0 < pref i) :
    (acfBuild (ratOps expF) ell pref u (∑ j ∈ range ell, pref j)).pos = ell ∧
    (acfBuild (ratOps expF) ell pref u (∑ j ∈ range ell, pref j)).written.length = ell := by
  cases ell with
  | zero => simp [acfBuild]
  | succ m =>
    rw [acfBuild_eq_prefix, acfPrefix_succ]
    obtain ⟨h1, h2, -, h4, -⟩ := acfPrefix_inv expF (m + 1) pref u hu (∑ j ∈ range (m + 1), pref j) m
    generalize acfPrefix (ratOps expF) (m + 1) pref u (∑ j ∈ range (m + 1), pref j) m = a at h1 h2 h4
    have hps : a.psum = pref m := by rw [h4, Finset.sum_range_succ]; ring
    have hcnt : acfCount (ratOps expF) (m + 1) a.pos (pref m) a.psum (u m) = m + 1 - a.pos := by
      rw [hps]
      exact acfCount_natNum expF _ _ _ _ _ (hu m) _ (acfNum_last _ _ _ (hp m (Nat.lt_succ_self m)))
    simp only [acfStep, hcnt, List.length_append, List.length_replicate, h2]
    omega

example : (acfBuild (ratOps id) 3 (fun i => (i : Rat) + 1/3) (fun _ => 9/10) (∑ j ∈ range 3, ((j : Rat) + 1/3))).pos = 3 :=
  (acf_length_eq id 3 _ _ (fun _ => by norm_num) (fun i _ => by positivity)).1

/-- (2d) WITNESS: without `psum0 = Σ pref` the schedule can be SHORT.  Two examples of preference 1, `psum0 = 3`
instead of 2 (an upward drift of `prefsum`), draws 0.99: `pos = 1 < 2`; the last slot keeps its old content
(here 7).  In `double` arithmetic the drift of `prefsum` is a few ulps, so this needs a draw within a few ulps of 1:
probability about 2^-53 per epoch (exercised on the real statements by op `mlrunx` of harness/c16e.cpp). -/
theorem acf_short_of_psum_drift :
    (acfBuild (ratOps id) 2 (fun _ => 1) (fun _ => 99/100) 3).pos = 1 ∧
    acfBuffer [7, 7] (acfBuild (ratOps id) 2 (fun _ => 1) (fun _ => 99/100) 3) = [1, 7] := by
  decide +kernel

/-- (1) UNIFORM SWEEP: all preferences 1 and `psum0 = ell` (the state at the first epoch and after the
`canstop` reset): the construction writes exactly `[0, 1, …, ell-1]`, whatever the draws `u ≥ 0` are
(`num = 1`, `n = 1`, `prob = 0`: no draw can add a copy). -/
theorem uniform_sweep_visits_all (expF : Rat → Rat) (ell : Nat) (pref u : Nat → Rat) (hu : ∀ i, 0 ≤ u i)
    (h1 : ∀ i, i < ell → pref i = 1) :
    (acfBuild (ratOps expF) ell pref u (ell : Rat)).written = List.range ell ∧
    (acfBuild (ratOps expF) ell pref u (ell : Rat)).pos = ell := by
  have key : ∀ k, k ≤ ell →
      (acfPrefix (ratOps expF) ell pref u (ell : Rat) k).written = List.range k ∧
      (acfPrefix (ratOps expF) ell pref u (ell : Rat) k).pos = k ∧
      (acfPrefix (ratOps expF) ell pref u (ell : Rat) k).psum = ((ell - k : Nat) : Rat) := by
    intro k
    induction k with
    | zero => intro _; simp [acfPrefix]
    | succ k ih =>
      intro hk
      obtain ⟨a1, a2, a3⟩ := ih (Nat.le_of_succ_le hk)
      rw [acfPrefix_succ]
      generalize acfPrefix (ratOps expF) ell pref u (ell : Rat) k = a at a1 a2 a3
      have hpk : pref k = 1 := h1 k hk
      have hrem : (1 : Rat) ≤ ((ell - k : Nat) : Rat) := by
        have : 1 ≤ ell - k := by omega
        exact_mod_cast this
      have hnum : acfNum ell a.pos (pref k) a.psum = ((1 : Nat) : Rat) := by
        unfold acfNum
        simp only [a2, a3, hpk, mul_one]
        have hne : ((ell - k : Nat) : Rat) ≠ 0 := by linarith
        rw [div_self hne]
        have h6 : ¬ (((ell - k : Nat) : Rat) < (1e-6 : Rat)) := by
          have : (1e-6 : Rat) < 1 := by norm_num
          intro h; linarith
        rw [if_neg h6]
        split_ifs with h7
        · simp
        · have h7' := not_lt.mp h7
          have : ((ell - k : Nat) : Rat) = 1 := le_antisymm h7' hrem
          simp [this]
      have hcnt := acfCount_natNum expF ell a.pos (pref k) a.psum (u k) (hu k) 1 hnum
      simp only [acfStep]
      rw [hcnt]
      refine ⟨?_, ?_, ?_⟩
      · rw [a1, List.range_succ]; rfl
      · rw [a2]
      · have e1 : ell - k = (ell - (k + 1)) + 1 := by omega
        rw [a3, hpk, e1]; push_cast; ring
  exact ⟨(key ell (le_refl _)).1, (key ell (le_refl _)).2.1⟩

example : (acfBuild (ratOps id) 4 (fun _ => 1) (fun i => (i : Rat) / 7) (4 : Nat)).written = List.range 4 :=
  (uniform_sweep_visits_all id 4 _ _ (fun i => by positivity) (fun _ _ => rfl)).1

/-- … hence the `schedule` buffer is `[0..ell-1]` whatever it contained before (`old`, of length `ell`), and after
any shuffle every example is visited exactly once -/
theorem uniform_sweep_count (expF : Rat → Rat) (ell : Nat) (pref u : Nat → Rat) (hu : ∀ i, 0 ≤ u i)
    (h1 : ∀ i, i < ell → pref i = 1) (old sh : List Nat) (hold : old.length = ell)
    (hperm : sh.Perm (acfBuffer old (acfBuild (ratOps expF) ell pref u (ell : Rat)))) :
    ∀ i, i < ell → sh.count i = 1 := by
  intro i hi
  obtain ⟨hw, -⟩ := uniform_sweep_visits_all expF ell pref u hu h1
  have hb : acfBuffer old (acfBuild (ratOps expF) ell pref u (ell : Rat)) = List.range ell := by
    unfold acfBuffer
    rw [hw, List.length_range, List.drop_eq_nil_of_le (le_of_eq hold), List.append_nil]
  rw [hb] at hperm
  rw [hperm.count_eq]
  exact List.count_eq_one_of_mem List.nodup_range (List.mem_range.mpr hi)

example : ([2, 0, 1] : List Nat).count 1 = 1 :=
  uniform_sweep_count id 3 (fun _ => 1) (fun _ => 0) (fun _ => le_refl _) (fun _ _ => rfl) [0, 0, 0] [2, 0, 1] rfl
    (by
      have h := (uniform_sweep_visits_all id 3 (fun _ => 1) (fun _ => 0) (fun _ => le_refl _) (fun _ _ => rfl)).1
      unfold acfBuffer
      rw [show ((3 : Nat) : Rat) = ((3 : Nat) : Rat) from rfl] at *
      rw [h]
      decide) 1 (by norm_num)

/-! ### preferences -/

/-- the clipped update lies in [0.05, 20] whatever `exp` returns -/
theorem prefNew_bounds (E : EpOps Rat) (pref gain avg : Rat) :
    (1 : Rat) / 20 ≤ prefNew E pref gain avg ∧ prefNew E pref gain avg ≤ 20 := by
  unfold prefNew
  simp only
  have e1 : (0.05 : Rat) = 1 / 20 := by norm_num
  have e2 : (20.0 : Rat) = 20 := by norm_num
  rw [e1, e2]
  split_ifs with h1 h2 h3 <;> constructor <;> linarith

def PrefOk (pref : Nat → Rat) : Prop := ∀ i, (1 : Rat) / 20 ≤ pref i ∧ pref i ≤ 20

theorem epVisit_prefOk (F : McForm) (D : MlData Rat) (E : EpOps Rat) (first : Bool) (s : EpInner Rat) (i : Nat)
    (h : PrefOk s.pref) : PrefOk (epVisit F D E first s i).pref := by
  unfold epVisit
  simp only
  cases first with
  | true => simpa using h
  | false =>
    intro j
    simp only [Bool.false_eq_true, if_false]
    split_ifs with hj
    · exact prefNew_bounds _ _ _ _
    · exact h j

theorem epSweep_prefOk (F : McForm) (D : MlData Rat) (E : EpOps Rat) (first : Bool) (sched : List Nat) :
    ∀ s : EpInner Rat, PrefOk s.pref → PrefOk (epSweep F D E first s sched).pref := by
  unfold epSweep
  induction sched with
  | nil => intro s h; exact h
  | cons i t ih => intro s h; exact ih _ (epVisit_prefOk F D E first s i h)

theorem epEpoch_prefOk (F : McForm) (D : MlData Rat) (E : EpOps Rat) (s : EpState Rat) (u : Nat → Rat) (sh : List Nat)
    (h : PrefOk s.inner.pref) : PrefOk (epEpoch F D E s u sh).inner.pref := by
  unfold epEpoch
  exact epSweep_prefOk F D E _ sh _ h

theorem prefOk_one : PrefOk (fun _ => (1.0 : Rat)) := by
  intro _; rw [q10]; constructor <;> norm_num

theorem epStopRule_prefOk (D : MlData Rat) (maxIter : Nat) (s s2 : EpState Rat)
    (h : PrefOk s.inner.pref) (hr : epStopRule D maxIter s = .inr s2) : PrefOk s2.inner.pref := by
  unfold epStopRule at hr
  split_ifs at hr with h1 h2 h3
  · cases hr; exact prefOk_one
  · cases hr; exact h

/-- (4, first half) the preferences stay within [0.05, 20] in every run, for every `exp` and all randomness -/
theorem pref_bounds (F : McForm) (D : MlData Rat) (E : EpOps Rat) (maxIter : Nat)
    (trace : List ((Nat → Rat) × List Nat)) :
    ∀ s : EpState Rat, PrefOk s.inner.pref → PrefOk (epSolve F D E maxIter trace s).final.inner.pref := by
  induction trace with
  | nil => intro s h; exact h
  | cons e rest ih =>
    intro s h
    obtain ⟨u, sh⟩ := e
    have h1 := epEpoch_prefOk F D E s u sh h
    unfold epSolve
    simp only
    split
    · exact h1
    · rename_i s2 hr
      exact ih s2 (epStopRule_prefOk D maxIter _ s2 h1 hr)

example (F : McForm) (D : MlData Rat) (E : EpOps Rat) (tr : List ((Nat → Rat) × List Nat)) :
    PrefOk (epSolve F D E 5 tr (epInit D)).final.inner.pref :=
  pref_bounds F D E 5 tr _ prefOk_one

/-! ### prefsum is the sum of the preferences -/

theorem sum_update (n i : Nat) (hi : i < n) (f : Nat → Rat) (v : Rat) :
    ∑ j ∈ range n, (if j = i then v else f j) = ∑ j ∈ range n, f j + (v - f i) := by
  have h : ∀ j ∈ range n, (if j = i then v else f j) = f j + (if j = i then (v - f i) else 0) := by
    intro j _
    split_ifs with h
    · subst h; ring
    · ring
  have hs : ∑ j ∈ range n, (if j = i then (v - f i) else (0 : Rat)) = v - f i := by
    rw [Finset.sum_eq_single i]
    · simp
    · intro b _ hb; simp [hb]
    · intro h; exact absurd (mem_range.mpr hi) h
  rw [Finset.sum_congr rfl h, Finset.sum_add_distrib, hs]

def PrefsumOk (n : Nat) (s : EpInner Rat) : Prop := s.prefsum = ∑ j ∈ range n, s.pref j

theorem epVisit_prefsum (F : McForm) (D : MlData Rat) (E : EpOps Rat) (first : Bool) (s : EpInner Rat) (i : Nat)
    (hi : i < D.n) (h : PrefsumOk D.n s) : PrefsumOk D.n (epVisit F D E first s i) := by
  unfold PrefsumOk at *
  unfold epVisit
  cases first with
  | true => simpa using h
  | false =>
    simp only [Bool.false_eq_true, if_false]
    rw [sum_update D.n i hi, h]

theorem epSweep_prefsum (F : McForm) (D : MlData Rat) (E : EpOps Rat) (first : Bool) (sched : List Nat) :
    ∀ s : EpInner Rat, (∀ x ∈ sched, x < D.n) → PrefsumOk D.n s → PrefsumOk D.n (epSweep F D E first s sched) := by
  unfold epSweep
  induction sched with
  | nil => intro s _ h; exact h
  | cons i t ih =>
    intro s hs h
    exact ih _ (fun x hx => hs x (List.mem_cons_of_mem _ hx))
      (epVisit_prefsum F D E first s i (hs i List.mem_cons_self) h)

/-- (4, second half) after EVERY epoch — whatever `prefsum` was before it — `prefsum` equals the sum of the
preferences (exact arithmetic; all schedule entries `< ell`, which holds for a shuffle of the constructed
schedule by `acf_written_lt`) -/
theorem epEpoch_prefsum (F : McForm) (D : MlData Rat) (expF : Rat → Rat) (s : EpState Rat) (u : Nat → Rat)
    (hu : ∀ i, 0 ≤ u i) (sh : List Nat) (hsh : ∀ x ∈ sh, x < D.n) :
    PrefsumOk D.n (epEpoch F D (ratOps expF) s u sh).inner := by
  unfold epEpoch
  apply epSweep_prefsum F D (ratOps expF) _ sh _ hsh
  unfold PrefsumOk epBuild
  exact acf_prefsum expF D.n s.inner.pref u hu s.inner.prefsum

/-- … and the `canstop` reset keeps it: the state at the start of every later epoch has `prefsum = Σ pref` -/
theorem epStopRule_prefsum (D : MlData Rat) (maxIter : Nat) (s s2 : EpState Rat)
    (h : PrefsumOk D.n s.inner) (hr : epStopRule D maxIter s = .inr s2) : PrefsumOk D.n s2.inner := by
  unfold epStopRule at hr
  split_ifs at hr with h1 h2 h3
  · cases hr; simp [PrefsumOk, q10]
  · cases hr; exact h

/-! ### max_violation bounds the violations at visit time -/

theorem epVisit_maxViol_ge (F : McForm) (D : MlData Rat) (E : EpOps Rat) (first : Bool) (s : EpInner Rat) (i : Nat) :
    s.maxViol ≤ (epVisit F D E first s i).maxViol ∧
    (0 < kktAt F D s.st i → kktAt F D s.st i ≤ (epVisit F D E first s i).maxViol) := by
  have hmv : (epVisit F D E first s i).maxViol =
      (if kktAt F D s.st i > (0.0 : Rat) then (if s.maxViol < kktAt F D s.st i then kktAt F D s.st i else s.maxViol) else s.maxViol) := by
    unfold epVisit
    cases first <;> simp
  rw [hmv, q00]
  constructor
  · split_ifs with h1 h2
    · exact le_of_lt h2
    · exact le_refl _
    · exact le_refl _
  · intro hpos
    rw [if_pos hpos]
    split_ifs with h2
    · exact le_refl _
    · exact not_lt.mp h2

theorem epSweep_maxViol_mono (F : McForm) (D : MlData Rat) (E : EpOps Rat) (first : Bool) (l : List Nat) :
    ∀ s : EpInner Rat, s.maxViol ≤ (epSweep F D E first s l).maxViol := by
  unfold epSweep
  induction l with
  | nil => intro s; exact le_refl _
  | cons i t ih => intro s; exact (epVisit_maxViol_ge F D E first s i).1.trans (ih _)

/-- `max_violation` at the end of the inner loop (started at 0) bounds the KKT violation AT VISIT TIME of every
visit: for every split `sched = l1 ++ i :: l2`, the violation of example `i` in the state reached after `l1`. -/
theorem maxViol_bounds_visits (F : McForm) (D : MlData Rat) (E : EpOps Rat) (first : Bool)
    (s0 : EpInner Rat) (h0 : s0.maxViol = 0) (l1 l2 : List Nat) (i : Nat) :
    kktAt F D (epSweep F D E first s0 l1).st i ≤ (epSweep F D E first s0 (l1 ++ i :: l2)).maxViol := by
  have e : epSweep F D E first s0 (l1 ++ i :: l2)
      = epSweep F D E first (epVisit F D E first (epSweep F D E first s0 l1) i) l2 := by
    unfold epSweep; rw [List.foldl_append]; rfl
  rw [e]
  have hm := epSweep_maxViol_mono F D E first l2 (epVisit F D E first (epSweep F D E first s0 l1) i)
  have hv := epVisit_maxViol_ge F D E first (epSweep F D E first s0 l1) i
  have h1 := epSweep_maxViol_mono F D E first l1 s0
  by_cases hpos : 0 < kktAt F D (epSweep F D E first s0 l1).st i
  · exact (hv.2 hpos).trans hm
  · have hpos := not_lt.mp hpos
    rw [h0] at h1
    exact hpos.trans (h1.trans (hv.1.trans hm))

/-! ### the stopping rule -/

/-- state property at the start of an epoch: `canstop` implies a uniform preference vector -/
def CanstopInv (D : MlData Rat) (s : EpState Rat) : Prop :=
  s.canstop = true → (∀ i, s.inner.pref i = 1) ∧ s.inner.prefsum = (D.n : Rat)

theorem canstopInv_init (D : MlData Rat) : CanstopInv D (epInit D) := by
  intro _; exact ⟨fun _ => q10, rfl⟩

theorem epStopRule_inv (D : MlData Rat) (maxIter : Nat) (s s2 : EpState Rat)
    (hr : epStopRule D maxIter s = .inr s2) : CanstopInv D s2 := by
  unfold epStopRule at hr
  split_ifs at hr with h1 h2 h3
  · cases hr; intro _; exact ⟨fun _ => q10, rfl⟩
  · cases hr; intro h; simp at h

theorem epStopRule_accuracy (D : MlData Rat) (maxIter : Nat) (s : EpState Rat)
    (hr : epStopRule D maxIter s = .inl .accuracy) : s.canstop = true ∧ s.inner.maxViol < D.eps := by
  unfold epStopRule at hr
  split_ifs at hr with h1 h2 h3
  · cases hr
  · exact ⟨h3, h2⟩

/-- (3) `linear_stop_weak`.  If the run ends with QpAccuracyReached, then for the LAST epoch
(`lastStart`, `lastU`, `lastSh` of the result):
 * it started with `canstop = true`, all preferences 1 and `prefsum = ell`;
 * the final state is the result of that epoch, and its `max_violation < eps`;
 * hence (`uniform_sweep_visits_all`) the schedule it constructed is `[0, …, ell-1]` for any draws `≥ 0`, and
   (`maxViol_bounds_visits`) every visit `lastSh = l1 ++ i :: l2` saw a KKT violation `< eps` AT VISIT TIME.
Nothing follows about the violations at the end of the epoch (later steps change `w`). -/
theorem linear_stop_weak (F : McForm) (D : MlData Rat) (expF : Rat → Rat) (maxIter : Nat)
    (trace : List ((Nat → Rat) × List Nat)) :
    ∀ s : EpState Rat, CanstopInv D s →
    (epSolve F D (ratOps expF) maxIter trace s).stop = some .accuracy →
    let r := epSolve F D (ratOps expF) maxIter trace s
    r.lastStart.canstop = true ∧ (∀ i, r.lastStart.inner.pref i = 1) ∧ r.lastStart.inner.prefsum = (D.n : Rat) ∧
    r.final = epEpoch F D (ratOps expF) r.lastStart r.lastU r.lastSh ∧
    r.final.inner.maxViol < D.eps ∧
    ((∀ i, 0 ≤ r.lastU i) → (epBuild D (ratOps expF) r.lastStart r.lastU).written = List.range D.n) ∧
    (∀ l1 l2 i, r.lastSh = l1 ++ i :: l2 →
      kktAt F D (epSweep F D (ratOps expF) (r.lastStart.epoch == 0)
        { r.lastStart.inner with prefsum := (epBuild D (ratOps expF) r.lastStart r.lastU).prefsum, maxViol := (0.0 : Rat) } l1).st i < D.eps) := by
  induction trace with
  | nil => intro s _ h; simp [epSolve] at h
  | cons e rest ih =>
    intro s hinv hstop
    obtain ⟨u, sh⟩ := e
    unfold epSolve at hstop ⊢
    simp only at hstop ⊢
    split at hstop
    · rename_i r hr
      simp only [Option.some.injEq] at hstop
      subst hstop
      obtain ⟨hc, hv⟩ := epStopRule_accuracy D maxIter _ hr
      have hc' : s.canstop = true := hc
      obtain ⟨hp, hs⟩ := hinv hc'
      refine ⟨hc', hp, hs, ?_, hv, ?_, ?_⟩
      · rfl
      · intro hu
        unfold epBuild
        rw [hs]
        exact (uniform_sweep_visits_all expF D.n s.inner.pref u hu (fun i _ => hp i)).1
      · intro l1 l2 i hsplit
        have hb := maxViol_bounds_visits F D (ratOps expF) (s.epoch == 0)
          { s.inner with prefsum := (epBuild D (ratOps expF) s u).prefsum, maxViol := (0.0 : Rat) } q00 l1 l2 i
        have hfin : (epEpoch F D (ratOps expF) s u sh).inner.maxViol
            = (epSweep F D (ratOps expF) (s.epoch == 0)
                { s.inner with prefsum := (epBuild D (ratOps expF) s u).prefsum, maxViol := (0.0 : Rat) } (l1 ++ i :: l2)).maxViol := by
          rw [← hsplit]; rfl
        rw [hfin] at hv
        exact lt_of_le_of_lt hb hv
    · rename_i s2 hr
      exact ih s2 (epStopRule_inv D maxIter _ s2 hr) hstop

/-- non-vacuity of `linear_stop_weak`: a run that ends with QpAccuracyReached (two examples, minAccuracy 2: the
violations seen in the first epoch are at most 1, so the first epoch — `canstop = true` — stops the run) -/
def epExampleData : MlData Rat :=
  { n := 2, d := 1, classes := 2, x := fun i _ => if i = 0 then 1 else -1, y := fun i => i, C := 1, eps := 2 }

theorem epExample_stops :
    (epSolve .WW epExampleData (ratOps id) 100 [(fun _ => 0, [1, 0])] (epInit epExampleData)).stop = some EpStop.accuracy := by
  decide +kernel

example := linear_stop_weak .WW epExampleData id 100 [(fun _ => 0, [1, 0])] (epInit epExampleData)
  (canstopInv_init _) epExample_stops

example : PrefsumOk 2 (epEpoch .WW epExampleData (ratOps id) (epInit epExampleData) (fun _ => 0) [1, 0]).inner :=
  epEpoch_prefsum .WW epExampleData id _ _ (fun _ => le_refl _) [1, 0] (by decide)

end SharkVerif.Mc
