/-
Cutting a concatenation of blocks by the concatenation of per-block sizes, and reading the
batches of one fold back (`CVFolds::validation(i)`).
-/
import SharkVerif.Lemmas.Dataset
namespace SharkVerif.Dataset

variable {α : Type}

theorem splitBySizes_append (sa sb : List Nat) : ∀ (A B : List α), A.length = sa.sum →
    splitBySizes (A ++ B) (sa ++ sb) = splitBySizes A sa ++ splitBySizes B sb := by
  induction sa with
  | nil => intro A B h; simp at h; subst h; simp [splitBySizes]
  | cons s sa ih =>
    intro A B h
    simp only [List.sum_cons] at h
    have hs : s ≤ A.length := by omega
    simp only [List.cons_append, splitBySizes]
    rw [List.take_append_of_le_length hs, List.drop_append_of_le_length hs]
    rw [ih (A.drop s) B (by simp [List.length_drop]; omega)]

/-- cutting the concatenation of blocks by the concatenated per-block sizes cuts every block by its own sizes -/
theorem splitBySizes_blocks (sizesOf : List α → List Nat) (h : ∀ blk, (sizesOf blk).sum = blk.length) :
    ∀ blocks : List (List α),
    splitBySizes blocks.flatten (blocks.flatMap sizesOf) = blocks.flatMap (fun blk => splitBySizes blk (sizesOf blk)) := by
  intro blocks
  induction blocks with
  | nil => simp [splitBySizes]
  | cons blk blocks ih =>
    simp only [List.flatten_cons, List.flatMap_cons]
    rw [splitBySizes_append _ _ _ _ (h blk).symm, ih]

/-- index ranges of consecutive segments (as `CVFolds(set, starts)` builds them) -/
def segRanges : List Nat → Nat → List (List Nat)
  | [], _ => []
  | c :: cs, acc => ((List.range c).map (· + acc)) :: segRanges cs (acc + c)

/-- reading the batches at the p-th index range of a concatenation of segments gives back the p-th segment -/
theorem segRanges_read (segs : List (List (List α))) : ∀ (pre : List (List α)) (p : Nat) (r : List Nat),
    (segRanges (segs.map List.length) pre.length)[p]? = some r →
    (r.map fun i => (pre ++ segs.flatten).getD i []) = segs.getD p [] := by
  induction segs with
  | nil => intro pre p r h; simp [segRanges] at h
  | cons sg segs ih =>
    intro pre p r h
    cases p with
    | zero =>
      simp only [List.map_cons, segRanges, List.getElem?_cons_zero, Option.some.injEq] at h
      subst h
      simp only [List.map_map, List.flatten_cons, List.getD_cons_zero]
      apply List.ext_getElem?
      intro j
      by_cases hj : j < sg.length
      · simp [hj, List.getD_eq_getElem?_getD, List.getElem?_append_right, List.getElem?_append_left]
      · simp [hj]
    | succ p =>
      simp only [List.map_cons, segRanges, List.getElem?_cons_succ] at h
      have := ih (pre ++ sg) p r (by simpa [List.length_append] using h)
      simpa [List.flatten_cons, List.append_assoc] using this

end SharkVerif.Dataset
