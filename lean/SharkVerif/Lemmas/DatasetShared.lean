/-
Lemmas about the sharing model (Model/DatasetShared.lean): every container operation only *extends*
the heap (cells that exist are never overwritten), keeps addresses valid, and resolves to the
value-level operation of Model/Dataset.lean.
-/
import SharkVerif.Model.DatasetShared
import SharkVerif.Lemmas.Dataset
namespace SharkVerif.Dataset.Shared
open SharkVerif.Dataset

variable {β γ ι κ : Type}

theorem cell_append_lt (h e : Heap β) {a : Nat} (ha : a < h.length) : cell (h ++ e) a = cell h a := by
  simp [cell, List.getD_eq_getElem?_getD, List.getElem?_append_left ha]

/-- **frame lemma**: a container whose addresses are valid does not notice that the heap grows -/
theorem resolve_append (h e : Heap β) (p : PData) (hv : p.valid h) : p.resolve (h ++ e) = p.resolve h := by
  simp only [PData.resolve]
  congr 1
  apply List.map_congr_left
  intro a ha
  exact cell_append_lt h e (hv a ha)

theorem valid_append (h e : Heap β) (p : PData) (hv : p.valid h) : p.valid (h ++ e) := by
  intro a ha
  have := hv a ha
  simp only [List.length_append]
  omega

theorem map_cell_range' (h bs : Heap β) : (List.range' h.length bs.length).map (cell (h ++ bs)) = bs := by
  apply List.ext_getElem (by simp)
  intro i h1 h2
  simp [cell, List.getD_eq_getElem?_getD, List.getElem?_append_right, h2]

theorem alloc_heap (h : Heap β) (d : Data β) : (alloc h d).1 = h ++ d.batches := rfl

theorem alloc_valid (h : Heap β) (d : Data β) : (alloc h d).2.valid (alloc h d).1 := by
  intro a ha
  simp only [alloc, List.mem_range'_1] at ha
  simp only [alloc, List.length_append]
  omega

theorem alloc_resolve (h : Heap β) (d : Data β) : (alloc h d).2.resolve (alloc h d).1 = d := by
  simp only [alloc, PData.resolve, map_cell_range']

/-- what every structural container operation guarantees: the heap is extended, the result is valid in it and
denotes `d'` -/
structure Ext (h : Heap β) (h' : Heap β) (p' : PData) (d' : Data β) : Prop where
  ext : ∃ e, h' = h ++ e
  valid : p'.valid h'
  res : p'.resolve h' = d'

theorem Ext.of_alloc (h : Heap β) (d : Data β) : Ext h (alloc h d).1 (alloc h d).2 d :=
  ⟨⟨_, rfl⟩, alloc_valid h d, alloc_resolve h d⟩

theorem guardIndep_ok (uc : Nat → Nat) (p : PData) (u : Unit) : guardIndep uc p = .ok u ↔ independent uc p = true := by
  unfold guardIndep
  split <;> simp_all

/-- `makeIndependent` never changes the value -/
theorem makeIndependent_ext (h : Heap β) (uc : Nat → Nat) (p : PData) (hv : p.valid h) :
    Ext h (makeIndependent h uc p).1 (makeIndependent h uc p).2 (p.resolve h) := by
  unfold makeIndependent
  split
  · exact ⟨⟨[], by simp⟩, hv, rfl⟩
  · exact Ext.of_alloc h _

theorem splice_spec (uc : Nat → Nat) (p l r : PData) (b : Nat) (h : Heap β) (hv : p.valid h)
    (hs : splice uc p b = .ok (l, r)) :
    l.valid h ∧ r.valid h ∧ (p.resolve h).splice b = .ok (l.resolve h, r.resolve h) ∧ independent uc p = true := by
  simp only [splice, bind_ok, require_ok, guardIndep_ok, pure_ok, Prod.mk.injEq, decide_eq_true_eq] at hs
  obtain ⟨_, hb, _, hind, rfl, rfl⟩ := hs
  refine ⟨fun a ha => hv a (List.mem_of_mem_take ha), fun a ha => hv a (List.mem_of_mem_drop ha), ?_, hind⟩
  simp [Data.splice, require, Data.numberOfBatches, hb, PData.resolve, List.map_take, List.map_drop, bind, Except.bind,
    pure, Except.pure]

theorem append_spec (h : Heap β) (p o : PData) (hp : p.valid h) (ho : o.valid h) :
    (append p o).valid h ∧ (append p o).resolve h = (p.resolve h).append (o.resolve h) := by
  refine ⟨?_, by simp [append, PData.resolve, Data.append]⟩
  intro a ha
  simp only [append, List.mem_append] at ha
  rcases ha with ha | ha
  · exact hp a ha
  · exact ho a ha

theorem pushBack_ext (h : Heap β) (p : PData) (batch : List β) (hv : p.valid h) :
    Ext h (pushBack h p batch).1 (pushBack h p batch).2 ((p.resolve h).pushBack batch) := by
  refine ⟨⟨[batch], rfl⟩, ?_, ?_⟩
  · intro a ha
    simp only [pushBack, List.mem_append, List.mem_singleton] at ha
    simp only [pushBack, List.length_append, List.length_singleton]
    rcases ha with ha | ha
    · have := hv a ha; omega
    · omega
  · have h1 := resolve_append h [batch] p hv
    simp only [PData.resolve, Data.mk.injEq] at h1
    simp only [pushBack, PData.resolve, Data.pushBack, List.map_append, h1.1, List.map_cons, List.map_nil]
    simp [cell, List.getD_eq_getElem?_getD]

theorem mapM_ptrs_ok (ptrs : List Nat) : ∀ (idx r : List Nat), (idx.mapM fun i => ofOpt ptrs[i]?) = .ok r →
    r.map some = idx.map (ptrs[·]?) := by
  intro idx
  induction idx with
  | nil => intro r hr; simp [List.mapM_nil, pure, Except.pure] at hr; subst hr; simp
  | cons i idx ih =>
    intro r hr
    simp only [List.mapM_cons, bind_ok, ofOpt_ok, pure_ok] at hr
    obtain ⟨x, hx, r', hr', rfl⟩ := hr
    simp [hx, ih r' hr']

theorem indexedSubset_spec (h : Heap β) (p q : PData) (idx : List Nat) (hv : p.valid h)
    (hs : indexedSubset p idx = .ok q) :
    q.valid h ∧ (p.resolve h).indexedSubset idx = .ok (q.resolve h) := by
  simp only [indexedSubset, bind_ok, pure_ok] at hs
  obtain ⟨r, hr, rfl⟩ := hs
  have hm := mapM_ptrs_ok p.ptrs idx r hr
  constructor
  · intro a ha
    have : some a ∈ r.map some := List.mem_map_of_mem ha
    rw [hm, List.mem_map] at this
    obtain ⟨i, _, hi⟩ := this
    exact hv a (List.mem_of_getElem? hi)
  · -- the value-level mapM over the resolved batches succeeds with the resolved cells
    have : ∀ (idx r : List Nat), (idx.mapM fun i => ofOpt p.ptrs[i]?) = .ok r →
        (idx.mapM fun i => ofOpt (p.ptrs.map (cell h))[i]?) = .ok (r.map (cell h)) := by
      intro idx
      induction idx with
      | nil => intro r hr; simp [List.mapM_nil, pure, Except.pure] at hr ⊢; subst hr; simp
      | cons i idx ih =>
        intro r hr
        simp only [List.mapM_cons, bind_ok, ofOpt_ok, pure_ok] at hr
        obtain ⟨x, hx, r', hr', rfl⟩ := hr
        simp only [List.mapM_cons, bind_ok, ofOpt_ok, pure_ok]
        exact ⟨cell h x, by simp [hx], r'.map (cell h), ih r' hr', by simp⟩
    simp only [Data.indexedSubset, PData.resolve, bind_ok, pure_ok]
    exact ⟨_, this idx r hr, rfl⟩

theorem reorderElements_ext (h h' : Heap β) (p p' : PData) (idx : List Nat)
    (hs : reorderElements h p idx = .ok (h', p')) :
    ∃ d', (p.resolve h).reorderElements idx = .ok d' ∧ Ext h h' p' d' := by
  simp only [reorderElements, bind_ok, pure_ok, Prod.mk.injEq] at hs
  obtain ⟨d', hd, hh⟩ := hs
  refine ⟨d', hd, ?_⟩
  have := Ext.of_alloc h d'
  rw [hh] at this
  exact this

theorem repartition_ext (h h' : Heap β) (uc : Nat → Nat) (p p' : PData) (sizes : List Nat)
    (hs : repartition h uc p sizes = .ok (h', p')) :
    ∃ d', (p.resolve h).repartitionByLoop sizes = .ok d' ∧ Ext h h' p' d' ∧ independent uc p = true := by
  simp only [repartition, bind_ok, require_ok, guardIndep_ok, pure_ok] at hs
  obtain ⟨_, _, _, _, _, hind, d', hd, hh⟩ := hs
  refine ⟨d', hd, ?_, hind⟩
  have := Ext.of_alloc h d'
  rw [hh] at this
  exact this

theorem transform_ext (h : Heap β) (h' : Heap γ) (p : PData) (f : β → γ) (sh : Shape) :
    Ext h' (transform h h' p f sh).1 (transform h h' p f sh).2 ((p.resolve h).transform f sh) :=
  Ext.of_alloc h' _

theorem splitBatch_ext (h h' : Heap β) (uc : Nat → Nat) (p p' : PData) (b k : Nat) (hv : p.valid h)
    (hs : splitBatch h uc p b k = .ok (h', p')) :
    ∃ d', (p.resolve h).splitBatch b k = .ok d' ∧ Ext h h' p' d' ∧ independent uc p = true := by
  simp only [splitBatch, bind_ok, ofOpt_ok, require_ok, guardIndep_ok, decide_eq_true_eq] at hs
  obtain ⟨a, ha, _, hk, _, hind, hs⟩ := hs
  have hsrc : (p.resolve h).batches[b]? = some (cell h a) := by simp [PData.resolve, ha]
  have hk' : decide (k ≤ (cell h a).length) = true := by simpa using hk
  split at hs
  · rename_i hc
    simp only [pure_ok, Prod.mk.injEq] at hs
    obtain ⟨rfl, rfl⟩ := hs
    refine ⟨p.resolve h, ?_, ⟨⟨[], by simp⟩, hv, rfl⟩, hind⟩
    simp [Data.splitBatch, hsrc, ofOpt, require, hk', hc, bind, Except.bind, pure, Except.pure]
  · rename_i hc
    simp only [pure_ok, Prod.mk.injEq] at hs
    obtain ⟨rfl, rfl⟩ := hs
    refine ⟨_, ?_, ⟨⟨_, rfl⟩, ?_, rfl⟩, hind⟩
    · simp only [Data.splitBatch, hsrc, ofOpt, require, hk', hc, bind, Except.bind, pure, Except.pure, if_false]
      simp only [PData.resolve, Except.ok.injEq, Data.mk.injEq, and_true]
      have e1 : ∀ q : List Nat, (∀ x ∈ q, x < h.length) →
          q.map (cell (h ++ [(cell h a).take k, (cell h a).drop k])) = q.map (cell h) := by
        intro q hq
        apply List.map_congr_left
        intro x hx
        exact cell_append_lt h _ (hq x hx)
      rw [List.map_append, List.map_append, e1 _ (fun x hx => hv x (List.mem_of_mem_take hx)),
        e1 _ (fun x hx => hv x (List.mem_of_mem_drop hx)), List.map_take, List.map_drop]
      simp [cell, List.getD_eq_getElem?_getD]
    · intro x hx
      simp only [List.mem_append, List.mem_cons, List.not_mem_nil, or_false] at hx
      simp only [List.length_append, List.length_cons, List.length_nil]
      rcases hx with (hx | hx | hx) | hx
      · have := hv x (List.mem_of_mem_take hx); omega
      · omega
      · omega
      · have := hv x (List.mem_of_mem_drop hx); omega

end SharkVerif.Dataset.Shared
