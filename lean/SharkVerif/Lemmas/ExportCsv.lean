/-
C19: `exportCSV` → `csvStringToData` at byte level: every `%.<p>e` token is read independently of what follows;
the PEG row reader (`rowsSep`) reads a printed file token by token.  Core Lean only.
-/
import SharkVerif.Lemmas.ExportSvm
import SharkVerif.Lemmas.Peg
import SharkVerif.Model.ImportCsv
namespace SharkVerif.Import.Export
open SharkVerif.Import SharkVerif.Peg

theorem fixedDigits_zero : ∀ k, fixedDigits k 0 = List.replicate k '0'
  | 0 => rfl
  | k+1 => by
    rw [fixedDigits, Nat.zero_div, fixedDigits_zero k, List.replicate_succ']
    rfl

/-- **every token `%.<p>e` prints (`p ≥ 1`) is read independently of what follows**, for every binary64 value -/
theorem real_fmtE_tok (p : Nat) (hp : 0 < p) (v : Val) (hv : isDouble v = true) :
    ∀ rest, TokEnd rest → real (fmtE p v ++ rest) = (readBack (fmtE p v)).map (fun x => (x, rest)) := by
  cases v with
  | nan => exact (readBack_of_forall _ (some .nan) (fun rest hr => real_nan rest hr)).2
  | inf neg => exact (readBack_of_forall _ (some (.inf neg)) (fun rest hr => real_inf neg rest hr)).2
  | fin neg m e =>
    by_cases hm : m = 0
    · subst hm
      apply tok_of_scaled _ neg (0 % 10 * 10 ^ p + 0 % 10 ^ p) ((0 : Int) - p)
      intro rest hr
      have h := real_sci neg 0 0 p 0 rest hp (by decide) hr.noDigit
      have hz := fixedDigits_zero p
      have hshape : fmtE p (Val.fin neg 0 e) ++ rest
          = signOf neg ++ digitChar 0 :: '.' :: (fixedDigits p 0 ++ (expPart 0 ++ rest)) := by
        simp only [fmtE, if_true, hz]
        rw [if_neg (by omega)]
        simp [List.append_assoc]; rfl
      rw [hshape]; exact h
    · have hd := ratOf_bounds neg m e hv
      have hb := sciDigits_exp_bounds p (Val.fin neg m e).ratOf.1 (Val.fin neg m e).ratOf.2
      have h1 := natDigits_length_le _ 309 hd.1 (by decide)
      have h2 := natDigits_length_le _ 324 hd.2.2 (by decide)
      apply tok_of_scaled _ neg _ _
      intro rest hr
      exact real_fmtE p neg m e rest hp hm (by omega) hr.noDigit

/-- the CSV skipper does not move over a character that is neither a blank nor the comment character
(line ends are left to the grammar) -/
theorem skipper_stay (comment c : Char) (t : List Char) (hc : isSpace c = false ∨ c = '\n') (hcc : c ≠ comment) :
    skipper (csvSkipper comment) (c :: t) = c :: t := by
  have hfail : parse id (csvSkipper comment) (c :: t) = .fail := by
    have hne : (c == comment) = false := by simpa using hcc
    rcases hc with hc | rfl
    · have h1 : matchEol (c :: t) = none := by
        unfold matchEol
        split
        · rename_i heq; injection heq with h _; subst h; simp [isSpace] at hc
        · rename_i heq; injection heq with h _; subst h; simp [isSpace] at hc
        · rename_i heq; injection heq with h _; subst h; simp [isSpace] at hc
        · rfl
      simp [csvSkipper, parse, h1, hc, hne]
    · simp [csvSkipper, parse, matchEol, hne]
  unfold skipper
  simp [skipLoop, hfail]

theorem skipper_nil (comment : Char) : skipper (csvSkipper comment) [] = [] := by
  simp [skipper, skipLoop, csvSkipper, parse, matchEol]

/-- a printed token and the value it is read back as -/
structure Tok (tok : List Char) (v' : Val) : Prop where
  ne : tok ≠ []
  chars : AllNum tok
  read : ∀ rest, TokEnd rest → real (tok ++ rest) = some (v', rest)

/-- what the byte-level CSV round trip asks of separator and comment character -/
structure SepOk (sep comment : Char) : Prop where
  sepNum : numChar sep = false
  sepSpace : isSpace sep = false
  sepCom : sep ≠ comment
  sepE : sep ≠ 'E'
  sepI : lower sep ≠ 'i'
  sepP : sep ≠ '('
  comNum : numChar comment = false
  comNl : comment ≠ '\n'
  sepNul : sep.toNat ≠ 0

theorem SepOk.tokEnd_sep {sep comment : Char} (h : SepOk sep comment) (t : List Char) : TokEnd (sep :: t) := by
  intro c t' hh
  injection hh with h1 _
  subst h1
  have hn := h.sepNum
  unfold numChar at hn
  simp only [Bool.or_eq_false_iff, beq_eq_false_iff_ne] at hn
  exact ⟨hn.1.1.1.1.1.1.1.1, hn.1.1.1.1.1.2, hn.1.1.1.1.2, h.sepE, h.sepI, h.sepP⟩

theorem tokEnd_nl (t : List Char) : TokEnd ('\n' :: t) := by
  intro c t' hh
  injection hh with h1 _
  subst h1
  decide

theorem Tok.head {tok : List Char} {v' : Val} (h : Tok tok v') {comment : Char} (hc : numChar comment = false) :
    ∃ c t, tok = c :: t ∧ isSpace c = false ∧ c ≠ comment := by
  cases hh : tok with
  | nil => exact absurd hh h.ne
  | cons c t =>
    have hn := h.chars c (by rw [hh]; simp)
    refine ⟨c, t, rfl, (numChar_props hn).1, ?_⟩
    rintro rfl
    rw [hc] at hn; exact absurd hn (by decide)

/-- one cell: `double_ | …` reads the token -/
theorem parse_cell {sep comment : Char} (hs : SepOk sep comment) {tok : List Char} {v' : Val} (ht : Tok tok v')
    (rest : List Char) (hr : TokEnd rest) :
    parse (skipper (csvSkipper comment)) (cellSepRows sep) (tok ++ rest) = .ok rest [.val v'] := by
  obtain ⟨c, t, hct, hsp, hcc⟩ := ht.head hs.comNum
  have hskip : skipper (csvSkipper comment) (tok ++ rest) = tok ++ rest := by
    rw [hct, List.cons_append]; exact skipper_stay comment c _ (Or.inl hsp) hcc
  simp only [cellSepRows, parse, hskip, ht.read rest hr]

theorem parse_lit_sep {sep comment : Char} (hs : SepOk sep comment) (x : List Char) :
    parse (skipper (csvSkipper comment)) (.lit sep) (sep :: x) = .ok x [] := by
  simp [parse, skipper_stay comment sep x (Or.inl hs.sepSpace) hs.sepCom]

theorem parse_lit_nl {sep comment : Char} (hs : SepOk sep comment) (x : List Char) :
    parse (skipper (csvSkipper comment)) (.lit sep) ('\n' :: x) = .fail := by
  have hne : ('\n' == sep) = false := by
    rw [beq_eq_false_iff_ne]; rintro rfl; have := hs.sepSpace; simp [isSpace] at this
  simp [parse, skipper_stay comment '\n' x (Or.inr rfl) (Ne.symm hs.comNl), hne]

/-- `(S >> A)*` over `S tok S tok … '\n'`, for abstract element and separator parsers -/
theorem listLoop_toks (A S : List Char → Res) (sep : Char)
    (hS : ∀ x, S (sep :: x) = .ok x []) (hSnl : ∀ x, S ('\n' :: x) = .fail)
    (hA : ∀ (tok : List Char) (v' : Val) (rest : List Char), Tok tok v' → TokEnd rest → A (tok ++ rest) = .ok rest [.val v'])
    (hsepEnd : ∀ t, TokEnd (sep :: t)) :
    ∀ (toks : List (List Char × Val)) (f : Nat) (R : List Char) (acc : List Ev),
      (∀ q ∈ toks, Tok q.1 q.2) →
      ((toks.flatMap fun q => sep :: q.1) ++ '\n' :: R).length < f →
      listLoop A S f ((toks.flatMap fun q => sep :: q.1) ++ '\n' :: R) acc
        = .ok ('\n' :: R) (acc ++ toks.map fun q => Ev.val q.2) := by
  intro toks
  induction toks with
  | nil =>
    intro f R acc _ hf
    cases f with
    | zero => simp at hf
    | succ f => simp [listLoop, hSnl]
  | cons q t ih =>
    intro f R acc ht hf
    cases f with
    | zero => simp at hf
    | succ f =>
      have hend : TokEnd ((t.flatMap fun q => sep :: q.1) ++ '\n' :: R) := by
        cases t with
        | nil => exact tokEnd_nl R
        | cons q' t' => simp only [List.flatMap_cons, List.cons_append]; exact hsepEnd _
      have hcell := hA q.1 q.2 _ (ht q (by simp)) hend
      have ih' := ih f R (acc ++ [Ev.val q.2]) (fun x hx => ht x (by simp [hx]))
        (by simp only [List.flatMap_cons, List.cons_append, List.length_cons, List.length_append, List.append_assoc] at hf ⊢; omega)
      simp only [List.flatMap_cons, List.cons_append, List.append_assoc, listLoop, hS, hcell]
      rw [if_pos (by simp only [List.length_cons, List.length_append]; omega), ih']
      simp

theorem parse_mark (skip : List Char → List Char) (a : G) (s : List Char) :
    parse skip (.mark a) s = (match parse skip a s with
      | .ok r e => .ok r (e ++ [.mark])
      | r => r) := by simp only [parse]; cases parse skip a s <;> rfl

theorem parse_list (skip : List Char → List Char) (a sp : G) (s : List Char) :
    parse skip (.list a sp) s = (match parse skip a s with
      | .ok r e => listLoop (parse skip a) (parse skip sp) (r.length + 1) r e
      | .fail => .fail
      | .hang => .hang) := by simp only [parse]; cases parse skip a s <;> rfl

theorem parse_seq (skip : List Char → List Char) (a b : G) (s : List Char) :
    parse skip (.seq a b) s = (match parse skip a s with
      | .ok r1 e1 => (match parse skip b r1 with
        | .ok r2 e2 => .ok r2 (e1 ++ e2)
        | .fail => .fail
        | .hang => .hang)
      | .fail => .fail
      | .hang => .hang) := by
  simp only [parse]
  cases parse skip a s with
  | ok r1 e1 => simp only; cases parse skip b r1 <;> rfl
  | fail => rfl
  | hang => rfl

theorem parse_star (skip : List Char → List Char) (a : G) (s : List Char) :
    parse skip (.star a) s = starLoop (parse skip a) (s.length + 1) s [] := by simp only [parse]

/-- a row of tokens as `exportCSV` writes it (field width 0): `tok sep tok … sep tok` -/
def rowBytes (sep : Char) : List (List Char × Val) → List Char
  | [] => []
  | q :: t => q.1 ++ (t.flatMap fun q => sep :: q.1)

/-- one row: `mark (cell % sep)` consumes the row up to the line end and emits its values and a mark -/
theorem parse_row {sep comment : Char} (hs : SepOk sep comment) (q : List Char × Val) (t : List (List Char × Val))
    (R : List Char) (ht : ∀ x ∈ q :: t, Tok x.1 x.2) :
    parse (skipper (csvSkipper comment)) (.mark (.list (cellSepRows sep) (.lit sep))) (rowBytes sep (q :: t) ++ '\n' :: R)
      = .ok ('\n' :: R) (((q :: t).map fun x => Ev.val x.2) ++ [Ev.mark]) := by
  have hend : TokEnd ((t.flatMap fun q => sep :: q.1) ++ '\n' :: R) := by
    cases t with
    | nil => exact tokEnd_nl R
    | cons q' t' => simp only [List.flatMap_cons, List.cons_append]; exact hs.tokEnd_sep _
  have hcell := parse_cell hs (ht q (by simp)) _ hend
  have hloop := listLoop_toks (parse (skipper (csvSkipper comment)) (cellSepRows sep))
    (parse (skipper (csvSkipper comment)) (.lit sep)) sep (parse_lit_sep hs) (parse_lit_nl hs)
    (fun tok v' rest htok hr => parse_cell hs htok rest hr) hs.tokEnd_sep t
    (((t.flatMap fun q => sep :: q.1) ++ '\n' :: R).length + 1) R [Ev.val q.2]
    (fun x hx => ht x (by simp [hx])) (Nat.lt_succ_self _)
  rw [parse_mark, parse_list]
  simp only [rowBytes, List.append_assoc, hcell, hloop]
  simp

/-- rows after the first: `row '\n' row '\n' …` (each preceded by the line feed that ended the previous row) -/
def tb (sep : Char) : List (List (List Char × Val)) → List Char
  | [] => []
  | r :: t => rowBytes sep r ++ '\n' :: tb sep t

def rowEvents (r : List (List Char × Val)) : List Ev := (r.map fun x => Ev.val x.2) ++ [Ev.mark]

/-- `(eol >> row)*` over the remaining rows; the final line feed is handed back (the row after it is missing) -/
theorem listLoop_rows (A S : List Char → Res) (sep : Char)
    (hS : ∀ x, S ('\n' :: x) = .ok x []) (hAnil : A [] = .fail)
    (hA : ∀ (r : List (List Char × Val)) (R : List Char), r ≠ [] → (∀ x ∈ r, Tok x.1 x.2) →
      A (rowBytes sep r ++ '\n' :: R) = .ok ('\n' :: R) (rowEvents r)) :
    ∀ (rows : List (List (List Char × Val))) (f : Nat) (acc : List Ev),
      (∀ r ∈ rows, r ≠ [] ∧ ∀ x ∈ r, Tok x.1 x.2) → ('\n' :: tb sep rows).length < f →
      listLoop A S f ('\n' :: tb sep rows) acc = .ok ['\n'] (acc ++ rows.flatMap rowEvents) := by
  intro rows
  induction rows with
  | nil =>
    intro f acc _ hf
    cases f with
    | zero => simp at hf
    | succ f => simp [listLoop, tb, hS, hAnil]
  | cons r t ih =>
    intro f acc h hf
    cases f with
    | zero => simp at hf
    | succ f =>
      have hr := hA r (tb sep t) (h r (by simp)).1 (h r (by simp)).2
      have ih' := ih f (acc ++ rowEvents r) (fun x hx => h x (by simp [hx]))
        (by simp only [tb, List.length_cons, List.length_append] at hf ⊢; omega)
      simp only [tb, listLoop, hS, hr]
      have hlt : ('\n' :: tb sep t).length < ('\n' :: (rowBytes sep r ++ '\n' :: tb sep t)).length := by
        simp only [List.length_cons, List.length_append]; omega
      simp only [hlt, if_true, ih']
      simp

theorem flatMap_rows (sep : Char) (r0 : List (List Char × Val)) (rest : List (List (List Char × Val))) :
    ((r0 :: rest).flatMap fun r => rowBytes sep r ++ ['\n']) = rowBytes sep r0 ++ '\n' :: tb sep rest := by
  induction rest generalizing r0 with
  | nil => simp [tb]
  | cons r t ih =>
    have := ih r
    simp only [List.flatMap_cons, List.append_assoc, List.singleton_append] at this ⊢
    rw [this]
    simp [tb]

theorem parse_eol_nl (comment : Char) (hc : comment ≠ '\n') (x : List Char) :
    parse (skipper (csvSkipper comment)) .eol ('\n' :: x) = .ok x [] := by
  simp [parse, skipper_stay comment '\n' x (Or.inr rfl) (Ne.symm hc), matchEol]

theorem parse_eol_nil (comment : Char) : parse (skipper (csvSkipper comment)) .eol [] = .fail := by
  simp [parse, skipper_nil, matchEol]

theorem parse_row_nil (sep comment : Char) :
    parse (skipper (csvSkipper comment)) (.mark (.list (cellSepRows sep) (.lit sep))) [] = .fail := by
  have hr : real [] = none := by decide
  rw [parse_mark, parse_list]
  simp [cellSepRows, parse, skipper_nil, hr]

theorem splitMarks_vals (vs : List Val) (rest cur : List Ev) (acc : List (List Ev)) :
    Csv.splitMarks (vs.map Ev.val ++ rest) cur acc = Csv.splitMarks rest ((vs.map Ev.val).reverse ++ cur) acc := by
  induction vs generalizing cur with
  | nil => simp
  | cons v t ih => simp only [List.map_cons, List.cons_append, Csv.splitMarks, ih]; simp

theorem splitMarks_rows (rows : List (List (List Char × Val))) (acc : List (List Ev)) :
    Csv.splitMarks (rows.flatMap rowEvents) [] acc = acc.reverse ++ rows.map (fun r => r.map fun x => Ev.val x.2) := by
  induction rows generalizing acc with
  | nil => simp [Csv.splitMarks]
  | cons r t ih =>
    have hmap : (r.map fun x => Ev.val x.2) = (r.map (·.2)).map Ev.val := by simp
    simp only [List.flatMap_cons, rowEvents, List.append_assoc, hmap]
    rw [splitMarks_vals]
    simp only [List.singleton_append, Csv.splitMarks, List.append_nil, List.reverse_reverse, ih]
    simp

theorem valsOf_vals (r : List (List Char × Val)) : Csv.valsOf (r.map fun x => Ev.val x.2) = r.map (·.2) := by
  induction r with
  | nil => rfl
  | cons a t ih => simp [Csv.valsOf] at ih ⊢; exact ih

/-- **the row reader of `csvStringToData` reads a printed file token by token** (separator not white space, field
width 0): one row per line, one value per token -/
theorem readRows_print {sep comment : Char} (hs : SepOk sep comment) (r0 : List (List Char × Val))
    (rest : List (List (List Char × Val)))
    (h : ∀ r ∈ r0 :: rest, r ≠ [] ∧ ∀ x ∈ r, Tok x.1 x.2) :
    Csv.readRows ((r0 :: rest).flatMap fun r => rowBytes sep r ++ ['\n']) sep comment
      = some ((r0 :: rest).map fun r => r.map (·.2)) := by
  have hws : Csv.wsSep sep = false := by
    unfold Csv.wsSep
    simp [hs.sepSpace, hs.sepNul]
  obtain ⟨q, t, hqt⟩ : ∃ q t, r0 = q :: t := by
    cases hh : r0 with
    | nil => exact absurd hh (h r0 (by simp)).1
    | cons q t => exact ⟨q, t, rfl⟩
  have hrow0 := parse_row hs q t (tb sep rest) (by rw [← hqt]; exact (h r0 (by simp)).2)
  rw [← hqt] at hrow0
  have hloop := listLoop_rows (parse (skipper (csvSkipper comment)) (.mark (.list (cellSepRows sep) (.lit sep))))
    (parse (skipper (csvSkipper comment)) .eol) sep (parse_eol_nl comment hs.comNl) (parse_row_nil sep comment)
    (fun r R hne hr => by
      obtain ⟨q', t', rfl⟩ : ∃ q t, r = q :: t := by
        cases r with
        | nil => exact absurd rfl hne
        | cons q t => exact ⟨q, t, rfl⟩
      exact parse_row hs q' t' R hr)
    rest (('\n' :: tb sep rest).length + 1) (rowEvents r0) (fun r hr => h r (by simp [hr])) (Nat.lt_succ_self _)
  have hstar : parse (skipper (csvSkipper comment)) (.star .eol) ['\n'] = .ok [] [] := by
    rw [parse_star]
    simp only [List.length_cons, List.length_nil, starLoop, parse_eol_nl comment hs.comNl, parse_eol_nil]
    simp
  unfold Csv.readRows
  simp only [hws, Bool.false_eq_true, if_false, phraseParse, rowsSep]
  rw [flatMap_rows, parse_seq, parse_list, hrow0]
  simp only [rowEvents] at hloop ⊢
  simp only [hloop, hstar, skipper_nil]
  have := splitMarks_rows (r0 :: rest) []
  simp only [List.flatMap_cons, rowEvents, List.reverse_nil, List.nil_append, List.append_assoc] at this
  simp only [List.append_nil, List.append_assoc]
  rw [this, List.map_map]
  congr 1
  apply List.map_congr_left
  intro r _
  exact valsOf_vals r

/-! ### the tokens of `exportCSV` -/

theorem fmtE_ne_nil (p : Nat) (v : Val) : fmtE p v ≠ [] := by
  cases v with
  | nan => show ("nan".toList : List Char) ≠ []; decide
  | inf neg =>
    cases neg
    · show ("inf".toList : List Char) ≠ []; decide
    · show ('-' :: "inf".toList : List Char) ≠ []; decide
  | fin neg m e =>
    simp only [fmtE]
    split
    · simp [expPart]
    · simp [expPart]

theorem readBack_fmtE_some (p : Nat) (hp : 0 < p) (hp17 : p ≤ 17) (v : Val) (hv : isDouble v = true) :
    ∃ v', readBack (fmtE p v) = some v' := by
  cases v with
  | nan => exact ⟨.nan, by show readBack "nan".toList = some Val.nan; decide⟩
  | inf neg =>
    cases neg
    · exact ⟨.inf false, by show readBack "inf".toList = some (Val.inf false); decide⟩
    · exact ⟨.inf true, by show readBack ('-' :: "inf".toList) = some (Val.inf true); decide⟩
  | fin neg m e =>
    have htok := real_fmtE_tok p hp (Val.fin neg m e) hv [] TokEnd.nil
    rw [List.append_nil] at htok
    by_cases hm : m = 0
    · subst hm
      have h := real_sci neg 0 0 p 0 [] hp (by decide) (fun c t h => by simp at h)
      have hshape : fmtE p (Val.fin neg 0 e) = signOf neg ++ digitChar 0 :: '.' :: (fixedDigits p 0 ++ (expPart 0 ++ [])) := by
        simp only [fmtE, if_true, fixedDigits_zero]
        rw [if_neg (by omega)]
        simp [List.append_assoc]; rfl
      obtain ⟨x, hx⟩ := scaled_some neg (0 % 10 * 10 ^ p + 0 % 10 ^ p) ((0 : Int) - p) [] (by omega) (by omega)
      exact ⟨x, by unfold readBack; rw [hshape, h, hx]⟩
    · obtain ⟨hn, hd0, hd⟩ := ratOf_bounds neg m e hv
      have hb := sciDigits_exp_bounds p (Val.fin neg m e).ratOf.1 (Val.fin neg m e).ratOf.2
      have h1 := natDigits_length_le _ 309 hn (by decide)
      have h2 := natDigits_length_le _ 324 hd (by decide)
      have h308 := sciDigits_exp_le_308 p _ _ (by omega) hd0 (ratOf_lt9 neg m e hv) h1
      have h := real_fmtE p neg m e [] hp hm (by omega) (fun c t h => by simp at h)
      rw [List.append_nil] at h
      obtain ⟨x, hx⟩ := scaled_some neg ((sciDigits p (Val.fin neg m e).ratOf.1 (Val.fin neg m e).ratOf.2).1 % 10 ^ (p + 1))
        ((sciDigits p (Val.fin neg m e).ratOf.1 (Val.fin neg m e).ratOf.2).2 - (p : Int)) [] (by omega) (by omega)
      exact ⟨x, by unfold readBack; rw [h, hx]⟩

/-- the value `csvStringToData` obtains for a value `exportCSV` printed (`%.10e` or `%.10g`) -/
def reimportCsv (sci : Bool) (v : Val) : Val := (readBack (csvNum sci 0 v)).getD .nan

theorem csvNum_zero (sci : Bool) (v : Val) : csvNum sci 0 v = if sci then fmtE 10 v else fmtG 10 v := by
  simp [csvNum, pad]

/-- every cell `exportCSV` writes (field width 0) for a binary64 value is a token in the sense of `Tok` -/
theorem tok_csvNum (sci : Bool) (v : Val) (hv : isDouble v = true) : Tok (csvNum sci 0 v) (reimportCsv sci v) := by
  unfold reimportCsv
  rw [csvNum_zero]
  cases sci with
  | true =>
    simp only [if_true]
    obtain ⟨v', h⟩ := readBack_fmtE_some 10 (by decide) (by decide) v hv
    refine ⟨fmtE_ne_nil 10 v, fmtE_chars 10 v, fun rest hr => ?_⟩
    rw [real_fmtE_tok 10 (by decide) v hv rest hr, h]; rfl
  | false =>
    simp only [Bool.false_eq_true, if_false]
    obtain ⟨v', h⟩ := readBack_fmtG_some 10 (by decide) v hv
    refine ⟨fmtG_ne_nil 10 v, fmtG_chars 10 v, fun rest hr => ?_⟩
    rw [real_fmtG_tok 10 v hv rest hr, h]; rfl

theorem csvCells_eq (sci : Bool) (sep : Char) : ∀ (vals : List Val),
    csvCells sci 0 sep vals = rowBytes sep (vals.map fun v => (csvNum sci 0 v, reimportCsv sci v))
  | [] => rfl
  | [x] => by simp [csvCells, rowBytes]
  | x :: y :: t => by
    have ih := csvCells_eq sci sep (y :: t)
    simp only [csvCells, ih, rowBytes, List.map_cons, List.flatMap_cons, List.append_assoc, List.singleton_append, List.cons_append, List.nil_append]

theorem concatOpt_some (ls : List (List Char)) : concatOpt (ls.map some) = some ls.flatten := by
  induction ls with
  | nil => rfl
  | cons a t ih => simp [concatOpt, ih]

/-- **`exportCSV` → `csvStringToData(Data<RealVector>&, …)` FROM BYTES** (unlabelled data; the regression overloads use
the same reader): for every non-empty dataset of non-empty rows of binary64 values, every admissible separator and
comment character, scientific format on or off, field width 0, the row reader applied to the exported bytes returns
one row per element with every value read back token by token. -/
theorem readRows_csvRows {sep comment : Char} (hs : SepOk sep comment) (sci : Bool) (rows : List (List Val))
    (hne : rows ≠ []) (hrow : ∀ r ∈ rows, r ≠ [] ∧ ∀ v ∈ r, isDouble v = true) :
    ∃ bytes, csvRows rows sep sci 0 = some bytes ∧
      Csv.readRows bytes sep comment = some (rows.map fun r => r.map (reimportCsv sci)) := by
  have hprint : csvRows rows sep sci 0
      = some ((rows.map fun r => r.map fun v => (csvNum sci 0 v, reimportCsv sci v)).flatMap fun r => rowBytes sep r ++ ['\n']) := by
    unfold csvRows
    have hmap : (rows.map fun r => if r.isEmpty then none else some (csvCells sci 0 sep r ++ ['\n']))
        = (rows.map fun r => csvCells sci 0 sep r ++ ['\n']).map some := by
      rw [List.map_map]
      apply List.map_congr_left
      intro r hr
      have : r.isEmpty = false := by
        cases r with
        | nil => exact absurd rfl (hrow [] hr).1
        | cons a t => rfl
      simp [this]
    rw [hmap, concatOpt_some]
    congr 1
    rw [List.flatMap_map, List.flatten_eq_flatMap, List.flatMap_map]
    simp only [csvCells_eq, id]
  refine ⟨_, hprint, ?_⟩
  obtain ⟨r0, rest, hrr⟩ : ∃ r0 rest, rows = r0 :: rest := by
    cases rows with
    | nil => exact absurd rfl hne
    | cons a t => exact ⟨a, t, rfl⟩
  subst hrr
  have h := readRows_print hs (r0.map fun v => (csvNum sci 0 v, reimportCsv sci v))
    (rest.map fun r => r.map fun v => (csvNum sci 0 v, reimportCsv sci v))
    (by
      intro r hr
      have hr2 : r ∈ (r0 :: rest).map (fun r => r.map fun v => (csvNum sci 0 v, reimportCsv sci v)) := by simpa using hr
      obtain ⟨r', hr', rfl⟩ := List.mem_map.mp hr2
      refine ⟨by simpa using (hrow r' hr').1, ?_⟩
      intro x hx
      obtain ⟨v, hv, rfl⟩ := List.mem_map.mp hx
      exact tok_csvNum sci v ((hrow r' hr').2 v hv))
  rw [List.map_cons]
  rw [h]
  simp [List.map_map, Function.comp_def]

/-! ### regression rows: labels and inputs in one row -/

theorem rowBytes_append_right (sep : Char) (a b : List (List Char × Val)) (ha : a ≠ []) :
    rowBytes sep (a ++ b) = rowBytes sep a ++ (b.flatMap fun q => sep :: q.1) := by
  cases a with
  | nil => exact absurd rfl ha
  | cons x t => simp [rowBytes, List.flatMap_append]

theorem rowBytes_append_left (sep : Char) (a b : List (List Char × Val)) (hb : b ≠ []) :
    rowBytes sep (a ++ b) = (a.flatMap fun q => q.1 ++ [sep]) ++ rowBytes sep b := by
  induction a with
  | nil => simp
  | cons x t ih =>
    cases t with
    | nil =>
      cases b with
      | nil => exact absurd rfl hb
      | cons y u => simp [rowBytes]
    | cons z t' =>
      have : rowBytes sep (x :: z :: (t' ++ b)) = x.1 ++ sep :: rowBytes sep (z :: (t' ++ b)) := by
        simp [rowBytes]
      simp only [List.cons_append] at ih ⊢
      rw [this, ih]
      simp

/-- the tokens of a vector -/
def toksOf (sci : Bool) (vs : List Val) : List (List Char × Val) := vs.map fun v => (csvNum sci 0 v, reimportCsv sci v)

/-- **`exportCSV` (labelled, vector labels) → row reader, FROM BYTES**: each element is one row holding the label
tokens and the input tokens in the order of the label position -/
theorem readRows_csvRegr {sep comment : Char} (hs : SepOk sep comment) (sci labelFirst : Bool)
    (pts : List (List Val × List Val)) (hne : pts ≠ [])
    (hpt : ∀ p ∈ pts, p.1 ≠ [] ∧ (∀ v ∈ p.1, isDouble v = true) ∧ ∀ v ∈ p.2, isDouble v = true) :
    ∃ bytes, csvRegr pts labelFirst sep sci 0 = some bytes ∧
      Csv.readRows bytes sep comment = some (pts.map fun p =>
        if labelFirst then p.2.map (reimportCsv sci) ++ p.1.map (reimportCsv sci)
        else p.1.map (reimportCsv sci) ++ p.2.map (reimportCsv sci)) := by
  have hprint : csvRegr pts labelFirst sep sci 0
      = some ((pts.map fun p => if labelFirst then toksOf sci p.2 ++ toksOf sci p.1 else toksOf sci p.1 ++ toksOf sci p.2).flatMap
          fun r => rowBytes sep r ++ ['\n']) := by
    unfold csvRegr
    have hmap : (pts.map fun p =>
        if p.1.isEmpty then none
        else if labelFirst then
          some ((p.2.flatMap fun l => csvNum sci 0 l ++ [sep]) ++ csvCells sci 0 sep p.1 ++ ['\n'])
        else
          some (csvCells sci 0 sep p.1 ++ (p.2.flatMap fun l => pad 0 [sep] ++ csvNum sci 0 l) ++ ['\n']))
        = (pts.map fun p => rowBytes sep (if labelFirst then toksOf sci p.2 ++ toksOf sci p.1 else toksOf sci p.1 ++ toksOf sci p.2) ++ ['\n']).map some := by
      rw [List.map_map]
      apply List.map_congr_left
      intro p hp
      have hp1 := (hpt p hp).1
      have hemp : p.1.isEmpty = false := by
        cases h : p.1 with
        | nil => exact absurd h hp1
        | cons a t => rfl
      have htne : toksOf sci p.1 ≠ [] := by
        unfold toksOf
        cases h : p.1 with
        | nil => exact absurd h hp1
        | cons a t => simp
      simp only [hemp, Bool.false_eq_true, if_false, Function.comp]
      cases labelFirst with
      | true =>
        simp only [if_true]
        rw [rowBytes_append_left sep _ _ htne, csvCells_eq]
        simp [toksOf, List.flatMap_map]
      | false =>
        simp only [Bool.false_eq_true, if_false]
        rw [rowBytes_append_right sep _ _ htne, csvCells_eq]
        simp [toksOf, List.flatMap_map, pad]
    rw [hmap, concatOpt_some]
    congr 1
    rw [List.flatten_eq_flatMap, List.flatMap_map, List.flatMap_map]
    simp only [id]
  refine ⟨_, hprint, ?_⟩
  obtain ⟨p0, rest, hrr⟩ : ∃ p0 rest, pts = p0 :: rest := by
    cases pts with
    | nil => exact absurd rfl hne
    | cons a t => exact ⟨a, t, rfl⟩
  subst hrr
  have h := readRows_print hs
    (if labelFirst then toksOf sci p0.2 ++ toksOf sci p0.1 else toksOf sci p0.1 ++ toksOf sci p0.2)
    (rest.map fun p => if labelFirst then toksOf sci p.2 ++ toksOf sci p.1 else toksOf sci p.1 ++ toksOf sci p.2)
    (by
      intro r hr
      have hr2 : r ∈ (p0 :: rest).map (fun p => if labelFirst then toksOf sci p.2 ++ toksOf sci p.1 else toksOf sci p.1 ++ toksOf sci p.2) := by
        simpa using hr
      obtain ⟨p, hp, rfl⟩ := List.mem_map.mp hr2
      obtain ⟨hp1, hd1, hd2⟩ := hpt p hp
      have htne : toksOf sci p.1 ≠ [] := by
        unfold toksOf
        cases h : p.1 with
        | nil => exact absurd h hp1
        | cons a t => simp
      have htok : ∀ x, x ∈ toksOf sci p.1 ∨ x ∈ toksOf sci p.2 → Tok x.1 x.2 := by
        intro x hx
        rcases hx with hx | hx
        · obtain ⟨v, hv, rfl⟩ := List.mem_map.mp hx; exact tok_csvNum sci v (hd1 v hv)
        · obtain ⟨v, hv, rfl⟩ := List.mem_map.mp hx; exact tok_csvNum sci v (hd2 v hv)
      cases labelFirst with
      | true =>
        refine ⟨by simp [htne], fun x hx => htok x ?_⟩
        simp only [if_true, List.mem_append] at hx
        exact hx.symm
      | false =>
        refine ⟨by simp [htne], fun x hx => htok x ?_⟩
        simp only [Bool.false_eq_true, if_false, List.mem_append] at hx
        exact hx)
  rw [List.map_cons, h]
  congr 1
  simp only [List.map_cons, List.map_map, Function.comp_def]
  congr 1
  · cases labelFirst <;> simp [toksOf, List.map_map, Function.comp_def]
  · apply List.map_congr_left
    intro p _
    cases labelFirst <;> simp [toksOf, List.map_map, Function.comp_def]

/-! ### class labels in the first column -/

theorem parse_lexeme (skip : List Char → List Char) (a : G) (s : List Char) :
    parse skip (.lexeme a) s = parse id a (skip s) := by simp only [parse]

/-- the class-label grammar `lexeme[int_ >> -('.' >> *'0') >> !digit]` on a printed label followed by the separator -/
theorem parse_label {sep comment : Char} (hs : SepOk sep comment) (l : Nat) (hl : l ≤ 2147483647) (X : List Char) :
    parse (skipper (csvSkipper comment)) labelG (natDigits l ++ sep :: X) = .ok (sep :: X) [.int (l : Int)] := by
  obtain ⟨c, t, hct, hc⟩ := natDigits_cons l
  have hcc : c ≠ comment := by
    rintro rfl
    have := numChar_of_digit hc
    rw [hs.comNum] at this; exact absurd this (by decide)
  have hskip : skipper (csvSkipper comment) (natDigits l ++ sep :: X) = natDigits l ++ sep :: X := by
    rw [hct, List.cons_append]; exact skipper_stay comment c _ (Or.inl (isDigit_not_space hc)) hcc
  have hn := hs.sepNum
  unfold numChar at hn
  simp only [Bool.or_eq_false_iff, beq_eq_false_iff_ne] at hn
  have hdig : isDigit sep = false := hn.1.1.1.1.1.1.1.1
  have hdot : (sep == '.') = false := by simpa using hn.1.1.1.1.1.2
  have hint := int_natDigits l (sep :: X) hl (noDigitHead_cons _ hdig)
  unfold labelG
  rw [parse_lexeme, hskip]
  simp [parse, hint, hdot, hdig]

theorem parse_sepcell {sep comment : Char} (hs : SepOk sep comment) {tok : List Char} {v' : Val} (ht : Tok tok v')
    (rest : List Char) (hr : TokEnd rest) :
    parse (skipper (csvSkipper comment)) (.seq (.lit sep) cellSepPoints) (sep :: (tok ++ rest)) = .ok rest [.val v'] := by
  obtain ⟨c, t, hct, hsp, hcc⟩ := ht.head hs.comNum
  have hskip : skipper (csvSkipper comment) (tok ++ rest) = tok ++ rest := by
    rw [hct, List.cons_append]; exact skipper_stay comment c _ (Or.inl hsp) hcc
  rw [parse_seq, parse_lit_sep hs]
  simp only [cellSepPoints, parse, hskip, ht.read rest hr]
  rfl

theorem parse_sepcell_nl {sep comment : Char} (hs : SepOk sep comment) (x : List Char) :
    parse (skipper (csvSkipper comment)) (.seq (.lit sep) cellSepPoints) ('\n' :: x) = .fail := by
  rw [parse_seq, parse_lit_nl hs]

/-- `(S tok)*` up to the line end, for an abstract element parser -/
theorem starLoop_toks (P : List Char → Res) (sep : Char)
    (hP : ∀ (tok : List Char) (v' : Val) (rest : List Char), Tok tok v' → TokEnd rest → P (sep :: (tok ++ rest)) = .ok rest [.val v'])
    (hPnl : ∀ x, P ('\n' :: x) = .fail) (hsepEnd : ∀ t, TokEnd (sep :: t)) :
    ∀ (toks : List (List Char × Val)) (f : Nat) (R : List Char) (acc : List Ev),
      (∀ q ∈ toks, Tok q.1 q.2) →
      ((toks.flatMap fun q => sep :: q.1) ++ '\n' :: R).length < f →
      starLoop P f ((toks.flatMap fun q => sep :: q.1) ++ '\n' :: R) acc
        = .ok ('\n' :: R) (acc ++ toks.map fun q => Ev.val q.2) := by
  intro toks
  induction toks with
  | nil =>
    intro f R acc _ hf
    cases f with
    | zero => simp at hf
    | succ f => simp [starLoop, hPnl]
  | cons q t ih =>
    intro f R acc ht hf
    cases f with
    | zero => simp at hf
    | succ f =>
      have hend : TokEnd ((t.flatMap fun q => sep :: q.1) ++ '\n' :: R) := by
        cases t with
        | nil => exact tokEnd_nl R
        | cons q' t' => simp only [List.flatMap_cons, List.cons_append]; exact hsepEnd _
      have hcell := hP q.1 q.2 _ (ht q (by simp)) hend
      have ih' := ih f R (acc ++ [Ev.val q.2]) (fun x hx => ht x (by simp [hx]))
        (by simp only [List.flatMap_cons, List.cons_append, List.length_cons, List.length_append, List.append_assoc] at hf ⊢; omega)
      simp only [List.flatMap_cons, List.cons_append, List.append_assoc, starLoop, hcell]
      have hlt : ((t.flatMap fun q => sep :: q.1) ++ '\n' :: R).length
          < (sep :: (q.1 ++ ((t.flatMap fun q => sep :: q.1) ++ '\n' :: R))).length := by
        simp only [List.length_cons, List.length_append]; omega
      simp only [hlt, if_true, ih']
      simp

/-- a labelled element as tokens: class label and the tokens of its inputs -/
abbrev PointToks := Nat × List (List Char × Val)

def pointBytes (sep : Char) (p : PointToks) : List Char := natDigits p.1 ++ (p.2.flatMap fun q => sep :: q.1)

def pointEvents (p : PointToks) : List Ev := Ev.int (p.1 : Int) :: ((p.2.map fun x => Ev.val x.2) ++ [Ev.mark])

def pointG (sep : Char) : G := .mark (.seq labelG (.star (.seq (.lit sep) cellSepPoints)))

theorem parse_point {sep comment : Char} (hs : SepOk sep comment) (p : PointToks) (R : List Char)
    (hl : p.1 ≤ 2147483647) (hne : p.2 ≠ []) (ht : ∀ x ∈ p.2, Tok x.1 x.2) :
    parse (skipper (csvSkipper comment)) (pointG sep) (pointBytes sep p ++ '\n' :: R) = .ok ('\n' :: R) (pointEvents p) := by
  obtain ⟨q, t, hqt⟩ : ∃ q t, p.2 = q :: t := by
    cases h : p.2 with
    | nil => exact absurd h hne
    | cons q t => exact ⟨q, t, rfl⟩
  have hlab := parse_label hs p.1 hl (q.1 ++ ((t.flatMap fun q => sep :: q.1) ++ '\n' :: R))
  have hloop := starLoop_toks (parse (skipper (csvSkipper comment)) (.seq (.lit sep) cellSepPoints)) sep
    (fun tok v' rest htok hr => parse_sepcell hs htok rest hr) (parse_sepcell_nl hs) hs.tokEnd_sep p.2
    (((p.2.flatMap fun q => sep :: q.1) ++ '\n' :: R).length + 1) R [] ht (Nat.lt_succ_self _)
  unfold pointG pointBytes pointEvents
  rw [parse_mark, parse_seq]
  rw [hqt] at hloop ⊢
  simp only [List.flatMap_cons, List.cons_append, List.append_assoc] at hlab hloop ⊢
  rw [hlab]
  simp only [parse_star, hloop]
  simp

theorem parse_point_nil (sep comment : Char) : parse (skipper (csvSkipper comment)) (pointG sep) [] = .fail := by
  have hr : Import.int [] = none := by decide
  unfold pointG labelG
  rw [parse_mark, parse_seq, parse_lexeme]
  simp [parse, skipper_nil, hr]

/-- `(eol >> line)*` over the remaining lines, for abstract lines -/
theorem listLoop_lines {ρ : Type} (A S : List Char → Res) (bytes : ρ → List Char) (evs : ρ → List Ev) (ok : ρ → Prop)
    (hS : ∀ x, S ('\n' :: x) = .ok x []) (hAnil : A [] = .fail)
    (hA : ∀ (r : ρ) (R : List Char), ok r → A (bytes r ++ '\n' :: R) = .ok ('\n' :: R) (evs r)) :
    ∀ (rows : List ρ) (f : Nat) (acc : List Ev),
      (∀ r ∈ rows, ok r) → ('\n' :: rows.flatMap (fun r => bytes r ++ ['\n'])).length < f →
      listLoop A S f ('\n' :: rows.flatMap (fun r => bytes r ++ ['\n'])) acc = .ok ['\n'] (acc ++ rows.flatMap evs) := by
  intro rows
  induction rows with
  | nil =>
    intro f acc _ hf
    cases f with
    | zero => simp at hf
    | succ f => simp [listLoop, hS, hAnil]
  | cons r t ih =>
    intro f acc h hf
    cases f with
    | zero => simp at hf
    | succ f =>
      have hr := hA r (t.flatMap (fun r => bytes r ++ ['\n'])) (h r (by simp))
      have ih' := ih f (acc ++ evs r) (fun x hx => h x (by simp [hx]))
        (by simp only [List.flatMap_cons, List.length_cons, List.length_append] at hf ⊢; omega)
      simp only [List.flatMap_cons, List.append_assoc, List.singleton_append, listLoop, hS, hr]
      have hlt : ('\n' :: t.flatMap (fun r => bytes r ++ ['\n'])).length
          < ('\n' :: (bytes r ++ '\n' :: t.flatMap (fun r => bytes r ++ ['\n']))).length := by
        simp only [List.length_cons, List.length_append]; omega
      simp only [hlt, if_true, ih']
      simp

theorem splitMarks_points (pts : List PointToks) (acc : List (List Ev)) :
    Csv.splitMarks (pts.flatMap pointEvents) [] acc
      = acc.reverse ++ pts.map (fun p => Ev.int (p.1 : Int) :: p.2.map fun x => Ev.val x.2) := by
  induction pts generalizing acc with
  | nil => simp [Csv.splitMarks]
  | cons p t ih =>
    have hmap : (p.2.map fun x => Ev.val x.2) = (p.2.map (·.2)).map Ev.val := by simp
    simp only [List.flatMap_cons, pointEvents, List.cons_append, List.append_assoc, hmap, Csv.splitMarks]
    rw [splitMarks_vals]
    simp only [List.singleton_append, Csv.splitMarks, List.nil_append]
    rw [ih]
    simp [Function.comp_def]

theorem labelOf_point (p : PointToks) : Csv.labelOf (Ev.int (p.1 : Int) :: p.2.map fun x => Ev.val x.2) = (p.1 : Int) := by
  simp [Csv.labelOf]

theorem valsOf_point (p : PointToks) : Csv.valsOf (Ev.int (p.1 : Int) :: p.2.map fun x => Ev.val x.2) = p.2.map (·.2) := by
  have := valsOf_vals p.2
  simp only [Csv.valsOf, List.filterMap_cons] at this ⊢
  exact this

/-- **the FIRST_COLUMN point reader of `csvStringToData` reads a printed file token by token** -/
theorem readPointsFirst_print {sep comment : Char} (hs : SepOk sep comment) (p0 : PointToks) (rest : List PointToks)
    (h : ∀ p ∈ p0 :: rest, p.1 ≤ 2147483647 ∧ p.2 ≠ [] ∧ ∀ x ∈ p.2, Tok x.1 x.2) :
    Csv.readPointsFirst ((p0 :: rest).flatMap fun p => pointBytes sep p ++ ['\n']) sep comment
      = some ((p0 :: rest).map fun p => ((p.1 : Int), p.2.map (·.2))) := by
  have hws : Csv.wsSep sep = false := by
    unfold Csv.wsSep
    simp [hs.sepSpace, hs.sepNul]
  have h0 := h p0 (by simp)
  have hrow0 := parse_point hs p0 (rest.flatMap fun p => pointBytes sep p ++ ['\n']) h0.1 h0.2.1 h0.2.2
  have hloop := listLoop_lines (parse (skipper (csvSkipper comment)) (pointG sep)) (parse (skipper (csvSkipper comment)) .eol)
    (pointBytes sep) pointEvents (fun p => p.1 ≤ 2147483647 ∧ p.2 ≠ [] ∧ ∀ x ∈ p.2, Tok x.1 x.2)
    (parse_eol_nl comment hs.comNl) (parse_point_nil sep comment)
    (fun p R hp => parse_point hs p R hp.1 hp.2.1 hp.2.2)
    rest (('\n' :: rest.flatMap (fun p => pointBytes sep p ++ ['\n'])).length + 1) (pointEvents p0)
    (fun p hp => h p (by simp [hp])) (Nat.lt_succ_self _)
  have hstar : parse (skipper (csvSkipper comment)) (.star .eol) ['\n'] = .ok [] [] := by
    rw [parse_star]
    simp only [List.length_cons, List.length_nil, starLoop, parse_eol_nl comment hs.comNl, parse_eol_nil]
    simp
  unfold Csv.readPointsFirst
  simp only [hws, Bool.false_eq_true, if_false, phraseParse, pointsFirstSep]
  have hg : G.mark (G.seq labelG (G.star (G.seq (G.lit sep) cellSepPoints))) = pointG sep := rfl
  rw [hg, parse_seq, parse_list]
  simp only [List.flatMap_cons, List.append_assoc, List.singleton_append, hrow0, hloop, hstar, skipper_nil]
  have hsm := splitMarks_points (p0 :: rest) []
  simp only [List.flatMap_cons, List.reverse_nil, List.nil_append] at hsm
  simp only [List.append_nil]
  rw [hsm, List.map_map]
  congr 1
  apply List.map_congr_left
  intro p _
  simp only [Function.comp, labelOf_point, valsOf_point]

theorem sep_rowBytes (sep : Char) (toks : List (List Char × Val)) (hne : toks ≠ []) :
    sep :: rowBytes sep toks = toks.flatMap fun q => sep :: q.1 := by
  cases toks with
  | nil => exact absurd rfl hne
  | cons q t => simp [rowBytes]

/-- **`exportCSV` (class labels, FIRST_COLUMN) → point reader, FROM BYTES** -/
theorem readPointsFirst_csvClass {sep comment : Char} (hs : SepOk sep comment) (sci : Bool) (pts : List (Nat × List Val))
    (hne : pts ≠ [])
    (hpt : ∀ p ∈ pts, p.1 ≤ 2147483647 ∧ p.2 ≠ [] ∧ ∀ v ∈ p.2, isDouble v = true) :
    ∃ bytes, csvClass pts true sep sci 0 = some bytes ∧
      Csv.readPointsFirst bytes sep comment = some (pts.map fun p => ((p.1 : Int), p.2.map (reimportCsv sci))) := by
  have hprint : csvClass pts true sep sci 0
      = some ((pts.map fun p => ((p.1, toksOf sci p.2) : PointToks)).flatMap fun p => pointBytes sep p ++ ['\n']) := by
    unfold csvClass
    have hmap : (pts.map fun p =>
        if p.2.isEmpty then none
        else if true then some (natDigits p.1 ++ [sep] ++ csvCells sci 0 sep p.2 ++ ['\n'])
        else some (csvCells sci 0 sep p.2 ++ [sep] ++ natDigits p.1 ++ ['\n']))
        = (pts.map fun p => pointBytes sep (p.1, toksOf sci p.2) ++ ['\n']).map some := by
      rw [List.map_map]
      apply List.map_congr_left
      intro p hp
      have hp2 := (hpt p hp).2.1
      have hemp : p.2.isEmpty = false := by
        cases h : p.2 with
        | nil => exact absurd h hp2
        | cons a t => rfl
      have htne : toksOf sci p.2 ≠ [] := by
        unfold toksOf
        cases h : p.2 with
        | nil => exact absurd h hp2
        | cons a t => simp
      simp only [hemp, Bool.false_eq_true, if_false, if_true, Function.comp, pointBytes]
      rw [csvCells_eq, ← sep_rowBytes sep _ htne]
      simp [toksOf, List.append_assoc]
    rw [hmap, concatOpt_some]
    congr 1
    rw [List.flatten_eq_flatMap, List.flatMap_map, List.flatMap_map]
    simp only [id]
  refine ⟨_, hprint, ?_⟩
  obtain ⟨p0, rest, hrr⟩ : ∃ p0 rest, pts = p0 :: rest := by
    cases pts with
    | nil => exact absurd rfl hne
    | cons a t => exact ⟨a, t, rfl⟩
  subst hrr
  have h := readPointsFirst_print hs ((p0.1, toksOf sci p0.2) : PointToks) (rest.map fun p => ((p.1, toksOf sci p.2) : PointToks))
    (by
      intro p hp
      have hp2 : p ∈ (p0 :: rest).map (fun p => ((p.1, toksOf sci p.2) : PointToks)) := by simpa using hp
      obtain ⟨p', hp', rfl⟩ := List.mem_map.mp hp2
      obtain ⟨h1, h2, h3⟩ := hpt p' hp'
      refine ⟨h1, ?_, ?_⟩
      · unfold toksOf
        cases hh : p'.2 with
        | nil => exact absurd hh h2
        | cons a t => simp
      · intro x hx
        obtain ⟨v, hv, rfl⟩ := List.mem_map.mp hx
        exact tok_csvNum sci v (h3 v hv))
  rw [List.map_cons, h]
  simp [toksOf, List.map_map, Function.comp_def]

/-! ### class labels in the last column: the record loop -/

theorem parse_alt (skip : List Char → List Char) (a b : G) (s : List Char) :
    parse skip (.alt a b) s = (match parse skip a s with
      | .fail => parse skip b s
      | r => r) := by simp only [parse]; cases parse skip a s <;> rfl

theorem parse_plus (skip : List Char → List Char) (a : G) (s : List Char) :
    parse skip (.plus a) s = (match parse skip a s with
      | .ok r e => starLoop (parse skip a) (r.length + 1) r e
      | .fail => .fail
      | .hang => .hang) := by simp only [parse]; cases parse skip a s <;> rfl

/-- the label grammar on a printed label followed by the line feed -/
theorem parse_label_nl {comment : Char} (hcn : numChar comment = false) (hcl : comment ≠ '\n') (l : Nat) (hl : l ≤ 2147483647)
    (X : List Char) :
    parse (skipper (csvSkipper comment)) labelG (natDigits l ++ '\n' :: X) = .ok ('\n' :: X) [.int (l : Int)] := by
  obtain ⟨c, t, hct, hc⟩ := natDigits_cons l
  have hcc : c ≠ comment := by
    rintro rfl
    have := numChar_of_digit hc
    rw [hcn] at this; exact absurd this (by decide)
  have hskip : skipper (csvSkipper comment) (natDigits l ++ '\n' :: X) = natDigits l ++ '\n' :: X := by
    rw [hct, List.cons_append]; exact skipper_stay comment c _ (Or.inl (isDigit_not_space hc)) hcc
  have hint := int_natDigits l ('\n' :: X) hl (noDigitHead_cons _ (by decide))
  unfold labelG
  rw [parse_lexeme, hskip]
  simp [parse, hint, isDigit]

/-- `cell >> sep` on a token followed by the separator -/
theorem parse_cellsep {sep comment : Char} (hs : SepOk sep comment) {tok : List Char} {v' : Val} (ht : Tok tok v')
    (rest : List Char) :
    parse (skipper (csvSkipper comment)) (.seq cellSepPoints (.lit sep)) (tok ++ sep :: rest) = .ok rest [.val v'] := by
  obtain ⟨c, t, hct, hsp, hcc⟩ := ht.head hs.comNum
  have hskip : skipper (csvSkipper comment) (tok ++ sep :: rest) = tok ++ sep :: rest := by
    rw [hct, List.cons_append]; exact skipper_stay comment c _ (Or.inl hsp) hcc
  rw [parse_seq]
  simp only [cellSepPoints, parse_alt]
  have h1 : parse (skipper (csvSkipper comment)) .real (tok ++ sep :: rest) = .ok (sep :: rest) [.val v'] := by
    simp only [parse, hskip, ht.read _ (hs.tokEnd_sep rest)]
  rw [h1]
  simp only [parse_lit_sep hs]
  rfl

/-- `cell >> sep` fails on the label token (the label is followed by the line feed, not by the separator) -/
theorem parse_cellsep_label {sep comment : Char} (hs : SepOk sep comment) (l : Nat) (X : List Char) :
    parse (skipper (csvSkipper comment)) (.seq cellSepPoints (.lit sep)) (natDigits l ++ '\n' :: X) = .fail := by
  obtain ⟨c, t, hct, hc⟩ := natDigits_cons l
  have hcc : c ≠ comment := by
    rintro rfl
    have := numChar_of_digit hc
    rw [hs.comNum] at this; exact absurd this (by decide)
  have hskip : skipper (csvSkipper comment) (natDigits l ++ '\n' :: X) = natDigits l ++ '\n' :: X := by
    rw [hct, List.cons_append]; exact skipper_stay comment c _ (Or.inl (isDigit_not_space hc)) hcc
  have hd := natDigits_digits l
  rw [hct] at hd
  have hend : NumEnd ('\n' :: X) := by
    intro c' t' hh; injection hh with h1 _; subst h1; decide
  have hreal := real_int false c t ('\n' :: X) ('\n' :: X) 0 hd hend.noDigit (numEnd_not_dot hend) (exponent_none _ hend)
  obtain ⟨x, hx⟩ := scaled_some false ((c :: t).foldl dval 0) 0 ('\n' :: X) (by decide) (by decide)
  rw [hx] at hreal
  have h1 : parse (skipper (csvSkipper comment)) .real (natDigits l ++ '\n' :: X) = .ok ('\n' :: X) [.val x] := by
    have : real (c :: (t ++ '\n' :: X)) = some (x, '\n' :: X) := hreal
    rw [hct, List.cons_append] at hskip
    simp only [parse, hct, List.cons_append, hskip, this]
  rw [parse_seq]
  simp only [cellSepPoints, parse_alt, h1, parse_lit_nl hs]

/-- `(cell >> sep)*` over `tok sep tok sep …`, stopping in front of the label -/
theorem starLoop_cellsep (P : List Char → Res) (sep : Char) (l : Nat)
    (hP : ∀ (tok : List Char) (v' : Val) (rest : List Char), Tok tok v' → P (tok ++ sep :: rest) = .ok rest [.val v'])
    (hPlab : ∀ X, P (natDigits l ++ '\n' :: X) = .fail) :
    ∀ (toks : List (List Char × Val)) (f : Nat) (R : List Char) (acc : List Ev),
      (∀ q ∈ toks, Tok q.1 q.2) →
      ((toks.flatMap fun q => q.1 ++ [sep]) ++ (natDigits l ++ '\n' :: R)).length < f →
      starLoop P f ((toks.flatMap fun q => q.1 ++ [sep]) ++ (natDigits l ++ '\n' :: R)) acc
        = .ok (natDigits l ++ '\n' :: R) (acc ++ toks.map fun q => Ev.val q.2) := by
  intro toks
  induction toks with
  | nil =>
    intro f R acc _ hf
    cases f with
    | zero => simp at hf
    | succ f => simp [starLoop, hPlab]
  | cons q t ih =>
    intro f R acc ht hf
    cases f with
    | zero => simp at hf
    | succ f =>
      have hcell := hP q.1 q.2 ((t.flatMap fun q => q.1 ++ [sep]) ++ (natDigits l ++ '\n' :: R)) (ht q (by simp))
      have ih' := ih f R (acc ++ [Ev.val q.2]) (fun x hx => ht x (by simp [hx]))
        (by simp only [List.flatMap_cons, List.length_cons, List.length_append, List.append_assoc, List.length_nil] at hf ⊢; omega)
      simp only [List.flatMap_cons, List.append_assoc, List.singleton_append, List.cons_append, List.nil_append, starLoop, hcell]
      have hlt : ((t.flatMap fun q => q.1 ++ [sep]) ++ (natDigits l ++ '\n' :: R)).length
          < (q.1 ++ sep :: ((t.flatMap fun q => q.1 ++ [sep]) ++ (natDigits l ++ '\n' :: R))).length := by
        simp only [List.length_cons, List.length_append]; omega
      simp only [hlt, if_true, ih']
      simp

/-- what follows a record: nothing, or the first token of the next record -/
def RecStart (R : List Char) : Prop := R = [] ∨ ∃ c t, R = c :: t ∧ numChar c = true

theorem starLoop_eol_stop {comment : Char} (hcn : numChar comment = false) (R : List Char) (hR : RecStart R) (e : List Ev) :
    starLoop (parse (skipper (csvSkipper comment)) .eol) (R.length + 1) R e = .ok R e ∧ skipper (csvSkipper comment) R = R := by
  rcases hR with rfl | ⟨c, t, rfl, hc⟩
  · simp [starLoop, parse_eol_nil, skipper_nil]
  · have hp := numChar_props hc
    have hcc : c ≠ comment := by rintro rfl; rw [hcn] at hc; exact absurd hc (by decide)
    have hsk := skipper_stay comment c t (Or.inl hp.1) hcc
    have hm : matchEol (c :: t) = none := by
      unfold matchEol
      split
      · rename_i heq; injection heq with h _; subst h; have := hp.1; simp [isSpace] at this
      · rename_i heq; injection heq with h _; subst h; have := hp.1; simp [isSpace] at this
      · rename_i heq; injection heq with h _; exact absurd h hp.2.1
      · rfl
    have hf : parse (skipper (csvSkipper comment)) .eol (c :: t) = .fail := by simp [parse, hsk, hm]
    exact ⟨by simp [starLoop, hf], hsk⟩

/-- a labelled element with the label last, as tokens -/
def recBytes (sep : Char) (p : PointToks) : List Char := (p.2.flatMap fun q => q.1 ++ [sep]) ++ natDigits p.1

def recEvents (p : PointToks) : List Ev := (p.2.map fun x => Ev.val x.2) ++ [Ev.int (p.1 : Int)]

/-- one call of `phrase_parse` in the LAST_COLUMN loop reads one record and stops in front of the next -/
theorem phraseParse_record {sep comment : Char} (hs : SepOk sep comment) (p : PointToks) (R : List Char)
    (hl : p.1 ≤ 2147483647) (ht : ∀ x ∈ p.2, Tok x.1 x.2) (hR : RecStart R) :
    phraseParse (pointLastSep sep) (csvSkipper comment) (recBytes sep p ++ '\n' :: R) = .ok R (recEvents p) := by
  have hloop := starLoop_cellsep (parse (skipper (csvSkipper comment)) (.seq cellSepPoints (.lit sep))) sep p.1
    (fun tok v' rest htok => parse_cellsep hs htok rest) (parse_cellsep_label hs p.1) p.2
    (((p.2.flatMap fun q => q.1 ++ [sep]) ++ (natDigits p.1 ++ '\n' :: R)).length + 1) R [] ht (Nat.lt_succ_self _)
  have hlab := parse_label_nl hs.comNum hs.comNl p.1 hl R
  obtain ⟨hst, hsk⟩ := starLoop_eol_stop hs.comNum R hR []
  unfold phraseParse pointLastSep recBytes recEvents
  rw [parse_seq, parse_star]
  simp only [List.append_assoc] at hloop ⊢
  rw [hloop]
  simp only [parse_seq, hlab, parse_alt, parse_plus, parse_eol_nl comment hs.comNl, hst, hsk]
  simp

theorem recStart_rec (sep : Char) (p : PointToks) (ht : ∀ x ∈ p.2, Tok x.1 x.2) (X : List Char) :
    RecStart (recBytes sep p ++ X) := by
  right
  unfold recBytes
  cases h : p.2 with
  | nil =>
    obtain ⟨c, t, hct, hc⟩ := natDigits_cons p.1
    exact ⟨c, t ++ X, by simp [hct], numChar_of_digit hc⟩
  | cons q t =>
    have hq := ht q (by rw [h]; simp)
    cases hq1 : q.1 with
    | nil => exact absurd hq1 hq.ne
    | cons c t' =>
      refine ⟨c, _, by simp [hq1]; rfl, hq.chars c (by rw [hq1]; simp)⟩

theorem labelOf_vals_int (vs : List (List Char × Val)) (i : Int) :
    Csv.labelOf ((vs.map fun x => Ev.val x.2) ++ [Ev.int i]) = i := by
  induction vs with
  | nil => rfl
  | cons a t ih => simpa [Csv.labelOf, List.find?] using ih

theorem labelOf_rec (p : PointToks) : Csv.labelOf (recEvents p) = (p.1 : Int) := labelOf_vals_int p.2 _

theorem valsOf_rec (p : PointToks) : Csv.valsOf (recEvents p) = p.2.map (·.2) := by
  unfold recEvents
  have := valsOf_vals p.2
  simp only [Csv.valsOf, List.filterMap_append] at this ⊢
  rw [this]; simp

/-- **the hand-written LAST_COLUMN record loop reads a printed file record by record** -/
theorem readPointsLastLoop_print {sep comment : Char} (hs : SepOk sep comment) :
    ∀ (p : PointToks) (rest : List PointToks) (f : Nat) (acc : List (Int × List Val)),
      (∀ x ∈ p :: rest, x.1 ≤ 2147483647 ∧ ∀ y ∈ x.2, Tok y.1 y.2) →
      (((p :: rest).flatMap fun x => recBytes sep x ++ ['\n']).length < f) →
      Csv.readPointsLastLoop (pointLastSep sep) (csvSkipper comment) f ((p :: rest).flatMap fun x => recBytes sep x ++ ['\n']) acc
        = some (acc.reverse ++ (p :: rest).map fun x => ((x.1 : Int), x.2.map (·.2))) := by
  intro p rest
  induction rest generalizing p with
  | nil =>
    intro f acc h hf
    cases f with
    | zero => simp at hf
    | succ f =>
      have hrec := phraseParse_record hs p [] (h p (by simp)).1 (h p (by simp)).2 (Or.inl rfl)
      simp only [List.flatMap_cons, List.flatMap_nil, List.append_nil, List.append_assoc, List.singleton_append,
        Csv.readPointsLastLoop, hrec, labelOf_rec, valsOf_rec]
      simp
  | cons q t ih =>
    intro f acc h hf
    cases f with
    | zero => simp at hf
    | succ f =>
      have hstart : RecStart ((q :: t).flatMap fun x => recBytes sep x ++ ['\n']) := by
        simp only [List.flatMap_cons, List.append_assoc]
        exact recStart_rec sep q (h q (by simp)).2 _
      have hrec := phraseParse_record hs p ((q :: t).flatMap fun x => recBytes sep x ++ ['\n'])
        (h p (by simp)).1 (h p (by simp)).2 hstart
      have ih' := ih q f (((p.1 : Int), p.2.map (·.2)) :: acc) (fun x hx => h x (by simp [hx]))
        (by simp only [List.flatMap_cons, List.length_append, List.length_cons, List.length_nil] at hf ⊢; omega)
      have hne : ((q :: t).flatMap fun x => recBytes sep x ++ ['\n']).isEmpty = false := by
        simp [List.flatMap_cons]
      have hlt : ((q :: t).flatMap fun x => recBytes sep x ++ ['\n']).length
          < (recBytes sep p ++ '\n' :: ((q :: t).flatMap fun x => recBytes sep x ++ ['\n'])).length := by
        simp only [List.length_append, List.length_cons]; omega
      have hshape : ((p :: q :: t).flatMap fun x => recBytes sep x ++ ['\n'])
          = recBytes sep p ++ '\n' :: ((q :: t).flatMap fun x => recBytes sep x ++ ['\n']) := by
        simp [List.flatMap_cons]
      rw [hshape]
      simp only [Csv.readPointsLastLoop, hrec, labelOf_rec, valsOf_rec, hne, Bool.false_eq_true, if_false, hlt, if_true, ih']
      simp

theorem rowBytes_sep (sep : Char) (toks : List (List Char × Val)) (hne : toks ≠ []) :
    rowBytes sep toks ++ [sep] = toks.flatMap fun q => q.1 ++ [sep] := by
  have := rowBytes_append_left sep toks toks hne
  induction toks with
  | nil => exact absurd rfl hne
  | cons q t ih =>
    cases t with
    | nil => simp [rowBytes]
    | cons q' t' =>
      have h2 := ih (by simp) (rowBytes_append_left sep (q' :: t') (q' :: t') (by simp))
      simp only [rowBytes, List.flatMap_cons, List.append_assoc] at h2 ⊢
      rw [← h2]
      simp

/-- **`exportCSV` (class labels, LAST_COLUMN) → the record loop, FROM BYTES** -/
theorem readPointsLast_csvClass {sep comment : Char} (hs : SepOk sep comment) (sci : Bool) (pts : List (Nat × List Val))
    (hne : pts ≠ [])
    (hpt : ∀ p ∈ pts, p.1 ≤ 2147483647 ∧ p.2 ≠ [] ∧ ∀ v ∈ p.2, isDouble v = true) :
    ∃ bytes, csvClass pts false sep sci 0 = some bytes ∧
      Csv.readPointsLast bytes sep comment = some (pts.map fun p => ((p.1 : Int), p.2.map (reimportCsv sci))) := by
  have hprint : csvClass pts false sep sci 0
      = some ((pts.map fun p => ((p.1, toksOf sci p.2) : PointToks)).flatMap fun p => recBytes sep p ++ ['\n']) := by
    unfold csvClass
    have hmap : (pts.map fun p =>
        if p.2.isEmpty then none
        else if false then some (natDigits p.1 ++ [sep] ++ csvCells sci 0 sep p.2 ++ ['\n'])
        else some (csvCells sci 0 sep p.2 ++ [sep] ++ natDigits p.1 ++ ['\n']))
        = (pts.map fun p => recBytes sep (p.1, toksOf sci p.2) ++ ['\n']).map some := by
      rw [List.map_map]
      apply List.map_congr_left
      intro p hp
      have hp2 := (hpt p hp).2.1
      have hemp : p.2.isEmpty = false := by
        cases h : p.2 with
        | nil => exact absurd h hp2
        | cons a t => rfl
      have htne : toksOf sci p.2 ≠ [] := by
        unfold toksOf
        cases h : p.2 with
        | nil => exact absurd h hp2
        | cons a t => simp
      simp only [hemp, Bool.false_eq_true, if_false, Function.comp, recBytes]
      rw [csvCells_eq, ← rowBytes_sep sep _ htne]
      simp [toksOf, List.append_assoc]
    rw [hmap, concatOpt_some]
    congr 1
    rw [List.flatten_eq_flatMap, List.flatMap_map, List.flatMap_map]
    simp only [id]
  refine ⟨_, hprint, ?_⟩
  obtain ⟨p0, rest, hrr⟩ : ∃ p0 rest, pts = p0 :: rest := by
    cases pts with
    | nil => exact absurd rfl hne
    | cons a t => exact ⟨a, t, rfl⟩
  subst hrr
  have hws : Csv.wsSep sep = false := by
    unfold Csv.wsSep
    simp [hs.sepSpace, hs.sepNul]
  unfold Csv.readPointsLast
  simp only [hws, Bool.false_eq_true, if_false, List.map_cons]
  have h := readPointsLastLoop_print hs ((p0.1, toksOf sci p0.2) : PointToks) (rest.map fun p => ((p.1, toksOf sci p.2) : PointToks))
    ((((p0.1, toksOf sci p0.2) : PointToks) :: rest.map fun p => ((p.1, toksOf sci p.2) : PointToks)).flatMap
      fun x => recBytes sep x ++ ['\n']).length.succ []
    (by
      intro p hp
      have hp2 : p ∈ (p0 :: rest).map (fun p => ((p.1, toksOf sci p.2) : PointToks)) := by simpa using hp
      obtain ⟨p', hp', rfl⟩ := List.mem_map.mp hp2
      obtain ⟨h1, h2, h3⟩ := hpt p' hp'
      refine ⟨h1, ?_⟩
      intro x hx
      obtain ⟨v, hv, rfl⟩ := List.mem_map.mp hx
      exact tok_csvNum sci v (h3 v hv))
    (Nat.lt_succ_self _)
  rw [h]
  simp [toksOf, List.map_map, Function.comp_def]

end SharkVerif.Import.Export
