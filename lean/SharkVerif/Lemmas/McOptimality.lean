/-
Optimality gap of eps-KKT points of a concave box-constrained quadratic program, and the link to
the `QpMcBoxDecomp` model: two solver configurations that both stop at accuracy `eps` reach the
same dual objective up to `eps * N * C`.
-/
import SharkVerif.Lemmas.McSmoDefs
import Mathlib.Algebra.Order.BigOperators.Group.Finset
import Mathlib.Algebra.Order.BigOperators.Ring.Finset
namespace SharkVerif.Mc
open Finset

/-! ## Part 1: abstract statement -/

/-- dual objective `D(a) = Σ_v lin v * a v − ½ Σ_v Σ_w a v * Q v w * a w` on `N` variables -/
def dualObj (N : Nat) (lin : Nat → Rat) (Q : Nat → Nat → Rat) (a : Nat → Rat) : Rat :=
  ∑ v ∈ range N, lin v * a v - (1/2) * ∑ v ∈ range N, ∑ w ∈ range N, a v * Q v w * a w

/-- gradient `g v = lin v − Σ_w Q v w * a w` -/
def dualGrad (N : Nat) (lin : Nat → Rat) (Q : Nat → Nat → Rat) (a : Nat → Rat) (v : Nat) : Rat :=
  lin v - ∑ w ∈ range N, Q v w * a w

/-- positive semidefinite on `range N` -/
def PSD (N : Nat) (Q : Nat → Nat → Rat) : Prop :=
  ∀ x : Nat → Rat, 0 ≤ ∑ v ∈ range N, ∑ w ∈ range N, x v * Q v w * x w

/-- feasible for the box `[0, C]^N` -/
def Feasible (N : Nat) (C : Rat) (a : Nat → Rat) : Prop := ∀ v < N, 0 ≤ a v ∧ a v ≤ C

/-- KKT up to `eps` (what `checkKKT() ≤ eps` of QpMcBoxDecomp states): a variable that can grow has gradient ≤ eps,
a variable that can shrink has gradient ≥ −eps -/
def KKTeps (N : Nat) (C eps : Rat) (a g : Nat → Rat) : Prop :=
  ∀ v < N, (a v < C → g v ≤ eps) ∧ (0 < a v → -(g v) ≤ eps)

/-- exact second-order expansion of the quadratic objective (Q symmetric on range N) -/
theorem dualObj_diff (N : Nat) (lin : Nat → Rat) (Q : Nat → Nat → Rat)
    (hsym : ∀ v < N, ∀ w < N, Q v w = Q w v) (a b : Nat → Rat) :
    dualObj N lin Q b - dualObj N lin Q a =
      ∑ v ∈ range N, dualGrad N lin Q a v * (b v - a v)
        - (1/2) * ∑ v ∈ range N, ∑ w ∈ range N, (b v - a v) * Q v w * (b w - a w) := by
  have hswap : ∑ v ∈ range N, ∑ w ∈ range N, a v * Q v w * (b w - a w)
      = ∑ v ∈ range N, ∑ w ∈ range N, (b v - a v) * Q v w * a w := by
    rw [sum_comm]
    refine sum_congr rfl fun v hv => sum_congr rfl fun w hw => ?_
    rw [hsym w (mem_range.mp hw) v (mem_range.mp hv)]; ring
  have hbb : ∑ v ∈ range N, ∑ w ∈ range N, b v * Q v w * b w
      = ∑ v ∈ range N, ∑ w ∈ range N, a v * Q v w * a w
        + ∑ v ∈ range N, ∑ w ∈ range N, a v * Q v w * (b w - a w)
        + ∑ v ∈ range N, ∑ w ∈ range N, (b v - a v) * Q v w * a w
        + ∑ v ∈ range N, ∑ w ∈ range N, (b v - a v) * Q v w * (b w - a w) := by
    simp only [← sum_add_distrib]
    refine sum_congr rfl fun v _ => sum_congr rfl fun w _ => ?_
    ring
  have hgrad : ∑ v ∈ range N, dualGrad N lin Q a v * (b v - a v)
      = ∑ v ∈ range N, lin v * b v - ∑ v ∈ range N, lin v * a v
        - ∑ v ∈ range N, ∑ w ∈ range N, (b v - a v) * Q v w * a w := by
    simp only [← sum_sub_distrib]
    refine sum_congr rfl fun v _ => ?_
    unfold dualGrad
    rw [sub_mul, sum_mul]
    have : ∑ w ∈ range N, Q v w * a w * (b v - a v) = ∑ w ∈ range N, (b v - a v) * Q v w * a w :=
      sum_congr rfl fun w _ => by ring
    rw [this]; ring
  unfold dualObj
  rw [hgrad, hbb, hswap]; ring

/-- per-variable bound used in `kkt_eps_near_optimal` -/
theorem kkt_summand_le (C eps x y g : Rat) (heps : 0 ≤ eps)
    (hx : 0 ≤ x ∧ x ≤ C) (hy : 0 ≤ y ∧ y ≤ C)
    (hup : x < C → g ≤ eps) (hdn : 0 < x → -g ≤ eps) :
    g * (y - x) ≤ eps * C := by
  have hC : 0 ≤ C := le_trans hx.1 hx.2
  rcases le_or_gt x y with hxy | hxy
  · rcases lt_or_ge x C with hxC | hxC
    · have h1 : g * (y - x) ≤ eps * (y - x) :=
        mul_le_mul_of_nonneg_right (hup hxC) (by linarith)
      have h2 : eps * (y - x) ≤ eps * C :=
        mul_le_mul_of_nonneg_left (by linarith) heps
      linarith
    · have : y - x = 0 := by linarith [hy.2]
      rw [this, mul_zero]; exact mul_nonneg heps hC
  · have hx0 : 0 < x := lt_of_le_of_lt hy.1 hxy
    have h1 : (-g) * (x - y) ≤ eps * (x - y) :=
      mul_le_mul_of_nonneg_right (hdn hx0) (by linarith)
    have h2 : eps * (x - y) ≤ eps * C :=
      mul_le_mul_of_nonneg_left (by linarith) heps
    have h3 : g * (y - x) = (-g) * (x - y) := by ring
    linarith

/-- **kkt_eps_near_optimal**: a feasible eps-KKT point is within `eps * N * C` of every feasible point,
in particular of the maximiser -/
theorem kkt_eps_near_optimal (N : Nat) (lin : Nat → Rat) (Q : Nat → Nat → Rat) (C eps : Rat)
    (hC : 0 ≤ C) (heps : 0 ≤ eps) (hsym : ∀ v < N, ∀ w < N, Q v w = Q w v) (hpsd : PSD N Q)
    (a b : Nat → Rat) (ha : Feasible N C a) (hb : Feasible N C b)
    (hk : KKTeps N C eps a (dualGrad N lin Q a)) :
    dualObj N lin Q b - dualObj N lin Q a ≤ eps * N * C := by
  have _ := hC
  rw [dualObj_diff N lin Q hsym a b]
  have hq := hpsd (fun v => b v - a v)
  have hsum : ∑ v ∈ range N, dualGrad N lin Q a v * (b v - a v) ≤ ∑ _v ∈ range N, eps * C := by
    refine sum_le_sum fun v hv => ?_
    have hv' := mem_range.mp hv
    exact kkt_summand_le C eps (a v) (b v) _ heps (ha v hv') (hb v hv') (hk v hv').1 (hk v hv').2
  rw [sum_const, card_range, nsmul_eq_mul] at hsum
  have : (N : Rat) * (eps * C) = eps * N * C := by ring
  linarith

/-- **two stopped configurations**: two feasible eps-KKT points of the same problem (e.g. the results with
shrinking on/off, any cache size, any admissible working-set sequence) have objectives within `eps*N*C` -/
theorem two_kkt_points_close (N : Nat) (lin : Nat → Rat) (Q : Nat → Nat → Rat) (C eps : Rat)
    (hC : 0 ≤ C) (heps : 0 ≤ eps) (hsym : ∀ v < N, ∀ w < N, Q v w = Q w v) (hpsd : PSD N Q)
    (a b : Nat → Rat) (ha : Feasible N C a) (hb : Feasible N C b)
    (hka : KKTeps N C eps a (dualGrad N lin Q a)) (hkb : KKTeps N C eps b (dualGrad N lin Q b)) :
    |dualObj N lin Q b - dualObj N lin Q a| ≤ eps * N * C := by
  have h1 := kkt_eps_near_optimal N lin Q C eps hC heps hsym hpsd a b ha hb hka
  have h2 := kkt_eps_near_optimal N lin Q C eps hC heps hsym hpsd b a hb ha hkb
  exact abs_le.mpr ⟨by linarith, h1⟩

/-! ## Part 2: link to the solver model -/

theorem gradInv_iff_dualGrad (s : McBox Rat) :
    GradInv s ↔ ∀ v < s.activeVar, s.grad v = dualGrad (s.P * s.n) s.lin s.Q s.alpha v :=
  Iff.rfl

/-- configuration independence for the decomposition model: two states of the SAME problem data (same lin and the
same big matrix Q in their respective numberings is not needed here: we compare within one numbering) —
if all variables are active (after `unshrink`), the gradient invariant holds, the box invariant holds and the stored
gradient is eps-KKT, then the current alpha is within eps*nv*C of every feasible point of its own dual -/
theorem state_near_optimal (s : McBox Rat) (hall : s.activeVar = s.P * s.n) (hg : GradInv s) (hb : BoxInv s)
    (hC : 0 ≤ s.C) (eps : Rat) (heps : 0 ≤ eps)
    (hsym : ∀ v < s.P * s.n, ∀ w < s.P * s.n, s.Q v w = s.Q w v) (hpsd : PSD (s.P * s.n) s.Q)
    (hk : KKTeps (s.P * s.n) s.C eps s.alpha s.grad)
    (b : Nat → Rat) (hbf : Feasible (s.P * s.n) s.C b) :
    dualObj (s.P * s.n) s.lin s.Q b - dualObj (s.P * s.n) s.lin s.Q s.alpha ≤ eps * (s.P * s.n : Nat) * s.C := by
  have hgd := (gradInv_iff_dualGrad s).mp hg
  have hk' : KKTeps (s.P * s.n) s.C eps s.alpha (dualGrad (s.P * s.n) s.lin s.Q s.alpha) := by
    intro v hv
    rw [← hgd v (by rw [hall]; exact hv)]
    exact hk v hv
  exact kkt_eps_near_optimal (s.P * s.n) s.lin s.Q s.C eps hC heps hsym hpsd s.alpha b hb hbf hk'

/-! ## Part 3: Gram matrices are PSD -/

/-- a matrix of the form `Q v w = Σ_{t<T} F v t * F w t` (a Gram matrix of feature vectors) is PSD -/
theorem psd_of_gram (N T : Nat) (F : Nat → Nat → Rat) :
    PSD N (fun v w => ∑ t ∈ range T, F v t * F w t) := by
  intro x
  have key : ∑ v ∈ range N, ∑ w ∈ range N, x v * (∑ t ∈ range T, F v t * F w t) * x w
      = ∑ t ∈ range T, (∑ v ∈ range N, x v * F v t) ^ 2 := by
    have h1 : ∀ t, (∑ v ∈ range N, x v * F v t) ^ 2
        = ∑ v ∈ range N, ∑ w ∈ range N, (x v * F v t) * (x w * F w t) := by
      intro t; rw [sq, sum_mul_sum]
    simp only [h1]
    have h2 : ∑ t ∈ range T, ∑ v ∈ range N, ∑ w ∈ range N, (x v * F v t) * (x w * F w t)
        = ∑ v ∈ range N, ∑ t ∈ range T, ∑ w ∈ range N, (x v * F v t) * (x w * F w t) := sum_comm
    rw [h2]
    refine sum_congr rfl fun v _ => ?_
    have h3 : ∑ t ∈ range T, ∑ w ∈ range N, (x v * F v t) * (x w * F w t)
        = ∑ w ∈ range N, ∑ t ∈ range T, (x v * F v t) * (x w * F w t) := sum_comm
    rw [h3]
    refine sum_congr rfl fun w _ => ?_
    rw [mul_sum, sum_mul]
    refine sum_congr rfl fun t _ => ?_
    ring
  show 0 ≤ ∑ v ∈ range N, ∑ w ∈ range N, x v * (∑ t ∈ range T, F v t * F w t) * x w
  rw [key]
  exact sum_nonneg fun t _ => sq_nonneg _

end SharkVerif.Mc
