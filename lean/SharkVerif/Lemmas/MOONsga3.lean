/-
Lemmas for C14: the niche-counting loop of `NSGA3Indicator` returns `K` distinct positions of the front.
-/
import SharkVerif.Lemmas.MOOInd
namespace SharkVerif.MOO
open SharkVerif.Pareto SharkVerif.HV

theorem firstMinPair_isSome : ∀ {l : List (Int × Nat)}, l ≠ [] → ∃ b, firstMinPair l = some b
  | [], h => absurd rfl h
  | c :: cs, _ => by
    simp only [firstMinPair]
    cases firstMinPair cs with
    | none => exact ⟨c, rfl⟩
    | some b => by_cases h : b.1 < c.1 <;> simp [h]

/-- `swap(pairing[k], pairing[c]); ++k` removes exactly the chosen entry -/
theorem takeAt_perm (rem : List NPair) (c : Nat) (hc : c < rem.length) :
    (rem.getD c (0, 0, 0) :: takeAt rem c).Perm rem := by
  cases rem with
  | nil => simp at hc
  | cons h t =>
    unfold takeAt
    by_cases h0 : c = 0
    · subst h0; simp
    · have hc' : c - 1 < t.length := by simp at hc; omega
      have hget : (h :: t).getD c (0, 0, 0) = t[c - 1] := by
        obtain ⟨k, rfl⟩ : ∃ k, c = k + 1 := ⟨c - 1, by omega⟩
        have hk : k < t.length := by simpa using hc'
        simp [List.getD_eq_getElem?_getD, List.getElem?_eq_getElem hk]
      simp only [h0, beq_iff_eq, if_false, hget]
      -- t = A ++ x :: B, t.set (c-1) h = A ++ h :: B
      have hsplit : t = t.take (c - 1) ++ t[c - 1] :: t.drop (c - 1 + 1) := by
        rw [List.getElem_cons_drop, List.take_append_drop]
      have hset : t.set (c - 1) h = t.take (c - 1) ++ h :: t.drop (c - 1 + 1) := by
        rw [List.set_eq_take_append_cons_drop]; simp [hc']
      rw [hset]
      conv => rhs; rw [hsplit]
      refine (List.Perm.cons _ List.perm_middle).trans ?_
      refine (List.Perm.swap _ _ _).trans (List.Perm.cons h ?_)
      exact List.perm_middle.symm

theorem closestPos_lt {rem : List NPair} {index c : Nat} (h : closestPos rem index = some c) : c < rem.length := by
  unfold closestPos at h
  cases hm : firstMinPair ((rem.zipIdx.filter fun e => e.1.2.2 == index).map fun e => (Int.ofNat e.1.1, e.2)) with
  | none => rw [hm] at h; simp at h
  | some b =>
    rw [hm] at h
    simp only [Option.map_some, Option.some.injEq] at h
    obtain ⟨e, he, hb⟩ := List.mem_map.mp (firstMinPair_mem hm)
    have := mem_zipIdx_snd_lt (List.mem_filter.mp he).1
    rw [← h, ← hb]; exact this

theorem closestPos_isSome {rem : List NPair} {index : Nat} (h : rem.any (fun e => e.2.2 == index) = true) :
    ∃ c, closestPos rem index = some c := by
  unfold closestPos
  have hne : ((rem.zipIdx.filter fun e => e.1.2.2 == index).map fun e => (Int.ofNat e.1.1, e.2)) ≠ [] := by
    obtain ⟨e, he, hz⟩ := List.any_eq_true.mp h
    obtain ⟨i, hi, rfl⟩ := List.getElem_of_mem he
    have : (rem[i], i) ∈ rem.zipIdx.filter fun e => e.1.2.2 == index := by
      refine List.mem_filter.mpr ⟨?_, hz⟩
      exact List.mem_zipIdx_iff_getElem?.mpr (by simp [List.getElem?_eq_getElem hi])
    intro hnil
    have hm := List.mem_map_of_mem (f := fun e : NPair × Nat => (Int.ofNat e.1.1, e.2)) this
    rw [hnil] at hm; cases hm
  obtain ⟨b, hb⟩ := firstMinPair_isSome hne
  exact ⟨b.2, by rw [hb]; rfl⟩

theorem firstMinOn_ok {vals : List Nat} {ok : Nat → Bool} {i : Nat} (h : firstMinOn vals ok = some i) : ok i = true := by
  unfold firstMinOn at h
  cases hm : firstMinPair (((List.range vals.length).filter ok).map fun z => (Int.ofNat (vals.getD z 0), z)) with
  | none => rw [hm] at h; simp at h
  | some b =>
    rw [hm] at h
    simp only [Option.map_some, Option.some.injEq] at h
    obtain ⟨z, hz, hb⟩ := List.mem_map.mp (firstMinPair_mem hm)
    rw [← h, ← hb]; exact (List.mem_filter.mp hz).2

theorem firstMinOn_isSome {vals : List Nat} {ok : Nat → Bool} {z : Nat} (hz : z < vals.length) (hok : ok z = true) :
    ∃ i, firstMinOn vals ok = some i := by
  unfold firstMinOn
  have hne : (((List.range vals.length).filter ok).map fun z => (Int.ofNat (vals.getD z 0), z)) ≠ [] := by
    intro hnil
    have : z ∈ (List.range vals.length).filter ok := List.mem_filter.mpr ⟨List.mem_range.mpr hz, hok⟩
    have hm := List.mem_map_of_mem (f := fun z => (Int.ofNat (vals.getD z 0), z)) this
    rw [hnil] at hm; cases hm
  obtain ⟨b, hb⟩ := firstMinPair_isSome hne
  exact ⟨b.2, by rw [hb]; rfl⟩

/-- the loop keeps a sub-multiset of the remaining entries and, when every association is in range, removes exactly
`need` of them -/
theorem nicheSelect_spec : ∀ (need : Nat) (rho : List Nat) (rem : List NPair),
    (∃ taken, (taken ++ nicheSelect need rho rem).Perm rem) ∧
    ((∀ e ∈ rem, e.2.2 < rho.length) → need ≤ rem.length → (nicheSelect need rho rem).length = rem.length - need)
  | 0, rho, rem => ⟨⟨[], by simp [nicheSelect]⟩, fun _ _ => by simp [nicheSelect]⟩
  | need + 1, rho, rem => by
    simp only [nicheSelect]
    cases hf : firstMinOn rho (fun z => rem.any fun e => e.2.2 == z) with
    | none =>
      refine ⟨⟨[], by simp⟩, fun hr hn => ?_⟩
      -- impossible: rem is non-empty and its first entry is associated with a direction in range
      cases rem with
      | nil => simp at hn
      | cons e t =>
        have hz := hr e (by simp)
        obtain ⟨i, hi⟩ := firstMinOn_isSome (ok := fun z => (e :: t).any fun x => x.2.2 == z) hz (by simp)
        rw [hi] at hf; cases hf
    | some index =>
      simp only
      have hany := firstMinOn_ok hf
      obtain ⟨c, hc⟩ := closestPos_isSome hany
      rw [hc]
      simp only
      have hlt := closestPos_lt hc
      have hperm := takeAt_perm rem c hlt
      obtain ⟨⟨taken, ht⟩, hlen⟩ := nicheSelect_spec need (rho.set index (rho.getD index 0 + 1)) (takeAt rem c)
      refine ⟨⟨rem.getD c (0, 0, 0) :: taken, ?_⟩, fun hr hn => ?_⟩
      · exact ((List.Perm.cons _ ht)).trans hperm
      · have hl : (takeAt rem c).length + 1 = rem.length := by
          have := hperm.length_eq; simpa using this
        rw [hlen (fun e he => by
              simp only [List.length_set]
              exact hr e (hperm.subset (List.mem_cons_of_mem _ he))) (by omega)]
        omega

/-- what the association step has to deliver: one entry per archive / front point, directions in range -/
def AssocOK (nz : Nat) (assocOf : List Nat → List Nat → List (Nat × Nat)) : Prop :=
  ∀ front archive, (assocOf front archive).length = archive.length + front.length ∧
    ∀ a ∈ assocOf front archive, a.2 < nz

theorem foldl_set_length {α} (f : List Nat → α → Nat × Nat) : ∀ (as : List α) (rho : List Nat),
    (as.foldl (fun rho a => rho.set (f rho a).1 (f rho a).2) rho).length = rho.length
  | [], rho => rfl
  | a :: as, rho => by simp only [List.foldl_cons]; rw [foldl_set_length f as]; simp

/-- **`NSGA3Indicator::leastContributors` returns `K` distinct positions of the front**, whatever the floating-point
association step produced (one entry per point, directions in range) -/
theorem nsga3Least_spec (nz na : Nat) (assoc : List (Nat × Nat)) (K nf : Nat)
    (hlen : assoc.length = na + nf) (hz : ∀ a ∈ assoc, a.2 < nz) (hK : K ≤ nf) :
    (nsga3Least nz na assoc K).length = K ∧ (nsga3Least nz na assoc K).Nodup ∧
    ∀ x ∈ nsga3Least nz na assoc K, x < nf := by
  unfold nsga3Least
  simp only
  generalize hrho : (assoc.take na).foldl (fun rho a => rho.set a.2 (rho.getD a.2 0 + 1)) (List.replicate nz 0) = rho0
  have hrl : rho0.length = nz := by
    rw [← hrho]
    have := foldl_set_length (fun (rho : List Nat) (a : Nat × Nat) => (a.2, rho.getD a.2 0 + 1)) (assoc.take na) (List.replicate nz 0)
    simpa using this
  generalize hp : (assoc.zipIdx.map fun (a, j) => ((a.1, j, a.2) : NPair)) = pairing
  have hpl : pairing.length = na + nf := by rw [← hp]; simp [hlen]
  have hidx : pairing.map (·.2.1) = List.range (na + nf) := by
    rw [← hp, List.map_map, ← hlen]
    have : ((fun p : NPair => p.2.1) ∘ fun (x : (Nat × Nat) × Nat) => ((x.1.1, x.2, x.1.2) : NPair)) = (·.2) := by
      funext x; rfl
    rw [this, List.zipIdx_map_snd, List.range_eq_range']
  have hzp : ∀ e ∈ pairing, e.2.2 < nz := by
    intro e he
    rw [← hp] at he
    obtain ⟨x, hx, rfl⟩ := List.mem_map.mp he
    exact hz x.1 (List.mem_zipIdx_iff_getElem?.mp hx |> fun h => by
      have := List.mem_of_getElem? h; exact this)
  obtain ⟨⟨taken, hperm⟩, hlenR⟩ := nicheSelect_spec (na + nf - K - na) rho0 (pairing.drop na)
  rw [hlen]
  have hdl : (pairing.drop na).length = nf := by simp [hpl]
  have hR := hlenR (fun e he => by rw [hrl]; exact hzp e ((List.drop_sublist _ _).subset he)) (by omega)
  have hsub : ∀ e ∈ nicheSelect (na + nf - K - na) rho0 (pairing.drop na), e ∈ pairing.drop na :=
    fun e he => hperm.subset (List.mem_append.mpr (Or.inr he))
  have hdidx : (pairing.drop na).map (·.2.1) = List.range' na nf := by
    rw [List.map_drop, hidx, List.range_eq_range', List.drop_range']
    simp
  have hnd : ((nicheSelect (na + nf - K - na) rho0 (pairing.drop na)).map (·.2.1)).Nodup := by
    have h1 : ((taken ++ nicheSelect (na + nf - K - na) rho0 (pairing.drop na)).map (·.2.1)).Nodup := by
      rw [(hperm.map _).nodup_iff, hdidx]; exact List.nodup_range'
    rw [List.map_append] at h1
    exact (List.nodup_append.mp h1).2.1
  have hrange : ∀ e ∈ nicheSelect (na + nf - K - na) rho0 (pairing.drop na), na ≤ e.2.1 ∧ e.2.1 < na + nf := by
    intro e he
    have : e.2.1 ∈ (pairing.drop na).map (·.2.1) := List.mem_map_of_mem (hsub e he)
    rw [hdidx] at this
    have := List.mem_range'.mp this
    omega
  refine ⟨by rw [List.length_map, hR, hdl]; omega, ?_, ?_⟩
  · have hmm : (nicheSelect (na + nf - K - na) rho0 (List.drop na pairing)).map (fun p => p.2.1 - na) =
        ((nicheSelect (na + nf - K - na) rho0 (List.drop na pairing)).map (·.2.1)).map (fun i => i - na) := by
      rw [List.map_map]; rfl
    rw [hmm]
    apply nodup_map_of_inj_on _ _ hnd
    intro a ha b hb e
    obtain ⟨x, hx, rfl⟩ := List.mem_map.mp ha
    obtain ⟨y, hy, rfl⟩ := List.mem_map.mp hb
    have := hrange x hx; have := hrange y hy
    omega
  · intro x hx
    obtain ⟨e, he, rfl⟩ := List.mem_map.mp hx
    have := hrange e he
    omega

theorem nsga3Indicator_ok (nz : Nat) (assocOf : List Nat → List Nat → List (Nat × Nat)) (h : AssocOK nz assocOf) :
    IndOK (nsga3Indicator nz assocOf) := by
  intro front archive K hK
  obtain ⟨hl, hz⟩ := h front archive
  exact nsga3Least_spec nz archive.length (assocOf front archive) K front.length hl hz hK

end SharkVerif.MOO
