/-
Lemmas for `Model/TrainersKernel.lean`: the kernel trainers (NormalizeKernelUnitVariance,
KernelMeanClassifier, RegularizationNetworkTrainer), FisherLDA's scatter solve, and the bridge
between the sums of `Model/LinSolve.lean` (C02) and of `Model/Trainers.lean` (C15).
-/
import SharkVerif.Model.TrainersKernel
import SharkVerif.Lemmas.Trainers
import SharkVerif.Lemmas.Stats
import SharkVerif.Lemmas.Linear
import SharkVerif.Props.C02
import Mathlib.Tactic.Ring
import Mathlib.Tactic.Linarith
import Mathlib.Tactic.FieldSimp
namespace SharkVerif.Trainers
open SharkVerif

/-! ## bridge to the C02 model -/

theorem linsolve_sum_eq_rsum (n : Nat) (f : Nat → Rat) : LinSolve.sum n f = rsum n f := by
  induction n with
  | zero => rfl
  | succ n ih => show LinSolve.sum n f + f n = rsum n f + f n; rw [ih]

/-- **`solve(A, b, symm_pos_def(), ·)` in the vocabulary of the trainers**: C02's `solve_spd_correct` restated
with `rsum` -/
theorem solveSpd_spec (r : Rat → Rat) (n : Nat) (A : Nat → Nat → Rat) (b : Nat → Rat)
    (hr : C02.SqrtSpec r n A) (h0 : LinSolve.potrfInfo false r n A = 0)
    (hsym : ∀ i j, i < n → j < n → A i j = A j i) :
    ∀ i, i < n → rsum n (fun j => A i j * LinSolve.vget (LinSolve.solveSpdArr r n A b) j) = b i := by
  intro i hi
  have h := C02.solve_spd_correct r n A b hr h0 hsym i hi
  unfold LinSolve.mulVec at h
  rw [linsolve_sum_eq_rsum] at h
  exact h

/-! ## double sums over lists -/

theorem lsum_lsum_comm {α β : Type} (l : List α) (m : List β) (F : α → β → Rat) :
    lsum l (fun a => lsum m fun b => F a b) = lsum m (fun b => lsum l fun a => F a b) := by
  induction l with
  | nil => simp [lsum, lsum_zero]
  | cons a t ih =>
    simp only [lsum]
    rw [ih, ← lsum_add]

theorem blockSum_symm (k : Kernel) (hk : ∀ x y, k x y = k y x) (B B' : List Vec) : blockSum k B B' = blockSum k B' B := by
  unfold blockSum
  rw [lsum_lsum_comm]
  exact lsum_congr (fun y _ => lsum_congr (fun x _ => hk x y))

theorem blockSum_append_left (k : Kernel) (A B C : List Vec) : blockSum k (A ++ B) C = blockSum k A C + blockSum k B C := by
  unfold blockSum; rw [lsum_append]

theorem blockSum_append_right (k : Kernel) (A B C : List Vec) : blockSum k A (B ++ C) = blockSum k A B + blockSum k A C := by
  unfold blockSum
  rw [← lsum_add]
  exact lsum_congr (fun x _ => lsum_append B C _)

theorem lsum_blockSum_flatten (k : Kernel) (B : List Vec) (prev : List (List Vec)) (c : Rat) :
    lsum prev (fun B' => c * blockSum k B B') = c * blockSum k B prev.flatten := by
  induction prev with
  | nil => simp [lsum, blockSum, lsum_zero]
  | cons P t ih =>
    simp only [lsum, List.flatten_cons]
    rw [ih, blockSum_append_right]; ring

/-- the batch-pair loop of `NormalizeKernelUnitVariance::train` sums every entry of the kernel matrix exactly once
(for a symmetric kernel: the blocks below the diagonal are counted twice instead of visiting those above) -/
theorem nkuvMeanAux_eq (k : Kernel) (hk : ∀ x y, k x y = k y x) (rest prev : List (List Vec)) :
    nkuvMeanAux k prev rest + blockSum k prev.flatten prev.flatten
      = blockSum k (prev ++ rest).flatten (prev ++ rest).flatten := by
  induction rest generalizing prev with
  | nil => simp [nkuvMeanAux]
  | cons B r ih =>
    have h := ih (prev ++ [B])
    simp only [nkuvMeanAux]
    rw [show prev ++ B :: r = (prev ++ [B]) ++ r by simp, ← h]
    rw [lsum_blockSum_flatten]
    have hf : (prev ++ [B]).flatten = prev.flatten ++ B := by simp
    rw [hf, blockSum_append_left, blockSum_append_right, blockSum_append_right,
      blockSum_symm k hk prev.flatten B]
    ring

theorem nkuvMean_eq (k : Kernel) (hk : ∀ x y, k x y = k y x) (bs : List (List Vec)) :
    nkuvMean k bs = lsum bs.flatten (fun x => lsum bs.flatten fun y => k x y) := by
  have h := nkuvMeanAux_eq k hk bs []
  simp only [List.flatten_nil, List.nil_append] at h
  have h0 : blockSum k [] [] = 0 := rfl
  have h1 : nkuvMeanAux k [] bs = blockSum k bs.flatten bs.flatten := by rw [← h, h0, add_zero]
  unfold nkuvMean
  rw [h1]; rfl

theorem nkuvTrace_eq (k : Kernel) (bs : List (List Vec)) : nkuvTrace k bs = lsum bs.flatten (fun x => k x x) := by
  show bsum bs (fun x => k x x) = _
  exact bsum_eq_flatten bs _

theorem nkuvVariance_eq (k : Kernel) (hk : ∀ x y, k x y = k y x) (bs : List (List Vec)) :
    nkuvVariance k bs = featureVariance k bs.flatten := by
  unfold nkuvVariance featureVariance
  rw [nkuvMean_eq k hk, nkuvTrace_eq, count_eq_flatten]

theorem featureVariance_scale (k : Kernel) (c : Rat) (xs : List Vec) :
    featureVariance (fun x y => c * k x y) xs = c * featureVariance k xs := by
  unfold featureVariance
  rw [lsum_mul_left, lsum_congr (g := fun x => c * lsum xs fun y => k x y) (fun x _ => lsum_mul_left xs c _), lsum_mul_left]
  ring

/-! ## KernelMeanClassifier -/

theorem kmOffset_eq (k : Kernel) (bs : WCData) (c : Nat) :
    kmOffset k bs c = bsum bs (fun p => bsum bs fun q => kmCoef bs c p * kmCoef bs c q * k p.1 q.1) := by
  unfold kmOffset
  set W := classWeight bs c with hW
  have : ∀ p ∈ bs.flatten, (bsum bs fun q => kmCoef bs c p * kmCoef bs c q * k p.1 q.1)
      = (if p.2.1 = c then bsum bs (fun q => if q.2.1 = c then p.2.2 * q.2.2 * k p.1 q.1 else 0) else 0) * (1 / (W * W)) := by
    intro p _
    by_cases hp : p.2.1 = c
    · simp only [hp, if_true]
      rw [bsum_eq_flatten, bsum_eq_flatten, ← lsum_mul_right]
      apply lsum_congr
      intro q _
      by_cases hq : q.2.1 = c
      · simp only [kmCoef, hp, hq, if_true, ← hW]
        by_cases hw : W = 0
        · simp [hw]
        · field_simp
      · simp [kmCoef, hq]
    · simp only [hp, if_false, zero_mul]
      rw [bsum_eq_flatten]
      have : ∀ q ∈ bs.flatten, kmCoef bs c p * kmCoef bs c q * k p.1 q.1 = 0 := by
        intro q _; simp [kmCoef, hp]
      rw [lsum_congr this, lsum_zero]
  rw [bsum_eq_flatten bs (fun p => bsum bs fun q => kmCoef bs c p * kmCoef bs c q * k p.1 q.1), lsum_congr this,
    lsum_mul_right, ← bsum_eq_flatten]
  ring

theorem classWeight_scale (bs : WCData) (s : Rat) (c : Nat) : classWeight (scaleWeights s bs) c = s * classWeight bs c := by
  unfold classWeight scaleWeights
  rw [bsum_eq_flatten, bsum_eq_flatten, flatten_map_map, lsum_map, ← lsum_mul_left]
  exact lsum_congr (fun p _ => by by_cases h : p.2.1 = c <;> simp [h])

theorem kmCoef_scale (bs : WCData) (s : Rat) (hs : s ≠ 0) (c : Nat) (p : Vec × Nat × Rat) :
    kmCoef (scaleWeights s bs) c (p.1, p.2.1, s * p.2.2) = kmCoef bs c p := by
  unfold kmCoef
  rw [classWeight_scale]
  by_cases h : p.2.1 = c
  · simp only [h, if_true]; rw [mul_div_mul_left _ _ hs]
  · simp [h]

/-! ## RegularizationNetworkTrainer -/

/-- `Σ_j (K_ij + [i=j]·σ²)·α_j = Σ_j K_ij α_j + σ² α_i` -/
theorem regnetM_apply (k : Kernel) (bs : List (List (Vec × Vec))) (noise : Rat) (alpha : Nat → Rat) (i : Nat)
    (hi : i < count bs) :
    rsum (count bs) (fun j => regnetM k bs noise i j * alpha j)
      = rsum (count bs) (fun j => k (elemAt bs i).1 (elemAt bs j).1 * alpha j) + noise * alpha i := by
  unfold regnetM
  rw [rsum_congr (g := fun j => k (elemAt bs i).1 (elemAt bs j).1 * alpha j + (if i = j then noise * alpha j else 0))
    (fun j _ => by by_cases h : i = j <;> simp [h]; ring), rsum_add, rsum_ite_eq, if_pos hi]

/-! ## FisherLDA -/

theorem withinScatterMoments_symm (bs : CData) (classes : Nat) (i j : Nat) :
    withinScatterMoments bs classes i j = withinScatterMoments bs classes j i := by
  unfold withinScatterMoments
  apply rsum_congr
  intro c _
  have : bsum bs (fun p => if p.2 = c then p.1.at i * p.1.at j else 0)
      = bsum bs (fun p => if p.2 = c then p.1.at j * p.1.at i else 0) := by
    rw [bsum_eq_flatten, bsum_eq_flatten]
    exact lsum_congr (fun p _ => by by_cases h : p.2 = c <;> simp [h]; ring)
  rw [this]; ring

end SharkVerif.Trainers
