/-
BFGS inverse-Hessian update preserves symmetric positive definiteness (C10).

Part 1 (this file, Mathlib matrices over ℚ): the update of `BFGS::computeSearchDirection`
  H' = H + scale·δδᵀ − (Hγ δᵀ + δ (Hγ)ᵀ)/d,   d = γᵀδ,  scale = (γᵀHγ/d + 1)/d
maps symmetric positive definite `H` to symmetric positive definite `H'` whenever `d > 0`
(`bfgs_update_symPD`), via the identity xᵀH'x = zᵀHz + (δᵀx)²/d with z = x − (δᵀx/d)γ.
Part 2 (`Lemmas/BFGSList.lean`) transports this to the list-based executable model.
-/
import Mathlib.Data.Matrix.Mul
import Mathlib.Tactic.Ring
import Mathlib.Tactic.FieldSimp
import Mathlib.Tactic.Linarith
import Mathlib.Tactic.Positivity
namespace SharkVerif.BFGS
open Matrix

/-- quadratic form of the BFGS-updated matrix -/
theorem bfgs_quadform {n : ℕ} (H : Matrix (Fin n) (Fin n) ℚ) (γ δ x : Fin n → ℚ) (hsym : Hᵀ = H) (d scale : ℚ) :
    x ⬝ᵥ ((H + (scale • vecMulVec δ δ - (1/d) • (vecMulVec (H *ᵥ γ) δ + vecMulVec δ (H *ᵥ γ)))) *ᵥ x)
      = x ⬝ᵥ (H *ᵥ x) + (scale * ((δ ⬝ᵥ x) * (δ ⬝ᵥ x)) - ((γ ⬝ᵥ (H *ᵥ x)) * (δ ⬝ᵥ x) + (δ ⬝ᵥ x) * (γ ⬝ᵥ (H *ᵥ x))) / d) := by
  have h1 : x ⬝ᵥ (H *ᵥ γ) = γ ⬝ᵥ (H *ᵥ x) := by
    rw [dotProduct_mulVec, dotProduct_comm, ← mulVec_transpose, hsym]
  simp only [add_mulVec, sub_mulVec, smul_mulVec, vecMulVec_mulVec, dotProduct_add, dotProduct_sub,
    dotProduct_smul, smul_eq_mul, op_smul_eq_smul]
  have h2 : (H *ᵥ γ) ⬝ᵥ x = γ ⬝ᵥ (H *ᵥ x) := by rw [dotProduct_comm, h1]
  rw [h1, h2, dotProduct_comm x δ]
  ring

/-- symmetric + positive definite, stated with plain quadratic forms -/
def SymPD {n : ℕ} (H : Matrix (Fin n) (Fin n) ℚ) : Prop := Hᵀ = H ∧ ∀ x : Fin n → ℚ, x ≠ 0 → 0 < x ⬝ᵥ (H *ᵥ x)

theorem bfgs_update_symPD {n : ℕ} (H : Matrix (Fin n) (Fin n) ℚ) (γ δ : Fin n → ℚ) (hH : SymPD H)
    (hd : 0 < γ ⬝ᵥ δ) :
    SymPD (H + ((((γ ⬝ᵥ (H *ᵥ γ)) / (γ ⬝ᵥ δ) + 1) / (γ ⬝ᵥ δ)) • vecMulVec δ δ
      - (1 / (γ ⬝ᵥ δ)) • (vecMulVec (H *ᵥ γ) δ + vecMulVec δ (H *ᵥ γ)))) := by
  obtain ⟨hsym, hpd⟩ := hH
  constructor
  · ext i j
    simp [transpose_apply, vecMulVec_apply, add_apply, sub_apply, smul_apply]
    have : H j i = H i j := by have := congrFun (congrFun hsym i) j; simpa [transpose_apply] using this
    rw [this]; ring
  · intro x hx
    set d := γ ⬝ᵥ δ with hdd
    rw [bfgs_quadform H γ δ x hsym]
    set a := δ ⬝ᵥ x
    set qgx := γ ⬝ᵥ (H *ᵥ x)
    set qgg := γ ⬝ᵥ (H *ᵥ γ)
    set qxx := x ⬝ᵥ (H *ᵥ x)
    -- z = x - (a/d) γ
    have hz : (x - (a / d) • γ) ⬝ᵥ (H *ᵥ (x - (a / d) • γ)) = qxx - 2 * (a / d) * qgx + (a / d) ^ 2 * qgg := by
      have h1 : x ⬝ᵥ (H *ᵥ γ) = qgx := by
        rw [dotProduct_mulVec, dotProduct_comm, ← mulVec_transpose, hsym]
      simp only [mulVec_sub, mulVec_smul, sub_dotProduct, dotProduct_sub, smul_dotProduct, dotProduct_smul, smul_eq_mul]
      rw [h1]; ring
    have key : qxx + (((qgg / d + 1) / d) * (a * a) - (qgx * a + a * qgx) / d)
        = (qxx - 2 * (a / d) * qgx + (a / d) ^ 2 * qgg) + a ^ 2 / d := by
      field_simp; ring
    rw [key, ← hz]
    by_cases ha : a = 0
    · have hzx : x - (a / d) • γ = x := by simp [ha]
      rw [hzx, ha]; simp; exact hpd x hx
    · have h1 : 0 < a ^ 2 / d := by positivity
      have h2 : 0 ≤ (x - (a / d) • γ) ⬝ᵥ (H *ᵥ (x - (a / d) • γ)) := by
        by_cases hz0 : x - (a / d) • γ = 0
        · rw [hz0]; simp
        · exact (hpd _ hz0).le
      linarith


end SharkVerif.BFGS
