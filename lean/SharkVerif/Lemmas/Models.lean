/-
C04 helper lemmas: dense layers at the `Rat` instance (exact algebra, parameter packing)
and at the `Real` instance (derivatives).
-/
import Mathlib.Algebra.Order.Field.Rat
import Mathlib.Tactic.Ring
import Mathlib.Tactic.Linarith
import Mathlib.Algebra.BigOperators.Group.List.Basic
import SharkVerif.Model.Models
import SharkVerif.Lemmas.Loss
namespace SharkVerif.Models
open Scalar

theorem sumR_eq_sum (n : Nat) (f : Nat → Rat) : sumR n f = ((List.range n).map f).sum := by
  unfold sumR; exact SharkVerif.Loss.sumL_eq_sum _

theorem sumR_congr (n : Nat) (f g : Nat → Rat) (h : ∀ j, j < n → f j = g j) : sumR n f = sumR n g := by
  rw [sumR_eq_sum, sumR_eq_sum]
  congr 1
  apply List.map_congr_left
  intro j hj; exact h j (List.mem_range.1 hj)

/-! ### row-major packing `to_vector(m_matrix) | m_offset` -/

theorem flatRows_length {β : Type} (a b : Nat) (f : Nat → Nat → β) :
    ((List.range a).flatMap fun k => (List.range b).map fun j => f k j).length = a * b := by
  induction a with
  | zero => simp
  | succ a ih =>
    rw [List.range_succ, List.flatMap_append, List.length_append, ih]
    simp [Nat.succ_mul]

theorem flatRows_getD {β : Type} (a b : Nat) (f : Nat → Nat → β) (d : β) (k j : Nat) (hk : k < a) (hj : j < b) :
    ((List.range a).flatMap fun k => (List.range b).map fun j => f k j).getD (k * b + j) d = f k j := by
  induction a with
  | zero => omega
  | succ a ih =>
    rw [List.range_succ, List.flatMap_append]
    rcases Nat.lt_or_ge k a with h | h
    · have hlen := flatRows_length a b f
      have hlt : k * b + j < a * b := by
        calc k * b + j < k * b + b := by omega
          _ = (k + 1) * b := by rw [Nat.succ_mul]
          _ ≤ a * b := Nat.mul_le_mul_right b h
      rw [List.getD_eq_getElem?_getD, List.getElem?_append_left (by rw [hlen]; exact hlt),
        ← List.getD_eq_getElem?_getD]
      exact ih h
    · have hka : k = a := by omega
      subst hka
      have hlen := flatRows_length k b f
      rw [List.getD_eq_getElem?_getD, List.getElem?_append_right (by rw [hlen]; omega), hlen]
      simp [hj]

end SharkVerif.Models
