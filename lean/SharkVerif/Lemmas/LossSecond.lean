/-
C06: (A) the second-derivative overload of the class-label `CrossEntropy` (`ceHessian`,
Model/Loss2.lean): value and gradient are those of the first-derivative call, and the returned
Hessian is the derivative of the returned gradient; (B) the gradients of the regularizers
`oneNorm`, `twoNormMasked`, `oneNormMasked` (Model/Loss.lean).  All over the `Scalar ℝ` instance.
-/
import Mathlib.Analysis.Calculus.Deriv.Basic
import Mathlib.Analysis.Calculus.Deriv.Add
import Mathlib.Analysis.Calculus.Deriv.Mul
import Mathlib.Analysis.Calculus.Deriv.Pow
import Mathlib.Analysis.Calculus.Deriv.Inv
import Mathlib.Analysis.SpecialFunctions.ExpDeriv
import Mathlib.Tactic.Ring
import Mathlib.Tactic.Linarith
import Mathlib.Tactic.FieldSimp
import Mathlib.Tactic.NormNum
import Mathlib.Tactic.LinearCombination
import SharkVerif.Lemmas.LossDeriv
import SharkVerif.Model.Loss2
namespace SharkVerif.Loss
open Scalar

/-! ## A1. value and gradient of the second-derivative overload = those of the first-derivative call -/

theorem ceHessian_value (c : ℕ) (p : List ℝ) :
    (ceHessian Real.exp Real.log c p).1 = (ceRowEvalDerivative Real.exp Real.log c p).1 := by
  unfold ceHessian ceRowEvalDerivative
  split <;> rfl

theorem ceHessian_gradient (c : ℕ) (p : List ℝ) :
    (ceHessian Real.exp Real.log c p).2.1 = (ceRowEvalDerivative Real.exp Real.log c p).2 := by
  unfold ceHessian ceRowEvalDerivative
  split <;> rfl

/-! ## A2. one output: `d/dp [−y(1 − σ(p))] = σ(1 − σ)` for `y = 2c − 1 ∈ {−1, 1}` -/

theorem hasDerivAt_logistic_grad (y p : ℝ) (hy : y * y = 1) :
    HasDerivAt (fun t => -y * (1 - 1 / (1 + Real.exp (-y * t))))
      (1 / (1 + Real.exp (-y * p)) * (1 - 1 / (1 + Real.exp (-y * p)))) p := by
  have hpos : 0 < 1 + Real.exp (-y * p) := by positivity
  have h1 : HasDerivAt (fun t => -y * t) (-y) p := by
    simpa using (hasDerivAt_id p).const_mul (-y)
  have h3 : HasDerivAt (fun t => 1 + Real.exp (-y * t)) (Real.exp (-y * p) * (-y)) p := h1.exp.const_add 1
  have h4 := ((hasDerivAt_const p (1 : ℝ)).fun_div h3 (ne_of_gt hpos)).const_sub 1
  have h5 := h4.const_mul (-y)
  refine h5.congr_deriv ?_
  have hE := Real.exp_pos (-y * p)
  generalize Real.exp (-y * p) = E at *
  field_simp
  linear_combination E * hy

/-- **A2**: for a class label `c < 2` (so that `y = 2c − 1 = ±1`) the `1 × 1` Hessian `σ(1−σ)`
returned by the second-derivative overload is the derivative of the returned gradient `−y(1−σ)`.
(For `c ≥ 2` the derivative of the returned gradient is `y²σ(1−σ) ≠ σ(1−σ)`.) -/
theorem ceHessian_binary_correct (c : ℕ) (hc : c < 2) (p : ℝ) :
    HasDerivAt (fun t => ((ceHessian Real.exp Real.log c [t]).2.1).getD 0 0)
      (((ceHessian Real.exp Real.log c [p]).2.2.getD 0 []).getD 0 0) p := by
  have hy : (2 * (c : ℝ) - 1) * (2 * (c : ℝ) - 1) = 1 := by
    have : c = 0 ∨ c = 1 := by omega
    rcases this with rfl | rfl <;> norm_num
  have hg : ∀ t, ((ceHessian Real.exp Real.log c [t]).2.1).getD 0 0
      = -(2 * (c : ℝ) - 1) * (1 - 1 / (1 + Real.exp (-(2 * (c : ℝ) - 1) * t))) := by
    intro t
    unfold ceHessian
    simp only [List.length_cons, List.length_nil, Nat.zero_add, ↓reduceIte, List.getD_cons_zero, two_real]
    rfl
  have hh : ((ceHessian Real.exp Real.log c [p]).2.2.getD 0 []).getD 0 0
      = 1 / (1 + Real.exp (-(2 * (c : ℝ) - 1) * p)) * (1 - 1 / (1 + Real.exp (-(2 * (c : ℝ) - 1) * p))) := by
    unfold ceHessian
    simp only [List.length_cons, List.length_nil, Nat.zero_add, ↓reduceIte, List.getD_cons_zero, two_real]
    rfl
  simp only [hg]
  rw [hh]
  exact hasDerivAt_logistic_grad _ p hy

/-! ## A3. several outputs: `∂ softmax_i / ∂ p_j = s_i (δ_ij − s_j)` -/

/-- the softmax vector `g` the model computes with the `max` shift is the plain softmax -/
theorem ce_softmax_getD (p : List ℝ) (i : ℕ) (hi : i < p.length) :
    ((p.map fun x => Real.exp (x - maxL p)).map fun x =>
        x / sumL (p.map fun x => Real.exp (x - maxL p))).getD i 0
      = Real.exp (p.getD i 0) / (p.map Real.exp).sum := by
  have hne : p ≠ [] := by intro e; rw [e] at hi; simp at hi
  rw [List.getD_eq_getElem?_getD, List.getElem?_map, List.getElem?_map, List.getD_eq_getElem?_getD,
    List.getElem?_eq_getElem hi]
  simp only [Option.map_some, Option.getD_some]
  rw [sumL_eq_sum_real, sum_exp_shift, sub_eq_add_neg, Real.exp_add]
  have h1 := Real.exp_pos (-maxL p)
  have h2 := sum_exp_pos p hne
  field_simp

theorem getD_map_range {β : Type} (f : ℕ → β) (n i : ℕ) (d : β) (hi : i < n) :
    ((List.range n).map f).getD i d = f i := by
  rw [List.getD_eq_getElem?_getD, List.getElem?_map, List.getElem?_range hi]
  rfl

theorem ceHessian_grad_getD (c i : ℕ) (p : List ℝ) (hlen : 2 ≤ p.length) (hi : i < p.length) :
    ((ceHessian Real.exp Real.log c p).2.1).getD i 0
      = Real.exp (p.getD i 0) / (p.map Real.exp).sum - (if i = c then 1 else 0) := by
  have hl1 : ¬ p.length = 1 := by omega
  unfold ceHessian
  simp only [hl1, ↓reduceIte]
  rw [List.getD_eq_getElem?_getD, List.getElem?_map, List.getElem?_range (by simpa using hi)]
  simp only [Option.map_some, Option.getD_some]
  split
  · rw [ce_softmax_getD p i hi]
  · rw [ce_softmax_getD p i hi]; simp

theorem ceHessian_hess_getD (c i j : ℕ) (p : List ℝ) (hlen : 2 ≤ p.length) (hi : i < p.length)
    (hj : j < p.length) :
    ((ceHessian Real.exp Real.log c p).2.2.getD i []).getD j 0
      = if i = j then
          -(Real.exp (p.getD i 0) / (p.map Real.exp).sum * (Real.exp (p.getD j 0) / (p.map Real.exp).sum))
            + Real.exp (p.getD i 0) / (p.map Real.exp).sum
        else
          -(Real.exp (p.getD i 0) / (p.map Real.exp).sum * (Real.exp (p.getD j 0) / (p.map Real.exp).sum)) := by
  have hl1 : ¬ p.length = 1 := by omega
  unfold ceHessian
  simp only [hl1, ↓reduceIte, List.length_map]
  rw [getD_map_range _ p.length i [] hi]
  rw [getD_map_range _ p.length j 0 hj]
  rw [ce_softmax_getD p i hi, ce_softmax_getD p j hj]

/-- **A3**: for `2 ≤ p.length` outputs and all `i j < p.length`, entry `(i, j)` of the Hessian the
second-derivative overload returns (`diag(s) − s sᵀ`) is the partial derivative w.r.t. `p_j` of
entry `i` of the gradient it returns (softmax minus indicator).  Any label `c`. -/
theorem ceHessian_multi_correct (c i j : ℕ) (p : List ℝ) (hlen : 2 ≤ p.length) (hi : i < p.length)
    (hj : j < p.length) :
    HasDerivAt (fun t => ((ceHessian Real.exp Real.log c (p.set j t)).2.1).getD i 0)
      (((ceHessian Real.exp Real.log c p).2.2.getD i []).getD j 0) p[j] := by
  have hne : p ≠ [] := by intro e; rw [e] at hi; simp at hi
  have hS := sum_exp_pos p hne
  have hset : p.set j p[j] = p := by simp
  have hval : ∀ t, ((ceHessian Real.exp Real.log c (p.set j t)).2.1).getD i 0
      = Real.exp ((p.set j t).getD i 0) / ((p.set j t).map Real.exp).sum - (if i = c then 1 else 0) :=
    fun t => ceHessian_grad_getD c i (p.set j t) (by simpa using hlen) (by simpa using hi)
  have hnum := (hasDerivAt_getD_set p j i hj).exp
  have hden := hasDerivAt_sum_exp_set p j hj
  have hS' : ((p.set j p[j]).map Real.exp).sum ≠ 0 := by rw [hset]; exact ne_of_gt hS
  have hd := (hnum.fun_div hden hS').sub_const (if i = c then (1 : ℝ) else 0)
  rw [hset] at hd
  refine (hd.congr_deriv ?_).congr_of_eventuallyEq (Filter.Eventually.of_forall hval)
  rw [ceHessian_hess_getD c i j p hlen hi hj]
  have hpj : p.getD j 0 = p[j] := by
    rw [List.getD_eq_getElem?_getD, List.getElem?_eq_getElem hj]; rfl
  rw [hpj]
  by_cases hij : i = j
  · subst hij
    rw [hpj]
    simp only [↓reduceIte]
    field_simp
    ring
  · have hji : ¬ j = i := fun e => hij e.symm
    simp only [hij, hji, ↓reduceIte]
    field_simp
    ring

/-! ## B. regularizer gradients -/

theorem hasDerivAt_abs_sign (x : ℝ) (hx : x ≠ 0) : HasDerivAt (fun t : ℝ => |t|) (sign x) x := by
  unfold sign
  rcases lt_or_gt_of_ne hx with hneg | hpos
  · simp only [hneg, ↓reduceIte]
    have hev : (fun t : ℝ => |t|) =ᶠ[nhds x] fun t => -t := by
      filter_upwards [gt_mem_nhds hneg] with t ht
      exact abs_of_neg ht
    exact (hasDerivAt_neg x).congr_of_eventuallyEq hev
  · have hn : ¬ x < 0 := not_lt.2 (le_of_lt hpos)
    simp only [hn, hpos, ↓reduceIte]
    have hev : (fun t : ℝ => |t|) =ᶠ[nhds x] fun t => t := by
      filter_upwards [lt_mem_nhds hpos] with t ht
      exact abs_of_pos ht
    exact (hasDerivAt_id x).congr_of_eventuallyEq hev

/-- OneNormRegularizer: away from the kink `x_j = 0`, `∂/∂x_j ‖x‖₁ = sign x_j` -/
theorem oneNorm_gradient_correct (x : List ℝ) (j : ℕ) (hj : j < x.length) (hx : x[j] ≠ 0) :
    HasDerivAt (fun t => oneNorm (x.set j t)) (sign x[j]) x[j] := by
  have h := hasDerivAt_zipWith_sum_set (fun _ b => |b|) j x x hj hj _ (hasDerivAt_abs_sign x[j] hx)
  refine h.congr_of_eventuallyEq (Filter.Eventually.of_forall fun t => ?_)
  show oneNorm (x.set j t) = (List.zipWith (fun _ b => |b|) x (x.set j t)).sum
  unfold oneNorm
  rw [sumL_eq_sum_real, zipWith_snd_eq_map (fun b => |b|) x (x.set j t) (by simp)]
  congr 1
  apply List.map_congr_left
  intro a _
  exact sabs_real a

/-- TwoNormRegularizer with mask: `∂/∂x_j ½ Σ m_i x_i² = m_j x_j`, any mask (only `j` must index both) -/
theorem twoNormMasked_gradient_correct (mask x : List ℝ) (j : ℕ) (hm : j < mask.length) (hj : j < x.length) :
    HasDerivAt (fun t => twoNormMasked mask (x.set j t)) (mask[j] * x[j]) x[j] := by
  have hg : HasDerivAt (fun t : ℝ => mask[j] * t ^ 2) (mask[j] * (2 * x[j])) x[j] := by
    have := ((hasDerivAt_id x[j]).pow 2).const_mul mask[j]
    refine this.congr_deriv ?_
    simp
  have h := (hasDerivAt_zipWith_sum_set (fun m b => m * b ^ 2) j mask x hm hj _ hg).const_mul (1 / 2 : ℝ)
  refine (h.congr_deriv (by ring)).congr_of_eventuallyEq (Filter.Eventually.of_forall fun t => ?_)
  show twoNormMasked mask (x.set j t) = 1 / 2 * (List.zipWith (fun m b => m * b ^ 2) mask (x.set j t)).sum
  unfold twoNormMasked
  rw [sumL_eq_sum_real, half_real]
  simp [sqr, pow_two]

/-- OneNormRegularizer with mask, value `Σ |x_i m_i|`, returned entry `sign x_j * m_j`: correct when
the mask entry is **non-negative** and (`x_j ≠ 0` or `m_j = 0`) -/
theorem oneNormMasked_gradient_correct (mask x : List ℝ) (j : ℕ) (hm : j < mask.length) (hj : j < x.length)
    (hnn : 0 ≤ mask[j]) (hx : x[j] ≠ 0 ∨ mask[j] = 0) :
    HasDerivAt (fun t => oneNormMasked mask (x.set j t)) (sign x[j] * mask[j]) x[j] := by
  have hg : HasDerivAt (fun t : ℝ => |t * mask[j]|) (sign x[j] * mask[j]) x[j] := by
    by_cases h0 : mask[j] = 0
    · rw [h0]
      simp only [mul_zero, abs_zero]
      exact hasDerivAt_const _ _
    · have hx' : x[j] ≠ 0 := by
        rcases hx with h | h
        · exact h
        · exact absurd h h0
      have h := (hasDerivAt_abs_sign x[j] hx').mul_const mask[j]
      refine h.congr_of_eventuallyEq (Filter.Eventually.of_forall fun t => ?_)
      show |t * mask[j]| = |t| * mask[j]
      rw [abs_mul, abs_of_nonneg hnn]
  have h := hasDerivAt_zipWith_sum_set (fun m b => |b * m|) j mask x hm hj _ hg
  refine h.congr_of_eventuallyEq (Filter.Eventually.of_forall fun t => ?_)
  show oneNormMasked mask (x.set j t) = (List.zipWith (fun m b => |b * m|) mask (x.set j t)).sum
  unfold oneNormMasked
  rw [sumL_eq_sum_real]
  simp [sabs_real]

/-- witness: for a **negative** mask entry the returned entry `sign x * mask` is *not* the derivative
(`mask = [-1]`, `x = [1]`: the value `|t·(−1)| = |t|` has derivative `1` at `t = 1`, returned `−1`) -/
theorem oneNormMasked_negative_mask_wrong :
    HasDerivAt (fun t => oneNormMasked [(-1 : ℝ)] ([(1 : ℝ)].set 0 t)) 1 1 ∧
    sign (1 : ℝ) * (-1) = -1 ∧
    ¬ HasDerivAt (fun t => oneNormMasked [(-1 : ℝ)] ([(1 : ℝ)].set 0 t)) (sign (1 : ℝ) * (-1)) 1 := by
  have hval : ∀ t : ℝ, oneNormMasked [(-1 : ℝ)] ([(1 : ℝ)].set 0 t) = |t| := by
    intro t
    unfold oneNormMasked
    rw [sumL_eq_sum_real]
    simp [sabs_real]
  have hs : sign (1 : ℝ) = 1 := by unfold sign; norm_num
  have h1 : HasDerivAt (fun t => oneNormMasked [(-1 : ℝ)] ([(1 : ℝ)].set 0 t)) 1 1 := by
    have := hasDerivAt_abs_sign 1 (by norm_num)
    rw [hs] at this
    exact this.congr_of_eventuallyEq (Filter.Eventually.of_forall hval)
  refine ⟨h1, by rw [hs]; norm_num, fun h2 => ?_⟩
  have := h1.unique h2
  rw [hs] at this
  norm_num at this

/-! ### non-vacuity -/
example : HasDerivAt (fun t => ((ceHessian Real.exp Real.log 1 [t]).2.1).getD 0 0)
    (((ceHessian Real.exp Real.log 1 [3]).2.2.getD 0 []).getD 0 0) 3 :=
  ceHessian_binary_correct 1 (by norm_num) 3
example : HasDerivAt (fun t => ((ceHessian Real.exp Real.log 0 ([1, 2, 3].set 2 t)).2.1).getD 1 0)
    (((ceHessian Real.exp Real.log 0 [1, 2, 3]).2.2.getD 1 []).getD 2 0) ([1, 2, 3] : List ℝ)[2] :=
  ceHessian_multi_correct 0 1 2 [1, 2, 3] (by simp) (by simp) (by simp)
example : HasDerivAt (fun t => oneNorm (([2, -3] : List ℝ).set 1 t)) (sign (([2, -3] : List ℝ)[1]))
    (([2, -3] : List ℝ)[1]) :=
  oneNorm_gradient_correct [2, -3] 1 (by simp) (by norm_num)
example : HasDerivAt (fun t => oneNormMasked [1, 0] (([2, 0] : List ℝ).set 1 t))
    (sign (([2, 0] : List ℝ)[1]) * ([1, 0] : List ℝ)[1]) (([2, 0] : List ℝ)[1]) :=
  oneNormMasked_gradient_correct [1, 0] [2, 0] 1 (by simp) (by simp) (by norm_num) (Or.inr (by norm_num))

end SharkVerif.Loss
