/-
Helper lemmas for C02: the left-looking Cholesky loop (`potrf_block`).
-/
import SharkVerif.Lemmas.LinSolve
namespace SharkVerif.LinSolve

/-- `s` of `potrf_block`: `A(i,j) - Σ_{k<j} L(i,k) L(j,k)` -/
def cholS (r : Rat → Rat) (n : Nat) (A : Mat) (i j : Nat) : Rat :=
  A i j - sum j (fun k => chol r n A i k * chol r n A j k)

theorem cholCols_rec (r : Rat → Rat) (n : Nat) (A : Mat) {j : Nat} (hj : j < n) :
    (cholCols r n A).getD j #[] = cholCol r n A j (fun k => (cholCols r n A).getD k #[]) := by
  unfold cholCols
  have h := getD_tab_rec (α := Array Rat) (cholCol r n A)
    (by
      intro j x y hxy
      unfold cholCol
      have hs : ∀ i, sum j (fun k => vget (x k) i * vget (x k) j) = sum j (fun k => vget (y k) i * vget (y k) j) :=
        fun i => sum_congr fun k hk => by rw [hxy k hk]
      simp only [hs]) hj
  exact h

theorem chol_entry (r : Rat → Rat) (n : Nat) (A : Mat) {i j : Nat} (hi : i < n) (hj : j < n) :
    chol r n A i j = if i < j then 0 else if i = j then r (cholS r n A j j)
      else cholS r n A i j / r (cholS r n A j j) := by
  have h := cholCols_rec r n A hj
  have : chol r n A i j = vget ((cholCols r n A).getD j #[]) i := rfl
  rw [this, h]
  unfold cholCol
  simp only [vget_vecOf, hi, if_true]
  rfl

theorem chol_upper_zero (r : Rat → Rat) (n : Nat) (A : Mat) {i j : Nat} (hi : i < n) (hj : j < n)
    (hij : i < j) : chol r n A i j = 0 := by
  rw [chol_entry r n A hi hj, if_pos hij]

theorem cholPivot_eq (r : Rat → Rat) (n : Nat) (A : Mat) (j : Nat) :
    cholPivot r n A j = cholS r n A j j := rfl

theorem firstIdx_none {n : Nat} {p : Nat → Bool} (h : firstIdx n p = none) : ∀ j, j < n → p j = false := by
  intro j hj
  unfold firstIdx at h
  rw [List.find?_eq_none] at h
  have := h j (List.mem_range.mpr hj)
  simpa using this

theorem firstIdx_some {n : Nat} {p : Nat → Bool} {j : Nat} (h : firstIdx n p = some j) :
    j < n ∧ p j = true ∧ ∀ k, k < j → p k = false := by
  unfold firstIdx at h
  rw [List.find?_eq_some_iff_append] at h
  obtain ⟨hp, as, bs, hr, has⟩ := h
  have hlen : as.length = j := by
    have h1 : (List.range n)[as.length]? = some j := by rw [hr]; simp
    rw [List.getElem?_range] at h1
    · simpa using h1
    · have : (List.range n).length = as.length + 1 + bs.length := by rw [hr]; simp; omega
      simp at this; omega
  have hjn : j < n := by
    have : (List.range n).length = as.length + 1 + bs.length := by rw [hr]; simp; omega
    simp at this; omega
  refine ⟨hjn, hp, ?_⟩
  intro k hk
  have hk' : (List.range n)[k]? = some k := by rw [List.getElem?_range (by omega)]
  have : as[k]? = some k := by
    rw [hr, List.getElem?_append_left (by omega)] at hk'
    exact hk'
  have hmem : k ∈ as := List.mem_of_getElem? this
  simpa using has k hmem

theorem infoOf_zero {strict : Bool} {n : Nat} {A : Mat} {L : Arr2} (h : infoOf strict n A L = 0) :
    ∀ j, j < n → if strict then ¬ pivotOf A L j < 0 else ¬ pivotOf A L j ≤ 0 := by
  intro j hj
  unfold infoOf at h
  split at h
  · omega
  · rename_i hnone
    have := firstIdx_none hnone j hj
    cases strict <;> simpa using this

/-- the core identity of the left-looking loop: with a positive pivot in column `j`,
`Σ_{k ≤ j} L(i,k) L(j,k) = A(i,j)` for every row `i ≥ j` -/
theorem chol_column_identity (r : Rat → Rat) (n : Nat) (A : Mat)
    {i j : Nat} (hi : i < n) (hji : j ≤ i)
    (hpos : r (cholS r n A j j) * r (cholS r n A j j) = cholS r n A j j ∧ r (cholS r n A j j) ≠ 0) :
    sum n (fun k => chol r n A i k * chol r n A j k) = A i j := by
  have hj : j < n := by omega
  rw [sum_lower hj]
  · rw [chol_entry r n A hj hj, if_neg (by omega), if_pos rfl]
    rw [chol_entry r n A hi hj, if_neg (by omega)]
    by_cases hij : i = j
    · subst hij
      rw [if_pos rfl, hpos.1]; unfold cholS; ring
    · rw [if_neg hij]
      have := hpos.2
      field_simp
      unfold cholS; ring
  · intro k h1 h2
    rw [chol_upper_zero r n A hj h2 h1]; ring

end SharkVerif.LinSolve
