/-
Helper lemmas for C08/C07: the dual objective `lin·α − ½ αᵀQα` as a function of the coefficient
vector, its exact change under an arbitrary move (for a symmetric matrix), under one- and
two-variable moves, and the concavity bound used by `kkt_eps_near_optimal`.  Over `Rat`, all sizes.
-/
import SharkVerif.Lemmas.SmoStep
import SharkVerif.Lemmas.Box2d
namespace SharkVerif.Smo
open SharkVerif.Qp

/-! ### double sums and the bilinear form -/

theorem rsum_comm (F : Nat → Nat → Rat) (n m : Nat) :
    rsum (fun a => rsum (fun b => F a b) m) n = rsum (fun b => rsum (fun a => F a b) n) m := by
  induction n with
  | zero => simp only [rsum_zero]; exact (rsum_const_zero m).symm
  | succ n ih => simp only [rsum_succ]; rw [ih, ← rsum_add]

/-- `uᵀ Q v` -/
def bil (n : Nat) (Q : Nat → Nat → Rat) (u v : Nat → Rat) : Rat :=
  rsum (fun a => u a * rsum (fun b => Q a b * v b) n) n

theorem bil_symm {n : Nat} {Q : Nat → Nat → Rat} (hQ : ∀ a b, Q a b = Q b a) (u v : Nat → Rat) :
    bil n Q u v = bil n Q v u := by
  unfold bil
  have e1 : (fun a => u a * rsum (fun b => Q a b * v b) n) = fun a => rsum (fun b => u a * (Q a b * v b)) n := by
    funext a; rw [rsum_mul_left]
  have e2 : (fun b => v b * rsum (fun a => Q b a * u a) n) = fun b => rsum (fun a => v b * (Q b a * u a)) n := by
    funext b; rw [rsum_mul_left]
  rw [e1, e2, rsum_comm]
  apply rsum_congr; intro b _
  apply rsum_congr; intro a _
  rw [hQ a b]; ring

theorem bil_sub_left (n : Nat) (Q : Nat → Nat → Rat) (u w v : Nat → Rat) :
    bil n Q (fun a => u a - w a) v = bil n Q u v - bil n Q w v := by
  unfold bil; rw [← rsum_sub]; apply rsum_congr; intro a _; ring

theorem bil_sub_right (n : Nat) (Q : Nat → Nat → Rat) (u v w : Nat → Rat) :
    bil n Q u (fun a => v a - w a) = bil n Q u v - bil n Q u w := by
  unfold bil; rw [← rsum_sub]; apply rsum_congr; intro a _
  have : rsum (fun b => Q a b * (v b - w b)) n = rsum (fun b => Q a b * v b) n - rsum (fun b => Q a b * w b) n := by
    rw [← rsum_sub]; apply rsum_congr; intro b _; ring
  rw [this]; ring

/-- dual objective of a coefficient vector -/
def dual (n : Nat) (Q : Nat → Nat → Rat) (lin α : Nat → Rat) : Rat :=
  rsum (fun k => lin k * α k) n - (1 / 2) * bil n Q α α

/-- **exact change of the dual objective** under a move `α → β` (symmetric `Q`): first-order term with the
gradient `lin − Qα` minus half the curvature along the move -/
theorem dual_diff {n : Nat} {Q : Nat → Nat → Rat} (hQ : ∀ a b, Q a b = Q b a) (lin α β : Nat → Rat) :
    dual n Q lin β - dual n Q lin α
      = rsum (fun a => (lin a - rsum (fun b => Q a b * α b) n) * (β a - α a)) n
        - (1 / 2) * bil n Q (fun a => β a - α a) (fun a => β a - α a) := by
  have hdd : bil n Q (fun a => β a - α a) (fun a => β a - α a)
      = bil n Q β β - 2 * bil n Q α β + bil n Q α α := by
    rw [bil_sub_left, bil_sub_right, bil_sub_right, bil_symm hQ β α]; ring
  have h1 : rsum (fun a => (lin a - rsum (fun b => Q a b * α b) n) * (β a - α a)) n
      = rsum (fun k => lin k * β k) n - rsum (fun k => lin k * α k) n - (bil n Q β α - bil n Q α α) := by
    have : (fun a => (lin a - rsum (fun b => Q a b * α b) n) * (β a - α a))
        = fun a => (lin a * β a - lin a * α a) - (β a * rsum (fun b => Q a b * α b) n - α a * rsum (fun b => Q a b * α b) n) := by
      funext a; ring
    rw [this, rsum_sub, rsum_sub, rsum_sub]; rfl
  rw [h1, hdd, bil_symm hQ β α]; unfold dual; ring

/-! ### moves of one or two coordinates -/

theorem rsum_diff_upd1 (X f : Nat → Rat) {i n : Nat} (hi : i < n) (v : Rat) :
    rsum (fun a => X a * (upd f i v a - f a)) n = X i * (v - f i) := by
  have : (fun a => X a * (upd f i v a - f a)) = fun a => X a * upd f i v a - X a * f a := by funext a; ring
  rw [this, rsum_sub, rsum_mul_upd _ _ _ _ hi]; ring

theorem rsum_diff_upd2 (X f : Nat → Rat) {i j n : Nat} (hi : i < n) (hj : j < n) (hij : i ≠ j) (vi vj : Rat) :
    rsum (fun a => X a * (upd (upd f i vi) j vj a - f a)) n = X i * (vi - f i) + X j * (vj - f j) := by
  have : (fun a => X a * (upd (upd f i vi) j vj a - f a)) = fun a => X a * upd (upd f i vi) j vj a - X a * f a := by
    funext a; ring
  rw [this, rsum_sub, rsum_mul_upd _ _ _ _ hj, rsum_mul_upd _ _ _ _ hi, upd_ne _ _ (Ne.symm hij)]; ring

/-- objective change of a two-coordinate move -/
theorem dual_move2 {n : Nat} {Q : Nat → Nat → Rat} (hQ : ∀ a b, Q a b = Q b a) (lin α : Nat → Rat)
    {i j : Nat} (hi : i < n) (hj : j < n) (hij : i ≠ j) (vi vj : Rat) :
    dual n Q lin (upd (upd α i vi) j vj) - dual n Q lin α
      = (lin i - rsum (fun b => Q i b * α b) n) * (vi - α i) + (lin j - rsum (fun b => Q j b * α b) n) * (vj - α j)
        - (1 / 2) * (Q i i * (vi - α i) * (vi - α i) + 2 * Q i j * (vi - α i) * (vj - α j)
            + Q j j * (vj - α j) * (vj - α j)) := by
  rw [dual_diff hQ, rsum_diff_upd2 _ _ hi hj hij]
  unfold bil
  have : (fun a => (upd (upd α i vi) j vj a - α a) * rsum (fun b => Q a b * (upd (upd α i vi) j vj b - α b)) n)
      = fun a => (Q a i * (vi - α i) + Q a j * (vj - α j)) * (upd (upd α i vi) j vj a - α a) := by
    funext a; rw [rsum_diff_upd2 _ _ hi hj hij]; ring
  rw [this, rsum_diff_upd2 _ _ hi hj hij, hQ j i]; ring

/-- objective change of a one-coordinate move -/
theorem dual_move1 {n : Nat} {Q : Nat → Nat → Rat} (hQ : ∀ a b, Q a b = Q b a) (lin α : Nat → Rat)
    {i : Nat} (hi : i < n) (v : Rat) :
    dual n Q lin (upd α i v) - dual n Q lin α
      = (lin i - rsum (fun b => Q i b * α b) n) * (v - α i) - (1 / 2) * (Q i i * (v - α i) * (v - α i)) := by
  rw [dual_diff hQ, rsum_diff_upd1 _ _ hi]
  unfold bil
  have : (fun a => (upd α i v a - α a) * rsum (fun b => Q a b * (upd α i v b - α b)) n)
      = fun a => (Q a i * (v - α i)) * (upd α i v a - α a) := by
    funext a; rw [rsum_diff_upd1 _ _ hi]; ring
  rw [this, rsum_diff_upd1 _ _ hi]

/-! ### the objective of a solver state -/

/-- the quadratic matrix under the current permutation -/
def Qmat (s : RS) : Nat → Nat → Rat := fun a b => s.K (s.perm a) (s.perm b)

/-- recomputed dual objective `lin·α − ½ αᵀKα` (under the current permutation) -/
def dualObjective (s : RS) : Rat :=
  rsum (fun k => s.lin k * s.alpha k) s.n - (1 / 2) * rsum (fun k => s.alpha k * Kalpha s k) s.n

theorem dualObjective_eq (s : RS) : dualObjective s = dual s.n (Qmat s) s.lin s.alpha := rfl

theorem Qmat_symm {s : RS} (h : ∀ x y, s.K x y = s.K y x) : ∀ a b, Qmat s a b = Qmat s b a :=
  fun _ _ => h _ _


/-- sum of the coefficients (the quantity the equality constraint fixes) -/
def alphaSum (s : RS) : Rat := rsum s.alpha s.n

/-! ### quantities that do not depend on the order of the variables -/

/-- `F` depends only on size, problem kind, data and coefficients, and is invariant under coordinate flips -/
structure OrderFree {β : Type} (F : RS → β) : Prop where
  frame : ∀ s t : RS, t.n = s.n → t.eqc = s.eqc → t.K = s.K → t.perm = s.perm → t.lin = s.lin → t.alpha = s.alpha →
    F t = F s
  flip : ∀ (s : RS) (i j : Nat), i < s.n → j < s.n → F (s.flip i j) = F s

theorem OrderFree.unshrink {β : Type} {F : RS → β} (hF : OrderFree F) (s : RS) : F s.unshrink = F s := by
  apply hF.frame <;> (unfold State.unshrink; split <;> rfl)

theorem OrderFree.shrinkGo {β : Type} {F : RS → β} (hF : OrderFree F) (lu sd : Rat) :
    ∀ (a : Nat) (s : RS), a ≤ s.active → s.active ≤ s.n → F (State.shrinkGo lu sd a s) = F s := by
  intro a
  induction a with
  | zero => intro s _ _; rfl
  | succ a ih =>
    intro s ha hn
    rw [shrinkGo_succ]
    by_cases ht : s.testShrink a lu sd = true
    · rw [if_pos ht]
      have h1 : F ({ s.flip a (s.active - 1) with active := s.active - 1 } : RS) = F (s.flip a (s.active - 1)) :=
        hF.frame _ _ rfl rfl rfl rfl rfl rfl
      rw [ih _ (by show a ≤ s.active - 1; omega) (by show s.active - 1 ≤ s.n; omega), h1]
      exact hF.flip s a (s.active - 1) (by omega) (by omega)
    · rw [if_neg ht]; exact ih s (by omega) hn

theorem OrderFree.shrink {β : Type} {F : RS → β} (hF : OrderFree F) {s : RS} (h : Inv s) (eps : Rat) :
    F (s.shrink eps).1 = F s := by
  unfold State.shrink
  split
  · rfl
  · dsimp only
    split
    · rw [hF.shrinkGo _ _ _ _ (Nat.le_refl _) (inv_unshrink h).act_le, hF.unshrink]
    · rw [hF.shrinkGo _ _ _ _ (Nat.le_refl _) h.act_le]

theorem Kalpha_flip (s : RS) {i j : Nat} (hi : i < s.n) (hj : j < s.n) (a : Nat) :
    Kalpha (s.flip i j) a = Kalpha s (swapIdx i j a) := by
  simp only [Kalpha, State.flip]
  exact rsum_swap (fun b => s.K (s.perm (swapIdx i j a)) (s.perm b) * s.alpha b) hi hj

theorem orderFree_n : OrderFree (fun s : RS => s.n) := ⟨fun _ _ h _ _ _ _ _ => h, fun _ _ _ _ _ => rfl⟩
theorem orderFree_eqc : OrderFree (fun s : RS => s.eqc) := ⟨fun _ _ _ h _ _ _ _ => h, fun _ _ _ _ _ => rfl⟩

theorem orderFree_alphaSum : OrderFree alphaSum := by
  constructor
  · intro s t hn _ _ _ _ ha; unfold alphaSum; rw [hn, ha]
  · intro s i j hi hj; exact rsum_swap s.alpha hi hj

theorem orderFree_dual : OrderFree dualObjective := by
  constructor
  · intro s t hn _ hK hp hl ha; unfold dualObjective Kalpha; rw [hn, hK, hp, hl, ha]
  · intro s i j hi hj
    unfold dualObjective
    have e2 : (fun k => (s.flip i j).alpha k * Kalpha (s.flip i j) k)
        = fun k => (fun m => s.alpha m * Kalpha s m) (swapIdx i j k) := by
      funext k; rw [Kalpha_flip s hi hj]; rfl
    rw [e2]
    show rsum (fun k => (fun m => s.lin m * s.alpha m) (swapIdx i j k)) s.n
      - 1 / 2 * rsum (fun k => (fun m => s.alpha m * Kalpha s m) (swapIdx i j k)) s.n = _
    rw [rsum_swap (fun m => s.lin m * s.alpha m) hi hj, rsum_swap (fun m => s.alpha m * Kalpha s m) hi hj]

/-! ### frame of `updateSMO` -/

theorem base_frame (s : RS) (i j : Nat) :
    let t := if s.eqc then s.smoSvmBase i j else s.smoBoxBase i j
    t.n = s.n ∧ t.eqc = s.eqc ∧ t.K = s.K ∧ t.perm = s.perm ∧ t.lin = s.lin := by
  dsimp only
  split
  · rw [smoSvmBase_eq]; split <;> exact ⟨rfl, rfl, rfl, rfl, rfl⟩
  · by_cases hij : i = j
    · subst hij; rw [smoBoxBase_one]; exact ⟨rfl, rfl, rfl, rfl, rfl⟩
    · rw [smoBoxBase_two s hij]; exact ⟨rfl, rfl, rfl, rfl, rfl⟩

theorem uge_frame (t : RS) (i : Nat) (old new : Rat) :
    (t.updateGradientEdge i old new).n = t.n ∧ (t.updateGradientEdge i old new).eqc = t.eqc ∧
    (t.updateGradientEdge i old new).K = t.K ∧ (t.updateGradientEdge i old new).perm = t.perm ∧
    (t.updateGradientEdge i old new).lin = t.lin := by
  rw [uge_fields]; exact ⟨rfl, rfl, rfl, rfl, rfl⟩

theorem updateSMO_frame (s : RS) (i j : Nat) :
    (s.updateSMO i j).n = s.n ∧ (s.updateSMO i j).eqc = s.eqc ∧ (s.updateSMO i j).K = s.K ∧
    (s.updateSMO i j).perm = s.perm ∧ (s.updateSMO i j).lin = s.lin := by
  have hb := base_frame s i j
  unfold State.updateSMO
  dsimp only at hb ⊢
  split
  · have h1 := uge_frame (if s.eqc = true then s.smoSvmBase i j else s.smoBoxBase i j) i (s.alpha i)
      ((if s.eqc = true then s.smoSvmBase i j else s.smoBoxBase i j).alpha i)
    rw [h1.1, h1.2.1, h1.2.2.1, h1.2.2.2.1, h1.2.2.2.2]; exact hb
  · generalize hu : State.updateGradientEdge (if s.eqc = true then s.smoSvmBase i j else s.smoBoxBase i j) i (s.alpha i)
      ((if s.eqc = true then s.smoSvmBase i j else s.smoBoxBase i j).alpha i) = u
    have h1 := uge_frame (if s.eqc = true then s.smoSvmBase i j else s.smoBoxBase i j) i (s.alpha i)
      ((if s.eqc = true then s.smoSvmBase i j else s.smoBoxBase i j).alpha i)
    rw [hu] at h1
    have h2 := uge_frame u j (s.alpha j) (u.alpha j)
    rw [h2.1, h2.2.1, h2.2.2.1, h2.2.2.2.1, h2.2.2.2.2, h1.1, h1.2.1, h1.2.2.1, h1.2.2.2.1, h1.2.2.2.2]; exact hb

theorem updateSMO_active (s : RS) (i j : Nat) : (s.updateSMO i j).active = s.active := by
  have hb : (if s.eqc then s.smoSvmBase i j else s.smoBoxBase i j).active = s.active := by
    split
    · rw [smoSvmBase_eq]; split <;> rfl
    · by_cases hij : i = j
      · subst hij; rw [smoBoxBase_one]; rfl
      · rw [smoBoxBase_two s hij]; rfl
  unfold State.updateSMO
  dsimp only at hb ⊢
  split
  · rw [uge_fields]; exact hb
  · rw [uge_fields]; show (State.updateGradientEdge _ _ _ _).active = _; rw [uge_fields]; exact hb

/-- the objective of the state after `updateSMO` is the objective of the new coefficient vector on the same data -/
theorem dualObjective_updateSMO (s : RS) (i j : Nat) :
    dualObjective (s.updateSMO i j) = dual s.n (Qmat s) s.lin (s.updateSMO i j).alpha := by
  obtain ⟨h1, _, h3, h4, h5⟩ := updateSMO_frame s i j
  rw [dualObjective_eq]; unfold Qmat; rw [h1, h3, h4, h5]

theorem alphaSum_updateSMO (s : RS) (i j : Nat) : alphaSum (s.updateSMO i j) = rsum (s.updateSMO i j).alpha s.n := by
  unfold alphaSum; rw [(updateSMO_frame s i j).1]

/-! ### the equality-constrained step: sum and objective -/

theorem updateSMO_svm_alpha {s : RS} (he : s.eqc = true) (i j : Nat) :
    (s.updateSMO i j).alpha = upd (upd s.alpha i (svmR s i j).2.1) j (svmR s i j).2.2 := by
  rw [updateSMO_alpha, he]; exact smoSvmBase_alpha s i j

/-- `Σα` is unchanged by the equality-constrained step -/
theorem alphaSum_updateSMO_svm {s : RS} (h : Inv s) (he : s.eqc = true) {i j : Nat} (hi : i < s.active)
    (hj : j < s.active) (hg : s.g j ≤ s.g i) : alphaSum (s.updateSMO i j) = alphaSum s := by
  have hin : i < s.n := Nat.lt_of_lt_of_le hi h.act_le
  have hjn : j < s.n := Nat.lt_of_lt_of_le hj h.act_le
  by_cases hij : i = j
  · subst hij; rw [updateSMO_svm_self h he hin]
  obtain ⟨_, _, h2, h3, _, _⟩ := svmR_spec h hin hjn hg
  rw [alphaSum_updateSMO, updateSMO_svm_alpha he, rsum_upd _ _ _ hjn, rsum_upd _ _ _ hin, upd_ne _ _ (Ne.symm hij),
    h2, h3]
  unfold alphaSum; ring

/-- exact objective change of the equality-constrained step, with `μ = (svmR s i j).1` the clipped step length -/
theorem dual_updateSMO_svm {s : RS} (h : Inv s) (he : s.eqc = true) {i j : Nat} (hi : i < s.active)
    (hj : j < s.active) (hg : s.g j ≤ s.g i) :
    dualObjective (s.updateSMO i j) - dualObjective s
      = (svmR s i j).1 * (s.g i - s.g j)
        - (1 / 2) * ((svmR s i j).1 * (svmR s i j).1) * (s.diag i + s.diag j - 2 * s.q i j) := by
  have hin : i < s.n := Nat.lt_of_lt_of_le hi h.act_le
  have hjn : j < s.n := Nat.lt_of_lt_of_le hj h.act_le
  obtain ⟨h0, h1, h2, h3, _, _⟩ := svmR_spec h hin hjn hg
  by_cases hij : i = j
  · subst hij
    have hμ : (svmR s i i).1 = 0 := by
      have : (s.g i - s.g i) / svmDen s i i = 0 := by rw [sub_self, zero_div]
      rw [this] at h1; linarith
    rw [updateSMO_svm_self h he hin, hμ]; ring
  rw [dualObjective_updateSMO, updateSMO_svm_alpha he, dualObjective_eq, dual_move2 (Qmat_symm h.sym) _ _ hin hjn hij,
    h2, h3]
  have gi : s.g i = s.lin i - rsum (fun b => Qmat s i b * s.alpha b) s.n := h.grad i hi
  have gj : s.g j = s.lin j - rsum (fun b => Qmat s j b * s.alpha b) s.n := h.grad j hj
  rw [← gi, ← gj, h.diag i hin, h.diag j hjn]
  simp only [Qmat, State.q]; ring

/-- **the clipped step never loses objective**: the gain is at least half the first-order gain.  No curvature
hypothesis: `svmDen = max(κ, 1e-12) ≥ κ` makes the step at most the exact line maximiser when `κ ≥ 0` (the guard only
shortens it when `0 ≤ κ < 1e-12`), and for `κ < 0` the second-order term helps. -/
theorem svm_gain_ge {s : RS} (h : Inv s) {i j : Nat} (hin : i < s.n) (hjn : j < s.n) (hg : s.g j ≤ s.g i) :
    (1 / 2) * ((svmR s i j).1 * (s.g i - s.g j))
      ≤ (svmR s i j).1 * (s.g i - s.g j)
        - (1 / 2) * ((svmR s i j).1 * (svmR s i j).1) * (s.diag i + s.diag j - 2 * s.q i j) := by
  obtain ⟨h0, h1, _, _, _, _⟩ := svmR_spec h hin hjn hg
  have hd := svmDen_pos s i j
  have hk := svmDen_ge s i j
  have h1' : (svmR s i j).1 * svmDen s i j ≤ s.g i - s.g j := (le_div_iff₀ hd).mp h1
  generalize (svmR s i j).1 = μ at *
  generalize svmDen s i j = m at *
  generalize s.diag i + s.diag j - 2 * s.q i j = κ at *
  have a1 : μ * (μ * m) ≤ μ * (s.g i - s.g j) := mul_le_mul_of_nonneg_left h1' h0
  have a2 : (μ * μ) * κ ≤ (μ * μ) * m := mul_le_mul_of_nonneg_left hk (mul_self_nonneg μ)
  nlinarith


/-! ### the box-constrained step: objective -/

theorem updateSMO_box_alpha {s : RS} (he : s.eqc = false) (i j : Nat) :
    (s.updateSMO i j).alpha = if i = j then upd s.alpha i (boxV1 s i)
      else upd (upd s.alpha i (boxV2 s i j).1) j (boxV2 s i j).2 := by
  rw [updateSMO_alpha, he]; exact smoBoxBase_alpha s i j

/-- exact objective change of the 2-D box step: the `gain` expression of `solveQuadratic2DBox` -/
theorem dual_updateSMO_box_two {s : RS} (h : Inv s) (he : s.eqc = false) {i j : Nat} (hi : i < s.active)
    (hj : j < s.active) (hij : i ≠ j) :
    dualObjective (s.updateSMO i j) - dualObjective s
      = gain2 (s.g i) (s.g j) (s.diag i) (s.q i j) (s.diag j) ((boxV2 s i j).1 - s.alpha i) ((boxV2 s i j).2 - s.alpha j) := by
  have hin : i < s.n := Nat.lt_of_lt_of_le hi h.act_le
  have hjn : j < s.n := Nat.lt_of_lt_of_le hj h.act_le
  rw [dualObjective_updateSMO, updateSMO_box_alpha he, if_neg hij, dualObjective_eq,
    dual_move2 (Qmat_symm h.sym) _ _ hin hjn hij]
  have gi : s.g i = s.lin i - rsum (fun b => Qmat s i b * s.alpha b) s.n := h.grad i hi
  have gj : s.g j = s.lin j - rsum (fun b => Qmat s j b * s.alpha b) s.n := h.grad j hj
  rw [← gi, ← gj, h.diag i hin, h.diag j hjn]
  simp only [Qmat, State.q, gain2]; ring

/-- exact objective change of the 1-D box step -/
theorem dual_updateSMO_box_one {s : RS} (h : Inv s) (he : s.eqc = false) {i : Nat} (hi : i < s.active) :
    dualObjective (s.updateSMO i i) - dualObjective s
      = (boxV1 s i - s.alpha i) * s.g i - s.diag i * (boxV1 s i - s.alpha i) * (boxV1 s i - s.alpha i) / 2 := by
  have hin : i < s.n := Nat.lt_of_lt_of_le hi h.act_le
  rw [dualObjective_updateSMO, updateSMO_box_alpha he, if_pos rfl, dualObjective_eq,
    dual_move1 (Qmat_symm h.sym) _ _ hin]
  have gi : s.g i = s.lin i - rsum (fun b => Qmat s i b * s.alpha b) s.n := h.grad i hi
  rw [← gi, h.diag i hin]
  simp only [Qmat]; ring

end SharkVerif.Smo
