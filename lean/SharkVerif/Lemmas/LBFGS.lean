/-
The L-BFGS two-loop recursion `LSOpt.multBInv` (`LBFGS::multBInv`) is multiplication by the implicit inverse-Hessian
approximation — the matrix obtained from `(1/bdiag)·I` by one BFGS inverse update per stored pair `(s, y)` — for every
history length, and that matrix is symmetric positive definite whenever `bdiag > 0` and every stored pair has
`yᵀs > 0` (what `LBFGS::updateHist` guarantees).  Property C10.
-/
import SharkVerif.Lemmas.BFGSList
namespace SharkVerif.BFGS
open SharkVerif.Opt Matrix

/-! ## the two-loop recursion as a structural recursion (any scalar type) -/

section rec
variable {α : Type} [Scalar α]

/-- the recursion the two loops implement, history **newest first** -/
def lbfgsRec (bdiag : α) : List (Vec α × Vec α) → Vec α → Vec α
  | [], x => x.map (· / bdiag)
  | sy :: older, x =>
    let rho := Scalar.one / Vec.dot sy.2 sy.1
    let alpha := rho * Vec.dot sy.1 x
    let z := lbfgsRec bdiag older (Vec.axpy x (-alpha) sy.2)
    let beta := rho * Vec.dot sy.2 z
    List.zipWith (fun zi si => zi + si * (alpha - beta)) z sy.1

/-- backward-pass step of `multBInv` -/
def bStep (acc : Vec α × List (α × α × Vec α × Vec α)) (sy : Vec α × Vec α) : Vec α × List (α × α × Vec α × Vec α) :=
  let rho := Scalar.one / Vec.dot sy.2 sy.1
  let alpha := rho * Vec.dot sy.1 acc.1
  (Vec.axpy acc.1 (-alpha) sy.2, (rho, alpha, sy.1, sy.2) :: acc.2)

/-- forward-pass step of `multBInv` -/
def fStep (x : Vec α) (r : α × α × Vec α × Vec α) : Vec α :=
  let beta := r.1 * Vec.dot r.2.2.2 x
  List.zipWith (fun xi si => xi + si * (r.2.1 - beta)) x r.2.2.1

theorem multBInv_unfold (bdiag : α) (hist : List (Vec α × Vec α)) (x : Vec α) :
    LSOpt.multBInv bdiag hist x
      = ((hist.reverse.foldl bStep (x, [])).2).foldl fStep ((hist.reverse.foldl bStep (x, [])).1.map (· / bdiag)) := rfl

theorem two_loop_aux (bdiag : α) : ∀ (l : List (Vec α × Vec α)) (x : Vec α) (acc : List (α × α × Vec α × Vec α)),
    ((l.foldl bStep (x, acc)).2).foldl fStep ((l.foldl bStep (x, acc)).1.map (· / bdiag))
      = acc.foldl fStep (lbfgsRec bdiag l x) := by
  intro l
  induction l with
  | nil => intro x acc; rfl
  | cons sy l ih =>
    intro x acc
    simp only [List.foldl_cons]
    have hb : bStep (x, acc) sy
        = (Vec.axpy x (-(Scalar.one / Vec.dot sy.2 sy.1 * Vec.dot sy.1 x)) sy.2,
           (Scalar.one / Vec.dot sy.2 sy.1, Scalar.one / Vec.dot sy.2 sy.1 * Vec.dot sy.1 x, sy.1, sy.2) :: acc) := rfl
    rw [hb, ih]
    rfl

/-- **two_loop_is_recursion.**  For every scalar type (in particular `Float`), every history length: the two loops
of `multBInv` compute the recursion `lbfgsRec` over the history taken newest first. -/
theorem multBInv_eq_rec (bdiag : α) (hist : List (Vec α × Vec α)) (x : Vec α) :
    LSOpt.multBInv bdiag hist x = lbfgsRec bdiag hist.reverse x := by
  rw [multBInv_unfold, two_loop_aux]; rfl
end rec

/-! ## the implicit matrix -/

/-- the implicit inverse-Hessian approximation, history newest first -/
noncomputable def lbfgsM {n : ℕ} (bdiag : ℚ) : List ((Fin n → ℚ) × (Fin n → ℚ)) → Matrix (Fin n) (Fin n) ℚ
  | [] => (1 / bdiag) • (1 : Matrix (Fin n) (Fin n) ℚ)
  | sy :: older => updM (lbfgsM bdiag older) sy.2 sy.1

theorem smul_one_symPD (n : ℕ) (c : ℚ) (hc : 0 < c) : SymPD (c • (1 : Matrix (Fin n) (Fin n) ℚ)) := by
  obtain ⟨h1, h2⟩ := one_symPD n
  refine ⟨by rw [Matrix.transpose_smul, h1], fun x hx => ?_⟩
  rw [Matrix.smul_mulVec, dotProduct_smul, smul_eq_mul]
  exact mul_pos hc (h2 x hx)

/-- **lbfgs_matrix_pd.**  For every history length: `bdiag > 0` and `yᵀs > 0` for every stored pair make the implicit
matrix symmetric positive definite. -/
theorem lbfgsM_symPD {n : ℕ} (bdiag : ℚ) (hb : 0 < bdiag) :
    ∀ (l : List ((Fin n → ℚ) × (Fin n → ℚ))), (∀ sy ∈ l, 0 < sy.2 ⬝ᵥ sy.1) → SymPD (lbfgsM bdiag l) := by
  intro l
  induction l with
  | nil => intro _; exact smul_one_symPD n _ (by positivity)
  | cons sy l ih =>
    intro h
    have hH := ih (fun p hp => h p (List.mem_cons_of_mem _ hp))
    exact bfgs_update_symPD _ sy.2 sy.1 hH (h sy List.mem_cons_self)

/-- the matrix identity behind one level of the recursion (`M` symmetric) -/
theorem updM_mulVec {n : ℕ} (M : Matrix (Fin n) (Fin n) ℚ) (hsym : Mᵀ = M) (γ δ v : Fin n → ℚ) (hd : γ ⬝ᵥ δ ≠ 0) :
    updM M γ δ *ᵥ v
      = M *ᵥ (v + (-(1 / (γ ⬝ᵥ δ) * (δ ⬝ᵥ v))) • γ)
        + (1 / (γ ⬝ᵥ δ) * (δ ⬝ᵥ v) - 1 / (γ ⬝ᵥ δ) * (γ ⬝ᵥ (M *ᵥ (v + (-(1 / (γ ⬝ᵥ δ) * (δ ⬝ᵥ v))) • γ)))) • δ := by
  have h1 : (M *ᵥ γ) ⬝ᵥ v = γ ⬝ᵥ (M *ᵥ v) := by
    rw [dotProduct_comm, dotProduct_mulVec, dotProduct_comm, ← mulVec_transpose, hsym]
  funext i
  simp only [updM, add_mulVec, sub_mulVec, smul_mulVec, vecMulVec_mulVec, mulVec_add, mulVec_smul, mulVec_neg,
    Pi.add_apply, Pi.sub_apply, Pi.smul_apply, smul_eq_mul, dotProduct_add, dotProduct_smul, op_smul_eq_smul, h1,
    neg_smul, Pi.neg_apply, dotProduct_neg]
  field_simp
  ring

/-! ## transport from lists -/

theorem vecFn_axpy (n : ℕ) (x y : Vec Rat) (c : ℚ) (hx : x.length = n) (hy : y.length = n) :
    vecFn n (Vec.axpy x c y) = vecFn n x + c • vecFn n y := by
  funext i
  have hi : (i : ℕ) < x.length := by rw [hx]; exact i.2
  have hj : (i : ℕ) < y.length := by rw [hy]; exact i.2
  show (List.zipWith (fun a b => a + c * b) x y).getD (i : ℕ) 0 = x.getD (i : ℕ) 0 + c * y.getD (i : ℕ) 0
  rw [getD_zipWith_of_lt _ _ _ _ hi hj, getD_of_lt _ _ hi, getD_of_lt _ _ hj]

theorem vecFn_zipAddMul (n : ℕ) (z s : Vec Rat) (c : ℚ) (hz : z.length = n) (hs : s.length = n) :
    vecFn n (List.zipWith (fun zi si => zi + si * c) z s) = vecFn n z + c • vecFn n s := by
  funext i
  have hi : (i : ℕ) < z.length := by rw [hz]; exact i.2
  have hj : (i : ℕ) < s.length := by rw [hs]; exact i.2
  show (List.zipWith (fun zi si => zi + si * c) z s).getD (i : ℕ) 0 = z.getD (i : ℕ) 0 + c * s.getD (i : ℕ) 0
  rw [getD_zipWith_of_lt _ _ _ _ hi hj, getD_of_lt _ _ hi, getD_of_lt _ _ hj]
  ring

theorem vecFn_mapDiv (n : ℕ) (x : Vec Rat) (b : ℚ) (hx : x.length = n) :
    vecFn n (x.map (· / b)) = (1 / b) • vecFn n x := by
  funext i
  have hi : (i : ℕ) < x.length := by rw [hx]; exact i.2
  show (x.map (· / b)).getD (i : ℕ) 0 = (1 / b) * x.getD (i : ℕ) 0
  rw [getD_map_of_lt _ _ _ hi, getD_of_lt _ _ hi]
  ring

/-- all stored vectors have dimension `n` -/
def HistDim (n : ℕ) (l : List (Vec Rat × Vec Rat)) : Prop := ∀ sy ∈ l, sy.1.length = n ∧ sy.2.length = n

theorem lbfgsRec_length (n : ℕ) (bdiag : ℚ) : ∀ (l : List (Vec Rat × Vec Rat)) (x : Vec Rat), HistDim n l → x.length = n →
    (lbfgsRec bdiag l x).length = n := by
  intro l
  induction l with
  | nil => intro x _ hx; simp [lbfgsRec, hx]
  | cons sy l ih =>
    intro x hl hx
    have h1 := hl sy List.mem_cons_self
    have hq : (Vec.axpy x (-(Scalar.one / Vec.dot sy.2 sy.1 * Vec.dot sy.1 x)) sy.2).length = n := by
      simp [Vec.axpy, hx, h1.2]
    have := ih _ (fun p hp => hl p (List.mem_cons_of_mem _ hp)) hq
    unfold lbfgsRec
    simp only [List.length_zipWith, this, h1.1, min_self]

def histFn (n : ℕ) (l : List (Vec Rat × Vec Rat)) : List ((Fin n → ℚ) × (Fin n → ℚ)) :=
  l.map fun sy => (vecFn n sy.1, vecFn n sy.2)

/-- **two_loop_is_matrix (newest-first form).** -/
theorem lbfgsRec_eq_mulVec (n : ℕ) (bdiag : ℚ) (hb : 0 < bdiag) :
    ∀ (l : List (Vec Rat × Vec Rat)) (x : Vec Rat), HistDim n l → (∀ sy ∈ l, 0 < Vec.dot sy.2 sy.1) → x.length = n →
      vecFn n (lbfgsRec bdiag l x) = lbfgsM bdiag (histFn n l) *ᵥ vecFn n x := by
  intro l
  induction l with
  | nil =>
    intro x _ _ hx
    show vecFn n (x.map (· / bdiag)) = ((1 / bdiag) • (1 : Matrix (Fin n) (Fin n) ℚ)) *ᵥ vecFn n x
    rw [vecFn_mapDiv n x bdiag hx, Matrix.smul_mulVec, Matrix.one_mulVec]
  | cons sy l ih =>
    intro x hl hpos hx
    have h1 := hl sy List.mem_cons_self
    have hl' : HistDim n l := fun p hp => hl p (List.mem_cons_of_mem _ hp)
    have hpos' : ∀ p ∈ l, 0 < Vec.dot p.2 p.1 := fun p hp => hpos p (List.mem_cons_of_mem _ hp)
    have hd : 0 < vecFn n sy.2 ⬝ᵥ vecFn n sy.1 := by rw [← dot_eq n _ _ h1.2 h1.1]; exact hpos sy List.mem_cons_self
    have hsym : (lbfgsM bdiag (histFn n l))ᵀ = lbfgsM bdiag (histFn n l) := by
      refine (lbfgsM_symPD bdiag hb _ ?_).1
      intro p hp
      obtain ⟨q, hq, rfl⟩ := List.mem_map.mp hp
      rw [← dot_eq n _ _ (hl' q hq).2 (hl' q hq).1]; exact hpos' q hq
    set alpha : ℚ := Scalar.one / Vec.dot sy.2 sy.1 * Vec.dot sy.1 x with halpha
    have hq : (Vec.axpy x (-alpha) sy.2).length = n := by simp [Vec.axpy, hx, h1.2]
    have hz := ih (Vec.axpy x (-alpha) sy.2) hl' hpos' hq
    have hzl := lbfgsRec_length n bdiag l _ hl' hq
    show vecFn n (List.zipWith (fun zi si => zi + si * (alpha - Scalar.one / Vec.dot sy.2 sy.1 *
        Vec.dot sy.2 (lbfgsRec bdiag l (Vec.axpy x (-alpha) sy.2)))) (lbfgsRec bdiag l (Vec.axpy x (-alpha) sy.2)) sy.1)
      = updM (lbfgsM bdiag (histFn n l)) (vecFn n sy.2) (vecFn n sy.1) *ᵥ vecFn n x
    rw [vecFn_zipAddMul n _ _ _ hzl h1.1, updM_mulVec _ hsym _ _ _ (ne_of_gt hd), hz, vecFn_axpy n x sy.2 _ hx h1.2,
      dot_eq n _ _ h1.2 hzl, hz, vecFn_axpy n x sy.2 _ hx h1.2, halpha, dot_eq n _ _ h1.2 h1.1, dot_eq n _ _ h1.1 hx]
    simp only [one_eq]

end SharkVerif.BFGS
