/-
`HypervolumeContribution3D`, stage C (continued): (4) array bookkeeping.
`addC`, the closing of the boxes of one point, of several points (`closeMany`: the closing loop `closeAll` and
the `contrib` component of the loop over the dominated points are instances).

Core Lean only.
-/
import SharkVerif.Lemmas.Contrib3DD
namespace SharkVerif.HV
open SharkVerif.Pareto

theorem addC_size (a : Array Int) (i : Nat) (v : Int) : (addC a i v).size = a.size := by
  simp [addC]

theorem addC_getD (a : Array Int) (i j : Nat) (v : Int) :
    (addC a i v).getD j 0 = a.getD j 0 + (if j = i ∧ i < a.size then v else 0) := by
  unfold addC
  by_cases hj : j = i
  · subst hj
    by_cases hs : j < a.size
    · simp [Array.getD, hs]
    · simp [Array.getD, hs]
  · have hij : ¬ i = j := fun h => hj h.symm
    simp [Array.getD_eq_getD_getElem?, hj, hij]

/-- closing the boxes `bs` of the point `d` at height `h` -/
def closeOne (h : Int) (d : Nat) (bs : List Box) (c : Array Int) : Array Int :=
  bs.foldl (fun c b => addC c d { b with u3 := h }.volume) c

theorem closeOne_size (h : Int) (d : Nat) : ∀ (bs : List Box) (c : Array Int), (closeOne h d bs c).size = c.size
  | [], _ => rfl
  | b :: bs, c => by
    simp only [closeOne, List.foldl_cons]
    exact (closeOne_size h d bs _).trans (addC_size _ _ _)

theorem closeOne_getD (h : Int) (d j : Nat) : ∀ (bs : List Box) (c : Array Int),
    (closeOne h d bs c).getD j 0 = c.getD j 0 + (if j = d ∧ d < c.size then potential h bs else 0)
  | [], c => by simp [closeOne, potential]
  | b :: bs, c => by
    have ih := closeOne_getD h d j bs (addC c d { b with u3 := h }.volume)
    simp only [closeOne, List.foldl_cons] at ih ⊢
    rw [ih, addC_getD, addC_size, volume_close]
    simp only [potential]
    split <;> omega

/-- closing the boxes of the points `idxs` at height `h` -/
def closeMany (boxes : Array (List Box)) (h : Int) (idxs : List Nat) (c : Array Int) : Array Int :=
  idxs.foldl (fun c d => closeOne h d (boxes.getD d []) c) c

theorem closeMany_size (boxes : Array (List Box)) (h : Int) : ∀ (idxs : List Nat) (c : Array Int),
    (closeMany boxes h idxs c).size = c.size
  | [], _ => rfl
  | d :: idxs, c => by
    simp only [closeMany, List.foldl_cons]
    exact (closeMany_size boxes h idxs _).trans (closeOne_size _ _ _ _)

/-- every listed point (once) receives the volume of its open boxes, nobody else anything -/
theorem closeMany_getD (boxes : Array (List Box)) (h : Int) (j : Nat) : ∀ (idxs : List Nat) (c : Array Int),
    idxs.Nodup →
    (closeMany boxes h idxs c).getD j 0 =
      c.getD j 0 + (if j ∈ idxs ∧ j < c.size then potential h (boxes.getD j []) else 0)
  | [], c, _ => by simp [closeMany]
  | d :: idxs, c, hn => by
    obtain ⟨hd, hn'⟩ := List.nodup_cons.mp hn
    have ih := closeMany_getD boxes h j idxs (closeOne h d (boxes.getD d []) c) hn'
    simp only [closeMany, List.foldl_cons] at ih ⊢
    rw [ih, closeOne_getD, closeOne_size]
    by_cases hjd : j = d
    · subst hjd
      simp [hd]
    · simp [hjd]

/-- the closing loop of `allContributions` -/
theorem closeAll_eq (st : C3) : closeAll st = closeMany st.boxes 0 (st.front.map (·.idx)) st.contrib := by
  unfold closeAll closeMany closeOne
  rw [List.foldl_map]

/-- the `contrib` component of the loop over the dominated points -/
theorem domFold_contrib (pts : Array P3) (boxes : Array (List Box)) (point : P3) (mine0 : List Box) (xr : Int) :
    ∀ (idxs : List Nat) (c0 : Array Int),
      (idxs.foldl (domStep pts boxes point) (c0, mine0, xr)).1 = closeMany boxes point.f3 idxs c0 := by
  intro idxs
  induction idxs generalizing mine0 xr with
  | nil => intro c0; rfl
  | cons d rest ih =>
    intro c0
    simp only [List.foldl_cons, closeMany]
    exact ih _ _ _

/-!
### status after this file (see also the list at the end of `Contrib3DC.lean`)

Available now for the loop invariant of `step3c`:
* cells: `cutBoxesOnTheLeft_mem_chain`, `cutBoxesOnTheRight_mem`, `newBoxes_mem`;
* chain: `cutBoxesOnTheLeft_chain`, `cutBoxesOnTheRight_chain`, `newBoxes_chain`;
* potential: `cutBoxesOnTheLeft_potential`, `cutBoxesOnTheRight_potential`, `potential_add`;
* arrays: `addC_getD`, `closeMany_getD` (with `closeAll_eq`, `domFold_contrib`), `domFold_boxes`;
* spec: `contribSpec_slices`, `below_eraseIdx_of_lt`; reduction `contribs3d_eq_spec_of_sweepOn`.

Still to do:
* a shape lemma rewriting `step3c` with `domStep` / `newBoxes` / `closeMany` (the fold of `step3c` is
  definitionally `domIdx.reverse.foldl (domStep pts boxes2 point)`, only the `let`/`match` plumbing is missing);
* (3) the front bookkeeping: `takeWhile`/`dropWhile` on a staircase with sentinels (needs `negInf < f1, f2`),
  `StairD` for the dominated points, distinct indices, equal `f1` only for exact duplicates;
* the identification of the cell predicates with the 2-D slice terms of `contribSpec_slices`
  (area of a chain = number of its cells; the slice term = number of exclusively covered 2-D cells);
* (5) the assembly into `SweepCorrectOn (fun q => negInf < q.f1 ∧ negInf < q.f2)`.
-/

end SharkVerif.HV
