/-
`HypervolumeContribution3D` (`Model/Contrib3D.lean`), stage A: bookkeeping.

* `contribs3d_map_snd_perm`: every index is reported exactly once (unconditional);
* `contribSpec_boundary`: a point with a coordinate equal to the reference has contribution 0;
* `contribs3d_eq_spec_of_sweep`: reduction of the whole routine (filter of the boundary points,
  shift by the reference point, sort by the third objective, final `std::sort`) to the correctness
  of the sweep `sweepContrib` on lists that are sorted by `f3`, have negative coordinates and are
  mutually non-dominated (`SweepCorrect`).

Core Lean only.
-/
import SharkVerif.Lemmas.Contrib
import SharkVerif.Lemmas.HV3D
import SharkVerif.Lemmas.Scale
import SharkVerif.Model.Contrib3D
namespace SharkVerif.HV
open SharkVerif.Pareto

/-- a sweep point as a coordinate vector -/
def toPt3 (q : P3) : Pt := [q.f1, q.f2, q.f3]

/-- the initial state of `allContributions` for `n` points -/
def c3init (n : Nat) : C3 :=
  { front := [⟨negInf, 0, negInf, n⟩, ⟨0, negInf, negInf, n⟩]
    boxes := Array.replicate (n + 1) [], contrib := Array.replicate (n + 1) 0 }

/-- the closing loop: the boxes of the points still on the front are closed at height 0 -/
def closeAll (st : C3) : Array Int :=
  st.front.foldl (fun c p =>
    (st.boxes.getD p.idx []).foldl (fun c b => addC c p.idx { b with u3 := 0 }.volume) c) st.contrib

/-- the vector `contributions[.].key` at the end of `allContributions(points)` -/
def sweepContrib (pts : List P3) : Array Int :=
  closeAll ((List.range pts.length).foldl (step3c pts.toArray) (c3init pts.length))

theorem allContributions_eq (pts : List P3) (orig : List Nat) :
    allContributions pts orig =
      (List.range pts.length).map fun i => ((sweepContrib pts).getD i 0, orig.getD i 0) := rfl

/-- correctness of the sweep on the lists whose points satisfy `C` (e.g. a magnitude bound: the model's
sentinels use the finite `negInf`) -/
def SweepCorrectOn (C : P3 → Prop) : Prop :=
  ∀ P : List P3, P.Pairwise (fun a b => a.f3 ≤ b.f3) →
    (∀ q ∈ P, q.f1 < 0 ∧ q.f2 < 0 ∧ q.f3 < 0) →
    (∀ a ∈ P, ∀ b ∈ P, dominates (toPt3 a) (toPt3 b) = false) →
    (∀ q ∈ P, C q) →
    ∀ k, k < P.length → (sweepContrib P).getD k 0 = contribSpec (P.map toPt3) [0, 0, 0] k

/-- what remains to be shown about the sweep itself (no restriction on the points) -/
def SweepCorrect : Prop := SweepCorrectOn fun _ => True

/-! ### generic list facts -/

theorem filter_eraseIdx_of_not {α} (p : α → Bool) : ∀ (l : List α) (i : Nat) (h : i < l.length),
    p l[i] = false → (l.eraseIdx i).filter p = l.filter p
  | a :: l, 0, _, h => by
    simp only [List.getElem_cons_zero] at h
    simp [h]
  | a :: l, i + 1, hi, h => by
    simp only [List.getElem_cons_succ] at h
    simp only [List.eraseIdx_cons_succ, List.filter_cons]
    rw [filter_eraseIdx_of_not p l i (by simpa using hi) h]

theorem map_getD_range {α} (l : List α) (d : α) : (List.range l.length).map (fun i => l.getD i d) = l := by
  apply List.ext_getElem
  · simp
  · intro i h1 h2
    simp only [List.length_map, List.length_range] at h1
    simp [List.getD_eq_getElem?_getD, h1]

theorem filter_zipIdx_map_fst {α} (f : α → Bool) (S : List α) :
    (S.zipIdx.filter fun z => f z.1).map (·.1) = S.filter f := by
  have : (S.zipIdx.filter fun z => f z.1) = S.zipIdx.filter (f ∘ Prod.fst) := rfl
  rw [this, ← List.filter_map, List.zipIdx_map_fst]

/-! ### boundary points -/

/-- a point that is not strictly inside the reference box contributes nothing -/
theorem contribSpec_boundary {S : List Pt} {r : Pt} (hS : ∀ p ∈ S, p.length = 3) (hr : r.length = 3)
    (hle : ∀ p ∈ S, leAll p r = true) {i : Nat} (hi : i < S.length) (hb : inside3 r S[i] = false) :
    contribSpec S r i = 0 := by
  unfold contribSpec
  rw [← hvSpec_filter_inside3 hS hr hle,
    ← hvSpec_filter_inside3 (S := S.eraseIdx i) (fun p hp => hS p (List.mem_of_mem_eraseIdx hp)) hr
      (fun p hp => hle p (List.mem_of_mem_eraseIdx hp)),
    filter_eraseIdx_of_not _ _ _ hi hb]
  omega

/-- points outside the box can be dropped from a hypervolume -/
theorem hvSpec_append_outside {A O : List Pt} {r : Pt} (hA : ∀ p ∈ A, p.length = 3 ∧ leAll p r = true)
    (hO : ∀ p ∈ O, p.length = 3 ∧ leAll p r = true) (hr : r.length = 3)
    (hin : ∀ p ∈ A, inside3 r p = true) (hout : ∀ p ∈ O, inside3 r p = false) :
    hvSpec (A ++ O) r = hvSpec A r := by
  have hall : ∀ p ∈ A ++ O, p.length = 3 ∧ leAll p r = true := by
    intro p hp
    rcases List.mem_append.mp hp with h | h
    · exact hA p h
    · exact hO p h
  rw [← hvSpec_filter_inside3 (fun p hp => (hall p hp).1) hr (fun p hp => (hall p hp).2),
    List.filter_append, List.filter_eq_self.mpr hin,
    List.filter_eq_nil_iff.mpr (fun p hp => by simp [hout p hp]), List.append_nil]

/-! ### the index part -/

theorem contribs3d_map_snd_perm (S : List Pt) (r : Pt) :
    ((contribs3d S r).map (·.2)).Perm (List.range S.length) := by
  unfold contribs3d
  simp only [List.map_append, List.map_map]
  have h1 : (sortKV (allContributions
      ((((S.zipIdx.filter fun x => inside3 r x.1).map fun x =>
        (({ f1 := px x.1 - px r, f2 := py x.1 - py r, f3 := pz x.1 - pz r, idx := 0 } : P3), x.2)).mergeSort
          fun a b => decide (a.1.f3 ≤ b.1.f3)).map (·.1))
      ((((S.zipIdx.filter fun x => inside3 r x.1).map fun x =>
        (({ f1 := px x.1 - px r, f2 := py x.1 - py r, f3 := pz x.1 - pz r, idx := 0 } : P3), x.2)).mergeSort
          fun a b => decide (a.1.f3 ≤ b.1.f3)).map (·.2)))).map (·.2) |>.Perm
      ((S.zipIdx.filter fun x => inside3 r x.1).map (·.2)) := by
    refine ((sortKV_perm _).map _).trans ?_
    rw [allContributions_eq, List.map_map]
    have hlen : ∀ (L : List (P3 × Nat)), (L.map (·.1)).length = (L.map (·.2)).length := by
      intro L; simp
    rw [hlen]
    have := map_getD_range ((((S.zipIdx.filter fun x => inside3 r x.1).map fun x =>
        (({ f1 := px x.1 - px r, f2 := py x.1 - py r, f3 := pz x.1 - pz r, idx := 0 } : P3), x.2)).mergeSort
          fun a b => decide (a.1.f3 ≤ b.1.f3)).map (·.2)) 0
    simp only [Function.comp_def]
    rw [this]
    refine ((List.mergeSort_perm _ _).map _).trans ?_
    rw [List.map_map]
    exact List.Perm.of_eq (List.map_congr_left fun x _ => rfl)
  have h2 : ((S.zipIdx.filter fun x => !inside3 r x.1).map (·.2) ++
      (S.zipIdx.filter fun x => inside3 r x.1).map (·.2)).Perm (List.range S.length) := by
    rw [← List.map_append, List.range_eq_range', ← List.zipIdx_map_snd 0 S]
    exact (List.perm_append_comm.trans (List.filter_append_perm _ _)).map _
  refine List.Perm.trans ?_ h2
  refine List.Perm.append (List.Perm.of_eq ?_) h1
  exact List.map_congr_left fun x _ => rfl


/-! ### reduction of the value part to the sweep -/

def shiftP3 (r p : Pt) : P3 := { f1 := px p - px r, f2 := py p - py r, f3 := pz p - pz r, idx := 0 }

def unshift3 (r : Pt) (q : P3) : Pt := [q.f1 + px r, q.f2 + py r, q.f3 + pz r]

/-- the indexed points that take part in the sweep -/
def ins3 (S : List Pt) (r : Pt) : List (Pt × Nat) := S.zipIdx.filter fun z => inside3 r z.1

def outs3 (S : List Pt) (r : Pt) : List (Pt × Nat) := S.zipIdx.filter fun z => !inside3 r z.1

/-- the shifted points in sweep order, with their original indices -/
def sorted3 (S : List Pt) (r : Pt) : List (P3 × Nat) :=
  ((ins3 S r).map fun z => (shiftP3 r z.1, z.2)).mergeSort fun a b => decide (a.1.f3 ≤ b.1.f3)

theorem contribs3d_def (S : List Pt) (r : Pt) :
    contribs3d S r = ((outs3 S r).map fun z => ((0 : Int), z.2)) ++
      sortKV (allContributions ((sorted3 S r).map (·.1)) ((sorted3 S r).map (·.2))) := rfl

theorem unshift3_shiftP3 {r p : Pt} (hp : p.length = 3) : unshift3 r (shiftP3 r p) = p := by
  conv => rhs; rw [eq_triple hp]
  simp only [unshift3, shiftP3]
  congr 1
  · omega
  · congr 1
    · omega
    · congr 1; omega

theorem mem_zipIdx_mem {S : List Pt} {z : Pt × Nat} (h : z ∈ S.zipIdx) : z.1 ∈ S := by
  have := (List.mem_zipIdx' (x := z.1) (i := z.2) h).2
  rw [this]; exact List.getElem_mem _

theorem sorted3_unshift_perm {S : List Pt} {r : Pt} (hS : ∀ p ∈ S, p.length = 3) :
    ((sorted3 S r).map fun z => (unshift3 r z.1, z.2)).Perm (ins3 S r) := by
  unfold sorted3
  refine ((List.mergeSort_perm _ _).map _).trans ?_
  rw [List.map_map]
  refine List.Perm.of_eq ?_
  conv => rhs; rw [← List.map_id (ins3 S r)]
  apply List.map_congr_left
  intro z hz
  have hz' : z.1 ∈ S := mem_zipIdx_mem (List.mem_filter.mp hz).1
  simp [unshift3_shiftP3 (hS _ hz')]

theorem mem_sorted3 {S : List Pt} {r : Pt} {w : P3 × Nat} (h : w ∈ sorted3 S r) :
    ∃ p, (p, w.2) ∈ S.zipIdx ∧ p ∈ S ∧ inside3 r p = true ∧ w.1 = shiftP3 r p := by
  unfold sorted3 at h
  rw [List.mem_mergeSort] at h
  obtain ⟨z, hz, rfl⟩ := List.mem_map.mp h
  obtain ⟨hz1, hz2⟩ := List.mem_filter.mp hz
  exact ⟨z.1, hz1, mem_zipIdx_mem hz1, hz2, rfl⟩

theorem toPt3_shiftP3 {a b c : Int} {p : Pt} (hp : p.length = 3) :
    toPt3 (shiftP3 [a, b, c] p) = shiftPt [-a, -b, -c] p := by
  conv => rhs; rw [eq_triple hp]
  simp only [toPt3, shiftP3, shiftPt_cons, shiftPt_nil_left, px, py, pz, List.getD_cons_zero,
    List.getD_cons_succ]
  rfl

theorem shift_unshift3 {a b c : Int} (q : P3) :
    shiftPt [-a, -b, -c] (unshift3 [a, b, c] q) = toPt3 q := by
  simp only [toPt3, unshift3, shiftPt_cons, shiftPt_nil_left, px, py, pz, List.getD_cons_zero,
    List.getD_cons_succ]
  congr 1
  · omega
  · congr 1
    · omega
    · congr 1; omega

theorem sorted3_pairwise (S : List Pt) (r : Pt) :
    ((sorted3 S r).map (·.1)).Pairwise fun a b => a.f3 ≤ b.f3 := by
  unfold sorted3
  have := List.pairwise_mergeSort (le := fun a b : P3 × Nat => decide (a.1.f3 ≤ b.1.f3))
    (by intro a b c; simp only [decide_eq_true_eq]; omega)
    (by intro a b; simp only [Bool.or_eq_true, decide_eq_true_eq]; omega)
    ((ins3 S r).map fun z => (shiftP3 r z.1, z.2))
  rw [List.pairwise_map]
  exact this.imp (by simp)

/-- **reduction**: the routine is correct as soon as the sweep is -/
theorem contribs3d_value_of_sweepOn {C : P3 → Prop} (hsw : SweepCorrectOn C) {S : List Pt} {r : Pt}
    (hS : ∀ p ∈ S, p.length = 3) (hr : r.length = 3)
    (hle : ∀ p ∈ S, leAll p r = true) (hnd : ∀ p ∈ S, ∀ q ∈ S, dominates p q = false)
    (hC : ∀ p ∈ S, inside3 r p = true → C (shiftP3 r p)) :
    ∀ c ∈ contribs3d S r, c.1 = contribSpec S r c.2 := by
  obtain ⟨a, b, c, rfl⟩ : ∃ a b c, r = [a, b, c] := by
    match r, hr with
    | [a, b, c], _ => exact ⟨a, b, c, rfl⟩
  intro kv hc
  rw [contribs3d_def] at hc
  rcases List.mem_append.mp hc with h | h
  · obtain ⟨z, hz, rfl⟩ := List.mem_map.mp h
    obtain ⟨hzZ, hzo⟩ := List.mem_filter.mp hz
    obtain ⟨hi, hp⟩ := List.mem_zipIdx' (x := z.1) (i := z.2) hzZ
    simp only
    rw [contribSpec_boundary hS hr hle hi (by rw [← hp]; simpa using hzo)]
  · have h := (sortKV_perm _).mem_iff.mp h
    rw [allContributions_eq] at h
    obtain ⟨k, hk, rfl⟩ := List.mem_map.mp h
    simp only [List.mem_range, List.length_map] at hk
    generalize hL : sorted3 S [a, b, c] = L at *
    have hmemL : ∀ w ∈ L, ∃ p, (p, w.2) ∈ S.zipIdx ∧ p ∈ S ∧ inside3 [a, b, c] p = true ∧
        w.1 = shiftP3 [a, b, c] p := by
      intro w hw; rw [← hL] at hw; exact mem_sorted3 hw
    -- the hypotheses of the sweep
    have hP1 : (L.map (·.1)).Pairwise fun a b => a.f3 ≤ b.f3 := by
      rw [← hL]; exact sorted3_pairwise _ _
    have hP2 : ∀ q ∈ L.map (·.1), q.f1 < 0 ∧ q.f2 < 0 ∧ q.f3 < 0 := by
      intro q hq
      obtain ⟨w, hw, rfl⟩ := List.mem_map.mp hq
      obtain ⟨p, _, _, hin, he⟩ := hmemL w hw
      obtain ⟨h0, h1, h2⟩ := inside3_iff.mp hin
      rw [he]
      simp only [shiftP3]
      refine ⟨by omega, by omega, by omega⟩
    have hP3 : ∀ x ∈ L.map (·.1), ∀ y ∈ L.map (·.1), dominates (toPt3 x) (toPt3 y) = false := by
      intro x hx y hy
      obtain ⟨w, hw, rfl⟩ := List.mem_map.mp hx
      obtain ⟨w', hw', rfl⟩ := List.mem_map.mp hy
      obtain ⟨p, _, hpS, _, he⟩ := hmemL w hw
      obtain ⟨p', _, hpS', _, he'⟩ := hmemL w' hw'
      rw [he, he', toPt3_shiftP3 (hS p hpS), toPt3_shiftP3 (hS p' hpS'),
        dominates_shift _ _ _ (by simp [hS p hpS]) (by simp [hS p' hpS'])]
      exact hnd p hpS p' hpS'
    have hP4 : ∀ q ∈ L.map (·.1), C q := by
      intro q hq
      obtain ⟨w, hw, rfl⟩ := List.mem_map.mp hq
      obtain ⟨p, _, hpS, hin, he⟩ := hmemL w hw
      rw [he]; exact hC p hpS hin
    have hsweep := hsw (L.map (·.1)) hP1 hP2 hP3 hP4 k (by simpa using hk)
    simp only
    rw [hsweep]
    -- split the sorted list at position `k`
    have hsplit : L = L.take k ++ L[k] :: L.drop (k + 1) := by
      rw [List.getElem_cons_drop, List.take_append_drop]
    have hgetD : (L.map (·.2)).getD k 0 = L[k].2 := by
      simp [List.getD_eq_getElem?_getD, hk]
    rw [hgetD]
    generalize hZ1 : L.take k = Z1 at hsplit
    generalize hZ2 : L.drop (k + 1) = Z2 at hsplit
    generalize hz : L[k] = z at hsplit
    let u : P3 × Nat → Pt × Nat := fun w => (unshift3 [a, b, c] w.1, w.2)
    have hu : (L.map u).Perm (ins3 S [a, b, c]) := by
      rw [← hL]; exact sorted3_unshift_perm hS
    have hW : (Z1.map u ++ (unshift3 [a, b, c] z.1, z.2) :: (Z2.map u ++ outs3 S [a, b, c])).Perm S.zipIdx := by
      have h1 : (L.map u ++ outs3 S [a, b, c]).Perm S.zipIdx :=
        (hu.append_right _).trans (List.filter_append_perm _ _)
      rw [hsplit] at h1
      simpa [u, List.append_assoc] using h1
    obtain ⟨hi, hperm'⟩ := eraseIdx_perm_of_zipIdx hW
    -- membership facts
    have huS : ∀ w ∈ L, (u w).1 ∈ S ∧ inside3 [a, b, c] (u w).1 = true := by
      intro w hw
      have : u w ∈ ins3 S [a, b, c] := hu.mem_iff.mp (List.mem_map.mpr ⟨w, hw, rfl⟩)
      obtain ⟨h1, h2⟩ := List.mem_filter.mp this
      exact ⟨mem_zipIdx_mem h1, h2⟩
    have houtS : ∀ w ∈ outs3 S [a, b, c], w.1 ∈ S ∧ inside3 [a, b, c] w.1 = false := by
      intro w hw
      obtain ⟨h1, h2⟩ := List.mem_filter.mp hw
      exact ⟨mem_zipIdx_mem h1, by simpa using h2⟩
    have hsubL : ∀ w ∈ Z1 ++ Z2, w ∈ L := by
      intro w hw
      rw [hsplit]
      rcases List.mem_append.mp hw with h | h
      · exact List.mem_append_left _ h
      · exact List.mem_append_right _ (List.mem_cons_of_mem _ h)
    have ht : ([-a, -b, -c] : Pt).length = 3 := rfl
    have hr0 : shiftPt [-a, -b, -c] [a, b, c] = [0, 0, 0] := by
      simp only [shiftPt_cons, shiftPt_nil_left]
      congr 1
      · omega
      · congr 1
        · omega
        · congr 1; omega
    -- the hypervolume of the others
    have e2 : hvSpec (S.eraseIdx z.2) [a, b, c] =
        hvSpec (((L.map (·.1)).map toPt3).eraseIdx k) [0, 0, 0] := by
      rw [hvSpec_perm hperm']
      have hl : (Z1.map u ++ (Z2.map u ++ outs3 S [a, b, c])).map (·.1) =
          (Z1 ++ Z2).map (fun w => (u w).1) ++ (outs3 S [a, b, c]).map (·.1) := by
        simp only [List.map_append, List.append_assoc, List.map_map]
        rfl
      rw [hl, hvSpec_append_outside
        (by
          intro p hp
          obtain ⟨w, hw, rfl⟩ := List.mem_map.mp hp
          have := (huS w (hsubL w hw)).1
          exact ⟨hS _ this, hle _ this⟩)
        (by
          intro p hp
          obtain ⟨w, hw, rfl⟩ := List.mem_map.mp hp
          have := (houtS w hw).1
          exact ⟨hS _ this, hle _ this⟩) hr
        (by
          intro p hp
          obtain ⟨w, hw, rfl⟩ := List.mem_map.mp hp
          exact (huS w (hsubL w hw)).2)
        (by
          intro p hp
          obtain ⟨w, hw, rfl⟩ := List.mem_map.mp hp
          exact (houtS w hw).2),
        ← hvSpec_shift [-a, -b, -c] _ [a, b, c]
          (by
            intro p hp
            obtain ⟨w, hw, rfl⟩ := List.mem_map.mp hp
            rw [hS _ (huS w (hsubL w hw)).1]; rfl) hr, hr0]
      congr 1
      rw [List.eraseIdx_eq_take_drop_succ, List.map_map, List.map_map, ← List.map_take, ← List.map_drop,
        hZ1, hZ2, ← List.map_append]
      apply List.map_congr_left
      intro w _
      exact shift_unshift3 w.1
    have e1 : hvSpec S [a, b, c] = hvSpec ((L.map (·.1)).map toPt3) [0, 0, 0] := by
      rw [← hvSpec_filter_inside3 hS hr hle, ← filter_zipIdx_map_fst]
      have : (S.zipIdx.filter fun z => inside3 [a, b, c] z.1) = ins3 S [a, b, c] := rfl
      rw [this, ← hvSpec_perm (hu.map (·.1)),
        ← hvSpec_shift [-a, -b, -c] _ [a, b, c]
          (by
            intro p hp
            obtain ⟨w', hw', rfl⟩ := List.mem_map.mp hp
            obtain ⟨w, hw, rfl⟩ := List.mem_map.mp hw'
            rw [hS _ (huS w hw).1]; rfl) hr, hr0]
      congr 1
      rw [List.map_map, List.map_map, List.map_map]
      apply List.map_congr_left
      intro w _
      exact shift_unshift3 w.1
    unfold contribSpec
    rw [e1, e2]

theorem contribs3d_value_of_sweep (hsw : SweepCorrect) {S : List Pt} {r : Pt}
    (hS : ∀ p ∈ S, p.length = 3) (hr : r.length = 3)
    (hle : ∀ p ∈ S, leAll p r = true) (hnd : ∀ p ∈ S, ∀ q ∈ S, dominates p q = false) :
    ∀ c ∈ contribs3d S r, c.1 = contribSpec S r c.2 :=
  contribs3d_value_of_sweepOn hsw hS hr hle hnd (fun _ _ _ => trivial)

theorem contribs3d_eq_spec_of_sweepOn {C : P3 → Prop} (hsw : SweepCorrectOn C) {S : List Pt} {r : Pt}
    (hS : ∀ p ∈ S, p.length = 3) (hr : r.length = 3)
    (hle : ∀ p ∈ S, leAll p r = true) (hnd : ∀ p ∈ S, ∀ q ∈ S, dominates p q = false)
    (hC : ∀ p ∈ S, inside3 r p = true → C (shiftP3 r p)) :
    ((contribs3d S r).map (·.2)).Perm (List.range S.length) ∧
    ∀ c ∈ contribs3d S r, c.1 = contribSpec S r c.2 :=
  ⟨contribs3d_map_snd_perm S r, contribs3d_value_of_sweepOn hsw hS hr hle hnd hC⟩

theorem contribs3d_eq_spec_of_sweep (hsw : SweepCorrect) {S : List Pt} {r : Pt}
    (hS : ∀ p ∈ S, p.length = 3) (hr : r.length = 3)
    (hle : ∀ p ∈ S, leAll p r = true) (hnd : ∀ p ∈ S, ∀ q ∈ S, dominates p q = false) :
    ((contribs3d S r).map (·.2)).Perm (List.range S.length) ∧
    ∀ c ∈ contribs3d S r, c.1 = contribSpec S r c.2 :=
  ⟨contribs3d_map_snd_perm S r, contribs3d_value_of_sweep hsw hS hr hle hnd⟩

end SharkVerif.HV
