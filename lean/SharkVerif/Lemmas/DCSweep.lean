/-
Lemmas for the divide-and-conquer non-dominated sort (`Model/DCSort.lean`), part 1:
the map `T`, the sweeps `sweepA` / `sweepB`, the brute-force base case of `ndHelperB`
and the two-point base case of `ndHelperA`.

All postconditions are stated with `sup l p f`, the maximum of `f` over the members of `l`
satisfying `p` (0 if there is none).
-/
import SharkVerif.Model.DCSort
import SharkVerif.Lemmas.FastSort
namespace SharkVerif.DC
open SharkVerif.Pareto

/-! ### maxima over index lists -/

theorem foldl_max_eq {l : List Nat} {M : Nat} (hle : ∀ x ∈ l, x ≤ M) (hat : M = 0 ∨ M ∈ l) :
    l.foldl max 0 = M := by
  have h1 := foldl_max_ge l 0
  rcases foldl_max_mem l 0 with h2 | h2
  · rcases hat with rfl | hat
    · exact h2
    · have := h1.2 M hat; omega
  · have := hle _ h2
    rcases hat with rfl | hat
    · omega
    · have := h1.2 M hat; omega

/-- the maximum of `f` over the members of `l` with property `p` (0 if there is none) -/
def sup (l : List Nat) (p : Nat → Prop) [DecidablePred p] (f : Nat → Nat) : Nat :=
  ((l.filter fun x => decide (p x)).map f).foldl max 0

section sup
variable {l : List Nat} {p : Nat → Prop} [DecidablePred p] {f : Nat → Nat}

theorem sup_ge {x : Nat} (hx : x ∈ l) (hp : p x) : f x ≤ sup l p f :=
  (foldl_max_ge _ 0).2 _ (List.mem_map.mpr ⟨x, List.mem_filter.mpr ⟨hx, by simpa using hp⟩, rfl⟩)

theorem sup_cases (l : List Nat) (p : Nat → Prop) [DecidablePred p] (f : Nat → Nat) :
    sup l p f = 0 ∨ ∃ x ∈ l, p x ∧ sup l p f = f x := by
  rcases foldl_max_mem ((l.filter fun x => decide (p x)).map f) 0 with h | h
  · exact Or.inl h
  · obtain ⟨x, hx, e⟩ := List.mem_map.mp h
    have := List.mem_filter.mp hx
    exact Or.inr ⟨x, this.1, by simpa using this.2, e.symm⟩

theorem sup_le {M : Nat} (h : ∀ x ∈ l, p x → f x ≤ M) : sup l p f ≤ M := by
  rcases sup_cases l p f with h0 | ⟨x, hx, hp, e⟩
  · omega
  · rw [e]; exact h x hx hp

theorem sup_eq {M : Nat} (hle : ∀ x ∈ l, p x → f x ≤ M) (hat : M = 0 ∨ ∃ x ∈ l, p x ∧ f x = M) :
    sup l p f = M := by
  have h1 := sup_le hle
  rcases hat with rfl | ⟨x, hx, hp, e⟩
  · omega
  · have := sup_ge (f := f) hx hp; omega

/-- two maxima over the same set of qualifying members with the same values coincide -/
theorem sup_congr {l' : List Nat} {q : Nat → Prop} [DecidablePred q] {g : Nat → Nat}
    (h1 : ∀ x ∈ l, p x → x ∈ l' ∧ q x ∧ f x = g x) (h2 : ∀ x ∈ l', q x → x ∈ l ∧ p x) :
    sup l p f = sup l' q g := by
  apply sup_eq
  · intro x hx hp
    obtain ⟨a, b, c⟩ := h1 x hx hp
    rw [c]; exact sup_ge a b
  · rcases sup_cases l' q g with h0 | ⟨x, hx, hq, e⟩
    · exact Or.inl h0
    · obtain ⟨a, b⟩ := h2 x hx hq
      exact Or.inr ⟨x, a, b, by rw [e, (h1 x a b).2.2]⟩

theorem sup_nil : sup [] p f = 0 := rfl

theorem sup_cons (a : Nat) : sup (a :: l) p f = if p a then max (f a) (sup l p f) else sup l p f := by
  by_cases ha : p a
  · rw [if_pos ha]
    apply sup_eq
    · intro x hx hp
      rcases List.mem_cons.mp hx with hxa | hx
      · subst hxa; omega
      · have := sup_ge (f := f) hx hp; omega
    · rcases Nat.le_total (sup l p f) (f a) with h | h
      · right; exact ⟨a, by simp, ha, by omega⟩
      · rcases sup_cases l p f with h0 | ⟨x, hx, hp, e⟩
        · right; exact ⟨a, by simp, ha, by omega⟩
        · right; exact ⟨x, by simp [hx], hp, by omega⟩
  · rw [if_neg ha]
    apply sup_congr
    · intro x hx hp
      rcases List.mem_cons.mp hx with hxa | hx
      · subst hxa; exact absurd hp ha
      · exact ⟨hx, hp, rfl⟩
    · intro x hx hp; exact ⟨by simp [hx], hp⟩

/-- a maximum over a union -/
theorem sup_union {l₁ l₂ : List Nat} (h : ∀ x, x ∈ l ↔ x ∈ l₁ ∨ x ∈ l₂) :
    sup l p f = max (sup l₁ p f) (sup l₂ p f) := by
  apply sup_eq
  · intro x hx hp
    rcases (h x).mp hx with h1 | h1
    · have := sup_ge (f := f) h1 hp; omega
    · have := sup_ge (f := f) h1 hp; omega
  · rcases Nat.le_total (sup l₁ p f) (sup l₂ p f) with hm | hm
    · rcases sup_cases l₂ p f with h0 | ⟨x, hx, hp, e⟩
      · left; omega
      · right; exact ⟨x, (h x).mpr (Or.inr hx), hp, by omega⟩
    · rcases sup_cases l₁ p f with h0 | ⟨x, hx, hp, e⟩
      · left; omega
      · right; exact ⟨x, (h x).mpr (Or.inl hx), hp, by omega⟩

end sup

/-! ### the front array -/

theorem fr_raise (frt : Frt) (i v x : Nat) (hi : i < frt.size) :
    fr (raise frt i v) x = if x = i then max (fr frt i) v else fr frt x :=
  gd_set frt i _ x hi

theorem raise_size (frt : Frt) (i v : Nat) : (raise frt i v).size = frt.size := by simp [raise]

/-- `if (r > 0) p->frt = max(p->frt, r + 1)` for a point with front number `≥ 1` -/
theorem raise_if {cur cur' : Frt} {h r : Nat} (hc : cur' = if r > 0 then raise cur h (r + 1) else cur)
    (hh : h < cur.size) (hpos : 1 ≤ fr cur h) :
    cur'.size = cur.size ∧ ∀ x, fr cur' x = if x = h then max (fr cur h) (1 + r) else fr cur x := by
  by_cases hr0 : r > 0
  · rw [if_pos hr0] at hc
    subst hc
    refine ⟨raise_size _ _ _, fun x => ?_⟩
    rw [fr_raise _ _ _ _ hh]
    by_cases hx : x = h
    · rw [if_pos hx, if_pos hx]; omega
    · rw [if_neg hx, if_neg hx]
  · rw [if_neg hr0] at hc
    subst hc
    refine ⟨rfl, fun x => ?_⟩
    by_cases hx : x = h
    · rw [if_pos hx, hx]; omega
    · rw [if_neg hx]

/-! ### (a) the map `T` -/

/-- the loop of `tMaxLe` started from `a` -/
def tFold (y : Int) (T : TMap) (a : Nat) : Nat :=
  T.foldl (fun r p => if p.2 ≤ y then max r p.1 else r) a

theorem tFold_cons (y : Int) (q : Nat × Int) (T : TMap) (a : Nat) :
    tFold y (q :: T) a = tFold y T (if q.2 ≤ y then max a q.1 else a) := rfl

theorem tFold_spec (y : Int) (T : TMap) : ∀ a : Nat,
    a ≤ tFold y T a ∧ (∀ q ∈ T, q.2 ≤ y → q.1 ≤ tFold y T a) ∧
    (tFold y T a = a ∨ ∃ q ∈ T, q.2 ≤ y ∧ q.1 = tFold y T a) := by
  induction T with
  | nil => intro a; simp [tFold]
  | cons q T ih =>
    intro a
    rw [tFold_cons]
    by_cases hy : q.2 ≤ y
    · rw [if_pos hy]
      obtain ⟨h1, h2, h3⟩ := ih (max a q.1)
      refine ⟨by omega, ?_, ?_⟩
      · intro q' hq' hy'
        rcases List.mem_cons.mp hq' with e | hq'
        · subst e; omega
        · exact h2 q' hq' hy'
      · rcases h3 with h3 | ⟨q', hq', hy', e⟩
        · rcases Nat.le_total a q.1 with h | h
          · right; exact ⟨q, List.mem_cons_self, hy, by omega⟩
          · left; omega
        · right; exact ⟨q', List.mem_cons_of_mem _ hq', hy', e⟩
    · rw [if_neg hy]
      obtain ⟨h1, h2, h3⟩ := ih a
      refine ⟨h1, ?_, ?_⟩
      · intro q' hq' hy'
        rcases List.mem_cons.mp hq' with e | hq'
        · subst e; exact absurd hy' hy
        · exact h2 q' hq' hy'
      · rcases h3 with h3 | ⟨q', hq', hy', e⟩
        · left; exact h3
        · right; exact ⟨q', List.mem_cons_of_mem _ hq', hy', e⟩

/-- every key whose value is `≤ y` is `≤ tMaxLe T y` -/
theorem tMaxLe_ge {T : TMap} {y : Int} {q : Nat × Int} (hq : q ∈ T) (hy : q.2 ≤ y) : q.1 ≤ tMaxLe T y :=
  (tFold_spec y T 0).2.1 q hq hy

/-- `tMaxLe T y` is 0 or a key whose value is `≤ y`: together with `tMaxLe_ge`, it is the largest
such key, and 0 if there is none -/
theorem tMaxLe_cases (T : TMap) (y : Int) : tMaxLe T y = 0 ∨ ∃ q ∈ T, q.2 ≤ y ∧ q.1 = tMaxLe T y :=
  (tFold_spec y T 0).2.2

theorem tSet_cons (g : Nat) (v : Int) (T : TMap) (f : Nat) (y : Int) :
    tSet ((g, v) :: T) f y = if g = f then (g, y) :: T else (g, v) :: tSet T f y := by
  by_cases h : g = f <;> simp [tSet, h]

theorem tFind_cons (g : Nat) (v : Int) (T : TMap) (f : Nat) :
    tFind ((g, v) :: T) f = if g = f then some v else tFind T f := by
  unfold tFind; rw [List.find?_cons]
  by_cases h : g = f
  · simp [h]
  · have : (g == f) = false := by simpa using h
    simp [this, h]

/-- `tSet` adds the binding … -/
theorem tSet_self (T : TMap) (f : Nat) (y : Int) : (f, y) ∈ tSet T f y := by
  induction T with
  | nil => simp [tSet]
  | cons e T ih =>
    obtain ⟨g, v⟩ := e
    rw [tSet_cons]
    by_cases hg : g = f
    · rw [if_pos hg, hg]; exact List.mem_cons_self
    · rw [if_neg hg]; exact List.mem_cons_of_mem _ ih

/-- … adds nothing else … -/
theorem mem_tSet {T : TMap} {f : Nat} {y : Int} {q : Nat × Int} (h : q ∈ tSet T f y) :
    q = (f, y) ∨ q ∈ T := by
  induction T with
  | nil => simp [tSet] at h; exact Or.inl h
  | cons e T ih =>
    obtain ⟨g, v⟩ := e
    rw [tSet_cons] at h
    by_cases hg : g = f
    · rw [if_pos hg] at h
      rcases List.mem_cons.mp h with e | h
      · left; rw [e, hg]
      · right; exact List.mem_cons_of_mem _ h
    · rw [if_neg hg] at h
      rcases List.mem_cons.mp h with e | h
      · right; rw [e]; exact List.mem_cons_self
      · rcases ih h with h | h
        · exact Or.inl h
        · right; exact List.mem_cons_of_mem _ h

/-- … and removes only the binding found by `tFind` -/
theorem tSet_keep {T : TMap} {f : Nat} {y : Int} {q : Nat × Int} (h : q ∈ T) :
    q ∈ tSet T f y ∨ (q.1 = f ∧ tFind T f = some q.2) := by
  induction T with
  | nil => cases h
  | cons e T ih =>
    obtain ⟨g, v⟩ := e
    rw [tSet_cons, tFind_cons]
    by_cases hg : g = f
    · rw [if_pos hg, if_pos hg]
      rcases List.mem_cons.mp h with e | h
      · right; rw [e]; exact ⟨hg, rfl⟩
      · left; exact List.mem_cons_of_mem _ h
    · rw [if_neg hg, if_neg hg]
      rcases List.mem_cons.mp h with e | h
      · left; rw [e]; exact List.mem_cons_self
      · rcases ih h with h' | h'
        · left; exact List.mem_cons_of_mem _ h'
        · right; exact h'

theorem tFind_some {T : TMap} {f : Nat} {v : Int} (h : tFind T f = some v) : (f, v) ∈ T := by
  induction T with
  | nil => simp [tFind] at h
  | cons e T ih =>
    obtain ⟨g, w⟩ := e
    rw [tFind_cons] at h
    by_cases hg : g = f
    · rw [if_pos hg] at h
      have : w = v := by simpa using h
      rw [hg, this]; exact List.mem_cons_self
    · rw [if_neg hg] at h; exact List.mem_cons_of_mem _ (ih h)

theorem tFind_none {T : TMap} {f : Nat} (h : tFind T f = none) : ∀ q ∈ T, q.1 ≠ f := by
  induction T with
  | nil => intro q hq; cases hq
  | cons e T ih =>
    obtain ⟨g, w⟩ := e
    rw [tFind_cons] at h
    by_cases hg : g = f
    · rw [if_pos hg] at h; cases h
    · rw [if_neg hg] at h
      intro q hq
      rcases List.mem_cons.mp hq with e | hq
      · rw [e]; exact hg
      · exact ih h q hq

/-- the invariant of `T` in both sweeps: `T` maps every front number `f l` of a consumed point
`l ∈ C` to a second objective `≤ g l` that is attained by a consumed point of that front —
i.e. (for distinct keys) to the minimum of `g` over the consumed points with front number `f l` -/
def TInv (f : Nat → Nat) (g : Nat → Int) (C : List Nat) (T : TMap) : Prop :=
  (∀ q ∈ T, ∃ l ∈ C, f l = q.1 ∧ g l = q.2) ∧ (∀ l ∈ C, ∃ q ∈ T, q.1 = f l ∧ q.2 ≤ g l)

theorem TInv.tMaxLe {f : Nat → Nat} {g : Nat → Int} {C : List Nat} {T : TMap} (h : TInv f g C T) (y : Int) :
    tMaxLe T y = sup C (fun l => g l ≤ y) f := by
  symm; apply sup_eq
  · intro l hl hy
    obtain ⟨q, hq, e1, e2⟩ := h.2 l hl
    rw [← e1]; exact tMaxLe_ge hq (by omega)
  · rcases tMaxLe_cases T y with h0 | ⟨q, hq, hy, e⟩
    · exact Or.inl h0
    · obtain ⟨l, hl, e1, e2⟩ := h.1 q hq
      exact Or.inr ⟨l, hl, by omega, by omega⟩

theorem TInv.insert {f : Nat → Nat} {g : Nat → Int} {C : List Nat} {T : TMap} (h : TInv f g C T) (s : Nat)
    (hs : ∀ v, tFind T (f s) = some v → g s ≤ v) : TInv f g (C ++ [s]) (tSet T (f s) (g s)) := by
  constructor
  · intro q hq
    rcases mem_tSet hq with e | hq
    · exact ⟨s, by simp, by rw [e], by rw [e]⟩
    · obtain ⟨l, hl, e⟩ := h.1 q hq
      exact ⟨l, by simp [hl], e⟩
  · intro l hl
    rcases List.mem_append.mp hl with hl | hl
    · obtain ⟨q, hq, e1, e2⟩ := h.2 l hl
      rcases tSet_keep (f := f s) (y := g s) hq with hk | ⟨hk1, hk2⟩
      · exact ⟨q, hk, e1, e2⟩
      · have := hs _ hk2
        refine ⟨(f s, g s), tSet_self _ _ _, ?_, ?_⟩
        · show f s = f l; omega
        · show g s ≤ g l; omega
    · have : l = s := by simpa using hl
      subst this
      exact ⟨(f l, g l), tSet_self _ _ _, rfl, Int.le_refl _⟩

theorem TInv.keep {f : Nat → Nat} {g : Nat → Int} {C : List Nat} {T : TMap} (h : TInv f g C T) (s : Nat)
    (hs : ∃ q ∈ T, q.1 = f s ∧ q.2 ≤ g s) : TInv f g (C ++ [s]) T := by
  constructor
  · intro q hq
    obtain ⟨l, hl, e⟩ := h.1 q hq
    exact ⟨l, by simp [hl], e⟩
  · intro l hl
    rcases List.mem_append.mp hl with hl | hl
    · exact h.2 l hl
    · have : l = s := by simpa using hl
      subst this; exact hs

theorem TInv.congr {f f' : Nat → Nat} {g : Nat → Int} {C : List Nat} {T : TMap} (h : TInv f g C T)
    (hf : ∀ l ∈ C, f l = f' l) : TInv f' g C T := by
  constructor
  · intro q hq
    obtain ⟨l, hl, e1, e2⟩ := h.1 q hq
    exact ⟨l, hl, by rw [← hf l hl]; exact e1, e2⟩
  · intro l hl
    obtain ⟨q, hq, e1, e2⟩ := h.2 l hl
    exact ⟨q, hq, by rw [← hf l hl]; exact e1, e2⟩

theorem TInv.nil (f : Nat → Nat) (g : Nat → Int) : TInv f g [] [] :=
  And.intro (fun _ h => nomatch h) (fun _ h => nomatch h)

/-! ### (b) sweepA -/

/-- loop invariant of `sweepA` after the points `P` have been processed (`bef` is the order of the sweep) -/
structure SwA (U : Array Pt) (bef : Nat → Nat → Prop) [DecidableRel bef] (frt : Frt) (P : List Nat)
    (T : TMap) (cur : Frt) : Prop where
  size : cur.size = frt.size
  out : ∀ x, x ∉ P → fr cur x = fr frt x
  val : ∀ s ∈ P, fr cur s =
    max (fr frt s) (1 + sup P (fun t => bef t s ∧ obj U t 1 ≤ obj U s 1) (fr cur))
  tinv : TInv (fr cur) (fun t => obj U t 1) P T

theorem SwA.step' {U : Array Pt} {bef : Nat → Nat → Prop} [DecidableRel bef] {frt : Frt} {P : List Nat}
    {T : TMap} {cur : Frt} (h : SwA U bef frt P T cur) (s : Nat)
    (hs : s < frt.size) (hpos : 1 ≤ fr frt s) (hirr : ¬ bef s s) (hb : ∀ t ∈ P, bef t s ∧ ¬ bef s t)
    (r : Nat) (hr : r = tMaxLe T (obj U s 1)) (cur' : Frt)
    (hc : cur' = if r > 0 then raise cur s (r + 1) else cur) :
    SwA U bef frt (P ++ [s]) (tSet T (fr cur' s) (obj U s 1)) cur' := by
  have hsP : s ∉ P := fun hm => hirr (hb s hm).1
  have hcs : fr cur s = fr frt s := h.out s hsP
  have hR : r = sup P (fun t => obj U t 1 ≤ obj U s 1) (fr cur) := hr.trans (h.tinv.tMaxLe _)
  obtain ⟨hsz, hfr⟩ := raise_if hc (by rw [h.size]; exact hs) (by rw [hcs]; exact hpos)
  rw [hcs] at hfr
  have hfrP : ∀ t ∈ P, fr cur' t = fr cur t := by
    intro t ht
    rw [hfr t, if_neg (fun (e : t = s) => hsP (e ▸ ht))]
  have hsupP : ∀ x ∈ P, sup (P ++ [s]) (fun t => bef t x ∧ obj U t 1 ≤ obj U x 1) (fr cur') =
      sup P (fun t => bef t x ∧ obj U t 1 ≤ obj U x 1) (fr cur) := by
    intro x hx
    apply sup_congr
    · intro t ht hp
      rcases List.mem_append.mp ht with ht | ht
      · exact ⟨ht, hp, hfrP t ht⟩
      · have : t = s := by simpa using ht
        subst this
        exact absurd hp.1 (hb x hx).2
    · intro t ht hp; exact ⟨by simp [ht], hp⟩
  have hsupS : sup (P ++ [s]) (fun t => bef t s ∧ obj U t 1 ≤ obj U s 1) (fr cur') =
      sup P (fun t => obj U t 1 ≤ obj U s 1) (fr cur) := by
    apply sup_congr
    · intro t ht hp
      rcases List.mem_append.mp ht with ht | ht
      · exact ⟨ht, hp.2, hfrP t ht⟩
      · have : t = s := by simpa using ht
        subst this
        exact absurd hp.1 hirr
    · intro t ht hp; exact ⟨by simp [ht], (hb t ht).1, hp⟩
  refine ⟨by rw [hsz, h.size], ?_, ?_, ?_⟩
  · intro x hx
    have hx1 : x ∉ P := fun hm => hx (by simp [hm])
    have hx2 : x ≠ s := fun e => hx (by simp [e])
    rw [hfr x, if_neg hx2]; exact h.out x hx1
  · intro x hx
    rcases List.mem_append.mp hx with hx | hx
    · rw [hsupP x hx, hfrP x hx]; exact h.val x hx
    · have : x = s := by simpa using hx
      subst this
      rw [hsupS, hfr x, if_pos rfl, ← hR]
  · have h1 : TInv (fr cur') (fun t => obj U t 1) P T := h.tinv.congr (fun l hl => (hfrP l hl).symm)
    refine h1.insert s ?_
    intro v hv
    have hmem := tFind_some hv
    by_cases hvy : v ≤ obj U s 1
    · have h2 : fr cur' s ≤ tMaxLe T (obj U s 1) := tMaxLe_ge hmem hvy
      rw [hfr s, if_pos rfl] at h2
      omega
    · show obj U s 1 ≤ v
      omega

theorem SwA.step {U : Array Pt} {bef : Nat → Nat → Prop} [DecidableRel bef] {frt : Frt} {P : List Nat}
    {T : TMap} {cur : Frt} (h : SwA U bef frt P T cur) (s : Nat)
    (hs : s < frt.size) (hpos : 1 ≤ fr frt s) (hirr : ¬ bef s s) (hb : ∀ t ∈ P, bef t s ∧ ¬ bef s t) :
    SwA U bef frt (P ++ [s]) (sweepAStep U (T, cur) s).1 (sweepAStep U (T, cur) s).2 :=
  h.step' s hs hpos hirr hb _ rfl _ rfl

theorem sweepA_fold {U : Array Pt} {bef : Nat → Nat → Prop} [DecidableRel bef] {frt : Frt}
    (hirr : ∀ a, ¬ bef a a) : ∀ (R P : List Nat) (T : TMap) (cur : Frt), SwA U bef frt P T cur →
    (∀ s ∈ R, s < frt.size ∧ 1 ≤ fr frt s) → (∀ s ∈ R, ∀ t ∈ P, bef t s ∧ ¬ bef s t) →
    R.Pairwise (fun a b => bef a b ∧ ¬ bef b a) →
    SwA U bef frt (P ++ R) (R.foldl (sweepAStep U) (T, cur)).1 (R.foldl (sweepAStep U) (T, cur)).2 := by
  intro R
  induction R with
  | nil => intro P T cur h _ _ _; simpa using h
  | cons s R ih =>
    intro P T cur h hR hb hpw
    have hs := hR s (by simp)
    have h1 := h.step s hs.1 hs.2 (hirr s) (hb s (by simp))
    have hpw' := List.pairwise_cons.mp hpw
    have := ih (P ++ [s]) _ _ h1 (fun x hx => hR x (by simp [hx]))
      (fun x hx t ht => by
        rcases List.mem_append.mp ht with ht | ht
        · exact hb x (by simp [hx]) t ht
        · have : t = s := by simpa using ht
          subst this; exact hpw'.1 x hx)
      hpw'.2
    rw [show P ++ s :: R = (P ++ [s]) ++ R by simp]
    exact this

/-- **sweepA (figure 3)**: if the list `S` is strictly ordered by `bef` (any order of the sweep),
all indices are valid and all initial front numbers are `≥ 1`, then `sweepA` changes only the front
numbers of `S`, and every `s ∈ S` ends with the maximum of its initial front number and one plus the
highest *final* front number among the points swept before it whose second objective is not larger. -/
theorem sweepA_spec (U : Array Pt) (bef : Nat → Nat → Prop) [DecidableRel bef] (S : List Nat) (frt : Frt)
    (hirr : ∀ a, ¬ bef a a) (hpw : S.Pairwise (fun a b => bef a b ∧ ¬ bef b a))
    (hS : ∀ s ∈ S, s < frt.size ∧ 1 ≤ fr frt s) :
    (sweepA U S frt).size = frt.size ∧ (∀ x, x ∉ S → fr (sweepA U S frt) x = fr frt x) ∧
    ∀ s ∈ S, fr (sweepA U S frt) s = max (fr frt s)
      (1 + sup S (fun t => bef t s ∧ obj U t 1 ≤ obj U s 1) (fr (sweepA U S frt))) := by
  cases S with
  | nil => exact ⟨rfl, fun _ _ => rfl, fun _ h => by cases h⟩
  | cons s0 R =>
    have hs0 := hS s0 (by simp)
    have hpw' := List.pairwise_cons.mp hpw
    have h0 : SwA U bef frt [s0] [(fr frt s0, obj U s0 1)] frt := by
      refine ⟨rfl, fun _ _ => rfl, ?_, ?_⟩
      · intro s hs
        have : s = s0 := by simpa using hs
        subst this
        have : sup [s] (fun t => bef t s ∧ obj U t 1 ≤ obj U s 1) (fr frt) = 0 := by
          rw [sup_cons, if_neg (fun hh => hirr s hh.1), sup_nil]
        rw [this]; omega
      · constructor
        · intro q hq
          have : q = (fr frt s0, obj U s0 1) := by simpa using hq
          exact ⟨s0, by simp, by rw [this], by rw [this]⟩
        · intro l hl
          have : l = s0 := by simpa using hl
          subst this
          exact ⟨_, List.mem_cons_self, rfl, Int.le_refl _⟩
    have := sweepA_fold hirr R [s0] _ frt h0 (fun x hx => hS x (by simp [hx]))
      (fun x hx t ht => by
        have : t = s0 := by simpa using ht
        subst this; exact hpw'.1 x hx) hpw'.2
    exact ⟨this.size, this.out, this.val⟩

/-! ### coordinates, the relations `leK` / `ltK` and the specifications of the helpers -/

theorem leAll_iff : ∀ (p q : Pt), p.length = q.length →
    (leAll p q = true ↔ ∀ c, c < p.length → p.getD c 0 ≤ q.getD c 0)
  | [], [], _ => by simp [leAll]
  | a :: as, b :: bs, h => by
    have ih := leAll_iff as bs (by simpa using h)
    simp only [leAll, Bool.and_eq_true, decide_eq_true_eq, ih, List.length_cons]
    constructor
    · rintro ⟨h0, h1⟩ c hc
      cases c with
      | zero => simpa using h0
      | succ c => simpa using h1 c (by omega)
    · intro hh
      exact ⟨by simpa using hh 0 (by omega), fun c hc => by simpa using hh (c + 1) (by omega)⟩
  | [], _ :: _, h => by simp at h
  | _ :: _, [], h => by simp at h

theorem getD_oob (p : Pt) (c : Nat) (h : p.length ≤ c) : p.getD c 0 = 0 := by
  rw [List.getD_eq_getElem?_getD, List.getElem?_eq_none h]; rfl

theorem getD_take (p : Pt) (k c : Nat) : (p.take k).getD c 0 = if c < k then p.getD c 0 else 0 := by
  simp only [List.getD_eq_getElem?_getD, List.getElem?_take]
  split <;> simp

/-- the first `k` objectives of point `i` are `≤` those of point `j` -/
def leK (U : Array Pt) (k i j : Nat) : Prop := ∀ c, c < k → obj U i c ≤ obj U j c

instance (U : Array Pt) (k i j : Nat) : Decidable (leK U k i j) := by unfold leK; infer_instance

/-- point `i` dominates point `j` with respect to the first `k` objectives -/
def ltK (U : Array Pt) (k i j : Nat) : Prop := leK U k i j ∧ ¬ leK U k j i

instance (U : Array Pt) (k i j : Nat) : Decidable (ltK U k i j) := by unfold ltK; infer_instance

theorem leK_refl (U : Array Pt) (k i : Nat) : leK U k i i := fun _ _ => Int.le_refl _

theorem ltK_irrefl (U : Array Pt) (k i : Nat) : ¬ ltK U k i i := fun h => h.2 h.1

theorem leK_two (U : Array Pt) (a b : Nat) :
    leK U 2 a b ↔ obj U a 0 ≤ obj U b 0 ∧ obj U a 1 ≤ obj U b 1 := by
  constructor
  · intro h; exact ⟨h 0 (by omega), h 1 (by omega)⟩
  · rintro ⟨h0, h1⟩ c hc
    have : c = 0 ∨ c = 1 := by omega
    rcases this with rfl | rfl <;> assumption

theorem leAll_take_iff (p q : Pt) (k : Nat) (h : p.length = q.length) :
    leAll (p.take k) (q.take k) = true ↔ ∀ c, c < k → p.getD c 0 ≤ q.getD c 0 := by
  rw [leAll_iff _ _ (by simp [h])]
  constructor
  · intro hh c hc
    by_cases hcl : c < p.length
    · have := hh c (by simp; omega)
      rw [getD_take, getD_take, if_pos hc, if_pos hc] at this; exact this
    · rw [getD_oob p c (by omega), getD_oob q c (by omega)]; exact Int.le_refl _
  · intro hh c hc
    have hck : c < k := by simp at hc; omega
    rw [getD_take, getD_take, if_pos hck, if_pos hck]; exact hh c hck

/-- `dominance(l, h, k)` in terms of the coordinates (for vectors of the same dimension) -/
theorem domK_iff (U : Array Pt) (k i j : Nat) (hlen : (U.getD i []).length = (U.getD j []).length) :
    (domK U k i j = .lhsDominates ↔ ltK U k i j) ∧
    ((domK U k i j = .lhsDominates ∨ domK U k i j = .equivalent) ↔ leK U k i j) := by
  have hl : ((U.getD i []).take k).length = ((U.getD j []).take k).length := by
    rw [List.length_take, List.length_take, hlen]
  obtain ⟨d1, _, d3, _⟩ := dominance_iff _ _ hl
  have e1 : leK U k i j ↔ leAll ((U.getD i []).take k) ((U.getD j []).take k) = true :=
    (leAll_take_iff _ _ k hlen).symm
  have e2 : leK U k j i ↔ leAll ((U.getD j []).take k) ((U.getD i []).take k) = true :=
    (leAll_take_iff _ _ k hlen.symm).symm
  unfold ltK domK
  rw [d1, d3, e1, e2]
  unfold dominates
  constructor
  · simp
  · constructor
    · rintro (h | h)
      · simp only [Bool.and_eq_true] at h; exact h.1
      · rw [h]; exact leAll_refl _
    · intro h
      cases h' : leAll ((U.getD j []).take k) ((U.getD i []).take k) with
      | false => left; rw [h]; rfl
      | true => right; exact leAll_antisymm h h'

/-- postcondition of `ndHelperB(L, H, k)`: only `H` changes, and every `h ∈ H` is raised to one plus
the highest front number among the `l ∈ L` whose first `k` objectives are `≤` those of `h` -/
def BSpec (U : Array Pt) (k : Nat) (L H : List Nat) (frt frt' : Frt) : Prop :=
  frt'.size = frt.size ∧ (∀ x, x ∉ H → fr frt' x = fr frt x) ∧
  ∀ h ∈ H, fr frt' h = max (fr frt h) (1 + sup L (fun l => leK U k l h) (fr frt))

/-- postcondition of `ndHelperA(S, k)`: only `S` changes, and every `s ∈ S` is raised to one plus
the highest *final* front number among the `t ∈ S` dominating `s` in the first `k` objectives -/
def ASpec (U : Array Pt) (k : Nat) (S : List Nat) (frt frt' : Frt) : Prop :=
  frt'.size = frt.size ∧ (∀ x, x ∉ S → fr frt' x = fr frt x) ∧
  ∀ s ∈ S, fr frt' s = max (fr frt s) (1 + sup S (fun t => ltK U k t s) (fr frt'))

/-! ### (b') sweepA computes the two-objective ranks -/

/-- the order of the points with distinct first two objectives (lexicographic) -/
def lexLt2 (U : Array Pt) (a b : Nat) : Prop :=
  obj U a 0 < obj U b 0 ∨ (obj U a 0 = obj U b 0 ∧ obj U a 1 < obj U b 1)

instance (U : Array Pt) (a b : Nat) : Decidable (lexLt2 U a b) := by unfold lexLt2; infer_instance

theorem pairwise_mem_cases {α} {R : α → α → Prop} {l : List α} (h : l.Pairwise R) {a b : α}
    (ha : a ∈ l) (hb : b ∈ l) : a = b ∨ R a b ∨ R b a := by
  induction l with
  | nil => cases ha
  | cons x l ih =>
    have hp := List.pairwise_cons.mp h
    rcases List.mem_cons.mp ha with e1 | ha' <;> rcases List.mem_cons.mp hb with e2 | hb'
    · left; rw [e1, e2]
    · right; left; rw [e1]; exact hp.1 b hb'
    · right; right; rw [e2]; exact hp.1 a ha'
    · exact ih hp.2 ha' hb'

/-- **sweepA, (b)**: on a list ordered lexicographically by the first two objectives (pairwise distinct
projections) `sweepA` satisfies the specification of `ndHelperA` for `k = 2`. -/
theorem sweepA_ASpec (U : Array Pt) (S : List Nat) (frt : Frt) (hpw : S.Pairwise (lexLt2 U))
    (hS : ∀ s ∈ S, s < frt.size ∧ 1 ≤ fr frt s) : ASpec U 2 S frt (sweepA U S frt) := by
  have hirr : ∀ a, ¬ lexLt2 U a a := by intro a h; unfold lexLt2 at h; omega
  have hasym : ∀ a b, lexLt2 U a b → ¬ lexLt2 U b a := by intro a b h h'; unfold lexLt2 at h h'; omega
  obtain ⟨h1, h2, h3⟩ := sweepA_spec U (lexLt2 U) S frt hirr
    (hpw.imp (fun {a b} h => ⟨h, hasym a b h⟩)) hS
  refine ⟨h1, h2, fun s hs => ?_⟩
  rw [h3 s hs]
  congr 2
  apply sup_congr
  · intro t ht hp
    refine ⟨ht, ?_, rfl⟩
    unfold ltK; rw [leK_two, leK_two]
    have := hp.1; unfold lexLt2 at this; omega
  · intro t ht hp
    refine ⟨ht, ?_⟩
    unfold ltK at hp; rw [leK_two, leK_two] at hp
    rcases pairwise_mem_cases hpw ht hs with e | h | h
    · subst e; omega
    · exact ⟨h, by omega⟩
    · unfold lexLt2 at h; omega

/-! ### (c) sweepB -/

/-- lexicographic `≤` on the first two objectives -/
def lexLe2 (U : Array Pt) (a b : Nat) : Prop :=
  obj U a 0 < obj U b 0 ∨ (obj U a 0 = obj U b 0 ∧ obj U a 1 ≤ obj U b 1)

instance (U : Array Pt) (a b : Nat) : Decidable (lexLe2 U a b) := by unfold lexLe2; infer_instance

theorem lexLe2_trans {U : Array Pt} {a b c : Nat} (h1 : lexLe2 U a b) (h2 : lexLe2 U b c) : lexLe2 U a c := by
  unfold lexLe2 at *; omega

/-- `if (it == T.end() || y < it->second) T[f] = y` -/
def advT (T : TMap) (f : Nat) (y : Int) : TMap :=
  match tFind T f with
  | none => tSet T f y
  | some v => if y < v then tSet T f y else T

theorem TInv.advT {f : Nat → Nat} {g : Nat → Int} {C : List Nat} {T : TMap} (h : TInv f g C T) (s : Nat) :
    TInv f g (C ++ [s]) (advT T (f s) (g s)) := by
  unfold DC.advT
  cases hf : tFind T (f s) with
  | none => exact h.insert s (fun v hv => by rw [hf] at hv; cases hv)
  | some v =>
    dsimp only
    by_cases hlt : g s < v
    · rw [if_pos hlt]
      refine h.insert s (fun v' hv => ?_)
      rw [hf] at hv
      have : v = v' := by simpa using hv
      omega
    · rw [if_neg hlt]
      exact h.keep s ⟨(f s, v), tFind_some hf, rfl, by show v ≤ g s; omega⟩

theorem sweepBAdvance_stop {U : Array Pt} {cur : Frt} {h l : Nat} {ls : List Nat} {T : TMap}
    (hn : ¬ lexLe2 U l h) : sweepBAdvance U cur h (l :: ls) T = (l :: ls, T) := by
  unfold lexLe2 at hn
  rw [sweepBAdvance]
  by_cases h1 : obj U l 0 > obj U h 0
  · rw [if_pos h1]
  · rw [if_neg h1, if_pos]
    simp only [Bool.and_eq_true, beq_iff_eq, decide_eq_true_eq]; omega

theorem sweepBAdvance_go {U : Array Pt} {cur : Frt} {h l : Nat} {ls : List Nat} {T : TMap}
    (hle : lexLe2 U l h) :
    sweepBAdvance U cur h (l :: ls) T = sweepBAdvance U cur h ls (advT T (fr cur l) (obj U l 1)) := by
  unfold lexLe2 at hle
  have h1 : ¬ obj U l 0 > obj U h 0 := by omega
  have h2 : ¬ ((obj U l 0 == obj U h 0 && decide (obj U l 1 > obj U h 1)) = true) := by
    simp only [Bool.and_eq_true, beq_iff_eq, decide_eq_true_eq]; omega
  conv => lhs; rw [sweepBAdvance, if_neg h1, if_neg h2]
  rfl

/-- **the inner loop of sweepB**: it consumes a prefix `D` of the remaining `L`, all of whose points are
lexicographically `≤ h`, stops at a point that is lexicographically `> h` (or at the end), and extends
the invariant of `T` to the consumed points -/
theorem advance_spec (U : Array Pt) (frt cur : Frt) (h : Nat) : ∀ (Lr C : List Nat) (T : TMap),
    (∀ l ∈ Lr, fr cur l = fr frt l) → TInv (fr frt) (fun l => obj U l 1) C T →
    ∃ D, Lr = D ++ (sweepBAdvance U cur h Lr T).1 ∧ (∀ l ∈ D, lexLe2 U l h) ∧
      (∀ l, (sweepBAdvance U cur h Lr T).1.head? = some l → ¬ lexLe2 U l h) ∧
      TInv (fr frt) (fun l => obj U l 1) (C ++ D) (sweepBAdvance U cur h Lr T).2 := by
  intro Lr
  induction Lr with
  | nil =>
    intro C T _ hT
    exact ⟨[], rfl, (fun _ hl => nomatch hl), (fun l hl => by simp [sweepBAdvance] at hl),
      by simpa [sweepBAdvance] using hT⟩
  | cons l ls ih =>
    intro C T hfr hT
    by_cases hle : lexLe2 U l h
    · rw [sweepBAdvance_go hle]
      have hT' := hT.advT l
      rw [← hfr l (by simp)] at hT'
      obtain ⟨D, e1, e2, e3, e4⟩ := ih (C ++ [l]) _ (fun x hx => hfr x (by simp [hx])) hT'
      refine ⟨l :: D, by rw [List.cons_append, ← e1], ?_, e3, by simpa using e4⟩
      intro x hx
      rcases List.mem_cons.mp hx with e | hx
      · rw [e]; exact hle
      · exact e2 x hx
    · rw [sweepBAdvance_stop hle]
      refine ⟨[], rfl, (fun _ hl => nomatch hl), fun x hx => ?_, by simpa using hT⟩
      have : l = x := by simpa using hx
      rw [← this]; exact hle

theorem sweepBStep_eq (U : Array Pt) (Lr : List Nat) (T : TMap) (cur : Frt) (h : Nat) :
    sweepBStep U (Lr, T, cur) h =
      ((sweepBAdvance U cur h Lr T).1, (sweepBAdvance U cur h Lr T).2,
        if tMaxLe (sweepBAdvance U cur h Lr T).2 (obj U h 1) > 0 then
          raise cur h (tMaxLe (sweepBAdvance U cur h Lr T).2 (obj U h 1) + 1) else cur) := rfl

/-- loop invariant of `sweepB`: `HP` processed, `Hrem` still to come; the consumed prefix `C` of `L`
is lexicographically `≤` every remaining point of `H` -/
structure SwB (U : Array Pt) (frt : Frt) (L HP Hrem : List Nat) (st : List Nat × TMap × Frt) : Prop where
  size : st.2.2.size = frt.size
  out : ∀ x, x ∉ HP → fr st.2.2 x = fr frt x
  val : ∀ h ∈ HP, fr st.2.2 h = max (fr frt h) (1 + sup L (fun l => leK U 2 l h) (fr frt))
  split : ∃ C, L = C ++ st.1 ∧ (∀ l ∈ C, ∀ h ∈ Hrem, lexLe2 U l h) ∧
    TInv (fr frt) (fun l => obj U l 1) C st.2.1

theorem SwB.step {U : Array Pt} {frt : Frt} {L HP Hrem : List Nat} {st : List Nat × TMap × Frt} {h : Nat}
    (hinv : SwB U frt L HP (h :: Hrem) st) (hL : L.Pairwise (lexLe2 U))
    (hh : h < frt.size) (hpos : 1 ≤ fr frt h) (hhP : h ∉ HP) (hdisj : ∀ l ∈ L, l ∉ HP)
    (hH : ∀ h' ∈ Hrem, lexLe2 U h h') :
    SwB U frt L (HP ++ [h]) Hrem (sweepBStep U st h) := by
  obtain ⟨Lr, T, cur⟩ := st
  obtain ⟨C, eL, hC, hT⟩ := hinv.split
  have hsize : cur.size = frt.size := hinv.size
  have hout : ∀ x, x ∉ HP → fr cur x = fr frt x := hinv.out
  have hval := hinv.val
  dsimp only at eL hT hval
  have hfrL : ∀ l ∈ Lr, fr cur l = fr frt l := fun l hl => hout l (hdisj l (by rw [eL]; simp [hl]))
  obtain ⟨D, e1, e2, e3, e4⟩ := advance_spec U frt cur h Lr C T hfrL hT
  rw [sweepBStep_eq]
  generalize sweepBAdvance U cur h Lr T = adv at e1 e2 e3 e4 ⊢
  obtain ⟨Lr', T'⟩ := adv
  dsimp only at e1 e3 e4 ⊢
  have hch : fr cur h = fr frt h := hout h hhP
  obtain ⟨hsz, hfr⟩ := raise_if (cur := cur) (h := h) (r := tMaxLe T' (obj U h 1)) rfl
    (by rw [hsize]; exact hh) (by rw [hch]; exact hpos)
  generalize (if tMaxLe T' (obj U h 1) > 0 then raise cur h (tMaxLe T' (obj U h 1) + 1) else cur) = cur'
    at hsz hfr ⊢
  have hr : tMaxLe T' (obj U h 1) = sup (C ++ D) (fun l => obj U l 1 ≤ obj U h 1) (fr frt) := e4.tMaxLe _
  have eL' : L = (C ++ D) ++ Lr' := by rw [eL, e1, List.append_assoc]
  have hCD : ∀ l ∈ C ++ D, lexLe2 U l h := by
    intro l hl
    rcases List.mem_append.mp hl with hl | hl
    · exact hC l hl h (by simp)
    · exact e2 l hl
  have hLr' : ∀ l ∈ Lr', ¬ leK U 2 l h := by
    intro l hl hle
    rw [leK_two] at hle
    cases Lr' with
    | nil => cases hl
    | cons l0 rest =>
      have hn := e3 l0 rfl
      have hpw : (l0 :: rest).Pairwise (lexLe2 U) := by
        rw [eL'] at hL; exact (List.pairwise_append.mp hL).2.1
      have hp := List.pairwise_cons.mp hpw
      rcases List.mem_cons.mp hl with e | hl
      · subst e; unfold lexLe2 at hn; omega
      · have := hp.1 l hl
        unfold lexLe2 at hn this; omega
  have hsup : sup (C ++ D) (fun l => obj U l 1 ≤ obj U h 1) (fr frt) =
      sup L (fun l => leK U 2 l h) (fr frt) := by
    apply sup_congr
    · intro l hl hp
      refine ⟨by rw [eL']; exact List.mem_append_left _ hl, ?_, rfl⟩
      rw [leK_two]
      have := hCD l hl; unfold lexLe2 at this; omega
    · intro l hl hp
      rw [eL'] at hl
      rcases List.mem_append.mp hl with hl | hl
      · exact ⟨hl, ((leK_two U l h).mp hp).2⟩
      · exact absurd hp (hLr' l hl)
  refine ⟨by rw [hsz]; exact hsize, ?_, ?_, ⟨C ++ D, eL', ?_, e4⟩⟩
  · intro x hx
    have hx1 : x ∉ HP := fun hm => hx (by simp [hm])
    have hx2 : x ≠ h := fun e => hx (by simp [e])
    show fr cur' x = _
    rw [hfr x, if_neg hx2]; exact hout x hx1
  · intro x hx
    show fr cur' x = _
    rcases List.mem_append.mp hx with hx | hx
    · rw [hfr x, if_neg (fun (e : x = h) => hhP (e ▸ hx))]; exact hval x hx
    · have : x = h := by simpa using hx
      subst this
      rw [hfr x, if_pos rfl, hch, hr, hsup]
  · intro l hl h' hh'
    exact lexLe2_trans (hCD l hl) (hH h' hh')

theorem sweepB_fold {U : Array Pt} {frt : Frt} {L : List Nat} (hL : L.Pairwise (lexLe2 U)) :
    ∀ (Hrem HP : List Nat) (st : List Nat × TMap × Frt), SwB U frt L HP Hrem st →
    (∀ h ∈ Hrem, h < frt.size ∧ 1 ≤ fr frt h ∧ h ∉ L ∧ h ∉ HP) → (∀ l ∈ L, l ∉ HP) →
    Hrem.Pairwise (lexLe2 U) → Hrem.Nodup →
    SwB U frt L (HP ++ Hrem) [] (Hrem.foldl (sweepBStep U) st) := by
  intro Hrem
  induction Hrem with
  | nil => intro HP st h _ _ _ _; simpa using h
  | cons h Hrem ih =>
    intro HP st hinv hH hdisj hpw hnd
    obtain ⟨h1, h2, h3, h4⟩ := hH h (by simp)
    have hpw' := List.pairwise_cons.mp hpw
    have hnd' := List.nodup_cons.mp hnd
    have hs := hinv.step hL h1 h2 h4 hdisj hpw'.1
    have := ih (HP ++ [h]) _ hs
      (fun x hx => by
        obtain ⟨a, b, c, d⟩ := hH x (by simp [hx])
        refine ⟨a, b, c, ?_⟩
        intro hm
        rcases List.mem_append.mp hm with hm | hm
        · exact d hm
        · have : x = h := by simpa using hm
          subst this; exact hnd'.1 hx)
      (fun l hl hm => by
        rcases List.mem_append.mp hm with hm | hm
        · exact hdisj l hl hm
        · have : l = h := by simpa using hm
          subst this; exact h3 hl)
      hpw'.2 hnd'.2
    rw [show HP ++ h :: Hrem = (HP ++ [h]) ++ Hrem by simp]
    exact this

/-- **sweepB (figure 8), (c)**: for `L` and `H` ordered lexicographically by the first two objectives
(non-strictly), `H` without repetitions and disjoint from `L`, valid indices and front numbers `≥ 1`
in `H`: `sweepB` satisfies the specification of `ndHelperB` for `k = 2`. -/
theorem sweepB_BSpec (U : Array Pt) (L H : List Nat) (frt : Frt) (hL : L.Pairwise (lexLe2 U))
    (hHpw : H.Pairwise (lexLe2 U)) (hnd : H.Nodup)
    (hH : ∀ h ∈ H, h < frt.size ∧ 1 ≤ fr frt h ∧ h ∉ L) : BSpec U 2 L H frt (sweepB U L H frt) := by
  have h0 : SwB U frt L [] H (L, [], frt) :=
    ⟨rfl, fun _ _ => rfl, (fun _ h => nomatch h), ⟨[], rfl, (fun _ h => nomatch h), TInv.nil _ _⟩⟩
  have := sweepB_fold hL H [] _ h0 (fun h hh => by
    obtain ⟨a, b, c⟩ := hH h hh
    exact ⟨a, b, c, (fun hm => nomatch hm)⟩) (fun _ _ hm => nomatch hm) hHpw hnd
  have e : [] ++ H = H := List.nil_append H
  rw [e] at this
  exact ⟨this.size, this.out, this.val⟩

/-! ### (d) the brute-force base case of ndHelperB -/

/-- the inner loop over `L` for one point `h` -/
def bruteInner (c : Nat → Bool) (h : Nat) (L : List Nat) (cur : Frt) : Frt :=
  L.foldl (fun a l => if c l then raise a h (fr a l + 1) else a) cur

theorem bruteInner_spec (c : Nat → Bool) (h : Nat) : ∀ (L : List Nat) (cur : Frt),
    h < cur.size → h ∉ L → 1 ≤ fr cur h →
    (bruteInner c h L cur).size = cur.size ∧ (∀ x, x ≠ h → fr (bruteInner c h L cur) x = fr cur x) ∧
    fr (bruteInner c h L cur) h = max (fr cur h) (1 + sup L (fun l => c l = true) (fr cur)) := by
  intro L
  induction L with
  | nil =>
    intro cur _ _ hpos
    refine ⟨rfl, fun _ _ => rfl, ?_⟩
    show fr cur h = _
    rw [sup_nil]; omega
  | cons l L ih =>
    intro cur hh hL hpos
    have hl : h ≠ l := fun e => hL (by simp [e])
    have hL' : h ∉ L := fun hm => hL (by simp [hm])
    show (bruteInner c h L (if c l then raise cur h (fr cur l + 1) else cur)).size = _ ∧
      (∀ x, x ≠ h → fr (bruteInner c h L (if c l then raise cur h (fr cur l + 1) else cur)) x = _) ∧
      fr (bruteInner c h L (if c l then raise cur h (fr cur l + 1) else cur)) h = _
    rw [sup_cons]
    by_cases hc : c l = true
    · rw [if_pos hc, if_pos hc]
      have hfr : ∀ x, fr (raise cur h (fr cur l + 1)) x =
          if x = h then max (fr cur h) (fr cur l + 1) else fr cur x := fun x => fr_raise _ _ _ _ hh
      obtain ⟨i1, i2, i3⟩ := ih (raise cur h (fr cur l + 1)) (by rw [raise_size]; exact hh) hL'
        (by rw [hfr h, if_pos rfl]; omega)
      have hs : sup L (fun l => c l = true) (fr (raise cur h (fr cur l + 1))) =
          sup L (fun l => c l = true) (fr cur) := by
        apply sup_congr
        · intro x hx hp
          exact ⟨hx, hp, by rw [hfr x, if_neg (fun (e : x = h) => hL' (e ▸ hx))]⟩
        · intro x hx hp; exact ⟨hx, hp⟩
      refine ⟨by rw [i1, raise_size], fun x hx => by rw [i2 x hx, hfr x, if_neg hx], ?_⟩
      rw [i3, hs, hfr h, if_pos rfl]; omega
    · rw [if_neg hc, if_neg hc]
      exact ih cur hh hL' hpos

theorem brute_fold (L : List Nat) (c : Nat → Nat → Bool) : ∀ (H : List Nat) (cur : Frt),
    (∀ h ∈ H, h < cur.size ∧ h ∉ L ∧ 1 ≤ fr cur h) →
    (H.foldl (fun a h => bruteInner (fun l => c l h) h L a) cur).size = cur.size ∧
    (∀ x, x ∉ H → fr (H.foldl (fun a h => bruteInner (fun l => c l h) h L a) cur) x = fr cur x) ∧
    ∀ h ∈ H, fr (H.foldl (fun a h => bruteInner (fun l => c l h) h L a) cur) h =
      max (fr cur h) (1 + sup L (fun l => c l h = true) (fr cur)) := by
  intro H
  induction H with
  | nil => intro cur _; exact ⟨rfl, fun _ _ => rfl, (fun _ h => nomatch h)⟩
  | cons h H ih =>
    intro cur hH
    obtain ⟨a1, a2, a3⟩ := hH h (by simp)
    obtain ⟨i1, i2, i3⟩ := bruteInner_spec (fun l => c l h) h L cur a1 a2 a3
    simp only [List.foldl_cons]
    generalize bruteInner (fun l => c l h) h L cur = cur1 at i1 i2 i3 ⊢
    have hsupc : ∀ h', sup L (fun l => c l h' = true) (fr cur1) = sup L (fun l => c l h' = true) (fr cur) := by
      intro h'
      apply sup_congr
      · intro x hx hp
        exact ⟨hx, hp, i2 x (fun (e : x = h) => a2 (e ▸ hx))⟩
      · intro x hx hp; exact ⟨hx, hp⟩
    obtain ⟨j1, j2, j3⟩ := ih cur1 (fun x hx => by
      obtain ⟨b1, b2, b3⟩ := hH x (by simp [hx])
      refine ⟨by rw [i1]; exact b1, b2, ?_⟩
      by_cases e : x = h
      · rw [e, i3]; omega
      · rw [i2 x e]; exact b3)
    refine ⟨by rw [j1, i1], ?_, ?_⟩
    · intro x hx
      have hx1 : x ∉ H := fun hm => hx (by simp [hm])
      have hx2 : x ≠ h := fun e => hx (by simp [e])
      rw [j2 x hx1, i2 x hx2]
    · intro h' hh'
      by_cases hm : h' ∈ H
      · rw [j3 h' hm, hsupc]
        by_cases e : h' = h
        · rw [e, i3]; omega
        · rw [i2 h' e]
      · have e : h' = h := by
          rcases List.mem_cons.mp hh' with e | e
          · exact e
          · exact absurd e hm
        rw [j2 h' hm, e, i3]

theorem bruteB_eq (U : Array Pt) (L H : List Nat) (k : Nat) (frt : Frt) :
    bruteB U L H k frt = H.foldl (fun a h => bruteInner
      (fun l => domK U k l h == .lhsDominates || domK U k l h == .equivalent) h L a) frt := rfl

/-- **the double loop of ndHelperB, (d)**: for arbitrary `L` and `H` (disjoint, valid indices, front
numbers `≥ 1` in `H`, all vectors of one dimension) it satisfies the specification of `ndHelperB`. -/
theorem bruteB_BSpec (U : Array Pt) (L H : List Nat) (k : Nat) (frt : Frt)
    (hH : ∀ h ∈ H, h < frt.size ∧ h ∉ L ∧ 1 ≤ fr frt h)
    (hlen : ∀ l ∈ L, ∀ h ∈ H, (U.getD l []).length = (U.getD h []).length) :
    BSpec U k L H frt (bruteB U L H k frt) := by
  rw [bruteB_eq]
  obtain ⟨h1, h2, h3⟩ := brute_fold L
    (fun l h => domK U k l h == .lhsDominates || domK U k l h == .equivalent) H frt hH
  refine ⟨h1, h2, fun h hh => ?_⟩
  rw [h3 h hh]
  congr 2
  apply sup_congr
  · intro l hl hp
    refine ⟨hl, ?_, rfl⟩
    apply (domK_iff U k l h (hlen l hl h hh)).2.mp
    simpa using hp
  · intro l hl hp
    refine ⟨hl, ?_⟩
    have := (domK_iff U k l h (hlen l hl h hh)).2.mpr hp
    simpa using this

/-! ### (e) the two-point case of ndHelperA -/

theorem helperA_pair (U : Array Pt) (fuel a b k : Nat) (frt : Frt) :
    helperA U (fuel + 1) [a, b] k frt =
      if domK U k a b == .lhsDominates then raise frt b (fr frt a + 1) else frt := rfl

/-- **two points, (e)**: if the second point does not dominate the first one (it is lexicographically
larger), the base case `S.size() == 2` satisfies the specification of `ndHelperA` -/
theorem pair_ASpec (U : Array Pt) (fuel a b k : Nat) (frt : Frt) (hab : a ≠ b) (hb : b < frt.size)
    (hpa : 1 ≤ fr frt a) (hpb : 1 ≤ fr frt b)
    (hlen : (U.getD a []).length = (U.getD b []).length) (hnot : ¬ ltK U k b a) :
    ASpec U k [a, b] frt (helperA U (fuel + 1) [a, b] k frt) := by
  rw [helperA_pair]
  have hd := (domK_iff U k a b hlen).1
  by_cases hdom : ltK U k a b
  · have : (domK U k a b == Rel.lhsDominates) = true := by simpa using hd.mpr hdom
    rw [if_pos this]
    have hfr : ∀ x, fr (raise frt b (fr frt a + 1)) x =
        if x = b then max (fr frt b) (fr frt a + 1) else fr frt x := fun x => fr_raise _ _ _ _ hb
    refine ⟨raise_size _ _ _, ?_, ?_⟩
    · intro x hx
      rw [hfr x, if_neg (fun e => hx (by simp [e]))]
    · intro s hs
      rcases List.mem_cons.mp hs with e | hs
      · subst e
        rw [sup_cons, if_neg (ltK_irrefl U k s), sup_cons, if_neg hnot, sup_nil, hfr s, if_neg hab]
        omega
      · have e : s = b := by simpa using hs
        subst e
        rw [sup_cons, if_pos hdom, sup_cons, if_neg (ltK_irrefl U k s), sup_nil, hfr s, if_pos rfl,
          hfr a, if_neg hab]
        omega
  · have : ¬ (domK U k a b == Rel.lhsDominates) = true := by
      intro h; exact hdom (hd.mp (by simpa using h))
    rw [if_neg this]
    refine ⟨rfl, fun _ _ => rfl, ?_⟩
    intro s hs
    rcases List.mem_cons.mp hs with e | hs
    · subst e
      rw [sup_cons, if_neg (ltK_irrefl U k s), sup_cons, if_neg hnot, sup_nil]
      omega
    · have e : s = b := by simpa using hs
      subst e
      rw [sup_cons, if_neg hdom, sup_cons, if_neg (ltK_irrefl U k s), sup_nil]
      omega

end SharkVerif.DC
