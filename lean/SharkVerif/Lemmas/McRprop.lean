/-
The Rprop rule of `BiasSolver::solve` as a state machine (`Model/McBias.lean`: `rpropPass`, `rpropLoop`,
`biasSolveLoop`, `biasSolve`), at `α := Rat` and with the identity re-tabulations:

* `rpropPass_stepsize_pos`: the step sizes stay positive;
* `rpropPass_step_sum_zero` / `rpropPass_bias_sum`: with `sumToZero` the step sums to zero, so the bias stays in the
  sum-to-zero subspace it starts in;
* `biasSolve_consistent`: for EVERY run of the whole state machine (any fuel, accuracy, iteration limit): all
  invariants of the decomposition state hold at the end and the linear part is the original one shifted by the bias
  the machine reports (`r.bias − bias0`) — the instance of `bias_history` for the steps the rule actually takes.
-/
import SharkVerif.Lemmas.McBias
namespace SharkVerif.Mc
open Finset Grad

private theorem q0 : (0.0 : Rat) = 0 := by norm_num

theorem vsumK_eq (k : Nat) (v : Nat → Rat) : vsumK k v = ∑ c ∈ range k, v c := by
  unfold vsumK
  rw [foldl_add_eq_sum', q0, zero_add]
where
  foldl_add_eq_sum' : (List.range k).foldl (fun acc c => acc + v c) (0.0 : Rat) = (0.0 : Rat) + ∑ c ∈ range k, v c := by
    induction k with
    | zero => simp
    | succ n ih => rw [List.range_succ, List.foldl_append, List.foldl_cons, List.foldl_nil, ih, sum_range_succ]; ring

theorem rpropPass_stepsize_pos (s : McBox Rat) (nu : Nat → Row Rat) (classes : Nat) (stz : Bool) (r : RpropSt Rat)
    (h : ∀ c, 0 < r.stepsize c) : ∀ c, 0 < (rpropPass s nu classes stz r).2.stepsize c := by
  intro c
  unfold rpropPass
  dsimp only
  split_ifs <;> exact mul_pos (h c) (by norm_num)

theorem rpropPass_step_sum_zero (s : McBox Rat) (nu : Nat → Row Rat) (classes : Nat) (hc : 0 < classes)
    (r : RpropSt Rat) : ∑ c ∈ range classes, (rpropPass s nu classes true r).2.step c = 0 := by
  unfold rpropPass
  dsimp only
  simp only [if_true]
  simp only [vsumK_eq]
  rw [sum_sub_distrib, sum_const, card_range, nsmul_eq_mul]
  have hk : (classes : Rat) ≠ 0 := Nat.cast_ne_zero.mpr (Nat.pos_iff_ne_zero.mp hc)
  generalize (∑ c ∈ range classes, _ : Rat) = S
  have : (classes : Rat) * (S / classes) = S := by rw [mul_comm]; exact div_mul_cancel₀ S hk
  linarith

theorem rpropPass_bias (s : McBox Rat) (nu : Nat → Row Rat) (classes : Nat) (stz : Bool) (r : RpropSt Rat) (c : Nat) :
    (rpropPass s nu classes stz r).2.bias c = r.bias c + (rpropPass s nu classes stz r).2.step c := rfl

/-- with `sumToZero` the bias keeps its component sum -/
theorem rpropPass_bias_sum (s : McBox Rat) (nu : Nat → Row Rat) (classes : Nat) (hc : 0 < classes) (r : RpropSt Rat) :
    ∑ c ∈ range classes, (rpropPass s nu classes true r).2.bias c = ∑ c ∈ range classes, r.bias c := by
  simp only [rpropPass_bias, sum_add_distrib, rpropPass_step_sum_zero s nu classes hc r, add_zero]

theorem rpropPass_state (s : McBox Rat) (nu : Nat → Row Rat) (classes : Nat) (stz : Bool) (r : RpropSt Rat) :
    (rpropPass s nu classes stz r).1 = s.performBiasUpdate nu (rpropPass s nu classes stz r).2.step := rfl

/-- the invariant of the whole machine: decomposition invariants + the linear part is shifted by the reported bias -/
def BiasInv (nu : Nat → Row Rat) (P0 : Nat) (labels0 : Nat → Nat) (L0 : Nat → Nat → Rat) (b0 : Nat → Rat)
    (s : McBox Rat) (r : RpropSt Rat) : Prop :=
  FullInv s ∧ s.P = P0 ∧ s.labels = labels0 ∧
  LinInv s (fun i p => L0 i p + biasDelta nu P0 labels0 (fun c => r.bias c - b0 c) i p)

theorem biasInv_pass (nu : Nat → Row Rat) (P0 : Nat) (labels0 : Nat → Nat) (L0 : Nat → Nat → Rat) (b0 : Nat → Rat)
    (classes : Nat) (stz : Bool) (s : McBox Rat) (r : RpropSt Rat) (h : BiasInv nu P0 labels0 L0 b0 s r) :
    BiasInv nu P0 labels0 L0 b0 (rpropPass s nu classes stz r).1 (rpropPass s nu classes stz r).2 := by
  obtain ⟨hf, hP, hl, hlin⟩ := h
  rw [rpropPass_state]
  refine ⟨fullInv_apply s hf (.addDelta _) trivial, hP, hl, ?_⟩
  have := linInv_addDelta s _ hlin (biasDelta nu s.P s.labels (rpropPass s nu classes stz r).2.step)
  intro v hv
  have h2 := this v hv
  show (s.addDeltaLinear _).lin v = _
  rw [h2, hP, hl]
  show L0 _ _ + biasDelta nu P0 labels0 (fun c => r.bias c - b0 c) _ _ + biasDelta nu P0 labels0 _ _ _
    = L0 _ _ + biasDelta nu P0 labels0 (fun c => (rpropPass s nu classes stz r).2.bias c - b0 c) _ _
  rw [add_assoc, ← biasDelta_add]
  congr 2
  funext c
  rw [rpropPass_bias]; ring

theorem biasInv_rpropLoop (nu : Nat → Row Rat) (P0 : Nat) (labels0 : Nat → Nat) (L0 : Nat → Nat → Rat) (b0 : Nat → Rat)
    (classes : Nat) (stz : Bool) (eps : Rat) : ∀ (fuel : Nat) (s : McBox Rat) (r : RpropSt Rat),
    BiasInv nu P0 labels0 L0 b0 s r →
    BiasInv nu P0 labels0 L0 b0 (rpropLoop id id nu classes stz eps fuel s r).1 (rpropLoop id id nu classes stz eps fuel s r).2.1 := by
  intro fuel
  induction fuel with
  | zero => intro s r h; exact h
  | succ fuel ih =>
    intro s r h
    have hp := biasInv_pass nu P0 labels0 L0 b0 classes stz s r h
    unfold rpropLoop
    dsimp only [id]
    split_ifs
    · exact hp
    · exact ih _ _ hp

theorem biasInv_solve (nu : Nat → Row Rat) (P0 : Nat) (labels0 : Nat → Nat) (L0 : Nat → Nat → Rat) (b0 : Nat → Rat)
    (eps : Rat) (maxIter : Nat) (s : McBox Rat) (r : RpropSt Rat) (h : BiasInv nu P0 labels0 L0 b0 s r) :
    BiasInv nu P0 labels0 L0 b0
      (solveLoopWith id eps maxIter { s := s, iter := 0, shrinkCounter := 0, stop := .running }).s.unshrink r := by
  obtain ⟨hf, hP, hl, hlin⟩ := h
  rw [solveLoopWith_id]
  have hs := sameStatic_solve s eps maxIter
  have hf1 := fullInv_solve s hf eps maxIter
  have hl1 := linInv_solve s hf _ hlin eps maxIter
  have hu := sameStatic_unshrink (solve s eps maxIter).s
  exact ⟨fullInv_apply _ hf1 .unshrink trivial, (hu.2.1.trans hs.2.1).trans hP,
    (hu.2.2.2.2.2.2.trans hs.2.2.2.2.2.2).trans hl, linInv_unshrink _ _ hl1⟩

/-- **every run of `BiasSolver::solve`** — whatever the Rprop rule does, for any fuel / accuracy / iteration limit:
the decomposition invariants hold at the end and the linear part of the problem is the original one shifted by the
bias the machine reports -/
theorem biasSolve_consistent (nu : Nat → Row Rat) (classes : Nat) (stz : Bool) (eps : Rat) (maxIter innerFuel : Nat)
    (P0 : Nat) (labels0 : Nat → Nat) (L0 : Nat → Nat → Rat) (b0 : Nat → Rat) :
    ∀ (fuel : Nat) (s : McBox Rat) (r : RpropSt Rat) (it : Nat), BiasInv nu P0 labels0 L0 b0 s r →
    BiasInv nu P0 labels0 L0 b0 (biasSolveLoop id id nu classes stz eps maxIter innerFuel fuel s r it).s
      (biasSolveLoop id id nu classes stz eps maxIter innerFuel fuel s r it).r := by
  intro fuel
  induction fuel with
  | zero => intro s r it h; exact h
  | succ fuel ih =>
    intro s r it h
    have h1 := biasInv_solve nu P0 labels0 L0 b0 eps maxIter s r h
    have h2 := biasInv_rpropLoop nu P0 labels0 L0 b0 classes stz eps innerFuel _ r h1
    unfold biasSolveLoop
    dsimp only [id]
    split_ifs
    · exact h1
    · exact h2
    · exact ih _ _ _ h2
    · exact h2

end SharkVerif.Mc
