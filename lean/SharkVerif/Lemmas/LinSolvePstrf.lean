/-
C02 — `pstrf_correct`: the pivoted Cholesky factorisation of the model (`pstrf`, `Model/LinSolve.lean`;
`kernels/default/pstrf.hpp`) delivers the factorisation hypothesis `PstrfSpec` of `Lemmas/LinSolveSemi.lean`
— exactly up to the trailing block that is discarded at the stop.

Invariant of the right-looking loop (`PInv`): after `t` steps without stop, with `σ_t` the accumulated
permutation, `A (σ_t i) (σ_t k) = Σ_{c<t} F i c · F k c + S_t i k`, `S_t` the (symmetric) trailing Schur block kept
in the storage.  At the stop in step `ρ` (largest remaining diagonal entry `≤ eps`) the block `S_ρ` is cleared,
so the honest statement carries the remainder `pstrfRem = Pᵀ A P − L Lᵀ`:

* `pstrf_correct : PstrfOut n A eps (pstrf r eps n A)` — `rank ≤ n`, the permutation stays in range,
  `pstrfRem` vanishes outside the trailing block `[rank,n)²`, its diagonal is `≤ eps`, the storage is
  lower triangular, the first `rank` diagonal entries are non-zero;
* `PstrfOut.spec_full` — no stop (`rank = n`) ⇒ `PstrfSpec n A s`: H1 is discharged completely;
* `PstrfOut.spec_of_rem_zero` — `PstrfSpec n A s` iff-direction: if the discarded block was zero;
* `PstrfOut.spec_trunc` — unconditionally `PstrfSpec n (pstrfTrunc n A s) s`, `pstrfTrunc = A − P·Rem·Pᵀ`;
* end to end: `semi_solve_exact_of_pstrf`, `semi_solve_lsq_of_pstrf`, `semi_solve_lsq_trunc`;
* `semi_lsq_tolerance_witness` — the remainder cannot be dropped from the statement: a positive definite
  2×2 system whose small eigenvalue is below the stopping threshold, on which the returned vector is not a
  least-squares solution of `A` (it is one of the truncated matrix).

Hypotheses: `A` symmetric on `[0,n)²`; the root function is exact on the accepted pivots (`PstrfRoot`).
No definiteness is assumed (an indefinite `A` simply stops at the first step whose largest diagonal entry
is `≤ eps`).  Exact arithmetic, every `n`, every `eps`.
-/
import SharkVerif.Lemmas.LinSolveSemi
namespace SharkVerif.C02
open SharkVerif.LinSolve

theorem sw_low {t p c : Nat} (htp : t ≤ p) (hc : c < t) : sw t p c = c := by
  unfold sw; split_ifs <;> omega
theorem sw_ge {t p : Nat} (htp : t ≤ p) (i : Nat) : t ≤ sw t p i ↔ t ≤ i := by
  unfold sw; split_ifs <;> omega
theorem sw_left (t p : Nat) : sw t p t = p := by unfold sw; simp
theorem sw_id (u i : Nat) : sw u u i = i := by unfold sw; split_ifs <;> omega
theorem sw_gt {t p i c : Nat} (htp : t ≤ p) (hi : i < t) (hic : i < c) : i < sw t p c := by
  unfold sw; split_ifs <;> omega

def argmaxUpTo (M : Arr2) (t m : Nat) : Nat :=
  (List.range m).foldl (fun p d => if mget M p p < mget M (t + 1 + d) (t + 1 + d) then t + 1 + d else p) t

theorem argmaxDiag_eq (n : Nat) (M : Arr2) (t : Nat) : argmaxDiag n M t = argmaxUpTo M t (n - t - 1) := rfl

theorem argmaxUpTo_succ (M : Arr2) (t m : Nat) :
    argmaxUpTo M t (m + 1)
      = if mget M (argmaxUpTo M t m) (argmaxUpTo M t m) < mget M (t + 1 + m) (t + 1 + m) then t + 1 + m
        else argmaxUpTo M t m := by
  unfold argmaxUpTo; rw [List.range_succ, List.foldl_append]; rfl

theorem argmaxUpTo_spec (M : Arr2) (t : Nat) : ∀ m,
    t ≤ argmaxUpTo M t m ∧ argmaxUpTo M t m ≤ t + m ∧
    ∀ i, t ≤ i → i ≤ t + m → mget M i i ≤ mget M (argmaxUpTo M t m) (argmaxUpTo M t m) := by
  intro m
  induction m with
  | zero =>
    refine ⟨Nat.le_refl _, Nat.le_refl _, ?_⟩
    intro i h1 h2
    have : i = t := by omega
    subst this; exact le_refl _
  | succ m ih =>
    obtain ⟨h1, h2, h3⟩ := ih
    rw [argmaxUpTo_succ]
    split_ifs with hlt
    · refine ⟨by omega, by omega, ?_⟩
      intro i hi1 hi2
      by_cases hi : i = t + 1 + m
      · subst hi; exact le_refl _
      · exact le_trans (h3 i hi1 (by omega)) (le_of_lt hlt)
    · refine ⟨h1, by omega, ?_⟩
      intro i hi1 hi2
      by_cases hi : i = t + 1 + m
      · subst hi; exact not_lt.mp hlt
      · exact h3 i hi1 (by omega)

theorem argmaxDiag_spec (n : Nat) (M : Arr2) {t : Nat} (ht : t < n) :
    t ≤ argmaxDiag n M t ∧ argmaxDiag n M t < n ∧
    ∀ i, t ≤ i → i < n → mget M i i ≤ mget M (argmaxDiag n M t) (argmaxDiag n M t) := by
  rw [argmaxDiag_eq]
  obtain ⟨h1, h2, h3⟩ := argmaxUpTo_spec M t (n - t - 1)
  exact ⟨h1, by omega, fun i hi1 hi2 => h3 i hi1 (by omega)⟩

def stopM (n : Nat) (M : Arr2) (t : Nat) : Arr2 :=
  matOf n n fun i k => if t ≤ i ∧ t ≤ k then 0 else mget (swapSym n M t (argmaxDiag n M t)) i k

def goM (r : Rat → Rat) (n : Nat) (M : Arr2) (t : Nat) : Arr2 :=
  matOf n n fun i k =>
    if i < t ∨ k < t then mget (swapSym n M t (argmaxDiag n M t)) i k
    else if k = t then
      (if i = t then r (mget (swapSym n M t (argmaxDiag n M t)) t t)
       else mget (swapSym n M t (argmaxDiag n M t)) i t / r (mget (swapSym n M t (argmaxDiag n M t)) t t))
    else if i = t then 0
    else mget (swapSym n M t (argmaxDiag n M t)) i k
      - mget (swapSym n M t (argmaxDiag n M t)) i t / r (mget (swapSym n M t (argmaxDiag n M t)) t t)
        * (mget (swapSym n M t (argmaxDiag n M t)) k t / r (mget (swapSym n M t (argmaxDiag n M t)) t t))

theorem pstrfStep_some (r : Rat → Rat) (eps : Rat) (n t : Nat) (s : PState) {ρ : Nat} (h : s.rank = some ρ) :
    pstrfStep r eps n t s = s := by
  unfold pstrfStep; rw [h]

theorem pstrfStep_stop (r : Rat → Rat) (eps : Rat) (n t : Nat) (s : PState) (h : s.rank = none)
    (hp : mget (swapSym n s.M t (argmaxDiag n s.M t)) t t ≤ eps) :
    pstrfStep r eps n t s = ⟨stopM n s.M t, upd s.P t (argmaxDiag n s.M t), some t⟩ := by
  unfold pstrfStep; rw [h]
  show (if mget (swapSym n s.M t (argmaxDiag n s.M t)) t t ≤ eps then _ else _) = _
  rw [if_pos hp]; rfl

theorem pstrfStep_go (r : Rat → Rat) (eps : Rat) (n t : Nat) (s : PState) (h : s.rank = none)
    (hp : ¬ mget (swapSym n s.M t (argmaxDiag n s.M t)) t t ≤ eps) :
    pstrfStep r eps n t s = ⟨goM r n s.M t, upd s.P t (argmaxDiag n s.M t), none⟩ := by
  unfold pstrfStep; rw [h]
  show (if mget (swapSym n s.M t (argmaxDiag n s.M t)) t t ≤ eps then _ else _) = _
  rw [if_neg hp]; rfl


theorem mget_swapSym (n : Nat) (M : Arr2) (a b : Nat) {i k : Nat} (hi : i < n) (hk : k < n) :
    mget (swapSym n M a b) i k = mget M (sw a b i) (sw a b k) := by
  unfold swapSym; rw [mget_matOf]; simp [hi, hk]

theorem permOf_tail (P : Nat → Nat) (m : Nat) (h : ∀ u, m ≤ u → P u = u) :
    ∀ u, m ≤ u → ∀ i, permOf P u i = permOf P m i := by
  intro u hu
  induction u, hu using Nat.le_induction with
  | base => intro i; rfl
  | succ u hu ih =>
    intro i
    simp only [permOf]
    rw [h u hu, sw_id]; exact ih i

/-! ## the invariant of the right-looking loop -/

/-- after `t` steps without stop: `Pᵀ A P = L_t L_tᵀ + S_t` (`S_t` the trailing Schur block kept in the storage),
`S_t` symmetric, finished rows cleared right of the diagonal, `P` the identity beyond `t` -/
structure PInv (n : Nat) (A : Mat) (t : Nat) (s : PState) : Prop where
  main : ∀ i k, i < n → k < n → A (permOf s.P t i) (permOf s.P t k)
      = sum t (fun c => mget s.M i c * mget s.M k c) + (if t ≤ i ∧ t ≤ k then mget s.M i k else 0)
  sym : ∀ i k, i < n → k < n → t ≤ i → t ≤ k → mget s.M i k = mget s.M k i
  upper : ∀ i c, i < n → c < n → i < t → i < c → mget s.M i c = 0
  pid : ∀ u, t ≤ u → s.P u = u
  pbd : ∀ c, c < t → s.P c < n
  diag : ∀ j, j < t → mget s.M j j ≠ 0

theorem PInv_init (n : Nat) (A : Mat) (hsym : ∀ i k, i < n → k < n → A i k = A k i) :
    PInv n A 0 ⟨matOf n n A, fun t => t, none⟩ where
  main := by intro i k hi hk; simp [permOf, sum, mget_matOf, hi, hk]
  sym := by intro i k hi hk _ _; simp only [mget_matOf, hi, hk, and_self, if_true]; exact hsym i k hi hk
  upper := by intro i c _ _ h; omega
  pid := by intro u _; rfl
  pbd := by intro c h; omega
  diag := by intro j h; omega

theorem goM_entry (r : Rat → Rat) (n : Nat) (M : Arr2) {t : Nat} (ht : t < n) {a c : Nat} (ha : a < n) (hc : c < n) :
    mget (goM r n M t) a c =
      if a < t ∨ c < t then mget M (sw t (argmaxDiag n M t) a) (sw t (argmaxDiag n M t) c)
      else if c = t then
        (if a = t then r (mget M (argmaxDiag n M t) (argmaxDiag n M t))
         else mget M (sw t (argmaxDiag n M t) a) (argmaxDiag n M t) / r (mget M (argmaxDiag n M t) (argmaxDiag n M t)))
      else if a = t then 0
      else mget M (sw t (argmaxDiag n M t) a) (sw t (argmaxDiag n M t) c)
        - mget M (sw t (argmaxDiag n M t) a) (argmaxDiag n M t) / r (mget M (argmaxDiag n M t) (argmaxDiag n M t))
          * (mget M (sw t (argmaxDiag n M t) c) (argmaxDiag n M t) / r (mget M (argmaxDiag n M t) (argmaxDiag n M t))) := by
  unfold goM
  rw [mget_matOf]
  simp only [ha, hc, and_self, if_true, mget_swapSym n M t _ ha hc, mget_swapSym n M t _ ht ht,
    mget_swapSym n M t _ ha ht, mget_swapSym n M t _ hc ht, sw_left]

theorem stopM_entry (n : Nat) (M : Arr2) (t : Nat) {a c : Nat} (ha : a < n) (hc : c < n) :
    mget (stopM n M t) a c =
      if t ≤ a ∧ t ≤ c then 0 else mget M (sw t (argmaxDiag n M t) a) (sw t (argmaxDiag n M t) c) := by
  unfold stopM
  rw [mget_matOf]
  simp only [ha, hc, and_self, if_true, mget_swapSym n M t _ ha hc]

/-- one factorisation step keeps the invariant -/
theorem PInv_go (r : Rat → Rat) (n : Nat) (A : Mat) {t : Nat} (ht : t < n) (s : PState) (hinv : PInv n A t s)
    (hd : r (mget s.M (argmaxDiag n s.M t) (argmaxDiag n s.M t)) * r (mget s.M (argmaxDiag n s.M t) (argmaxDiag n s.M t))
            = mget s.M (argmaxDiag n s.M t) (argmaxDiag n s.M t) ∧
          r (mget s.M (argmaxDiag n s.M t) (argmaxDiag n s.M t)) ≠ 0) :
    PInv n A (t + 1) ⟨goM r n s.M t, upd s.P t (argmaxDiag n s.M t), none⟩ := by
  obtain ⟨hpt, hpn, _⟩ := argmaxDiag_spec n s.M ht
  have hE := fun {a c : Nat} (ha : a < n) (hc : c < n) => goM_entry r n s.M ht ha hc
  set p := argmaxDiag n s.M t with hp
  set d := r (mget s.M p p) with hdd
  obtain ⟨hd1, hd0⟩ := hd
  have hswn : ∀ {a : Nat}, a < n → sw t p a < n := fun ha => sw_lt ht hpn ha
  -- symmetry of the swapped trailing block
  have hm1sym : ∀ a c, a < n → c < n → t ≤ a → t ≤ c →
      mget s.M (sw t p a) (sw t p c) = mget s.M (sw t p c) (sw t p a) := fun a c ha hc hta htc =>
    hinv.sym _ _ (hswn ha) (hswn hc) ((sw_ge hpt a).mpr hta) ((sw_ge hpt c).mpr htc)
  have hswt : sw t p t = p := sw_left t p
  refine ⟨?_, ?_, ?_, ?_, ?_, ?_⟩
  · intro i k hi hk
    show A (permOf (upd s.P t p) (t + 1) i) (permOf (upd s.P t p) (t + 1) k)
      = (sum t (fun c => mget (goM r n s.M t) i c * mget (goM r n s.M t) k c)
          + mget (goM r n s.M t) i t * mget (goM r n s.M t) k t)
        + (if t + 1 ≤ i ∧ t + 1 ≤ k then mget (goM r n s.M t) i k else 0)
    rw [permOf_upd_succ, permOf_upd_succ, hinv.main _ _ (hswn hi) (hswn hk)]
    have hsum : sum t (fun c => mget s.M (sw t p i) c * mget s.M (sw t p k) c)
        = sum t (fun c => mget (goM r n s.M t) i c * mget (goM r n s.M t) k c) := by
      apply sum_congr; intro c hc
      have hcn : c < n := by omega
      rw [hE hi hcn, hE hk hcn, if_pos (Or.inr hc), if_pos (Or.inr hc), sw_low hpt hc]
    rw [hsum, Rat.add_assoc]
    congr 1
    simp only [sw_ge hpt]
    rw [hE hi ht, hE hk ht, hE hi hk]
    rcases Nat.lt_trichotomy i t with hit | hit | hit
    · -- finished row: the entry right of the diagonal is zero
      have hz : mget s.M (sw t p i) (sw t p t) = 0 := by
        rw [sw_low hpt hit]
        exact hinv.upper i _ hi (hswn ht) hit (sw_gt hpt hit hit)
      have h1 : ¬ t ≤ i := by omega
      have h2 : ¬ t + 1 ≤ i := by omega
      simp [hit, hz, h1, h2]
    · subst hit
      rcases Nat.lt_trichotomy k i with hkt | hkt | hkt
      · have hz : mget s.M (sw i p k) (sw i p i) = 0 := by
          rw [sw_low hpt hkt]
          exact hinv.upper k _ hk (hswn ht) hkt (sw_gt hpt hkt hkt)
        have h1 : ¬ i ≤ k := by omega
        have h2 : ¬ i + 1 ≤ k := by omega
        simp [hkt, hz, h1, h2]
      · subst hkt
        simp [hswt, hd1]
      · have h1 : ¬ k < i := by omega
        have h2 : ¬ k = i := by omega
        have h3 : i ≤ k := by omega
        simp only [Nat.lt_irrefl, h1, or_self, if_false, if_true, h2, h3, and_self, Nat.le_refl,
          show ¬ i + 1 ≤ i by omega, false_and, add_zero]
        rw [hm1sym i k hi hk (Nat.le_refl _) h3, hswt]
        field_simp
    · rcases Nat.lt_trichotomy k t with hkt | hkt | hkt
      · have hz : mget s.M (sw t p k) (sw t p t) = 0 := by
          rw [sw_low hpt hkt]
          exact hinv.upper k _ hk (hswn ht) hkt (sw_gt hpt hkt hkt)
        have h1 : ¬ t ≤ k := by omega
        have h2 : ¬ t + 1 ≤ k := by omega
        simp [hkt, hz, h1, h2]
      · subst hkt
        have h1 : ¬ i < k := by omega
        have h2 : ¬ i = k := by omega
        have h3 : k ≤ i := by omega
        simp only [Nat.lt_irrefl, h1, or_self, if_false, if_true, h2, h3, and_self, Nat.le_refl,
          show ¬ k + 1 ≤ k by omega, and_false, add_zero]
        rw [hswt]
        field_simp
      · have h1 : ¬ i < t := by omega
        have h2 : ¬ i = t := by omega
        have h3 : t ≤ i := by omega
        have h4 : ¬ k < t := by omega
        have h5 : ¬ k = t := by omega
        have h6 : t ≤ k := by omega
        have h7 : t + 1 ≤ i := by omega
        have h8 : t + 1 ≤ k := by omega
        simp only [Nat.lt_irrefl, h1, h2, h3, h4, h5, h6, h7, h8, or_self, if_false, if_true, and_self, hswt]
        ring
  · intro i k hi hk hti htk
    show mget (goM r n s.M t) i k = mget (goM r n s.M t) k i
    rw [hE hi hk, hE hk hi]
    have h1 : ¬ (i < t ∨ k < t) := by omega
    have h2 : ¬ (k < t ∨ i < t) := by omega
    rw [if_neg h1, if_neg h2, if_neg (by omega), if_neg (by omega), if_neg (by omega), if_neg (by omega)]
    rw [hm1sym i k hi hk (by omega) (by omega)]
    ring
  · intro i c hi hc hit hic
    show mget (goM r n s.M t) i c = 0
    rw [hE hi hc]
    by_cases hlt : i < t
    · rw [if_pos (Or.inl hlt), sw_low hpt hlt]
      exact hinv.upper i _ hi (hswn hc) hlt (sw_gt hpt hlt hic)
    · have : i = t := by omega
      subst this
      rw [if_neg (by omega), if_neg (by omega), if_pos rfl]
  · intro u hu
    show upd s.P t p u = u
    unfold upd; rw [if_neg (by omega)]; exact hinv.pid u (by omega)
  · intro c hc
    show upd s.P t p c < n
    unfold upd
    split
    · exact hpn
    · exact hinv.pbd c (by omega)
  · intro j hj
    show mget (goM r n s.M t) j j ≠ 0
    have hjn : j < n := by omega
    rw [hE hjn hjn]
    by_cases hlt : j < t
    · rw [if_pos (Or.inl hlt), sw_low hpt hlt]; exact hinv.diag j hlt
    · have : j = t := by omega
      subst this
      rw [if_neg (by omega), if_pos rfl, if_pos rfl]; exact hd0


/-- after the stop in step `ρ` (pivot `≤ eps`, trailing block cleared): the factorisation is exact on every
entry outside the trailing block, and the diagonal of what was discarded is `≤ eps` -/
structure PDone (n : Nat) (A : Mat) (eps : Rat) (s : PState) (ρ : Nat) : Prop where
  lt : ρ < n
  supp : ∀ i k, i < n → k < n → (i < ρ ∨ k < ρ) →
    A (permOf s.P n i) (permOf s.P n k) = sum ρ (fun c => mget s.M i c * mget s.M k c)
  dg : ∀ i, ρ ≤ i → i < n →
    A (permOf s.P n i) (permOf s.P n i) - sum ρ (fun c => mget s.M i c * mget s.M i c) ≤ eps
  upper : ∀ i c, i < n → c < n → i < c → mget s.M i c = 0
  pbd : ∀ c, c < n → s.P c < n
  diag : ∀ j, j < ρ → mget s.M j j ≠ 0

theorem PDone_stop (n : Nat) (A : Mat) (eps : Rat) {t : Nat} (ht : t < n) (s : PState) (hinv : PInv n A t s)
    (hpiv : mget s.M (argmaxDiag n s.M t) (argmaxDiag n s.M t) ≤ eps) :
    PDone n A eps ⟨stopM n s.M t, upd s.P t (argmaxDiag n s.M t), some t⟩ t := by
  obtain ⟨hpt, hpn, hmax⟩ := argmaxDiag_spec n s.M ht
  have hE := fun {a c : Nat} (ha : a < n) (hc : c < n) => stopM_entry n s.M t ha hc
  set p := argmaxDiag n s.M t with hp
  have hswn : ∀ {a : Nat}, a < n → sw t p a < n := fun ha => sw_lt ht hpn ha
  have hσ : ∀ i, permOf (upd s.P t p) n i = permOf s.P t (sw t p i) := by
    intro i
    rw [permOf_tail (upd s.P t p) (t + 1)
      (fun u hu => by unfold upd; rw [if_neg (by omega)]; exact hinv.pid u (by omega)) n (by omega) i]
    exact permOf_upd_succ s.P t p i
  have hsum : ∀ i k, i < n → k < n → sum t (fun c => mget s.M (sw t p i) c * mget s.M (sw t p k) c)
      = sum t (fun c => mget (stopM n s.M t) i c * mget (stopM n s.M t) k c) := by
    intro i k hi hk
    apply sum_congr; intro c hc
    have hcn : c < n := by omega
    rw [hE hi hcn, hE hk hcn, if_neg (by omega), if_neg (by omega), sw_low hpt hc]
  refine ⟨ht, ?_, ?_, ?_, ?_, ?_⟩
  · intro i k hi hk hik
    show A (permOf (upd s.P t p) n i) (permOf (upd s.P t p) n k)
      = sum t (fun c => mget (stopM n s.M t) i c * mget (stopM n s.M t) k c)
    rw [hσ, hσ, hinv.main _ _ (hswn hi) (hswn hk), hsum i k hi hk]
    simp only [sw_ge hpt]
    rw [if_neg (by omega)]; ring
  · intro i hti hi
    show A (permOf (upd s.P t p) n i) (permOf (upd s.P t p) n i)
      - sum t (fun c => mget (stopM n s.M t) i c * mget (stopM n s.M t) i c) ≤ eps
    rw [hσ, hinv.main _ _ (hswn hi) (hswn hi), hsum i i hi hi]
    simp only [sw_ge hpt]
    rw [if_pos ⟨hti, hti⟩]
    have := hmax (sw t p i) ((sw_ge hpt i).mpr hti) (hswn hi)
    linarith
  · intro i c hi hc hic
    show mget (stopM n s.M t) i c = 0
    rw [hE hi hc]
    by_cases hlt : i < t
    · rw [if_neg (by omega), sw_low hpt hlt]
      exact hinv.upper i _ hi (hswn hc) hlt (sw_gt hpt hlt hic)
    · rw [if_pos (by omega)]
  · intro c hc
    show upd s.P t p c < n
    unfold upd
    split
    · exact hpn
    · by_cases hct : c < t
      · exact hinv.pbd c hct
      · rw [hinv.pid c (by omega)]; exact hc
  · intro j hj
    show mget (stopM n s.M t) j j ≠ 0
    have hjn : j < n := by omega
    rw [hE hjn hjn, if_neg (by omega), sw_low hpt hj]
    exact hinv.diag j hj

/-! ## the run -/

def pstrfRun (r : Rat → Rat) (eps : Rat) (n : Nat) (A : Mat) (t : Nat) : PState :=
  iter t (pstrfStep r eps n) ⟨matOf n n A, fun t => t, none⟩

theorem pstrf_eq_run (r : Rat → Rat) (eps : Rat) (n : Nat) (A : Mat) : pstrf r eps n A = pstrfRun r eps n A n := rfl

/-- the pivot of step `t`: the largest diagonal entry of the trailing Schur block -/
def pstrfPivot (r : Rat → Rat) (eps : Rat) (n : Nat) (A : Mat) (t : Nat) : Rat :=
  mget (pstrfRun r eps n A t).M (argmaxDiag n (pstrfRun r eps n A t).M t) (argmaxDiag n (pstrfRun r eps n A t).M t)

/-- the root function is exact on the pivots that are accepted -/
def PstrfRoot (r : Rat → Rat) (eps : Rat) (n : Nat) (A : Mat) : Prop :=
  ∀ t, t < n → (pstrfRun r eps n A t).rank = none → eps < pstrfPivot r eps n A t →
    r (pstrfPivot r eps n A t) * r (pstrfPivot r eps n A t) = pstrfPivot r eps n A t ∧
    r (pstrfPivot r eps n A t) ≠ 0

/-- in the project's convention (`SqrtOn`), for a non-negative threshold -/
theorem pstrfRoot_of_sqrtOn (r : Rat → Rat) (eps : Rat) (n : Nat) (A : Mat) (h0 : 0 ≤ eps)
    (h : ∀ t, t < n → SqrtOn r (pstrfPivot r eps n A t)) : PstrfRoot r eps n A := by
  intro t ht _ hlt
  have := h t ht (lt_of_le_of_lt h0 hlt)
  exact ⟨this.1, ne_of_gt this.2⟩

theorem pstrf_run_inv (r : Rat → Rat) (eps : Rat) (n : Nat) (A : Mat)
    (hsym : ∀ i k, i < n → k < n → A i k = A k i) (hroot : PstrfRoot r eps n A) :
    ∀ t, t ≤ n →
      ((pstrfRun r eps n A t).rank = none ∧ PInv n A t (pstrfRun r eps n A t)) ∨
      (∃ ρ, (pstrfRun r eps n A t).rank = some ρ ∧ PDone n A eps (pstrfRun r eps n A t) ρ) := by
  intro t
  induction t with
  | zero => intro _; exact Or.inl ⟨rfl, PInv_init n A hsym⟩
  | succ t ih =>
    intro ht
    have htn : t < n := by omega
    have hstep : pstrfRun r eps n A (t + 1) = pstrfStep r eps n t (pstrfRun r eps n A t) := rfl
    rcases ih (by omega) with ⟨hnone, hinv⟩ | ⟨ρ, hsome, hdone⟩
    · obtain ⟨hpt, hpn, _⟩ := argmaxDiag_spec n (pstrfRun r eps n A t).M htn
      have hpivEq : mget (swapSym n (pstrfRun r eps n A t).M t (argmaxDiag n (pstrfRun r eps n A t).M t)) t t
          = pstrfPivot r eps n A t := by
        rw [mget_swapSym n _ t _ htn htn, sw_left]; rfl
      by_cases hp : pstrfPivot r eps n A t ≤ eps
      · right
        refine ⟨t, ?_, ?_⟩
        · rw [hstep, pstrfStep_stop r eps n t _ hnone (by rw [hpivEq]; exact hp)]
        · rw [hstep, pstrfStep_stop r eps n t _ hnone (by rw [hpivEq]; exact hp)]
          exact PDone_stop n A eps htn _ hinv hp
      · left
        have hgo := pstrfStep_go r eps n t _ hnone (by rw [hpivEq]; exact hp)
        refine ⟨?_, ?_⟩
        · rw [hstep, hgo]
        · rw [hstep, hgo]
          exact PInv_go r n A htn _ hinv (hroot t htn hnone (not_le.mp hp))
    · right
      refine ⟨ρ, ?_, ?_⟩
      · rw [hstep, pstrfStep_some r eps n t _ hsome]; exact hsome
      · rw [hstep, pstrfStep_some r eps n t _ hsome]; exact hdone


/-! ## the result -/

/-- what was discarded: `Pᵀ A P − L Lᵀ` (`L` = first `rank` columns of the storage) -/
def pstrfRem (n : Nat) (A : Mat) (s : PState) : Mat := fun i k =>
  A (permOf s.P n i) (permOf s.P n k) - sum (s.rank.getD n) (fun c => mget s.M i c * mget s.M k c)

/-- `A` minus the discarded block, in the original coordinates -/
def pstrfTrunc (n : Nat) (A : Mat) (s : PState) : Mat := fun i k =>
  A i k - pstrfRem n A s (permInvOf s.P n i) (permInvOf s.P n k)

structure PstrfOut (n : Nat) (A : Mat) (eps : Rat) (s : PState) : Prop where
  rank_le : s.rank.getD n ≤ n
  perm : ∀ c, c < n → s.P c < n
  /-- the factorisation is exact outside the trailing block `[rank,n)²` -/
  rem_supp : ∀ i k, i < n → k < n → (i < s.rank.getD n ∨ k < s.rank.getD n) → pstrfRem n A s i k = 0
  /-- the diagonal of the discarded block is below the threshold -/
  rem_diag : ∀ i, s.rank.getD n ≤ i → i < n → pstrfRem n A s i i ≤ eps
  upper : ∀ i c, i < n → c < n → i < c → mget s.M i c = 0
  diag : ∀ j, j < s.rank.getD n → mget s.M j j ≠ 0
  /-- `rank` is reported iff the loop stopped early -/
  stopped : ∀ ρ, s.rank = some ρ → ρ < n

/-- **`pstrf` (pivoted Cholesky) is correct up to the discarded remainder**: for every size, every symmetric
input, every threshold, root function exact on the accepted pivots. -/
theorem pstrf_correct (r : Rat → Rat) (eps : Rat) (n : Nat) (A : Mat)
    (hsym : ∀ i k, i < n → k < n → A i k = A k i) (hroot : PstrfRoot r eps n A) :
    PstrfOut n A eps (pstrf r eps n A) := by
  rw [pstrf_eq_run]
  rcases pstrf_run_inv r eps n A hsym hroot n (Nat.le_refl n) with ⟨hnone, hinv⟩ | ⟨ρ, hsome, hdone⟩
  · have hg : (pstrfRun r eps n A n).rank.getD n = n := by rw [hnone]; rfl
    refine ⟨by omega, hinv.pbd, ?_, ?_, ?_, ?_, ?_⟩
    · intro i k hi hk _
      unfold pstrfRem
      rw [hg, hinv.main i k hi hk, if_neg (by omega)]; ring
    · intro i h1 h2; omega
    · intro i c hi hc hic; exact hinv.upper i c hi hc hi hic
    · intro j hj; exact hinv.diag j (by omega)
    · intro ρ h; rw [hnone] at h; exact absurd h (by simp)
  · have hg : (pstrfRun r eps n A n).rank.getD n = ρ := by rw [hsome]; rfl
    have := hdone.lt
    refine ⟨by omega, hdone.pbd, ?_, ?_, hdone.upper, ?_, ?_⟩
    · intro i k hi hk hik
      unfold pstrfRem
      rw [hg] at hik ⊢
      rw [hdone.supp i k hi hk hik]; ring
    · intro i h1 h2
      unfold pstrfRem
      rw [hg] at h1 ⊢
      exact hdone.dg i h1 h2
    · intro j hj; rw [hg] at hj; exact hdone.diag j hj
    · intro ρ' h; rw [hsome] at h; cases h; exact hdone.lt

/-- the discarded block is symmetric (for symmetric `A`) -/
theorem pstrfRem_symm (n : Nat) (A : Mat) (s : PState) (hP : ∀ c, c < n → s.P c < n)
    (hsym : ∀ i k, i < n → k < n → A i k = A k i) :
    ∀ i k, i < n → k < n → pstrfRem n A s i k = pstrfRem n A s k i := by
  intro i k hi hk
  unfold pstrfRem
  rw [hsym _ _ (permOf_lt s.P n n (Nat.le_refl n) hP i hi) (permOf_lt s.P n n (Nat.le_refl n) hP k hk)]
  congr 1; apply sum_congr; intro c _; rw [Rat.mul_comm]

/-- H1 holds as soon as the discarded block is zero … -/
theorem PstrfOut.spec_of_rem_zero {n : Nat} {A : Mat} {eps : Rat} {s : PState} (h : PstrfOut n A eps s)
    (hz : ∀ i k, s.rank.getD n ≤ i → i < n → s.rank.getD n ≤ k → k < n → pstrfRem n A s i k = 0) :
    PstrfSpec n A s where
  rank_le := h.rank_le
  perm := h.perm
  fac := by
    intro i k hi hk
    have : pstrfRem n A s i k = 0 := by
      by_cases hik : i < s.rank.getD n ∨ k < s.rank.getD n
      · exact h.rem_supp i k hi hk hik
      · exact hz i k (by omega) hi (by omega) hk
    unfold pstrfRem at this
    linarith
  upper := fun _ i c hi hc hic => h.upper i c hi hc hic
  diag := fun hr j hj => h.diag j (by omega)

/-- … in particular when the loop ran to the end (full rank): H1 discharged, no residual hypothesis. -/
theorem PstrfOut.spec_full {n : Nat} {A : Mat} {eps : Rat} {s : PState} (h : PstrfOut n A eps s)
    (hfull : s.rank.getD n = n) : PstrfSpec n A s :=
  h.spec_of_rem_zero (fun i _ h1 h2 _ _ => by omega)

/-- Unconditionally, H1 holds for the truncated matrix `A − P·Rem·Pᵀ`. -/
theorem PstrfOut.spec_trunc {n : Nat} {A : Mat} {eps : Rat} {s : PState} (h : PstrfOut n A eps s) :
    PstrfSpec n (pstrfTrunc n A s) s where
  rank_le := h.rank_le
  perm := h.perm
  fac := by
    intro i k _ _
    unfold pstrfTrunc
    rw [permInvOf_permOf, permInvOf_permOf]
    unfold pstrfRem; ring
  upper := fun _ i c hi hc hic => h.upper i c hi hc hic
  diag := fun hr j hj => h.diag j (by omega)

/-- the truncation changes `A` only by the discarded block: entrywise `A − Ã = Rem∘(τ×τ)`, which vanishes
unless both pivoted indices lie in `[rank, n)` -/
theorem pstrfTrunc_eq_of_low {n : Nat} {A : Mat} {eps : Rat} {s : PState} (h : PstrfOut n A eps s)
    {i k : Nat} (hi : i < n) (hk : k < n)
    (hlow : permInvOf s.P n i < s.rank.getD n ∨ permInvOf s.P n k < s.rank.getD n) :
    pstrfTrunc n A s i k = A i k := by
  unfold pstrfTrunc
  rw [h.rem_supp _ _ (permInvOf_lt s.P n n (Nat.le_refl n) h.perm i hi)
    (permInvOf_lt s.P n n (Nat.le_refl n) h.perm k hk) hlow]
  ring

/-! ## end to end, without the factorisation hypothesis -/

theorem semiFactor_fst (r : Rat → Rat) (n : Nat) (A : Mat) :
    (semiFactor r n A).1 = pstrf r (pstrfEps n A) n A := rfl

/-- **full rank**: `solve(A, b, symm_semi_pos_def())` returns the exact solution — for every symmetric `A` on
which `pstrf` does not stop early (root function exact on the pivots). -/
theorem semi_solve_exact_of_pstrf (r : Rat → Rat) (n : Nat) (A : Mat) (b : Vec)
    (hsym : ∀ i k, i < n → k < n → A i k = A k i) (hroot : PstrfRoot r (pstrfEps n A) n A) (hn : 0 < n)
    (hfull : (semiFactor r n A).1.rank.getD n = n) :
    ∀ i, i < n → mulVec n A (fun l => vget (semiSolveArr r n A b) l) i = b i :=
  semi_solve_exact r n A b ((pstrf_correct r (pstrfEps n A) n A hsym hroot).spec_full hfull) hn hfull

/-- **rank deficient, nothing discarded**: least-squares solution of `A`. -/
theorem semi_solve_lsq_of_pstrf (r : Rat → Rat) (n : Nat) (A : Mat) (b : Vec)
    (hsym : ∀ i k, i < n → k < n → A i k = A k i) (hroot : PstrfRoot r (pstrfEps n A) n A)
    (h2 : InnerCholOk r n (semiFactor r n A).1)
    (hz : ∀ i k, (semiFactor r n A).1.rank.getD n ≤ i → i < n → (semiFactor r n A).1.rank.getD n ≤ k → k < n →
      pstrfRem n A (semiFactor r n A).1 i k = 0) :
    ∀ i, i < n →
      mulVec n A (fun k => mulVec n A (fun l => vget (semiSolveArr r n A b) l) k - b k) i = 0 :=
  semi_solve_lsq r n A b ((pstrf_correct r (pstrfEps n A) n A hsym hroot).spec_of_rem_zero hz) h2

/-- **in general**: the returned vector is a least-squares solution of the TRUNCATED matrix
`Ã = A − P·Rem·Pᵀ` (`Rem` the discarded trailing block, diagonal `≤ pstrfEps n A`). -/
theorem semi_solve_lsq_trunc (r : Rat → Rat) (n : Nat) (A : Mat) (b : Vec)
    (hsym : ∀ i k, i < n → k < n → A i k = A k i) (hroot : PstrfRoot r (pstrfEps n A) n A)
    (h2 : InnerCholOk r n (semiFactor r n A).1) :
    ∀ i, i < n →
      mulVec n (pstrfTrunc n A (semiFactor r n A).1)
        (fun k => mulVec n (pstrfTrunc n A (semiFactor r n A).1)
          (fun l => vget (semiSolveArr r n A b) l) k - b k) i = 0 :=
  semiApply_lsq r n (pstrfTrunc n A (semiFactor r n A).1) b (semiFactor r n A).1 (semiFactor r n A).2
    (semiFactor_snd r n A) (pstrf_correct r (pstrfEps n A) n A hsym hroot).spec_trunc h2

/-! ## the remainder cannot be dropped -/

def rOne : Rat → Rat := fun x => if x = 1 then 1 else 0
/-- `diag(1, 2⁻⁵¹)`: positive definite, but the second pivot is below `n²·2⁻⁵²·max_diag = 2⁻⁵⁰` -/
def ATiny : Mat := fun i j => if i = j then (if i = 0 then 1 else 1 / 2251799813685248) else 0

/-- On the regular system `diag(1, 2⁻⁵¹) x = (1,1)` (exact solution `(1, 2⁵¹)`) the modelled solver reports
rank 1 and returns `(1, 0)`, which does NOT satisfy the normal equations of `A`: "least-squares solution"
holds for the truncated matrix only (`semi_solve_lsq_trunc`), i.e. up to the stopping tolerance. -/
theorem semi_lsq_tolerance_witness :
    (semiFactor rOne 2 ATiny).1.rank = some 1 ∧
    mulVec 2 ATiny (fun k => mulVec 2 ATiny (fun l => vget (semiSolveArr rOne 2 ATiny (fun _ => 1)) l) k - 1) 1 ≠ 0 := by
  have hx1 : vget (semiSolveArr rOne 2 ATiny (fun _ => 1)) 1 = 0 := by
    norm_num [semiSolveArr, semiApplyArr, semiFactor, pstrf, iter, pstrfStep, argmaxDiag, swapSym, mget_matOf,
      sw, upd, pstrfEps, absR, List.range, List.range.loop, ATiny, rOne, permOf, permInvOf, sum]
  constructor
  · norm_num [semiFactor, pstrf, iter, pstrfStep, argmaxDiag, swapSym, mget_matOf, sw, upd, pstrfEps, absR,
      List.range, List.range.loop, ATiny, rOne]
  · norm_num [mulVec, sum, ATiny, hx1]

/-! ## non-vacuity -/

/-- the hypotheses of `pstrf_correct` hold on the rank-deficient instance of `LinSolveSemi.lean`
(`A = [[9,12],[12,16]]`, pivoting needed, stop in step 1 with pivot `0`) -/
theorem ex_root : PstrfRoot rEx2 (pstrfEps 2 AEx) 2 AEx := by
  intro t ht
  have : t = 0 ∨ t = 1 := by omega
  rcases this with rfl | rfl
  · intro _ _
    norm_num [pstrfPivot, pstrfRun, iter, argmaxDiag, mget_matOf, List.range, List.range.loop, AEx, rEx2]
  · intro _ hlt
    exfalso
    revert hlt
    norm_num [pstrfPivot, pstrfRun, iter, pstrfStep, argmaxDiag, swapSym, mget_matOf, sw, upd, pstrfEps, absR,
      List.range, List.range.loop, AEx, rEx2]

example : PstrfOut 2 AEx (pstrfEps 2 AEx) (pstrf rEx2 (pstrfEps 2 AEx) 2 AEx) :=
  pstrf_correct rEx2 (pstrfEps 2 AEx) 2 AEx
    (by
      intro i k hi hk
      have hi' : i = 0 ∨ i = 1 := by omega
      have hk' : k = 0 ∨ k = 1 := by omega
      rcases hi' with rfl | rfl <;> rcases hk' with rfl | rfl <;> norm_num [AEx])
    ex_root

end SharkVerif.C02
