/-
Round-robin dealing: how many of a block of consecutive dealing positions land in a given fold.
-/
namespace SharkVerif.Dealing

/-- number of i < n with i % k = f (closed form) -/
def cnt (k f n : Nat) : Nat := n / k + (if f < n % k then 1 else 0)

theorem div_mod_succ (n k : Nat) (hk : 0 < k) :
    (n % k + 1 < k → (n + 1) / k = n / k ∧ (n + 1) % k = n % k + 1) ∧
    (n % k + 1 = k → (n + 1) / k = n / k + 1 ∧ (n + 1) % k = 0) := by
  have h := Nat.div_add_mod n k
  refine ⟨fun hlt => ?_, fun heq => ?_⟩
  · exact (Nat.div_mod_unique hk).mpr ⟨by omega, hlt⟩
  · have : 0 + k * (n / k + 1) = n + 1 := by rw [Nat.mul_add]; omega
    exact (Nat.div_mod_unique hk).mpr ⟨this, hk⟩

theorem cnt_succ (k f n : Nat) (hk : 0 < k) (hf : f < k) :
    cnt k f (n + 1) = cnt k f n + (if n % k = f then 1 else 0) := by
  have hr := Nat.mod_lt n hk
  obtain ⟨h1, h2⟩ := div_mod_succ n k hk
  unfold cnt
  by_cases hlt : n % k + 1 < k
  · obtain ⟨hd, hm⟩ := h1 hlt
    rw [hd, hm]
    by_cases a : f < n % k <;> by_cases b : n % k = f <;> simp [a, b] <;> omega
  · have heq : n % k + 1 = k := by omega
    obtain ⟨hd, hm⟩ := h2 heq
    rw [hd, hm]
    by_cases a : f < n % k <;> by_cases b : n % k = f <;> simp [a, b] <;> omega

/-- the positions a, a+1, …, a+m-1 that are dealt to fold f: their number is `cnt (a+m) - cnt a` -/
theorem count_window (k f a : Nat) (hk : 0 < k) (hf : f < k) : ∀ m,
    ((List.range m).filter fun j => (a + j) % k = f).length + cnt k f a = cnt k f (a + m) := by
  intro m
  induction m with
  | zero => simp
  | succ m ih =>
    rw [List.range_succ, List.filter_append, List.length_append, ← Nat.add_assoc, cnt_succ k f (a + m) hk hf]
    by_cases h : (a + m) % k = f
    · simp [h]; omega
    · simp [h]; omega

/-- **dealing_class_balance**: a block of `m` consecutive dealing positions starting anywhere (`a`) puts, for any
two folds f and g, numbers of elements that differ by at most one -/
theorem window_balance (k a m f g : Nat) (hk : 0 < k) (hf : f < k) (hg : g < k) :
    ((List.range m).filter fun j => (a + j) % k = f).length ≤
    ((List.range m).filter fun j => (a + j) % k = g).length + 1 := by
  have h1 := count_window k f a hk hf m
  have h2 := count_window k g a hk hg m
  unfold cnt at h1 h2
  by_cases c1 : f < a % k <;> by_cases c2 : f < (a + m) % k <;> by_cases c3 : g < a % k <;>
    by_cases c4 : g < (a + m) % k <;> simp [c1, c2, c3, c4] at h1 h2 <;> omega

end SharkVerif.Dealing
