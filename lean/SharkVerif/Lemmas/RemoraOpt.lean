/-
Helpers for the generated optimiser (Gen/RemoraOpt.lean): reflexivity of `≈` and the tactic that
derives the well-formedness of a recursive call's argument from the well-formedness of the
matched expression.
-/
import SharkVerif.Lemmas.Remora
import Mathlib.Tactic.SplitIfs
namespace SharkVerif.Remora
variable {R : Type} [CommRing R]

theorem vequiv_refl (a : VExp R) : a ≈ᵥ a := ⟨rfl, fun _ _ => rfl⟩
theorem mequiv_refl (a : MExp R) : a ≈ₘ a := ⟨rfl, rfl, fun _ _ _ _ => rfl⟩

/-- goal: `(sub-term).WF`, hypothesis `hwf : (matched expression).WF` -/
macro "remora_wf" : tactic => `(tactic| (
  simp only [VExp.Equiv, MExp.Equiv, VExp.WF, MExp.WF, VExp.size, MExp.size1, MExp.size2] at *
  (try split_ifs at * ) <;>
  first
  | assumption
  | omega
  | (simp_all; done)
  | (simp_all <;> omega)
  | (refine ⟨?_, ?_⟩ <;> (try refine ⟨?_, ?_⟩) <;> (try refine ⟨?_, ?_⟩) <;> first | assumption | omega | (simp_all; done) | (simp_all <;> omega))))


/-- closes the generated `rule_*_wf` lemmas: the rewritten expression is well-formed -/
macro "remora_rule_wf" : tactic => `(tactic| (
  simp only [VExp.Equiv, MExp.Equiv, VExp.WF, MExp.WF, VExp.size, MExp.size1, MExp.size2] at * <;>
  (try split_ifs at * ) <;>
  first
  | trivial
  | assumption
  | omega
  | (simp_all; done)
  | (simp_all <;> omega)
  | (refine ⟨?_, ?_⟩ <;> (try refine ⟨?_, ?_⟩) <;> (try refine ⟨?_, ?_⟩) <;> first | trivial | assumption | omega | (simp_all; done) | (simp_all <;> omega))))

end SharkVerif.Remora
