/-
Theorems about the per-example step of the linear multi-class solvers (`Model/McLinearMc.lean`,
QpMcLinear.h) at `α := Rat`, for EVERY schedule (any order, repetitions) from the zero start:

* `mc_linear_w_inv`        : `w_c = Σ_i stepVec_F(y_i, alpha_i)(c) · x_i` — the weight vectors are the
                             formulation's linear map of `alpha` (closed forms: `mlStepVec_*`);
* `mc_linear_feasible`     : `0 ≤ alpha(i,p) ≤ C`;
* `mc_linear_gain_nonneg`  : the gain returned by `solveSub` is non-negative at every step;
for the formulations WW, LLW, ATS, RS (Reinforced) and MMR (`McForm.simplex F = false`).
The SMO loops of `solveSub` are handled by loop invariants that hold for every iteration count.
-/
import SharkVerif.Model.McLinearMc
import SharkVerif.Lemmas.McLinear
import Mathlib.Algebra.Order.BigOperators.Group.Finset

namespace SharkVerif.Mc
open Finset

private theorem r00 : (0.0 : Rat) = 0 := by norm_num
private theorem r05 : (0.5 : Rat) = 1 / 2 := by norm_num
private theorem r10 : (1.0 : Rat) = 1 := by norm_num
private theorem r20 : (2.0 : Rat) = 2 := by norm_num

/-! ### sums -/

theorem mlSum_eq (K : Nat) (f : Nat → Rat) (a : Rat) :
    mlSum K f a = a + ∑ c ∈ range K, f c := by
  unfold mlSum
  induction K with
  | zero => simp
  | succ n ih =>
    rw [List.range_succ, List.foldl_append, ih, Finset.sum_range_succ]
    simp [add_assoc]

theorem csSum_eq (K y : Nat) (f : Nat → Rat) (a : Rat) :
    (List.range K).foldl (fun acc p => if p = y then acc else acc + f p) a
      = a + ∑ p ∈ range K, (if p = y then 0 else f p) := by
  induction K with
  | zero => simp
  | succ n ih =>
    rw [List.range_succ, List.foldl_append, ih, Finset.sum_range_succ]
    simp only [List.foldl_cons, List.foldl_nil]
    split_ifs <;> ring

theorem xsq_nonneg (D : MlData Rat) (i : Nat) : 0 ≤ D.xsq i := by
  have h : D.xsq i = mlSum D.d (fun k => D.x i k * D.x i k) (0.0 : Rat) := rfl
  rw [h, mlSum_eq, r00, zero_add]
  exact Finset.sum_nonneg (fun k _ => mul_self_nonneg _)

/-! ### the coefficient map `mlStepVec` is linear in the row of `alpha` -/

theorem mlStepVec_add (F : McForm) (K y : Nat) (a m : Nat → Rat) (c : Nat) :
    mlStepVec F K y (fun p => a p + m p) c = mlStepVec F K y a c + mlStepVec F K y m c := by
  have hcs : ∑ p ∈ range K, (if p = y then (0 : Rat) else a p + m p)
      = ∑ p ∈ range K, (if p = y then (0 : Rat) else a p) + ∑ p ∈ range K, (if p = y then (0 : Rat) else m p) := by
    rw [← Finset.sum_add_distrib]
    apply Finset.sum_congr rfl
    intro p _
    split_ifs <;> ring
  cases F <;> simp only [mlStepVec, mlSum_eq, csSum_eq, hcs, Finset.sum_add_distrib, r00, r05, r20] <;>
    (try split_ifs) <;> ring

theorem mlStepVec_zero (F : McForm) (K y : Nat) (c : Nat) :
    mlStepVec F K y (fun _ => (0 : Rat)) c = 0 := by
  cases F <;> simp [mlStepVec, mlSum_eq, r00]

/-! closed forms of the coefficient map (the map checked by the harness oracle `ml-w-inconsistent`) -/

theorem mlStepVec_WW (K y : Nat) (a : Nat → Rat) (c : Nat) :
    mlStepVec .WW K y a c = if c = y then (1 / 2) * ∑ p ∈ range K, a p else -(1 / 2) * a c := by
  simp only [mlStepVec, mlSum_eq, r00, r05, zero_add]

theorem mlStepVec_LLW (K y : Nat) (a : Nat → Rat) (c : Nat) :
    mlStepVec .LLW K y a c = (∑ p ∈ range K, a p) / K - a c := by
  simp only [mlStepVec, mlSum_eq, r00, zero_add]

theorem mlStepVec_ATS (K y : Nat) (a : Nat → Rat) (c : Nat) :
    mlStepVec .ATS K y a c
      = if c = y then a c + (-2 * a y + ∑ p ∈ range K, a p) / K else (-2 * a y + ∑ p ∈ range K, a p) / K - a c := by
  simp only [mlStepVec, mlSum_eq, r20]

theorem mlStepVec_RS (K y : Nat) (a : Nat → Rat) (c : Nat) :
    mlStepVec .RS K y a c
      = if c = y then a c + (-2 * a y + ∑ p ∈ range K, a p) / K else (-2 * a y + ∑ p ∈ range K, a p) / K - a c := by
  simp only [mlStepVec, mlSum_eq, r20]

theorem mlStepVec_MMR (K y : Nat) (a : Nat → Rat) (c : Nat) :
    mlStepVec .MMR K y a c = if c = y then a 0 + -(a 0) / K else -(a 0) / K := by
  simp only [mlStepVec]

/-! ### solveSub: loop invariants -/

/-- invariant of the local state of `solveSub` relative to the row `a` it started from -/
structure SubOK (C : Rat) (a : Nat → Rat) (r : MlSub Rat) : Prop where
  step : ∀ p, r.alpha p = a p + r.mu p
  box : ∀ p, 0 ≤ r.alpha p ∧ r.alpha p ≤ C
  gain : 0 ≤ r.gain

theorem mlQQ_nonneg (F : McForm) (K : Nat) (q : Rat) (hq : 0 ≤ q) : 0 ≤ mlQQ F K q := by
  have h1 : (0 : Rat) ≤ 1 - 1 / (K : Rat) := by
    rcases Nat.eq_zero_or_pos K with h | h
    · subst h; norm_num
    · have hk : (1 : Rat) ≤ (K : Rat) := by exact_mod_cast h
      have e : 1 - 1 / (K : Rat) = ((K : Rat) - 1) / (K : Rat) := by field_simp
      rw [e]
      exact div_nonneg (by linarith) (by linarith)
  cases F <;> simp only [mlQQ, r05, r10] <;> first | exact mul_nonneg h1 hq | (apply mul_nonneg _ hq; norm_num)

/-- the gain increment of a single-variable step is `m (g - qq m / 2)` in every formulation -/
theorem mlGradUpd_gain (F : McForm) (K : Nat) (q : Rat) (y : Nat) (grad : Nat → Rat) (idx : Nat) (m g : Rat) :
    (mlGradUpd F K q y grad idx m g).2 = m * (g - (0.5 : Rat) * mlQQ F K q * m) := by
  cases F <;> simp only [mlGradUpd, mlQQ, r05, r10, r20] <;> (try split_ifs) <;> ring

/-- `linMu_gain_nonneg` also for a vanishing curvature (`x_i = 0`; in exact arithmetic `g/0 = 0`) -/
theorem linMu_gain_nonneg0 (bound a g q : Rat) (hq : 0 ≤ q) (ha : 0 ≤ a) (hab : a ≤ bound) :
    0 ≤ (linMu bound a g q).1 * (g - (0.5 : Rat) * q * (linMu bound a g q).1) := by
  rcases eq_or_lt_of_le hq with h | h
  · subst h
    unfold linMu
    simp only [div_zero, add_zero, r00]
    split_ifs with h1 h2
    · have : a = 0 := le_antisymm h1 ha
      subst this; norm_num
    · have : a = bound := le_antisymm hab h2
      subst this; norm_num
    · norm_num
  · exact linMu_gain_nonneg bound a g q h ha hab

theorem mlBoxIter_ok (F : McForm) (K : Nat) (q C : Rat) (y : Nat) (hC : 0 ≤ C) (hq : 0 ≤ q)
    (a : Nat → Rat) (s : MlSub Rat) (h : SubOK C a s) (idx : Nat) :
    SubOK C a (mlBoxIter F K q C y s idx) := by
  unfold mlBoxIter
  refine ⟨?_, ?_, ?_⟩
  · intro p
    simp only
    by_cases hp : p = idx
    · subst hp
      simp only [if_true]
      rw [linMu_sum, h.step p]; ring
    · simp only [hp, if_false]; exact h.step p
  · intro p
    simp only
    by_cases hp : p = idx
    · subst hp
      simp only [if_true]
      exact linMu_mem _ _ _ _ hC
    · simp only [hp, if_false]; exact h.box p
  · simp only
    rw [mlGradUpd_gain]
    have := linMu_gain_nonneg0 C (s.alpha idx) (s.grad idx) (mlQQ F K q) (mlQQ_nonneg F K q hq)
      (h.box idx).1 (h.box idx).2
    linarith [h.gain]

theorem mlBoxLoop_ok (F : McForm) (K : Nat) (q C eps : Rat) (y : Nat) (hC : 0 ≤ C) (hq : 0 ≤ q)
    (a : Nat → Rat) (fuel : Nat) : ∀ s : MlSub Rat, SubOK C a s → SubOK C a (mlBoxLoop F K q C eps y fuel s) := by
  induction fuel with
  | zero => intro s h; exact h
  | succ n ih =>
    intro s h
    unfold mlBoxLoop
    simp only
    split_ifs
    · exact h
    · exact ih _ (mlBoxIter_ok F K q C y hC hq a s h _)

theorem subOK_init (C : Rat) (a g : Nat → Rat) (ha : ∀ p, 0 ≤ a p ∧ a p ≤ C) :
    SubOK C a { alpha := a, mu := fun _ => (0.0 : Rat), grad := g, gain := (0.0 : Rat) } :=
  ⟨fun p => by simp [r00], ha, by simp [r00]⟩

theorem mmrStep_ok (K : Nat) (q C : Rat) (y : Nat) (hC : 0 ≤ C) (hq : 0 ≤ q)
    (a g : Nat → Rat) (ha : ∀ p, 0 ≤ a p ∧ a p ≤ C) :
    SubOK C a
      { alpha := fun c => if c = 0 then (linMu C (a 0) (g y) (mlQQ McForm.MMR K q)).2 else a c,
        mu := fun c => if c = 0 then (linMu C (a 0) (g y) (mlQQ McForm.MMR K q)).1 else (0.0 : Rat), grad := g,
        gain := (linMu C (a 0) (g y) (mlQQ McForm.MMR K q)).1 *
          (g y - (0.5 : Rat) * (linMu C (a 0) (g y) (mlQQ McForm.MMR K q)).1 * mlQQ McForm.MMR K q) } := by
  refine ⟨?_, ?_, ?_⟩
  · intro p
    simp only
    by_cases hp : p = 0
    · subst hp; simp only [if_true]; exact linMu_sum _ _ _ _
    · simp [hp, r00]
  · intro p
    simp only
    by_cases hp : p = 0
    · subst hp; simp only [if_true]; exact linMu_mem _ _ _ _ hC
    · simp only [hp, if_false]; exact ha p
  · simp only
    have := linMu_gain_nonneg0 C (a 0) (g y) (mlQQ .MMR K q) (mlQQ_nonneg .MMR K q hq) (ha 0).1 (ha 0).2
    have e : ∀ m : Rat, m * (g y - (0.5 : Rat) * m * mlQQ .MMR K q) = m * (g y - (0.5 : Rat) * mlQQ .MMR K q * m) := by
      intro m; ring
    rw [e]; exact this

theorem mlMmrSub_ok (K : Nat) (q C eps : Rat) (y : Nat) (hC : 0 ≤ C) (hq : 0 ≤ q)
    (a g : Nat → Rat) (ha : ∀ p, 0 ≤ a p ∧ a p ≤ C) :
    SubOK C a (mlMmrSub K q C eps y { alpha := a, mu := fun _ => (0.0 : Rat), grad := g, gain := (0.0 : Rat) }) := by
  unfold mlMmrSub
  simp only
  split_ifs
  all_goals first
    | exact subOK_init C a g ha
    | exact mmrStep_ok K q C y hC hq a g ha

/-- **solveSub** (WW, LLW, ATS, RS, MMR): the returned row is `a + mu`, stays in the box `[0,C]`,
and the returned gain is non-negative — for every iteration count of the SMO loop -/
theorem mlSolveSub_ok (F : McForm) (hF : F.simplex = false) (K : Nat) (eps q C : Rat) (y : Nat)
    (hC : 0 ≤ C) (hq : 0 ≤ q) (g a : Nat → Rat) (ha : ∀ p, 0 ≤ a p ∧ a p ≤ C) :
    SubOK C a (mlSolveSub F K eps q C y g a) := by
  cases F <;> simp only [McForm.simplex, Bool.true_eq_false] at hF <;> simp only [mlSolveSub]
  all_goals first
    | exact mlBoxLoop_ok _ K q C eps y hC hq a _ _ (subOK_init C a g ha)
    | exact mlMmrSub_ok K q C eps y hC hq a g ha

/-! ### the step for one example -/

/-- the result of `solveSub` inside `mlStep` -/
def mlSub (F : McForm) (D : MlData Rat) (s : MlState Rat) (i : Nat) : MlSub Rat :=
  mlSolveSub F D.classes ((0.1 : Rat) * D.eps) (D.xsq i) D.C (D.y i)
    (fun c => mlGradAt F D.classes (fun c => mlWx D s.w i c) (D.y i) c) (s.alpha i)

def mlStepped (F : McForm) (D : MlData Rat) (s : MlState Rat) (i : Nat) : MlState Rat :=
  { alpha := fun j => if j = i then (mlSub F D s i).alpha else s.alpha j,
    w := fun c k => s.w c k + mlStepVec F D.classes (D.y i) (mlSub F D s i).mu c * D.x i k }

theorem mlStep_cases (F : McForm) (D : MlData Rat) (s : MlState Rat) (i : Nat) :
    ((mlStep F D s i).1 = s ∧ (mlStep F D s i).2.1 = 0) ∨
    ((mlStep F D s i).1 = mlStepped F D s i ∧ (mlStep F D s i).2.1 = (mlSub F D s i).gain) := by
  unfold mlStep mlStepped mlSub
  simp only
  split_ifs
  · right; exact ⟨rfl, rfl⟩
  · left; exact ⟨rfl, r00⟩

/-- **mc_linear_w_inv** (state): the weight vectors are the formulation's linear map of alpha -/
def MlWInv (F : McForm) (D : MlData Rat) (s : MlState Rat) : Prop :=
  ∀ c k, s.w c k = ∑ i ∈ range D.n, mlStepVec F D.classes (D.y i) (s.alpha i) c * D.x i k

/-- **mc_linear_feasible** (state) -/
def MlBoxInv (D : MlData Rat) (s : MlState Rat) : Prop :=
  ∀ i p, 0 ≤ s.alpha i p ∧ s.alpha i p ≤ D.C

theorem mlWInv_init (F : McForm) (D : MlData Rat) : MlWInv F D (mlInit : MlState Rat) := by
  intro c k
  simp only [mlInit, r00, mlStepVec_zero, zero_mul, Finset.sum_const_zero]

theorem mlBoxInv_init (D : MlData Rat) (hC : 0 ≤ D.C) : MlBoxInv D (mlInit : MlState Rat) := by
  intro i p
  simp only [mlInit, r00]
  exact ⟨le_refl _, hC⟩

theorem mlWInv_stepped (F : McForm) (D : MlData Rat) (s : MlState Rat) (i : Nat) (hi : i < D.n)
    (hstep : ∀ p, (mlSub F D s i).alpha p = s.alpha i p + (mlSub F D s i).mu p)
    (h : MlWInv F D s) : MlWInv F D (mlStepped F D s i) := by
  intro c k
  unfold mlStepped
  simp only
  rw [h c k]
  have hrow : (mlSub F D s i).alpha = fun p => s.alpha i p + (mlSub F D s i).mu p := funext hstep
  have hsum : ∑ j ∈ range D.n, mlStepVec F D.classes (D.y j) (if j = i then (mlSub F D s i).alpha else s.alpha j) c * D.x j k
      = ∑ j ∈ range D.n, (mlStepVec F D.classes (D.y j) (s.alpha j) c * D.x j k
          + if j = i then mlStepVec F D.classes (D.y j) (mlSub F D s i).mu c * D.x j k else 0) := by
    apply Finset.sum_congr rfl
    intro j _
    by_cases hj : j = i
    · subst hj
      simp only [if_true]
      rw [hrow, mlStepVec_add]; ring
    · simp [hj]
  rw [hsum, Finset.sum_add_distrib, Finset.sum_ite_eq' (range D.n) i]
  simp [hi]

theorem mlSub_ok (F : McForm) (hF : F.simplex = false) (D : MlData Rat) (hC : 0 ≤ D.C)
    (s : MlState Rat) (hb : MlBoxInv D s) (i : Nat) : SubOK D.C (s.alpha i) (mlSub F D s i) :=
  mlSolveSub_ok F hF D.classes _ (D.xsq i) D.C (D.y i) hC (xsq_nonneg D i) _ (s.alpha i) (hb i)

theorem ml_inv_step (F : McForm) (hF : F.simplex = false) (D : MlData Rat) (hC : 0 ≤ D.C)
    (s : MlState Rat) (hw : MlWInv F D s) (hb : MlBoxInv D s) (i : Nat) (hi : i < D.n) :
    MlWInv F D (mlStep F D s i).1 ∧ MlBoxInv D (mlStep F D s i).1 ∧ 0 ≤ (mlStep F D s i).2.1 := by
  have ok := mlSub_ok F hF D hC s hb i
  rcases mlStep_cases F D s i with ⟨h1, h2⟩ | ⟨h1, h2⟩ <;> rw [h1, h2]
  · exact ⟨hw, hb, le_refl _⟩
  · refine ⟨mlWInv_stepped F D s i hi ok.step hw, ?_, ok.gain⟩
    intro j p
    unfold mlStepped
    simp only
    by_cases hj : j = i
    · simp only [hj, if_true]; exact ok.box p
    · simp only [hj, if_false]; exact hb j p

/-- all invariants along every schedule (induction over the schedule) -/
theorem ml_inv_sweep (F : McForm) (hF : F.simplex = false) (D : MlData Rat) (hC : 0 ≤ D.C)
    (sched : List Nat) (hs : ∀ i ∈ sched, i < D.n) :
    ∀ s : MlState Rat, MlWInv F D s → MlBoxInv D s →
      MlWInv F D (mlSweep F D s sched) ∧ MlBoxInv D (mlSweep F D s sched) := by
  induction sched with
  | nil => intro s h1 h2; exact ⟨h1, h2⟩
  | cons i rest ih =>
    intro s h1 h2
    simp only [mlSweep, List.foldl_cons]
    have st := ml_inv_step F hF D hC s h1 h2 i (hs i (List.mem_cons_self ..))
    exact ih (fun j hj => hs j (List.mem_cons_of_mem _ hj)) _ st.1 st.2.1

/-! ### the property theorems (zero start, every schedule) -/

/-- **mc_linear_w_inv**: after any schedule of steps from the zero start, `w` is the formulation's
linear map of `alpha` and the data (WW, LLW, ATS, RS, MMR) -/
theorem mc_linear_w_inv (F : McForm) (hF : F.simplex = false) (D : MlData Rat) (hC : 0 ≤ D.C)
    (sched : List Nat) (hs : ∀ i ∈ sched, i < D.n) :
    MlWInv F D (mlSweep F D mlInit sched) :=
  (ml_inv_sweep F hF D hC sched hs _ (mlWInv_init F D) (mlBoxInv_init D hC)).1

/-- **mc_linear_feasible**: `0 ≤ alpha ≤ C` after any schedule -/
theorem mc_linear_feasible (F : McForm) (hF : F.simplex = false) (D : MlData Rat) (hC : 0 ≤ D.C)
    (sched : List Nat) (hs : ∀ i ∈ sched, i < D.n) :
    MlBoxInv D (mlSweep F D mlInit sched) :=
  (ml_inv_sweep F hF D hC sched hs _ (mlWInv_init F D) (mlBoxInv_init D hC)).2

/-- **mc_linear_gain_nonneg**: after any schedule, the next step on any example returns a
non-negative gain (no hypothesis on `x_i`; for `x_i = 0` the exact model divides by zero with
Lean's convention `g/0 = 0`, whereas IEEE gives ±inf — there the statement is about the model only) -/
theorem mc_linear_gain_nonneg (F : McForm) (hF : F.simplex = false) (D : MlData Rat) (hC : 0 ≤ D.C)
    (sched : List Nat) (hs : ∀ i ∈ sched, i < D.n) (i : Nat) (hi : i < D.n) :
    0 ≤ (mlStep F D (mlSweep F D mlInit sched) i).2.1 :=
  let inv := ml_inv_sweep F hF D hC sched hs _ (mlWInv_init F D) (mlBoxInv_init D hC)
  (ml_inv_step F hF D hC _ inv.1 inv.2 i hi).2.2

/-! per-formulation names -/
theorem mc_linear_w_inv_WW (D : MlData Rat) (hC : 0 ≤ D.C) (sched : List Nat) (hs : ∀ i ∈ sched, i < D.n) :
    MlWInv .WW D (mlSweep .WW D mlInit sched) := mc_linear_w_inv .WW rfl D hC sched hs
theorem mc_linear_feasible_WW (D : MlData Rat) (hC : 0 ≤ D.C) (sched : List Nat) (hs : ∀ i ∈ sched, i < D.n) :
    MlBoxInv D (mlSweep .WW D mlInit sched) := mc_linear_feasible .WW rfl D hC sched hs
theorem mc_linear_gain_nonneg_WW (D : MlData Rat) (hC : 0 ≤ D.C) (sched : List Nat) (hs : ∀ i ∈ sched, i < D.n)
    (i : Nat) (hi : i < D.n) : 0 ≤ (mlStep .WW D (mlSweep .WW D mlInit sched) i).2.1 :=
  mc_linear_gain_nonneg .WW rfl D hC sched hs i hi
theorem mc_linear_w_inv_LLW (D : MlData Rat) (hC : 0 ≤ D.C) (sched : List Nat) (hs : ∀ i ∈ sched, i < D.n) :
    MlWInv .LLW D (mlSweep .LLW D mlInit sched) := mc_linear_w_inv .LLW rfl D hC sched hs
theorem mc_linear_feasible_LLW (D : MlData Rat) (hC : 0 ≤ D.C) (sched : List Nat) (hs : ∀ i ∈ sched, i < D.n) :
    MlBoxInv D (mlSweep .LLW D mlInit sched) := mc_linear_feasible .LLW rfl D hC sched hs
theorem mc_linear_gain_nonneg_LLW (D : MlData Rat) (hC : 0 ≤ D.C) (sched : List Nat) (hs : ∀ i ∈ sched, i < D.n)
    (i : Nat) (hi : i < D.n) : 0 ≤ (mlStep .LLW D (mlSweep .LLW D mlInit sched) i).2.1 :=
  mc_linear_gain_nonneg .LLW rfl D hC sched hs i hi
theorem mc_linear_w_inv_ATS (D : MlData Rat) (hC : 0 ≤ D.C) (sched : List Nat) (hs : ∀ i ∈ sched, i < D.n) :
    MlWInv .ATS D (mlSweep .ATS D mlInit sched) := mc_linear_w_inv .ATS rfl D hC sched hs
theorem mc_linear_feasible_ATS (D : MlData Rat) (hC : 0 ≤ D.C) (sched : List Nat) (hs : ∀ i ∈ sched, i < D.n) :
    MlBoxInv D (mlSweep .ATS D mlInit sched) := mc_linear_feasible .ATS rfl D hC sched hs
theorem mc_linear_gain_nonneg_ATS (D : MlData Rat) (hC : 0 ≤ D.C) (sched : List Nat) (hs : ∀ i ∈ sched, i < D.n)
    (i : Nat) (hi : i < D.n) : 0 ≤ (mlStep .ATS D (mlSweep .ATS D mlInit sched) i).2.1 :=
  mc_linear_gain_nonneg .ATS rfl D hC sched hs i hi
theorem mc_linear_w_inv_MMR (D : MlData Rat) (hC : 0 ≤ D.C) (sched : List Nat) (hs : ∀ i ∈ sched, i < D.n) :
    MlWInv .MMR D (mlSweep .MMR D mlInit sched) := mc_linear_w_inv .MMR rfl D hC sched hs
theorem mc_linear_feasible_MMR (D : MlData Rat) (hC : 0 ≤ D.C) (sched : List Nat) (hs : ∀ i ∈ sched, i < D.n) :
    MlBoxInv D (mlSweep .MMR D mlInit sched) := mc_linear_feasible .MMR rfl D hC sched hs
theorem mc_linear_gain_nonneg_MMR (D : MlData Rat) (hC : 0 ≤ D.C) (sched : List Nat) (hs : ∀ i ∈ sched, i < D.n)
    (i : Nat) (hi : i < D.n) : 0 ≤ (mlStep .MMR D (mlSweep .MMR D mlInit sched) i).2.1 :=
  mc_linear_gain_nonneg .MMR rfl D hC sched hs i hi
theorem mc_linear_w_inv_RS (D : MlData Rat) (hC : 0 ≤ D.C) (sched : List Nat) (hs : ∀ i ∈ sched, i < D.n) :
    MlWInv .RS D (mlSweep .RS D mlInit sched) := mc_linear_w_inv .RS rfl D hC sched hs
theorem mc_linear_feasible_RS (D : MlData Rat) (hC : 0 ≤ D.C) (sched : List Nat) (hs : ∀ i ∈ sched, i < D.n) :
    MlBoxInv D (mlSweep .RS D mlInit sched) := mc_linear_feasible .RS rfl D hC sched hs
theorem mc_linear_gain_nonneg_RS (D : MlData Rat) (hC : 0 ≤ D.C) (sched : List Nat) (hs : ∀ i ∈ sched, i < D.n)
    (i : Nat) (hi : i < D.n) : 0 ≤ (mlStep .RS D (mlSweep .RS D mlInit sched) i).2.1 :=
  mc_linear_gain_nonneg .RS rfl D hC sched hs i hi

/-- non-vacuity of the hypotheses `0 ≤ D.C`, `∀ i ∈ sched, i < D.n`: a concrete data set (two examples `x = ±1`,
two classes, `C = 1`) and the schedule `[0, 1, 0]` with a repetition -/
def exData : MlData Rat :=
  { n := 2, d := 1, classes := 2, x := fun i _ => if i = 0 then 1 else -1, y := fun i => i, C := 1, eps := 1 / 1024 }

example : (0 : Rat) ≤ exData.C ∧ (∀ i ∈ [0, 1, 0], i < exData.n) := by
  refine ⟨by norm_num [exData], ?_⟩
  intro i hi
  simp at hi
  simp only [exData]; omega

end SharkVerif.Mc
