/-
Lemmas for the LDA decision rule: with `z_c·C = m_c` (what `solve(C, means, right)` is
specified to return) the linear discriminant equals the Gaussian log-posterior with shared
covariance `C` up to a class-independent term.
-/
import SharkVerif.Lemmas.Linear
namespace SharkVerif.Trainers

/-- bilinear form `aᵀ C b` over the first `d` coordinates -/
def quadForm (d : Nat) (C : Nat → Nat → Rat) (a b : Nat → Rat) : Rat :=
  rsum d fun j => rsum d fun k => a j * C j k * b k

theorem quadForm_sub_sub (d : Nat) (C : Nat → Nat → Rat) (y z : Nat → Rat) :
    quadForm d C (fun j => y j - z j) (fun j => y j - z j)
      = quadForm d C y y - quadForm d C y z - quadForm d C z y + quadForm d C z z := by
  unfold quadForm
  rw [← rsum_sub, ← rsum_sub, ← rsum_add]
  apply rsum_congr; intro j _
  rw [← rsum_sub, ← rsum_sub, ← rsum_add]
  exact rsum_congr (fun k _ => by ring)

/-- `aᵀ C b = Σ_j a_j (C b)_j` -/
theorem quadForm_right (d : Nat) (C : Nat → Nat → Rat) (a b v : Nat → Rat)
    (hv : ∀ j, j < d → rsum d (fun k => C j k * b k) = v j) :
    quadForm d C a b = rsum d (fun j => a j * v j) := by
  unfold quadForm
  apply rsum_congr; intro j hj
  rw [← hv j hj, ← rsum_mul_left]
  exact rsum_congr (fun k _ => by ring)

/-- `aᵀ C b = Σ_k (aᵀC)_k b_k` -/
theorem quadForm_left (d : Nat) (C : Nat → Nat → Rat) (a b v : Nat → Rat)
    (hv : ∀ k, k < d → rsum d (fun j => a j * C j k) = v k) :
    quadForm d C a b = rsum d (fun k => v k * b k) := by
  unfold quadForm
  rw [rsum_rsum_comm]
  apply rsum_congr; intro k hk
  rw [← hv k hk, ← rsum_mul_right]

theorem lda_discriminant_eq (d : Nat) (C z m : Nat → Nat → Rat) (logPrior : Nat → Rat) (c : Nat) (x y : Nat → Rat)
    (hsym : ∀ j, j < d → ∀ k, k < d → C j k = C k j)
    (hz : ∀ j, j < d → rsum d (fun k => z c k * C k j) = m c j)
    (hy : ∀ j, j < d → rsum d (fun k => C j k * y k) = x j) :
    ldaDiscriminant d z m logPrior c x
      = -(1 / 2) * quadForm d C (fun j => y j - z c j) (fun j => y j - z c j) + logPrior c
        + 1 / 2 * rsum d (fun j => x j * y j) := by
  have hyl : ∀ k, k < d → rsum d (fun j => y j * C j k) = x k := by
    intro k hk
    rw [← hy k hk]
    exact rsum_congr (fun j hj => by rw [hsym j hj k hk]; ring)
  have h1 : quadForm d C y y = rsum d (fun j => y j * x j) := quadForm_right d C y y x hy
  have h2 : quadForm d C y (z c) = rsum d (fun k => x k * z c k) := quadForm_left d C y (z c) x hyl
  have h3 : quadForm d C (z c) y = rsum d (fun j => z c j * x j) := quadForm_right d C (z c) y x hy
  have h4 : quadForm d C (z c) (z c) = rsum d (fun k => m c k * z c k) := quadForm_left d C (z c) (z c) (m c) hz
  rw [quadForm_sub_sub, h1, h2, h3, h4]
  unfold ldaDiscriminant
  have e1 : rsum d (fun j => y j * x j) = rsum d (fun j => x j * y j) := rsum_congr (fun j _ => by ring)
  have e2 : rsum d (fun j => z c j * x j) = rsum d (fun j => x j * z c j) := rsum_congr (fun j _ => by ring)
  rw [e1, e2]
  ring

end SharkVerif.Trainers

namespace SharkVerif.Trainers

/-- summing the per-class parts over all classes gives the whole sum -/
theorem rsum_class_split (l : List (Vec × Nat)) (classes : Nat) (f : Vec × Nat → Rat)
    (hlab : ∀ p ∈ l, p.2 < classes) :
    rsum classes (fun c => lsum l (fun p => if p.2 = c then f p else 0)) = lsum l f := by
  rw [← lsum_rsum_comm]
  apply lsum_congr
  intro p hp
  have : ∀ c, (if p.2 = c then f p else 0) = (if p.2 = c then (fun _ => f p) c else 0) := fun c => rfl
  rw [rsum_congr (fun c _ => this c), rsum_ite_eq]
  simp [hlab p hp]

theorem class_part_eq (bs : CData) (c j : Nat) :
    classCount bs c * ldaMean bs c j = bsum bs (fun p => if p.2 = c then p.1.at j else 0) := by
  unfold ldaMean
  by_cases h0 : classCount bs c = 0
  · -- no example of class c: both sides are 0
    rw [h0, zero_mul]
    unfold classCount at h0
    rw [bsum_eq_flatten] at h0 ⊢
    have hz := lsum_eq_zero_of_nonneg (f := fun p : Vec × Nat => if p.2 = c then (1 : Rat) else 0)
      (fun p _ => by by_cases h : p.2 = c <;> simp [h]) h0
    symm
    rw [lsum_congr (g := fun _ => 0) (fun p hp => by
      have := hz p hp
      by_cases h : p.2 = c
      · simp [h] at this
      · simp [h])]
    exact lsum_zero _
  · field_simp

/-- `Σ_c n_c·m_c / n` is the mean of the inputs (every dataset, partition, class assignment) -/
theorem fisherMean_eq_mean (bs : CData) (classes : Nat) (j : Nat) (hlab : ∀ p ∈ bs.flatten, p.2 < classes) :
    fisherMean bs classes j = mean (bs.map fun b => b.map Prod.fst) j := by
  unfold fisherMean
  rw [rsum_div, rsum_congr (fun c _ => class_part_eq bs c j)]
  simp only [bsum_eq_flatten]
  rw [rsum_class_split bs.flatten classes (fun p => p.1.at j) hlab, mean_flat, flatten_map_map, lsum_map,
    List.length_map, count_eq_flatten]

end SharkVerif.Trainers

namespace SharkVerif.Trainers

/-- a sum of `f p * g (class of p)` grouped by class -/
theorem lsum_by_class (l : List (Vec × Nat)) (classes : Nat) (f : Vec × Nat → Rat) (g : Nat → Rat)
    (hlab : ∀ p ∈ l, p.2 < classes) :
    lsum l (fun p => f p * g p.2)
      = rsum classes (fun c => g c * lsum l (fun p => if p.2 = c then f p else 0)) := by
  rw [← rsum_class_split l classes (fun p => f p * g p.2) hlab]
  apply rsum_congr; intro c _
  rw [← lsum_mul_left]
  apply lsum_congr; intro p _
  by_cases h : p.2 = c
  · simp [h]; ring
  · simp [h]

/-- the second-moment formula of `LDA::train` is the pooled within-class scatter:
`Σ x xᵀ − Σ_c n_c m_c m_cᵀ = Σ_i (x_i − m_{c_i})(x_i − m_{c_i})ᵀ` -/
theorem scatter_identity (bs : CData) (classes : Nat) (i j : Nat) (hlab : ∀ p ∈ bs.flatten, p.2 < classes) :
    bsum bs (fun p => p.1.at i * p.1.at j) - rsum classes (fun c => classCount bs c * (ldaMean bs c i * ldaMean bs c j))
      = withinScatter bs i j := by
  unfold withinScatter
  have hcp : ∀ c k, classCount bs c * ldaMean bs c k = lsum bs.flatten (fun p => if p.2 = c then p.1.at k else 0) := by
    intro c k; rw [class_part_eq, bsum_eq_flatten]
  have hcc : ∀ c, classCount bs c = lsum bs.flatten (fun p => if p.2 = c then 1 else 0) := by
    intro c; unfold classCount; rw [bsum_eq_flatten]
  simp only [bsum_eq_flatten]
  have hexp : ∀ p : Vec × Nat, (p.1.at i - ldaMean bs p.2 i) * (p.1.at j - ldaMean bs p.2 j)
      = p.1.at i * p.1.at j - p.1.at i * ldaMean bs p.2 j - p.1.at j * ldaMean bs p.2 i
        + 1 * (ldaMean bs p.2 i * ldaMean bs p.2 j) := by intro p; ring
  rw [lsum_congr (fun p _ => hexp p), lsum_add, lsum_sub, lsum_sub,
    lsum_by_class bs.flatten classes (fun p => p.1.at i) (fun c => ldaMean bs c j) hlab,
    lsum_by_class bs.flatten classes (fun p => p.1.at j) (fun c => ldaMean bs c i) hlab,
    lsum_by_class bs.flatten classes (fun _ => 1) (fun c => ldaMean bs c i * ldaMean bs c j) hlab]
  have e1 : rsum classes (fun c => ldaMean bs c j * lsum bs.flatten (fun p => if p.2 = c then p.1.at i else 0))
      = rsum classes (fun c => classCount bs c * (ldaMean bs c i * ldaMean bs c j)) :=
    rsum_congr (fun c _ => by rw [← hcp c i]; ring)
  have e2 : rsum classes (fun c => ldaMean bs c i * lsum bs.flatten (fun p => if p.2 = c then p.1.at j else 0))
      = rsum classes (fun c => classCount bs c * (ldaMean bs c i * ldaMean bs c j)) :=
    rsum_congr (fun c _ => by rw [← hcp c j]; ring)
  have e3 : rsum classes (fun c => ldaMean bs c i * ldaMean bs c j * lsum bs.flatten (fun p => if p.2 = c then (1 : Rat) else 0))
      = rsum classes (fun c => classCount bs c * (ldaMean bs c i * ldaMean bs c j)) :=
    rsum_congr (fun c _ => by rw [← hcc c]; ring)
  rw [e1, e2, e3]
  ring

end SharkVerif.Trainers

namespace SharkVerif.Trainers

/-! ### weighted LDA -/

theorem rsum_class_split' {α : Type} (l : List α) (cls : α → Nat) (classes : Nat) (f : α → Rat)
    (hlab : ∀ p ∈ l, cls p < classes) :
    rsum classes (fun c => lsum l (fun p => if cls p = c then f p else 0)) = lsum l f := by
  rw [← lsum_rsum_comm]
  apply lsum_congr
  intro p hp
  have : ∀ c, (if cls p = c then f p else 0) = (if cls p = c then (fun _ => f p) c else 0) := fun c => rfl
  rw [rsum_congr (fun c _ => this c), rsum_ite_eq]
  simp [hlab p hp]

theorem lsum_by_class' {α : Type} (l : List α) (cls : α → Nat) (classes : Nat) (f : α → Rat) (g : Nat → Rat)
    (hlab : ∀ p ∈ l, cls p < classes) :
    lsum l (fun p => f p * g (cls p))
      = rsum classes (fun c => g c * lsum l (fun p => if cls p = c then f p else 0)) := by
  rw [← rsum_class_split' l cls classes (fun p => f p * g (cls p)) hlab]
  apply rsum_congr; intro c _
  rw [← lsum_mul_left]
  apply lsum_congr; intro p _
  by_cases h : cls p = c
  · simp [h]; ring
  · simp [h]

/-- weighted within-class scatter `Σ_i w_i (x_i − m_{c_i})(x_i − m_{c_i})ᵀ` -/
def wWithinScatter (bs : WCData) (i j : Nat) : Rat :=
  bsum bs fun p => p.2.2 * ((p.1.at i - wldaMean bs p.2.1 i) * (p.1.at j - wldaMean bs p.2.1 j))

theorem wclass_part_eq (bs : WCData) (c k : Nat) (hw : ∀ p ∈ bs.flatten, 0 < p.2.2) :
    classWeight bs c * wldaMean bs c k = bsum bs (fun p => if p.2.1 = c then p.2.2 * p.1.at k else 0) := by
  unfold wldaMean
  by_cases h0 : classWeight bs c = 0
  · rw [h0, zero_mul]
    unfold classWeight at h0
    rw [bsum_eq_flatten] at h0 ⊢
    have hz := lsum_eq_zero_of_nonneg (f := fun p : Vec × Nat × Rat => if p.2.1 = c then p.2.2 else 0)
      (fun p hp => by by_cases h : p.2.1 = c <;> simp [h, (hw p hp).le]) h0
    symm
    rw [lsum_congr (g := fun _ => 0) (fun p hp => by
      have := hz p hp
      by_cases h : p.2.1 = c
      · simp [h] at this; exact absurd this (hw p hp).ne'
      · simp [h])]
    exact lsum_zero _
  · field_simp

theorem wscatter_identity (bs : WCData) (classes : Nat) (i j : Nat)
    (hlab : ∀ p ∈ bs.flatten, p.2.1 < classes) (hw : ∀ p ∈ bs.flatten, 0 < p.2.2) :
    bsum bs (fun p => p.2.2 * (p.1.at i * p.1.at j))
        - rsum classes (fun c => classWeight bs c * (wldaMean bs c i * wldaMean bs c j))
      = wWithinScatter bs i j := by
  unfold wWithinScatter
  have hcp : ∀ c k, classWeight bs c * wldaMean bs c k
      = lsum bs.flatten (fun p => if p.2.1 = c then p.2.2 * p.1.at k else 0) := by
    intro c k; rw [wclass_part_eq bs c k hw, bsum_eq_flatten]
  have hcc : ∀ c, classWeight bs c = lsum bs.flatten (fun p => if p.2.1 = c then p.2.2 else 0) := by
    intro c; unfold classWeight; rw [bsum_eq_flatten]
  simp only [bsum_eq_flatten]
  have hexp : ∀ p : Vec × Nat × Rat,
      p.2.2 * ((p.1.at i - wldaMean bs p.2.1 i) * (p.1.at j - wldaMean bs p.2.1 j))
      = p.2.2 * (p.1.at i * p.1.at j) - p.2.2 * p.1.at i * wldaMean bs p.2.1 j
        - p.2.2 * p.1.at j * wldaMean bs p.2.1 i
        + p.2.2 * (wldaMean bs p.2.1 i * wldaMean bs p.2.1 j) := by intro p; ring
  rw [lsum_congr (fun p _ => hexp p), lsum_add, lsum_sub, lsum_sub,
    lsum_by_class' bs.flatten (fun p => p.2.1) classes (fun p => p.2.2 * p.1.at i) (fun c => wldaMean bs c j) hlab,
    lsum_by_class' bs.flatten (fun p => p.2.1) classes (fun p => p.2.2 * p.1.at j) (fun c => wldaMean bs c i) hlab,
    lsum_by_class' bs.flatten (fun p => p.2.1) classes (fun p => p.2.2)
      (fun c => wldaMean bs c i * wldaMean bs c j) hlab]
  have e1 : rsum classes (fun c => wldaMean bs c j * lsum bs.flatten (fun p => if p.2.1 = c then p.2.2 * p.1.at i else 0))
      = rsum classes (fun c => classWeight bs c * (wldaMean bs c i * wldaMean bs c j)) :=
    rsum_congr (fun c _ => by rw [← hcp c i]; ring)
  have e2 : rsum classes (fun c => wldaMean bs c i * lsum bs.flatten (fun p => if p.2.1 = c then p.2.2 * p.1.at j else 0))
      = rsum classes (fun c => classWeight bs c * (wldaMean bs c i * wldaMean bs c j)) :=
    rsum_congr (fun c _ => by rw [← hcp c j]; ring)
  have e3 : rsum classes (fun c => wldaMean bs c i * wldaMean bs c j * lsum bs.flatten (fun p => if p.2.1 = c then p.2.2 else 0))
      = rsum classes (fun c => classWeight bs c * (wldaMean bs c i * wldaMean bs c j)) :=
    rsum_congr (fun c _ => by rw [← hcc c]; ring)
  rw [e1, e2, e3]
  ring

end SharkVerif.Trainers
