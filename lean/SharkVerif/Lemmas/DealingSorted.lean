import SharkVerif.Lemmas.SortedRuns
import SharkVerif.Lemmas.Dealing
namespace SharkVerif.Dataset

/-- in a sorted list the positions of a value form a contiguous window -/
theorem sorted_idxs_window (ls : List Nat) (hs : ls.Pairwise (· ≤ ·)) (c : Nat) :
    ∃ a m, idxs c ls 0 = (List.range m).map (· + a) := by
  by_cases hL : ls.dropWhile (· != c) = []
  · -- c does not occur
    refine ⟨0, 0, ?_⟩
    have hall : ∀ x ∈ ls, x ≠ c := by
      intro x hx
      have e := List.takeWhile_append_dropWhile (p := (· != c)) (l := ls)
      rw [hL, List.append_nil] at e
      rw [← e] at hx
      have := mem_takeWhile_imp' _ _ _ hx
      simpa using this
    simp [idxs_none c ls hall]
  · obtain ⟨y, r, hy⟩ : ∃ y r, ls.dropWhile (· != c) = y :: r := by
      cases h : ls.dropWhile (· != c) with
      | nil => exact absurd h hL
      | cons y r => exact ⟨y, r, rfl⟩
    have hyc : y = c := by
      have := dropWhile_head_not (· != c) ls y r hy
      simpa using this
    subst hyc
    have hsL : (ls.dropWhile (· != y)).Pairwise (· ≤ ·) := hs.sublist (List.dropWhile_sublist _)
    have e1 : ls = ls.takeWhile (· != y) ++ ls.dropWhile (· != y) := List.takeWhile_append_dropWhile.symm
    have e2 : ls.dropWhile (· != y) = (ls.dropWhile (· != y)).takeWhile (· == y) ++ (ls.dropWhile (· != y)).dropWhile (· == y) :=
      List.takeWhile_append_dropWhile.symm
    have fA : ∀ x ∈ ls.takeWhile (· != y), x ≠ y := by
      intro x hx; have := mem_takeWhile_imp' _ _ _ hx; simpa using this
    have fR : ∀ x ∈ (ls.dropWhile (· != y)).takeWhile (· == y), x = y := by
      intro x hx; have := mem_takeWhile_imp' _ _ _ hx; simpa using this
    have fB : ∀ x ∈ (ls.dropWhile (· != y)).dropWhile (· == y), x ≠ y := by
      intro x hx
      have := sorted_after_run y _ hsL r hy x hx
      omega
    refine ⟨(ls.takeWhile (· != y)).length, ((ls.dropWhile (· != y)).takeWhile (· == y)).length, ?_⟩
    conv => lhs; rw [e1, e2]
    rw [idxs_append, idxs_append, idxs_none y _ fA, idxs_all y _ fR, idxs_none y _ fB]
    simp

/-- **class balance of round-robin dealing over a class-sorted dealing order**: if the labels along the dealing
order are sorted (class by class) and dealing position j goes to fold j mod k, any two folds receive numbers of
members of any class that differ by at most one -/
theorem dealing_balance_sorted (ls : List Nat) (hs : ls.Pairwise (· ≤ ·)) (k : Nat) (hk : 0 < k) (c p q : Nat)
    (hp : p < k) (hq : q < k) :
    ((idxs c ls 0).filter (fun j => j % k = p)).length ≤ ((idxs c ls 0).filter (fun j => j % k = q)).length + 1 := by
  obtain ⟨a, m, hw⟩ := sorted_idxs_window ls hs c
  rw [hw]
  simp only [List.filter_map, List.length_map]
  have := Dealing.window_balance k a m p q hk hp hq
  have e : ∀ x, ((List.range m).filter ((fun j => decide (j % k = x)) ∘ fun i => i + a)) =
      (List.range m).filter (fun j => (a + j) % k = x) := by
    intro x
    apply List.filter_congr
    intro i _
    simp [Nat.add_comm]
  rw [e p, e q]
  exact this

end SharkVerif.Dataset
