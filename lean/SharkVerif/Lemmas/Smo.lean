/-
Helper lemmas for C08/C07: finite sums over `Nat`-indexed vectors, the state
invariant of the SMO model (`Model/Smo.lean`, `Rat` instance) and its
preservation by the single operations.
-/
import SharkVerif.Model.Smo
import Mathlib.Tactic.Linarith
import Mathlib.Tactic.Ring
import Mathlib.Tactic.NormNum.OfScientific
namespace SharkVerif.Smo
open SharkVerif.Qp

/-! ### literals of the `Rat` instance -/
theorem lit0 : (0.0 : Rat) = 0 := by norm_num
theorem lit05 : (0.5 : Rat) = 1 / 2 := by norm_num
theorem lit2 : (2.0 : Rat) = 2 := by norm_num
theorem lit10 : (10.0 : Rat) = 10 := by norm_num
theorem litE : (1.0e-12 : Rat) = 1 / 1000000000000 := by norm_num

/-! ### sums -/

/-- `Σ_{k<n} f k` (the model's own left-to-right sum, started at 0) -/
def rsum (f : Nat → Rat) (n : Nat) : Rat := State.sumTo 0 f n

@[simp] theorem rsum_zero (f : Nat → Rat) : rsum f 0 = 0 := rfl
@[simp] theorem rsum_succ (f : Nat → Rat) (n : Nat) : rsum f (n + 1) = rsum f n + f n := rfl

theorem rsum_congr {f g : Nat → Rat} {n : Nat} (h : ∀ k, k < n → f k = g k) : rsum f n = rsum g n := by
  induction n with
  | zero => rfl
  | succ n ih =>
    rw [rsum_succ, rsum_succ, ih (fun k hk => h k (Nat.lt_succ_of_lt hk)), h n (Nat.lt_succ_self n)]

theorem rsum_add (f g : Nat → Rat) (n : Nat) : rsum (fun k => f k + g k) n = rsum f n + rsum g n := by
  induction n with
  | zero => simp
  | succ n ih => simp only [rsum_succ, ih]; ring

theorem rsum_sub (f g : Nat → Rat) (n : Nat) : rsum (fun k => f k - g k) n = rsum f n - rsum g n := by
  induction n with
  | zero => simp
  | succ n ih => simp only [rsum_succ, ih]; ring

theorem rsum_mul_left (c : Rat) (f : Nat → Rat) (n : Nat) : rsum (fun k => c * f k) n = c * rsum f n := by
  induction n with
  | zero => simp
  | succ n ih => simp only [rsum_succ, ih]; ring

theorem rsum_const_zero (n : Nat) : rsum (fun _ => 0) n = 0 := by
  induction n with
  | zero => rfl
  | succ n ih => simp [ih]

theorem rsum_nonneg {f : Nat → Rat} {n : Nat} (h : ∀ k, k < n → 0 ≤ f k) : 0 ≤ rsum f n := by
  induction n with
  | zero => simp
  | succ n ih =>
    rw [rsum_succ]
    have := ih (fun k hk => h k (Nat.lt_succ_of_lt hk))
    have := h n (Nat.lt_succ_self n)
    linarith

theorem rsum_le {f g : Nat → Rat} {n : Nat} (h : ∀ k, k < n → f k ≤ g k) : rsum f n ≤ rsum g n := by
  have := rsum_nonneg (f := fun k => g k - f k) (n := n) (fun k hk => by have := h k hk; linarith)
  rw [rsum_sub] at this; linarith

/-- changing one entry changes the sum by the difference -/
theorem rsum_upd (f : Nat → Rat) (i : Nat) (v : Rat) {n : Nat} (hi : i < n) :
    rsum (upd f i v) n = rsum f n + (v - f i) := by
  induction n with
  | zero => omega
  | succ n ih =>
    rw [rsum_succ, rsum_succ]
    by_cases h : i = n
    · subst h
      have : rsum (upd f i v) i = rsum f i := rsum_congr (fun k hk => by simp [upd, Nat.ne_of_lt hk])
      rw [this]; simp [upd]
    · have hin : i < n := by omega
      rw [ih hin]
      have : upd f i v n = f n := by simp [upd]; intro h'; omega
      rw [this]; ring

theorem rsum_upd_notin (f : Nat → Rat) (i : Nat) (v : Rat) {n : Nat} (hi : n ≤ i) :
    rsum (upd f i v) n = rsum f n :=
  rsum_congr (fun k hk => by have : k ≠ i := by omega
                             simp [upd, this])

/-- a sum is invariant under exchanging two positions -/
theorem rsum_swap (F : Nat → Rat) {i j n : Nat} (hi : i < n) (hj : j < n) :
    rsum (fun b => F (swapIdx i j b)) n = rsum F n := by
  by_cases hij : i = j
  · subst hij
    exact rsum_congr (fun k _ => by simp only [swapIdx]; split <;> simp_all)
  · have e : (fun b => F (swapIdx i j b)) = upd (upd F i (F j)) j (F i) := by
      funext b; simp only [swapIdx, upd]
      by_cases h1 : b = j
      · subst h1; simp [Ne.symm hij]
      · by_cases h2 : b = i
        · subst h2; simp [hij]
        · simp [h1, h2]
    rw [e, rsum_upd _ _ _ hj, rsum_upd _ _ _ hi]
    have : upd F i (F j) j = F j := by
      have hji : j ≠ i := Ne.symm hij
      simp [upd, hji]
    rw [this]; ring

/-- entries beyond `m` that vanish do not contribute -/
theorem rsum_extend {f : Nat → Rat} {m n : Nat} (hmn : m ≤ n) (h : ∀ k, m ≤ k → k < n → f k = 0) :
    rsum f n = rsum f m := by
  induction n with
  | zero => have : m = 0 := by omega
            subst this; rfl
  | succ n ih =>
    by_cases hm : m = n + 1
    · subst hm; rfl
    · have hmn' : m ≤ n := by omega
      rw [rsum_succ, ih hmn' (fun k h1 h2 => h k h1 (Nat.lt_succ_of_lt h2)), h n hmn' (Nat.lt_succ_self n)]
      ring

theorem swapIdx_lt {i j k n : Nat} (hi : i < n) (hj : j < n) (hk : k < n) : swapIdx i j k < n := by
  simp only [swapIdx]; split
  · exact hj
  · split
    · exact hi
    · exact hk

theorem swapIdx_invol (i j k : Nat) : swapIdx i j (swapIdx i j k) = k := by
  simp only [swapIdx]
  by_cases h1 : k = i
  · subst h1; by_cases h2 : j = k <;> simp [h2]
  · by_cases h2 : k = j
    · subst h2; simp [h1]
    · simp [h1, h2]

/-! ### the invariant -/

abbrev RS := State Rat

/-- the sum `Σ_b K(π a, π b)·α_b` that the gradient of variable `a` must account for -/
def Kalpha (s : RS) (a : Nat) : Rat := rsum (fun b => s.K (s.perm a) (s.perm b) * s.alpha b) s.n

/-- the same sum restricted to variables at a bound (what `m_gradientEdge` accounts for) -/
def KalphaEdge (s : RS) (a : Nat) : Rat :=
  rsum (fun b => if s.alpha b = s.L b ∨ s.alpha b = s.U b then s.K (s.perm a) (s.perm b) * s.alpha b else 0) s.n

/-- The C08 state invariant (all clauses of the property except objective monotonicity). -/
structure Inv (s : RS) : Prop where
  sym      : ∀ x y, s.K x y = s.K y x
  act_le   : s.active ≤ s.n
  noshrink : s.shrinkOn = false → s.active = s.n
  perm_lt  : ∀ k, k < s.n → s.perm k < s.n
  perm_inj : ∀ a b, a < s.n → b < s.n → s.perm a = s.perm b → a = b
  diag     : ∀ k, k < s.n → s.diag k = s.K (s.perm k) (s.perm k)
  box      : ∀ k, k < s.n → s.L k ≤ s.alpha k ∧ s.alpha k ≤ s.U k
  flo      : ∀ k, k < s.n → (s.lo k = true ↔ s.alpha k = s.L k)
  fup      : ∀ k, k < s.n → (s.up k = true ↔ s.alpha k = s.U k)
  grad     : ∀ a, a < s.active → s.g a = s.lin a - Kalpha s a
  edge     : s.shrinkOn = true → ∀ a, a < s.n → s.gEdge a = s.lin a - KalphaEdge s a
  shrunk   : ∀ k, s.active ≤ k → k < s.n → (s.alpha k = s.L k ∨ s.alpha k = s.U k)

/-- status-aware box accessors coincide with the raw box under the invariant -/
theorem boxMin_eq {s : RS} (h : Inv s) {k : Nat} (hk : k < s.n) : s.boxMin k = s.L k := by
  unfold State.boxMin; split
  · rename_i hb
    simp only [Bool.and_eq_true] at hb
    exact (h.flo k hk).1 hb.1
  · rfl

theorem boxMax_eq {s : RS} (h : Inv s) {k : Nat} (hk : k < s.n) : s.boxMax k = s.U k := by
  unfold State.boxMax; split
  · rename_i hb
    simp only [Bool.and_eq_true] at hb
    exact (h.fup k hk).1 hb.2
  · rfl

/-! ### coordinate flips -/

theorem inv_flip {s : RS} (h : Inv s) {i j : Nat} (hi : i < s.n) (hj : j < s.n)
    (hact : i < s.active ↔ j < s.active) : Inv (s.flip i j) := by
  have hσlt : ∀ k, k < s.n → swapIdx i j k < s.n := fun k hk => swapIdx_lt hi hj hk
  have hσact : ∀ k, k < s.active ↔ swapIdx i j k < s.active := by
    intro k; simp only [swapIdx]; split
    · rename_i e; subst e; exact hact
    · split
      · rename_i e; subst e; exact hact.symm
      · rfl
  have hKa : ∀ a, Kalpha (s.flip i j) a = Kalpha s (swapIdx i j a) := by
    intro a
    simp only [Kalpha, State.flip]
    exact rsum_swap (fun b => s.K (s.perm (swapIdx i j a)) (s.perm b) * s.alpha b) hi hj
  have hKe : ∀ a, KalphaEdge (s.flip i j) a = KalphaEdge s (swapIdx i j a) := by
    intro a
    simp only [KalphaEdge, State.flip]
    exact rsum_swap (fun b => if s.alpha b = s.L b ∨ s.alpha b = s.U b
      then s.K (s.perm (swapIdx i j a)) (s.perm b) * s.alpha b else 0) hi hj
  refine { sym := h.sym, act_le := h.act_le, noshrink := h.noshrink, perm_lt := ?_, perm_inj := ?_, diag := ?_,
           box := ?_, flo := ?_, fup := ?_, grad := ?_, edge := ?_, shrunk := ?_ }
  · intro k hk; exact h.perm_lt _ (hσlt k hk)
  · intro a b ha hb e
    have := h.perm_inj _ _ (hσlt a ha) (hσlt b hb) e
    have := congrArg (swapIdx i j) this
    simpa [swapIdx_invol] using this
  · intro k hk; exact h.diag _ (hσlt k hk)
  · intro k hk; exact h.box _ (hσlt k hk)
  · intro k hk; exact h.flo _ (hσlt k hk)
  · intro k hk; exact h.fup _ (hσlt k hk)
  · intro a ha
    rw [hKa a]
    exact h.grad _ ((hσact a).1 ha)
  · intro hs a ha
    rw [hKe a]
    exact h.edge hs _ (hσlt a ha)
  · intro k hk1 hk2
    have : s.active ≤ swapIdx i j k := by
      by_contra hc
      have := (hσact k).2 (by omega)
      have hk1' : (s.flip i j).active ≤ k := hk1
      simp only [State.flip] at hk1'
      omega
    exact h.shrunk _ this (hσlt k hk2)

/-! ### unshrink -/

theorem foldl_free (up lo : Nat → Bool) (t : Nat → Rat) (init : Rat) (m : Nat) :
    (List.range m).foldl (fun (acc : Rat) i => if up i || lo i then acc else acc - t i) init
      = init - rsum (fun i => if up i || lo i then 0 else t i) m := by
  induction m with
  | zero => simp
  | succ m ih =>
    rw [List.range_succ, List.foldl_append, ih, rsum_succ]
    simp only [List.foldl_cons, List.foldl_nil]
    split <;> ring

theorem inv_unshrink {s : RS} (h : Inv s) : Inv s.unshrink := by
  unfold State.unshrink
  split
  · exact h
  · rename_i hne
    have hsh : s.shrinkOn = true := by
      cases hs : s.shrinkOn
      · exact absurd (h.noshrink hs) hne
      · rfl
    refine { sym := h.sym, act_le := Nat.le_refl _, noshrink := fun _ => rfl, perm_lt := h.perm_lt,
             perm_inj := h.perm_inj, diag := h.diag, box := h.box, flo := h.flo, fup := h.fup,
             grad := ?_, edge := ?_, shrunk := ?_ }
    · intro a ha
      have ha' : a < s.n := ha
      change (if s.active ≤ a ∧ a < s.n then _ else s.g a) = s.lin a - Kalpha s a
      by_cases hsa : s.active ≤ a
      · rw [if_pos ⟨hsa, ha'⟩, foldl_free, h.edge hsh a ha']
        -- split the full sum into the part at a bound and the free part (free variables are all active)
        have key : Kalpha s a = KalphaEdge s a +
            rsum (fun i => if s.up i || s.lo i then 0 else s.alpha i * s.q i a) s.active := by
          have e1 : rsum (fun i => if s.up i || s.lo i then 0 else s.alpha i * s.q i a) s.active
              = rsum (fun b => if s.alpha b = s.L b ∨ s.alpha b = s.U b then 0
                  else s.K (s.perm a) (s.perm b) * s.alpha b) s.n := by
            rw [rsum_extend h.act_le (f := fun b => if s.alpha b = s.L b ∨ s.alpha b = s.U b then 0
                  else s.K (s.perm a) (s.perm b) * s.alpha b)
                (fun k hk1 hk2 => by simp [h.shrunk k hk1 hk2])]
            apply rsum_congr
            intro k hk
            have hkn : k < s.n := Nat.lt_of_lt_of_le hk h.act_le
            have hl := h.flo k hkn
            have hu := h.fup k hkn
            by_cases hb : s.alpha k = s.L k ∨ s.alpha k = s.U k
            · have : (s.up k || s.lo k) = true := by
                rcases hb with hb | hb
                · simp [hl.2 hb]
                · simp [hu.2 hb]
              simp [this, hb]
            · have : (s.up k || s.lo k) = false := by
                rw [Bool.or_eq_false_iff]
                constructor
                · cases hx : s.up k
                  · rfl
                  · exact absurd (Or.inr (hu.1 hx)) hb
                · cases hx : s.lo k
                  · rfl
                  · exact absurd (Or.inl (hl.1 hx)) hb
              simp only [this, hb, if_false, Bool.false_eq_true]
              simp only [State.q]; rw [h.sym]; ring
          rw [e1, KalphaEdge, ← rsum_add]
          apply rsum_congr; intro k _
          split <;> ring
        rw [key]; ring
      · rw [if_neg (by omega)]
        exact h.grad a (by omega)
    · intro hs a ha
      exact h.edge hsh a ha
    · intro k hk1 hk2
      exact absurd hk2 (Nat.not_lt.mpr hk1)

/-! ### shrink -/

theorem inv_dec_active {t : RS} (h : Inv t) (hpos : 0 < t.active) (hs : t.shrinkOn = true)
    (hb : t.alpha (t.active - 1) = t.L (t.active - 1) ∨ t.alpha (t.active - 1) = t.U (t.active - 1)) :
    Inv { t with active := t.active - 1 } := by
  have hle := h.act_le
  refine { sym := h.sym, act_le := ?_, noshrink := ?_, perm_lt := h.perm_lt, perm_inj := h.perm_inj,
           diag := h.diag, box := h.box, flo := h.flo, fup := h.fup, grad := ?_, edge := h.edge, shrunk := ?_ }
  · show t.active - 1 ≤ t.n; omega
  · intro hf; rw [hs] at hf; exact absurd hf (by simp)
  · intro a ha
    have ha' : a < t.active - 1 := ha
    exact h.grad a (by omega)
  · intro k hk1 hk2
    have hk1' : t.active - 1 ≤ k := hk1
    by_cases hk : k = t.active - 1
    · subst hk; exact hb
    · exact h.shrunk k (by omega) hk2

theorem testShrink_bound {s : RS} {a : Nat} {lu sd : Rat} (h : s.testShrink a lu sd = true) :
    s.lo a = true ∨ s.up a = true := by
  unfold State.testShrink at h
  simp only [Bool.or_eq_true, Bool.and_eq_true] at h
  rcases h with h | h
  · exact Or.inl h.1
  · exact Or.inr h.1

theorem shrinkGo_succ (lu sd : Rat) (a : Nat) (s : RS) :
    State.shrinkGo lu sd (a + 1) s = State.shrinkGo lu sd a
      (if s.testShrink a lu sd = true then { s.flip a (s.active - 1) with active := s.active - 1 } else s) := rfl

theorem inv_shrinkGo (lu sd : Rat) : ∀ (a : Nat) (s : RS), Inv s → s.shrinkOn = true → a ≤ s.active →
    Inv (State.shrinkGo lu sd a s) ∧ (State.shrinkGo lu sd a s).shrinkOn = true := by
  intro a
  induction a with
  | zero => intro s h hs _; exact ⟨h, hs⟩
  | succ a ih =>
    intro s h hs ha
    rw [shrinkGo_succ]
    by_cases ht : s.testShrink a lu sd = true
    · rw [if_pos ht]
      have han : a < s.n := by have := h.act_le; omega
      have hln : s.active - 1 < s.n := by have := h.act_le; omega
      have hf : Inv (s.flip a (s.active - 1)) := inv_flip h han hln (by constructor <;> intro <;> omega)
      have hb : (s.flip a (s.active - 1)).alpha (s.active - 1) = (s.flip a (s.active - 1)).L (s.active - 1) ∨
          (s.flip a (s.active - 1)).alpha (s.active - 1) = (s.flip a (s.active - 1)).U (s.active - 1) := by
        have hσ : swapIdx a (s.active - 1) (s.active - 1) = a := by
          simp only [swapIdx]; split
          · rename_i e; exact e
          · simp
        simp only [State.flip, hσ]
        rcases testShrink_bound ht with hl | hu
        · exact Or.inl ((h.flo a han).1 hl)
        · exact Or.inr ((h.fup a han).1 hu)
      have hd := inv_dec_active (t := s.flip a (s.active - 1)) hf (by show 0 < s.active; omega) hs hb
      exact ih _ hd hs (by show a ≤ s.active - 1; omega)
    · rw [if_neg ht]
      exact ih _ h hs (by omega)

theorem inv_shrink {s : RS} (h : Inv s) (eps : Rat) : Inv (s.shrink eps).1 := by
  unfold State.shrink
  split
  · exact h
  · rename_i hsh
    have hs : s.shrinkOn = true := by
      cases hx : s.shrinkOn
      · simp [hx] at hsh
      · rfl
    simp only []
    split
    · have hu := inv_unshrink h
      have hs' : s.unshrink.shrinkOn = true := by unfold State.unshrink; split <;> exact hs
      exact (inv_shrinkGo _ _ _ _ hu hs' (Nat.le_refl _)).1
    · exact (inv_shrinkGo _ _ _ _ h hs (Nat.le_refl _)).1

end SharkVerif.Smo
