/-
C06 (deep): `ErrorFunction::evalDerivative` returns (mean loss, gradient of the mean loss w.r.t. the
model parameters), independent of batching, thread count and merge order — over `ℝ`, for the
executable model of the evaluation loops in `Model/ErrFn.lean` with the thread ranges regenerated
from the C++ (`Gen/ParRegions.lean`).
-/
import Mathlib.Analysis.Calculus.Deriv.Add
import Mathlib.Analysis.Calculus.Deriv.Mul
import Mathlib.Algebra.BigOperators.Intervals
import Mathlib.Algebra.Order.BigOperators.Group.Finset
import SharkVerif.Lemmas.LossContract
import SharkVerif.Lemmas.ChainDeriv
namespace SharkVerif.ErrFn
open Finset SharkVerif.Loss SharkVerif.Models

/-! ### 0. list / fold helpers -/

theorem list_range_map_sum {M : Type} [AddCommMonoid M] (n : ℕ) (g : ℕ → M) :
    ((List.range n).map g).sum = ∑ i ∈ range n, g i := by
  induction n with
  | zero => simp
  | succ n ih => rw [List.range_succ, List.map_append, List.sum_append, ih, Finset.sum_range_succ]; simp

theorem foldl_add_eq_sum {β : Type} (g : β → ℝ) (l : List β) (a : ℝ) :
    l.foldl (fun s x => s + g x) a = a + (l.map g).sum := by
  induction l generalizing a with
  | nil => simp
  | cons x xs ih => simp only [List.foldl_cons, ih, List.map_cons, List.sum_cons]; ring

theorem vadd_length (a b : List ℝ) (h : b.length = a.length) : (vadd a b).length = a.length := by
  simp [vadd, h]

theorem getD_vadd : ∀ (a b : List ℝ) (_ : b.length = a.length) (idx : ℕ),
    (vadd a b).getD idx 0 = a.getD idx 0 + b.getD idx 0
  | [], [], _, idx => by simp [vadd]
  | [], _ :: _, h, _ => by simp at h
  | _ :: _, [], h, _ => by simp at h
  | x :: a, y :: b, h, 0 => by simp [vadd]
  | x :: a, y :: b, h, idx + 1 => by
    have := getD_vadd a b (by simpa using h) idx
    simpa [vadd] using this

theorem getD_map_div (l : List ℝ) (c : ℝ) (idx : ℕ) : (l.map (· / c)).getD idx 0 = l.getD idx 0 / c := by
  simp only [List.getD_eq_getElem?_getD, List.getElem?_map]
  cases l[idx]? <;> simp

theorem getD_map_mul (l : List ℝ) (c : ℝ) (idx : ℕ) : (l.map (c * ·)).getD idx 0 = c * l.getD idx 0 := by
  simp only [List.getD_eq_getElem?_getD, List.getElem?_map]
  cases l[idx]? <;> simp

theorem foldl_fst_gen {β γ : Type} (a : β → ℝ) (h : γ → β → γ) (l : List β) (acc : ℝ × γ) :
    (l.foldl (fun (acc : ℝ × γ) x => (acc.1 + a x, h acc.2 x)) acc).1 = acc.1 + (l.map a).sum := by
  induction l generalizing acc with
  | nil => simp
  | cons x xs ih => simp only [List.foldl_cons, ih, List.map_cons, List.sum_cons]; ring

theorem getD_zeros (n idx : ℕ) : (zeros n : List ℝ).getD idx 0 = 0 := by
  simp only [zeros, List.getD_eq_getElem?_getD, List.getElem?_replicate]
  split <;> simp

theorem zeros_length (n : ℕ) : (zeros n : List ℝ).length = n := by simp [zeros]

section PairFold
variable {β : Type} (a : β → ℝ) (v : β → List ℝ)

/-- the shape of all accumulation loops: `(value += a x, vector += v x)` -/
noncomputable def pairStep (acc : ℝ × List ℝ) (x : β) : ℝ × List ℝ := (acc.1 + a x, vadd acc.2 (v x))

theorem foldl_pair_fst (l : List β) (acc : ℝ × List ℝ) :
    (l.foldl (pairStep a v) acc).1 = acc.1 + (l.map a).sum := by
  induction l generalizing acc with
  | nil => simp
  | cons x xs ih => simp only [List.foldl_cons, ih, List.map_cons, List.sum_cons, pairStep]; ring

theorem foldl_pair_snd_length (l : List β) (acc : ℝ × List ℝ)
    (hlen : ∀ x ∈ l, (v x).length = acc.2.length) :
    (l.foldl (pairStep a v) acc).2.length = acc.2.length := by
  induction l generalizing acc with
  | nil => simp
  | cons x xs ih =>
    have hx := hlen x (by simp)
    have hstep : (pairStep a v acc x).2.length = acc.2.length := vadd_length _ _ hx
    simp only [List.foldl_cons]
    rw [ih _ (fun y hy => by rw [hstep]; exact hlen y (by simp [hy])), hstep]

theorem foldl_pair_snd_getD (l : List β) (acc : ℝ × List ℝ)
    (hlen : ∀ x ∈ l, (v x).length = acc.2.length) (idx : ℕ) :
    (l.foldl (pairStep a v) acc).2.getD idx 0 = acc.2.getD idx 0 + (l.map fun x => (v x).getD idx 0).sum := by
  induction l generalizing acc with
  | nil => simp
  | cons x xs ih =>
    have hx := hlen x (by simp)
    have hstep : (pairStep a v acc x).2.length = acc.2.length := vadd_length _ _ hx
    simp only [List.foldl_cons]
    rw [ih _ (fun y hy => by rw [hstep]; exact hlen y (by simp [hy]))]
    simp only [pairStep, List.map_cons, List.sum_cons]
    rw [getD_vadd _ _ hx]; ring
end PairFold

/-! ### 0b. telescoping of consecutive ranges (generic in the tiling obligations) -/

theorem tile_start_le (start stop : ℕ → ℕ) (hnext : ∀ t, stop t = start (t + 1))
    (hle : ∀ t, start t ≤ stop t) {s t : ℕ} (h : s ≤ t) : start s ≤ start t :=
  monotone_nat_of_le_succ (fun n => by rw [← hnext n]; exact hle n) h

theorem tile_sum (start stop : ℕ → ℕ) (B T : ℕ) (hT : 1 ≤ T) (h0 : start 0 = 0)
    (hlast : stop (T - 1) = B) (hnext : ∀ t, stop t = start (t + 1)) (hle : ∀ t, start t ≤ stop t)
    (bl : ℕ → ℝ) :
    ∑ t ∈ range T, ∑ b ∈ Ico (start t) (stop t), bl b = ∑ b ∈ range B, bl b := by
  have key : ∀ n, ∑ t ∈ range n, ∑ b ∈ Ico (start t) (stop t), bl b = ∑ b ∈ Ico 0 (start n), bl b := by
    intro n
    induction n with
    | zero => simp [h0]
    | succ n ih =>
      rw [Finset.sum_range_succ, ih, hnext n]
      have := hle n; rw [hnext n] at this
      exact Finset.sum_Ico_consecutive bl (Nat.zero_le _) this
  have hT' : start T = B := by
    have := hnext (T - 1)
    rw [show T - 1 + 1 = T by omega] at this
    rw [← this, hlast]
  rw [key T, hT', Finset.range_eq_Ico]

theorem sum_range_sub (bl : ℕ → ℝ) (s e : ℕ) :
    ((List.range (e - s)).map fun d => bl (s + d)).sum = ∑ b ∈ Ico s e, bl b := by
  rw [list_range_map_sum, Finset.sum_Ico_eq_sum_range]

/-- a sum over the thread order = the sum over the thread indices -/
theorem order_sum (order : List ℕ) (T : ℕ) (hperm : order.Perm (List.range T)) (h : ℕ → ℝ) :
    (order.map h).sum = ∑ t ∈ range T, h t := by
  rw [(hperm.map h).sum_eq, list_range_map_sum]

/-! ### 1. chain rule for one batch: loss ∘ model -/

/-- **chain rule for one batch**: if the model satisfies the C04 contract for the parameter `idx` and
`G` is the total derivative of the batch loss `F` at the model's predictions, then
`weightedParameterDerivative` with coefficients `G` is the derivative of the loss of the predictions -/
theorem loss_through_model (f : ℝ → ModelFn ℝ) (t0 : ℝ) (idx B : ℕ) (X : ℕ → ℕ → ℝ)
    (F : List (List ℝ) → ℝ) (G : List (List ℝ))
    (hm : ModelContractAt f t0 idx B X)
    (hl : BatchGradAt B (f t0).m F G ((f t0).evalB X)) :
    HasDerivAt (fun t => F (toRows B (f t0).m ((f t).evalB X)))
      (((f t0).wpd B X (coefOf G)).getD idx 0) t0 := by
  obtain ⟨_, hc⟩ := hm
  let d : ℕ → ℕ → ℝ := fun i1 k1 =>
    ((f t0).wpd B X (fun i k => if i = i1 ∧ k = k1 then 1 else 0)).getD idx 0
  have hent : ∀ i1, i1 < B → ∀ k1, k1 < (f t0).m →
      HasDerivAt (fun t => (f t).evalB X i1 k1) (d i1 k1) t0 := by
    intro i1 hi1 k1 hk1
    have h := hc (fun i k => if i = i1 ∧ k = k1 then 1 else 0)
    have e : (fun t => ∑ i ∈ range B, ∑ k ∈ range (f t0).m,
        (if i = i1 ∧ k = k1 then (1 : ℝ) else 0) * (f t).evalB X i k) = fun t => (f t).evalB X i1 k1 := by
      funext t
      rw [Finset.sum_eq_single i1, Finset.sum_eq_single k1]
      · simp
      · intro k _ hk; simp [hk]
      · intro hk; exact absurd (Finset.mem_range.2 hk1) hk
      · intro i _ hi; simp [hi]
      · intro hi; exact absurd (Finset.mem_range.2 hi1) hi
    rw [e] at h
    exact h
  have h1 := hl (fun t => (f t).evalB X) d t0 (fun _ _ _ _ => rfl) hent
  have h2 := hc (coefOf G)
  have h3 : HasDerivAt (fun t => ∑ i ∈ range B, ∑ k ∈ range (f t0).m, coefOf G i k * (f t).evalB X i k)
      (∑ i ∈ range B, ∑ k ∈ range (f t0).m, coefOf G i k * d i k) t0 :=
    HasDerivAt.fun_sum fun i hi => HasDerivAt.fun_sum fun k hk =>
      (hent i (Finset.mem_range.1 hi) k (Finset.mem_range.1 hk)).const_mul _
  rw [h2.unique h3]
  exact h1

/-! ### 2. value of `eval` / `evalDerivative` -/

section Value
variable {L : Type} (g : ModelFn ℝ) (loss : LossFn ℝ L) (batches : ℕ → Batch ℝ L)

theorem rangeEval_eq (s e : ℕ) :
    rangeEval g loss batches s e
      = ∑ b ∈ Ico s e, loss.eval (batches b).labels (predictions g (batches b)) := by
  unfold rangeEval
  rw [foldl_add_eq_sum (fun d => loss.eval (batches (s + d)).labels (predictions g (batches (s + d)))),
    zero_add, sum_range_sub (fun b => loss.eval (batches b).labels (predictions g (batches b)))]

theorem rangeEvalDerivative_eq_fold (s e : ℕ) (deriv : List ℝ) :
    rangeEvalDerivative g loss batches s e deriv
      = (List.range (e - s)).foldl
          (pairStep (fun d => (loss.evalDerivative (batches (s + d)).labels (predictions g (batches (s + d)))).1)
            (fun d => g.wpd (batches (s + d)).n (batches (s + d)).X
              (coefOf (loss.evalDerivative (batches (s + d)).labels (predictions g (batches (s + d)))).2)))
          (0, deriv) := rfl

theorem rangeEvalDerivative_fst (s e : ℕ) (deriv : List ℝ) :
    (rangeEvalDerivative g loss batches s e deriv).1
      = ∑ b ∈ Ico s e, (loss.evalDerivative (batches b).labels (predictions g (batches b))).1 := by
  rw [rangeEvalDerivative_eq_fold, foldl_pair_fst, zero_add,
    sum_range_sub (fun b => (loss.evalDerivative (batches b).labels (predictions g (batches b))).1)]

theorem rangeEvalDerivative_snd_length (s e : ℕ) (deriv : List ℝ)
    (hlen : ∀ b, s ≤ b → b < e → ∀ C, (g.wpd (batches b).n (batches b).X C).length = deriv.length) :
    (rangeEvalDerivative g loss batches s e deriv).2.length = deriv.length := by
  rw [rangeEvalDerivative_eq_fold, foldl_pair_snd_length]
  intro d hd
  have := List.mem_range.1 hd
  exact hlen (s + d) (by omega) (by omega) _

theorem rangeEvalDerivative_snd_getD (s e : ℕ) (deriv : List ℝ)
    (hlen : ∀ b, s ≤ b → b < e → ∀ C, (g.wpd (batches b).n (batches b).X C).length = deriv.length)
    (idx : ℕ) :
    (rangeEvalDerivative g loss batches s e deriv).2.getD idx 0
      = deriv.getD idx 0 + ∑ b ∈ Ico s e, (g.wpd (batches b).n (batches b).X
          (coefOf (loss.evalDerivative (batches b).labels (predictions g (batches b))).2)).getD idx 0 := by
  rw [rangeEvalDerivative_eq_fold, foldl_pair_snd_getD]
  · rw [sum_range_sub (fun b => (g.wpd (batches b).n (batches b).X
          (coefOf (loss.evalDerivative (batches b).labels (predictions g (batches b))).2)).getD idx 0)]
  · intro d hd
    have := List.mem_range.1 hd
    exact hlen (s + d) (by omega) (by omega) _

/-- **`ErrorFunction::eval` = mean loss**: every number of batches `B ≥ 1`, every thread count, every
order in which the threads add their partial sums under the lock -/
theorem eval_value (B threads : ℕ) (hB : 1 ≤ B) (hthreads : 1 ≤ threads) (order : List ℕ)
    (hperm : order.Perm (List.range (min threads B))) :
    ErrFn.eval g loss batches B threads order
      = (∑ b ∈ range B, loss.eval (batches b).labels (predictions g (batches b)))
          / (numElements batches B : ℝ) := by
  have hT : 1 ≤ min threads B := le_min hthreads hB
  obtain ⟨h0, hlast, hnext, hle⟩ := Gen.ParRegions.tile_Site1 B (min threads B) hT
  unfold ErrFn.eval
  simp only [ofNat_real]
  congr 1
  rw [foldl_add_eq_sum (fun t => rangeEval g loss batches (Gen.ParRegions.Site1.start B (min threads B) t)
      (Gen.ParRegions.Site1.stop B (min threads B) t)), zero_add, order_sum order _ hperm]
  simp only [rangeEval_eq]
  exact tile_sum _ _ B _ hT h0 hlast hnext hle _

theorem evalDerivative_eq_fold (B threads : ℕ) (order : List ℕ) :
    ErrFn.evalDerivative g loss batches B threads order
      = ((order.foldl (pairStep
            (fun t => (rangeEvalDerivative g loss batches (Gen.ParRegions.Site2.start B (min threads B) t)
              (Gen.ParRegions.Site2.stop B (min threads B) t) (zeros g.np)).1)
            (fun t => (rangeEvalDerivative g loss batches (Gen.ParRegions.Site2.start B (min threads B) t)
              (Gen.ParRegions.Site2.stop B (min threads B) t) (zeros g.np)).2)) (0, zeros g.np)).1
            / (numElements batches B : ℝ),
         (order.foldl (pairStep
            (fun t => (rangeEvalDerivative g loss batches (Gen.ParRegions.Site2.start B (min threads B) t)
              (Gen.ParRegions.Site2.stop B (min threads B) t) (zeros g.np)).1)
            (fun t => (rangeEvalDerivative g loss batches (Gen.ParRegions.Site2.start B (min threads B) t)
              (Gen.ParRegions.Site2.stop B (min threads B) t) (zeros g.np)).2)) (0, zeros g.np)).2.map
            (· / (numElements batches B : ℝ))) := rfl

/-- the value component of `evalDerivative` without the `hval` hypothesis: the mean of the values the
loss's `evalDerivative` returns -/
theorem evalDerivative_value' (B threads : ℕ) (hB : 1 ≤ B) (hthreads : 1 ≤ threads) (order : List ℕ)
    (hperm : order.Perm (List.range (min threads B))) :
    (ErrFn.evalDerivative g loss batches B threads order).1
      = (∑ b ∈ range B, (loss.evalDerivative (batches b).labels (predictions g (batches b))).1)
          / (numElements batches B : ℝ) := by
  have hT : 1 ≤ min threads B := le_min hthreads hB
  obtain ⟨h0, hlast, hnext, hle⟩ := Gen.ParRegions.tile_Site2 B (min threads B) hT
  rw [evalDerivative_eq_fold]
  simp only
  congr 1
  rw [foldl_pair_fst, zero_add, order_sum order _ hperm]
  simp only [rangeEvalDerivative_fst]
  exact tile_sum _ _ B _ hT h0 hlast hnext hle _

/-- **value returned by `ErrorFunction::evalDerivative` = mean loss** -/
theorem evalDerivative_value (B threads : ℕ) (hB : 1 ≤ B) (hthreads : 1 ≤ threads) (order : List ℕ)
    (hperm : order.Perm (List.range (min threads B)))
    (hval : ∀ b, b < B → (loss.evalDerivative (batches b).labels (predictions g (batches b))).1
      = loss.eval (batches b).labels (predictions g (batches b))) :
    (ErrFn.evalDerivative g loss batches B threads order).1
      = (∑ b ∈ range B, loss.eval (batches b).labels (predictions g (batches b)))
          / (numElements batches B : ℝ) := by
  rw [evalDerivative_value' g loss batches B threads hB hthreads order hperm]
  congr 1
  exact Finset.sum_congr rfl fun b hb => hval b (Finset.mem_range.1 hb)

/-! ### 3. gradient entries of `evalDerivative` -/

/-- **every entry of the gradient returned by `ErrorFunction::evalDerivative`** is the mean over the
batches of the model's `weightedParameterDerivative` with the loss gradient as coefficients -/
theorem evalDerivative_gradient_entry (B threads : ℕ) (hB : 1 ≤ B) (hthreads : 1 ≤ threads) (order : List ℕ)
    (hperm : order.Perm (List.range (min threads B)))
    (hlen : ∀ b, b < B → ∀ C, (g.wpd (batches b).n (batches b).X C).length = g.np) (idx : ℕ) :
    (ErrFn.evalDerivative g loss batches B threads order).2.getD idx 0
      = (∑ b ∈ range B, (g.wpd (batches b).n (batches b).X
          (coefOf (loss.evalDerivative (batches b).labels (predictions g (batches b))).2)).getD idx 0)
          / (numElements batches B : ℝ) := by
  have hT : 1 ≤ min threads B := le_min hthreads hB
  obtain ⟨h0, hlast, hnext, hle⟩ := Gen.ParRegions.tile_Site2 B (min threads B) hT
  have hstartT : Gen.ParRegions.Site2.start B (min threads B) (min threads B) = B := by
    have := hnext (min threads B - 1)
    rw [show min threads B - 1 + 1 = min threads B by omega] at this
    rw [← this, hlast]
  -- every thread range lies inside `[0, B)`
  have hin : ∀ t ∈ order, ∀ b, b < Gen.ParRegions.Site2.stop B (min threads B) t → b < B := by
    intro t ht b hb
    have htT : t < min threads B := List.mem_range.1 (hperm.mem_iff.1 ht)
    have := tile_start_le _ _ hnext hle (show t + 1 ≤ min threads B by omega)
    rw [hstartT, ← hnext t] at this
    omega
  have hlenR : ∀ t ∈ order, ∀ b, Gen.ParRegions.Site2.start B (min threads B) t ≤ b →
      b < Gen.ParRegions.Site2.stop B (min threads B) t →
      ∀ C, (g.wpd (batches b).n (batches b).X C).length = (zeros g.np : List ℝ).length := by
    intro t ht b _ hb C
    rw [zeros_length]; exact hlen b (hin t ht b hb) C
  rw [evalDerivative_eq_fold]
  simp only
  rw [getD_map_div]
  congr 1
  rw [foldl_pair_snd_getD]
  · simp only [getD_zeros, zero_add]
    have hterm : ∀ t ∈ order,
        (rangeEvalDerivative g loss batches (Gen.ParRegions.Site2.start B (min threads B) t)
          (Gen.ParRegions.Site2.stop B (min threads B) t) (zeros g.np)).2.getD idx 0
        = ∑ b ∈ Ico (Gen.ParRegions.Site2.start B (min threads B) t) (Gen.ParRegions.Site2.stop B (min threads B) t),
            (g.wpd (batches b).n (batches b).X
              (coefOf (loss.evalDerivative (batches b).labels (predictions g (batches b))).2)).getD idx 0 := by
      intro t ht
      rw [rangeEvalDerivative_snd_getD g loss batches _ _ _ (hlenR t ht), getD_zeros, zero_add]
    rw [List.map_congr_left hterm, order_sum order _ hperm]
    exact tile_sum _ _ B _ hT h0 hlast hnext hle _
  · intro t ht
    simp only
    rw [rangeEvalDerivative_snd_length g loss batches _ _ _ (hlenR t ht)]

end Value

/-! ### 4. end-to-end: `evalDerivative` = (mean loss, derivative of the mean loss) -/

/-- **end-to-end**: for a one-parameter family of models through the parameter `idx`, a model
satisfying the C04 contract on every batch and a loss whose returned gradient is the total derivative
at the predictions, `ErrorFunction::evalDerivative` returns the mean loss and the `idx`-th entry of the
returned gradient is the derivative of the mean loss w.r.t. that parameter — for every number of
batches, every thread count and every merge order -/
theorem errorFunction_evalDerivative_correct {L : Type} (f : ℝ → ModelFn ℝ) (t0 : ℝ) (idx : ℕ)
    (loss : LossFn ℝ L) (batches : ℕ → Batch ℝ L) (B threads : ℕ) (hB : 1 ≤ B) (hthreads : 1 ≤ threads)
    (order : List ℕ) (hperm : order.Perm (List.range (min threads B)))
    (hmodel : ∀ b, b < B → ModelContractAt f t0 idx (batches b).n (batches b).X)
    (hloss : ∀ b, b < B → BatchGradAt (batches b).n (f t0).m (loss.eval (batches b).labels)
      (loss.evalDerivative (batches b).labels (predictions (f t0) (batches b))).2
      ((f t0).evalB (batches b).X))
    (hval : ∀ b, b < B → (loss.evalDerivative (batches b).labels (predictions (f t0) (batches b))).1
      = loss.eval (batches b).labels (predictions (f t0) (batches b)))
    (hlen : ∀ b, b < B → ∀ C, ((f t0).wpd (batches b).n (batches b).X C).length = (f t0).np) :
    (ErrFn.evalDerivative (f t0) loss batches B threads order).1
      = (∑ b ∈ range B, loss.eval (batches b).labels (predictions (f t0) (batches b)))
          / (numElements batches B : ℝ) ∧
    HasDerivAt
      (fun t => (∑ b ∈ range B, loss.eval (batches b).labels (predictions (f t) (batches b)))
          / (numElements batches B : ℝ))
      ((ErrFn.evalDerivative (f t0) loss batches B threads order).2.getD idx 0) t0 := by
  refine ⟨evalDerivative_value (f t0) loss batches B threads hB hthreads order hperm hval, ?_⟩
  rw [evalDerivative_gradient_entry (f t0) loss batches B threads hB hthreads order hperm hlen idx]
  apply HasDerivAt.div_const
  apply HasDerivAt.fun_sum
  intro b hb
  have hb' := Finset.mem_range.1 hb
  have h := loss_through_model f t0 idx (batches b).n (batches b).X (loss.eval (batches b).labels) _
    (hmodel b hb') (hloss b hb')
  have e : (fun t => loss.eval (batches b).labels (predictions (f t) (batches b)))
      = fun t => loss.eval (batches b).labels (toRows (batches b).n (f t0).m ((f t).evalB (batches b).X)) := by
    funext t
    unfold predictions
    rw [(hmodel b hb').1 t]
  rw [e]
  exact h

/-! ### 5. the model contract instantiated with the C04 chain -/

theorem dense_setW_self (m : Dense ℝ) (k0 j0 : ℕ) :
    ({ m with W := fun k j => if k = k0 ∧ j = j0 then m.W k0 j0 else m.W k j } : Dense ℝ) = m := by
  have hW : (fun k j => if k = k0 ∧ j = j0 then m.W k0 j0 else m.W k j) = m.W := by
    funext k j
    split
    · rename_i h; rw [h.1, h.2]
    · rfl
  rw [hW]

theorem dense_setB_self (m : Dense ℝ) (k0 : ℕ) :
    ({ m with b := fun k => if k = k0 then m.b k0 else m.b k } : Dense ℝ) = m := by
  have hb : (fun k => if k = k0 then m.b k0 else m.b k) = m.b := by
    funext k
    split
    · rename_i h; rw [h]
    · rfl
  rw [hb]

theorem objective_mid_nOut (pre post : Chain ℝ) (m m' : Dense ℝ) (hn : m'.nOut = m.nOut) (B nIn : ℕ)
    (X C : ℕ → ℕ → ℝ) :
    Chain.objective (pre ++ (Layer.dense m', true) :: post) B nIn X C
      = ∑ i ∈ range B, ∑ k ∈ range (Chain.nOut (pre ++ (Layer.dense m, true) :: post) nIn),
          C i k * Chain.evalB Real.tanh Real.exp (pre ++ (Layer.dense m', true) :: post) X i k := by
  unfold Chain.objective
  rw [Chain.nOut_append, Chain.nOut_cons, Chain.nOut_append, Chain.nOut_cons]
  simp only [Layer.nOut, hn]

/-- **the C04 chain satisfies the model contract for every weight of every optimised dense layer** -/
theorem chain_weight_contract (pre post : Chain ℝ) (m : Dense ℝ) (B nIn : ℕ) (X : ℕ → ℕ → ℝ) (k0 j0 : ℕ)
    (hk0 : k0 < m.nOut) (hj0 : j0 < m.nIn)
    (hwf : Chain.WF (pre ++ (Layer.dense m, true) :: post) nIn)
    (hnk : Chain.NoKink B (pre ++ (Layer.dense m, true) :: post) X) :
    ModelContractAt
      (fun t => ofChain Real.tanh Real.exp
        (pre ++ (Layer.dense { m with W := fun k j => if k = k0 ∧ j = j0 then t else m.W k j }, true) :: post)
        (Chain.nOut (pre ++ (Layer.dense m, true) :: post) nIn))
      (m.W k0 j0) ((Chain.params pre).length + (k0 * m.nIn + j0)) B X := by
  refine ⟨fun t => rfl, fun C => ?_⟩
  have h := Chain.weight_derivative_correct pre post m B nIn X C k0 j0 hk0 hj0 hwf hnk
  simp only [ofChain]
  rw [dense_setW_self]
  have e := fun t : ℝ => objective_mid_nOut pre post m
    { m with W := fun k j => if k = k0 ∧ j = j0 then t else m.W k j } rfl B nIn X C
  simp only [e] at h
  exact h

/-- **… and for every offset entry** -/
theorem chain_offset_contract (pre post : Chain ℝ) (m : Dense ℝ) (B nIn : ℕ) (X : ℕ → ℕ → ℝ) (k0 : ℕ)
    (hk0 : k0 < m.nOut) (hb : m.hasB = true)
    (hwf : Chain.WF (pre ++ (Layer.dense m, true) :: post) nIn)
    (hnk : Chain.NoKink B (pre ++ (Layer.dense m, true) :: post) X) :
    ModelContractAt
      (fun t => ofChain Real.tanh Real.exp
        (pre ++ (Layer.dense { m with b := fun k => if k = k0 then t else m.b k }, true) :: post)
        (Chain.nOut (pre ++ (Layer.dense m, true) :: post) nIn))
      (m.b k0) ((Chain.params pre).length + (m.nOut * m.nIn + k0)) B X := by
  refine ⟨fun t => rfl, fun C => ?_⟩
  have h := Chain.offset_derivative_correct pre post m B nIn X C k0 hk0 hb hwf hnk
  simp only [ofChain]
  rw [dense_setB_self]
  have e := fun t : ℝ => objective_mid_nOut pre post m
    { m with b := fun k => if k = k0 then t else m.b k } rfl B nIn X C
  simp only [e] at h
  exact h

/-- the length hypothesis of the end-to-end theorem holds for every chain -/
theorem ofChain_wpd_length (c : Chain ℝ) (mOut B : ℕ) (X C : ℕ → ℕ → ℝ) :
    ((ofChain Real.tanh Real.exp c mOut).wpd B X C).length = (ofChain Real.tanh Real.exp c mOut).np := by
  simp only [ofChain]
  exact Chain.backward_fst_length Real.tanh Real.exp B c X C

/-- the one-parameter family of chains through the weight `W[k0][j0]` of the dense layer `m` -/
noncomputable def chainFamilyW (pre post : Chain ℝ) (m : Dense ℝ) (nIn k0 j0 : ℕ) (t : ℝ) : ModelFn ℝ :=
  ofChain Real.tanh Real.exp
    (pre ++ (Layer.dense { m with W := fun k j => if k = k0 ∧ j = j0 then t else m.W k j }, true) :: post)
    (Chain.nOut (pre ++ (Layer.dense m, true) :: post) nIn)

theorem chainFamilyW_at (pre post : Chain ℝ) (m : Dense ℝ) (nIn k0 j0 : ℕ) :
    chainFamilyW pre post m nIn k0 j0 (m.W k0 j0)
      = ofChain Real.tanh Real.exp (pre ++ (Layer.dense m, true) :: post)
          (Chain.nOut (pre ++ (Layer.dense m, true) :: post) nIn) := by
  unfold chainFamilyW
  rw [dense_setW_self]

/-- **`ErrorFunction` over a `ConcatenatedModel`** (sections 4 and 5 composed): the gradient entry of
the weight `W[k0][j0]` of any optimised dense layer is the derivative of the mean loss w.r.t. that
weight; the only assumptions left are the shape / no-kink conditions of C04 and the loss contract -/
theorem errorFunction_chain_weight_correct {L : Type} (pre post : Chain ℝ) (m : Dense ℝ) (nIn k0 j0 : ℕ)
    (hk0 : k0 < m.nOut) (hj0 : j0 < m.nIn)
    (hwf : Chain.WF (pre ++ (Layer.dense m, true) :: post) nIn)
    (loss : LossFn ℝ L) (batches : ℕ → Batch ℝ L) (B threads : ℕ) (hB : 1 ≤ B) (hthreads : 1 ≤ threads)
    (order : List ℕ) (hperm : order.Perm (List.range (min threads B)))
    (hnk : ∀ b, b < B → Chain.NoKink (batches b).n (pre ++ (Layer.dense m, true) :: post) (batches b).X)
    (hloss : ∀ b, b < B → BatchGradAt (batches b).n (Chain.nOut (pre ++ (Layer.dense m, true) :: post) nIn)
      (loss.eval (batches b).labels)
      (loss.evalDerivative (batches b).labels
        (predictions (ofChain Real.tanh Real.exp (pre ++ (Layer.dense m, true) :: post)
          (Chain.nOut (pre ++ (Layer.dense m, true) :: post) nIn)) (batches b))).2
      (Chain.evalB Real.tanh Real.exp (pre ++ (Layer.dense m, true) :: post) (batches b).X))
    (hval : ∀ b, b < B →
      (loss.evalDerivative (batches b).labels
        (predictions (ofChain Real.tanh Real.exp (pre ++ (Layer.dense m, true) :: post)
          (Chain.nOut (pre ++ (Layer.dense m, true) :: post) nIn)) (batches b))).1
      = loss.eval (batches b).labels
        (predictions (ofChain Real.tanh Real.exp (pre ++ (Layer.dense m, true) :: post)
          (Chain.nOut (pre ++ (Layer.dense m, true) :: post) nIn)) (batches b))) :
    (ErrFn.evalDerivative (ofChain Real.tanh Real.exp (pre ++ (Layer.dense m, true) :: post)
        (Chain.nOut (pre ++ (Layer.dense m, true) :: post) nIn)) loss batches B threads order).1
      = (∑ b ∈ range B, loss.eval (batches b).labels
          (predictions (ofChain Real.tanh Real.exp (pre ++ (Layer.dense m, true) :: post)
            (Chain.nOut (pre ++ (Layer.dense m, true) :: post) nIn)) (batches b)))
          / (numElements batches B : ℝ) ∧
    HasDerivAt
      (fun t => (∑ b ∈ range B, loss.eval (batches b).labels
          (predictions (chainFamilyW pre post m nIn k0 j0 t) (batches b))) / (numElements batches B : ℝ))
      ((ErrFn.evalDerivative (ofChain Real.tanh Real.exp (pre ++ (Layer.dense m, true) :: post)
        (Chain.nOut (pre ++ (Layer.dense m, true) :: post) nIn)) loss batches B threads order).2.getD
        ((Chain.params pre).length + (k0 * m.nIn + j0)) 0) (m.W k0 j0) := by
  have hf0 := chainFamilyW_at pre post m nIn k0 j0
  have h := errorFunction_evalDerivative_correct (chainFamilyW pre post m nIn k0 j0) (m.W k0 j0)
    ((Chain.params pre).length + (k0 * m.nIn + j0)) loss batches B threads hB hthreads order hperm
    (fun b hb => chain_weight_contract pre post m (batches b).n nIn (batches b).X k0 j0 hk0 hj0 hwf (hnk b hb))
    (by rw [hf0]; exact hloss) (by rw [hf0]; exact hval)
    (by rw [hf0]; intro b _ C; exact ofChain_wpd_length _ _ _ _ _)
  rw [hf0] at h
  exact h

/-! ### 6. mini-batch branch, weighted error function, regulariser -/

section Mini
variable {L : Type} (g : ModelFn ℝ) (loss : LossFn ℝ L) (batches : ℕ → Batch ℝ L)

theorem numElements_eq (B : ℕ) : numElements batches B = ∑ b ∈ range B, (batches b).n := by
  unfold numElements
  exact list_range_map_sum B fun b => (batches b).n

theorem miniEval_value (b : ℕ) :
    miniEval g loss batches b
      = loss.eval (batches b).labels (predictions g (batches b)) / ((batches b).n : ℝ) := by
  unfold miniEval
  rw [rangeEval_eq, Nat.Ico_succ_singleton, Finset.sum_singleton, ofNat_real]

theorem miniEvalDerivative_eq (b : ℕ) :
    miniEvalDerivative g loss batches b
      = ((rangeEvalDerivative g loss batches b (b + 1) (zeros g.np)).1 / ((batches b).n : ℝ),
         (rangeEvalDerivative g loss batches b (b + 1) (zeros g.np)).2.map (· / ((batches b).n : ℝ))) := rfl

theorem miniEvalDerivative_value (b : ℕ)
    (hval : (loss.evalDerivative (batches b).labels (predictions g (batches b))).1
      = loss.eval (batches b).labels (predictions g (batches b))) :
    (miniEvalDerivative g loss batches b).1
      = loss.eval (batches b).labels (predictions g (batches b)) / ((batches b).n : ℝ) := by
  rw [miniEvalDerivative_eq]
  simp only
  rw [rangeEvalDerivative_fst, Nat.Ico_succ_singleton, Finset.sum_singleton, hval]

theorem miniEvalDerivative_gradient_entry (b : ℕ)
    (hlen : ∀ C, (g.wpd (batches b).n (batches b).X C).length = g.np) (idx : ℕ) :
    (miniEvalDerivative g loss batches b).2.getD idx 0
      = (g.wpd (batches b).n (batches b).X
          (coefOf (loss.evalDerivative (batches b).labels (predictions g (batches b))).2)).getD idx 0
        / ((batches b).n : ℝ) := by
  rw [miniEvalDerivative_eq]
  simp only
  rw [getD_map_div, rangeEvalDerivative_snd_getD, Nat.Ico_succ_singleton, Finset.sum_singleton,
    getD_zeros, zero_add]
  intro b' h1 h2 C
  have : b' = b := by omega
  rw [this, zeros_length]; exact hlen C

/-- **mini-batch branch**: for the drawn batch `b` the result is the mean loss of that batch and the
`idx`-th gradient entry is its derivative -/
theorem miniEvalDerivative_correct (f : ℝ → ModelFn ℝ) (t0 : ℝ) (idx : ℕ) (b : ℕ)
    (hmodel : ModelContractAt f t0 idx (batches b).n (batches b).X)
    (hloss : BatchGradAt (batches b).n (f t0).m (loss.eval (batches b).labels)
      (loss.evalDerivative (batches b).labels (predictions (f t0) (batches b))).2
      ((f t0).evalB (batches b).X))
    (hval : (loss.evalDerivative (batches b).labels (predictions (f t0) (batches b))).1
      = loss.eval (batches b).labels (predictions (f t0) (batches b)))
    (hlen : ∀ C, ((f t0).wpd (batches b).n (batches b).X C).length = (f t0).np) :
    (miniEvalDerivative (f t0) loss batches b).1
      = loss.eval (batches b).labels (predictions (f t0) (batches b)) / ((batches b).n : ℝ) ∧
    HasDerivAt
      (fun t => loss.eval (batches b).labels (predictions (f t) (batches b)) / ((batches b).n : ℝ))
      ((miniEvalDerivative (f t0) loss batches b).2.getD idx 0) t0 := by
  refine ⟨miniEvalDerivative_value (f t0) loss batches b hval, ?_⟩
  rw [miniEvalDerivative_gradient_entry (f t0) loss batches b hlen idx]
  apply HasDerivAt.div_const
  have h := loss_through_model f t0 idx (batches b).n (batches b).X (loss.eval (batches b).labels) _
    hmodel hloss
  have e : (fun t => loss.eval (batches b).labels (predictions (f t) (batches b)))
      = fun t => loss.eval (batches b).labels (toRows (batches b).n (f t0).m ((f t).evalB (batches b).X)) := by
    funext t
    unfold predictions
    rw [hmodel.1 t]
  rw [e]
  exact h

/-- **the mini-batch value is an unbiased estimate**: with equally sized batches, the average over a
uniformly drawn batch index of the mini-batch value is the full data-set mean -/
theorem mini_expectation (B n0 : ℕ) (hn : ∀ b, b < B → (batches b).n = n0) :
    (∑ b ∈ range B, miniEval g loss batches b) / (B : ℝ)
      = (∑ b ∈ range B, loss.eval (batches b).labels (predictions g (batches b)))
          / (numElements batches B : ℝ) := by
  have hne : (numElements batches B : ℝ) = (n0 : ℝ) * B := by
    rw [numElements_eq, Finset.sum_congr rfl (fun b hb => hn b (Finset.mem_range.1 hb))]
    simp [mul_comm]
  have hs : ∑ b ∈ range B, miniEval g loss batches b
      = (∑ b ∈ range B, loss.eval (batches b).labels (predictions g (batches b))) / (n0 : ℝ) := by
    rw [Finset.sum_div]
    refine Finset.sum_congr rfl fun b hb => ?_
    rw [miniEval_value, hn b (Finset.mem_range.1 hb)]
  rw [hne, hs, div_div]

/-- … and therefore equals what the full-batch `eval` returns, for every thread count and merge order -/
theorem mini_expectation_eval (B n0 threads : ℕ) (hB : 1 ≤ B) (hthreads : 1 ≤ threads) (order : List ℕ)
    (hperm : order.Perm (List.range (min threads B))) (hn : ∀ b, b < B → (batches b).n = n0) :
    (∑ b ∈ range B, miniEval g loss batches b) / (B : ℝ) = ErrFn.eval g loss batches B threads order := by
  rw [mini_expectation g loss batches B n0 hn, eval_value g loss batches B threads hB hthreads order hperm]

/-! #### weighted -/

theorem sumOfWeights_eq (B : ℕ) : sumOfWeights batches B = ∑ b ∈ range B, (batches b).weights.sum := by
  unfold sumOfWeights
  rw [foldl_add_eq_sum (fun i => Scalar.sumL (batches i).weights), zero_add, list_range_map_sum]
  exact Finset.sum_congr rfl fun b _ => sumL_eq_sum_real _

theorem wBatchEval_eq (b : Batch ℝ L) :
    wBatchEval g loss b = ∑ j ∈ range b.n, b.weights.getD j 0 *
      loss.eval ((b.labels.drop j).take 1) [(predictions g b).getD j []] := by
  unfold wBatchEval
  have := foldl_add_eq_sum (fun j => b.weights.getD j 0 *
      loss.eval ((b.labels.drop j).take 1) [(predictions g b).getD j []]) (List.range b.n) 0
  rw [zero_add, list_range_map_sum] at this
  exact this

theorem wBatchEvalDerivative_fst (b : Batch ℝ L) :
    (wBatchEvalDerivative g loss b).1 = ∑ j ∈ range b.n, b.weights.getD j 0 *
      (loss.evalDerivative ((b.labels.drop j).take 1) [(predictions g b).getD j []]).1 := by
  have := foldl_fst_gen (fun j => b.weights.getD j 0 *
      (loss.evalDerivative ((b.labels.drop j).take 1) [(predictions g b).getD j []]).1)
    (fun (acc : List (List ℝ)) j => acc ++
      [((loss.evalDerivative ((b.labels.drop j).take 1) [(predictions g b).getD j []]).2.getD 0 []).map
        (b.weights.getD j 0 * ·)]) (List.range b.n) (0, [])
  rw [zero_add, list_range_map_sum] at this
  exact this

/-- **weighted `eval`**: `Σ_b Σ_j w_bj · loss_bj / Σ w`, for every order of the parallel loop -/
theorem wEval_value (B : ℕ) (order : List ℕ) (hperm : order.Perm (List.range B)) :
    wEval g loss batches B order
      = (∑ b ∈ range B, ∑ j ∈ range (batches b).n, (batches b).weights.getD j 0 *
          loss.eval (((batches b).labels.drop j).take 1) [(predictions g (batches b)).getD j []])
        / (∑ b ∈ range B, (batches b).weights.sum) := by
  unfold wEval
  rw [sumOfWeights_eq, foldl_add_eq_sum (fun i => wBatchEval g loss (batches i)), zero_add,
    order_sum order B hperm]
  simp only [wBatchEval_eq]

theorem wEvalDerivative_eq_fold (B : ℕ) (order : List ℕ) :
    wEvalDerivative g loss batches B order
      = ((order.foldl (pairStep (fun i => (wBatchEvalDerivative g loss (batches i)).1)
            (fun i => (wBatchEvalDerivative g loss (batches i)).2)) (0, zeros g.np)).1
            / sumOfWeights batches B,
         (order.foldl (pairStep (fun i => (wBatchEvalDerivative g loss (batches i)).1)
            (fun i => (wBatchEvalDerivative g loss (batches i)).2)) (0, zeros g.np)).2.map
            (· / sumOfWeights batches B)) := rfl

/-- **weighted `evalDerivative`, value** -/
theorem wEvalDerivative_value (B : ℕ) (order : List ℕ) (hperm : order.Perm (List.range B)) :
    (wEvalDerivative g loss batches B order).1
      = (∑ b ∈ range B, ∑ j ∈ range (batches b).n, (batches b).weights.getD j 0 *
          (loss.evalDerivative (((batches b).labels.drop j).take 1)
            [(predictions g (batches b)).getD j []]).1)
        / (∑ b ∈ range B, (batches b).weights.sum) := by
  rw [wEvalDerivative_eq_fold]
  simp only
  rw [sumOfWeights_eq, foldl_pair_fst, zero_add, order_sum order B hperm]
  simp only [wBatchEvalDerivative_fst]

/-- **weighted `evalDerivative`, gradient entries**: the mean (w.r.t. the total weight) of the batch
gradients, for every order of the parallel loop -/
theorem wEvalDerivative_gradient_entry (B : ℕ) (order : List ℕ) (hperm : order.Perm (List.range B))
    (hlen : ∀ b, b < B → ∀ C, (g.wpd (batches b).n (batches b).X C).length = g.np) (idx : ℕ) :
    (wEvalDerivative g loss batches B order).2.getD idx 0
      = (∑ b ∈ range B, (wBatchEvalDerivative g loss (batches b)).2.getD idx 0)
        / (∑ b ∈ range B, (batches b).weights.sum) := by
  rw [wEvalDerivative_eq_fold]
  simp only
  rw [getD_map_div, sumOfWeights_eq, foldl_pair_snd_getD, getD_zeros, zero_add,
    order_sum order B hperm (fun i => (wBatchEvalDerivative g loss (batches i)).2.getD idx 0)]
  intro i hi
  have hiB : i < B := List.mem_range.1 (hperm.mem_iff.1 hi)
  simp only [zeros_length]
  exact hlen i hiB _

/-! #### weighted: the gradient is the derivative of the weighted mean -/

theorem foldl_snd_append {β γ : Type} (a : β → ℝ) (row : β → γ) (l : List β) (acc : ℝ × List γ) :
    (l.foldl (fun (acc : ℝ × List γ) x => (acc.1 + a x, acc.2 ++ [row x])) acc).2 = acc.2 ++ l.map row := by
  induction l generalizing acc with
  | nil => simp
  | cons x xs ih => simp only [List.foldl_cons, ih, List.map_cons, List.append_assoc, List.singleton_append]

/-- the coefficient matrix assembled by the inner loop: row `j` is `w_j · gradient_j` -/
theorem wBatchEvalDerivative_snd (b : Batch ℝ L) :
    (wBatchEvalDerivative g loss b).2 = g.wpd b.n b.X (coefOf ((List.range b.n).map fun j =>
      ((loss.evalDerivative ((b.labels.drop j).take 1) [(predictions g b).getD j []]).2.getD 0 []).map
        (b.weights.getD j 0 * ·))) := by
  have := foldl_snd_append (fun j => b.weights.getD j 0 *
      (loss.evalDerivative ((b.labels.drop j).take 1) [(predictions g b).getD j []]).1)
    (fun j => ((loss.evalDerivative ((b.labels.drop j).take 1) [(predictions g b).getD j []]).2.getD 0 []).map
        (b.weights.getD j 0 * ·)) (List.range b.n) (0, [])
  rw [List.nil_append] at this
  exact congrArg (fun G => g.wpd b.n b.X (coefOf G)) this

theorem toRows_getD (B m : ℕ) (P : ℕ → ℕ → ℝ) (j : ℕ) (hj : j < B) :
    (toRows B m P).getD j [] = (List.range m).map (P j) := by
  unfold toRows
  rw [List.getD_eq_getElem?_getD, List.getElem?_map, List.getElem?_range hj]
  rfl

theorem toRows_one (m : ℕ) (Q : ℕ → ℕ → ℝ) : toRows 1 m Q = [(List.range m).map (Q 0)] := by
  simp [toRows]

/-- **chain rule for one weighted batch** (single-element loss calls, coefficient rows `w_j·gradient_j`) -/
theorem wBatch_through_model (f : ℝ → ModelFn ℝ) (t0 : ℝ) (idx : ℕ) (b : Batch ℝ L)
    (hmodel : ModelContractAt f t0 idx b.n b.X)
    (hloss : ∀ j, j < b.n → BatchGradAt 1 (f t0).m (loss.eval ((b.labels.drop j).take 1))
      (loss.evalDerivative ((b.labels.drop j).take 1) [(predictions (f t0) b).getD j []]).2
      (fun _ k => (f t0).evalB b.X j k)) :
    HasDerivAt (fun t => wBatchEval (f t) loss b)
      ((wBatchEvalDerivative (f t0) loss b).2.getD idx 0) t0 := by
  rw [wBatchEvalDerivative_snd]
  have hF : BatchGradAt b.n (f t0).m
      (fun rows => ∑ j ∈ range b.n, b.weights.getD j 0 *
        loss.eval ((b.labels.drop j).take 1) [rows.getD j []])
      ((List.range b.n).map fun j =>
        ((loss.evalDerivative ((b.labels.drop j).take 1) [(predictions (f t0) b).getD j []]).2.getD 0 []).map
          (b.weights.getD j 0 * ·))
      ((f t0).evalB b.X) := by
    intro P P' s0 h0 hd
    simp only
    apply HasDerivAt.fun_sum
    intro j hj
    have hj' := Finset.mem_range.1 hj
    have h1 := (hloss j hj') (fun t _ k => P t j k) (fun _ k => P' j k) s0
      (fun _ _ k hk => h0 j hj' k hk) (fun _ _ k hk => hd j hj' k hk)
    have h2 := h1.const_mul (b.weights.getD j 0)
    have e : (fun t => b.weights.getD j 0 *
        loss.eval ((b.labels.drop j).take 1) [(toRows b.n (f t0).m (P t)).getD j []])
        = fun t => b.weights.getD j 0 *
          loss.eval ((b.labels.drop j).take 1) (toRows 1 (f t0).m ((fun t _ k => P t j k) t)) := by
      funext t
      rw [toRows_getD _ _ _ _ hj', toRows_one]
    rw [e]
    refine h2.congr_deriv ?_
    rw [Finset.sum_range_one, Finset.mul_sum]
    refine Finset.sum_congr rfl fun k _ => ?_
    have hc : coefOf ((List.range b.n).map fun j =>
        ((loss.evalDerivative ((b.labels.drop j).take 1) [(predictions (f t0) b).getD j []]).2.getD 0 []).map
          (b.weights.getD j 0 * ·)) j k
        = b.weights.getD j 0 * coefOf
          (loss.evalDerivative ((b.labels.drop j).take 1) [(predictions (f t0) b).getD j []]).2 0 k := by
      unfold coefOf
      rw [List.getD_eq_getElem?_getD (l := List.map _ _), List.getElem?_map, List.getElem?_range hj']
      simp only [Option.map_some, Option.getD_some]
      rw [getD_map_mul]
    rw [hc]; ring
  have h := loss_through_model f t0 idx b.n b.X _ _ hmodel hF
  have e2 : (fun t => wBatchEval (f t) loss b)
      = fun t => ∑ j ∈ range b.n, b.weights.getD j 0 *
        loss.eval ((b.labels.drop j).take 1) [(toRows b.n (f t0).m ((f t).evalB b.X)).getD j []] := by
    funext t
    rw [wBatchEval_eq]
    unfold predictions
    rw [hmodel.1 t]
  rw [e2]
  exact h

/-- **weighted error function, end-to-end**: `WeightedErrorFunctionImpl::evalDerivative` returns the
weighted mean loss and the `idx`-th gradient entry is its derivative, for every order of the parallel loop -/
theorem wEvalDerivative_correct (f : ℝ → ModelFn ℝ) (t0 : ℝ) (idx : ℕ) (B : ℕ) (order : List ℕ)
    (hperm : order.Perm (List.range B))
    (hmodel : ∀ b, b < B → ModelContractAt f t0 idx (batches b).n (batches b).X)
    (hloss : ∀ b, b < B → ∀ j, j < (batches b).n →
      BatchGradAt 1 (f t0).m (loss.eval (((batches b).labels.drop j).take 1))
        (loss.evalDerivative (((batches b).labels.drop j).take 1)
          [(predictions (f t0) (batches b)).getD j []]).2
        (fun _ k => (f t0).evalB (batches b).X j k))
    (hval : ∀ b, b < B → ∀ j, j < (batches b).n →
      (loss.evalDerivative (((batches b).labels.drop j).take 1)
          [(predictions (f t0) (batches b)).getD j []]).1
        = loss.eval (((batches b).labels.drop j).take 1) [(predictions (f t0) (batches b)).getD j []])
    (hlen : ∀ b, b < B → ∀ C, ((f t0).wpd (batches b).n (batches b).X C).length = (f t0).np) :
    (wEvalDerivative (f t0) loss batches B order).1 = wEval (f t0) loss batches B order ∧
    HasDerivAt (fun t => wEval (f t) loss batches B order)
      ((wEvalDerivative (f t0) loss batches B order).2.getD idx 0) t0 := by
  constructor
  · rw [wEvalDerivative_value (f t0) loss batches B order hperm, wEval_value (f t0) loss batches B order hperm]
    congr 1
    refine Finset.sum_congr rfl fun b hb => Finset.sum_congr rfl fun j hj => ?_
    rw [hval b (Finset.mem_range.1 hb) j (Finset.mem_range.1 hj)]
  · rw [wEvalDerivative_gradient_entry (f t0) loss batches B order hperm hlen idx]
    have e : (fun t => wEval (f t) loss batches B order)
        = fun t => (∑ b ∈ range B, wBatchEval (f t) loss (batches b))
            / (∑ b ∈ range B, (batches b).weights.sum) := by
      funext t
      rw [wEval_value (f t) loss batches B order hperm]
      simp only [wBatchEval_eq]
    rw [e]
    apply HasDerivAt.div_const
    apply HasDerivAt.fun_sum
    intro b hb
    have hb' := Finset.mem_range.1 hb
    exact wBatch_through_model loss f t0 idx (batches b) (hmodel b hb') (hloss b hb')

end Mini

/-! #### regulariser -/

theorem regEvalDerivative_value (r reg : ℝ × List ℝ) (strength : ℝ) :
    (regEvalDerivative r strength reg).1 = r.1 + strength * reg.1 := rfl

theorem regEvalDerivative_gradient_entry (r reg : ℝ × List ℝ) (strength : ℝ)
    (hlen : reg.2.length = r.2.length) (idx : ℕ) :
    (regEvalDerivative r strength reg).2.getD idx 0 = r.2.getD idx 0 + strength * reg.2.getD idx 0 := by
  unfold regEvalDerivative
  simp only
  rw [getD_vadd _ _ (by simpa using hlen), getD_map_mul]

/-- **`ErrorFunction` with a regulariser**: value and every gradient entry are
`loss part + strength · regulariser part`, and the entry is the derivative of the regularised objective -/
theorem regEvalDerivative_correct (E R : ℝ → ℝ) (t0 strength : ℝ) (r reg : ℝ × List ℝ) (idx : ℕ)
    (hlen : reg.2.length = r.2.length)
    (hEv : r.1 = E t0) (hRv : reg.1 = R t0)
    (hE : HasDerivAt E (r.2.getD idx 0) t0) (hR : HasDerivAt R (reg.2.getD idx 0) t0) :
    (regEvalDerivative r strength reg).1 = E t0 + strength * R t0 ∧
    (regEvalDerivative r strength reg).2.getD idx 0 = r.2.getD idx 0 + strength * reg.2.getD idx 0 ∧
    HasDerivAt (fun t => E t + strength * R t) ((regEvalDerivative r strength reg).2.getD idx 0) t0 := by
  refine ⟨by rw [regEvalDerivative_value, hEv, hRv],
    regEvalDerivative_gradient_entry r reg strength hlen idx, ?_⟩
  rw [regEvalDerivative_gradient_entry r reg strength hlen idx]
  exact hE.add (hR.const_mul strength)

/-- the gradient returned by `evalDerivative` has one entry per parameter -/
theorem evalDerivative_snd_length {L : Type} (g : ModelFn ℝ) (loss : LossFn ℝ L) (batches : ℕ → Batch ℝ L)
    (B threads : ℕ) (hB : 1 ≤ B) (hthreads : 1 ≤ threads) (order : List ℕ)
    (hperm : order.Perm (List.range (min threads B)))
    (hlen : ∀ b, b < B → ∀ C, (g.wpd (batches b).n (batches b).X C).length = g.np) :
    (ErrFn.evalDerivative g loss batches B threads order).2.length = g.np := by
  have hT : 1 ≤ min threads B := le_min hthreads hB
  obtain ⟨h0, hlast, hnext, hle⟩ := Gen.ParRegions.tile_Site2 B (min threads B) hT
  have hstartT : Gen.ParRegions.Site2.start B (min threads B) (min threads B) = B := by
    have := hnext (min threads B - 1)
    rw [show min threads B - 1 + 1 = min threads B by omega] at this
    rw [← this, hlast]
  rw [evalDerivative_eq_fold]
  simp only [List.length_map]
  rw [foldl_pair_snd_length]
  · exact zeros_length _
  · intro t ht
    simp only
    have htT : t < min threads B := List.mem_range.1 (hperm.mem_iff.1 ht)
    have hst := tile_start_le _ _ hnext hle (show t + 1 ≤ min threads B by omega)
    rw [hstartT, ← hnext t] at hst
    rw [rangeEvalDerivative_snd_length]
    intro b _ hb C
    rw [zeros_length]
    exact hlen b (by omega) C

/-- **`ErrorFunction::evalDerivative` with a regulariser, end-to-end**: value `mean loss + strength·R`,
gradient entry = derivative of `mean loss + strength·R` -/
theorem errorFunction_reg_evalDerivative_correct {L : Type} (f : ℝ → ModelFn ℝ) (t0 : ℝ) (idx : ℕ)
    (loss : LossFn ℝ L) (batches : ℕ → Batch ℝ L) (B threads : ℕ) (hB : 1 ≤ B) (hthreads : 1 ≤ threads)
    (order : List ℕ) (hperm : order.Perm (List.range (min threads B)))
    (hmodel : ∀ b, b < B → ModelContractAt f t0 idx (batches b).n (batches b).X)
    (hloss : ∀ b, b < B → BatchGradAt (batches b).n (f t0).m (loss.eval (batches b).labels)
      (loss.evalDerivative (batches b).labels (predictions (f t0) (batches b))).2
      ((f t0).evalB (batches b).X))
    (hval : ∀ b, b < B → (loss.evalDerivative (batches b).labels (predictions (f t0) (batches b))).1
      = loss.eval (batches b).labels (predictions (f t0) (batches b)))
    (hlen : ∀ b, b < B → ∀ C, ((f t0).wpd (batches b).n (batches b).X C).length = (f t0).np)
    (R : ℝ → ℝ) (strength : ℝ) (reg : ℝ × List ℝ) (hreglen : reg.2.length = (f t0).np)
    (hRv : reg.1 = R t0) (hR : HasDerivAt R (reg.2.getD idx 0) t0) :
    (regEvalDerivative (ErrFn.evalDerivative (f t0) loss batches B threads order) strength reg).1
      = (∑ b ∈ range B, loss.eval (batches b).labels (predictions (f t0) (batches b)))
          / (numElements batches B : ℝ) + strength * R t0 ∧
    HasDerivAt
      (fun t => (∑ b ∈ range B, loss.eval (batches b).labels (predictions (f t) (batches b)))
          / (numElements batches B : ℝ) + strength * R t)
      ((regEvalDerivative (ErrFn.evalDerivative (f t0) loss batches B threads order) strength reg).2.getD idx 0)
      t0 := by
  obtain ⟨hv, hd⟩ := errorFunction_evalDerivative_correct f t0 idx loss batches B threads hB hthreads order
    hperm hmodel hloss hval hlen
  have hl := evalDerivative_snd_length (f t0) loss batches B threads hB hthreads order hperm hlen
  have h := regEvalDerivative_correct
    (fun t => (∑ b ∈ range B, loss.eval (batches b).labels (predictions (f t) (batches b)))
          / (numElements batches B : ℝ)) R t0 strength
    (ErrFn.evalDerivative (f t0) loss batches B threads order) reg idx (by rw [hl, hreglen]) hv hRv hd hR
  exact ⟨h.1, h.2.2⟩

/-! ### non-vacuity: concrete instances satisfying all hypotheses -/

section Demo

/-- one-output linear model `x ↦ t·x₀` with its `weightedParameterDerivative` -/
noncomputable def demoModel (t : ℝ) : ModelFn ℝ :=
  { m := 1, np := 1, evalB := fun X i _ => t * X i 0,
    wpd := fun B X C => [∑ i ∈ range B, C i 0 * X i 0] }

theorem demoModel_contract (t0 : ℝ) (B : ℕ) (X : ℕ → ℕ → ℝ) : ModelContractAt demoModel t0 0 B X := by
  refine ⟨fun _ => rfl, fun C => ?_⟩
  simp only [demoModel, List.getD_cons_zero, Finset.sum_range_one]
  apply HasDerivAt.fun_sum
  intro i _
  have := ((hasDerivAt_id t0).mul_const (X i 0)).const_mul (C i 0)
  simpa using this

/-- a loss on rows: half the squared first prediction, summed over the rows; gradient rows `[p₀]` -/
noncomputable def demoLoss : LossFn ℝ Unit :=
  { eval := fun _ rows => (rows.map fun r => (r.getD 0 0) ^ 2 / 2).sum,
    evalDerivative := fun _ rows => ((rows.map fun r => (r.getD 0 0) ^ 2 / 2).sum, rows.map fun r => [r.getD 0 0]) }

theorem toRows_getD_zero (m : ℕ) (hm : 1 ≤ m) (q : ℕ → ℝ) : ((List.range m).map q).getD 0 0 = q 0 := by
  obtain ⟨m', rfl⟩ : ∃ m', m = m' + 1 := ⟨m - 1, by omega⟩
  simp [List.range_succ_eq_map]

theorem demoLoss_eval_toRows (B m : ℕ) (hm : 1 ≤ m) (labels : List Unit) (P : ℕ → ℕ → ℝ) :
    demoLoss.eval labels (toRows B m P) = ∑ i ∈ range B, (P i 0) ^ 2 / 2 := by
  simp only [demoLoss, toRows, List.map_map]
  rw [list_range_map_sum]
  refine Finset.sum_congr rfl fun i _ => ?_
  simp only [Function.comp, toRows_getD_zero m hm]

theorem demoLoss_coef (B m : ℕ) (hm : 1 ≤ m) (labels : List Unit) (P0 : ℕ → ℕ → ℝ) (i k : ℕ) (hi : i < B) :
    coefOf (demoLoss.evalDerivative labels (toRows B m P0)).2 i k = if k = 0 then P0 i 0 else 0 := by
  unfold coefOf
  have hrow : (demoLoss.evalDerivative labels (toRows B m P0)).2.getD i [] = [P0 i 0] := by
    simp only [demoLoss, toRows, List.map_map]
    rw [List.getD_eq_getElem?_getD, List.getElem?_map, List.getElem?_range hi]
    simp only [Option.map_some, Option.getD_some, Function.comp, toRows_getD_zero m hm]
  rw [hrow]
  cases k <;> simp

theorem demoLoss_grad (B m : ℕ) (hm : 1 ≤ m) (labels : List Unit) (P0 : ℕ → ℕ → ℝ) :
    BatchGradAt B m (demoLoss.eval labels) (demoLoss.evalDerivative labels (toRows B m P0)).2 P0 := by
  intro P P' t0 h0 hd
  simp only [demoLoss_eval_toRows B m hm]
  apply HasDerivAt.fun_sum
  intro i hi
  have hi' := Finset.mem_range.1 hi
  have hs : ∑ k ∈ range m, coefOf (demoLoss.evalDerivative labels (toRows B m P0)).2 i k * P' i k
      = P0 i 0 * P' i 0 := by
    rw [Finset.sum_eq_single 0]
    · rw [demoLoss_coef B m hm labels P0 i 0 hi']; simp
    · intro k _ hk; rw [demoLoss_coef B m hm labels P0 i k hi']; simp [hk]
    · intro h; exact absurd (Finset.mem_range.2 (by omega)) h
  rw [hs]
  have h := ((hd i hi' 0 (by omega)).fun_pow 2).div_const 2
  refine h.congr_deriv ?_
  rw [h0 i hi' 0 (by omega)]
  first | (norm_num; done) | (norm_num; ring)

/-- three batches of two rows each -/
noncomputable def demoBatches (b : ℕ) : Batch ℝ Unit :=
  { n := 2, X := fun i _ => (b : ℝ) + i + 1, labels := [(), ()] }

/-- (1) `loss_through_model`: all hypotheses hold for the demo model and loss, any batch -/
example (t0 : ℝ) (B : ℕ) (X : ℕ → ℕ → ℝ) (labels : List Unit) :
    HasDerivAt (fun t => demoLoss.eval labels (toRows B (demoModel t0).m ((demoModel t).evalB X)))
      (((demoModel t0).wpd B X (coefOf (demoLoss.evalDerivative labels
        (toRows B (demoModel t0).m ((demoModel t0).evalB X))).2)).getD 0 0) t0 :=
  loss_through_model demoModel t0 0 B X _ _ (demoModel_contract t0 B X)
    (demoLoss_grad B 1 (le_refl 1) labels _)

example : [1, 0].Perm (List.range (min 2 3)) := by decide

/-- (2), (3): three batches, two threads, the second thread merges first -/
example (t0 : ℝ) :
    (ErrFn.evalDerivative (demoModel t0) demoLoss demoBatches 3 2 [1, 0]).1
      = (∑ b ∈ range 3, demoLoss.eval (demoBatches b).labels (predictions (demoModel t0) (demoBatches b)))
          / (numElements demoBatches 3 : ℝ) :=
  evalDerivative_value (demoModel t0) demoLoss demoBatches 3 2 (by norm_num) (by norm_num) [1, 0]
    (by decide) (fun _ _ => rfl)

example (t0 : ℝ) (idx : ℕ) :
    (ErrFn.evalDerivative (demoModel t0) demoLoss demoBatches 3 2 [1, 0]).2.getD idx 0
      = (∑ b ∈ range 3, ((demoModel t0).wpd (demoBatches b).n (demoBatches b).X
          (coefOf (demoLoss.evalDerivative (demoBatches b).labels
            (predictions (demoModel t0) (demoBatches b))).2)).getD idx 0)
          / (numElements demoBatches 3 : ℝ) :=
  evalDerivative_gradient_entry (demoModel t0) demoLoss demoBatches 3 2 (by norm_num) (by norm_num) [1, 0]
    (by decide) (fun _ _ _ => rfl) idx

/-- (4) end-to-end: every hypothesis of `errorFunction_evalDerivative_correct` holds -/
example (t0 : ℝ) :
    (ErrFn.evalDerivative (demoModel t0) demoLoss demoBatches 3 2 [1, 0]).1
      = (∑ b ∈ range 3, demoLoss.eval (demoBatches b).labels (predictions (demoModel t0) (demoBatches b)))
          / (numElements demoBatches 3 : ℝ) ∧
    HasDerivAt
      (fun t => (∑ b ∈ range 3, demoLoss.eval (demoBatches b).labels (predictions (demoModel t) (demoBatches b)))
          / (numElements demoBatches 3 : ℝ))
      ((ErrFn.evalDerivative (demoModel t0) demoLoss demoBatches 3 2 [1, 0]).2.getD 0 0) t0 :=
  errorFunction_evalDerivative_correct demoModel t0 0 demoLoss demoBatches 3 2 (by norm_num) (by norm_num)
    [1, 0] (by decide) (fun b _ => demoModel_contract t0 _ _)
    (fun b _ => demoLoss_grad _ 1 (le_refl 1) _ _) (fun _ _ => rfl) (fun _ _ _ => rfl)

/-- the data set is not degenerate: 6 elements -/
example : numElements demoBatches 3 = 6 := by
  simp [numElements, demoBatches, List.range_succ]

/-- (5) the model contract for the weight `W[1][2]` of the third layer of the four-layer `chainDemo`
(tanh dense, logistic neurons, linear dense, softmax) and for an offset of its first layer -/
example (B : ℕ) (X : ℕ → ℕ → ℝ) :
    ModelContractAt (chainFamilyW chainDemoPre chainDemoPost chainDemoMid 2 1 2) (chainDemoMid.W 1 2)
      ((Chain.params chainDemoPre).length + (1 * chainDemoMid.nIn + 2)) B X :=
  chain_weight_contract chainDemoPre chainDemoPost chainDemoMid B 2 X 1 2
    (by simp [chainDemoMid]) (by simp [chainDemoMid]) ⟨rfl, rfl, rfl, rfl, trivial⟩
    (by simp [chainDemoPre, chainDemoMid, chainDemoPost, Chain.NoKink, Layer.NoKink])

example (B : ℕ) (X : ℕ → ℕ → ℝ) (m : Dense ℝ)
    (hm : m = { nIn := 2, nOut := 3, W := fun k j => (k : ℝ) - j, hasB := true, b := fun k => k, act := .tanh })
    (post : Chain ℝ)
    (hpost : post = (Layer.neuron .logistic 3, false) :: (Layer.dense chainDemoMid, true) :: chainDemoPost) :
    ModelContractAt
      (fun t => ofChain Real.tanh Real.exp
        ([] ++ (Layer.dense { m with b := fun k => if k = 2 then t else m.b k }, true) :: post)
        (Chain.nOut ([] ++ (Layer.dense m, true) :: post) 2))
      (m.b 2) ((Chain.params ([] : Chain ℝ)).length + (m.nOut * m.nIn + 2)) B X :=
  chain_offset_contract [] post m B 2 X 2 (by subst hm; decide) (by subst hm; rfl)
    (by subst hm hpost; exact ⟨rfl, rfl, rfl, rfl, trivial⟩)
    (by subst hm hpost; simp [chainDemoMid, chainDemoPost, Chain.NoKink, Layer.NoKink])

/-- (4)+(5) composed: `ErrorFunction` over the four-layer `chainDemo` with the demo loss, for every
data set of `B ≥ 1` batches, every thread count and every merge order -/
example (batches : ℕ → Batch ℝ Unit) (B threads : ℕ) (hB : 1 ≤ B) (hthreads : 1 ≤ threads)
    (order : List ℕ) (hperm : order.Perm (List.range (min threads B))) :
    HasDerivAt
      (fun t => (∑ b ∈ range B, demoLoss.eval (batches b).labels
          (predictions (chainFamilyW chainDemoPre chainDemoPost chainDemoMid 2 1 2 t) (batches b)))
          / (numElements batches B : ℝ))
      ((ErrFn.evalDerivative (ofChain Real.tanh Real.exp chainDemo (Chain.nOut chainDemo 2))
        demoLoss batches B threads order).2.getD
        ((Chain.params chainDemoPre).length + (1 * chainDemoMid.nIn + 2)) 0) (chainDemoMid.W 1 2) :=
  (errorFunction_chain_weight_correct chainDemoPre chainDemoPost chainDemoMid 2 1 2
    (by simp [chainDemoMid]) (by simp [chainDemoMid]) ⟨rfl, rfl, rfl, rfl, trivial⟩
    demoLoss batches B threads hB hthreads order hperm
    (fun b _ => by simp [chainDemoPre, chainDemoMid, chainDemoPost, Chain.NoKink, Layer.NoKink])
    (fun b _ => demoLoss_grad _ 2 (by norm_num) _ _) (fun _ _ => rfl)).2

/-- (6) mini-batch branch and unbiasedness on the demo data -/
example (t0 : ℝ) (b : ℕ) :
    HasDerivAt
      (fun t => demoLoss.eval (demoBatches b).labels (predictions (demoModel t) (demoBatches b))
        / ((demoBatches b).n : ℝ))
      ((miniEvalDerivative (demoModel t0) demoLoss demoBatches b).2.getD 0 0) t0 :=
  (miniEvalDerivative_correct demoLoss demoBatches demoModel t0 0 b (demoModel_contract t0 _ _)
    (demoLoss_grad _ 1 (le_refl 1) _ _) rfl (fun _ => rfl)).2

example (t0 : ℝ) :
    (∑ b ∈ range 3, miniEval (demoModel t0) demoLoss demoBatches b) / ((3 : ℕ) : ℝ)
      = ErrFn.eval (demoModel t0) demoLoss demoBatches 3 2 [1, 0] :=
  mini_expectation_eval (demoModel t0) demoLoss demoBatches 3 2 2 (by norm_num) (by norm_num) [1, 0]
    (by decide) (fun _ _ => rfl)

/-- (6) regulariser: `E t = t²`, `R t = t` at `t0 = 3`, strength `1/2` -/
example :
    HasDerivAt (fun t : ℝ => t ^ 2 + (1 / 2) * t)
      ((regEvalDerivative ((9 : ℝ), [6]) (1 / 2) ((3 : ℝ), [1])).2.getD 0 0) 3 :=
  (regEvalDerivative_correct (fun t => t ^ 2) (fun t => t) 3 (1 / 2) (9, [6]) (3, [1]) 0 rfl
    (by norm_num) rfl
    ((hasDerivAt_pow 2 (3 : ℝ)).congr_deriv (by norm_num)) (hasDerivAt_id' (3 : ℝ))).2.2

/-- (6) weighted: two batches with weights, the second batch merges first -/
noncomputable def demoWBatches (b : ℕ) : Batch ℝ Unit :=
  { n := 2, X := fun i _ => (b : ℝ) + i + 1, labels := [(), ()], weights := [1, (b : ℝ) + 2] }

example (t0 : ℝ) :
    (wEvalDerivative (demoModel t0) demoLoss demoWBatches 2 [1, 0]).1
      = wEval (demoModel t0) demoLoss demoWBatches 2 [1, 0] ∧
    HasDerivAt (fun t => wEval (demoModel t) demoLoss demoWBatches 2 [1, 0])
      ((wEvalDerivative (demoModel t0) demoLoss demoWBatches 2 [1, 0]).2.getD 0 0) t0 :=
  wEvalDerivative_correct demoLoss demoWBatches demoModel t0 0 2 [1, 0] (by decide)
    (fun b _ => demoModel_contract t0 _ _)
    (fun b _ j _ => by
      have h := demoLoss_grad 1 1 (le_refl 1) (((demoWBatches b).labels.drop j).take 1)
        (fun _ k => (demoModel t0).evalB (demoWBatches b).X j k)
      have e : toRows 1 1 (fun _ k => (demoModel t0).evalB (demoWBatches b).X j k)
          = [(predictions (demoModel t0) (demoWBatches b)).getD j []] := by
        rw [toRows_one]
        unfold predictions
        rw [toRows_getD _ _ _ _ (by assumption)]
        rfl
      rw [e] at h
      exact h)
    (fun _ _ _ _ => rfl) (fun _ _ _ => rfl)

/-- regularised error function on the demo data: `R t = t²/2` (two-norm regulariser of the one weight) -/
example (t0 : ℝ) :
    HasDerivAt
      (fun t => (∑ b ∈ range 3, demoLoss.eval (demoBatches b).labels (predictions (demoModel t) (demoBatches b)))
          / (numElements demoBatches 3 : ℝ) + (1 / 10) * (t ^ 2 / 2))
      ((regEvalDerivative (ErrFn.evalDerivative (demoModel t0) demoLoss demoBatches 3 2 [1, 0]) (1 / 10)
        (t0 ^ 2 / 2, [t0])).2.getD 0 0) t0 :=
  (errorFunction_reg_evalDerivative_correct demoModel t0 0 demoLoss demoBatches 3 2 (by norm_num) (by norm_num)
    [1, 0] (by decide) (fun b _ => demoModel_contract t0 _ _)
    (fun b _ => demoLoss_grad _ 1 (le_refl 1) _ _) (fun _ _ => rfl) (fun _ _ _ => rfl)
    (fun t => t ^ 2 / 2) (1 / 10) (t0 ^ 2 / 2, [t0]) rfl rfl
    (((hasDerivAt_pow 2 t0).div_const 2).congr_deriv (by simp))).2

end Demo

end SharkVerif.ErrFn
