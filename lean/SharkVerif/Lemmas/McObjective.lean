/- The objective reported by functionValue() is the dual objective (given the gradient invariant). -/
import SharkVerif.Lemmas.McOptimality
namespace SharkVerif.Mc
open Finset

/-- `functionValue() = 0.5 * inner_prod(m_gradient + m_linear, m_alpha)` is the dual objective when the stored
gradient is the true gradient -/
theorem functionValue_eq_dualObj (N : Nat) (lin : Nat → Rat) (Q : Nat → Nat → Rat) (a : Nat → Rat) :
    (1/2) * ∑ v ∈ range N, (dualGrad N lin Q a v + lin v) * a v = dualObj N lin Q a := by
  unfold dualGrad dualObj
  have h : ∀ v ∈ range N, (lin v - ∑ w ∈ range N, Q v w * a w + lin v) * a v
      = 2 * (lin v * a v) - ∑ w ∈ range N, a v * Q v w * a w := by
    intro v _
    rw [Finset.sum_congr rfl (fun w _ => show a v * Q v w * a w = a v * (Q v w * a w) by ring), ← Finset.mul_sum]
    ring
  rw [Finset.sum_congr rfl h, Finset.sum_sub_distrib, ← Finset.mul_sum]
  ring

end SharkVerif.Mc
